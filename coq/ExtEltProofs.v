(** C04 -- external elements: a write changes exactly the addressed bytes of the element, never shrinks it and never
    touches the foreign bytes in front of it; pins of the call skeletons the hand-written models rely on. *)
From Coq Require Import ZArith List Bool Lia String.
Require Import H4.gen.Gen_Chunk H4.ChunkModel H4.ExtEltModel.
Import ListNotations.
Local Open Scope Z_scope.

(** the calls the transfer loops of hchunks.c make to the arithmetic functions and the cache, in order, and the
    arguments handed to HXcreate / fseek by the external-file routines (regenerated from the sources) *)
Lemma call_skeletons :
  HMCPseek_q_calls = ["update_chunk_indices_seek(offset, info->ndims, info->nt_size, info->seek_chunk_indices, info->seek_pos_chunk, info->ddims)"%string] /\
  HMCPread_q_calls =
    ["update_chunk_indices_seek(access_rec->posn, info->ndims, info->nt_size, info->seek_chunk_indices, info->seek_pos_chunk, info->ddims)"%string;
     "calculate_chunk_num(&chunk_num, info->ndims, info->seek_chunk_indices, info->ddims)"%string;
     "calculate_chunk_for_chunk(&chunk_size, info->ndims, info->nt_size, read_len, bytes_read, info->seek_chunk_indices, info->seek_pos_chunk, info->ddims)"%string;
     "mcache_get(info->chk_cache, chunk_num + 1, 0)"%string;
     "calculate_seek_in_chunk(&read_seek, info->ndims, info->nt_size, info->seek_pos_chunk, info->ddims)"%string;
     "memcpy(bptr, chk_dptr, (size_t)chunk_size)"%string;
     "mcache_put(info->chk_cache, chk_data, 0)"%string;
     "update_chunk_indices_seek(relative_posn, info->ndims, info->nt_size, info->seek_chunk_indices, info->seek_pos_chunk, info->ddims)"%string] /\
  HMCPwrite_q_calls =
    ["update_chunk_indices_seek(access_rec->posn, info->ndims, info->nt_size, info->seek_chunk_indices, info->seek_pos_chunk, info->ddims)"%string;
     "calculate_chunk_num(&chunk_num, info->ndims, info->seek_chunk_indices, info->ddims)"%string;
     "calculate_chunk_for_chunk(&chunk_size, info->ndims, info->nt_size, write_len, bytes_written, info->seek_chunk_indices, info->seek_pos_chunk, info->ddims)"%string;
     "tbbtdfind(info->chk_tree, &chunk_num, ((void *)0))"%string;
     "tbbtdins(info->chk_tree, chkptr, chk_key)"%string;
     "mcache_get(info->chk_cache, chunk_num + 1, 0)"%string;
     "calculate_seek_in_chunk(&write_seek, info->ndims, info->nt_size, info->seek_pos_chunk, info->ddims)"%string;
     "memcpy(chk_dptr, bptr, (size_t)chunk_size)"%string;
     "mcache_put(info->chk_cache, chk_data, 0x01)"%string;
     "update_chunk_indices_seek(relative_posn, info->ndims, info->nt_size, info->seek_chunk_indices, info->seek_pos_chunk, info->ddims)"%string] /\
  HMCreadChunk_q_calls =
    ["calculate_chunk_num(&chunk_num, info->ndims, origin, info->ddims)"%string;
     "mcache_get(info->chk_cache, chunk_num + 1, 0)"%string;
     "memcpy(bptr, chk_dptr, (size_t)read_len)"%string;
     "mcache_put(info->chk_cache, chk_data, 0)"%string;
     "update_seek_pos_chunk(bytes_read, info->ndims, info->nt_size, info->seek_pos_chunk, info->ddims)"%string;
     "compute_chunk_to_array(info->seek_chunk_indices, info->seek_pos_chunk, info->seek_user_indices, info->ndims, info->ddims)"%string;
     "compute_array_to_seek(&relative_posn, info->seek_user_indices, info->nt_size, info->ndims, info->ddims)"%string] /\
  HMCwriteChunk_q_calls =
    ["calculate_chunk_num(&chunk_num, info->ndims, origin, info->ddims)"%string;
     "tbbtdfind(info->chk_tree, &chunk_num, ((void *)0))"%string;
     "tbbtdins(info->chk_tree, chkptr, chk_key)"%string;
     "mcache_get(info->chk_cache, chunk_num + 1, 0)"%string;
     "memcpy(chk_dptr, bptr, (size_t)write_len)"%string;
     "mcache_put(info->chk_cache, chk_data, 0x01)"%string;
     "update_seek_pos_chunk(bytes_written, info->ndims, info->nt_size, info->seek_pos_chunk, info->ddims)"%string;
     "compute_chunk_to_array(info->seek_chunk_indices, info->seek_pos_chunk, info->seek_user_indices, info->ndims, info->ddims)"%string;
     "compute_array_to_seek(&relative_posn, info->seek_user_indices, info->nt_size, info->ndims, info->ddims)"%string] /\
  GRsetexternalfile_q_calls =
    ["HXcreate(ri_ptr->gr_ptr->hdf_file_id, ri_ptr->img_tag, ri_ptr->img_ref, filename, offset, 0)"%string] /\
  SDsetexternalfile_q_calls =
    ["HXcreate(handle->hdf_file, (uint16)((uint16)702), (uint16)var->data_ref, filename, offset, (int32)0)"%string;
     "HXcreate(handle->hdf_file, (uint16)((uint16)702), (uint16)var->data_ref, filename, offset, length)"%string] /\
  HXPwrite_q_calls =
    ["fseek((info->file_external), (long)(access_rec->posn + info->extern_offset), 0)"%string;
     "fwrite((data), 1, (size_t)(length), (info->file_external))"%string;
     "fseek((f), (long)(access_rec->posn + info->extern_offset), 0)"%string;
     "fwrite((data), 1, (size_t)(length), (f))"%string] /\
  HXPread_q_calls =
    ["fseek((info->file_external), (long)(access_rec->posn + info->extern_offset), 0)"%string;
     "fread((data), 1, (size_t)(length), (info->file_external))"%string].
Proof. repeat split; reflexivity. Qed.

(** how the three places of mfgr.c that need the image's fill pixel -- GRsetchunk (fill pixel of the chunked element),
    GRwriteimage and GRreadimage (contiguous images) -- test the result of the attribute lookup: GRfindattr returns the
    attribute's INDEX or FAIL, so all three must compare with FAIL, and in the same way *)
Lemma fill_lookup_uniform :
  GRreadimage_q_conds = ["(at_index = GRfindattr(riid, 'FillValue')) != (-1)"%string] /\
  GRsetchunk_q_conds = GRreadimage_q_conds /\ GRwriteimage_q_conds = GRreadimage_q_conds.
Proof. repeat split; reflexivity. Qed.

Lemma xfile_write_spec : forall data f a k,
  xfile_write f a data k = if (a <=? k) && (k <? a + Z.of_nat (List.length data)) then nth (Z.to_nat (k - a)) data 0 else f k.
Proof.
  induction data as [|b r IH]; intros f a k; simpl List.length.
  - simpl. destruct (Z.leb_spec a k); destruct (Z.ltb_spec k (a + 0)); simpl; auto; lia.
  - cbn [xfile_write]. rewrite IH. rewrite Nat2Z.inj_succ.
    destruct (Z.eqb_spec k a) as [->|Hne].
    + destruct (Z.leb_spec (a + 1) a); [lia|]. cbn [andb].
      destruct (Z.leb_spec a a); [|lia]. destruct (Z.ltb_spec a (a + Z.succ (Z.of_nat (List.length r)))); [|lia].
      cbn [andb]. replace (Z.to_nat (a - a)) with O by lia. reflexivity.
    + destruct (Z.leb_spec (a + 1) k); destruct (Z.leb_spec a k); try lia; cbn [andb];
        destruct (Z.ltb_spec k (a + 1 + Z.of_nat (List.length r)));
        destruct (Z.ltb_spec k (a + Z.succ (Z.of_nat (List.length r)))); try lia; cbn [andb].
      all: try reflexivity.
      replace (Z.to_nat (k - a)) with (S (Z.to_nat (k - (a + 1)))) by lia. reflexivity.
Qed.

(** HXPwrite: the element byte q is file byte extern_offset + q.  After writing [data] at position posn:
    - the element's length is max(old length, posn + len): it never shrinks, whatever the offset;
    - element bytes [posn, posn+len) are the data, every other element byte keeps its value;
    - the foreign bytes in front of the element (file positions below extern_offset) keep their value. *)
Lemma hxp_write_refines : forall x f data,
  0 <= x_posn x -> 0 <= x_offset x ->
  let x' := fst (hxp_write x f data) in let f' := snd (hxp_write x f data) in
  let len := Z.of_nat (List.length data) in
  x_length x' = Z.max (x_length x) (x_posn x + len) /\ x_posn x' = x_posn x + len /\ x_offset x' = x_offset x /\
  (forall q, 0 <= q ->
     f' (x_offset x + q) = if (x_posn x <=? q) && (q <? x_posn x + len) then nth (Z.to_nat (q - x_posn x)) data 0
                          else f (x_offset x + q)) /\
  (forall k, k < x_offset x -> f' k = f k).
Proof.
  intros x f data Hp Ho. cbv zeta. unfold hxp_write. cbn [fst snd x_length x_posn x_offset].
  unfold HXPwrite_q_access_rec_posn_0, HXPwrite_q_if_3, HXPwrite_q_info_length_0, truthy.
  split; [|split; [reflexivity|split; [reflexivity|split]]].
  - destruct (Z.ltb_spec (x_length x) (x_posn x + Z.of_nat (List.length data))); simpl; lia.
  - intros q Hq. rewrite xfile_write_spec.
    replace (x_offset x + q - (x_posn x + x_offset x)) with (q - x_posn x) by ring.
    destruct (Z.leb_spec (x_posn x + x_offset x) (x_offset x + q)); destruct (Z.leb_spec (x_posn x) q); try lia;
      destruct (Z.ltb_spec (x_offset x + q) (x_posn x + x_offset x + Z.of_nat (List.length data)));
      destruct (Z.ltb_spec q (x_posn x + Z.of_nat (List.length data))); try lia; reflexivity.
  - intros k Hk. rewrite xfile_write_spec.
    destruct (Z.leb_spec (x_posn x + x_offset x) k); [lia|reflexivity].
Qed.

(** HXPread returns the element bytes [posn, posn+len) when they lie inside the element *)
Lemma hxp_read_refines : forall x f len, 0 <= x_posn x -> 1 <= len -> x_posn x + len <= x_length x ->
  exists x' out, hxp_read x f len = Some (x', out) /\ x_posn x' = x_posn x + len /\ x_length x' = x_length x /\
    Z.of_nat (List.length out) = len /\
    forall i, 0 <= i < len -> nth (Z.to_nat i) out 0 = f (x_offset x + (x_posn x + i)).
Proof.
  intros x f len Hp Hl Hin. unfold hxp_read, HXPread_q_if_0, HXPread_q_if_1, HXPread_q_if_2, HXPread_q_length_0,
    HXPread_q_access_rec_posn_0, truthy.
  destruct (Z.ltb_spec len 0); [lia|]. simpl negb. cbv iota.
  destruct (Z.eqb_spec len 0); [lia|].
  destruct (Z.ltb_spec (x_length x) (x_posn x + len)); [lia|]. simpl.
  destruct (Z.ltb_spec len 0); [lia|]. simpl.
  eexists; eexists. split; [reflexivity|]. cbn [x_posn x_length]. repeat split.
  - rewrite map_length, seq_length. lia.
  - intros i Hi. rewrite nth_indep with (d' := f (x_posn x + x_offset x + Z.of_nat 0)) by (rewrite map_length, seq_length; lia).
    rewrite (map_nth (fun k => f (x_posn x + x_offset x + Z.of_nat k))). rewrite seq_nth by lia. f_equal. lia.
Qed.
