(** C11 -- implementation model M of mfan.c (multi-file annotation interface) and of the single-file DFAN
    directory (dfan.c), as the C code performs them, after the fix: commits recorded in known_findings.d/C11.json.
    No proofs here (ANProofs.v).

    Below the annotation code sits the element layer, entered here through its specification (C01/C12): the
    file is the list of its data descriptors [dd] in directory order, each with its bytes; Hnumber counts,
    Hstartread(wildcard)/Hnextread walk in directory order, Hstartwrite on a missing tag/ref appends a descriptor,
    HDreuse_tagref + Hstartwrite replace the bytes in place, Htagnewref returns the least unused ref of a tag.
    The TBBT is the list of its (key, entry) pairs in tbbtfirst/tbbtnext order -- ordered by ANIanncmp, which
    sorts larger keys first -- and the atom table a counter with an association list. *)
From Coq Require Import ZArith List Bool.
Require Import H4.gen.Gen_AN H4.ANSpec.
Import ListNotations.
Local Open Scope Z_scope.

(* ---- small helpers --------------------------------------------------------------------------------- *)
Fixpoint zassoc {A} (k : Z) (l : list (Z * A)) : option A :=
  match l with [] => None | (k', v) :: t => if k =? k' then Some v else zassoc k t end.
Definition truth (z : Z) : bool := negb (z =? 0).          (* a C truth value *)
Definition upd {A} (f : Z -> A) (k : Z) (v : A) : Z -> A := fun k' => if k' =? k then v else f k'.

(* ---- type <-> tag: the switch tables regenerated from mfan.c ------------------------------------------- *)
Definition atype2tag (t : Z) : option Z := zassoc t ANatype2tag_ann_tag_switch.     (* None: the default branch *)
Definition tag2atype (g : Z) : option Z := zassoc g ANtag2atype_atype_switch.
Definition m_atype2tag (t : Z) : Z := match atype2tag t with Some g => g | None => DFTAG_NULL end.
Definition m_tag2atype (g : Z) : Z := match tag2atype g with Some t => t | None => AN_UNDEF end.
Definition is_data_type (t : Z) : bool := (t =? AN_DATA_LABEL) || (t =? AN_DATA_DESC).
Definition is_label_tag (g : Z) : bool := (g =? DFTAG_FID) || (g =? DFTAG_DIL).
Definition is_data_tag (g : Z) : bool := (g =? DFTAG_DIL) || (g =? DFTAG_DIA).

(* ---- annotation payload: 4-byte target prefix (data annotations) + text ------------------------------ *)
Definition encode_target (tag ref : Z) : list Z :=
  [UINT16ENCODE_b0 tag; UINT16ENCODE_b1 tag; UINT16ENCODE_b0 ref; UINT16ENCODE_b1 ref].
Definition payload (anntag elmtag elmref : Z) (text : list Z) : list Z :=
  if is_data_tag anntag then encode_target elmtag elmref ++ text else text.
Definition decode_target (data : list Z) : Z * Z :=
  (UINT16DECODE (nth 0 data 0) (nth 1 data 0), UINT16DECODE (nth 2 data 0) (nth 3 data 0)).
Definition payload_text (anntag : Z) (data : list Z) : list Z := if is_data_tag anntag then skipn 4 data else data.

(* ---- the element layer (specification level) -------------------------------------------------------- *)
Record dd := mkdd { d_tag : Z; d_ref : Z; d_data : list Z }.
Definition dd_is (tag ref : Z) (d : dd) : bool := (d_tag d =? tag) && (d_ref d =? ref).
Definition of_tag (tag : Z) (dds : list dd) : list dd := filter (fun d => d_tag d =? tag) dds.
Definition hfind (tag ref : Z) (dds : list dd) : option dd := find (dd_is tag ref) dds.
Definition hnumber (tag : Z) (dds : list dd) : Z := zlen (of_tag tag dds).
Fixpoint hput (tag ref : Z) (data : list Z) (dds : list dd) : list dd :=
  match dds with
  | [] => [mkdd tag ref data]
  | d :: t => if dd_is tag ref d then mkdd tag ref data :: t else d :: hput tag ref data t
  end.
(** the dd that follows (tag, ref) among the dds of that tag (Hnextread, DF_CURRENT, wildcard ref) *)
Fixpoint dd_after (ref : Z) (l : list dd) : option dd :=
  match l with [] => None | d :: t => if d_ref d =? ref then hd_error t else dd_after ref t end.
(** least r >= from that is not in [used]; one of length used + 1 consecutive values is free *)
Definition first_free (from : Z) (used : list Z) : option Z :=
  find (fun r => negb (existsb (Z.eqb r) used)) (map (fun i => from + Z.of_nat i) (seq 0 (S (length used)))).
Definition htagnewref (tag : Z) (dds : list dd) : Z :=
  match first_free 1 (map d_ref (of_tag tag dds)) with Some r => if r <=? MAX_REF then r else 0 | None => 0 end.

(* ---- TBBT of one annotation type ---------------------------------------------------------------------- *)
Record entry := mkentry { e_id : Z; e_annref : Z; e_elmtag : Z; e_elmref : Z }.
Definition tree := list (Z * entry).
(** tbbtdins: descend left when the comparison is negative; duplicates are refused *)
Fixpoint tins (k : Z) (e : entry) (t : tree) : option tree :=
  match t with
  | [] => Some [(k, e)]
  | (k', e') :: r =>
      let c := ANIanncmp k k' in
      if c =? 0 then None
      else if c <? 0 then Some ((k, e) :: t)
      else match tins k e r with Some r' => Some ((k', e') :: r') | None => None end
  end.
Fixpoint tfind (k : Z) (t : tree) : option entry :=
  match t with [] => None | (k', e) :: r => if ANIanncmp k k' =? 0 then Some e else tfind k r end.
Definition tindex (i : Z) (t : tree) : option entry :=                      (* tbbtindx, 1-based *)
  if i <? 1 then None else option_map snd (nth_error t (Z.to_nat (i - 1))).

(* ---- library state ---------------------------------------------------------------------------------------- *)
Record node := mknode { n_key : Z; n_new : bool }.                          (* ANnode (single file) *)
Record dirent := mkdirent { de_annref : Z; de_tag : Z; de_ref : Z }.        (* DFANdirentry *)
Record lstate := mkl {
  l_dds : list dd;
  l_tree : Z -> option tree;          (* file_rec->an_tree[type]; None = NULL *)
  l_num : Z -> Z;                     (* file_rec->an_num[type]; -1 = not loaded *)
  l_atoms : list (Z * node);          (* ANIDGROUP *)
  l_next : Z;                         (* next atom *)
  l_dir : Z -> option (list (list dirent));   (* DFANdir[2]: list of blocks *)
  l_lastref : Z;
  l_nextf : Z -> Z;                   (* Next_label_ref / Next_desc_ref *)
  l_nomore : Z -> bool                (* No_more_labels / No_more_descs *)
}.
Definition linit : lstate :=
  mkl [] (fun _ => None) (fun _ => -1) [] 0 (fun _ => None) 0 (fun _ => 0) (fun _ => false).
Definition set_dds (s : lstate) v := mkl v (l_tree s) (l_num s) (l_atoms s) (l_next s) (l_dir s) (l_lastref s) (l_nextf s) (l_nomore s).
Definition set_tree (s : lstate) t v n := mkl (l_dds s) (upd (l_tree s) t v) (upd (l_num s) t n) (l_atoms s) (l_next s) (l_dir s) (l_lastref s) (l_nextf s) (l_nomore s).
Definition set_atoms (s : lstate) a nx := mkl (l_dds s) (l_tree s) (l_num s) a nx (l_dir s) (l_lastref s) (l_nextf s) (l_nomore s).
Definition set_dir (s : lstate) k v := mkl (l_dds s) (l_tree s) (l_num s) (l_atoms s) (l_next s) (upd (l_dir s) k v) (l_lastref s) (l_nextf s) (l_nomore s).
Definition set_lastref (s : lstate) r := mkl (l_dds s) (l_tree s) (l_num s) (l_atoms s) (l_next s) (l_dir s) r (l_nextf s) (l_nomore s).
Definition set_enum (s : lstate) k r nm := mkl (l_dds s) (l_tree s) (l_num s) (l_atoms s) (l_next s) (l_dir s) (l_lastref s) (upd (l_nextf s) k r) (upd (l_nomore s) k nm).

Definition FAILV : Z := -1.

(* ---- mfan.c -------------------------------------------------------------------------------------------------- *)
(** what ANIcreate_ann_tree's loop body and ANIaddentry have in common: register the ANnode as an atom, fill
    the ANentry, tbbtdins it under AN_CREATE_KEY(type, ref).  None: tbbtdins refused a duplicate key. *)
Definition add_core (s : lstate) (type annref elmtag elmref : Z) (new : bool) : option (lstate * Z) :=
  match l_tree s type with
  | None => None
  | Some t =>
      let key := AN_CREATE_KEY type annref in
      let id := l_next s in
      match tins key (mkentry id annref elmtag elmref) t with
      | None => None
      | Some t' => Some (set_atoms (set_tree s type (Some t') (l_num s type)) ((id, mknode key new) :: l_atoms s) (id + 1), id)
      end
  end.

(** loop of ANIcreate_ann_tree over the annotations of one tag, in directory order *)
Fixpoint load_tree (type anntag : Z) (els : list dd) (s : lstate) : option lstate :=
  match els with
  | [] => Some s
  | d :: rest =>
      let tg := if is_data_type type then decode_target (d_data d) else (anntag, d_ref d) in
      match add_core s type (d_ref d) (fst tg) (snd tg) false with
      | None => None
      | Some (s', _) => load_tree type anntag rest s'
      end
  end.

(** ANIcreate_ann_tree: returns the new state and the number of annotations (FAILV on failure) *)
Definition ANIcreate_ann_tree (s : lstate) (type : Z) : lstate * Z :=
  if negb (l_num s type =? -1) then (s, l_num s type) else
  let s0 := set_tree s type (Some []) 0 in
  match atype2tag type with
  | None => (s0, FAILV)
  | Some anntag =>
      let els := of_tag anntag (l_dds s) in
      match load_tree type anntag els s0 with
      | None => (s0, FAILV)
      | Some s1 => (set_tree s1 type (l_tree s1 type) (zlen els), zlen els)
      end
  end.

(** ANIaddentry (when tbbtdins refuses the key the registered atom is left behind, as in the C code) *)
Definition ANIaddentry (s : lstate) (type annref elmtag elmref : Z) (new : bool) : lstate * Z :=
  let s1 := if l_num s type =? -1 then set_tree s type (Some []) 0 else s in
  match atype2tag type with
  | None => (s1, FAILV)
  | Some anntag =>
      let tg := if is_data_type type then (elmtag, elmref) else (anntag, annref) in
      match add_core s1 type annref (fst tg) (snd tg) new with
      | Some (s2, id) => (set_tree s2 type (l_tree s2 type) (l_num s2 type + 1), id)
      | None => (set_atoms s1 ((l_next s1, mknode (AN_CREATE_KEY type annref) new) :: l_atoms s1) (l_next s1 + 1), FAILV)
      end
  end.

(** ANInewref: Htagnewref, then skip refs present in the tree or in the file *)
Definition tree_refs (t : tree) : list Z := map (fun p => e_annref (snd p)) t.
Definition ANInewref (s : lstate) (type anntag : Z) : Z :=
  let r0 := htagnewref anntag (l_dds s) in
  if r0 =? 0 then 0 else
  let used := tree_refs (match l_tree s type with Some t => t | None => [] end) ++ map d_ref (of_tag anntag (l_dds s)) in
  match first_free r0 used with Some r => if r <=? MAX_REF then r else 0 | None => 0 end.

(** ANIcreate (ANcreate / ANcreatef) *)
Definition ANIcreate (s : lstate) (elmtag elmref type : Z) : lstate * Z :=
  match atype2tag type with
  | None => (s, FAILV)
  | Some anntag =>
      let '(s1, n) := if l_num s type =? -1 then ANIcreate_ann_tree s type else (s, 0) in
      if n =? FAILV then (s1, FAILV) else
      let annref := ANInewref s1 type anntag in
      let tg := if is_data_type type then (elmtag, elmref) else (anntag, annref) in
      if (annref =? 0) || (fst tg =? 0) || (snd tg =? 0) then (s1, FAILV)
      else ANIaddentry s1 type annref (fst tg) (snd tg) true
  end.
Definition ANcreatef (s : lstate) (type : Z) : lstate * Z :=
  match zassoc type ANcreatef_ann_tag_switch with
  | None => (s, FAILV)
  | Some anntag => ANIcreate s anntag 0 type
  end.

Fixpoint set_node (id : Z) (n : node) (l : list (Z * node)) : list (Z * node) :=
  match l with [] => [] | (i, x) :: t => if i =? id then (i, n) :: t else (i, x) :: set_node id n t end.

(** ANIwriteann.  A zero-length text makes the final Hwrite fail after the element was (re)created. *)
Definition ANIwriteann (s : lstate) (id : Z) (text : list Z) : lstate * bool :=
  match zassoc id (l_atoms s) with
  | None => (s, false)
  | Some nd =>
      let type := AN_KEY2TYPE (n_key nd) in
      let annref := AN_KEY2REF (n_key nd) in
      match atype2tag type, l_tree s type with
      | Some anntag, Some t =>
          match tfind (n_key nd) t with
          | None => (s, false)
          | Some e =>
              let s1 := if n_new nd then set_atoms s (set_node id (mknode (n_key nd) false) (l_atoms s)) (l_next s) else s in
              if negb (n_new nd) && match hfind anntag annref (l_dds s) with None => true | Some _ => false end
              then (s1, false)                                               (* HDreuse_tagref: no such descriptor *)
              else (set_dds s1 (hput anntag annref (payload anntag (e_elmtag e) (e_elmref e) text) (l_dds s1)),
                    negb (zlen text =? 0))
          end
      | _, _ => (s, false)
      end
  end.

(** what Hread(aid, n, buf) does to a buffer: n = 0 means "the rest of the element" *)
Definition poke (buf : list Z) (bytes : list Z) : list Z := bytes ++ skipn (length bytes) buf.
Definition poke_at (buf : list Z) (i : Z) (b : Z) : list Z :=
  firstn (Z.to_nat i) buf ++ [b] ++ skipn (S (Z.to_nat i)) buf.

(** ANIreadann into a buffer of [maxlen] bytes holding [FILL]; None = FAIL *)
Definition ANIreadann (s : lstate) (id maxlen : Z) : option (list Z) :=
  match zassoc id (l_atoms s) with
  | None => None
  | Some nd =>
      match atype2tag (AN_KEY2TYPE (n_key nd)) with
      | None => None
      | Some anntag =>
          match hfind anntag (AN_KEY2REF (n_key nd)) (l_dds s) with
          | None => None
          | Some d =>
              let len0 := zlen (d_data d) - (if is_data_tag anntag then 4 else 0) in
              let len := if is_label_tag anntag
                         then (if truth (ANIreadann_label_trunc len0 maxlen) then maxlen - 1 else len0)
                         else (if truth (ANIreadann_desc_trunc len0 maxlen) then maxlen else len0) in
              if len <? 0 then None else
              let buf := repeat FILL (Z.to_nat maxlen) in
              let buf1 := if truth (ANIreadann_reads len)
                          then poke buf (firstn (Z.to_nat len) (payload_text anntag (d_data d))) else buf in
              Some (if is_label_tag anntag then poke_at buf1 len 0 else buf1)
          end
      end
  end.

Definition ANIannlen (s : lstate) (id : Z) : Z :=
  match zassoc id (l_atoms s) with
  | None => FAILV
  | Some nd =>
      match atype2tag (AN_KEY2TYPE (n_key nd)) with
      | None => FAILV
      | Some anntag =>
          match hfind anntag (AN_KEY2REF (n_key nd)) (l_dds s) with
          | None => FAILV
          | Some d => zlen (d_data d) - (if is_data_tag anntag then 4 else 0)
          end
      end
  end.

(** the tree of a type, loaded on demand; None = failure *)
Definition need_tree (s : lstate) (type : Z) : lstate * option tree :=
  let '(s1, n) := if l_num s type =? -1 then ANIcreate_ann_tree s type else (s, 0) in
  if n =? FAILV then (s1, None) else (s1, l_tree s1 type).

Definition ANIannlist (s : lstate) (type elem_tag elem_ref : Z) : lstate * option (list Z) :=
  match need_tree s type with
  | (s1, None) => (s1, None)
  | (s1, Some t) =>
      (s1, Some (map (fun p => e_id (snd p))
                     (filter (fun p => truth (ANIannlist_match (e_elmtag (snd p)) (e_elmref (snd p)) elem_tag elem_ref)) t)))
  end.
Definition ANInumann (s : lstate) (type elem_tag elem_ref : Z) : lstate * Z :=
  match need_tree s type with
  | (s1, None) => (s1, FAILV)
  | (s1, Some t) =>
      (s1, zlen (filter (fun p => truth (ANInumann_match (e_elmtag (snd p)) (e_elmref (snd p)) elem_tag elem_ref)) t))
  end.
Definition ANnumann (s : lstate) (type tg rf : Z) : lstate * Z :=
  if (type =? AN_FILE_LABEL) || (type =? AN_FILE_DESC) then (s, FAILV) else ANInumann s type tg rf.
Definition ANannlist (s : lstate) (type tg rf : Z) : lstate * option (list Z) :=
  if (type =? AN_FILE_LABEL) || (type =? AN_FILE_DESC) then (s, None) else ANIannlist s type tg rf.

Definition ANselect (s : lstate) (index type : Z) : lstate * Z :=
  match need_tree s type with
  | (s1, None) => (s1, FAILV)
  | (s1, Some t) =>
      if truth (ANselect_index_ok index (l_num s1 type))
      then match tindex (index + 1) t with Some e => (s1, e_id e) | None => (s1, FAILV) end
      else (s1, FAILV)
  end.

(** the ANentry field a statement reads (which one is regenerated from the source: 0 annref, 1 elmtag, 2 elmref, 3 ann_id) *)
Definition efield (f : Z) (e : entry) : Z :=
  if f =? 0 then e_annref e else if f =? 1 then e_elmtag e else if f =? 2 then e_elmref e else e_id e.

Definition ANget_tagref (s : lstate) (index type : Z) : lstate * option (Z * Z) :=
  match need_tree s type with
  | (s1, None) => (s1, None)
  | (s1, Some t) =>
      if truth (ANget_tagref_index_ok index (l_num s1 type))
      then match tindex (index + 1) t, zassoc type ANget_tagref_tag_switch with
           | Some e, Some g => (s1, Some (g, efield ANget_tagref_ref_field e))
           | _, _ => (s1, None)
           end
      else (s1, None)
  end.

Definition ANid2tagref (s : lstate) (id : Z) : option (Z * Z) :=
  match zassoc id (l_atoms s) with
  | None => None
  | Some nd => match zassoc (AN_KEY2TYPE (n_key nd)) ANid2tagref_tag_switch with
               | Some g => Some (g, AN_KEY2REF (n_key nd))
               | None => None
               end
  end.

Definition ANtagref2id (s : lstate) (anntag annref : Z) : lstate * Z :=
  match zassoc anntag ANtagref2id_type_switch with
  | None => (s, FAILV)
  | Some type =>
      match need_tree s type with
      | (s1, None) => (s1, FAILV)
      | (s1, Some t) => match tfind (AN_CREATE_KEY type annref) t with Some e => (s1, e_id e) | None => (s1, FAILV) end
      end
  end.

Definition ANfileinfo (s : lstate) : lstate * option (list Z) :=
  let '(s1, a) := ANIcreate_ann_tree s AN_FILE_LABEL in
  if a =? FAILV then (s1, None) else
  let '(s2, b) := ANIcreate_ann_tree s1 AN_FILE_DESC in
  if b =? FAILV then (s2, None) else
  let '(s3, c) := ANIcreate_ann_tree s2 AN_DATA_LABEL in
  if c =? FAILV then (s3, None) else
  let '(s4, d) := ANIcreate_ann_tree s3 AN_DATA_DESC in
  if d =? FAILV then (s4, None) else (s4, Some [a; b; c; d]).

(** ANend: every entry's atom is removed, the trees are freed *)
Definition ANend (s : lstate) : lstate :=
  let ids := concat (map (fun ty => match l_tree s ty with Some t => map (fun p => e_id (snd p)) t | None => [] end)
                         [AN_FILE_LABEL; AN_FILE_DESC; AN_DATA_LABEL; AN_DATA_DESC]) in
  mkl (l_dds s) (fun _ => None) (fun _ => -1)
      (filter (fun p => negb (existsb (Z.eqb (fst p)) ids)) (l_atoms s)) (l_next s)
      (l_dir s) (l_lastref s) (l_nextf s) (l_nomore s).

(* ---- dfan.c --------------------------------------------------------------------------------------------------- *)
Definition dfan_tag (kind : Z) : Z := if kind =? DFAN_LABEL then DFTAG_DIL else DFTAG_DIA.

(** DFANIlocate: builds the directory on first use; returns the annotation ref, 0 when there is none *)
Definition DFANIlocate (s : lstate) (kind tag ref : Z) : lstate * Z :=
  let anntag := dfan_tag kind in
  let '(s1, ok) :=
    match l_dir s kind with
    | Some _ => (s, true)
    | None =>
        let els := of_tag anntag (l_dds s) in
        if zlen els =? 0 then (s, false)
        else (set_dir s kind (Some [map (fun d => let tg := decode_target (d_data d) in
                                                 mkdirent (d_ref d) (fst tg) (snd tg)) els]), true)
    end in
  if negb ok then (s1, 0) else
  if tag =? 0 then (s1, 1) else
  match find (fun e => negb (de_annref e =? 0) && truth (DFANIlocate_match (de_tag e) (de_ref e) tag ref))
             (concat (match l_dir s1 kind with Some b => b | None => [] end)) with
  | Some e => (s1, de_annref e)
  | None => (s1, 0)
  end.

(** DFANIaddentry: first free slot of the last block, else a new block of DFAN_DEFENTRIES *)
Fixpoint fill_slot (e : dirent) (blk : list dirent) : option (list dirent) :=
  match blk with
  | [] => None
  | x :: t => if de_annref x =? 0 then Some (e :: t)
              else match fill_slot e t with Some t' => Some (x :: t') | None => None end
  end.
Definition new_block (e : dirent) : list dirent := e :: repeat (mkdirent 0 0 0) (Z.to_nat DFAN_DEFENTRIES - 1).
Fixpoint add_to_last (e : dirent) (blocks : list (list dirent)) : list (list dirent) :=
  match blocks with
  | [] => [new_block e]
  | [b] => match fill_slot e b with Some b' => [b'] | None => [b; new_block e] end
  | b :: rest => b :: add_to_last e rest
  end.
Definition DFANIaddentry (s : lstate) (kind annref tag ref : Z) : lstate :=
  set_dir s kind (Some (add_to_last (mkdirent annref tag ref) (match l_dir s kind with Some b => b | None => [] end))).

(** DFANIputann; returns success *)
Definition DFANIputann (s : lstate) (kind tag ref : Z) (text : list Z) : lstate * bool :=
  if (tag =? 0) || (ref =? 0) then (s, false) else
  let anntag := dfan_tag kind in
  let '(s1, found) := DFANIlocate s kind tag ref in
  let annref := if found =? 0 then htagnewref anntag (l_dds s1) else found in
  if annref =? 0 then (s1, false) else
  if negb (found =? 0) && match hfind anntag annref (l_dds s1) with None => true | Some _ => false end then (s1, false) else
  let s2 := set_dds s1 (hput anntag annref (encode_target tag ref ++ text) (l_dds s1)) in
  if zlen text =? 0 then (s2, false) else
  let s3 := if found =? 0 then DFANIaddentry s2 kind annref tag ref else s2 in
  (set_lastref s3 annref, true).

Definition DFANIgetannlen (s : lstate) (kind tag ref : Z) : lstate * Z :=
  if (tag =? 0) || (ref =? 0) then (s, FAILV) else
  let '(s1, annref) := DFANIlocate s kind tag ref in
  if annref =? 0 then (s1, FAILV) else
  match hfind (dfan_tag kind) annref (l_dds s1) with
  | None => (s1, FAILV)
  | Some d => (set_lastref s1 annref, zlen (d_data d) - 4)
  end.

Definition DFANIgetann (s : lstate) (kind tag ref maxlen : Z) : lstate * option (list Z) :=
  if (tag =? 0) || (ref =? 0) then (s, None) else
  let '(s1, annref) := DFANIlocate s kind tag ref in
  if annref =? 0 then (s1, None) else
  match hfind (dfan_tag kind) annref (l_dds s1) with
  | None => (s1, None)
  | Some d =>
      let len0 := zlen (d_data d) - 4 in
      let len := if kind =? DFAN_LABEL
                 then (if truth (DFANIgetann_label_trunc len0 maxlen) then maxlen - 1 else len0)
                 else (if truth (DFANIgetann_desc_trunc len0 maxlen) then maxlen else len0) in
      if len <? 0 then (s1, None) else
      let buf := repeat FILL (Z.to_nat maxlen) in
      let buf1 := if 0 <? len then poke buf (firstn (Z.to_nat len) (skipn 4 (d_data d))) else buf in
      (set_lastref s1 annref, Some (if kind =? DFAN_LABEL then poke_at buf1 len 0 else buf1))
  end.

(** DFANIaddfann *)
Definition DFANIaddfann (s : lstate) (kind : Z) (text : list Z) : lstate * bool :=
  let anntag := if kind =? DFAN_LABEL then DFTAG_FID else DFTAG_FD in
  let annref := htagnewref anntag (l_dds s) in
  if annref =? 0 then (s, false) else
  let s1 := set_dds s (hput anntag annref text (l_dds s)) in
  if zlen text =? 0 then (s1, false) else (set_lastref s1 annref, true).

(** DFANIgetfannlen / DFANIgetfann: one step of the enumeration of file labels / descriptions *)
Definition fann_tag (kind : Z) : Z := if kind =? DFAN_LABEL then DFTAG_FID else DFTAG_FD.
(** Next_label_ref / Next_desc_ref and No_more_labels / No_more_descs are the cells DFAN_LABEL / DFAN_DESC of [l_nextf] /
    [l_nomore]; WHICH cell a statement reads or writes, when an enumeration restarts, and the start ref handed to
    Hstartread (0 = wildcard = the first one) are the conditions regenerated from dfan.c (the FLEN_ and FGET_ definitions). *)
Definition sel (c : Z) : Z := if truth c then DFAN_LABEL else DFAN_DESC.
Definition b2z (b : bool) : Z := if b then 1 else 0.
Definition fann_find (tag start : Z) (dds : list dd) : option dd :=
  if start =? 0 then hd_error (of_tag tag dds) else hfind tag start dds.

Definition DFANIgetfannlen (s : lstate) (kind : Z) (isfirst : bool) : lstate * Z :=
  let isf := b2z isfirst in
  let kr := sel (FLEN_restart_label kind) in
  let s0 := if truth (FLEN_restart isf) then set_enum s kr (l_nextf s kr) false else s in
  if negb (truth (FLEN_restart isf)) &&
     truth (FLEN_exhausted kind (b2z (l_nomore s0 DFAN_LABEL)) (b2z (l_nomore s0 DFAN_DESC))) then (s0, FAILV) else
  let lab := truth (FLEN_type_label kind) in
  let tag := if lab then DFTAG_FID else DFTAG_FD in
  let start := if lab then FLEN_start_label isf (l_nextf s0 DFAN_LABEL) else FLEN_start_desc isf (l_nextf s0 DFAN_DESC) in
  match fann_find tag start (l_dds s0) with
  | None => (s0, FAILV)
  | Some d => let kw := sel (FLEN_write_label kind) in
              (set_lastref (set_enum s0 kw (d_ref d) (l_nomore s0 kw)) (d_ref d), zlen (d_data d))
  end.

(** the cursor part of DFANIgetfann: the annotation read and the state afterwards *)
Definition DFANIgetfann (s : lstate) (kind : Z) (isfirst : bool) : lstate * option (list Z) :=
  let isf := b2z isfirst in
  let kr := sel (FGET_restart_label kind) in
  let s0 := if truth (FGET_restart isf) then set_enum s kr (l_nextf s kr) false else s in
  if negb (truth (FGET_restart isf)) &&
     truth (FGET_exhausted kind (b2z (l_nomore s0 DFAN_LABEL)) (b2z (l_nomore s0 DFAN_DESC))) then (s0, None) else
  let lab := truth (FGET_type_label kind) in
  let tag := if lab then DFTAG_FID else DFTAG_FD in
  let start := if lab then FGET_start_label isf (l_nextf s0 DFAN_LABEL) else FGET_start_desc isf (l_nextf s0 DFAN_DESC) in
  match fann_find tag start (l_dds s0) with
  | None => (s0, None)
  | Some d =>
      let s1 := match dd_after (d_ref d) (of_tag tag (l_dds s0)) with
                | None => let ke := sel (FGET_end_label kind) in set_enum s0 ke (l_nextf s0 ke) true
                | Some d' => let kn := sel (FGET_next_label kind) in set_enum s0 kn (d_ref d') (l_nomore s0 kn)
                end in
      (set_lastref s1 (d_ref d), Some (d_data d))
  end.

(** the buffer part: at most maxlen bytes are read, the terminator goes to min(length, maxlen - 1); returns that length *)
Definition fann_deliver (t : list Z) (maxlen : Z) : Z * list Z :=
  let len1 := FGET_clip (zlen t) maxlen in
  let buf1 := if 0 <? len1 then poke (repeat FILL (Z.to_nat maxlen)) (firstn (Z.to_nat len1) t) else repeat FILL (Z.to_nat maxlen) in
  let len2 := if truth (FGET_trunc len1 maxlen) then maxlen - 1 else len1 in
  (len2, poke_at buf1 len2 0).

(** the harness loop: getfannlen(first), getfann(first), then with isfirst = 0 until getfannlen fails *)
Fixpoint enum_fann (fuel : nat) (s : lstate) (kind : Z) (isfirst : bool) : lstate * option (list (list Z)) :=
  match fuel with
  | O => (s, Some [])
  | S f =>
      let '(s1, n) := DFANIgetfannlen s kind isfirst in
      if n <? 0 then (s1, Some []) else
      match DFANIgetfann s1 kind isfirst with
      | (s2, None) => (s2, None)
      | (s2, Some t) => match enum_fann f s2 kind false with
                        | (s3, Some l) => (s3, Some (t :: l))
                        | (s3, None) => (s3, None)
                        end
      end
  end.

(** DFANIlablist (listsize 8, startpos 1): refs of the objects of [tag], and for each the label found last in
    the directory; [objs] are the data objects of the file in directory order *)
Definition label_for (s : lstate) (tag ref maxlen : Z) (blocks : list (list dirent)) : list Z :=
  fold_left (fun acc e =>
               if (de_tag e =? tag) && (de_ref e =? ref)
               then match hfind DFTAG_DIL (de_annref e) (l_dds s) with
                    | Some d => if 1 <? maxlen then firstn (Z.to_nat (maxlen - 1)) (skipn 4 (d_data d)) else []
                    | None => acc
                    end
               else acc) (concat blocks) [].
Definition DFANIlablist (s : lstate) (objs : list (Z * Z)) (tag maxlen : Z) : lstate * option (list Z * list (list Z)) :=
  if tag =? 0 then (s, None) else
  let orefs := firstn 8 (map snd (filter (fun o => fst o =? tag) objs)) in
  if zlen orefs =? 0 then (s, None) else
  if hnumber DFTAG_DIL (l_dds s) =? 0 then (s, Some (orefs, map (fun _ => []) orefs)) else
  let '(s1, r) := match l_dir s DFAN_LABEL with None => DFANIlocate s DFAN_LABEL 0 0 | Some _ => (s, 1) end in
  if r =? 0 then (s1, None) else
  let blocks := match l_dir s1 DFAN_LABEL with Some b => b | None => [] end in
  (s1, Some (orefs, map (fun r => label_for s1 tag r maxlen blocks) orefs)).

(** DFANIlablist with a caller-chosen listsize and startpos: the loop that collects the refs of the tag (bound and
    store condition regenerated from dfan.c: LABLIST_loop, LABLIST_store) *)
Fixpoint lablist_collect (refs : list Z) (i j nrefs listsize startpos : Z) : list Z :=
  match refs with
  | [] => []
  | r :: t =>
      if truth (LABLIST_loop i j nrefs listsize)
      then (if truth (LABLIST_store i startpos) then r :: lablist_collect t (i + 1) (j + 1) nrefs listsize startpos
            else lablist_collect t (i + 1) j nrefs listsize startpos)
      else []
  end.
Definition DFANIlablist_page (s : lstate) (objs : list (Z * Z)) (tag maxlen listsize startpos : Z)
  : lstate * option (list Z * list (list Z)) :=
  if tag =? 0 then (s, None) else
  let allrefs := map snd (filter (fun o => fst o =? tag) objs) in
  if zlen allrefs =? 0 then (s, None) else
  let orefs := lablist_collect allrefs 0 0 (zlen allrefs) listsize startpos in
  if hnumber DFTAG_DIL (l_dds s) =? 0 then (s, Some (orefs, map (fun _ => []) orefs)) else
  let '(s1, r) := match l_dir s DFAN_LABEL with None => DFANIlocate s DFAN_LABEL 0 0 | Some _ => (s, 1) end in
  if r =? 0 then (s1, None) else
  let blocks := match l_dir s1 DFAN_LABEL with Some b => b | None => [] end in
  (s1, Some (orefs, map (fun r => label_for s1 tag r maxlen blocks) orefs)).

Definition DFANIclear (s : lstate) : lstate :=
  mkl (l_dds s) (l_tree s) (l_num s) (l_atoms s) (l_next s) (fun _ => None) 0 (l_nextf s) (l_nomore s).

(* ---- the harness on top of the library (drive_an.c): slots hold identifiers -------------------------------------- *)
Record hstate := mkh { h_lib : lstate; h_slots : list (Z * Z); h_sess : bool }.
Definition hinit : hstate := mkh linit [] false.

(** output of one harness line, in the harness' own format *)
Inductive mres := MFail | MOk (vals : list Z) (bufs : list (list Z)) | MBad | MNoModel.

Definition hslot (h : hstate) (slot : Z) : Z := match zassoc slot (h_slots h) with Some id => id | None => FAILV end.
Definition hset (h : hstate) (l : lstate) (slot id : Z) : hstate :=
  mkh l ((slot, id) :: filter (fun p => negb (fst p =? slot)) (h_slots h)) (h_sess h).
Definition hlib (h : hstate) (l : lstate) : hstate := mkh l (h_slots h) (h_sess h).
Definition ptagref (l : lstate) (id : Z) : mres :=
  if id =? FAILV then MFail else
  match ANid2tagref l id with Some (g, r) => MOk [g; r] [] | None => MOk [-1; -1] [] end.
Definition refof (l : lstate) (id : Z) : Z := match ANid2tagref l id with Some (_, r) => r | None => -1 end.
Fixpoint dedup (l : list Z) : list Z :=
  match l with [] => [] | x :: t => if existsb (Z.eqb x) t then dedup t else x :: dedup t end.
Fixpoint pairs_distinct (l : list (Z * Z)) : bool :=
  match l with [] => true | p :: t => negb (existsb (fun q => (fst p =? fst q) && (snd p =? snd q)) t) && pairs_distinct t end.

Definition mstep (h : hstate) (o : op) : hstate * mres :=
  let l := h_lib h in
  match o with
  | OStart => if h_sess h then (h, MFail) else (mkh l (h_slots h) true, MOk [] [])
  | OEnd => if h_sess h then (mkh (DFANIclear (ANend l)) [] false, MOk [] []) else (h, MFail)
  | OCreate slot type ttag tref _ =>
      if negb (h_sess h) then (hset h l slot FAILV, MFail) else
      let '(l1, id) := ANIcreate l ttag tref type in (hset h l1 slot id, ptagref l1 id)
  | OCreatef slot type _ =>
      if negb (h_sess h) then (hset h l slot FAILV, MFail) else
      let '(l1, id) := ANcreatef l type in (hset h l1 slot id, ptagref l1 id)
  | OWrite slot txt => let '(l1, ok) := ANIwriteann l (hslot h slot) txt in (hlib h l1, if ok then MOk [] [] else MFail)
  | ORead slot maxlen =>
      match ANIreadann l (hslot h slot) maxlen with Some b => (h, MOk [] [b]) | None => (h, MFail) end
  | OLen slot => let n := ANIannlen l (hslot h slot) in (h, if n =? FAILV then MFail else MOk [n] [])
  | OSelect slot type idx _ =>
      if negb (h_sess h) then (hset h l slot FAILV, MFail) else
      let '(l1, id) := ANselect l idx type in (hset h l1 slot id, ptagref l1 id)
  | OSelectAll type =>
      if negb (h_sess h) then (h, MFail) else
      match ANfileinfo l with
      | (l1, None) => (hlib h l1, MFail)
      | (l1, Some _) =>
          if (type <? 0) || (3 <? type) then (hlib h l1, MFail) else
          let n := l_num l1 type in
          (hlib h l1, MOk (n :: map (fun i => let '(_, id) := ANselect l1 (Z.of_nat i) type in
                                              if id =? FAILV then -1 else refof l1 id) (seq 0 (Z.to_nat n))) [])
      end
  | OFileInfo =>
      if negb (h_sess h) then (h, MFail) else
      match ANfileinfo l with (l1, Some v) => (hlib h l1, MOk v []) | (l1, None) => (hlib h l1, MFail) end
  | ONumann type tg rf =>
      if negb (h_sess h) then (h, MFail) else
      let '(l1, n) := ANnumann l type tg rf in (hlib h l1, if n =? FAILV then MFail else MOk [n] [])
  | OAnnlist type tg rf =>
      if negb (h_sess h) then (h, MFail) else
      match ANannlist l type tg rf with
      | (l1, Some ids) => (hlib h l1, MOk (zlen ids :: map (refof l1) ids) [])
      | (l1, None) => (hlib h l1, MFail)
      end
  | OTagref2id slot tg rf =>
      if negb (h_sess h) then (hset h l slot FAILV, MFail) else
      let '(l1, id) := ANtagref2id l tg rf in (hset h l1 slot id, if id =? FAILV then MFail else MOk [] [])
  | OId2tagref slot => match ANid2tagref l (hslot h slot) with Some (g, r) => (h, MOk [g; r] []) | None => (h, MFail) end
  | OEndaccess _ => (h, MOk [] [])
  | OIds =>
      let ids := dedup (filter (fun id => negb (id =? FAILV)) (map snd (h_slots h))) in
      let trs := map (fun id => ANid2tagref l id) ids in
      if forallb (fun x => match x with Some _ => true | None => false end) trs
         && pairs_distinct (map (fun x => match x with Some p => p | None => (0, 0) end) trs)
         && forallb (fun id => match ANid2tagref l id with
                               | Some (g, r) => snd (ANtagref2id l g r) =? id
                               | None => false end) ids
      then (h, MOk [zlen ids] []) else (h, MBad)
  | ODfPut kind tg rf txt _ =>
      if h_sess h then (h, MNoModel) else
      let '(l1, ok) := DFANIputann l kind tg rf txt in (hlib h l1, if ok then MOk [l_lastref l1] [] else MFail)
  | ODfGet kind tg rf maxlen =>
      if h_sess h then (h, MNoModel) else
      match DFANIgetann l kind tg rf maxlen with (l1, Some b) => (hlib h l1, MOk [] [b]) | (l1, None) => (hlib h l1, MFail) end
  | ODfGetLen kind tg rf =>
      if h_sess h then (h, MNoModel) else
      let '(l1, n) := DFANIgetannlen l kind tg rf in (hlib h l1, if n =? FAILV then MFail else MOk [n] [])
  | ODfAddF kind txt _ =>
      if h_sess h then (h, MNoModel) else
      let '(l1, ok) := DFANIaddfann l kind txt in (hlib h l1, if ok then MOk [l_lastref l1] [] else MFail)
  | ODfGetFs kind =>
      if h_sess h then (h, MNoModel) else
      match enum_fann 400 l kind true with
      | (l1, Some ts) => (hlib h l1, MOk [zlen ts] ts)
      | (l1, None) => (hlib h l1, MBad)
      end
  | ODfLablist tag maxlen =>
      if h_sess h then (h, MNoModel) else
      match DFANIlablist l objects tag maxlen with
      | (l1, Some (orefs, labs)) => (hlib h l1, MOk (zlen orefs :: orefs) labs)
      | (l1, None) => (hlib h l1, MFail)
      end
  end.

(** operations the specification does not have (R-vs-M only) *)
Definition m_gettagref (h : hstate) (type idx : Z) : hstate * mres :=
  if negb (h_sess h) then (h, MFail) else
  match ANget_tagref (h_lib h) idx type with
  | (l1, Some (g, r)) =>
      let '(l2, id) := ANselect l1 idx type in
      (hlib h l2, match ANid2tagref l2 id with Some (g2, r2) => MOk [g; r; g2; r2] [] | None => MOk [g; r; -1; -1] [] end)
  | (l1, None) => (hlib h l1, MFail)
  end.

(* ---- several files used in one process ------------------------------------------------------------------------ *)
(** Trees, descriptors and slots belong to a file; the DFAN directory cache, Lastref and the enumeration cursors are
    static variables of dfan.c shared by all files, and DFANIopen decides from the file NAME whether the cached
    directory may be kept (condition regenerated from the source: [DFANIopen_newfile]). *)
Record dfstat := mkdf { s_dir : Z -> option (list (list dirent)); s_lastref : Z; s_nextf : Z -> Z; s_nomore : Z -> bool }.
Definition stat_of (l : lstate) : dfstat := mkdf (l_dir l) (l_lastref l) (l_nextf l) (l_nomore l).
Definition with_stat (l : lstate) (d : dfstat) : lstate :=
  mkl (l_dds l) (l_tree l) (l_num l) (l_atoms l) (l_next l) (s_dir d) (s_lastref d) (s_nextf d) (s_nomore d).

Record gstate := mkg {
  g_files : Z -> hstate;            (* per file: library tables + the harness' slots and session flag *)
  g_names : Z -> list Z;            (* file names (C strings: no NUL) *)
  g_cur : Z;                        (* the file the harness works on *)
  g_stat : dfstat;                  (* dfan.c statics *)
  g_lastfile : list Z               (* dfan.c Lastfile *)
}.
Definition ginit (names : Z -> list Z) : gstate := mkg (fun _ => hinit) names 0 (stat_of linit) [].
Definition gfile (g : gstate) (n : Z) : gstate := mkg (g_files g) (g_names g) n (g_stat g) (g_lastfile g).

(** the DFAN calls that go through DFANIopen (after their argument checks), with the access mode they pass *)
Definition dfan_opens (o : op) : option Z :=
  match o with
  | ODfPut _ tg rf _ _ => if (tg =? 0) || (rf =? 0) then None else Some DFACC_RDWR
  | ODfGet _ tg rf _ | ODfGetLen _ tg rf => if (tg =? 0) || (rf =? 0) then None else Some DFACC_READ
  | ODfLablist tg _ => if tg =? 0 then None else Some DFACC_READ
  | _ => None
  end.

(** DFANIopen: a name that differs from Lastfile (or create mode) drops the cached directory *)
Definition DFANIopen (lastfile name : list Z) (mode : Z) (st : dfstat) : dfstat :=
  if truth (DFANIopen_newfile lastfile name mode)
  then mkdf (fun _ => None) (s_lastref st) (s_nextf st) (s_nomore st) else st.

Definition gstep (g : gstate) (o : op) : gstate * mres :=
  let h := g_files g (g_cur g) in
  let name := g_names g (g_cur g) in
  let opens := if h_sess h then None else dfan_opens o in
  let st1 := match opens with Some mode => DFANIopen (g_lastfile g) name mode (g_stat g) | None => g_stat g end in
  let lastfile' := match opens with Some _ => name | None => g_lastfile g end in
  let '(h2, r) := mstep (mkh (with_stat (h_lib h) st1) (h_slots h) (h_sess h)) o in
  (mkg (upd (g_files g) (g_cur g) h2) (g_names g) (g_cur g) (stat_of (h_lib h2)) lastfile', r).

Definition g_gettagref (g : gstate) (type idx : Z) : gstate * mres :=
  let '(h2, r) := m_gettagref (g_files g (g_cur g)) type idx in
  (mkg (upd (g_files g) (g_cur g) h2) (g_names g) (g_cur g) (g_stat g) (g_lastfile g), r).

(** DFANgetfidlen / DFANgetfdslen and DFANgetfid / DFANgetfds called one at a time (they take a file id: no DFANIopen) *)
Definition g_fann_len (g : gstate) (kind : Z) (isfirst : bool) : gstate * mres :=
  let h := g_files g (g_cur g) in
  if h_sess h then (g, MNoModel) else
  let '(l1, n) := DFANIgetfannlen (with_stat (h_lib h) (g_stat g)) kind isfirst in
  (mkg (upd (g_files g) (g_cur g) (hlib h l1)) (g_names g) (g_cur g) (stat_of l1) (g_lastfile g),
   if n <? 0 then MFail else MOk [n; l_lastref l1] []).
Definition g_fann_get (g : gstate) (kind : Z) (isfirst : bool) (maxlen : Z) : gstate * mres :=
  let h := g_files g (g_cur g) in
  if h_sess h then (g, MNoModel) else
  match DFANIgetfann (with_stat (h_lib h) (g_stat g)) kind isfirst with
  | (l1, None) => (mkg (upd (g_files g) (g_cur g) (hlib h l1)) (g_names g) (g_cur g) (stat_of l1) (g_lastfile g), MFail)
  | (l1, Some t) => let '(n, buf) := fann_deliver t maxlen in
                    (mkg (upd (g_files g) (g_cur g) (hlib h l1)) (g_names g) (g_cur g) (stat_of l1) (g_lastfile g),
                     MOk [n; l_lastref l1] [buf])
  end.

(** DFANlablist with listsize and startpos (goes through DFANIopen like the other file-name based calls) *)
Definition g_lablist_page (g : gstate) (tag maxlen listsize startpos : Z) : gstate * mres :=
  let h := g_files g (g_cur g) in
  if h_sess h then (g, MNoModel) else
  if tag =? 0 then (g, MFail) else
  let name := g_names g (g_cur g) in
  let st1 := DFANIopen (g_lastfile g) name DFACC_READ (g_stat g) in
  match DFANIlablist_page (with_stat (h_lib h) st1) objects tag maxlen listsize startpos with
  | (l1, Some (orefs, labs)) =>
      (mkg (upd (g_files g) (g_cur g) (hlib h l1)) (g_names g) (g_cur g) (stat_of l1) name, MOk (zlen orefs :: orefs) labs)
  | (l1, None) => (mkg (upd (g_files g) (g_cur g) (hlib h l1)) (g_names g) (g_cur g) (stat_of l1) name, MFail)
  end.

(** ANend followed by ANstart on the same open file (the harness' restart line) *)
Definition g_restart (g : gstate) : gstate * mres :=
  let '(g1, r1) := gstep g OEnd in
  match r1 with
  | MOk _ _ => gstep g1 OStart
  | _ => (g1, MFail)
  end.
