(** C07 -- the four buffer layouts (user / file, FULL_INTERLACE / NO_INTERLACE) treated uniformly: every field loop
    of VSwrite and VSread (cases A, B, C, D) is a sequence of conversions from one layout to another. *)
From Coq Require Import ZArith List Bool Lia Arith.
Require Import H4.gen.Gen_VS H4.VSModel H4.VTableSpec H4.VSProofs.
Require H4.ConvModel H4.ConvProofs.
Import ListNotations.
Local Open Scope Z_scope.

(** one side of a transfer: where a buffer starts, whether records are interleaved, and the record size [tot] *)
Record side := mkside { sd_full : bool; sd_base : Z; sd_tot : Z }.

(** address of (field at offset o of size sz, component j of width w, record i, byte b) in a buffer of n records *)
Definition sbase (sd : side) (n o : Z) : Z := if sd_full sd then sd_base sd + o else sd_base sd + n * o.
Definition sstride (sd : side) (sz : Z) : Z := if sd_full sd then sd_tot sd else sz.
Definition saddr (sd : side) (n o sz j w i b : Z) : Z := sbase sd n o + j * w + i * sstride sd sz + b.

(** an item: a field with its offset on the source side and on the destination side *)
Definition item := (wfield * Z * Z)%type.
Definition it_f (x : item) : wfield := fst (fst x).
Definition it_so (x : item) : Z := snd (fst x).
Definition it_do (x : item) : Z := snd x.

Definition item_comps (ss ds : side) (n : Z) (x : item) : list comp :=
  let f := it_f x in
  order_comps (Z.to_nat (w_order f)) (w_type f) (sbase ss n (it_so x)) (sbase ds n (it_do x))
              (sstride ss (w_esize f)) (sstride ds (w_esize f)) (fw f) (fw f).
Definition gen_comps (ss ds : side) (n : Z) (items : list item) : list comp := flat_map (item_comps ss ds n) items.

(** destination offsets accumulate (slots in increasing order, back to back), source offsets stay inside the record *)
Fixpoint dacc_ok (lo : Z) (items : list item) : Prop :=
  match items with [] => True | x :: t => it_do x = lo /\ dacc_ok (lo + w_esize (it_f x)) t end.
Fixpoint dend (lo : Z) (items : list item) : Z :=
  match items with [] => lo | x :: t => dend (lo + w_esize (it_f x)) t end.
Definition src_in (tot : Z) (x : item) : Prop := 0 <= it_so x /\ it_so x + w_esize (it_f x) <= tot.

Lemma dend_ge : forall items lo, Forall (fun x => fld_ok (it_f x)) items -> lo <= dend lo items.
Proof.
  induction items as [|x t IH]; intros lo H; cbn; [lia|].
  inversion H as [|? ? Hx Ht]; subst. destruct (fld_ok_sizes _ Hx) as [Hw1 [_ [He [_ [_ [Ho _]]]]]].
  specialize (IH (lo + w_esize (it_f x)) Ht). nia.
Qed.

(* ---- placement ------------------------------------------------------------------------------------ *)

Lemma comp_ok_weaken : forall n slo shi dlo dhi slo' shi' dlo' dhi' c,
  comp_ok n slo shi dlo dhi c -> slo' <= slo -> shi <= shi' -> dlo' <= dlo -> dhi <= dhi' ->
  comp_ok n slo' shi' dlo' dhi' c.
Proof.
  intros n slo shi dlo dhi slo' shi' dlo' dhi' c [w H] H1 H2 H3 H4. exists w. intuition lia.
Qed.

Lemma item_comps_ok : forall ss ds n x lo,
  fld_ok (it_f x) -> 0 < n -> src_in (sd_tot ss) x -> 0 <= it_do x -> it_do x + w_esize (it_f x) <= sd_tot ds ->
  lo = it_do x ->
  Forall (comp_ok n (sd_base ss) (sd_base ss + n * sd_tot ss) (sd_base ds) (sd_base ds + n * sd_tot ds)) (item_comps ss ds n x).
Proof.
  intros ss ds n x lo Hf Hn [Hs1 Hs2] Hd1 Hd2 _.
  destruct (fld_ok_sizes _ Hf) as [Hw1 [Hi [He [_ [_ [Hord [Hcw Hfl]]]]]]].
  unfold item_comps. apply Forall_forall. intros c Hc. apply in_order_comps in Hc. destruct Hc as [j [Hj ->]].
  rewrite Z2Nat.id in Hj by lia.
  set (f := it_f x) in *. set (w := fw f) in *.
  assert (Hjw : 0 <= j * w /\ j * w + w <= w_esize f) by nia.
  exists w. cbn [k_nt k_p k_q k_sp k_sq]. unfold sbase, sstride.
  destruct (sd_full ss), (sd_full ds); repeat split; try assumption; try lia; nia.
Qed.

Lemma gen_comps_ok : forall items ss ds n lo,
  Forall (fun x => fld_ok (it_f x)) items -> 0 < n -> Forall (src_in (sd_tot ss)) items ->
  0 <= lo -> dacc_ok lo items -> dend lo items <= sd_tot ds ->
  Forall (comp_ok n (sd_base ss) (sd_base ss + n * sd_tot ss) (sd_base ds) (sd_base ds + n * sd_tot ds)) (gen_comps ss ds n items).
Proof.
  induction items as [|x t IH]; intros ss ds n lo Hf Hn Hs Hlo Hacc Hend; [constructor|].
  inversion Hf as [|? ? Hfx Hft]; subst. inversion Hs as [|? ? Hsx Hst]; subst. destruct Hacc as [Hdo Hacc].
  cbn [dend] in Hend. pose proof (dend_ge t (lo + w_esize (it_f x)) Hft) as Hge.
  destruct (fld_ok_sizes _ Hfx) as [Hw1 [_ [He [_ [_ [Ho _]]]]]].
  unfold gen_comps. cbn [flat_map]. apply Forall_app. split.
  - apply (item_comps_ok ss ds n x lo); try assumption; try lia.
  - apply (IH ss ds n (lo + w_esize (it_f x))); try assumption. nia.
Qed.

(* ---- no overlap ------------------------------------------------------------------------------------ *)

Lemma no_overlap_app : forall n a b,
  no_overlap n a -> no_overlap n b ->
  (forall ca cb x, In ca a -> In cb b -> dst_cell ca n x -> ~ dst_cell cb n x) ->
  no_overlap n (a ++ b).
Proof.
  induction a as [|c t IH]; intros b Ha Hb Hab; [exact Hb|].
  destruct Ha as [Ha1 Ha2]. cbn. split.
  - intros c' Hc' x Hx. apply in_app_or in Hc'. destruct Hc' as [Hc'|Hc'].
    + apply Ha1; assumption.
    + apply (Hab c c' x); [left; reflexivity|assumption|assumption].
  - apply IH; try assumption. intros ca cb x Hca Hcb. apply Hab; [right; assumption|assumption].
Qed.

(** the cells of one item's components, on the destination side *)
Lemma item_cells : forall ss ds n x c a,
  fld_ok (it_f x) -> In c (item_comps ss ds n x) -> dst_cell c n a ->
  exists j i b, 0 <= j < w_order (it_f x) /\ 0 <= i < n /\ 0 <= b < fw (it_f x) /\
                a = saddr ds n (it_do x) (w_esize (it_f x)) j (fw (it_f x)) i b.
Proof.
  intros ss ds n x c a Hf Hc [i [b [Hi [Hb Ha]]]].
  destruct (fld_ok_sizes _ Hf) as [Hw1 [_ [_ [_ [_ [Hord [Hcw _]]]]]]].
  unfold item_comps in Hc. apply in_order_comps in Hc. destruct Hc as [j [Hj ->]].
  rewrite Z2Nat.id in Hj by lia. unfold kw in Hb. cbn [k_nt k_q k_sq] in *. rewrite Hcw in Hb.
  exists j, i, b. repeat split; try lia. unfold saddr. lia.
Qed.

(** two different slots never share an address *)
Lemma slots_disjoint : forall ds n o1 s1 o2 s2 j1 w1 i1 b1 j2 w2 i2 b2,
  0 < n -> 0 <= o1 -> o1 + s1 <= o2 -> o2 + s2 <= sd_tot ds ->
  0 <= j1 * w1 + b1 < s1 -> 0 <= j2 * w2 + b2 < s2 -> 0 <= i1 < n -> 0 <= i2 < n ->
  saddr ds n o1 s1 j1 w1 i1 b1 <> saddr ds n o2 s2 j2 w2 i2 b2.
Proof.
  intros ds n o1 s1 o2 s2 j1 w1 i1 b1 j2 w2 i2 b2 Hn Ho1 H12 H2t Hc1 Hc2 Hi1 Hi2.
  unfold saddr, sbase, sstride. destruct (sd_full ds).
  - intro E.
    assert (E' : i1 * sd_tot ds + (o1 + j1 * w1 + b1) = i2 * sd_tot ds + (o2 + j2 * w2 + b2)) by lia.
    apply strided_inj in E'; lia.
  - (* field-major: slot 1 lives in [n*o1, n*(o1+s1)), slot 2 in [n*o2, ...) *)
    assert (n * o1 + j1 * w1 + i1 * s1 + b1 < n * (o1 + s1)) by nia.
    assert (n * (o1 + s1) <= n * o2) by nia.
    assert (0 <= i2 * s2) by nia. lia.
Qed.

Lemma item_no_overlap : forall ss ds n x,
  fld_ok (it_f x) -> 0 < n -> 0 <= it_do x -> it_do x + w_esize (it_f x) <= sd_tot ds ->
  no_overlap n (item_comps ss ds n x).
Proof.
  intros ss ds n x Hf Hn Hd1 Hd2.
  destruct (fld_ok_sizes _ Hf) as [Hw1 [_ [He [_ [_ [Hord [Hcw _]]]]]]].
  unfold item_comps.
  destruct (order_comps_sorted (Z.to_nat (w_order (it_f x))) (w_type (it_f x)) (sbase ss n (it_so x)) (sbase ds n (it_do x))
              (sstride ss (w_esize (it_f x))) (sstride ds (w_esize (it_f x))) (fw (it_f x)) (sbase ds n (it_do x)) Hcw ltac:(lia))
    as [G1 G2].
  rewrite Z.sub_diag in *. rewrite Z2Nat.id in G2 by lia.
  apply (sorted_no_overlap _ n (sbase ds n (it_do x)) (sstride ds (w_esize (it_f x))) 0); [lia|].
  rewrite <- (app_nil_r (order_comps _ _ _ _ _ _ _ _)). apply sorted_q_app; [exact G1|].
  rewrite G2. cbn [sorted_q]. unfold sstride. destruct (sd_full ds); nia.
Qed.

Lemma gen_no_overlap : forall items ss ds n lo,
  Forall (fun x => fld_ok (it_f x)) items -> 0 < n -> 0 <= lo -> dacc_ok lo items -> dend lo items <= sd_tot ds ->
  no_overlap n (gen_comps ss ds n items) /\
  (forall c a, In c (gen_comps ss ds n items) -> dst_cell c n a ->
     exists x j i b, In x items /\ lo <= it_do x /\ 0 <= j < w_order (it_f x) /\ 0 <= i < n /\ 0 <= b < fw (it_f x) /\
                     a = saddr ds n (it_do x) (w_esize (it_f x)) j (fw (it_f x)) i b).
Proof.
  induction items as [|x t IH]; intros ss ds n lo Hf Hn Hlo Hacc Hend.
  - split; [exact I|]. intros c a [].
  - inversion Hf as [|? ? Hfx Hft]; subst. destruct Hacc as [Hdo Hacc]. cbn [dend] in Hend.
    pose proof (dend_ge t (lo + w_esize (it_f x)) Hft) as Hge.
    destruct (fld_ok_sizes _ Hfx) as [Hw1 [_ [He [_ [_ [Ho Hrest]]]]]].
    assert (Hsz : 0 <= w_esize (it_f x)) by nia.
    destruct (IH ss ds n (lo + w_esize (it_f x)) Hft Hn ltac:(lia) Hacc Hend) as [IH1 IH2].
    unfold gen_comps. cbn [flat_map]. fold (gen_comps ss ds n t). split.
    + apply no_overlap_app; [apply item_no_overlap; try assumption; lia|exact IH1|].
      intros ca cb a Hca Hcb Hcell1 Hcell2.
      destruct (item_cells ss ds n x ca a Hfx Hca Hcell1) as [j1 [i1 [b1 [Hj1 [Hi1 [Hb1 Ha1]]]]]].
      destruct (IH2 cb a Hcb Hcell2) as [y [j2 [i2 [b2 [Hy [Hlo2 [Hj2 [Hi2 [Hb2 Ha2]]]]]]]]].
      assert (Hfy : fld_ok (it_f y)) by (rewrite Forall_forall in Hft; apply Hft; assumption).
      destruct (fld_ok_sizes _ Hfy) as [Hw1y [_ [Hey [_ [_ [Hoy _]]]]]].
      (* y's slot ends inside the record *)
      assert (Hyend : it_do y + w_esize (it_f y) <= sd_tot ds).
      { clear - Hy Hacc Hend Hft. revert Hacc Hend. generalize (lo + w_esize (it_f x)) as l. induction t as [|z t' IHt]; intros l Hacc Hend; [destruct Hy|].
        inversion Hft as [|? ? Hfz Hft']; subst. destruct Hacc as [Hz Hacc]. cbn [dend] in Hend.
        pose proof (dend_ge t' (l + w_esize (it_f z)) Hft').
        destruct Hy as [<-|Hy]; [lia|]. apply (IHt Hft' Hy (l + w_esize (it_f z))); assumption. }
      refine (slots_disjoint ds n (it_do x) (w_esize (it_f x)) (it_do y) (w_esize (it_f y)) j1 (fw (it_f x)) i1 b1 j2 (fw (it_f y)) i2 b2
                Hn ltac:(lia) ltac:(lia) Hyend ltac:(nia) ltac:(nia) Hi1 Hi2 _). congruence.
    + intros c a Hc Hcell. apply in_app_or in Hc. destruct Hc as [Hc|Hc].
      * destruct (item_cells ss ds n x c a Hfx Hc Hcell) as [j [i [b [Hj [Hi [Hb Ha]]]]]].
        exists x, j, i, b. repeat split; try assumption; try lia. left; reflexivity.
      * destruct (IH2 c a Hc Hcell) as [y [j [i [b [Hy [Hlo2 H']]]]]].
        exists y, j, i, b. split; [right; assumption|]. split; [lia|exact H'].
Qed.

(* ---- the generic transfer lemma -------------------------------------------------------------------- *)

Lemma in_gen_comps : forall items ss ds n x j, In x items -> 0 <= j < w_order (it_f x) ->
  In (mkcomp (w_type (it_f x)) (sbase ss n (it_so x) + j * fw (it_f x)) (sbase ds n (it_do x) + j * fw (it_f x))
             (sstride ss (w_esize (it_f x))) (sstride ds (w_esize (it_f x)))) (gen_comps ss ds n items).
Proof.
  intros items ss ds n x j Hin Hj. unfold gen_comps. apply in_flat_map. exists x. split; [assumption|].
  unfold item_comps. apply in_order_comps_conv. rewrite Z2Nat.id; lia.
Qed.

Lemma transfer_spec : forall items ss ds n m,
  Forall (fun x => fld_ok (it_f x)) items -> 0 < n -> Forall (src_in (sd_tot ss)) items ->
  dacc_ok 0 items -> dend 0 items <= sd_tot ds ->
  (sd_base ss + n * sd_tot ss <= sd_base ds \/ sd_base ds + n * sd_tot ds <= sd_base ss) ->
  exists m', run_comps m (gen_comps ss ds n items) n = Some m' /\
    (forall x, In x items -> forall j i b, 0 <= j < w_order (it_f x) -> 0 <= i < n -> 0 <= b < fw (it_f x) ->
       m' (saddr ds n (it_do x) (w_esize (it_f x)) j (fw (it_f x)) i b) =
       m (saddr ss n (it_so x) (w_esize (it_f x)) j (fw (it_f x)) i (cperm (fw (it_f x)) (swap_of (w_type (it_f x)) (fw (it_f x))) b))) /\
    (forall a, (a < sd_base ds \/ sd_base ds + n * sd_tot ds <= a) -> m' a = m a).
Proof.
  intros items ss ds n m Hf Hn Hs Hacc Hend Hreg.
  pose proof (gen_comps_ok items ss ds n 0 Hf Hn Hs ltac:(lia) Hacc Hend) as Hok.
  destruct (gen_no_overlap items ss ds n 0 Hf Hn ltac:(lia) Hacc Hend) as [Hno _].
  destruct (run_comps_spec _ m n _ _ _ _ Hn Hreg Hok Hno) as [m' [Hm' [Hhit Hmiss]]].
  exists m'. split; [exact Hm'|]. split.
  - intros x Hx j i b Hj Hi Hb.
    pose proof (in_gen_comps items ss ds n x j Hx Hj) as Hc.
    specialize (Hhit _ Hc i b Hi). unfold kw in Hhit. cbn [k_nt k_q k_sq k_p k_sp] in Hhit.
    assert (Hfx : fld_ok (it_f x)) by (rewrite Forall_forall in Hf; apply Hf; assumption).
    destruct (fld_ok_sizes _ Hfx) as [_ [_ [_ [_ [_ [_ [Hcw _]]]]]]]. rewrite Hcw in Hhit.
    unfold saddr. exact (Hhit Hb).
  - intros a Ha. apply Hmiss. intros c Hc [i [b [Hi [Hb Hab]]]].
    rewrite Forall_forall in Hok. destruct (Hok c Hc) as [w [Hcw [_ [Hw1 [_ [Hsq [_ [_ [Hq1 Hq2]]]]]]]]].
    unfold kw in Hb. rewrite Hcw in Hb. nia.
Qed.

(* ------------------------------------------------------------------ *)
(** * The field loops of VSModel.v are such transfers *)

Definition witems (uo : Z) (fl : list wfield) : list item := map (fun p => (fst p, snd p, w_off (fst p))) (foffs uo fl).
Definition ritems (fl : list wfield) (rl : list Z) (uo : Z) : list item := map (fun p => (fst p, w_off (fst p), snd p)) (roffs fl rl uo).

Ltac field_facts f Hf :=
  let Hw1 := fresh "Hw1" in let Hi := fresh "Hi" in let He := fresh "He" in let Hqe := fresh "Hqe" in
  let Hqi := fresh "Hqi" in let Ho := fresh "Hord" in let Hcw := fresh "Hcw" in let Hfl := fresh "Hfl" in
  destruct (fld_ok_sizes f Hf) as [Hw1 [Hi [He [Hqe [Hqi [Ho [Hcw Hfl]]]]]]].

Lemma wr_ec_gen : forall fl m vt P uo n isz hs, Forall fld_ok fl ->
  wr_ec_fields fl m vt P uo n isz hs = run_comps m (gen_comps (mkside true P isz) (mkside true vt hs) n (witems uo fl)) n.
Proof.
  induction fl as [|f t IH]; intros m vt P uo n isz hs Hok; [reflexivity|].
  inversion Hok as [|? ? Hf Ht]; subst. field_facts f Hf.
  cbn [wr_ec_fields witems foffs map gen_comps flat_map]. fold (witems (uo + w_esize f) t). fold (gen_comps (mkside true P isz) (mkside true vt hs) n (witems (uo + w_esize f) t)).
  rewrite order_loop_comps. rewrite Hqe. rewrite Hqi. rewrite run_comps_app.
  unfold item_comps at 1. cbn [it_f it_so it_do fst snd sbase sstride sd_full sd_base sd_tot].
  destruct (run_comps m _ n); [apply IH; assumption|reflexivity].
Qed.

Lemma wr_a_gen : forall fl m vt P uo n hs T, Forall fld_ok fl ->
  wr_a_fields fl m vt (P + n * uo) n hs = run_comps m (gen_comps (mkside false P T) (mkside true vt hs) n (witems uo fl)) n.
Proof.
  induction fl as [|f t IH]; intros m vt P uo n hs T Hok; [reflexivity|].
  inversion Hok as [|? ? Hf Ht]; subst. field_facts f Hf.
  cbn [wr_a_fields witems foffs map gen_comps flat_map]. fold (witems (uo + w_esize f) t). fold (gen_comps (mkside false P T) (mkside true vt hs) n (witems (uo + w_esize f) t)).
  rewrite order_loop_comps. rewrite Hqe. rewrite Hqi. rewrite run_comps_app.
  unfold item_comps at 1. cbn [it_f it_so it_do fst snd sbase sstride sd_full sd_base sd_tot].
  destruct (run_comps m _ n); [|reflexivity].
  rewrite Z2Nat.id by lia.
  replace (P + n * uo + w_order f * fw f + (n - 1) * w_esize f) with (P + n * (uo + w_esize f)) by (rewrite He; ring).
  apply IH; assumption.
Qed.

Lemma wr_b_gen : forall fl m vt P uo n T T', Forall fld_ok fl ->
  wr_b_fields fl m vt (P + n * uo) n = run_comps m (gen_comps (mkside false P T) (mkside false vt T') n (witems uo fl)) n.
Proof.
  induction fl as [|f t IH]; intros m vt P uo n T T' Hok; [reflexivity|].
  inversion Hok as [|? ? Hf Ht]; subst. field_facts f Hf.
  cbn [wr_b_fields witems foffs map gen_comps flat_map]. fold (witems (uo + w_esize f) t). fold (gen_comps (mkside false P T) (mkside false vt T') n (witems (uo + w_esize f) t)).
  rewrite order_loop_comps. rewrite Hqe. rewrite Hqi. rewrite run_comps_app.
  unfold item_comps at 1. cbn [it_f it_so it_do fst snd sbase sstride sd_full sd_base sd_tot].
  replace (w_off f * n) with (n * w_off f) by ring. replace (w_isize f) with (w_esize f) by lia.
  destruct (run_comps m _ n); [|reflexivity].
  rewrite Z2Nat.id by lia.
  replace (P + n * uo + w_order f * fw f + (n - 1) * w_esize f) with (P + n * (uo + w_esize f)) by (rewrite He; ring).
  apply IH; assumption.
Qed.

Lemma wr_d_gen : forall fl m vt uo n isz T', Forall fld_ok fl ->
  wr_d_fields fl m vt uo n isz = run_comps m (gen_comps (mkside true 0 isz) (mkside false vt T') n (witems uo fl)) n.
Proof.
  induction fl as [|f t IH]; intros m vt uo n isz T' Hok; [reflexivity|].
  inversion Hok as [|? ? Hf Ht]; subst. field_facts f Hf.
  cbn [wr_d_fields witems foffs map gen_comps flat_map]. fold (witems (uo + w_esize f) t). fold (gen_comps (mkside true 0 isz) (mkside false vt T') n (witems (uo + w_esize f) t)).
  rewrite order_loop_comps. rewrite Hqe. rewrite Hqi. rewrite run_comps_app.
  unfold item_comps at 1. cbn [it_f it_so it_do fst snd sbase sstride sd_full sd_base sd_tot].
  replace (w_off f * n) with (n * w_off f) by ring. replace (w_isize f) with (w_esize f) by lia.
  rewrite Z.add_0_l.
  destruct (run_comps m _ n); [apply IH; assumption|reflexivity].
Qed.

Lemma rd_c_gen : forall rl fl m vt P uo n hs uv, Forall fld_ok fl -> rl_ok fl rl ->
  rd_c_fields fl rl m vt P uo n hs uv = run_comps m (gen_comps (mkside true vt hs) (mkside true P uv) n (ritems fl rl uo)) n.
Proof.
  induction rl as [|i t IH]; intros fl m vt P uo n hs uv Hok Hrl; [reflexivity|].
  inversion Hrl as [|? ? [f Hfi] Ht]; subst.
  assert (Hf : fld_ok f) by (rewrite Forall_forall in Hok; apply Hok; eapply nthf_in; eassumption). field_facts f Hf.
  unfold ritems. cbn [rd_c_fields roffs]. rewrite Hfi. cbn [map gen_comps flat_map]. change (map (fun p => (fst p, w_off (fst p), snd p)) (roffs fl t (uo + w_esize f))) with (ritems fl t (uo + w_esize f)). fold (gen_comps (mkside true vt hs) (mkside true P uv) n (ritems fl t (uo + w_esize f))).
  rewrite order_loop_comps. rewrite Hqe. rewrite Hqi. rewrite run_comps_app.
  unfold item_comps at 1. cbn [it_f it_so it_do fst snd sbase sstride sd_full sd_base sd_tot].
  destruct (run_comps m _ n); [apply IH; assumption|reflexivity].
Qed.

Lemma rd_a_gen : forall rl fl m vt P uo n hs T, Forall fld_ok fl -> rl_ok fl rl ->
  rd_a_fields fl rl m vt (P + n * uo) n hs = run_comps m (gen_comps (mkside true vt hs) (mkside false P T) n (ritems fl rl uo)) n.
Proof.
  induction rl as [|i t IH]; intros fl m vt P uo n hs T Hok Hrl; [reflexivity|].
  inversion Hrl as [|? ? [f Hfi] Ht]; subst.
  assert (Hf : fld_ok f) by (rewrite Forall_forall in Hok; apply Hok; eapply nthf_in; eassumption). field_facts f Hf.
  unfold ritems. cbn [rd_a_fields roffs]. rewrite Hfi. cbn [map gen_comps flat_map]. change (map (fun p => (fst p, w_off (fst p), snd p)) (roffs fl t (uo + w_esize f))) with (ritems fl t (uo + w_esize f)). fold (gen_comps (mkside true vt hs) (mkside false P T) n (ritems fl t (uo + w_esize f))).
  rewrite order_loop_comps. rewrite Hqe. rewrite Hqi. rewrite run_comps_app.
  unfold item_comps at 1. cbn [it_f it_so it_do fst snd sbase sstride sd_full sd_base sd_tot].
  destruct (run_comps m _ n); [|reflexivity].
  rewrite Z2Nat.id by lia.
  replace (P + n * uo + w_order f * fw f + (n - 1) * w_esize f) with (P + n * (uo + w_esize f)) by (rewrite He; ring).
  apply IH; assumption.
Qed.

Lemma rd_b_gen : forall rl fl m vt P uo n T T', Forall fld_ok fl -> rl_ok fl rl ->
  rd_b_fields fl rl m vt (P + n * uo) n = run_comps m (gen_comps (mkside false vt T') (mkside false P T) n (ritems fl rl uo)) n.
Proof.
  induction rl as [|i t IH]; intros fl m vt P uo n T T' Hok Hrl; [reflexivity|].
  inversion Hrl as [|? ? [f Hfi] Ht]; subst.
  assert (Hf : fld_ok f) by (rewrite Forall_forall in Hok; apply Hok; eapply nthf_in; eassumption). field_facts f Hf.
  unfold ritems. cbn [rd_b_fields roffs]. rewrite Hfi. cbn [map gen_comps flat_map]. change (map (fun p => (fst p, w_off (fst p), snd p)) (roffs fl t (uo + w_esize f))) with (ritems fl t (uo + w_esize f)). fold (gen_comps (mkside false vt T') (mkside false P T) n (ritems fl t (uo + w_esize f))).
  rewrite order_loop_comps. rewrite Hqe. rewrite Hqi. rewrite run_comps_app.
  unfold item_comps at 1. cbn [it_f it_so it_do fst snd sbase sstride sd_full sd_base sd_tot].
  replace (w_off f * n) with (n * w_off f) by ring. replace (w_isize f) with (w_esize f) by lia.
  destruct (run_comps m _ n); [|reflexivity].
  rewrite Z2Nat.id by lia.
  replace (P + n * uo + w_order f * fw f + (n - 1) * w_esize f) with (P + n * (uo + w_esize f)) by (rewrite He; ring).
  apply IH; assumption.
Qed.

(** case D of VSread advances its offset by isize where esize is meant: harmless because isize = esize ([fld_ok]) *)
Lemma rd_d_gen : forall rl fl m vt uo n uv T', Forall fld_ok fl -> rl_ok fl rl ->
  rd_d_fields fl rl m vt uo n uv = run_comps m (gen_comps (mkside false vt T') (mkside true 0 uv) n (ritems fl rl uo)) n.
Proof.
  induction rl as [|i t IH]; intros fl m vt uo n uv T' Hok Hrl; [reflexivity|].
  inversion Hrl as [|? ? [f Hfi] Ht]; subst.
  assert (Hf : fld_ok f) by (rewrite Forall_forall in Hok; apply Hok; eapply nthf_in; eassumption). field_facts f Hf.
  unfold ritems. cbn [rd_d_fields roffs]. rewrite Hfi. cbn [map gen_comps flat_map]. change (map (fun p => (fst p, w_off (fst p), snd p)) (roffs fl t (uo + w_esize f))) with (ritems fl t (uo + w_esize f)). fold (gen_comps (mkside false vt T') (mkside true 0 uv) n (ritems fl t (uo + w_esize f))).
  rewrite order_loop_comps. rewrite Hqe. rewrite Hqi. rewrite run_comps_app.
  unfold item_comps at 1. cbn [it_f it_so it_do fst snd sbase sstride sd_full sd_base sd_tot].
  replace (w_off f * n) with (n * w_off f) by ring. replace (w_isize f) with (w_esize f) by lia.
  rewrite Z.add_0_l.
  destruct (run_comps m _ n); [apply IH; assumption|reflexivity].
Qed.

(* ------------------------------------------------------------------ *)
(** * Hypotheses of the transfer lemma for the items of a write list / a read list *)

Lemma witems_fld : forall fl uo, Forall fld_ok fl -> Forall (fun x => fld_ok (it_f x)) (witems uo fl).
Proof. induction fl as [|f t IH]; intros uo H; [constructor|]. inversion H; subst. constructor; [assumption|apply IH; assumption]. Qed.

Lemma foffs_bounds : forall fl o f eo, Forall fld_ok fl -> 0 <= o -> In (f, eo) (foffs o fl) -> o <= eo /\ eo + w_esize f <= o + isum fl.
Proof.
  induction fl as [|f0 t IH]; intros o f eo Hk Ho Hi; [destruct Hi|].
  inversion Hk as [|? ? Hf0 Ht]; subst. field_facts f0 Hf0. pose proof (isum_nonneg t Ht).
  cbn [isum fold_right]. fold (isum t).
  destruct Hi as [E|Hi]; [inversion E; subst; nia|].
  destruct (IH (o + w_esize f0) f eo Ht ltac:(nia) Hi); nia.
Qed.

Lemma witems_src : forall fl T, Forall fld_ok fl -> isum fl <= T -> Forall (src_in T) (witems 0 fl).
Proof.
  intros fl T Hok HT. apply Forall_forall. intros x Hx. unfold witems in Hx. apply in_map_iff in Hx.
  destruct Hx as [[f eo] [<- Hin]]. destruct (foffs_bounds fl 0 f eo Hok ltac:(lia) Hin). unfold src_in. cbn. lia.
Qed.

Lemma witems_dacc : forall fl uo o, Forall fld_ok fl -> offs_ok o fl -> dacc_ok o (witems uo fl) /\ dend o (witems uo fl) = o + isum fl.
Proof.
  induction fl as [|f t IH]; intros uo o Hok Hoff; [cbn; split; [exact I|lia]|].
  inversion Hok as [|? ? Hf Ht]; subst. destruct Hoff as [Ho Hoff]. field_facts f Hf.
  cbn [witems foffs map dacc_ok dend it_do it_f fst snd isum fold_right]. fold (witems (uo + w_esize f) t). fold (isum t).
  replace (o + w_esize f) with (o + w_isize f) by lia.
  destruct (IH (uo + w_esize f) (o + w_isize f) Ht Hoff) as [G1 G2]. split; [split; [exact Ho|exact G1]|]. rewrite G2. lia.
Qed.

Lemma ritems_fld : forall rl fl uo, Forall fld_ok fl -> Forall (fun x => fld_ok (it_f x)) (ritems fl rl uo).
Proof.
  induction rl as [|i t IH]; intros fl uo H; [constructor|].
  unfold ritems. cbn [roffs]. destruct (nthf fl i) as [f|] eqn:E; [|constructor].
  cbn [map]. constructor; [cbn; rewrite Forall_forall in H; apply H; eapply nthf_in; eassumption|apply IH; assumption].
Qed.

Lemma ritems_src : forall rl fl uo T, Forall fld_ok fl -> offs_ok 0 fl -> isum fl <= T -> Forall (src_in T) (ritems fl rl uo).
Proof.
  induction rl as [|i t IH]; intros fl uo T Hok Hoff HT; [constructor|].
  unfold ritems. cbn [roffs]. destruct (nthf fl i) as [f|] eqn:E; [|constructor].
  cbn [map]. constructor; [|apply IH; assumption].
  assert (Hin : In f fl) by (eapply nthf_in; eassumption).
  assert (Hf : fld_ok f) by (rewrite Forall_forall in Hok; apply Hok; assumption). field_facts f Hf.
  destruct (offs_in fl 0 f Hok Hoff Hin ltac:(lia)). unfold src_in. cbn. lia.
Qed.

Lemma ritems_dacc : forall rl fl uo, dacc_ok uo (ritems fl rl uo) /\ dend uo (ritems fl rl uo) = uo + rsum fl rl.
Proof.
  induction rl as [|i t IH]; intros fl uo; [cbn; split; [exact I|lia]|].
  unfold ritems. cbn [roffs rsum]. destruct (nthf fl i) as [f|] eqn:E; [|cbn; split; [exact I|lia]].
  cbn [map dacc_ok dend it_do it_f fst snd].
  destruct (IH fl (uo + w_esize f)) as [G1 G2]. split; [split; [reflexivity|exact G1]|]. unfold ritems in G2. rewrite G2. lia.
Qed.

(** one VSwrite conversion pass from a user layout to a file layout *)
Lemma wr_case_spec : forall fl us fs n m,
  Forall fld_ok fl -> offs_ok 0 fl -> 0 < n -> isum fl <= sd_tot us -> isum fl <= sd_tot fs ->
  (sd_base us + n * sd_tot us <= sd_base fs \/ sd_base fs + n * sd_tot fs <= sd_base us) ->
  exists m', run_comps m (gen_comps us fs n (witems 0 fl)) n = Some m' /\
    (forall f eo, In (f, eo) (foffs 0 fl) -> forall j i b, 0 <= j < w_order f -> 0 <= i < n -> 0 <= b < fw f ->
       m' (saddr fs n (w_off f) (w_esize f) j (fw f) i b) =
       m (saddr us n eo (w_esize f) j (fw f) i (cperm (fw f) (swap_of (w_type f) (fw f)) b))) /\
    (forall a, (a < sd_base fs \/ sd_base fs + n * sd_tot fs <= a) -> m' a = m a).
Proof.
  intros fl us fs n m Hok Hoff Hn Hu Hf Hreg.
  destruct (witems_dacc fl 0 0 Hok Hoff) as [Hacc Hend].
  destruct (transfer_spec (witems 0 fl) us fs n m (witems_fld fl 0 Hok) Hn (witems_src fl _ Hok Hu) Hacc ltac:(lia) Hreg)
    as [m' [Hm' [Hhit Hframe]]].
  exists m'. split; [exact Hm'|]. split; [|exact Hframe].
  intros f eo Hin j i b Hj Hi Hb.
  assert (Hx : In (f, eo, w_off f) (witems 0 fl)) by (unfold witems; apply in_map_iff; exists (f, eo); split; [reflexivity|assumption]).
  exact (Hhit _ Hx j i b Hj Hi Hb).
Qed.

(** one VSread conversion pass from a file layout to a user layout *)
Lemma rd_case_spec : forall fl rl fs us n m,
  Forall fld_ok fl -> offs_ok 0 fl -> rl_ok fl rl -> 0 < n -> isum fl <= sd_tot fs -> rsum fl rl <= sd_tot us ->
  (sd_base fs + n * sd_tot fs <= sd_base us \/ sd_base us + n * sd_tot us <= sd_base fs) ->
  exists m', run_comps m (gen_comps fs us n (ritems fl rl 0)) n = Some m' /\
    (forall f uo, In (f, uo) (roffs fl rl 0) -> forall j i b, 0 <= j < w_order f -> 0 <= i < n -> 0 <= b < fw f ->
       m' (saddr us n uo (w_esize f) j (fw f) i b) =
       m (saddr fs n (w_off f) (w_esize f) j (fw f) i (cperm (fw f) (swap_of (w_type f) (fw f)) b))) /\
    (forall a, (a < sd_base us \/ sd_base us + n * sd_tot us <= a) -> m' a = m a).
Proof.
  intros fl rl fs us n m Hok Hoff Hrl Hn Hf Hu Hreg.
  destruct (ritems_dacc rl fl 0) as [Hacc Hend].
  destruct (transfer_spec (ritems fl rl 0) fs us n m (ritems_fld rl fl 0 Hok) Hn (ritems_src rl fl 0 _ Hok Hoff Hf) Hacc ltac:(lia) Hreg)
    as [m' [Hm' [Hhit Hframe]]].
  exists m'. split; [exact Hm'|]. split; [|exact Hframe].
  intros f uo Hin j i b Hj Hi Hb.
  assert (Hx : In (f, w_off f, uo) (ritems fl rl 0)) by (unfold ritems; apply in_map_iff; exists (f, uo); split; [reflexivity|assumption]).
  exact (Hhit _ Hx j i b Hj Hi Hb).
Qed.
