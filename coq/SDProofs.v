(** C14 -- proofs about the SD guard-structure model (SDModel) composed with the L1 effect model. *)
From Coq Require Import ZArith List Bool Lia.
Import ListNotations.
Require Import H4.gen.Gen_RO H4.ROModel H4.ROProofs H4.SDModel.
Local Open Scope Z_scope.

(** the netCDF mode of a read-only SDstart, the flags NC_new_cdf gives the handle, and the HDF access mode of the switch *)
Lemma sdstart_readonly_mode : forall HDFmode, Z.land HDFmode DFACC_WRITE = 0 ->
  sd_ncmode HDFmode = NC_NOWRITE /\ nc_hdf_mode (sd_ncmode HDFmode) = DFACC_RDONLY /\
  Z.land (nc_new_cdf_flags (sd_ncmode HDFmode)) sdstart_flag_mask = 0.
Proof.
  intros m H. unfold sd_ncmode, sdstart_wants_write, DFACC_WRITE in *. rewrite H. simpl. repeat split; reflexivity.
Qed.
Lemma sdstart_write_mode : forall HDFmode, Z.land HDFmode DFACC_WRITE <> 0 ->
  sd_ncmode HDFmode = NC_WRITE /\ nc_hdf_mode (sd_ncmode HDFmode) = DFACC_RDWR.
Proof.
  intros m H. unfold sd_ncmode, sdstart_wants_write, DFACC_WRITE, nz in *.
  destruct (Z.eqb_spec (Z.land m 2) 0); [contradiction|]. simpl. split; reflexivity.
Qed.

(** every one of the sixteen guards (and the default for an index beyond them) refuses a handle without NC_RDWR *)
Lemma sd_guard_refuses : forall k fl, Z.land fl NC_RDWR = 0 -> sd_guard k fl = 1.
Proof.
  intros k fl H. unfold sd_guard, sd_guards.
  pose proof sd_guards_full as G.
  repeat (let g := fresh "g" in destruct G as [g G]).
  do 16 (destruct k as [|k]; [simpl; match goal with Hg : nc_guard ?f |- ?f fl = 1 => apply Hg; exact H end|]).
  simpl. destruct k; reflexivity.
Qed.
Lemma ncsetfill_refuses : forall fl, Z.land fl NC_RDWR = 0 -> ncsetfill_denied fl = 1.
Proof. intros fl H. unfold ncsetfill_denied, NC_RDWR in *. rewrite H. reflexivity. Qed.

(** the read-only invariant of an SD handle *)
Definition sd_ro_inv (h0 : Z) (s : sd) : Prop :=
  Z.land (s_flags s) NC_RDWR = 0 /\ s_header s = h0 /\ ro_inv (s_l1 s).

Lemma run_l1_ro : forall s ops s' w h0, sd_ro_inv h0 s -> run_l1 s ops = (s', w) ->
  sd_ro_inv h0 s' /\ w = [] /\ s_flags s' = s_flags s /\ s_open s' = s_open s.
Proof.
  intros s ops s' w h0 (A & B & C) H. unfold run_l1 in H.
  destruct (run (s_l1 s) ops) as [f' l] eqn:E. inversion H; subst; clear H.
  apply run_ro in E; [|assumption]. destruct E as (I & W & _ & _).
  unfold sd_ro_inv. simpl. split; [split; [assumption | split; [reflexivity | assumption]] | split; [assumption | split; reflexivity]].
Qed.

Lemma land_lor_hdirty_rdwr : forall fl, Z.land fl NC_RDWR = 0 -> Z.land (Z.lor fl NC_HDIRTY) NC_RDWR = 0.
Proof. intros fl H. rewrite Z.land_lor_distr_l. rewrite H. reflexivity. Qed.

Lemma sd_step_ro : forall h0 s o s' r w,
  sd_ro_inv h0 s -> sd_step s o = (s', r, w) ->
  sd_ro_inv h0 s' /\ w = [] /\ (sd_mutating o = true -> r = FAIL).
Proof.
  intros h0 s o s' r w Hinv H. pose proof Hinv as (Hfl & Hh & Hl).
  unfold sd_step in H. destruct (s_open s); simpl in H; [| inversion H; subst; auto].
  destruct o.
  - (* SMut *)
    rewrite (sd_guard_refuses k (s_flags s) Hfl) in H. simpl in H. inversion H; subst. auto.
  - (* SSetFill *)
    rewrite (ncsetfill_refuses (s_flags s) Hfl) in H. simpl in H. inversion H; subst. auto.
  - (* SGetDimScale *)
    destruct (run_l1 s l1) as [s1 w1] eqn:E. apply (run_l1_ro _ _ _ _ h0 Hinv) in E. destruct E as ((A & B & C) & W & F & O).
    inversion H; subst. split; [| split; [reflexivity | discriminate]].
    unfold sd_ro_inv, set_flags. simpl. split; [apply land_lor_hdirty_rdwr; assumption | split; [try reflexivity; try assumption | assumption]].
  - (* SRead *)
    destruct (run_l1 s l1) as [s1 w1] eqn:E. apply (run_l1_ro _ _ _ _ h0 Hinv) in E. destruct E as (I & W & F & O).
    inversion H; subst. split; [assumption | split; [reflexivity | discriminate]].
  - (* SEnd *)
    assert (M0 : sdend_may_write (s_flags s) = 0) by (unfold sdend_may_write; exact Hfl).
    rewrite M0 in H. simpl in H.
    assert (M1 : ncclose_may_write (s_flags s) = 0) by (unfold ncclose_may_write; exact Hfl).
    rewrite M1 in H. simpl in H.
    destruct (if nz (hdf_close_numrecs_dirty (s_flags s)) then run_l1 s l1_close_numrecs else (s, [])) as [s3 w3] eqn:E3.
    assert (I3 : sd_ro_inv h0 s3 /\ w3 = []).
    { destruct (nz (hdf_close_numrecs_dirty (s_flags s))).
      - apply (run_l1_ro _ _ _ _ h0 Hinv) in E3. tauto.
      - inversion E3; subst. auto. }
    destruct I3 as (I3 & W3). subst w3.
    destruct (run_l1 s3 [OClose]) as [s4 w4] eqn:E4. apply (run_l1_ro _ _ _ _ h0 I3) in E4. destruct E4 as ((A & B & C) & W4 & F4 & O4).
    inversion H; subst. split; [| split; [reflexivity | discriminate]].
    unfold sd_ro_inv. simpl. auto.
Qed.

Lemma sd_run_ro : forall ops h0 s s' l,
  sd_ro_inv h0 s -> sd_run s ops = (s', l) ->
  sd_ro_inv h0 s' /\ concat (map snd l) = [] /\
  Forall2 (fun o rw => snd rw = [] /\ (sd_mutating o = true -> fst rw = FAIL)) ops l.
Proof.
  induction ops as [|o ops IH]; intros h0 s s' l Hinv H; simpl in H.
  - inversion H; subst. split; [assumption | split; [reflexivity | constructor]].
  - destruct (sd_step s o) as [[s1 r] w] eqn:E. destruct (sd_run s1 ops) as [s2 l2] eqn:E2. inversion H; subst.
    apply (sd_step_ro h0 _ _ _ _ _ Hinv) in E. destruct E as (I1 & W & M). subst w.
    apply (IH h0 _ _ _ I1) in E2. destruct E2 as (I2 & W2 & F2).
    split; [assumption | split; [simpl; assumption | constructor; auto]].
Qed.

Lemma sdstart_ro_inv : forall HDFmode dds fend dv, Z.land HDFmode DFACC_WRITE = 0 ->
  sd_ro_inv 0 (sdstart HDFmode dds fend dv).
Proof.
  intros m dds fend dv H. destruct (sdstart_readonly_mode m H) as (A & B & C).
  unfold sd_ro_inv, sdstart. simpl. rewrite C. rewrite B.
  split; [reflexivity | split; [reflexivity | apply hopen_ro_inv; reflexivity]].
Qed.

Theorem sd_ro_silent_full : forall HDFmode dds fend dv ops,
  Z.land HDFmode DFACC_WRITE = 0 ->
  let '(s', l) := sd_run (sdstart HDFmode dds fend dv) ops in
  concat (map snd l) = [] /\ s_header s' = 0 /\ Z.land (s_flags s') NC_RDWR = 0 /\ ro_inv (s_l1 s') /\
  Forall2 (fun o rw => sd_mutating o = true -> fst rw = FAIL) ops l.
Proof.
  intros m dds fend dv ops H. destruct (sd_run (sdstart m dds fend dv) ops) as [s' l] eqn:E.
  apply (sd_run_ro ops 0) in E; [| apply sdstart_ro_inv; assumption].
  destruct E as ((A & B & C) & W & F). split; [exact W | split; [exact B | split; [exact A | split; [exact C |]]]].
  clear -F. induction F as [| a b la lb [_ Hb] F' IHF]; constructor; auto.
Qed.

(** the functions of mfsd.c that assign to handle->flags, and the callers of the unguarded helper *)
Lemma sd_flag_writers_are_modelled :
  sd_flag_updates_count = 14 /\ sd_flag_updates_sdstart = 1 /\ sd_flag_updates_sdend = 2 /\ sd_flag_updates_sdgetdimscale = 1 /\
  sd_flag_updates_sdcreate = 1 /\ sd_flag_updates_sdsetdimname = 2 /\ sd_flag_updates_sdsetrange = 1 /\
  sd_flag_updates_sdsetattr = 1 /\ sd_flag_updates_sdsetdatastrs = 1 /\ sd_flag_updates_sdsetcal = 1 /\
  sd_flag_updates_sdsetfillvalue = 1 /\ sd_flag_updates_sdsetdimstrs = 1 /\ sd_flag_updates_sdsetdimscale = 1 /\
  sd_flag_updates_sdsetdimval_comp = 1 /\ sd_flag_updates_sdiregister_data_ref = 1 /\
  sd_register_callers_count = 4 /\ sd_register_callers_sdsetcompress = 1 /\ sd_register_callers_sdsetchunk = 1 /\
  sd_register_callers_sdsetexternalfile = 1 /\ sd_register_callers_sdsetnbitdataset = 1.
Proof. repeat split; reflexivity. Qed.

Lemma sd_marks_table :
  map sd_marks_header (seq 0 16) =
  [true; true; true; true; true; true; true; true; true; true; false; true; true; true; true; false].
Proof. reflexivity. Qed.
