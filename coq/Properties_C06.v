(** C06 -- Number-type conversion is exact, byte-order-correct and mode-independent.
    Property theorems only; each is closed by [exact] of a lemma from ConvProofs.v. *)
From Coq Require Import ZArith List Bool.
Require Import H4.ConvLang H4.gen.Gen_Conv H4.ConvModel H4.ConvProofs.
Import ListNotations.
Local Open Scope Z_scope.

(** Every supported number type and flavour (30 of them), in both directions, selects a routine of
    the right width that swaps exactly when the file order differs from memory order; DFKNTsize agrees. *)
Theorem dispatch_total : forall nt rd, In nt supported_nts ->
  exists w r, nt_width nt = Some w /\ ntsize nt = Some w /\ nt_flavour_ok nt = true /\ setnt nt rd = Some r /\
              rwidth r = w /\ rswap r = (nt_bigendian_file nt && (1 <? w)).
Proof. exact dispatch_total_lemma. Qed.
Print Assumptions dispatch_total.

(** Mode independence: for every supported type, direction, element count, strides (0/0 or >= size),
    in place or between disjoint buffers, the code model (loops regenerated from dfkswap.c/dfknat.c)
    computes exactly the abstract conversion. *)
Theorem dfkconvert_refines_spec :
  forall nt rd m s d n ss ds w,
    In nt supported_nts -> nt_width nt = Some w -> in_domain w s d n ss ds = true ->
    exists m' msp, dfkconvert m s d nt n rd ss ds = Some m' /\
                   spec_convert m s d nt n ss ds = Some msp /\ forall a, m' a = msp a.
Proof. exact dfkconvert_refines_spec_lemma. Qed.
Print Assumptions dfkconvert_refines_spec.

(** What the abstract conversion is, in closed form. *)
Theorem spec_convert_elementwise :
  forall nt m s d n ss ds w msp,
    nt_width nt = Some w -> in_domain w s d n ss ds = true ->
    spec_convert m s d nt n ss ds = Some msp ->
    let se := eff_se w ss ds in let de := eff_de w ss ds in
    let sw := nt_bigendian_file nt && (1 <? w) in
    (forall i k, 0 <= i < n -> 0 <= k < w -> msp (d + i * de + k) = m (s + i * se + perm w sw k)) /\
    (forall a, (forall i k, 0 <= i < n -> 0 <= k < w -> a <> d + i * de + k) -> msp a = m a).
Proof. exact spec_convert_elementwise_lemma. Qed.
Print Assumptions spec_convert_elementwise.

(** Exactness: memory -> file -> memory returns every bit pattern (the model moves bytes, never
    interprets them, so NaN payloads and denormals are covered). *)
Theorem convert_roundtrip :
  forall nt m d n st w m1 m2,
    In nt supported_nts -> nt_width nt = Some w -> in_domain w d d n st st = true ->
    dfkconvert m d d nt n false st st = Some m1 ->
    dfkconvert m1 d d nt n true st st = Some m2 ->
    forall a, m2 a = m a.
Proof. exact convert_roundtrip_lemma. Qed.
Print Assumptions convert_roundtrip.

(** Byte order: the file bytes of element i are the memory bytes reversed for standard (big-endian)
    multi-byte types and identical for little-endian / native ones; reversed little-endian digits are
    the big-endian digits of the same value. *)
Theorem file_bytes_are_digits :
  forall nt m s d n ss ds w msp i,
    nt_width nt = Some w -> in_domain w s d n ss ds = true ->
    spec_convert m s d nt n ss ds = Some msp -> 0 <= i < n ->
    let se := eff_se w ss ds in let de := eff_de w ss ds in
    let src := map (fun k => m (s + i * se + k)) (zseq w) in
    let dst := map (fun k => msp (d + i * de + k)) (zseq w) in
    if nt_bigendian_file nt && (1 <? w) then dst = rev src else dst = src.
Proof. exact file_bytes_are_digits_lemma. Qed.
Print Assumptions file_bytes_are_digits.

Theorem big_endian_value : forall l, be_value (rev l) = le_value l.
Proof. exact be_rev_le. Qed.
Print Assumptions big_endian_value.

(** Non-vacuity: the hypotheses are met by concrete non-trivial states. *)
Example domain_strided_inplace : In DFNT_INT32 supported_nts /\ nt_width DFNT_INT32 = Some 4 /\
  in_domain 4 16 16 3 8 8 = true.
Proof. vm_compute. intuition. Qed.
Example domain_disjoint_contig : In DFNT_FLOAT64 supported_nts /\ nt_width DFNT_FLOAT64 = Some 8 /\
  in_domain 8 0 64 5 0 0 = true.
Proof. vm_compute. intuition. Qed.
Example model_runs :
  model_case [1;2;3;4;5;6;7;8;0;0;0;0;0;0;0;0] 0 8 DFNT_INT32 2 false 0 0
  = Some [1;2;3;4;5;6;7;8;4;3;2;1;8;7;6;5].
Proof. vm_compute. reflexivity. Qed.
