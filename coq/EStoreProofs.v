(** C01 -- facts about the specification S itself (EStoreSpec.v) and its link to the zero-gap stream
    that the linked-block model is proved against. *)
From Coq Require Import ZArith List Bool Lia.
Require Import H4.EStoreSpec H4.HBlocksModel.
Import ListNotations.
Local Open Scope Z_scope.

Lemma settle_gap : settle (repeat (-1) 0) = []. Proof. reflexivity. Qed.

Lemma settle_repeat_gap k : settle (repeat (-1) k) = repeat 0 k.
Proof. induction k as [|k IH]; [reflexivity|]. cbn. f_equal. exact IH. Qed.

(** closing and reopening turns S's gap markers into zeros: S's write is the zero-gap stream write *)
Lemma settle_write_at_lemma d pos bytes :
  settle (write_at d pos bytes) = write_at0 (settle d) pos (settle bytes).
Proof.
  unfold write_at, write_at0.
  pose proof (settle_repeat_gap (Z.to_nat pos - length d)) as Hg.
  unfold settle in *.
  rewrite !map_app, <- firstn_map, <- skipn_map, !map_app, !map_length.
  rewrite Hg. reflexivity.
Qed.

Lemma settle_data bytes : Forall (fun b => 0 <= b) bytes -> settle bytes = bytes.
Proof.
  induction 1 as [|b l Hb _ IH]; [reflexivity|]. unfold settle in *. cbn [map]. rewrite IH.
  destruct (Z.eqb_spec b (-1)); [lia|]. destruct (Z.eqb_spec b (-2)); [lia|]. reflexivity.
Qed.

(** S: what was written is what is read back, and nothing else moves *)
Lemma read_after_write_lemma d pos bytes : 0 <= pos ->
  read_at (write_at d pos bytes) pos (EStoreSpec.zlen bytes) = bytes.
Proof.
  intros Hp. unfold read_at, write_at, EStoreSpec.zlen.
  set (p := Z.to_nat pos). set (padded := d ++ repeat (-1) (p - length d)).
  assert (Hpl : (p <= length padded)%nat) by (unfold padded; rewrite app_length, repeat_length; lia).
  rewrite skipn_app. rewrite skipn_all2 by (rewrite firstn_length; lia).
  rewrite firstn_length. replace (p - Nat.min p (length padded))%nat with 0%nat by lia.
  cbn [skipn app]. rewrite Nat2Z.id. rewrite firstn_app.
  rewrite Nat.sub_diag. cbn [firstn]. rewrite app_nil_r. apply firstn_all.
Qed.

Lemma write_keeps_prefix_lemma d pos bytes k : 0 <= pos -> (k <= Z.to_nat pos)%nat -> (k <= length d)%nat ->
  firstn k (write_at d pos bytes) = firstn k d.
Proof.
  intros Hp Hk Hd. unfold write_at.
  set (p := Z.to_nat pos). set (padded := d ++ repeat (-1) (p - length d)).
  rewrite firstn_app. rewrite firstn_firstn. replace (Nat.min k p) with k by lia.
  assert (Hpl : (p <= length padded)%nat) by (unfold padded; rewrite app_length, repeat_length; lia).
  rewrite firstn_length. replace (k - Nat.min p (length padded))%nat with 0%nat by lia.
  cbn [firstn]. rewrite app_nil_r. unfold padded. rewrite firstn_app.
  replace (k - length d)%nat with 0%nat by lia. cbn [firstn]. now rewrite app_nil_r.
Qed.

Lemma write_keeps_suffix_lemma d pos bytes : 0 <= pos -> (Z.to_nat pos + length bytes <= length d)%nat ->
  skipn (Z.to_nat pos + length bytes) (write_at d pos bytes) = skipn (Z.to_nat pos + length bytes) d.
Proof.
  intros Hp Hd. unfold write_at.
  set (p := Z.to_nat pos). replace (p - length d)%nat with 0%nat by lia. cbn [repeat]. rewrite app_nil_r.
  rewrite skipn_app. rewrite skipn_all2 by (rewrite firstn_length; lia).
  rewrite firstn_length. replace (p + length bytes - Nat.min p (length d))%nat with (length bytes) by lia.
  cbn [app]. rewrite skipn_app. rewrite skipn_all, Nat.sub_diag. reflexivity.
Qed.

Lemma write_length_lemma d pos bytes : 0 <= pos ->
  length (write_at d pos bytes) = Nat.max (length d) (Z.to_nat pos + length bytes).
Proof.
  intros Hp. unfold write_at. rewrite !app_length, firstn_length, skipn_length, app_length, repeat_length. lia.
Qed.
