(** Extraction of the contiguous element model (HFileModel.v) for the stepwise R-vs-M check. *)
Require Import H4.HFileModel.
Require Extraction.
Require ExtrOcamlBasic.
Extraction "../extract/gen/hfile_model.ml" hwrite hcreate htrunc hread hdup dfind alloc mkfs mkdd dds fend doff dlen.
