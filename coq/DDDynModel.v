(** C12 -- faithful model of hdf/src/dynarray.c (the per-tag "ref -> descriptor" array of hfiledd.c).
    num_elems, incr_mult and the array itself (length = num_elems; None = NULL pointer); DAset_elem grows the array to
    the next multiple of incr_mult above the index (expression regenerated: Gen_DD.DAset_elem_new_size), new cells
    NULL.  A store outside the array is reported as None (the C would write out of bounds).  No proofs here. *)
From Coq Require Import ZArith List Bool.
Require Import H4.gen.Gen_DD.
Import ListNotations.
Local Open Scope Z_scope.

Record dyn := mkdyn { dn_num : Z; dn_incr : Z; dn_arr : list (option nat) }.

Fixpoint lset {A} (l : list A) (n : nat) (v : A) : list A :=
  match l, n with
  | [], _ => []
  | _ :: l', O => v :: l'
  | x :: l', S n' => x :: lset l' n' v
  end.

(** DAcreate_array(start_size, incr_mult) *)
Definition dn_create (start incr : Z) : option dyn :=
  if (start <? 0) || (incr <=? 0) then None
  else Some (mkdyn start incr (repeat None (Z.to_nat start))).

(** DAget_elem: NULL for a negative index (error), beyond num_elems, or an empty cell *)
Definition dn_get (d : dyn) (elem : Z) : option nat :=
  if elem <? 0 then None else
  if elem >=? dn_num d then None else nth (Z.to_nat elem) (dn_arr d) None.

(** the growth step of DAset_elem *)
Definition dn_grow (d : dyn) (elem : Z) : dyn :=
  if elem >=? dn_num d then
    let new_size := DAset_elem_new_size (dn_incr d) elem in
    mkdyn new_size (dn_incr d) (dn_arr d ++ repeat None (Z.to_nat (new_size - dn_num d)))
  else d.

(** DAset_elem(arr, elem, obj); obj = None models a NULL object *)
Definition dn_set (d : dyn) (elem : Z) (obj : option nat) : option dyn :=
  if elem <? 0 then None else
  let d1 := dn_grow d elem in
  if (Z.to_nat elem <? length (dn_arr d1))%nat
  then Some (mkdyn (dn_num d1) (dn_incr d1) (lset (dn_arr d1) (Z.to_nat elem) obj))
  else None.                                   (* arr->arr[elem] = obj would be out of bounds *)

(** DAdel_elem: returns the old cell and empties it *)
Definition dn_del (d : dyn) (elem : Z) : dyn * option nat :=
  if elem <? 0 then (d, None) else
  if elem >=? dn_num d then (d, None)
  else (mkdyn (dn_num d) (dn_incr d) (lset (dn_arr d) (Z.to_nat elem) None), nth (Z.to_nat elem) (dn_arr d) None).

(** operation sequences: (0, r, p) = DAset_elem r -> Some p ; (1, r, _) = DAget_elem r ; (2, r, _) = DAdel_elem r.
    Output per operation: (result, num_elems) -- result: stored object + 1, 0 for NULL, -1 for FAIL. *)
Definition enc (o : option nat) : Z := match o with Some p => Z.of_nat p + 1 | None => 0 end.
Definition dn_step (d : dyn) (o : Z * Z * nat) : dyn * (Z * Z) :=
  let '(k, r, p) := o in
  if k =? 0 then match dn_set d r (Some p) with Some d' => (d', (0, dn_num d')) | None => (d, (-1, dn_num d)) end
  else if k =? 1 then (d, (enc (dn_get d r), dn_num d))
  else let '(d', old) := dn_del d r in (d', (enc old, dn_num d')).
Fixpoint dn_run (d : dyn) (h : list (Z * Z * nat)) : list (Z * Z) :=
  match h with [] => [] | o :: h' => let '(d', r) := dn_step d o in r :: dn_run d' h' end.
Definition dn_run_new (start incr : Z) (h : list (Z * Z * nat)) : option (list (Z * Z)) :=
  match dn_create start incr with Some d => Some (dn_run d h) | None => None end.
