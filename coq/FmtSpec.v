(** C02 -- specification S: the published HDF4 file format, written as executable parsers.
    No proofs here.  A byte is a Z in 0..255; an image is the list of the bytes of a file.
    Everything is total: parsers are structurally recursive on the byte list, walks over on-disk chains
    (DD blocks, linked-block tables, nested special elements) take fuel bounded by the image length and
    return [None]/[CErr] when it runs out (never a normal value).

    The numbers below are those of the format specification (HDF4 Specification and Developer's Guide, ch. 2, 10,
    11); FmtProofs.v proves they equal the constants regenerated from the current sources (Gen_Fmt.v). *)
From Coq Require Import ZArith List Bool.
Import ListNotations.
Local Open Scope Z_scope.

Definition image := list Z.
Definition zlen {A} (l : list A) : Z := Z.of_nat (length l).

Notation "x <- e1 ;; e2" := (match e1 with Some x => e2 | None => None end)
  (at level 61, e1 at next level, right associativity).
Notation "' p <- e1 ;; e2" := (match e1 with Some p => e2 | None => None end)
  (at level 61, p pattern, e1 at next level, right associativity).

(* ---- published constants ------------------------------------------------------------------ *)
Definition magic : list Z := [14; 3; 19; 1].      (* ^N ^C ^S ^A *)
Definition dd_size : Z := 12.
Definition blkhdr_size : Z := 6.
Definition tag_null : Z := 1.
Definition tag_linked : Z := 20.
Definition tag_compressed : Z := 40.
Definition tag_chunk : Z := 61.
Definition tag_vh : Z := 1962.
Definition tag_vs : Z := 1963.
Definition tag_vg : Z := 1965.
Definition sp_linked : Z := 1.
Definition sp_ext : Z := 2.
Definition sp_comp : Z := 3.
Definition sp_chunked : Z := 5.

(* ---- big-endian integers ------------------------------------------------------------------ *)
Definition be16 (b0 b1 : Z) : Z := b0 * 256 + b1.
Definition be32 (b0 b1 b2 b3 : Z) : Z := ((b0 * 256 + b1) * 256 + b2) * 256 + b3.
Definition sgn16 (u : Z) : Z := if u <? 32768 then u else u - 65536.
Definition sgn32 (u : Z) : Z := if u <? 2147483648 then u else u - 4294967296.

Definition p_u8 (l : list Z) : option (Z * list Z) :=
  match l with b :: r => Some (b, r) | _ => None end.
Definition p_u16 (l : list Z) : option (Z * list Z) :=
  match l with b0 :: b1 :: r => Some (be16 b0 b1, r) | _ => None end.
Definition p_i16 (l : list Z) : option (Z * list Z) :=
  match l with b0 :: b1 :: r => Some (sgn16 (be16 b0 b1), r) | _ => None end.
Definition p_u32 (l : list Z) : option (Z * list Z) :=
  match l with b0 :: b1 :: b2 :: b3 :: r => Some (be32 b0 b1 b2 b3, r) | _ => None end.
Definition p_i32 (l : list Z) : option (Z * list Z) :=
  match l with b0 :: b1 :: b2 :: b3 :: r => Some (sgn32 (be32 b0 b1 b2 b3), r) | _ => None end.

(** exactly [n] bytes *)
Fixpoint p_bytes (n : nat) (l : list Z) : option (list Z * list Z) :=
  match n with
  | O => Some ([], l)
  | S n' => match l with
            | b :: r => '(bs, r') <- p_bytes n' r ;; Some (b :: bs, r')
            | [] => None
            end
  end.

(** [n] repetitions of a parser *)
Fixpoint p_rep {A} (p : list Z -> option (A * list Z)) (n : nat) (l : list Z) : option (list A * list Z) :=
  match n with
  | O => Some ([], l)
  | S n' => '(x, r) <- p l ;; '(xs, r') <- p_rep p n' r ;; Some (x :: xs, r')
  end.

(** a count read from the file: rejected when negative or larger than the bytes that remain (every item
    takes at least one byte), so a damaged count can never make the reader loop for long *)
Definition p_count (v : Z) (l : list Z) : option nat :=
  if (v <? 0) || (zlen l <? v) then None else Some (Z.to_nat v).

(** counted string: 16-bit length, then that many bytes (no terminator) *)
Definition p_str16 (l : list Z) : option (list Z * list Z) :=
  '(n, r) <- p_u16 l ;; k <- p_count n r ;; p_bytes k r.

(** the [len] bytes at offset [off] of an image; [None] unless 0 <= off, 0 <= len, off+len <= |img| *)
Definition sub (img : image) (off len : Z) : option (list Z) :=
  if (off <? 0) || (len <? 0) || (zlen img <? off + len) then None
  else Some (firstn (Z.to_nat len) (skipn (Z.to_nat off) img)).

(* ---- data descriptors and the DD-block chain ------------------------------------------------ *)
Record dd := mkdd { dd_tag : Z; dd_ref : Z; dd_off : Z; dd_len : Z }.
Record ddblock := mkblk { blk_off : Z; blk_ndds : Z; blk_next : Z; blk_dds : list dd }.

Definition p_dd (l : list Z) : option (dd * list Z) :=
  '(t, r) <- p_u16 l ;; '(rf, r) <- p_u16 r ;; '(o, r) <- p_i32 r ;; '(n, r) <- p_i32 r ;;
  Some (mkdd t rf o n, r).

(** one DD block at offset [off]: 16-bit count (at least 1), 32-bit offset of the next block (0 = last),
    then [count] descriptors of 12 bytes *)
Definition p_block (img : image) (off : Z) : option ddblock :=
  hdr <- sub img off blkhdr_size ;;
  '(n, r) <- p_i16 hdr ;; '(nx, _) <- p_i32 r ;;
  if n <=? 0 then None else
  body <- sub img (off + blkhdr_size) (n * dd_size) ;;
  '(dds, _) <- p_rep p_dd (Z.to_nat n) body ;;
  Some (mkblk off n nx dds).

(** follow the chain; fuel exhaustion (a cycle, or more blocks than bytes) is [None] *)
Fixpoint walk (fuel : nat) (img : image) (off : Z) : option (list ddblock) :=
  match fuel with
  | O => None
  | S f => b <- p_block img off ;;
           if blk_next b =? 0 then Some [b]
           else rest <- walk f img (blk_next b) ;; Some (b :: rest)
  end.

Definition parse_file (img : image) : option (list ddblock) :=
  m <- sub img 0 4 ;;
  if forallb (fun p => fst p =? snd p) (combine m magic) then walk (length img) img 4 else None.

Definition all_dds (bl : list ddblock) : list dd := concat (map blk_dds bl).
Definition live (ds : list dd) : list dd := filter (fun d => negb (dd_tag d =? tag_null)) ds.

(** special ("extended") tags: bit 15 clear and bit 14 set *)
Definition is_special (t : Z) : bool := (t <? 32768) && (16384 <=? t).
Definition base_tag (t : Z) : Z := if is_special t then t - 16384 else t.

Definition key_eqb (tag ref : Z) (d : dd) : bool := (base_tag (dd_tag d) =? tag) && (dd_ref d =? ref).
Definition find_dd (ds : list dd) (tag ref : Z) : option dd := find (key_eqb tag ref) (live ds).

(* ---- special-element description records ------------------------------------------------------ *)
Record linked_hdr := mklh { lh_length : Z; lh_blen : Z; lh_nblk : Z; lh_ref : Z }.
Record ext_hdr := mkxh { xh_length : Z; xh_offset : Z; xh_name : list Z }.

Inductive coder :=
| CNone | CRle
| CNbit (nt sign_ext fill_one start_bit bit_len : Z)
| CSkphuff (skp_size skp_size2 : Z)
| CDeflate (level : Z)
| CSzip (pixels per_scanline mask bpp ppb : Z)
| COther (code : Z).

Record comp_hdr := mkch { ch_version : Z; ch_length : Z; ch_ref : Z; ch_model : Z; ch_coder : coder }.

Record chunk_dim := mkcd { cd_flag : Z; cd_len : Z; cd_clen : Z }.
Record chunk_hdr := mkkh {
  kh_hlen : Z; kh_version : Z; kh_flag : Z; kh_length : Z; kh_csize : Z; kh_ntsize : Z;
  kh_tbltag : Z; kh_tblref : Z; kh_sptag : Z; kh_spref : Z;
  kh_dims : list chunk_dim; kh_fill : list Z;
  kh_comp : option (Z * Z * coder)        (* header length, model, coder -- present iff flag & 0xff = 3 *)
}.

Inductive special := SLinked (h : linked_hdr) | SExt (h : ext_hdr) | SComp (h : comp_hdr) | SChunked (h : chunk_hdr)
                   | SOther (code : Z).

Definition p_linked (l : list Z) : option (linked_hdr * list Z) :=
  '(n, r) <- p_i32 l ;; '(bl, r) <- p_i32 r ;; '(nb, r) <- p_i32 r ;; '(lr, r) <- p_u16 r ;;
  Some (mklh n bl nb lr, r).

Definition p_ext (l : list Z) : option (ext_hdr * list Z) :=
  '(n, r) <- p_i32 l ;; '(o, r) <- p_i32 r ;; '(nl, r) <- p_i32 r ;; k <- p_count nl r ;;
  '(nm, r) <- p_bytes k r ;; Some (mkxh n o nm, r).

(** model type, coder type, coder parameters (hcomp.c HCPencode_header) *)
Definition p_coder (l : list Z) : option (Z * coder * list Z) :=
  '(m, r) <- p_u16 l ;; '(c, r) <- p_u16 r ;;
  if c =? 0 then Some (m, CNone, r)
  else if c =? 1 then Some (m, CRle, r)
  else if c =? 2 then
    '(nt, r) <- p_i32 r ;; '(se, r) <- p_u16 r ;; '(fo, r) <- p_u16 r ;; '(sb, r) <- p_i32 r ;; '(bl, r) <- p_i32 r ;;
    Some (m, CNbit nt se fo sb bl, r)
  else if c =? 3 then '(s1, r) <- p_u32 r ;; '(s2, r) <- p_u32 r ;; Some (m, CSkphuff s1 s2, r)
  else if c =? 4 then '(lv, r) <- p_u16 r ;; Some (m, CDeflate lv, r)
  else if c =? 5 then
    '(a, r) <- p_u32 r ;; '(b, r) <- p_u32 r ;; '(c', r) <- p_u32 r ;; '(d, r) <- p_u8 r ;; '(e, r) <- p_u8 r ;;
    Some (m, CSzip a b c' d e, r)
  else Some (m, COther c, r).

Definition p_comp (l : list Z) : option (comp_hdr * list Z) :=
  '(v, r) <- p_u16 l ;; '(n, r) <- p_i32 r ;; '(cr, r) <- p_u16 r ;; '(m, c, r) <- p_coder r ;;
  Some (mkch v n cr m c, r).

Definition p_cdim (l : list Z) : option (chunk_dim * list Z) :=
  '(f, r) <- p_i32 l ;; '(d, r) <- p_i32 r ;; '(c, r) <- p_i32 r ;; Some (mkcd f d c, r).

Definition p_chunked (l : list Z) : option (chunk_hdr * list Z) :=
  '(hl, r) <- p_i32 l ;; '(v, r) <- p_u8 r ;; '(fl, r) <- p_i32 r ;; '(n, r) <- p_i32 r ;;
  '(cs, r) <- p_i32 r ;; '(nt, r) <- p_i32 r ;; '(ttg, r) <- p_u16 r ;; '(trf, r) <- p_u16 r ;;
  '(st, r) <- p_u16 r ;; '(sr, r) <- p_u16 r ;; '(nd, r) <- p_i32 r ;; k <- p_count nd r ;;
  '(dims, r) <- p_rep p_cdim k r ;;
  '(fn, r) <- p_i32 r ;; kf <- p_count fn r ;; '(fv, r) <- p_bytes kf r ;;
  if fl mod 256 =? sp_comp then
    '(sc, r) <- p_u16 r ;; '(cl, r) <- p_i32 r ;; '(m, c, r) <- p_coder r ;;
    if sc =? sp_comp then Some (mkkh hl v fl n cs nt ttg trf st sr dims fv (Some (cl, m, c)), r) else None
  else Some (mkkh hl v fl n cs nt ttg trf st sr dims fv None, r).

(** the description record a special tag points to: 16-bit kind, then the kind's record *)
Definition p_special (l : list Z) : option (special * list Z) :=
  '(k, r) <- p_u16 l ;;
  if k =? sp_linked then '(h, r) <- p_linked r ;; Some (SLinked h, r)
  else if k =? sp_ext then '(h, r) <- p_ext r ;; Some (SExt h, r)
  else if k =? sp_comp then '(h, r) <- p_comp r ;; Some (SComp h, r)
  else if k =? sp_chunked then '(h, r) <- p_chunked r ;; Some (SChunked h, r)
  else Some (SOther k, r).

(** one linked-block table: ref of the next table (0 = last), then [nblk] block refs (0 = never written) *)
Definition p_linktable (nblk : nat) (l : list Z) : option (Z * list Z * list Z) :=
  '(nx, r) <- p_u16 l ;; '(refs, r) <- p_rep p_u16 nblk r ;; Some (nx, refs, r).

(* ---- Vdata header (VH) and Vgroup (VG) records ---------------------------------------------- *)
Record vattr := mkva { va_findex : Z; va_tag : Z; va_ref : Z }.
Record vh := mkvh {
  vh_interlace : Z; vh_nvert : Z; vh_ivsize : Z;
  vh_types : list Z; vh_isizes : list Z; vh_offs : list Z; vh_orders : list Z; vh_names : list (list Z);
  vh_name : list Z; vh_class : list Z; vh_extag : Z; vh_exref : Z; vh_version : Z; vh_more : Z;
  vh_flags : Z; vh_attrs : list vattr
}.

Definition p_vattr (l : list Z) : option (vattr * list Z) :=
  '(f, r) <- p_i32 l ;; '(t, r) <- p_u16 r ;; '(rf, r) <- p_u16 r ;; Some (mkva f t rf, r).

(** flags / attribute list, present iff version = 4; the attribute list iff bit 0 of flags *)
Definition p_flags {A} (pa : list Z -> option (A * list Z)) (version : Z) (l : list Z)
  : option (Z * list A * list Z) :=
  if version =? 4 then
    '(fl, r) <- p_u32 l ;;
    if Z.odd fl then '(na, r) <- p_i32 r ;; k <- p_count na r ;; '(al, r) <- p_rep pa k r ;; Some (fl, al, r)
    else Some (fl, [], r)
  else Some (0, [], l).

(** whole-element parser: the version is read from the five bytes before the end, as every reader of the
    format must; exactly one trailing byte follows the last field (a historic quirk of the writers) *)
Definition tail_version (l : list Z) : option (Z * Z) :=
  let n := length l in
  if Nat.ltb n 5 then None else
  '(v, r) <- p_u16 (skipn (n - 5) l) ;; '(m, _) <- p_u16 r ;; Some (v, m).

Definition parse_vh (l : list Z) : option vh :=
  '(ver, more) <- tail_version l ;;
  let ver := sgn16 ver in let more := sgn16 more in
  '(il, r) <- p_i16 l ;; '(nv, r) <- p_i32 r ;; '(iv, r) <- p_u16 r ;; '(nf, r) <- p_i16 r ;;
  k <- p_count nf r ;;
  '(ty, r) <- p_rep p_i16 k r ;; '(isz, r) <- p_rep p_u16 k r ;; '(off, r) <- p_rep p_u16 k r ;;
  '(ord, r) <- p_rep p_u16 k r ;; '(nms, r) <- p_rep p_str16 k r ;;
  '(nm, r) <- p_str16 r ;; '(cl, r) <- p_str16 r ;;
  '(et, r) <- p_u16 r ;; '(er, r) <- p_u16 r ;; '(v1, r) <- p_i16 r ;; '(m1, r) <- p_i16 r ;;
  '(fl, al, r) <- p_flags p_vattr ver r ;;
  '(v2, r) <- p_i16 r ;; '(m2, r) <- p_i16 r ;;
  if (v1 =? ver) && (m1 =? more) && (v2 =? ver) && (m2 =? more) && (Nat.eqb (length r) 1)
  then Some (mkvh il nv iv ty isz off ord nms nm cl et er ver more fl al) else None.

Record vg := mkvg {
  vg_tags : list Z; vg_refs : list Z; vg_name : list Z; vg_class : list Z; vg_extag : Z; vg_exref : Z;
  vg_flags : Z; vg_attrs : list (Z * Z); vg_version : Z; vg_more : Z
}.

Definition p_tagref (l : list Z) : option ((Z * Z) * list Z) :=
  '(t, r) <- p_u16 l ;; '(rf, r) <- p_u16 r ;; Some ((t, rf), r).

Definition parse_vg (l : list Z) : option vg :=
  '(ver, more) <- tail_version l ;;
  '(n, r) <- p_u16 l ;; k <- p_count n r ;;
  '(tg, r) <- p_rep p_u16 k r ;; '(rf, r) <- p_rep p_u16 k r ;;
  '(nm, r) <- p_str16 r ;; '(cl, r) <- p_str16 r ;;
  '(et, r) <- p_u16 r ;; '(er, r) <- p_u16 r ;;
  '(fl, al, r) <- p_flags p_tagref ver r ;;
  '(v2, r) <- p_u16 r ;; '(m2, r) <- p_u16 r ;;
  if (v2 =? ver) && (m2 =? more) && (Nat.eqb (length r) 1)
  then Some (mkvg tg rf nm cl et er fl al ver more) else None.

(* ---- run-length decoder (crle.c): control byte c; c >= 128: (c-128)+3 copies of the next byte; else c+1
        literal bytes ------------------------------------------------------------------------------ *)
Fixpoint rle_decode (fuel : nat) (l : list Z) (need : Z) : option (list Z) :=
  if need <=? 0 then Some [] else
  match fuel with
  | O => None
  | S f =>
    match l with
    | [] => None
    | c :: r =>
      if 128 <=? c then
        match r with
        | v :: r' => let k := Z.min (c - 128 + 3) need in
                     rest <- rle_decode f r' (need - k) ;; Some (repeat v (Z.to_nat k) ++ rest)
        | [] => None
        end
      else
        let n := c + 1 in
        let k := Z.min n need in
        if zlen r <? k then None else
        rest <- rle_decode f (skipn (Z.to_nat n) r) (need - k) ;; Some (firstn (Z.to_nat k) r ++ rest)
    end
  end.

(* ---- logical content of a data element --------------------------------------------------------- *)
Inductive content :=
| CBytes (l : list Z)
| COpaque (why : Z)      (* structure checked, bytes not decoded here (n-bit, skipping Huffman, szip, jpeg...) *)
| CErr (code : Z).       (* malformed: 1 no such element, 2 extent outside the image, 3 description record,
                            4 linked-block table, 5 fuel, 6 compressed stream, 7 chunk table, 8 external file *)

Definition pad_to (n : Z) (l : list Z) : list Z :=
  let k := Z.to_nat n in firstn k l ++ repeat 0 (k - length l).

Section Reader.
  (** external behaviour enters as section variables: the bytes of a named external file, and zlib's inflate
      (compressed bytes, expected length) -- both named in the trusted base *)
  Variable ext_file : list Z -> option (list Z).
  Variable inflate : list Z -> Z -> option (list Z).

  Variable img : image.
  Variable ds : list dd.

  Definition raw_of (d : dd) : option (list Z) := sub img (dd_off d) (dd_len d).

  (** the chain of block tables of a linked-block element: list of block refs, in order *)
  Fixpoint link_refs (fuel : nat) (get : Z -> Z -> content) (lref : Z) (nblk : nat) : option (list Z) :=
    match fuel with
    | O => None
    | S f =>
      match get tag_linked lref with
      | CBytes t => '(nx, refs, _) <- p_linktable nblk t ;;
                    if nx =? 0 then Some refs else rest <- link_refs f get nx nblk ;; Some (refs ++ rest)
      | _ => None
      end
    end.

  (** nominal size of block [i]: the first block keeps the length of the data it was promoted from *)
  Definition first_len (h : linked_hdr) (refs : list Z) : Z :=
    match refs with
    | r0 :: _ => if r0 =? 0 then lh_blen h else
                 match find_dd ds tag_linked r0 with Some d => dd_len d | None => lh_blen h end
    | [] => lh_blen h
    end.

  (** (ref, logical start, nominal size) of every block slot *)
  Fixpoint block_slots (refs : list Z) (start first blen : Z) (is_first : bool) : list (Z * Z * Z) :=
    match refs with
    | [] => []
    | r :: t => let n := if is_first then first else blen in
                (r, start, n) :: block_slots t (start + n) first blen false
    end.

  Definition linked_refs (h : linked_hdr) (get : Z -> Z -> content) : option (list Z) :=
    if (lh_nblk h <=? 0) || (lh_blen h <=? 0) || (65535 <? lh_nblk h) then None
    else link_refs (length img) get (lh_ref h) (Z.to_nat (lh_nblk h)).

  Definition linked_content (h : linked_hdr) (get : Z -> Z -> content) : content :=
    match linked_refs h get with
    | None => CErr 4
    | Some refs =>
      let slots := block_slots refs 0 (first_len h refs) (lh_blen h) true in
      let used := filter (fun s => match s with (_, st, _) => st <? lh_length h end) slots in
      let pieces := map (fun s => match s with (r, _, n) =>
                           if r =? 0 then Some (repeat 0 (Z.to_nat n))
                           else match get tag_linked r with CBytes b => Some (pad_to n b) | _ => None end end) used in
      if forallb (fun p => match p with Some _ => true | None => false end) pieces then
        let all := concat (map (fun p => match p with Some b => b | None => [] end) pieces) in
        if zlen all <? lh_length h then CErr 4 else CBytes (firstn (Z.to_nat (lh_length h)) all)
      else CErr 4
    end.

  (** where the data of a linked-block element lies in the file: (offset, used length) of every block that
      was written and holds part of the element.  [blk r] = (offset, length) of block (DFTAG_LINKED, r);
      a slot is (ref, logical start, nominal size) *)
  Fixpoint extents_of_slots (blk : Z -> option (Z * Z)) (total : Z) (slots : list (Z * Z * Z))
    : option (list (Z * Z)) :=
    match slots with
    | [] => Some []
    | (r, st, n) :: t =>
      if (r =? 0) || negb (st <? total) then extents_of_slots blk total t
      else match blk r with
           | None => None
           | Some (o, len) => rest <- extents_of_slots blk total t ;;
                              Some ((o, Z.min (Z.min n len) (total - st)) :: rest)
           end
    end.

  Definition blk_lookup (r : Z) : option (Z * Z) :=
    match find_dd ds tag_linked r with Some d => Some (dd_off d, dd_len d) | None => None end.

  Definition linked_extents (h : linked_hdr) (get : Z -> Z -> content) : option (list (Z * Z)) :=
    refs <- linked_refs h get ;;
    extents_of_slots blk_lookup (lh_length h) (block_slots refs 0 (first_len h refs) (lh_blen h) true).

  Definition decode (c : coder) (raw : list Z) (n : Z) : content :=
    match c with
    | CNone => if zlen raw <? n then CErr 6 else CBytes (firstn (Z.to_nat n) raw)
    | CRle => match rle_decode (length raw) raw n with Some b => CBytes b | None => CErr 6 end
    | CDeflate _ => match inflate raw n with Some b => CBytes b | None => CErr 6 end
    | CNbit _ _ _ _ _ => COpaque 2
    | CSkphuff _ _ => COpaque 3
    | CSzip _ _ _ _ _ => COpaque 5
    | COther k => COpaque k
    end.

  (* ---- chunked elements ---- *)
  Record chunk_rec := mkcr { cr_origin : list Z; cr_tag : Z; cr_ref : Z }.
  Definition p_chunkrec (nd : nat) (l : list Z) : option (chunk_rec * list Z) :=
    '(o, r) <- p_rep p_i32 nd l ;; '(t, r) <- p_u16 r ;; '(rf, r) <- p_u16 r ;; Some (mkcr o t rf, r).

  Definition chunk_table (h : chunk_hdr) (get : Z -> Z -> content) : option (list chunk_rec) :=
    match get (kh_tbltag h) (kh_tblref h), get tag_vs (kh_tblref h) with
    | CBytes vhb, tbl =>
      v <- parse_vh vhb ;;
      let nd := length (kh_dims h) in
      if vh_nvert v =? 0 then Some [] else
      match tbl with
      | CBytes t => k <- p_count (vh_nvert v) t ;;
                    if vh_ivsize v =? 4 * Z.of_nat nd + 4 then '(recs, _) <- p_rep (p_chunkrec nd) k t ;; Some recs
                    else None
      | _ => None
      end
    | _, _ => None
    end.

  Definition zrange (n : Z) : list Z := map Z.of_nat (seq 0 (Z.to_nat n)).
  Fixpoint coords (dims : list Z) : list (list Z) :=
    match dims with
    | [] => [[]]
    | d :: t => let rest := coords t in flat_map (fun i => map (cons i) rest) (zrange d)
    end.
  Fixpoint rowmajor (idx dims : list Z) (acc : Z) : Z :=
    match idx, dims with
    | i :: it, d :: dt => rowmajor it dt (acc * d + i)
    | _, _ => acc
    end.
  Fixpoint list_eqb (a b : list Z) : bool :=
    match a, b with
    | [], [] => true
    | x :: a', y :: b' => (x =? y) && list_eqb a' b'
    | _, _ => false
    end.
  Definition product (l : list Z) : Z := fold_right Z.mul 1 l.

  Definition chunked_content (h : chunk_hdr) (get : Z -> Z -> content) : content :=
    let dl := map cd_len (kh_dims h) in
    let cl := map cd_clen (kh_dims h) in
    let nt := kh_ntsize h in
    if negb (forallb (fun d => (0 <? cd_len d) && (0 <? cd_clen d)) (kh_dims h)) || (nt <=? 0)
       || (1048576 <? product dl * nt) || negb (product cl =? kh_csize h) || negb (product dl =? kh_length h)
    then CErr 3 else
    match chunk_table h get with
    | None => CErr 7
    | Some recs =>
      let cbytes := kh_csize h * nt in
      let loaded := map (fun c => (cr_origin c, get (cr_tag c) (cr_ref c))) recs in
      if negb (forallb (fun p => match snd p with CBytes b => cbytes <=? zlen b | COpaque _ => true | CErr _ => false end) loaded)
      then CErr 7
      else if existsb (fun p => match snd p with COpaque _ => true | _ => false end) loaded then COpaque 1
      else
        let fillchunk := if zlen (kh_fill h) =? 0 then repeat 0 (Z.to_nat cbytes)
                         else firstn (Z.to_nat cbytes) (concat (repeat (kh_fill h) (Z.to_nat (cbytes / zlen (kh_fill h) + 1)))) in
        let chunk_of (o : list Z) : list Z :=
          match find (fun p => list_eqb (fst p) o) loaded with
          | Some (_, CBytes b) => b
          | _ => fillchunk
          end in
        CBytes (flat_map (fun c =>
                  let o := map (fun p => fst p / snd p) (combine c cl) in
                  let w := map (fun p => fst p mod snd p) (combine c cl) in
                  let pos := rowmajor w cl 0 in
                  firstn (Z.to_nat nt) (skipn (Z.to_nat (pos * nt)) (chunk_of o))) (coords dl))
    end.

  (** logical content of element (tag, ref): what a reader that knows only the format recovers *)
  Fixpoint elem_content (fuel : nat) (tag ref : Z) : content :=
    match fuel with
    | O => CErr 5
    | S f =>
      match find_dd ds tag ref with
      | None => CErr 1
      | Some d =>
        match raw_of d with
        | None => if (dd_off d =? -1) && (dd_len d =? -1) then CBytes [] else CErr 2
        | Some raw =>
          if is_special (dd_tag d) then
            match p_special raw with
            | Some (SLinked h, _) => linked_content h (elem_content f)
            | Some (SExt h, _) =>
                match ext_file (xh_name h) with
                | Some x => match sub x (xh_offset h) (xh_length h) with Some b => CBytes b | None => CErr 8 end
                | None => CErr 8
                end
            | Some (SComp h, _) =>
                if ch_length h =? 0 then CBytes [] else
                match elem_content f tag_compressed (ch_ref h) with
                | CBytes raw' => decode (ch_coder h) raw' (ch_length h)
                | other => other
                end
            | Some (SChunked h, _) => chunked_content h (elem_content f)
            | Some (SOther k, _) => COpaque (100 + k)
            | None => CErr 3
            end
          else CBytes raw
        end
      end
    end.

  Definition content_fuel : nat := 8.   (* nesting depth: chunked -> compressed -> linked -> block *)
  Definition element (tag ref : Z) : content := elem_content content_fuel tag ref.

  (** where the stored data of an element lies in this file -- what the raw-location queries must report.
      [coord]: chunk coordinates for a chunked element.  [None] = no such element / malformed. *)
  Definition stored_extents (tag ref : Z) (d : dd) : option (list (Z * Z)) :=
    if (dd_off d =? -1) && (dd_len d =? -1) then Some [] else
    if is_special (dd_tag d) then
      raw <- raw_of d ;;
      match p_special raw with
      | Some (SLinked h, _) => linked_extents h element
      | _ => None
      end
    else Some [(dd_off d, dd_len d)].

  Definition comp_extents (h : comp_hdr) : option (list (Z * Z)) :=
    if ch_length h =? 0 then Some [] else
    d <- find_dd ds tag_compressed (ch_ref h) ;; stored_extents tag_compressed (ch_ref h) d.

  Definition data_extents (tag ref : Z) (coord : option (list Z)) : option (list (Z * Z)) :=
    d <- find_dd ds tag ref ;;
    if (dd_off d =? -1) && (dd_len d =? -1) then Some [] else
    if is_special (dd_tag d) then
      raw <- raw_of d ;;
      match p_special raw with
      | Some (SLinked h, _) => linked_extents h element
      | Some (SExt _, _) => Some []
      | Some (SComp h, _) => comp_extents h
      | Some (SChunked h, _) =>
          c <- coord ;;
          recs <- chunk_table h element ;;
          match find (fun r => list_eqb (cr_origin r) c) recs with
          | None => Some []
          | Some r =>
            cd <- find_dd ds (base_tag (cr_tag r)) (cr_ref r) ;;
            if is_special (dd_tag cd) then
              craw <- raw_of cd ;;
              match p_special craw with
              | Some (SComp ch, _) => comp_extents ch
              | _ => None
              end
            else Some [(dd_off cd, dd_len cd)]
          end
      | _ => None
      end
    else Some [(dd_off d, dd_len d)].

  (** the answer of a raw-location query with room for [info_count] entries ([None] = NULL arrays, count only) *)
  Definition datainfo_answer (exts : list (Z * Z)) (info_count : option Z) : Z * list (Z * Z) :=
    match info_count with
    | None => (zlen exts, [])
    | Some n => let got := firstn (Z.to_nat n) exts in (zlen got, got)
    end.

  (* ---- well-formedness, decidable form --------------------------------------------------------- *)
  Definition extent_ok (d : dd) : bool :=
    ((dd_off d =? -1) && (dd_len d =? -1)) || ((0 <=? dd_off d) && (0 <=? dd_len d) && (dd_off d + dd_len d <=? zlen img)).

  Definition ranges_ok (a b : Z * Z) : bool :=      (* disjoint, or the same extent (alias), or one empty *)
    let '(o1, n1) := a in let '(o2, n2) := b in
    (n1 <=? 0) || (n2 <=? 0) || (o1 + n1 <=? o2) || (o2 + n2 <=? o1) || ((o1 =? o2) && (n1 =? n2)).

  Fixpoint pairwise {A} (ok : A -> A -> bool) (l : list A) : bool :=
    match l with [] => true | x :: t => forallb (ok x) t && pairwise ok t end.

  Definition key_differs (a b : dd) : bool :=
    negb ((base_tag (dd_tag a) =? base_tag (dd_tag b)) && (dd_ref a =? dd_ref b)).

  Definition exists_dd (tag ref : Z) : bool := match find_dd ds tag ref with Some _ => true | None => false end.

  (** a special element's description record parses and the objects it names exist *)
  Definition special_ok (d : dd) : bool :=
    if negb (is_special (dd_tag d)) then true else
    match raw_of d with
    | None => false
    | Some raw =>
      match p_special raw with
      | Some (SLinked h, _) =>
          match linked_refs h element with
          | Some refs => forallb (fun r => (r =? 0) || exists_dd tag_linked r) refs && (0 <=? lh_length h)
          | None => false
          end
      | Some (SExt h, _) => (0 <=? xh_length h) && (0 <=? xh_offset h)
      | Some (SComp h, _) => (0 <=? ch_length h) && ((ch_length h =? 0) || exists_dd tag_compressed (ch_ref h))
      | Some (SChunked h, _) =>
          match chunk_table h element with
          | Some recs => forallb (fun r => exists_dd (base_tag (cr_tag r)) (cr_ref r)) recs
          | None => false
          end
      | Some (SOther _, _) => true
      | None => false
      end
    end.

  (** Vdata headers and Vgroups are internally consistent with what they reference *)
  Definition vrecord_ok (d : dd) : bool :=
    if dd_tag d =? tag_vh then
      match element tag_vh (dd_ref d) with
      | CBytes b =>
        match parse_vh b with
        | Some v =>
          let n := length (vh_types v) in
          Nat.eqb (length (vh_isizes v)) n && Nat.eqb (length (vh_offs v)) n && Nat.eqb (length (vh_orders v)) n
          && Nat.eqb (length (vh_names v)) n && (0 <=? vh_nvert v)
          && ((vh_nvert v =? 0) || (vh_ivsize v =? 0) ||
              match element tag_vs (dd_ref d) with
              | CBytes data => vh_nvert v * vh_ivsize v <=? zlen data
              | COpaque _ => true
              | CErr _ => false
              end)
        | None => false
        end
      | _ => false
      end
    else if dd_tag d =? tag_vg then
      match element tag_vg (dd_ref d) with
      | CBytes b =>
        match parse_vg b with
        | Some g => Nat.eqb (length (vg_tags g)) (length (vg_refs g)) &&
                    forallb (fun p => negb ((fst p =? tag_vh) || (fst p =? tag_vg)) || exists_dd (fst p) (snd p))
                            (combine (vg_tags g) (vg_refs g))
        | None => false
        end
      | _ => false
      end
    else true.
End Reader.

Definition blk_extent (b : ddblock) : Z * Z := (blk_off b, blkhdr_size + blk_ndds b * dd_size).
Definition dd_extent (d : dd) : Z * Z := (dd_off d, dd_len d).

Definition strictly_apart (a b : Z * Z) : bool :=
  let '(o1, n1) := a in let '(o2, n2) := b in (o1 + n1 <=? o2) || (o2 + n2 <=? o1).
Definition apart_or_empty (blk e : Z * Z) : bool := (snd e <=? 0) || strictly_apart blk e.

(** the decidable well-formedness checks, individually (so a report can name the one that fails) *)
Definition chk_blocks (img : image) (bl : list ddblock) : bool :=
  pairwise strictly_apart ((0, 4) :: map blk_extent bl).
Definition chk_nodup (bl : list ddblock) : bool := pairwise key_differs (live (all_dds bl)).
Definition chk_extents (img : image) (bl : list ddblock) : bool := forallb (extent_ok img) (live (all_dds bl)).
Definition chk_overlap (bl : list ddblock) : bool :=
  pairwise ranges_ok (map dd_extent (live (all_dds bl))) &&
  forallb (fun b => forallb (apart_or_empty b) (map dd_extent (live (all_dds bl)))) ((0, 4) :: map blk_extent bl).
Definition chk_special ext_file inflate (img : image) (bl : list ddblock) : bool :=
  forallb (special_ok ext_file inflate img (all_dds bl)) (live (all_dds bl)).
Definition chk_vrecords ext_file inflate (img : image) (bl : list ddblock) : bool :=
  forallb (vrecord_ok ext_file inflate img (all_dds bl)) (live (all_dds bl)).

Definition wf_check ext_file inflate (img : image) : bool :=
  match parse_file img with
  | None => false
  | Some bl => chk_blocks img bl && chk_nodup bl && chk_extents img bl && chk_overlap bl &&
               chk_special ext_file inflate img bl && chk_vrecords ext_file inflate img bl
  end.

(* ---- further cross-checks run by h4read on every closed file (not part of [wf_check]) ------------------- *)
(** every linked-block data descriptor (tag 20) is a block table or a data block of some linked-block element:
    a table patched into the wrong place leaves blocks nobody names *)
Fixpoint link_all_refs (fuel : nat) (get : Z -> Z -> content) (lref : Z) (nblk : nat) : list Z :=
  match fuel with
  | O => []
  | S f =>
    match get tag_linked lref with
    | CBytes t => match p_linktable nblk t with
                  | Some (nx, refs, _) => lref :: refs ++ (if nx =? 0 then [] else link_all_refs f get nx nblk)
                  | None => [lref]
                  end
    | _ => [lref]
    end
  end.

Definition linked_used ext_file inflate (img : image) (ds : list dd) : list Z :=
  flat_map (fun d =>
    if is_special (dd_tag d) then
      match raw_of img d with
      | Some raw => match p_special raw with
                    | Some (SLinked h, _) =>
                        if (0 <? lh_nblk h) && (lh_nblk h <? 65536)
                        then link_all_refs (length img) (element ext_file inflate img ds) (lh_ref h) (Z.to_nat (lh_nblk h))
                        else []
                    | _ => []
                    end
      | None => []
      end
    else []) (live ds).

Definition orphan_blocks ext_file inflate (img : image) (ds : list dd) : list Z :=
  let used := linked_used ext_file inflate img ds in
  map dd_ref (filter (fun d => (dd_tag d =? tag_linked) && negb (existsb (Z.eqb (dd_ref d)) used)) (live ds)).

(** scientific-data dimension record (DFTAG_SDD): rank, dimension sizes, then the number-type tag/ref of the data *)
Definition p_sdd (l : list Z) : option (list Z * (Z * Z)) :=
  '(rank, r) <- p_i16 l ;; k <- p_count rank r ;; '(dims, r) <- p_rep p_i32 k r ;;
  '(t, r) <- p_u16 r ;; '(rf, _) <- p_u16 r ;; Some (dims, (t, rf)).

(** old-style label/unit/format element "<data set>NUL<dim 0>NUL<dim 1>NUL...": (offset, length) of string [k] *)
Fixpoint str_len (l : list Z) : Z := match l with [] => 0 | c :: t => if c =? 0 then 0 else 1 + str_len t end.
Fixpoint after_nul (l : list Z) : option (list Z) :=
  match l with [] => None | c :: t => if c =? 0 then Some t else after_nul t end.
Fixpoint luf_nth (k : nat) (l : list Z) (pos : Z) : option (Z * Z) :=
  match k with
  | O => Some (pos, str_len l)
  | S k' => match after_nul l with
            | Some rest => luf_nth k' rest (pos + str_len l + 1)
            | None => None
            end
  end.

(* ---- palettes and attributes (raw-location queries of the GR / SD layer) ---------------------------------- *)
(** palette descriptors (DFTAG_IP8 = 201, DFTAG_LUT = 301) in directory order: what GRgetpalinfo must report, the
    first [pal_count] of them when the caller's array is shorter *)
Definition is_pal_tag (t : Z) : bool := (t =? 201) || (t =? 301).
Definition palettes (ds : list dd) : list dd := filter (fun d => is_pal_tag (dd_tag d)) (live ds).
Definition pal_answer (ds : list dd) (pal_count : option Z) : Z * list dd :=
  match pal_count with
  | None => (zlen (palettes ds), [])
  | Some n => let got := firstn (Z.to_nat n) (palettes ds) in (zlen got, got)
  end.

(** an attribute of a file / data set / dimension is the Vdata of class "Attr0.0" in the object's Vgroup whose name
    is EXACTLY the attribute's name; members = (class, name, ref) of the Vgroup's Vdatas in order *)
Definition attr_class : list Z := [65; 116; 116; 114; 48; 46; 48].      (* "Attr0.0" *)
Fixpoint bytes_eqb (a b : list Z) : bool :=
  match a, b with
  | [], [] => true
  | x :: a', y :: b' => (x =? y) && bytes_eqb a' b'
  | _, _ => false
  end.
Definition attr_find (members : list (list Z * list Z * Z)) (name : list Z) : option Z :=
  match find (fun m => bytes_eqb (fst (fst m)) attr_class && bytes_eqb name (snd (fst m))) members with
  | Some m => Some (snd m)
  | None => None
  end.

(** the attributes of a Vdata are one list of (owner, tag, ref) in the order they were set; owner = -1 the Vdata
    itself, else the index of a field.  Attribute number [k] of owner [f] is the k-th entry of that owner *)
Definition vsattr_nth (alist : list vattr) (findex k : Z) : option vattr :=
  if k <? 0 then None else nth_error (filter (fun e => va_findex e =? findex) alist) (Z.to_nat k).

(* ---- well-formedness, declarative form ------------------------------------------------------------ *)
(** the DD-block chain starting at [off]: every block parses, each names the next, the last names 0 *)
Inductive chain (img : image) : Z -> list ddblock -> Prop :=
| chain_last : forall off b, p_block img off = Some b -> blk_next b = 0 -> chain img off [b]
| chain_cons : forall off b rest, p_block img off = Some b -> blk_next b <> 0 ->
               chain img (blk_next b) rest -> chain img off (b :: rest).

Definition apart (a b : Z * Z) : Prop := fst a + snd a <= fst b \/ fst b + snd b <= fst a.
Definition apart_or_alias (a b : Z * Z) : Prop := snd a <= 0 \/ snd b <= 0 \/ apart a b \/ a = b.
Definition in_image (img : image) (d : dd) : Prop :=
  (dd_off d = -1 /\ dd_len d = -1) \/ (0 <= dd_off d /\ 0 <= dd_len d /\ dd_off d + dd_len d <= zlen img).
Definition same_key (a b : dd) : Prop := base_tag (dd_tag a) = base_tag (dd_tag b) /\ dd_ref a = dd_ref b.

Record WellFormedDir (img : image) (bl : list ddblock) : Prop := {
  wf_magic : firstn 4 img = magic;
  wf_chain : chain img 4 bl;                                                 (* finite, hence acyclic *)
  wf_blocks_distinct : NoDup (map blk_off bl);
  wf_blocks_apart : ForallOrdPairs apart ((0, 4) :: map blk_extent bl);     (* header and blocks do not overlap *)
  wf_blocks_inside : Forall (fun b => 0 <= blk_off b /\ blk_off b + snd (blk_extent b) <= zlen img) bl;
  wf_nodup : ForallOrdPairs (fun a b => ~ same_key a b) (live (all_dds bl));
  wf_inside : Forall (in_image img) (live (all_dds bl));
  wf_disjoint : ForallOrdPairs apart_or_alias (map dd_extent (live (all_dds bl)));
  wf_not_in_dir : Forall (fun b => Forall (fun e => snd e <= 0 \/ apart b e) (map dd_extent (live (all_dds bl))))
                         ((0, 4) :: map blk_extent bl)
}.

(** the whole property of an image: the directory is well formed, every special element's description record
    parses and names existing objects, every Vdata header / Vgroup is consistent with what it references *)
Definition WellFormed ext_file inflate (img : image) : Prop :=
  exists bl, parse_file img = Some bl /\ WellFormedDir img bl /\
             Forall (fun d => special_ok ext_file inflate img (all_dds bl) d = true) (live (all_dds bl)) /\
             Forall (fun d => vrecord_ok ext_file inflate img (all_dds bl) d = true) (live (all_dds bl)).
