(** C18 -- the strip-mining copy loop of copy_sds partitions the array in order: general proof
    (every rank, every positive extent, every element size and buffer size with eltsz <= buf). *)
From Coq Require Import ZArith List Bool Lia.
Require Import H4.gen.Gen_Repack H4.RepackSpec H4.RepackModel.
Import ListNotations.
Local Open Scope Z_scope.

(** * The generated statements, in closed form *)
Lemma hs_size_min : forall d o s, strip_hs_size d o s = Z.min (d - o) s.
Proof. intros. unfold strip_hs_size. destruct (d - o <? s) eqn:E; simpl; [apply Z.ltb_lt in E | apply Z.ltb_ge in E]; lia. Qed.

Lemma strip_size_min : forall d buf nb, 0 <= buf -> 0 < nb -> strip_size d buf nb = Z.min d (buf / nb).
Proof.
  intros. unfold strip_size. rewrite Z.quot_div_nonneg by lia.
  destruct (d <? buf / nb) eqn:E; simpl; [apply Z.ltb_lt in E | apply Z.ltb_ge in E]; lia.
Qed.

Lemma wrap_truth : forall o d h, truth (strip_wrap o d h) = (o =? d).
Proof. intros. unfold strip_wrap, truth. destruct (o =? d); reflexivity. Qed.

Lemma carry_truth : forall o d h, truth (strip_carry o d h) = (o =? d).
Proof. intros. unfold strip_carry, truth. destruct (o =? d); reflexivity. Qed.

(** * Lists *)
Lemma zcount_app : forall a b lo, zcount lo (a + b) = zcount lo a ++ zcount (lo + Z.of_nat a) b.
Proof.
  induction a as [|a IH]; intros b lo; simpl.
  - rewrite Z.add_0_r. reflexivity.
  - rewrite IH. f_equal. f_equal. f_equal. lia.
Qed.

Lemma flat_map_flat_map : forall (A B C : Type) (F : B -> list C) (G : A -> list B) l,
  flat_map F (flat_map G l) = flat_map (fun x => flat_map F (G x)) l.
Proof. induction l as [|x l IH]; simpl; [reflexivity|]. rewrite flat_map_app, IH. reflexivity. Qed.

Lemma flat_map_single : forall base d o n, flat_map (fun k => [base * d + k]) (zcount o n) = zcount (base * d + o) n.
Proof. intros base d o n. revert o. induction n as [|n IH]; intro o; simpl; [reflexivity|]. rewrite IH. f_equal. f_equal. lia. Qed.

Lemma zprod_app : forall a b, zprod (a ++ b) = zprod a * zprod b.
Proof. induction a as [|x a IH]; intro b; unfold zprod in *; simpl; [destruct (fold_right Z.mul 1 b); reflexivity|]. rewrite IH. lia. Qed.

Lemma zprod_rev : forall l, zprod (rev l) = zprod l.
Proof. induction l as [|x l IH]; [reflexivity|]. simpl rev. rewrite zprod_app, IH. unfold zprod. simpl. lia. Qed.

(** cells of a block when a fastest dimension is appended (lists are slowest first) *)
Lemma bc_snoc : forall dims offs hs d o h base, length dims = length offs -> length dims = length hs ->
  block_cells (dims ++ [d]) (offs ++ [o]) (hs ++ [h]) base =
  flat_map (fun c => zcount (c * d + o) (Z.to_nat h)) (block_cells dims offs hs base).
Proof.
  induction dims as [|d0 dims IH]; intros offs hs d o h base Ho Hh.
  - destruct offs; [|discriminate]. destruct hs; [|discriminate]. simpl.
    rewrite flat_map_single. rewrite app_nil_r. reflexivity.
  - destruct offs as [|o0 offs]; [discriminate|]. destruct hs as [|h0 hs]; [discriminate|].
    simpl in Ho, Hh. injection Ho as Ho. injection Hh as Hh.
    cbn [app block_cells]. rewrite flat_map_flat_map. apply flat_map_ext. intro k. apply IH; assumption.
Qed.

Lemma hs_sizes_snoc : forall a b c x y z, length a = length b -> length a = length c ->
  hs_sizes (a ++ [x]) (b ++ [y]) (c ++ [z]) = hs_sizes a b c ++ [strip_hs_size x y z].
Proof.
  induction a as [|a0 a IH]; intros b c x y z Hb Hc.
  - destruct b; [|discriminate]. destruct c; [|discriminate]. reflexivity.
  - destruct b as [|b0 b]; [discriminate|]. destruct c as [|c0 c]; [discriminate|].
    simpl in Hb, Hc. injection Hb as Hb. injection Hc as Hc. cbn [app hs_sizes]. rewrite IH by assumption. reflexivity.
Qed.

Lemma hs_sizes_length : forall a b c, length a = length b -> length a = length c -> length (hs_sizes a b c) = length a.
Proof.
  induction a as [|a0 a IH]; intros b c Hb Hc; [reflexivity|].
  destruct b as [|b0 b]; [discriminate|]. destruct c as [|c0 c]; [discriminate|].
  simpl in *. injection Hb as Hb. injection Hc as Hc. rewrite IH by assumption. reflexivity.
Qed.

Lemma hs_sizes_rev : forall a b c, length a = length b -> length a = length c ->
  hs_sizes (rev a) (rev b) (rev c) = rev (hs_sizes a b c).
Proof.
  induction a as [|a0 a IH]; intros b c Hb Hc.
  - destruct b; [|discriminate]. destruct c; [|discriminate]. reflexivity.
  - destruct b as [|b0 b]; [discriminate|]. destruct c as [|c0 c]; [discriminate|].
    simpl in Hb, Hc. injection Hb as Hb. injection Hc as Hc. cbn [rev hs_sizes].
    rewrite hs_sizes_snoc by (rewrite !rev_length; assumption). rewrite IH by assumption. reflexivity.
Qed.

(** * The walk on reversed lists (fastest dimension first) *)
Fixpoint lin (dr orr : list Z) : Z :=
  match dr, orr with
  | d :: dr', o :: or' => lin dr' or' * d + o
  | _, _ => 0
  end.

Definition cells (dr orr hr : list Z) : list Z := block_cells (rev dr) (rev orr) (rev hr) 0.
Definition ones (l : list Z) : list Z := map (fun _ => 1) l.
Definition zeros (l : list Z) : list Z := map (fun _ => 0) l.
Definition inrange (dr orr : list Z) : Prop := Forall2 (fun d o => 0 <= o < d) dr orr.

Lemma zprod_cons : forall d l, zprod (d :: l) = d * zprod l.
Proof. reflexivity. Qed.

Lemma cells_cons : forall d dr o orr h hr, length dr = length orr -> length dr = length hr ->
  cells (d :: dr) (o :: orr) (h :: hr) = flat_map (fun c => zcount (c * d + o) (Z.to_nat h)) (cells dr orr hr).
Proof. intros. unfold cells. cbn [rev]. apply bc_snoc; rewrite !rev_length; assumption. Qed.

Lemma flat_map_rows : forall d n L, 0 <= d ->
  flat_map (fun c => zcount (c * d + 0) (Z.to_nat d)) (zcount L n) = zcount (L * d) (n * Z.to_nat d).
Proof.
  intros d n. induction n as [|n IH]; intros L Hd; [reflexivity|].
  cbn [zcount flat_map]. rewrite IH by assumption.
  change (S n * Z.to_nat d)%nat with (Z.to_nat d + n * Z.to_nat d)%nat. rewrite zcount_app.
  f_equal; [f_equal; lia|]. f_equal. rewrite Z2Nat.id by lia. lia.
Qed.

Lemma inrange_length : forall dr orr, inrange dr orr -> length dr = length orr.
Proof. intros dr orr H. induction H; simpl; congruence. Qed.

(** unit odometer: all block sizes 1 *)
Lemma unit_step : forall dr orr, inrange dr orr ->
  hs_sizes dr orr (ones dr) = ones dr /\ 0 <= lin dr orr < zprod dr /\
  exists or', next_offset_rev dr orr (ones dr) = or' /\ length or' = length dr /\
    ((lin dr orr + 1 < zprod dr /\ inrange dr or' /\ lin dr or' = lin dr orr + 1) \/
     (lin dr orr + 1 = zprod dr /\ or' = zeros dr)).
Proof.
  intros dr orr H. induction H as [|d o dr orr Hdo Hr IH].
  - split; [reflexivity|]. split; [unfold zprod; simpl; lia|]. exists []. simpl. split; [reflexivity|]. split; [reflexivity|].
    right. split; reflexivity.
  - destruct IH as [IHh [IHl [or' [IHn [IHlen IHc]]]]].
    cbn [ones map hs_sizes]. fold (ones dr). rewrite IHh. rewrite hs_size_min.
    split; [f_equal; lia|]. rewrite zprod_cons. cbn [lin].
    split; [nia|].
    cbn [next_offset_rev]. rewrite wrap_truth, carry_truth.
    destruct (o + 1 =? d) eqn:E.
    + apply Z.eqb_eq in E. fold (ones dr). rewrite IHn. exists (0 :: or'). split; [reflexivity|]. split; [simpl; congruence|].
      destruct IHc as [[C1 [C2 C3]]|[C1 C2]].
      * left. split; [nia|]. split; [constructor; [lia|exact C2]|]. cbn [lin]. rewrite C3. nia.
      * right. split; [nia|]. rewrite C2. reflexivity.
    + apply Z.eqb_neq in E. exists (o + 1 :: orr). split; [reflexivity|]. split; [simpl; f_equal; symmetry; apply inrange_length; exact Hr|].
      left. split; [nia|]. split; [constructor; [lia|exact Hr]|]. cbn [lin]. lia.
Qed.

Lemma cells_unit : forall dr orr, length dr = length orr -> cells dr orr (ones dr) = [lin dr orr].
Proof.
  induction dr as [|d dr IH]; intros orr Hl.
  - destruct orr; [|discriminate]. reflexivity.
  - destruct orr as [|o orr]; [discriminate|]. simpl in Hl. injection Hl as Hl.
    cbn [ones map]. fold (ones dr). rewrite cells_cons by (try assumption; unfold ones; rewrite map_length; reflexivity).
    rewrite IH by assumption. simpl. reflexivity.
Qed.

Inductive aligned : list Z -> list Z -> list Z -> Prop :=
| al_nil : aligned [] [] []
| al_full : forall d dr sr orr, aligned dr sr orr -> aligned (d :: dr) (d :: sr) (0 :: orr)
| al_cut : forall d s dr o orr, 1 <= s <= d -> 0 <= o < d -> o mod s = 0 -> inrange dr orr ->
    aligned (d :: dr) (s :: ones dr) (o :: orr).

Lemma aligned_lengths : forall dr sr orr, aligned dr sr orr -> length dr = length sr /\ length dr = length orr.
Proof.
  intros dr sr orr H. induction H; simpl.
  - auto.
  - destruct IHaligned. split; congruence.
  - unfold ones. rewrite map_length. split; [reflexivity|]. f_equal. apply inrange_length. assumption.
Qed.

Lemma inrange_zeros : forall dr, Forall (fun d => 1 <= d) dr -> inrange dr (zeros dr).
Proof.
  induction dr as [|d dr IH]; intro H; simpl; [constructor|].
  inversion H; subst. constructor; [lia | apply IH; assumption].
Qed.

(** one pass of the loop from an aligned offset *)
Lemma strip_step : forall dr sr orr, aligned dr sr orr -> Forall (fun d => 1 <= d) dr ->
  let hr := hs_sizes dr orr sr in
  let P := zprod hr in let L := lin dr orr in let N := zprod dr in
  1 <= P /\ 0 <= L /\ L + P <= N /\ length hr = length dr /\
  cells dr orr hr = zcount L (Z.to_nat P) /\
  exists or', next_offset_rev dr orr hr = or' /\ length or' = length dr /\
    ((L + P < N /\ aligned dr sr or' /\ lin dr or' = L + P) \/ (L + P = N /\ or' = zeros dr)).
Proof.
  intros dr sr orr H. induction H as [|d dr sr orr H IH|d s dr o orr Hs Ho Hm Hr]; intro Hd.
  - simpl. unfold zprod; simpl. repeat split; try lia; try reflexivity.
    exists []. split; [reflexivity|]. split; [reflexivity|]. right. split; reflexivity.
  - inversion Hd as [|? ? Hd1 Hd']; subst.
    destruct (IH Hd') as [I1 [I2 [I3 [I4 [I5 [or' [I6 [I7 I8]]]]]]]].
    destruct (aligned_lengths _ _ _ H) as [Ls Lo].
    cbn [hs_sizes]. rewrite hs_size_min. replace (Z.min (d - 0) d) with d by lia.
    rewrite !zprod_cons. cbn [lin].
    set (hr := hs_sizes dr orr sr) in *. set (P := zprod hr) in *. set (L := lin dr orr) in *. set (N := zprod dr) in *.
    split; [nia|]. split; [nia|]. split; [nia|]. split; [simpl; congruence|]. split.
    + rewrite cells_cons by congruence. rewrite I5. rewrite flat_map_rows by lia.
      f_equal; [lia|]. rewrite <- Z2Nat.inj_mul by lia. f_equal. lia.
    + cbn [next_offset_rev]. rewrite wrap_truth, carry_truth. replace (0 + d =? d) with true by (symmetry; apply Z.eqb_eq; lia).
      rewrite I6. exists (0 :: or'). split; [reflexivity|]. split; [simpl; congruence|].
      destruct I8 as [[C1 [C2 C3]]|[C1 C2]].
      * left. split; [nia|]. split; [constructor; exact C2|]. cbn [lin]. rewrite C3. lia.
      * right. split; [nia|]. rewrite C2. reflexivity.
  - inversion Hd as [|? ? Hd1 Hd']; subst.
    destruct (unit_step dr orr Hr) as [U1 [U2 [or' [U3 [U4 U5]]]]].
    pose proof (inrange_length _ _ Hr) as Lo.
    cbn [hs_sizes]. rewrite U1. rewrite hs_size_min.
    set (h := Z.min (d - o) s).
    assert (Hh : 1 <= h <= s) by (unfold h; lia).
    assert (Pone : zprod (ones dr) = 1).
    { clear. induction dr; [reflexivity|]. cbn [ones map]. rewrite zprod_cons. fold (ones dr). rewrite IHdr. reflexivity. }
    rewrite !zprod_cons. rewrite Pone. cbn [lin].
    split; [lia|]. split; [nia|]. split; [unfold h; nia|]. split; [simpl; unfold ones; rewrite map_length; reflexivity|]. split.
    + rewrite cells_cons by (try assumption; unfold ones; rewrite map_length; reflexivity).
      rewrite cells_unit by assumption. cbn [flat_map]. rewrite app_nil_r. f_equal. lia.
    + cbn [next_offset_rev]. rewrite wrap_truth, carry_truth.
      destruct (o + h =? d) eqn:E.
      * apply Z.eqb_eq in E. rewrite U3. exists (0 :: or'). split; [reflexivity|]. split; [simpl; congruence|].
        destruct U5 as [[C1 [C2 C3]]|[C1 C2]].
        -- left. split; [nia|]. split.
           ++ apply al_cut; try assumption; try lia. apply Z.mod_0_l. lia.
           ++ cbn [lin]. rewrite C3. nia.
        -- right. split; [nia|]. rewrite C2. reflexivity.
      * apply Z.eqb_neq in E. exists (o + h :: orr). split; [reflexivity|]. split; [simpl; congruence|].
        assert (Hhs : h = s) by (unfold h in *; lia).
        left. split; [nia|]. split.
        -- apply al_cut; try assumption; try lia. rewrite Hhs.
           rewrite <- (Z.mul_1_l s) at 1. rewrite Z.mod_add by lia. exact Hm.
        -- cbn [lin]. lia.
Qed.

(** * The strip sizes are slab-shaped, and the start offset is aligned *)
Lemma sm_ones : forall buf dr nb, Forall (fun d => 1 <= d) dr -> 0 < nb -> nb <= buf < 2 * nb ->
  sm_sizes_rev dr nb buf = ones dr.
Proof.
  intros buf dr. induction dr as [|d dr IH]; intros nb Hd Hnb Hb; [reflexivity|].
  inversion Hd; subst. cbn [sm_sizes_rev ones map]. fold (ones dr).
  assert (Q : buf / nb = 1) by (symmetry; apply Z.div_unique with (buf - nb); lia).
  rewrite strip_size_min by lia. rewrite Q. replace (Z.min d 1) with 1 by lia.
  rewrite Z.mul_1_r. rewrite IH by assumption. reflexivity.
Qed.

Lemma sm_aligned : forall buf dr nb, Forall (fun d => 1 <= d) dr -> 0 < nb <= buf ->
  aligned dr (sm_sizes_rev dr nb buf) (zeros dr).
Proof.
  intros buf dr. induction dr as [|d dr IH]; intros nb Hd Hnb; [constructor|].
  inversion Hd as [|? ? Hd1 Hd']; subst. cbn [sm_sizes_rev zeros map]. fold (zeros dr).
  rewrite strip_size_min by lia.
  set (q := buf / nb).
  assert (Q1 : nb * q <= buf) by (apply Z.mul_div_le; lia).
  assert (Q2 : buf < nb * (q + 1)) by (replace (q + 1) with (Z.succ q) by lia; apply Z.mul_succ_div_gt; lia).
  assert (Q3 : 1 <= q) by (apply Z.div_le_lower_bound; lia).
  destruct (Z_le_gt_dec d q) as [L|G].
  - replace (Z.min d q) with d by lia. apply al_full. apply IH; [assumption|]. nia.
  - replace (Z.min d q) with q by lia. rewrite sm_ones; [|assumption|nia|nia].
    apply al_cut; [lia|lia|apply Z.mod_0_l; lia|apply inrange_zeros; assumption].
Qed.

(** * The whole loop *)
Lemma walk_done : forall f dims sm offs n, strip_walk f dims sm offs n n = Some [].
Proof. intros. destruct f; simpl; rewrite Z.ltb_irrefl; reflexivity. Qed.

Lemma strip_walk_correct : forall dr sr, Forall (fun d => 1 <= d) dr ->
  forall fuel orr p, aligned dr sr orr -> lin dr orr = p -> p < zprod dr ->
  (Z.to_nat (zprod dr - p) <= fuel)%nat ->
  exists l, strip_walk fuel (rev dr) (rev sr) (rev orr) p (zprod dr) = Some l /\
            flat_map (fun b => block_cells (rev dr) (fst b) (snd b) 0) l = zcount p (Z.to_nat (zprod dr - p)).
Proof.
  intros dr sr Hd. induction fuel as [|f IH]; intros orr p Ha Hl Hp Hf; [lia|].
  destruct (strip_step dr sr orr Ha Hd) as [S1 [S2 [S3 [S4 [S5 [or' [S6 [S7 S8]]]]]]]].
  destruct (aligned_lengths _ _ _ Ha) as [Ls Lo].
  rewrite Hl in *.
  set (hr := hs_sizes dr orr sr) in *. set (P := zprod hr) in *. set (N := zprod dr) in *.
  cbn [strip_walk]. replace (p <? N) with true by (symmetry; apply Z.ltb_lt; exact Hp).
  rewrite hs_sizes_rev by congruence. fold hr.
  unfold next_offset. rewrite !rev_involutive. rewrite S6. rewrite zprod_rev. fold P.
  destruct S8 as [[C1 [C2 C3]]|[C1 C2]].
  - destruct (IH or' (p + P) C2 C3 C1 ltac:(lia)) as [l [W1 W2]].
    rewrite W1. eexists. split; [reflexivity|].
    cbn [flat_map fst snd]. rewrite W2. fold (cells dr orr hr). rewrite S5.
    replace (Z.to_nat (N - p)) with (Z.to_nat P + Z.to_nat (N - (p + P)))%nat by lia.
    rewrite zcount_app. rewrite Z2Nat.id by lia. reflexivity.
  - replace (p + P) with N by lia. rewrite walk_done. eexists. split; [reflexivity|].
    cbn [flat_map fst snd]. rewrite app_nil_r. fold (cells dr orr hr). rewrite S5. f_equal. lia.
Qed.

Lemma lin_zeros : forall dr, lin dr (zeros dr) = 0.
Proof. induction dr as [|d dr IH]; [reflexivity|]. cbn [zeros map lin]. fold (zeros dr). rewrite IH. lia. Qed.

Lemma zprod_pos : forall l, Forall (fun d => 1 <= d) l -> 1 <= zprod l.
Proof. induction l as [|d l IH]; intro H; [unfold zprod; simpl; lia|]. inversion H; subst. rewrite zprod_cons. specialize (IH H3). nia. Qed.

Lemma strips_partition_in_order_lemma : forall dims eltsz buf,
  Forall (fun d => 1 <= d) dims -> 0 < eltsz <= buf ->
  strip_order dims eltsz buf = Some (zcount 0 (Z.to_nat (zprod dims))).
Proof.
  intros dims eltsz buf Hd Hb.
  assert (Hdr : Forall (fun d => 1 <= d) (rev dims)) by (apply Forall_rev; exact Hd).
  pose proof (sm_aligned buf (rev dims) eltsz Hdr Hb) as Ha.
  pose proof (zprod_pos _ Hdr) as Hpos.
  destruct (strip_walk_correct (rev dims) _ Hdr (Z.to_nat (zprod (rev dims))) (zeros (rev dims)) 0 Ha (lin_zeros _)
              ltac:(lia) ltac:(lia)) as [l [W1 W2]].
  unfold strip_order, strips, sm_sizes.
  rewrite rev_involutive in W1.
  assert (Z0 : rev (zeros (rev dims)) = map (fun _ : Z => 0) dims).
  { unfold zeros. rewrite <- map_rev. rewrite rev_involutive. reflexivity. }
  rewrite Z0 in W1. rewrite zprod_rev in W1. rewrite W1.
  rewrite rev_involutive in W2. rewrite W2. rewrite zprod_rev. rewrite Z.sub_0_r. reflexivity.
Qed.

(** * Whole-object transfers and the data movement of copy_sds / copy_gr *)
Lemma cells_whole : forall dr, Forall (fun d => 0 <= d) dr -> cells dr (zeros dr) dr = zcount 0 (Z.to_nat (zprod dr)).
Proof.
  induction dr as [|d dr IH]; intro H; [reflexivity|].
  inversion H; subst. cbn [zeros map]. fold (zeros dr).
  rewrite cells_cons by (unfold zeros; rewrite ?map_length; reflexivity).
  rewrite IH by assumption. rewrite flat_map_rows by assumption. rewrite zprod_cons.
  assert (0 <= zprod dr) by (clear -H3; induction dr; [unfold zprod; simpl; lia|]; inversion H3; subst; rewrite zprod_cons; specialize (IHdr H2); nia).
  f_equal. rewrite <- Z2Nat.inj_mul by lia. f_equal. lia.
Qed.

Lemma one_piece_whole : forall dims, Forall (fun d => 0 <= d) dims ->
  cells_of dims [(map (fun _ => 0) dims, dims)] = zcount 0 (Z.to_nat (zprod dims)).
Proof.
  intros dims H. unfold cells_of. cbn [flat_map fst snd]. rewrite app_nil_r.
  pose proof (cells_whole (rev dims) ltac:(apply Forall_rev; exact H)) as C. unfold cells in C.
  rewrite rev_involutive in C. unfold zeros in C. rewrite <- map_rev, rev_involutive in C.
  rewrite zprod_rev in C. exact C.
Qed.

Lemma zprod_zero : forall l, In 0 l -> zprod l = 0.
Proof.
  induction l as [|d l IH]; intro H; [contradiction|]. rewrite zprod_cons. destruct H as [H|H].
  - subst. reflexivity.
  - rewrite IH by exact H. lia.
Qed.

Lemma copy_sds_moves_lemma : forall dims eltsz buf flags comp,
  Forall (fun d => 0 <= d) dims -> 0 < eltsz <= buf ->
  copy_sds_moves dims eltsz buf flags comp = Some (zcount 0 (Z.to_nat (zprod dims))).
Proof.
  intros dims eltsz buf flags comp Hd Hb. unfold copy_sds_moves.
  destruct (strip_mined (zprod dims * eltsz) flags comp).
  - destruct (in_dec Z.eq_dec 0 dims) as [Hz|Hnz].
    + (* a dimension of extent 0 (no records yet): nothing to move, the loop does not run *)
      rewrite (zprod_zero _ Hz). unfold strip_order, strips. rewrite (zprod_zero _ Hz). reflexivity.
    + apply strips_partition_in_order_lemma; [|exact Hb].
      rewrite Forall_forall in *. intros d Hin. specialize (Hd d Hin).
      destruct (Z.eq_dec d 0); [subst; contradiction | lia].
  - f_equal. unfold one_piece, copy_sds_start, copy_sds_edge. rewrite map_id. apply one_piece_whole. exact Hd.
Qed.

Lemma copy_gr_moves_lemma : forall dims, Forall (fun d => 0 <= d) dims ->
  copy_gr_moves dims = zcount 0 (Z.to_nat (zprod dims)).
Proof.
  intros dims Hd. unfold copy_gr_moves, one_piece, copy_gr_start, copy_gr_edge. rewrite map_id. apply one_piece_whole. exact Hd.
Qed.
