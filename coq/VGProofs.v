(** C08 -- proofs about the implementation model VGModel against the specification VGraphSpec. *)
From Coq Require Import ZArith List Bool Lia FMapPositive Sorted.
From Coq Require String.
Require Import H4.gen.Gen_VG H4.VGraphSpec H4.VGModel.
Import ListNotations.
Local Open Scope Z_scope.

(* ================================================================================================== *)
(** * C arrays *)

Lemma aset_length : forall a i v, length (aset a i v) = length a.
Proof. induction a; destruct i; simpl; intros; auto. Qed.

Lemma nth_aset_eq : forall a i v d, (i < length a)%nat -> nth i (aset a i v) d = v.
Proof. induction a; destruct i; simpl; intros; try lia; auto. apply IHa. lia. Qed.

Lemma nth_aset_neq : forall a i j v d, i <> j -> nth j (aset a i v) d = nth j a d.
Proof. induction a; destruct i, j; simpl; intros; try congruence; auto. Qed.

Lemma firstn_aset_ge : forall a i n v, (n <= i)%nat -> firstn n (aset a i v) = firstn n a.
Proof.
  induction a; destruct i, n; simpl; intros; auto; try lia. f_equal. apply IHa. lia.
Qed.

Lemma firstn_S_aset : forall a i v, (i < length a)%nat -> firstn (S i) (aset a i v) = firstn i a ++ [v].
Proof.
  induction a; destruct i; simpl; intros; try lia; auto. f_equal. apply IHa. lia.
Qed.

Lemma skipn_aset_gt : forall a i k v, (i < k)%nat -> skipn k (aset a i v) = skipn k a.
Proof.
  induction a; destruct i, k; simpl; intros; auto; try lia. apply IHa. lia.
Qed.

Lemma skipn_nth_cons : forall (a : list Z) i, (i < length a)%nat -> skipn i a = nth i a 0 :: skipn (S i) a.
Proof.
  induction a; destruct i; simpl; intros; try lia; auto. apply IHa. lia.
Qed.

Lemma agrow_length : forall a n, (length a <= Z.to_nat n)%nat -> length (agrow a n) = Z.to_nat n.
Proof. intros. unfold agrow. rewrite app_length, repeat_length. lia. Qed.

Lemma firstn_agrow : forall a n k, (k <= length a)%nat -> firstn k (agrow a n) = firstn k a.
Proof.
  intros. unfold agrow. rewrite firstn_app. replace (k - length a)%nat with O by lia. simpl. apply app_nil_r.
Qed.

Lemma combine_app_eq : forall (a b c d : list Z), length a = length b ->
  combine (a ++ c) (b ++ d) = combine a b ++ combine c d.
Proof.
  induction a; destruct b; simpl; intros; try discriminate; auto. f_equal. apply IHa. lia.
Qed.

Lemma combine_skipn : forall (a b : list Z) n, skipn n (combine a b) = combine (skipn n a) (skipn n b).
Proof.
  induction a; intros b n.
  - destruct n; simpl; auto.
  - destruct b, n; simpl; auto. destruct (skipn n a0); reflexivity.
Qed.

(* ================================================================================================== *)
(** * Well-formed vgroup records *)

Record WF (g : VGROUP) : Prop := mkWF {
  wf_tag : length (tag g) = Z.to_nat (msize g);
  wf_ref : length (ref g) = Z.to_nat (msize g);
  wf_n   : 0 <= nvelt g <= msize g;
  wf_m   : 0 < msize g;
  wf_u16 : nvelt g <= 65535 }.

Lemma members_length : forall g, WF g -> zlen (members g) = nvelt g.
Proof.
  intros g [Ht Hr Hn Hm Hu]. unfold members, zlen. rewrite combine_length, !firstn_length, Ht, Hr.
  lia.
Qed.

Lemma w16_id : forall z, u16 z = true -> w16 z = z.
Proof.
  intros z H. unfold u16 in H. apply andb_true_iff in H as [A B].
  apply Z.leb_le in A. apply Z.leb_le in B. unfold w16. apply Z.mod_small. lia.
Qed.

Lemma WF_new : forall r, WF (new_vgroup r).
Proof.
  intro r. constructor; simpl; try rewrite repeat_length; auto; unfold MAXNVELT; lia.
Qed.

(** vinsertpair appends, or refuses the 65536th member *)
Lemma vinsertpair_spec : forall g t r, WF g -> nvelt g < 65535 ->
  exists g' n, vinsertpair g t r = Some (g', n) /\
  WF g' /\ members g' = members g ++ [(t, r)] /\ n = nvelt g + 1 /\ nvelt g' = n /\
  g' = set_arrays g n (msize g') (tag g') (ref g').
Proof.
  intros g t r [Ht Hr Hn Hm Hu] Hlt. unfold vinsertpair.
  replace (65535 <=? nvelt g) with false by (symmetry; apply Z.leb_gt; lia).
  assert (Hw : w16 (nvelt g + 1) = nvelt g + 1) by (unfold w16; apply Z.mod_small; lia).
  rewrite Hw.
  destruct (msize g <=? nvelt g) eqn:E.
  - apply Z.leb_le in E. assert (nvelt g = msize g) by lia.
    assert (L1 : length (agrow (tag g) (msize g * 2)) = Z.to_nat (msize g * 2)) by (apply agrow_length; lia).
    assert (L2 : length (agrow (ref g) (msize g * 2)) = Z.to_nat (msize g * 2)) by (apply agrow_length; lia).
    eexists; eexists. split; [reflexivity|].
    split; [constructor; simpl; rewrite ?aset_length; auto; lia|].
    split; [|split; [reflexivity|split; reflexivity]].
    unfold members; simpl. rewrite Z2Nat.inj_add, Nat.add_1_r by lia.
    rewrite !firstn_S_aset by lia. rewrite !firstn_agrow by lia.
    apply combine_app_eq. rewrite !firstn_length. lia.
  - apply Z.leb_gt in E.
    eexists; eexists. split; [reflexivity|].
    split; [constructor; simpl; rewrite ?aset_length; auto; lia|].
    split; [|split; [reflexivity|split; reflexivity]].
    unfold members; simpl. rewrite Z2Nat.inj_add, Nat.add_1_r by lia.
    rewrite !firstn_S_aset by lia.
    apply combine_app_eq. rewrite !firstn_length. lia.
Qed.

Lemma vinsertpair_full : forall g t r, 65535 <= nvelt g -> vinsertpair g t r = None.
Proof. intros. unfold vinsertpair. replace (65535 <=? nvelt g) with true by (symmetry; apply Z.leb_le; lia). reflexivity. Qed.

(* ---- scanning ------------------------------------------------------------------------------------- *)
Fixpoint lfind (p : pair) (l : list pair) : option nat :=
  match l with [] => None | q :: r => if pair_eqb p q then Some O else option_map S (lfind p r) end.

Lemma scan_lfind : forall fuel i tg rf t r, (i + fuel <= length tg)%nat -> (i + fuel <= length rf)%nat ->
  scan tg rf t r i fuel =
  option_map (fun k => (i + k)%nat) (lfind (t, r) (combine (firstn fuel (skipn i tg)) (firstn fuel (skipn i rf)))).
Proof.
  induction fuel; intros; [simpl; auto|].
  rewrite (skipn_nth_cons tg i), (skipn_nth_cons rf i) by lia.
  rewrite !firstn_cons. cbn [combine lfind scan].
  unfold pair_eqb, aget; cbn [fst snd]. rewrite (Z.eqb_sym t), (Z.eqb_sym r).
  destruct ((nth i tg 0 =? t) && (nth i rf 0 =? r)).
  - cbn [option_map]. f_equal. lia.
  - rewrite IHfuel by lia. destruct (lfind _ _); cbn [option_map]; auto. f_equal. lia.
Qed.

Lemma scan_members : forall g t r, WF g ->
  scan (tag g) (ref g) t r 0 (Z.to_nat (nvelt g)) = lfind (t, r) (members g).
Proof.
  intros g t r [Ht Hr Hn Hm Hu]. rewrite scan_lfind by lia. simpl. unfold members.
  destruct (lfind _ _); reflexivity.
Qed.

Lemma has_member_lfind : forall p l, has_member p l = match lfind p l with Some _ => true | None => false end.
Proof.
  induction l; simpl; auto. unfold has_member in *. simpl.
  destruct (pair_eqb p a); simpl; auto. rewrite IHl. destruct (lfind p l); reflexivity.
Qed.

Lemma remove_first_lfind : forall p l,
  remove_first p l = match lfind p l with Some k => Some (firstn k l ++ skipn (S k) l) | None => None end.
Proof.
  induction l; simpl; auto. destruct (pair_eqb p a); simpl; auto.
  rewrite IHl. destruct (lfind p l); reflexivity.
Qed.

Lemma lfind_lt : forall p l k, lfind p l = Some k -> (k < length l)%nat.
Proof.
  induction l; simpl; intros; try discriminate. destruct (pair_eqb p a).
  - inversion H; lia.
  - destruct (lfind p l) eqn:E; simpl in H; inversion H. specialize (IHl n eq_refl). lia.
Qed.

(* ---- the shift-down loop -------------------------------------------------------------------------- *)
Lemma shift_spec : forall fuel j a, (j + fuel < length a)%nat ->
  shift a j fuel = firstn j a ++ firstn fuel (skipn (S j) a) ++ skipn (j + fuel) a.
Proof.
  induction fuel; intros.
  - simpl. rewrite Nat.add_0_r. symmetry. apply firstn_skipn.
  - cbn [shift]. rewrite IHfuel by (rewrite aset_length; lia).
    rewrite firstn_S_aset by lia. rewrite !skipn_aset_gt by lia.
    rewrite (skipn_nth_cons a (S j)) by lia. unfold aget. rewrite firstn_cons.
    rewrite <- app_assoc. cbn [app]. replace (j + S fuel)%nat with (S j + fuel)%nat by lia. reflexivity.
Qed.

Lemma shift_length : forall fuel j a, length (shift a j fuel) = length a.
Proof. induction fuel; intros; simpl; auto. rewrite IHfuel, aset_length. auto. Qed.

(** the array after deleting cell [i] of [n] used cells: the first [n-1] cells *)
Lemma delete_cells : forall a i n v, (i < n)%nat -> (n <= length a)%nat ->
  firstn (n - 1) (aset (shift a i (n - 1 - i)) (n - 1) v) = firstn i a ++ firstn (n - 1 - i) (skipn (S i) a).
Proof.
  intros. rewrite firstn_aset_ge by lia. rewrite shift_spec by lia.
  rewrite firstn_app. rewrite firstn_length, Nat.min_l by lia.
  rewrite (firstn_all2 (firstn i a)) by (rewrite firstn_length; lia).
  f_equal.
  assert (L : length (firstn (n - 1 - i) (skipn (S i) a)) = (n - 1 - i)%nat)
    by (rewrite firstn_length, skipn_length; lia).
  rewrite firstn_app, L. replace (n - 1 - i - (n - 1 - i))%nat with O by lia.
  rewrite firstn_O, app_nil_r. apply firstn_all2. lia.
Qed.

Lemma Vdeletetagref_spec : forall g t r, WF g -> u16 t = true -> u16 r = true ->
  match Vdeletetagref g t r with
  | Some g' => WF g' /\ remove_first (t, r) (members g) = Some (members g') /\ nvelt g' = nvelt g - 1
  | None => remove_first (t, r) (members g) = None
  end.
Proof.
  intros g t r W Ut Ur. pose proof W as [Ht Hr Hn Hm Hu]. unfold Vdeletetagref.
  rewrite (w16_id t Ut), (w16_id r Ur), scan_members by auto. rewrite remove_first_lfind.
  destruct (lfind (t, r) (members g)) as [i|] eqn:E; auto.
  pose proof (lfind_lt _ _ _ E) as Hi.
  assert (Hl : length (members g) = Z.to_nat (nvelt g)).
  { pose proof (members_length g W) as M. unfold zlen in M. rewrite <- M. symmetry. apply Nat2Z.id. }
  rewrite Hl in Hi.
  assert (Hw : w16 (nvelt g - 1) = nvelt g - 1) by (unfold w16; apply Z.mod_small; lia).
  rewrite Hw.
  split; [constructor; simpl; rewrite ?aset_length, ?shift_length; auto; lia|].
  split; [|reflexivity].
  f_equal. unfold members at 3. unfold set_arrays; cbn [nvelt tag ref].
  replace (Z.to_nat (nvelt g - 1)) with (Z.to_nat (nvelt g) - 1)%nat by lia.
  rewrite !delete_cells by lia.
  unfold members. rewrite combine_firstn, combine_skipn, !firstn_firstn, !skipn_firstn_comm.
  rewrite Nat.min_l by lia.
  replace (Z.to_nat (nvelt g) - S i)%nat with (Z.to_nat (nvelt g) - 1 - i)%nat by lia.
  symmetry. apply combine_app_eq. rewrite !firstn_length. lia.
Qed.

(* ---- observers ------------------------------------------------------------------------------------ *)
Lemma firstn_S_nth : forall (a : list Z) k, (k < length a)%nat -> firstn (S k) a = firstn k a ++ [nth k a 0].
Proof.
  induction a; destruct k; simpl; intros; try lia; auto. f_equal. apply IHa. lia.
Qed.

Lemma map_idx_members : forall k (tg rf : list Z), (k <= length tg)%nat -> (k <= length rf)%nat ->
  map (fun i => (aget tg i, aget rf i)) (seq 0 k) = combine (firstn k tg) (firstn k rf).
Proof.
  induction k; intros; [reflexivity|].
  rewrite seq_S, map_app, IHk by lia. cbn [map Nat.add].
  rewrite !firstn_S_nth by lia. rewrite combine_app_eq by (rewrite !firstn_length; lia). reflexivity.
Qed.

Lemma Vgettagrefs_spec : forall g n, WF g -> 0 <= n -> Vgettagrefs g n = firstn (Z.to_nat n) (members g).
Proof.
  intros g n [Ht Hr Hn Hm Hu] H0. unfold Vgettagrefs, members.
  rewrite combine_firstn, !firstn_firstn.
  destruct (nvelt g <? n) eqn:E; [apply Z.ltb_lt in E | apply Z.ltb_ge in E].
  - rewrite map_idx_members by lia. rewrite Nat.min_r by lia. reflexivity.
  - rewrite map_idx_members by lia. rewrite Nat.min_l by lia. reflexivity.
Qed.

Lemma nth_error_members : forall (tg rf : list Z) n i, (i < n)%nat -> (n <= length tg)%nat -> (n <= length rf)%nat ->
  nth_error (combine (firstn n tg) (firstn n rf)) i = Some (nth i tg 0, nth i rf 0).
Proof.
  induction tg; destruct rf, n, i; simpl; intros; try lia; auto. apply IHtg; lia.
Qed.

Lemma Vgettagref_spec : forall g i, WF g ->
  Vgettagref g i = if 0 <=? i then nth_error (members g) (Z.to_nat i) else None.
Proof.
  intros g i W. pose proof W as [Ht Hr Hn Hm Hu]. unfold Vgettagref.
  destruct (0 <=? i) eqn:E0; [apply Z.leb_le in E0 | apply Z.leb_gt in E0].
  - replace (i <? 0) with false by (symmetry; apply Z.ltb_ge; lia). simpl.
    destruct (nvelt g - 1 <? i) eqn:E1; [apply Z.ltb_lt in E1 | apply Z.ltb_ge in E1].
    + symmetry. apply nth_error_None. pose proof (members_length g W) as M. unfold zlen in M. lia.
    + unfold members, aget. rewrite nth_error_members by lia. reflexivity.
  - replace (i <? 0) with true by (symmetry; apply Z.ltb_lt; lia). reflexivity.
Qed.

Lemma Vinqtagref_spec : forall g t r, WF g -> u16 t = true -> u16 r = true ->
  Vinqtagref g t r = has_member (t, r) (members g).
Proof.
  intros. unfold Vinqtagref. rewrite (w16_id t), (w16_id r), scan_members, has_member_lfind by auto.
  reflexivity.
Qed.

(** one operation: the arrays do what the list does *)
Lemma m_apply_spec : forall g o l' x, WF g -> l_apply (members g) o = Some (l', x) ->
  WF (fst (m_apply g o)) /\ members (fst (m_apply g o)) = l' /\ snd (m_apply g o) = x.
Proof.
  intros g o l' x W H. pose proof (members_length g W) as ML.
  destruct o; cbn [l_apply m_apply] in *.
  - (* MAdd *)
    destruct (u16 t && u16 r) eqn:C; [|discriminate]. apply andb_true_iff in C as [C1 C2].
    unfold Vaddtagref. rewrite (w16_id t C1), (w16_id r C2).
    destruct (Z.ltb_spec (zlen (members g)) 65535) as [C3|C3].
    + destruct (vinsertpair_spec g t r W ltac:(lia)) as (g' & n & E & S1 & S2 & S3 & S4 & _).
      rewrite E. inversion H; subst. cbn [fst snd]. refine (conj _ (conj _ _)); auto. rewrite ML. reflexivity.
    + rewrite vinsertpair_full by lia. inversion H; subst. cbn [fst snd]. auto.
  - (* MInsert *)
    destruct (u16 t && u16 r) eqn:C; [|discriminate]. apply andb_true_iff in C as [C1 C2].
    unfold Vinsert. rewrite (w16_id t C1), (w16_id r C2), scan_members by auto.
    rewrite has_member_lfind in H. destruct (lfind (t, r) (members g)).
    + inversion H; subst. cbn [fst snd]. auto.
    + destruct (Z.ltb_spec (zlen (members g)) 65535) as [C3|C3].
      * destruct (vinsertpair_spec g t r W ltac:(lia)) as (g' & n & E & S1 & S2 & S3 & S4 & _).
        rewrite E. inversion H; subst. cbn [fst snd]. refine (conj _ (conj _ _)); auto. f_equal. lia.
      * rewrite vinsertpair_full by lia. inversion H; subst. cbn [fst snd]. auto.
  - (* MDel *)
    destruct (u16 t && u16 r) eqn:C; [|discriminate]. apply andb_true_iff in C as [C1 C2].
    pose proof (Vdeletetagref_spec g t r W C1 C2) as S. destruct (Vdeletetagref g t r) as [g'|].
    + destruct S as (S1 & S2 & S3). rewrite S2 in H. inversion H; subst. cbn [fst snd]. auto.
    + rewrite S in H. inversion H; subst. cbn [fst snd]. auto.
  - (* MCount *) inversion H; subst. cbn [fst snd]. refine (conj _ (conj _ _)); auto. f_equal. auto.
  - (* MGetAll *)
    destruct (0 <=? n) eqn:C; [|discriminate]. apply Z.leb_le in C. inversion H; subst. cbn [fst snd].
    refine (conj _ (conj _ _)); auto. f_equal. apply Vgettagrefs_spec; auto.
  - (* MGet *) inversion H; subst. cbn [fst snd]. refine (conj _ (conj _ _)); auto. rewrite Vgettagref_spec by auto. reflexivity.
  - (* MInq *)
    destruct (u16 t && u16 r) eqn:C; [|discriminate]. apply andb_true_iff in C as [C1 C2].
    inversion H; subst. cbn [fst snd]. refine (conj _ (conj _ _)); auto. f_equal. apply Vinqtagref_spec; auto.
Qed.

(** vg_members_refine_list: ANY history of insertions, deletions and reads (inside the 16-bit domain) on the arrays
    is the same history on the list *)
Lemma m_run_refines : forall ops g l' xs, WF g -> l_run (members g) ops = Some (l', xs) ->
  WF (fst (m_run g ops)) /\ members (fst (m_run g ops)) = l' /\ snd (m_run g ops) = xs.
Proof.
  induction ops; intros g l' xs W H; cbn [l_run m_run] in *.
  - inversion H; subst. cbn [fst snd]. auto.
  - destruct (l_apply (members g) a) as [[l1 x]|] eqn:E; [|discriminate].
    destruct (m_apply_spec g a l1 x W E) as (A1 & A2 & A3).
    destruct (m_apply g a) as [g1 x1]. cbn [fst snd] in *. subst.
    destruct (l_run (members g1) ops) as [[l2 ys]|] eqn:E2; [|discriminate].
    destruct (IHops g1 l2 ys A1 E2) as (B1 & B2 & B3).
    destruct (m_run g1 ops) as [g2 zs]. cbn [fst snd] in *. inversion H; subst. auto.
Qed.

(* ================================================================================================== *)
(** * Vgetid iteration visits every key of the table exactly once *)

Lemma pos_of_app : forall A (pre : list (Z * A)) k v post i, ~ In k (keys pre) ->
  pos_of k (pre ++ (k, v) :: post) i = Some (i + length pre)%nat.
Proof.
  induction pre as [|[k' v'] pre]; intros; simpl.
  - rewrite Z.eqb_refl. f_equal. lia.
  - simpl in H. destruct (k =? k') eqn:E; [apply Z.eqb_eq in E; subst; tauto|].
    rewrite IHpre by tauto. f_equal. lia.
Qed.

Lemma m_getid_at : forall A (pre : list (Z * A)) k v post, ~ In k (keys pre) -> 0 <= k ->
  m_getid (pre ++ (k, v) :: post) k = match post with [] => None | (k2, _) :: _ => Some k2 end.
Proof.
  intros. unfold m_getid.
  replace (k <? -1) with false by (symmetry; apply Z.ltb_ge; lia).
  replace (k =? -1) with false by (symmetry; apply Z.eqb_neq; lia).
  rewrite pos_of_app by auto. rewrite Nat.add_0_l, app_length.
  destruct post as [|[k2 v2] post].
  - destruct (Nat.eqb_spec (S (length pre)) (length pre + length [(k, v)])); [reflexivity|simpl in n; lia].
  - destruct (Nat.eqb_spec (S (length pre)) (length pre + length ((k, v) :: (k2, v2) :: post))); [simpl in e; lia|].
    replace (S (length pre)) with (length (pre ++ [(k, v)])) by (rewrite app_length; simpl; lia).
    replace (pre ++ (k, v) :: (k2, v2) :: post) with ((pre ++ [(k, v)]) ++ (k2, v2) :: post)
      by (rewrite <- app_assoc; reflexivity).
    rewrite nth_error_app2 by lia. rewrite Nat.sub_diag. reflexivity.
Qed.

Lemma iter_ids_from : forall A (post pre : list (Z * A)) k v fuel,
  NoDup (keys (pre ++ (k, v) :: post)) -> Forall (fun x => 0 <= x) (keys (pre ++ (k, v) :: post)) ->
  (length post < fuel)%nat ->
  iter_ids (pre ++ (k, v) :: post) k fuel = keys post.
Proof.
  induction post as [|[k2 v2] post]; intros pre k v fuel ND NN F; destruct fuel; try (simpl in F; lia).
  - cbn [iter_ids]. rewrite m_getid_at.
    + reflexivity.
    + unfold keys in ND. rewrite map_app in ND. apply NoDup_remove_2 in ND. intro. apply ND. apply in_or_app. auto.
    + unfold keys in NN. rewrite map_app in NN. apply Forall_app in NN as [_ NN]. inversion NN; auto.
  - cbn [iter_ids]. rewrite m_getid_at.
    + cbn [keys map fst]. f_equal.
      replace (pre ++ (k, v) :: (k2, v2) :: post) with ((pre ++ [(k, v)]) ++ (k2, v2) :: post) in *
        by (rewrite <- app_assoc; reflexivity).
      apply IHpost; auto. simpl in F. lia.
    + unfold keys in ND. rewrite map_app in ND. apply NoDup_remove_2 in ND. intro. apply ND. apply in_or_app. auto.
    + unfold keys in NN. rewrite map_app in NN. apply Forall_app in NN as [_ NN]. inversion NN; auto.
Qed.

Lemma all_ids_keys : forall A (t : list (Z * A)), NoDup (keys t) -> Forall (fun x => 0 <= x) (keys t) ->
  all_ids t = keys t.
Proof.
  intros A t ND NN. unfold all_ids. destruct t as [|[k v] post]; [reflexivity|].
  cbn [iter_ids]. change (m_getid ((k, v) :: post) (-1)) with (Some k).
  cbn [keys map fst]. f_equal. apply (iter_ids_from A post [] k v); auto.
Qed.

(* ================================================================================================== *)
(** * The DFTAG_VG record: vunpackvg (vpackvg g) gives g back *)

Definition is_u16 (z : Z) : Prop := 0 <= z <= 65535.
Definition is_char (b : Z) : Prop := 1 <= b <= 255.

Lemma dec16_enc16 : forall v r, is_u16 v -> dec16 (enc16 v ++ r) = Some (v, r).
Proof.
  intros v r [A B]. unfold enc16, dec16. cbn [app]. f_equal. f_equal.
  rewrite (Z.mod_small (v / 256)) by (split; [apply Z.div_pos; lia | apply Z.div_lt_upper_bound; lia]).
  pose proof (Z.div_mod v 256 ltac:(lia)). lia.
Qed.

Lemma dec32_enc32 : forall v r, 0 <= v < 4294967296 -> dec32 (enc32 v ++ r) = Some (v, r).
Proof.
  intros v r [A B]. unfold enc32, dec32. cbn [app]. f_equal. f_equal.
  pose proof (Z.div_mod v 256 ltac:(lia)) as D1.
  pose proof (Z.div_mod (v / 256) 256 ltac:(lia)) as D2.
  pose proof (Z.div_mod (v / 256 / 256) 256 ltac:(lia)) as D3.
  assert (E2 : v / 65536 = v / 256 / 256) by (rewrite Z.div_div by lia; reflexivity).
  assert (E3 : v / 16777216 = v / 256 / 256 / 256) by (rewrite !Z.div_div by lia; reflexivity).
  rewrite E2, E3.
  assert (0 <= v / 256 / 256 / 256 < 256).
  { split; [repeat apply Z.div_pos; lia|]. repeat apply Z.div_lt_upper_bound; lia. }
  rewrite (Z.mod_small (v / 256 / 256 / 256)) by lia. lia.
Qed.

Lemma dec16s_enc : forall l r, Forall is_u16 l -> dec16s (length l) (flat_map enc16 l ++ r) = Some (l, r).
Proof.
  induction l; intros r F; [reflexivity|]. inversion F; subst.
  cbn [length flat_map dec16s]. rewrite <- app_assoc, dec16_enc16, IHl by auto. reflexivity.
Qed.

Lemma decpairs_enc : forall (l : list (Z * Z)) r, Forall (fun p => is_u16 (fst p) /\ is_u16 (snd p)) l ->
  decpairs (length l) (flat_map (fun p => enc16 (fst p) ++ enc16 (snd p)) l ++ r) = Some (l, r).
Proof.
  induction l as [|[t rf] l]; intros r F; [reflexivity|]. inversion F as [|? ? [A B] F']; subst.
  cbn [length flat_map decpairs fst snd]. rewrite <- !app_assoc, dec16_enc16 by auto.
  rewrite dec16_enc16, IHl by auto. reflexivity.
Qed.

Lemma take_app : forall (l r : bytes), take (length l) (l ++ r) = Some (l, r).
Proof.
  intros. unfold take. rewrite app_length.
  destruct (Nat.ltb_spec (length l + length r) (length l)); [lia|].
  rewrite firstn_app, Nat.sub_diag, firstn_all, firstn_O, app_nil_r.
  rewrite skipn_app, Nat.sub_diag, skipn_all. reflexivity.
Qed.

Lemma cstr_id : forall s, Forall is_char s -> cstr s = s.
Proof.
  induction s; intros F; [reflexivity|]. inversion F as [|? ? [A B] F']; subst. cbn [cstr].
  destruct (Z.eqb_spec a 0); [lia|]. f_equal. auto.
Qed.

Lemma skipn_last5 : forall (l : list Z) a b c d e,
  skipn (length (l ++ [a; b; c; d; e]) - 5) (l ++ [a; b; c; d; e]) = [a; b; c; d; e].
Proof.
  intros. rewrite app_length. cbn [length]. replace (length l + 5 - 5)%nat with (length l) by lia.
  rewrite skipn_app, Nat.sub_diag, skipn_all. reflexivity.
Qed.

(** what a name looks like after a write / read cycle: the empty string is stored as "no name" *)
Definition norm (o : option bytes) : option bytes :=
  match o with Some (x :: r) => Some (x :: r) | _ => None end.

Definition name_wf (o : option bytes) : Prop :=
  forall s, o = Some s -> Forall is_char s /\ zlen s <= 65535.

Lemma opt_name_enc : forall o r, name_wf o ->
  let nm := cstr (opt_bytes o) in
  dec16 (enc16 (w16 (zlen nm)) ++ firstn (Z.to_nat (w16 (zlen nm))) nm ++ r) = Some (zlen nm, nm ++ r) /\
  opt_name (zlen nm) (nm ++ r) = Some (norm o, r).
Proof.
  intros o r W nm.
  assert (Hs : nm = opt_bytes o /\ zlen nm <= 65535).
  { unfold nm. destruct o as [s|]; cbn [opt_bytes].
    - destruct (W s eq_refl) as [A B]. rewrite cstr_id by auto. auto.
    - split; [reflexivity | unfold zlen; simpl; lia]. }
  destruct Hs as [Hs Hl].
  assert (0 <= zlen nm) by (unfold zlen; lia).
  assert (Hw : w16 (zlen nm) = zlen nm) by (unfold w16; apply Z.mod_small; lia).
  rewrite Hw. replace (Z.to_nat (zlen nm)) with (length nm) by (unfold zlen; symmetry; apply Nat2Z.id).
  rewrite firstn_all. split; [apply dec16_enc16; unfold is_u16; lia|].
  unfold opt_name. destruct (Z.eqb_spec (zlen nm) 0) as [E|E].
  - assert (nm = []) by (destruct nm; [reflexivity|unfold zlen in E; simpl in E; lia]).
    rewrite H0. cbn [app]. f_equal. f_equal. rewrite Hs in H0. destruct o as [s|]; cbn in *; subst; reflexivity.
  - replace (Z.to_nat (zlen nm)) with (length nm) by (unfold zlen; symmetry; apply Nat2Z.id).
    rewrite take_app. f_equal. f_equal.
    rewrite Hs. destruct o as [s|]; cbn [opt_bytes] in *.
    + destruct (W s eq_refl) as [A B]. rewrite cstr_id by auto.
      subst nm. rewrite cstr_id in E by auto. destruct s; [unfold zlen in E; simpl in E; lia|reflexivity].
    + subst nm. unfold zlen in E. simpl in E. lia.
Qed.

Definition pair_u16 (p : Z * Z) : Prop := is_u16 (fst p) /\ is_u16 (snd p).

Lemma Forall_combine_split : forall (a b : list Z), length a = length b ->
  Forall pair_u16 (combine a b) -> Forall is_u16 a /\ Forall is_u16 b.
Proof.
  induction a; destruct b; simpl; intros L F; try discriminate; auto.
  inversion F as [|? ? [A B] F']; subst. destruct (IHa b ltac:(lia) F'). split; constructor; auto.
Qed.

Record WFpack (g : VGROUP) : Prop := mkWFpack {
  wp_wf    : WF g;
  wp_mem   : Forall pair_u16 (members g);
  wp_name  : name_wf (vgname g);
  wp_class : name_wf (vgclass g);
  wp_ex    : is_u16 (extag g) /\ is_u16 (exref g) /\ 0 <= more g <= 32767;
  wp_flags : 0 <= flags g < 4294967296;
  wp_attrs : 0 <= nattrs g < 2147483648 /\ nattrs g = zlen (alist g) /\
             Forall (fun p => is_u16 (fst p) /\ is_u16 (snd p)) (alist g);
  wp_noatt : Z.land (flags g) VG_ATTR_SET = 0 -> nattrs g = 0 /\ alist g = [];
  wp_ver   : 0 <= version g <= 4 /\ (flags g = 0 -> version g <> 4) }.

(** the in-memory vgroup Load_vfile builds from the record Vdetach wrote *)
Definition reloaded (g : VGROUP) : VGROUP :=
  let n := Z.to_nat (nvelt g) in
  let m := if MAXNVELT <? nvelt g then nvelt g else MAXNVELT in
  mkVG (oref g) (nvelt g) m (agrow (firstn n (tag g)) m) (agrow (firstn n (ref g)) m)
       (norm (vgname g)) (norm (vgclass g)) (extag g) (exref g) (flags g) (nattrs g) (alist g)
       (fst (vpackvg g)) (more g) false false false.

Lemma pack_roundtrip_lemma : forall g, WFpack g -> vunpackvg (oref g) (snd (vpackvg g)) = Some (reloaded g).
Proof.
  intros g [W Fm Wn Wc (Xt & Xr & Xm) Hf (Na & Nl & Fa) Hno (Hv & Hv4)].
  pose proof W as [Lt Lr Hn Hm Hu].
  assert (Lc : length (firstn (Z.to_nat (nvelt g)) (tag g)) = length (firstn (Z.to_nat (nvelt g)) (ref g)))
    by (rewrite !firstn_length; lia).
  destruct (Forall_combine_split _ _ Lc Fm) as [Ft Fr]. clear Lc.
  unfold vpackvg. cbn [snd].
  set (n := Z.to_nat (nvelt g)).
  set (ver := if negb (flags g =? 0) && (version g <? VSET_NEW_VERSION) then VSET_NEW_VERSION else version g).
  set (FL := if flags g =? 0 then []
             else enc32 (flags g) ++
                  (if Z.land (flags g) VG_ATTR_SET =? 0 then []
                   else enc32 (nattrs g) ++
                        flat_map (fun p => enc16 (fst p) ++ enc16 (snd p)) (firstn (Z.to_nat (nattrs g)) (alist g)))).
  set (nm := cstr (opt_bytes (vgname g))). set (cl := cstr (opt_bytes (vgclass g))).
  assert (Hver : 0 <= ver <= 4 /\ (ver = VSET_NEW_VERSION <-> flags g <> 0)).
  { unfold ver, VSET_NEW_VERSION. destruct (Z.eqb_spec (flags g) 0) as [E|E]; cbn [negb andb].
    - split; [lia|]. split; intro; [exfalso; apply (Hv4 E); auto | contradiction].
    - destruct (Z.ltb_spec (version g) 4); split; try lia; split; intro; auto; lia. }
  destruct Hver as [Hver Hver4].
  set (T5 := enc16 ver ++ enc16 (more g) ++ [0]).
  set (buf := enc16 (nvelt g) ++ _).
  (* the trailer *)
  assert (Htail : exists L, buf = L ++ T5).
  { unfold buf. eexists. rewrite !app_assoc. reflexivity. }
  destruct Htail as [L HL].
  unfold vunpackvg.
  assert (Hlen : (length buf <? 5)%nat = false).
  { apply Nat.ltb_ge. rewrite HL, app_length. unfold T5, enc16. simpl. lia. }
  rewrite Hlen.
  assert (Hsk : skipn (length buf - 5) buf = T5).
  { rewrite HL. unfold T5, enc16. cbn [app]. apply skipn_last5. }
  rewrite Hsk. unfold T5. rewrite dec16_enc16 by (unfold is_u16; lia).
  rewrite dec16_enc16 by (unfold is_u16; lia).
  assert (Sv : s16 ver = ver) by (unfold s16; destruct (Z.ltb_spec ver 32768); lia).
  assert (Sm : s16 (more g) = more g) by (unfold s16; destruct (Z.ltb_spec (more g) 32768); lia).
  rewrite Sv, Sm.
  replace (ver <=? 4) with true by (symmetry; apply Z.leb_le; lia). cbn [negb].
  (* the body, field by field *)
  unfold buf. rewrite dec16_enc16 by (unfold is_u16; lia).
  assert (Ln : length (firstn n (tag g)) = Z.to_nat (nvelt g)) by (rewrite firstn_length; unfold n; lia).
  assert (Ln' : length (firstn n (ref g)) = Z.to_nat (nvelt g)) by (rewrite firstn_length; unfold n; lia).
  rewrite <- Ln at 1. rewrite dec16s_enc by auto.
  rewrite <- Ln' at 1. rewrite dec16s_enc by auto.
  destruct (opt_name_enc (vgname g) (enc16 (w16 (zlen cl)) ++ firstn (Z.to_nat (w16 (zlen cl))) cl ++
             enc16 (extag g) ++ enc16 (exref g) ++ FL ++ T5) Wn) as [N1 N2].
  fold nm in N1, N2. rewrite N1, N2.
  destruct (opt_name_enc (vgclass g) (enc16 (extag g) ++ enc16 (exref g) ++ FL ++ T5) Wc) as [C1 C2].
  fold cl in C1, C2. rewrite C1, C2.
  rewrite dec16_enc16 by auto. rewrite dec16_enc16 by auto.
  unfold reloaded. unfold vpackvg. cbn [fst]. fold ver. fold n.
  destruct (Z.eqb_spec ver VSET_NEW_VERSION) as [E4|E4].
  - (* version 4: flags present *)
    assert (Fnz : flags g <> 0) by (apply Hver4; auto).
    unfold FL. destruct (Z.eqb_spec (flags g) 0); [contradiction|].
    rewrite <- app_assoc, dec32_enc32 by lia.
    destruct (Z.eqb_spec (Z.land (flags g) VG_ATTR_SET) 0) as [A0|A0].
    + destruct (Hno A0) as [Z1 Z2]. rewrite Z1, Z2. reflexivity.
    + rewrite <- !app_assoc, dec32_enc32 by lia.
      replace (2147483648 <=? nattrs g) with false by (symmetry; apply Z.leb_gt; lia).
      assert (La : Z.to_nat (nattrs g) = length (alist g)) by (rewrite Nl; unfold zlen; apply Nat2Z.id).
      rewrite La, firstn_all, decpairs_enc by auto. reflexivity.
  - (* version <= 3: no flags *)
    assert (Fz : flags g = 0).
    { destruct (Z.eq_dec (flags g) 0); auto. exfalso. apply E4. apply Hver4. auto. }
    assert (A0 : Z.land (flags g) VG_ATTR_SET = 0) by (rewrite Fz; reflexivity).
    destruct (Hno A0) as [Z1 Z2]. rewrite Fz, Z1, Z2. reflexivity.
Qed.

Lemma reloaded_members : forall g, WF g -> members (reloaded g) = members g.
Proof.
  intros g [Lt Lr Hn Hm Hu]. unfold members, reloaded. cbn [nvelt tag ref].
  rewrite !firstn_agrow by (rewrite firstn_length; lia). rewrite !firstn_firstn, Nat.min_id. reflexivity.
Qed.

Lemma reloaded_WF : forall g, WF g -> WF (reloaded g).
Proof.
  intros g [Lt Lr Hn Hm Hu]. unfold reloaded.
  assert (M : 0 < (if MAXNVELT <? nvelt g then nvelt g else MAXNVELT) /\
              nvelt g <= (if MAXNVELT <? nvelt g then nvelt g else MAXNVELT)).
  { unfold MAXNVELT. destruct (Z.ltb_spec 64 (nvelt g)); lia. }
  constructor; cbn [nvelt tag ref msize]; try lia.
  - apply agrow_length. rewrite firstn_length. lia.
  - apply agrow_length. rewrite firstn_length. lia.
Qed.

(** the specification's view of one vgroup record: name, class, member list ... *)
Definition core (g : VGROUP) : bytes * bytes * list (Z * Z) :=
  (cstr (opt_bytes (vgname g)), cstr (opt_bytes (vgclass g)), members g).
(** ... and whether it is writable: the shared access field counts only while some handle is attached *)
Definition abs_vg (hg : list (Z * Z)) (k : Z) (g : VGROUP) : vg :=
  mkvg (cstr (opt_bytes (vgname g))) (cstr (opt_bytes (vgclass g))) (members g) (attached_in k hg && access g).

Lemma norm_view : forall o, name_wf o -> cstr (opt_bytes (norm o)) = cstr (opt_bytes o).
Proof. intros o W. destruct o as [[|x s]|]; reflexivity. Qed.

Lemma pack_version : forall g, 0 <= version g <= 4 -> (flags g = 0 -> version g <> 4) ->
  0 <= fst (vpackvg g) <= 4 /\ (flags g = 0 -> fst (vpackvg g) <> 4).
Proof.
  intros g Hv Hv4. unfold vpackvg. cbn [fst]. unfold VSET_NEW_VERSION.
  destruct (Z.eqb_spec (flags g) 0) as [E|E]; cbn [negb andb].
  - split; [lia|]. auto.
  - destruct (Z.ltb_spec (version g) 4); split; try lia; intro; contradiction.
Qed.

Lemma reloaded_WFpack : forall g, WFpack g -> WFpack (reloaded g).
Proof.
  intros g P. pose proof P as [W Fm Wn Wc X Hf A Hno (Hv & Hv4)].
  constructor; try (unfold reloaded; cbn [extag exref more flags nattrs alist]; assumption).
  - apply reloaded_WF; auto.
  - rewrite reloaded_members; auto.
  - unfold reloaded; cbn [vgname]. intros s E. destruct (vgname g) as [[|x r]|]; cbn in E; try discriminate.
    inversion E; subst. apply Wn. reflexivity.
  - unfold reloaded; cbn [vgclass]. intros s E. destruct (vgclass g) as [[|x r]|]; cbn in E; try discriminate.
    inversion E; subst. apply Wc. reflexivity.
  - unfold reloaded; cbn [version flags]. apply pack_version; auto.
Qed.

(** vg_reopen_agrees: what Vdetach writes and Load_vfile reads back is the same vgroup *)
Lemma reopen_agrees_lemma : forall g, WFpack g ->
  exists g', vunpackvg (oref g) (snd (vpackvg g)) = Some g' /\ core g' = core g /\ WFpack g' /\
             oref g' = oref g /\ marked g' = false.
Proof.
  intros g P. exists (reloaded g). split; [apply pack_roundtrip_lemma; auto|].
  split; [|split; [apply reloaded_WFpack; auto | split; reflexivity]].
  destruct P. unfold core. rewrite reloaded_members by auto. unfold reloaded; cbn [vgname vgclass].
  rewrite !norm_view by auto. reflexivity.
Qed.

(* ================================================================================================== *)
(** * Vlone / VSlone: the flag-array algorithm computes the graph-theoretic notion *)

Lemma fkey_inj : forall i j, 0 <= i -> 0 <= j -> fkey i = fkey j -> i = j.
Proof. unfold fkey. intros i j Hi Hj H. apply Z2Pos.inj in H; lia. Qed.

Lemma flag_get_set : forall i j v m, 0 <= i -> 0 <= j ->
  flag_get i (flag_set j v m) = if i =? j then v else flag_get i m.
Proof.
  intros. unfold flag_get, flag_set. destruct (Z.eqb_spec i j).
  - subst. rewrite PositiveMap.gss. reflexivity.
  - rewrite PositiveMap.gso; auto. intro E. apply fkey_inj in E; auto.
Qed.

Lemma flag_get_empty : forall i, flag_get i (PositiveMap.empty bool) = false.
Proof. intros. unfold flag_get. rewrite PositiveMap.gempty. reflexivity. Qed.

Lemma mark_ids_spec : forall ids m i, 0 <= i -> Forall (fun k => 0 <= k) ids ->
  flag_get i (fold_left (fun m id => flag_set id true m) ids m) = existsb (Z.eqb i) ids || flag_get i m.
Proof.
  induction ids; intros m i Hi F; [reflexivity|]. inversion F; subst. cbn [fold_left existsb].
  rewrite IHids, flag_get_set by auto. destruct (i =? a); [rewrite orb_true_r|]; reflexivity.
Qed.

Lemma clear_list_spec : forall (l : list (Z * Z)) w m i, 0 <= i -> Forall (fun p => 0 <= snd p) l ->
  flag_get i (fold_left (fun m p => if fst p =? w then flag_set (snd p) false m else m) l m) =
  if has_member (w, i) l then false else flag_get i m.
Proof.
  induction l as [|[t r] l]; intros w m i Hi F; [reflexivity|]. inversion F; subst. cbn [fst snd] in *.
  cbn [fold_left]. rewrite IHl by auto. unfold has_member. cbn [existsb fst snd]. unfold pair_eqb; cbn [fst snd].
  destruct (existsb (fun b : Z * Z => (w =? fst b) && (i =? snd b)) l); [rewrite orb_true_r; reflexivity|].
  rewrite orb_false_r. rewrite (Z.eqb_sym w t). destruct (t =? w); cbn [andb]; [|reflexivity].
  rewrite flag_get_set by auto. reflexivity.
Qed.

Lemma fold_left_map_arg : forall (A B C : Type) (F : C -> B -> C) (h : A -> B) (l : list A) (m : C),
  fold_left (fun m i => F m (h i)) l m = fold_left F (map h l) m.
Proof. induction l; intros; simpl; auto. Qed.

Definition refs_ok (g : VGROUP) : Prop := Forall (fun p => 0 <= snd p) (members g).

Lemma clear_members_spec : forall g w m i, WF g -> refs_ok g -> 0 <= i ->
  flag_get i (clear_members w g m) = if has_member (w, i) (members g) then false else flag_get i m.
Proof.
  intros g w m i [Lt Lr Hn Hm Hu] RO Hi. unfold clear_members, idx.
  rewrite (fold_left_map_arg nat (Z * Z) _
             (fun m p => if fst p =? w then flag_set (snd p) false m else m)
             (fun i => (aget (tag g) i, aget (ref g) i))).
  rewrite map_idx_members by lia. apply clear_list_spec; auto.
Qed.

Lemma tget_in : forall A (t : list (Z * A)) k v, NoDup (keys t) -> In (k, v) t -> tget k t = Some v.
Proof.
  induction t as [|[k' v'] t]; intros k v ND H; [inversion H|]. cbn [tget]. inversion ND; subst.
  destruct H as [H|H].
  - inversion H; subst. rewrite Z.eqb_refl. reflexivity.
  - destruct (Z.eqb_spec k k'); [subst; exfalso; apply H2; apply (in_map fst) in H; auto|]. auto.
Qed.

Lemma fold_keys_tget : forall A C (t l : list (Z * A)) (F : A -> C -> C) (m : C),
  NoDup (keys t) -> incl l t ->
  fold_left (fun m id => match tget id t with Some g => F g m | None => m end) (keys l) m =
  fold_left (fun m e => F (snd e) m) l m.
Proof.
  induction l as [|[k v] l]; intros F m ND I; [reflexivity|]. cbn [keys map fst fold_left snd].
  rewrite (tget_in A t k v) by (auto; apply I; left; auto).
  apply IHl; auto. intros x Hx. apply I. right. auto.
Qed.

Definition tmap {A B} (F : Z -> A -> B) (t : list (Z * A)) : list (Z * B) :=
  map (fun e => (fst e, F (fst e) (snd e))) t.
Definition abs_table (hg : list (Z * Z)) (t : list (Z * VGROUP)) : list (Z * vg) := tmap (abs_vg hg) t.

Lemma keys_tmap : forall A B (F : Z -> A -> B) t, keys (tmap F t) = keys t.
Proof. intros. unfold keys, tmap. rewrite map_map. reflexivity. Qed.

Lemma clear_table_spec : forall hg (t : list (Z * VGROUP)) w m i, 0 <= i ->
  (forall k g, In (k, g) t -> WF g /\ refs_ok g) ->
  flag_get i (fold_left (fun m e => clear_members w (snd e) m) t m) =
  if referenced w i (abs_table hg t) then false else flag_get i m.
Proof.
  induction t as [|[k g] t]; intros w m i Hi H; [reflexivity|]. cbn [fold_left snd].
  rewrite IHt by (auto; intros; apply (H k0); right; auto).
  destruct (H k g (or_introl eq_refl)) as [W RO].
  rewrite clear_members_spec by auto. unfold referenced, abs_table, tmap. cbn [map existsb snd fst abs_vg g_members].
  destruct (has_member (w, i) (members g)); cbn [orb]; [|reflexivity].
  destruct (existsb _ _); reflexivity.
Qed.

Lemma zrange_from_bounds : forall n a x, In x (zrange_from a n) -> a <= x < a + Z.of_nat n.
Proof.
  induction n; intros a x H; [inversion H|]. cbn [zrange_from] in H. destruct H as [H|H].
  - subst. lia.
  - apply IHn in H. lia.
Qed.

Lemma filter_range_sorted : forall n a ids (g : Z -> bool),
  StronglySorted Z.lt ids -> Forall (fun k => a <= k < a + Z.of_nat n) ids ->
  filter (fun i => existsb (Z.eqb i) ids && g i) (zrange_from a n) = filter g ids.
Proof.
  induction n; intros a ids g S F.
  - destruct ids; [reflexivity|]. inversion F; subst. lia.
  - cbn [zrange_from filter]. destruct ids as [|x xs].
    + rewrite (IHn (a + 1) [] g); auto.
    + inversion S as [|? ? S' Hall]; subst. inversion F as [|? ? Hx F']; subst.
      assert (Hxs : Forall (fun k => x < k) xs) by auto.
      destruct (Z.eq_dec x a) as [E|E].
      * subst x.
        assert (R : filter (fun i => (existsb (Z.eqb i) (a :: xs)) && g i) (zrange_from (a + 1) n) =
                    filter (fun i => existsb (Z.eqb i) xs && g i) (zrange_from (a + 1) n)).
        { apply filter_ext_in. intros i Hi. apply zrange_from_bounds in Hi. cbn [existsb].
          destruct (Z.eqb_spec i a); [lia|]. reflexivity. }
        rewrite R, (IHn (a + 1) xs g); auto.
        cbn [existsb]. rewrite Z.eqb_refl. cbn [orb andb filter]. reflexivity.
        rewrite Forall_forall in *. intros k Hk. specialize (Hxs k Hk). specialize (F' k Hk). lia.
      * assert (Hn : existsb (Z.eqb a) (x :: xs) = false).
        { cbn [existsb]. destruct (Z.eqb_spec a x); [lia|]. cbn [orb].
          apply not_true_is_false. intro T. apply existsb_exists in T as (y & Hy & Ey).
          apply Z.eqb_eq in Ey. subst y. rewrite Forall_forall in Hxs. specialize (Hxs a Hy). lia. }
        rewrite Hn. cbn [andb]. apply (IHn (a + 1) (x :: xs) g); auto.
        constructor; [lia|]. rewrite Forall_forall in *. intros k Hk. specialize (Hxs k Hk). specialize (F' k Hk). lia.
Qed.

Definition table_ok {A} (t : list (Z * A)) : Prop :=
  StronglySorted Z.lt (keys t) /\ Forall (fun k => 0 <= k <= MAX_REF) (keys t).

Lemma sorted_nodup : forall l, StronglySorted Z.lt l -> NoDup l.
Proof.
  induction 1; constructor; auto. intro I. rewrite Forall_forall in H0. specialize (H0 a I). lia.
Qed.

Lemma table_ok_facts : forall A (t : list (Z * A)), table_ok t ->
  NoDup (keys t) /\ Forall (fun x => 0 <= x) (keys t).
Proof.
  intros A t [S F]. split; [apply sorted_nodup; auto|]. eapply Forall_impl; [|exact F]. cbn. intros; lia.
Qed.

Lemma lone_scan_spec : forall ids w (vgt : list (Z * VGROUP)),
  StronglySorted Z.lt ids -> Forall (fun k => 0 <= k <= MAX_REF) ids -> table_ok vgt ->
  (forall k g, In (k, g) vgt -> WF g /\ refs_ok g) ->
  forall hg, lone_scan ids w vgt (MAX_REF + 1) = filter (fun r => negb (referenced w r (abs_table hg vgt))) ids.
Proof.
  intros ids w vgt S F TO HW hg. destruct (table_ok_facts _ vgt TO) as [ND NN].
  unfold lone_scan. rewrite all_ids_keys by auto.
  rewrite (fold_keys_tget VGROUP _ vgt vgt (fun g m => clear_members w g m)) by (try apply incl_refl; auto).
  unfold zrange.
  rewrite <- (filter_range_sorted (Z.to_nat (MAX_REF + 1)) 0 ids); auto.
  - apply filter_ext_in. intros i Hi. apply zrange_from_bounds in Hi.
    rewrite (clear_table_spec hg) by (first [lia | auto]).
    rewrite mark_ids_spec by (first [lia | eapply Forall_impl; [|exact F]; cbn; intros; lia]).
    rewrite flag_get_empty, orb_false_r.
    destruct (referenced w i (abs_table hg vgt)); cbn [negb]; [rewrite andb_false_r|rewrite andb_true_r]; reflexivity.
  - eapply Forall_impl; [|exact F]. intros k Hk. cbv beta in Hk |- *. rewrite Z2Nat.id by (unfold MAX_REF; lia). lia.
Qed.

(** the specification state a model state stands for *)
Definition abs_state (s : mstate) : state := mkst (abs_table (m_hg s) (m_vg s)) (m_vs s) (m_hg s) (m_hs s).

Lemma lone_correct_lemma : forall s, table_ok (m_vg s) -> table_ok (m_vs s) ->
  (forall k g, In (k, g) (m_vg s) -> WF g /\ refs_ok g) ->
  Vlone s = lone_vgroups (abs_state s) /\ VSlone s = lone_vdatas (abs_state s).
Proof.
  intros s TG TS HW. unfold Vlone, VSlone, lone_vgroups, lone_vdatas, abs_state. cbn [vgs vss].
  destruct (table_ok_facts _ _ TG) as [NDg NNg]. destruct (table_ok_facts _ _ TS) as [NDs NNs].
  rewrite !all_ids_keys by auto.
  replace (keys (abs_table (m_hg s) (m_vg s))) with (keys (m_vg s)) by (unfold abs_table; symmetry; apply keys_tmap).
  destruct TG as [Sg Fg]. destruct TS as [Ss Fs].
  split; apply lone_scan_spec; auto; split; auto.
Qed.

Lemma tget_keys : forall A (t : list (Z * A)) k, In k (keys t) <-> exists v, tget k t = Some v.
Proof.
  induction t as [|[k' v'] t]; intros k; cbn [keys map fst In tget].
  - split; [tauto | intros [v H]; discriminate].
  - destruct (Z.eqb_spec k k').
    + subst. split; eauto.
    + rewrite <- IHt. unfold keys. split; [intros [H|H]; [congruence|auto] | auto].
Qed.

Lemma enumeration_exact_lemma : forall A (t : list (Z * A)), table_ok t ->
  all_ids t = keys t /\ NoDup (all_ids t) /\ (forall k, In k (all_ids t) <-> exists v, tget k t = Some v).
Proof.
  intros A t TO. destruct (table_ok_facts _ _ TO) as [ND NN].
  rewrite all_ids_keys by auto. split; [reflexivity|]. split; [auto|]. intro k. apply tget_keys.
Qed.

(** the statements of the C source the model was written against (regenerated from vgp.c on every run) *)
Module Layout.
Import String.
Lemma source_layout_pinned_lemma :
  vpackvg_layout =
    ["bb=&buf[0]"; "UINT16ENCODE(bb,vg->nvelt)"; "for(i=0;i<(unsigned)vg->nvelt;i++)"; "UINT16ENCODE(bb,vg->tag[i])";
     "for(i=0;i<(unsigned)vg->nvelt;i++)"; "UINT16ENCODE(bb,vg->ref[i])"; "if(vg->vgname!=NULL)";
     "UINT16ENCODE(bb,temp_len)"; "if(vg->vgname!=NULL)"; "bb+=temp_len"; "if(vg->vgclass!=NULL)";
     "UINT16ENCODE(bb,temp_len)"; "if(vg->vgclass!=NULL)"; "bb+=temp_len"; "UINT16ENCODE(bb,vg->extag)";
     "UINT16ENCODE(bb,vg->exref)"; "if(vg->flags)"; "if(vg->version<VSET_NEW_VERSION)"; "UINT32ENCODE(bb,vg->flags)";
     "if(vg->flags&VG_ATTR_SET)"; "INT32ENCODE(bb,vg->nattrs)"; "for(i=0;i<(unsigned)vg->nattrs;i++)";
     "UINT16ENCODE(bb,vg->alist[i].atag)"; "UINT16ENCODE(bb,vg->alist[i].aref)"; "UINT16ENCODE(bb,vg->version)";
     "UINT16ENCODE(bb,vg->more)"; "*size=(int32)(bb-buf)+1"; "*bb=0"]%string /\
  vunpackvg_layout =
    ["bb=&buf[len-5]"; "UINT16DECODE(bb,uint16var)"; "UINT16DECODE(bb,uint16var)"; "bb=&buf[0]"; "if(vg->version<=4)";
     "UINT16DECODE(bb,vg->nvelt)"; "if((vg->tag==NULL)||(vg->ref==NULL))"; "for(u=0;u<(unsigned)vg->nvelt;u++)";
     "UINT16DECODE(bb,vg->tag[u])"; "for(u=0;u<(unsigned)vg->nvelt;u++)"; "UINT16DECODE(bb,vg->ref[u])";
     "UINT16DECODE(bb,uint16var)"; "if(uint16var==0)"; "else"; "bb+=(size_t)uint16var"; "UINT16DECODE(bb,uint16var)";
     "if(uint16var==0)"; "else"; "bb+=(size_t)uint16var"; "UINT16DECODE(bb,vg->extag)"; "UINT16DECODE(bb,vg->exref)";
     "if(vg->version==VSET_NEW_VERSION)"; "UINT32DECODE(bb,vg->flags)"; "if(vg->flags&VG_ATTR_SET)";
     "INT32DECODE(bb,vg->nattrs)"; "for(i=0;i<vg->nattrs;i++)"; "UINT16DECODE(bb,vg->alist[i].atag)";
     "UINT16DECODE(bb,vg->alist[i].aref)"]%string /\
  vinsertpair_grow_cond = "(int)vg->nvelt>=vg->msize"%string /\
  vinsertpair_grow_step = "vg->msize*=2;"%string /\
  vinsertpair_store = "vg->tag[(unsigned)vg->nvelt]=tag;vg->ref[(unsigned)vg->nvelt]=ref;vg->nvelt++;"%string /\
  vdeletetagref_shift = "for(j=i;j<(unsigned)vg->nvelt-1;j++){vg->tag[j]=vg->tag[j+1];vg->ref[j]=vg->ref[j+1];}"%string /\
  vdeletetagref_shrink = "vg->tag[(unsigned)vg->nvelt-1]=DFTAG_NULL;vg->ref[(unsigned)vg->nvelt-1]=0;vg->nvelt--;"%string /\
  vunpackvg_msize = "vg->msize=((unsigned)vg->nvelt>(unsigned)MAXNVELT?vg->nvelt:MAXNVELT);"%string /\
  vunpackvg_tail = "bb=&buf[len-5];"%string /\
  (MAXNVELT, MAX_REF, DFTAG_NULL, DFTAG_VG, DFTAG_VH, VSDESCTAG) = (64, 65535, 1, 1965, 1962, 1962) /\
  (VG_ATTR_SET, VSET_VERSION, VSET_NEW_VERSION) = (1, 3, 4) /\
  Z.of_nat (List.length HDF_INTERNAL_VGS) = HDF_NUM_INTERNAL_VGS.
Proof. repeat split; reflexivity. Qed.
(** every function with external linkage of vgp.c / vg.c / vhi.c is accounted for: called by the harness drive_vg.c
    (checks/C08.py verifies the calls are there), reached through one of those, or a Vdata-record routine that
    belongs to property C07 / a helper without observable behaviour *)
Definition api_driven : list string :=
  ["Vinitialize"; "Vfinish"; "Vattach"; "Vdetach"; "Vinsert"; "Vflocate"; "Vinqtagref"; "Vdeletetagref"; "Vntagrefs";
   "Vnrefs"; "Vgettagrefs"; "Vgettagref"; "VQuerytag"; "VQueryref"; "Vaddtagref"; "Ventries"; "Vsetname"; "Vsetclass";
   "Visvg"; "Visvs"; "Vgetid"; "Vgetnext"; "Vgetnamelen"; "Vgetclassnamelen"; "Vgetname"; "Vgetclass"; "Vinquire";
   "Vopen"; "Vclose"; "Vdelete"; "Vgisinternal"; "Vgetvgroups"; "VSlone"; "Vlone"; "Vfind"; "VSfind"; "Vfindclass";
   "VSfindclass"; "VSofclass"; "VSgetvdatas"; "VHstoredata"; "VHmakegroup"; "VSsetname"; "VSsetclass"]%string.
Definition api_indirect : list string :=
  ["VIget_vgroup_node"; "VIrelease_vgroup_node"; "VIget_vginstance_node"; "VIrelease_vginstance_node"; "Get_vfile";
   "vcompare"; "vdestroynode"; "vfdestroynode"; "vginst"; "vpackvg"; "VPgetinfo"; "vinsertpair"; "Visinternal";
   "VSisinternal"; "VSIgetvdatas"; "vscheckclass"; "VHstoredatam"; "VSfexist"; "VPshutdown"]%string.
Definition api_elsewhere : list string :=
  ["VSelts"; "VSgetinterlace"; "VSsetinterlace"; "VSgetfields"; "VSsizeof"; "VSdump"; "VSgetname"; "VSgetclass";
   "VSinquire"; "VSsetblocksize"; "VSsetnumblocks"; "VSgetblockinfo";          (* Vdata records: C07 *)
   "vexistvg"; "vprint"; "Vsetzap"]%string.                                     (* lookup helper, debug print, no-op *)
Lemma api_accounted_lemma :
  forallb (fun f => existsb (String.eqb f) (api_driven ++ api_indirect ++ api_elsewhere)) vg_api_functions = true.
Proof. vm_compute. reflexivity. Qed.

(** loop bounds and loop bodies of the enumeration / construction routines the model follows *)
Lemma source_loops_pinned_lemma :
  vsigetvdatas_count = "int32n_elements=Vntagrefs(id);"%string /\
  vgetvgroups_count = "int32n_elements=Vntagrefs(id);"%string /\
  vhmakegroup_loop =
    "for(i=0;i<n;i++){if(Vaddtagref(vg,tagarray[i],refarray[i])==FAIL)HGOTO_ERROR(DFE_CANTADDELEM,FAIL);}ref=VQueryref(vg);"%string /\
  vgettagrefs_clamp = "if(n>(int32)vg->nvelt)n=(int32)vg->nvelt;"%string /\
  vattach_shared_mode = "v->vg->access=MAX(v->vg->access,acc_mode);v->nattach++;"%string /\
  vlone_member_loop = "for(i=0;i<Vntagrefs(vkey);i++){Vgettagref(vkey,i,&vstag,&id);"%string /\
  vslone_member_loop = "for(i=0;i<Vntagrefs(vkey);i++){Vgettagref(vkey,i,&vstag,&vsid);"%string /\
  vinsert_dup_scan =
    "for(u=0;u<(unsigned)vg->nvelt;u++){if((vg->ref[u]==newref)&&(vg->tag[u]==newtag))HGOTO_ERROR(DFE_DUPDD,FAIL);}"%string /\
  Z.of_nat (List.length HDF_INTERNAL_VDS) = HDF_NUM_INTERNAL_VDS /\
  List.length _HDF_CHK_TBL_CLASS = 13%nat.
Proof. repeat split; reflexivity. Qed.
(** the string comparisons of the lookups: full strcmp for names and classes, prefix tests only against the
    library's own class names and, in vscheckclass, for queries that start with the chunk-table prefix *)
Lemma source_compares_pinned_lemma :
  vscheckclass_compare =
    "if(strncmp(vsclass,_HDF_CHK_TBL_CLASS,len))ret_value=strcmp(vsclass,vs->vsclass)?FALSE:TRUE;elseret_value=strncmp(vsclass,vs->vsclass,len)?FALSE:TRUE;"%string /\
  vscheckclass_user = "if(vsclass==NULL){if(VSisinternal(vs->vsclass)==FALSE)ret_value=TRUE;}"%string /\
  vsisinternal_test =
    "if(strncmp(HDF_INTERNAL_VDS[i],classname,strlen(HDF_INTERNAL_VDS[i]))==0){ret_value=TRUE;break;}"%string /\
  visinternal_test =
    "if(strncmp(HDF_INTERNAL_VGS[i],classname,strlen(HDF_INTERNAL_VGS[i]))==0){ret_value=TRUE;break;}"%string /\
  vfind_test = "if(vg->vgname!=NULL)if(!strcmp(vgname,vg->vgname))HGOTO_DONE((int32)(vg->oref));"%string /\
  vfindclass_test = "if(vg->vgclass!=NULL)if(!strcmp(vgclass,vg->vgclass))HGOTO_DONE((int32)(vg->oref));"%string /\
  vsfind_test = "if(!strcmp(vsname,vs->vsname))HGOTO_DONE((int32)(vs->oref));"%string /\
  vsfindclass_test = "if(!strcmp(vsclass,vs->vsclass))HGOTO_DONE((int32)(vs->oref));"%string.
Proof. repeat split; reflexivity. Qed.
(** the statements that decide how long the stored element is: Vdetach invalidates the descriptor of a vgroup that came
    from the file before it writes, Hstartwrite sizes only a new element, Hwrite refuses to run past an existing one,
    Load_vfile reads the element with the length of its descriptor, vpackvg reports one byte more than it encodes *)
Lemma source_store_pinned_lemma :
  vdetach_reuse =
    "if(!vg->new_vg){switch(HDcheck_tagref(vg->f,DFTAG_VG,vg->oref)){case0:break;case1:if(HDreuse_tagref(vg->f,DFTAG_VG,vg->oref)==FAIL)HGOTO_ERROR(DFE_INTERNAL,FAIL);break;"%string /\
  vdetach_put =
    "if(Hputelement(vg->f,DFTAG_VG,vg->oref,Vgbuf,vgpacksize)==FAIL){HERROR(DFE_WRITEERROR);ret_value=FAIL;}else{vg->marked=0;vg->new_vg=0;}"%string /\
  hstartwrite_setlength = "if(access_rec->new_elem&&(Hsetlength(ret,length)==FAIL))"%string /\
  hwrite_bound =
    "if(length<=0||(!access_rec->appendable&&length+access_rec->posn>data_len))HGOTO_ERROR(DFE_BADSEEK,FAIL);"%string /\
  vpgetinfo_length = "if((len=Hlength(f,DFTAG_VG,(uint16)ref))==FAIL)"%string /\
  vpackvg_size = "*size=(int32)(bb-buf)+1;"%string.
Proof. repeat split; reflexivity. Qed.
(** error paths and the tree under the tables: Vsetname / Vsetclass test the length BEFORE they release the old string
    (a refused call changes nothing); tbbtrem redirects the thread of the surviving child also when that child has no
    descendant on the side (Vgetid / VSgetid walk these threads); Vdelete removes the node, then the element *)
Lemma source_errors_tree_pinned_lemma :
  vsetname_order = "name_len=strlen(vgname);if(name_len>UINT16_MAX)HGOTO_ERROR(DFE_EXCEEDMAX,FAIL);free(vg->vgname);vg->vgname=(char*)malloc(name_len+1);if(vg->vgname==NULL)HGOTO_ERROR(DFE_NOSPACE,FAIL);HIstrncpy(vg->vgname,vgname,(int)name_len+1);vg->marked=TRUE;"%string /\
  vsetclass_order = "classname_len=strlen(vgclass);if(classname_len>UINT16_MAX)HGOTO_ERROR(DFE_EXCEEDMAX,FAIL);free(vg->vgclass);vg->vgclass=(char*)malloc(classname_len+1);if(vg->vgclass==NULL)HGOTO_ERROR(DFE_NOSPACE,FAIL);HIstrncpy(vg->vgclass,vgclass,(int)classname_len+1);vg->marked=TRUE;"%string /\
  tbbtrem_thread_same = "n=leaf->Link[side];par->Link[side]=n;n->Parent=par;if(HasChild(n,Other(side)))while(HasChild(n,Other(side)))n=n->Link[Other(side)];n->Link[Other(side)]=par;"%string /\
  tbbtrem_thread_zigzag = "n=leaf->Link[Other(side)];par->Link[side]=n;n->Parent=par;if(HasChild(n,side))while(HasChild(n,side))n=n->Link[side];n->Link[side]=next;"%string /\
  vdelete_order = "if((v=tbbtrem((TBBT_NODE**)vf->vgtree,(TBBT_NODE*)t,NULL))!=NULL)vdestroynode((void*)v);if(Hdeldd(f,DFTAG_VG,(uint16)vgid)==FAIL)"%string.
Proof. repeat split; reflexivity. Qed.
End Layout.

(** a class lookup with an ordinary class name finds exactly the vdatas of that class: no prefix matching *)
Lemma bytes_eqb_eq : forall a b, bytes_eqb a b = true <-> a = b.
Proof.
  induction a; destruct b; cbn; split; intro H; try discriminate; auto.
  - apply andb_true_iff in H as [A B]. apply Z.eqb_eq in A. apply IHa in B. congruence.
  - inversion H; subst. rewrite Z.eqb_refl. apply IHa. reflexivity.
Qed.

Lemma class_lookup_exact_lemma : forall t r q, is_prefix _HDF_CHK_TBL_CLASS q = false ->
  (vscheckclass t r (Some q) = true <-> exists v, tget r t = Some v /\ s_class v = q /\ q <> []).
Proof.
  intros t r q N. unfold vscheckclass. destruct (tget r t) as [v|].
  - destruct (s_class v) as [|x c] eqn:E.
    + split; [discriminate|]. intros (v' & E1 & E2 & E3). inversion E1; subst. congruence.
    + rewrite N. rewrite bytes_eqb_eq. split.
      * intro H. exists v. split; [reflexivity|]. split; [congruence|]. subst q. discriminate.
      * intros (v' & E1 & E2 & E3). inversion E1; subst. congruence.
  - split; [discriminate|]. intros (v' & E1 & _). discriminate.
Qed.


(* ================================================================================================== *)
(** * The element under a vgroup record *)

Lemma put_new : forall b, Hputelement None b = Some b.
Proof. reflexivity. Qed.

(** writing over an existing element never changes its length: a shorter record leaves the old tail behind *)
Lemma put_in_place : forall o b, (length b <= length o)%nat ->
  exists e, Hputelement (Some o) b = Some e /\ length e = length o /\ firstn (length b) e = b /\
            skipn (length b) e = skipn (length b) o.
Proof.
  intros o b L. unfold Hputelement. destruct (Nat.ltb_spec (length o) (length b)); [lia|].
  eexists. split; [reflexivity|]. split; [|split].
  - rewrite app_length, skipn_length. lia.
  - rewrite firstn_app, Nat.sub_diag, firstn_all, firstn_O, app_nil_r. reflexivity.
  - rewrite skipn_app, Nat.sub_diag, skipn_all. reflexivity.
Qed.

Lemma put_longer_fails : forall o b, (length o < length b)%nat -> Hputelement (Some o) b = None.
Proof. intros o b L. unfold Hputelement. destruct (Nat.ltb_spec (length o) (length b)); [reflexivity|lia]. Qed.

(** the size vpackvg reports (Vdetach passes it to Hputelement) *)
Definition packed_size (g : VGROUP) : nat :=
  let extra := if (flags g =? 0)%Z then O
               else (4 + (if (Z.land (flags g) VG_ATTR_SET =? 0)%Z then 0 else 4 + 4 * Z.to_nat (nattrs g)))%nat in
  (4 * Z.to_nat (nvelt g) + length (cstr (opt_bytes (vgname g))) + length (cstr (opt_bytes (vgclass g))) + 15 + extra)%nat.

Lemma flat_map_enc16_length : forall l, length (flat_map enc16 l) = (2 * length l)%nat.
Proof. induction l; cbn [flat_map length app]; auto. rewrite app_length, IHl. cbn. lia. Qed.

Lemma flat_map_pairs_length : forall (l : list (Z * Z)),
  length (flat_map (fun p => enc16 (fst p) ++ enc16 (snd p)) l) = (4 * length l)%nat.
Proof. induction l; cbn [flat_map length app]; auto. rewrite app_length, IHl. cbn. lia. Qed.

Lemma enc16_length : forall v, length (enc16 v) = 2%nat. Proof. reflexivity. Qed.
Lemma enc32_length : forall v, length (enc32 v) = 4%nat. Proof. reflexivity. Qed.

Lemma vpackvg_length : forall g, WFpack g -> length (snd (vpackvg g)) = packed_size g.
Proof.
  intros g [W Fm Wn Wc X Hf (Na & Nl & Fa) Hno V]. pose proof W as [Lt Lr Hn Hm Hu].
  assert (NL : forall o, name_wf o -> Z.to_nat (w16 (zlen (cstr (opt_bytes o)))) = length (cstr (opt_bytes o))).
  { intros o Wo. assert (zlen (cstr (opt_bytes o)) <= 65535).
    { destruct o as [s0|]; cbn [opt_bytes]; [|cbn; unfold zlen; simpl; lia].
      destruct (Wo s0 eq_refl) as [A B]. rewrite cstr_id by auto. exact B. }
    unfold w16. rewrite Z.mod_small by (unfold zlen in *; lia). unfold zlen. apply Nat2Z.id. }
  unfold vpackvg, packed_size. cbn [snd].
  rewrite (NL _ Wn), (NL _ Wc), !firstn_all.
  rewrite !app_length, !flat_map_enc16_length, !firstn_length, Lt, Lr.
  rewrite !enc16_length.
  replace (Nat.min (Z.to_nat (nvelt g)) (Z.to_nat (msize g))) with (Z.to_nat (nvelt g)) by lia.
  destruct (flags g =? 0); [cbn [length]; lia|].
  rewrite app_length, enc32_length.
  destruct (Z.land (flags g) VG_ATTR_SET =? 0); [cbn [length]; lia|].
  rewrite app_length, enc32_length, flat_map_pairs_length, firstn_length.
  replace (Nat.min (Z.to_nat (nattrs g)) (length (alist g))) with (Z.to_nat (nattrs g))
    by (rewrite Nl; unfold zlen; lia).
  cbn [length]. lia.
Qed.


(* ================================================================================================== *)
(** * A refused call changes nothing (specification level) *)
Ltac brk := repeat match goal with
  | |- context [match ?x with _ => _ end] => destruct x eqn:?
  | |- context [if ?x then _ else _] => destruct x eqn:?
  end.
Lemma spec_refused_changes_nothing_lemma : forall s o,
  snd (VGraphSpec.step s o) = RFail -> fst (VGraphSpec.step s o) = s.
Proof.
  intros s o. destruct o; unfold VGraphSpec.step, insert_pair, edit_h, with_h, getid, enum_answer, ok0, okv, put_vg;
    brk; cbn [fst snd]; intro H; try discriminate; try reflexivity.
Qed.
