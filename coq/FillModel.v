(** C04 -- the fill bookkeeping of the contiguous layout's first write (what the chunked layout never does, so it must
    agree with it): the piece loop of mfhdf/src/putget.c hdf_xdr_NCvdata that writes a run of fill values in pieces of
    at most MAX_SIZE bytes, and the per-row fill runs of hdf/src/mfgr.c GRwriteimage around a strided selection.
    The statement texts and their order are pinned in FillProofs.v.  Total computable definitions only. *)
From Coq Require Import ZArith List Bool.
Import ListNotations.
Local Open Scope Z_scope.

Definition MAX_SIZE : Z := 1000000.

(** chunk_size = MIN(buf_size, MAX_SIZE);
    do { Hwrite(chunk_size); buf_size -= chunk_size; chunk_size = MIN(chunk_size, buf_size); } while (buf_size > 0);
    -> the sizes of the pieces written *)
Fixpoint fill_pieces (fuel : nat) (buf_size chunk_size : Z) : list Z :=
  match fuel with
  | O => []
  | S f =>
      chunk_size ::
      (let buf' := buf_size - chunk_size in
       let chunk' := Z.min chunk_size buf' in
       if 0 <? buf' then fill_pieces f buf' chunk' else [])
  end.

Definition fill_run (fuel : nat) (buf_size : Z) : list Z := fill_pieces fuel buf_size (Z.min buf_size MAX_SIZE).

(** GRwriteimage, one image row of a new image: fill in front of the selection, the selection's span, fill behind it *)
Definition gr_fill_lo (psize start_x : Z) : Z := psize * start_x.
Definition gr_fill_hi (psize xdim start_x count_x stride_x : Z) : Z :=
  psize * (xdim - (start_x + ((count_x - 1) * stride_x) + 1)).
Definition gr_span (psize count_x stride_x : Z) : Z := psize * ((count_x - 1) * stride_x + 1).
