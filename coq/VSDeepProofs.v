(** C07 -- deepening: VSsizeof, and the list-level form of read-after-write. *)
From Coq Require Import ZArith List Bool Lia Arith Permutation.
Require Import H4.gen.Gen_VS H4.VSModel H4.VTableSpec H4.VSProofs H4.VSChunkProofs H4.VSLayoutProofs H4.VSFullProofs.
Require H4.ConvModel H4.ConvProofs.
Import ListNotations.
Local Open Scope Z_scope.

(* ------------------------------------------------------------------ *)
(** * VSsizeof of a field list is the record size VSread uses for that field list *)

Lemma find_idx_shift : forall nm l k, find_idx nm l k = option_map (Z.add k) (find_idx nm l 0).
Proof.
  intros nm l. induction l as [|x t IH]; intros k; [reflexivity|].
  cbn [find_idx]. destruct (VSModel.name_eqb nm x); [cbn [option_map]; f_equal; lia|].
  rewrite (IH (k + 1)), (IH (0 + 1)). destruct (find_idx nm t 0); cbn [option_map]; [f_equal; lia|reflexivity].
Qed.

Lemma find_idx_nonneg : forall nm l j, find_idx nm l 0 = Some j -> 0 <= j.
Proof.
  intros nm l. induction l as [|x t IH]; intros j H; [discriminate|].
  cbn [find_idx] in H. destruct (VSModel.name_eqb nm x); [inversion H; lia|].
  rewrite find_idx_shift in H. destruct (find_idx nm t 0) as [j'|] eqn:E; [|discriminate].
  cbn [option_map] in H. assert (Hj : 0 + 1 + j' = j) by congruence. specialize (IH j' eq_refl). lia.
Qed.

Lemma nthf_cons : forall f t j, 0 <= j -> nthf (f :: t) (0 + 1 + j) = nthf t j.
Proof.
  intros f t j Hj. unfold nthf.
  destruct (0 + 1 + j <? 0) eqn:E1; [apply Z.ltb_lt in E1; lia|].
  destruct (j <? 0) eqn:E2; [apply Z.ltb_lt in E2; lia|].
  replace (Z.to_nat (0 + 1 + j)) with (S (Z.to_nat j)) by lia. reflexivity.
Qed.

Lemma sizeof_find_idx : forall nm fl,
  sizeof_find nm fl = match find_idx nm (map w_name fl) 0 with Some j => option_map w_esize (nthf fl j) | None => None end.
Proof.
  intros nm fl. induction fl as [|f t IH]; [reflexivity|].
  cbn [sizeof_find map find_idx]. destruct (VSModel.name_eqb nm (w_name f)); [reflexivity|].
  rewrite find_idx_shift, IH. destruct (find_idx nm (map w_name t) 0) as [j|] eqn:E; [|reflexivity].
  cbn [option_map]. rewrite nthf_cons by (eapply find_idx_nonneg; eassumption). reflexivity.
Qed.

Lemma sizeof_loop_read_size : forall fl names total,
  sizeof_loop fl names total =
  match setfields_r_loop (map w_name fl) names with
  | Some rl => option_map (Z.add total) (uvsize_of fl rl)
  | None => None
  end.
Proof.
  intros fl names. induction names as [|nm rest IH]; intros total; [cbn [sizeof_loop setfields_r_loop uvsize_of option_map]; f_equal; lia|].
  cbn [sizeof_loop setfields_r_loop]. rewrite sizeof_find_idx.
  destruct (find_idx nm (map w_name fl) 0) as [j|] eqn:E; [|reflexivity].
  destruct (nthf fl j) as [f|] eqn:Ef; cbn [option_map].
  - rewrite IH. destruct (setfields_r_loop (map w_name fl) rest) as [rl|]; [|reflexivity].
    cbn [uvsize_of]. rewrite Ef. destruct (uvsize_of fl rl); cbn [option_map]; [f_equal; lia|reflexivity].
  - destruct (setfields_r_loop (map w_name fl) rest) as [rl|]; [|reflexivity].
    cbn [uvsize_of]. rewrite Ef. reflexivity.
Qed.

(** VSsizeof(fields) = the size of one record of the buffer VSread fills after VSsetfields(fields), for EVERY field
    list (subsets, permutations, repetitions, unknown names -> both fail) *)
Lemma vssizeof_is_read_size_lemma : forall fl names,
  m_vssizeof fl (Some names) =
  match m_setfields_r (map w_name fl) names with Some rl => uvsize_of fl rl | None => None end.
Proof.
  intros fl names. unfold m_vssizeof, m_setfields_r. destruct names as [|n0 rest]; [reflexivity|].
  destruct (VSFIELDMAX <? Z.of_nat (length (n0 :: rest))); [reflexivity|].
  rewrite sizeof_loop_read_size. destruct (setfields_r_loop _ _) as [rl|]; [|reflexivity].
  destruct (uvsize_of fl rl); cbn [option_map]; [f_equal; lia|reflexivity].
Qed.

(** ... which does not depend on the order of the names *)
Lemma rsum_perm : forall fl rl rl', Permutation rl rl' -> rl_ok fl rl -> rsum fl rl = rsum fl rl'.
Proof.
  intros fl rl rl' H. induction H as [|x l l' HP IH|x y l|l l' l'' H1 IH1 H2 IH2]; intros Hok.
  - reflexivity.
  - inversion Hok as [|? ? [f Hf] Ht]; subst. cbn [rsum]. rewrite Hf. rewrite (IH Ht). reflexivity.
  - inversion Hok as [|? ? [fy Hy] Ht]; subst. inversion Ht as [|? ? [fx Hx] Ht2]; subst.
    cbn [rsum]. rewrite Hy, Hx. lia.
  - rewrite (IH1 Hok). apply IH2. unfold rl_ok in *. rewrite Forall_forall in *. intros i Hi. apply Hok.
    eapply Permutation_in; [apply Permutation_sym; exact H1|exact Hi].
Qed.

Lemma vssizeof_all_fields : forall fl, Forall fld_ok fl -> m_vssizeof fl None = Some (isum fl).
Proof. intros fl H. unfold m_vssizeof. f_equal. exact (int_size_of_isum fl H). Qed.

(* ------------------------------------------------------------------ *)
(** * Lists: cells of a concatenation *)
Local Open Scope nat_scope.

Notation ssum := VTableSpec.sum.

Lemma ssum_app : forall a b, ssum (a ++ b) = (ssum a + ssum b)%nat.
Proof. induction a as [|x t IH]; intros b; cbn; [reflexivity|]. unfold ssum in *. cbn. rewrite IH. lia. Qed.

Lemma nth_concat_var : forall (Ls : list (list Z)) p k, (p < length Ls)%nat -> (k < length (nth p Ls []))%nat ->
  nth (ssum (map (@length Z) (firstn p Ls)) + k) (concat Ls) 0%Z = nth k (nth p Ls []) 0%Z.
Proof.
  induction Ls as [|L t IH]; intros p k Hp Hk; [cbn in Hp; lia|].
  destruct p as [|p]; cbn [firstn map concat nth].
  - cbn. rewrite app_nth1 by exact Hk. reflexivity.
  - change (ssum (length L :: map (@length Z) (firstn p t))) with (length L + ssum (map (@length Z) (firstn p t)))%nat.
    rewrite app_nth2 by lia.
    replace (length L + ssum (map (@length Z) (firstn p t)) + k - length L)%nat with (ssum (map (@length Z) (firstn p t)) + k)%nat by lia.
    apply IH; [cbn in Hp; lia|exact Hk].
Qed.

Lemma concat_length_var : forall (Ls : list (list Z)), length (concat Ls) = ssum (map (@length Z) Ls).
Proof. induction Ls as [|L t IH]; [reflexivity|]. cbn [concat map]. rewrite app_length, IH. reflexivity. Qed.

Lemma ssum_const : forall (A : Type) (l : list A) (g : A -> nat) c, (forall x, In x l -> g x = c) -> ssum (map g l) = (length l * c)%nat.
Proof.
  intros A l g c H. induction l as [|x t IH]; [reflexivity|].
  cbn [map length]. change (ssum (g x :: map g t)) with (g x + ssum (map g t))%nat.
  rewrite IH by (intros y Hy; apply H; right; exact Hy). rewrite (H x (or_introl eq_refl)). lia.
Qed.

(** where position r of a concatenation of blocks of sizes ss lies *)
Lemma locate : forall ss r, (r < ssum ss)%nat -> exists p k, (p < length ss)%nat /\ (k < nth p ss 0)%nat /\ r = (ssum (firstn p ss) + k)%nat.
Proof.
  induction ss as [|s t IH]; intros r Hr; [cbn in Hr; lia|].
  change (ssum (s :: t)) with (s + ssum t)%nat in Hr.
  destruct (lt_dec r s) as [Hlt|Hge].
  - exists 0%nat, r. cbn. repeat split; lia.
  - destruct (IH (r - s)%nat ltac:(lia)) as [p [k [Hp [Hk E]]]].
    exists (S p), k. cbn [length nth firstn]. change (ssum (s :: firstn p t)) with (s + ssum (firstn p t))%nat.
    repeat split; try lia.
Qed.

Lemma ssum_map_mul : forall n ss, ssum (map (Nat.mul n) ss) = (n * ssum ss)%nat.
Proof.
  induction ss as [|s t IH]; [cbn; lia|]. cbn [map]. change (ssum ((n * s)%nat :: map (Nat.mul n) t)) with (n * s + ssum (map (Nat.mul n) t))%nat.
  rewrite IH. change (ssum (s :: t)) with (s + ssum t)%nat. lia.
Qed.

Lemma firstn_map_comm : forall (A B : Type) (g : A -> B) n l, firstn n (map g l) = map g (firstn n l).
Proof. intros A B g n. induction n as [|n IH]; intros l; [reflexivity|]. destruct l; [reflexivity|]. cbn. f_equal. apply IH. Qed.

(** the address of byte k of the field in slot (off, s) of record I, in a buffer of n records of R bytes *)
Definition addrN (full : bool) (R n off s I k : nat) : nat := if full then (I * R + off + k)%nat else (n * off + I * s + k)%nat.

(** every position of an n-record buffer is such an address *)
Lemma addrN_onto : forall full ss n a, (a < n * ssum ss)%nat ->
  exists I p k, (I < n)%nat /\ (p < length ss)%nat /\ (k < nth p ss 0)%nat /\
                a = addrN full (ssum ss) n (ssum (firstn p ss)) (nth p ss 0) I k.
Proof.
  intros full ss n a Ha. destruct full; unfold addrN.
  - assert (HR : (0 < ssum ss)%nat) by (destruct (ssum ss); lia).
    destruct (locate ss (a mod ssum ss)) as [p [k [Hp [Hk E]]]]; [apply Nat.mod_upper_bound; lia|].
    exists (a / ssum ss)%nat, p, k. repeat split; try assumption.
    + apply Nat.div_lt_upper_bound; lia.
    + pose proof (Nat.div_mod a (ssum ss) ltac:(lia)). lia.
  - destruct (locate (map (Nat.mul n) ss) a) as [p [r [Hp [Hr E]]]]; [rewrite ssum_map_mul; exact Ha|].
    rewrite map_length in Hp.
    rewrite (nth_indep _ 0%nat (n * 0)%nat) in Hr by (rewrite map_length; exact Hp).
    rewrite (map_nth (Nat.mul n)) in Hr.
    rewrite firstn_map_comm, ssum_map_mul in E.
    assert (Hs : (0 < nth p ss 0)%nat) by (destruct (nth p ss 0%nat); lia).
    exists (r / nth p ss 0)%nat, p, (r mod nth p ss 0)%nat. repeat split; try assumption.
    + apply Nat.div_lt_upper_bound; lia.
    + apply Nat.mod_upper_bound; lia.
    + pose proof (Nat.div_mod r (nth p ss 0%nat) ltac:(lia)). lia.
Qed.
Local Open Scope Z_scope.

(* ------------------------------------------------------------------ *)
(** * S: the cells of what read_buf delivers *)
Local Open Scope nat_scope.

Lemma nth_map_in : forall (A B : Type) (g : A -> B) l i da db, i < length l -> nth i (map g l) db = g (nth i l da).
Proof. intros A B g l i da db H. rewrite (nth_indep _ db (g da)) by (rewrite map_length; exact H). apply map_nth. Qed.

Lemma in_firstn_in : forall (A : Type) n (l : list A) x, In x (firstn n l) -> In x l.
Proof. intros A n. induction n as [|n IH]; intros l x H; [destruct H|]. destruct l; [destruct H|]. destruct H as [->|H]; [left; reflexivity|right; apply IH; exact H]. Qed.

Lemma ssum_firstn_uniform : forall (Ls : list (list Z)) c I, (forall L, In L Ls -> length L = c) ->
  I <= length Ls -> ssum (map (@length Z) (firstn I Ls)) = I * c.
Proof.
  intros Ls c I H HI. rewrite (ssum_const _ (firstn I Ls) (@length Z) c).
  - rewrite firstn_length. rewrite Nat.min_l by exact HI. reflexivity.
  - intros x Hx. apply H. eapply in_firstn_in; eassumption.
Qed.

(** [T] : n records; [rl] : selected field indices; [ss] : their sizes; every selected value has its size *)
Definition shaped (T : table) (n : nat) (rl ss : list nat) : Prop :=
  length T = n /\ length ss = length rl /\
  forall I p, I < n -> p < length rl -> length (nth (nth p rl 0) (nth I T []) []) = nth p ss 0.

Lemma project_row : forall T rl I, I < length T -> nth I (project rl T) [] = map (fun j => nth j (nth I T []) []) rl.
Proof. intros T rl I H. unfold project. apply (nth_map_in _ _ (fun r => map (fun j => nth j r []) rl) T I [] []). exact H. Qed.

Lemma project_row_lengths : forall T n rl ss I, shaped T n rl ss -> I < n ->
  map (@length Z) (nth I (project rl T) []) = ss.
Proof.
  intros T n rl ss I [HT [Hl Hs]] HI. rewrite project_row by lia. rewrite map_map.
  apply (nth_ext _ _ 0 0); [rewrite map_length; lia|].
  intros p Hp. rewrite map_length in Hp.
  rewrite (nth_map_in _ _ (fun j => length (nth j (nth I T []) [])) rl p 0 0 Hp). apply Hs; assumption.
Qed.

Lemma read_buf_cell : forall full T n rl ss I p k, shaped T n rl ss -> I < n -> p < length rl -> k < nth p ss 0 ->
  nth (addrN full (ssum ss) n (ssum (firstn p ss)) (nth p ss 0) I k) (read_buf full rl T 0 n) 0%Z =
  nth k (nth (nth p rl 0) (nth I T []) []) 0%Z.
Proof.
  intros full T n rl ss I p k Hsh HI Hp Hk. pose proof Hsh as [HT [Hl Hs]].
  unfold read_buf, rows. cbn [skipn]. replace (firstn n T) with T by (rewrite <- HT; symmetry; apply firstn_all).
  assert (HPl : length (project rl T) = n) by (unfold project; rewrite map_length; exact HT).
  assert (Hval : nth p (nth I (project rl T) []) [] = nth (nth p rl 0) (nth I T []) []).
  { rewrite project_row by lia. apply (nth_map_in _ _ (fun j => nth j (nth I T []) []) rl p 0 []). exact Hp. }
  assert (Hrowlen : forall J, J < n -> length (concat (nth J (project rl T) [])) = ssum ss).
  { intros J HJ. rewrite concat_length_var. rewrite (project_row_lengths T n rl ss J Hsh HJ). reflexivity. }
  unfold layout, addrN. destruct full.
  - (* record after record *)
    assert (HB : forall L, In L (map (@concat Z) (project rl T)) -> length L = ssum ss).
    { intros L HL. apply in_map_iff in HL. destruct HL as [row [<- Hrow]].
      apply (In_nth _ _ []) in Hrow. destruct Hrow as [J [HJ <-]]. apply Hrowlen. rewrite <- HPl. exact HJ. }
    pose proof (nth_concat_var (map (@concat Z) (project rl T)) I (ssum (firstn p ss) + k)) as G.
    rewrite (ssum_firstn_uniform _ (ssum ss) I HB) in G by (rewrite map_length; lia).
    rewrite (nth_map_in _ _ (@concat Z) (project rl T) I [] []) in G by lia.
    assert (Hin : ssum (firstn p ss) + k < ssum ss).
    { rewrite <- (firstn_skipn p ss) at 2. rewrite ssum_app.
      assert (nth p ss 0 <= ssum (skipn p ss)).
      { clear - Hp Hl. revert p Hp. rewrite <- Hl. clear. induction ss as [|s t IH]; intros p Hp; [cbn in Hp; lia|].
        destruct p; cbn [skipn nth]; [change (ssum (s :: t)) with (s + ssum t); lia|apply IH; cbn in Hp; lia]. }
      lia. }
    replace (I * ssum ss + ssum (firstn p ss) + k) with (I * ssum ss + (ssum (firstn p ss) + k)) by lia.
    rewrite G by (try rewrite map_length; try rewrite Hrowlen; lia).
    pose proof (nth_concat_var (nth I (project rl T) []) p k) as G2.
    assert (Hrl : map (@length Z) (nth I (project rl T) []) = ss) by (apply (project_row_lengths T n rl ss I Hsh HI)).
    rewrite <- firstn_map_comm, Hrl in G2.
    assert (Hlenrow : length (nth I (project rl T) []) = length rl) by (rewrite project_row by lia; apply map_length).
    rewrite G2; [rewrite Hval; reflexivity|lia|].
    rewrite Hval. rewrite (Hs I p HI Hp). exact Hk.
  - (* field after field *)
    set (blocks := map (fun j => concat (map (fun r => nth j r []) (project rl T))) (seq 0 (length rl))).
    assert (Hblk : forall q, q < length rl -> nth q blocks [] = concat (map (fun r => nth q r []) (project rl T))).
    { intros q Hq. unfold blocks. rewrite (nth_map_in _ _ (fun j => concat (map (fun r => nth j r []) (project rl T))) (seq 0 (length rl)) q 0 [])
        by (rewrite seq_length; exact Hq). rewrite seq_nth by exact Hq. reflexivity. }
    assert (Hcol : forall q, q < length rl -> forall L, In L (map (fun r => nth q r []) (project rl T)) -> length L = nth q ss 0).
    { intros q Hq L HL. apply in_map_iff in HL. destruct HL as [row [<- Hrow]].
      apply (In_nth _ _ []) in Hrow. destruct Hrow as [J [HJ <-]]. rewrite HPl in HJ.
      rewrite project_row by lia. rewrite (nth_map_in _ _ (fun j => nth j (nth J T []) []) rl q 0 []) by exact Hq. apply Hs; assumption. }
    assert (Hblen : forall q, q < length rl -> length (nth q blocks []) = n * nth q ss 0).
    { intros q Hq. rewrite Hblk by exact Hq. rewrite concat_length_var.
      rewrite (ssum_const _ _ (@length Z) (nth q ss 0) (Hcol q Hq)). rewrite !map_length. lia. }
    assert (Hpre : ssum (map (@length Z) (firstn p blocks)) = n * ssum (firstn p ss)).
    { assert (E : map (@length Z) (firstn p blocks) = map (Nat.mul n) (firstn p ss)).
      { apply (nth_ext _ _ 0 0); [rewrite !map_length, !firstn_length; unfold blocks; rewrite map_length, seq_length; lia|].
        intros q Hq. rewrite map_length, firstn_length in Hq. unfold blocks in Hq. rewrite map_length, seq_length in Hq.
        rewrite (nth_map_in _ _ (@length Z) (firstn p blocks) q [] 0)
          by (rewrite firstn_length; unfold blocks; rewrite map_length, seq_length; lia).
        rewrite (nth_map_in _ _ (Nat.mul n) (firstn p ss) q 0 0) by (rewrite firstn_length; lia).
        rewrite !nth_firstn_lt by lia. apply Hblen. lia. }
      rewrite E. apply ssum_map_mul. }
    pose proof (nth_concat_var blocks p (I * nth p ss 0 + k)) as G.
    rewrite Hpre in G.
    replace (n * ssum (firstn p ss) + I * nth p ss 0 + k) with (n * ssum (firstn p ss) + (I * nth p ss 0 + k)) by lia.
    rewrite G; [|unfold blocks; rewrite map_length, seq_length; exact Hp|rewrite Hblen by exact Hp; nia].
    rewrite Hblk by exact Hp.
    pose proof (nth_concat_var (map (fun r => nth p r []) (project rl T)) I k) as G2.
    rewrite (ssum_firstn_uniform _ (nth p ss 0) I (Hcol p Hp)) in G2 by (rewrite map_length; lia).
    rewrite (nth_map_in _ _ (fun r => nth p r []) (project rl T) I [] []) in G2 by lia.
    rewrite G2; [rewrite Hval; reflexivity|rewrite map_length; lia|].
    rewrite Hval, (Hs I p HI Hp). exact Hk.
Qed.

Lemma read_buf_length : forall full T n rl ss, shaped T n rl ss -> length (read_buf full rl T 0 n) = n * ssum ss.
Proof.
  intros full T n rl ss Hsh. pose proof Hsh as [HT [Hl Hs]].
  unfold read_buf, rows. cbn [skipn]. replace (firstn n T) with T by (rewrite <- HT; symmetry; apply firstn_all).
  assert (HPl : length (project rl T) = n) by (unfold project; rewrite map_length; exact HT).
  unfold layout. destruct full.
  - rewrite concat_length_var, map_map.
    rewrite (ssum_const _ (project rl T) (fun x => length (concat x)) (ssum ss)); [lia|].
    intros row Hrow. apply (In_nth _ _ []) in Hrow. destruct Hrow as [J [HJ <-]].
    rewrite concat_length_var. rewrite (project_row_lengths T n rl ss J Hsh); [reflexivity|lia].
  - rewrite concat_length_var, map_map.
    assert (E : map (fun x => length (concat (map (fun r => nth x r []) (project rl T)))) (seq 0 (length rl)) = map (Nat.mul n) ss).
    { apply (nth_ext _ _ 0 0); [rewrite !map_length, seq_length; lia|].
      intros q Hq. rewrite map_length, seq_length in Hq.
      rewrite (nth_map_in _ _ (fun x => length (concat (map (fun r => nth x r []) (project rl T)))) (seq 0 (length rl)) q 0 0) by (rewrite seq_length; exact Hq).
      rewrite seq_nth by exact Hq. cbn [Nat.add].
      rewrite (nth_map_in _ _ (Nat.mul n) ss q 0 0) by lia.
      rewrite concat_length_var, map_map.
      rewrite (ssum_const _ (project rl T) (fun x => length (nth q x [])) (nth q ss 0)); [lia|].
      intros row Hrow. apply (In_nth _ _ []) in Hrow. destruct Hrow as [J [HJ <-]]. rewrite HPl in HJ.
      rewrite project_row by lia. rewrite (nth_map_in _ _ (fun j => nth j (nth J T []) []) rl q 0 []) by exact Hq. apply Hs; assumption. }
    rewrite E. apply ssum_map_mul.
Qed.
Local Open Scope Z_scope.

(* ------------------------------------------------------------------ *)
(** * Model addresses (Z) and specification addresses (nat) are the same *)

Definition szs_of (fl : list wfield) : list nat := map (fun f => Z.to_nat (w_esize f)) fl.
Definition rlN_of (rl : list Z) : list nat := map Z.to_nat rl.
Definition ss_of (fl : list wfield) (rl : list Z) : list nat := map (fun i => nth i (szs_of fl) 0%nat) (rlN_of rl).

Lemma saddr_addrN : forall fu R n off s I k j w b, j * w + b = Z.of_nat k ->
  saddr (mkside fu 0 (Z.of_nat R)) (Z.of_nat n) (Z.of_nat off) (Z.of_nat s) j w (Z.of_nat I) b = Z.of_nat (addrN fu R n off s I k).
Proof.
  intros fu R n off s I k j w b H. unfold saddr, sbase, sstride, addrN. cbn [sd_full sd_base sd_tot].
  destruct fu; rewrite !Nat2Z.inj_add, !Nat2Z.inj_mul; lia.
Qed.

Lemma esize_nonneg : forall f, fld_ok f -> 0 <= w_esize f.
Proof. intros f Hf. field_facts f Hf. nia. Qed.

Lemma ssum_szs : forall fl, Forall fld_ok fl -> Z.of_nat (ssum (szs_of fl)) = isum fl.
Proof.
  induction 1 as [|f t Hf Ht IH]; [reflexivity|].
  unfold szs_of in *. cbn [map]. change (ssum (Z.to_nat (w_esize f) :: map (fun f0 => Z.to_nat (w_esize f0)) t)) with
    (Z.to_nat (w_esize f) + ssum (map (fun f0 => Z.to_nat (w_esize f0)) t))%nat.
  rewrite Nat2Z.inj_add, IH, Z2Nat.id by (apply esize_nonneg; exact Hf).
  cbn [isum fold_right]. fold (isum t). field_facts f Hf. lia.
Qed.

Lemma nthf_nth : forall fl z f, nthf fl z = Some f -> 0 <= z /\ (Z.to_nat z < length fl)%nat /\ nth (Z.to_nat z) fl f = f.
Proof.
  intros fl z f H. unfold nthf in H. destruct (z <? 0) eqn:E; [discriminate|]. apply Z.ltb_ge in E.
  split; [exact E|]. split; [apply nth_error_Some; congruence|]. apply nth_error_nth. exact H.
Qed.

Lemma szs_nth : forall fl z f, nthf fl z = Some f -> nth (Z.to_nat z) (szs_of fl) 0%nat = Z.to_nat (w_esize f).
Proof.
  intros fl z f H. destruct (nthf_nth fl z f H) as [_ [Hlt Hn]]. unfold szs_of.
  rewrite (nth_indep _ 0%nat (Z.to_nat (w_esize f))) by (rewrite map_length; exact Hlt).
  rewrite (map_nth (fun f0 => Z.to_nat (w_esize f0))). rewrite Hn. reflexivity.
Qed.

(** the p-th selected field and its offset in the reader's record *)
Lemma roffs_at : forall rl fl uo p, Forall fld_ok fl -> rl_ok fl rl -> (p < length rl)%nat ->
  exists f, nthf fl (nth p rl 0) = Some f /\
            In (f, uo + Z.of_nat (ssum (firstn p (ss_of fl rl)))) (roffs fl rl uo) /\
            nth p (ss_of fl rl) 0%nat = Z.to_nat (w_esize f).
Proof.
  induction rl as [|i t IH]; intros fl uo p Hok Hrl Hp; [cbn in Hp; lia|].
  inversion Hrl as [|? ? [f0 Hf0] Ht]; subst.
  assert (Hfo : fld_ok f0) by (rewrite Forall_forall in Hok; apply Hok; eapply nthf_in; eassumption).
  destruct p as [|p].
  - exists f0. cbn [nth roffs firstn]. rewrite Hf0. split; [reflexivity|]. split.
    + left. f_equal. cbn. lia.
    + unfold ss_of, rlN_of. cbn [map nth]. apply szs_nth. exact Hf0.
  - destruct (IH fl (uo + w_esize f0) p Hok Ht ltac:(cbn in Hp; lia)) as [f [H1 [H2 H3]]].
    exists f. cbn [nth roffs]. rewrite Hf0. split; [exact H1|]. split.
    + right. unfold ss_of, rlN_of in *. cbn [map firstn].
      change (ssum (nth (Z.to_nat i) (szs_of fl) 0%nat :: firstn p (map (fun i0 => nth i0 (szs_of fl) 0%nat) (map Z.to_nat t))))
        with (nth (Z.to_nat i) (szs_of fl) 0%nat + ssum (firstn p (map (fun i0 => nth i0 (szs_of fl) 0%nat) (map Z.to_nat t))))%nat.
      rewrite (szs_nth fl i f0 Hf0), Nat2Z.inj_add, Z2Nat.id by (apply esize_nonneg; exact Hfo).
      replace (uo + (w_esize f0 + Z.of_nat (ssum (firstn p (map (fun i0 => nth i0 (szs_of fl) 0%nat) (map Z.to_nat t))))))
        with (uo + w_esize f0 + Z.of_nat (ssum (firstn p (map (fun i0 => nth i0 (szs_of fl) 0%nat) (map Z.to_nat t))))) by ring.
      exact H2.
    + unfold ss_of, rlN_of in *. cbn [map nth]. exact H3.
Qed.

Lemma ssum_ss : forall rl fl, Forall fld_ok fl -> rl_ok fl rl -> Z.of_nat (ssum (ss_of fl rl)) = rsum fl rl.
Proof.
  induction rl as [|i t IH]; intros fl Hok Hrl; [reflexivity|].
  inversion Hrl as [|? ? [f0 Hf0] Ht]; subst.
  assert (Hfo : fld_ok f0) by (rewrite Forall_forall in Hok; apply Hok; eapply nthf_in; eassumption).
  unfold ss_of, rlN_of in *. cbn [map rsum]. rewrite Hf0.
  change (ssum (nth (Z.to_nat i) (szs_of fl) 0%nat :: map (fun i0 => nth i0 (szs_of fl) 0%nat) (map Z.to_nat t)))
    with (nth (Z.to_nat i) (szs_of fl) 0%nat + ssum (map (fun i0 => nth i0 (szs_of fl) 0%nat) (map Z.to_nat t)))%nat.
  rewrite Nat2Z.inj_add, (IH fl Hok Ht), (szs_nth fl i f0 Hf0), Z2Nat.id by (apply esize_nonneg; exact Hfo). reflexivity.
Qed.

(** the i-th field of the schema and its offset in the writer's record *)
Lemma foffs_at : forall fl uo i d, Forall fld_ok fl -> (i < length fl)%nat ->
  In (nth i fl d, uo + Z.of_nat (ssum (firstn i (szs_of fl)))) (foffs uo fl).
Proof.
  induction fl as [|f0 t IH]; intros uo i d Hok Hi; [cbn in Hi; lia|].
  inversion Hok as [|? ? Hf0 Ht]; subst.
  destruct i as [|i].
  - left. cbn. f_equal. lia.
  - right. cbn [nth foffs]. unfold szs_of in *. cbn [map firstn].
    change (ssum (Z.to_nat (w_esize f0) :: firstn i (map (fun f => Z.to_nat (w_esize f)) t)))
      with (Z.to_nat (w_esize f0) + ssum (firstn i (map (fun f => Z.to_nat (w_esize f)) t)))%nat.
    rewrite Nat2Z.inj_add, Z2Nat.id by (apply esize_nonneg; exact Hf0).
    replace (uo + (w_esize f0 + Z.of_nat (ssum (firstn i (map (fun f => Z.to_nat (w_esize f)) t)))))
      with (uo + w_esize f0 + Z.of_nat (ssum (firstn i (map (fun f => Z.to_nat (w_esize f)) t)))) by ring.
    apply IH; [exact Ht|cbn in Hi; lia].
Qed.

(* ------------------------------------------------------------------ *)
(** * The table parsed from the writer's buffer is well shaped *)
Local Open Scope nat_scope.

Lemma prefix_le : forall ss i, i < length ss -> ssum (firstn i ss) + nth i ss 0 <= ssum ss.
Proof.
  induction ss as [|s t IH]; intros i Hi; [cbn in Hi; lia|].
  destruct i as [|i]; cbn [firstn nth].
  - change (ssum (s :: t)) with (s + ssum t). cbn. lia.
  - change (ssum (s :: firstn i t)) with (s + ssum (firstn i t)). change (ssum (s :: t)) with (s + ssum t).
    specialize (IH i ltac:(cbn in Hi; lia)). lia.
Qed.

Lemma slice_length : forall (l : list Z) off len, off + len <= length l -> length (slice l off len) = len.
Proof. intros l off len H. unfold slice. rewrite firstn_length, skipn_length. lia. Qed.

Lemma parse_shaped : forall full szs n buf rlN,
  length buf = n * ssum szs -> Forall (fun i => i < length szs) rlN ->
  shaped (parse full szs n buf) n rlN (map (fun i => nth i szs 0) rlN).
Proof.
  intros full szs n buf rlN Hlen Hrl. split; [unfold parse; rewrite map_length, seq_length; reflexivity|].
  split; [apply map_length|].
  intros I p HI Hp.
  rewrite (nth_map_in _ _ (fun i => nth i szs 0) rlN p 0 0 Hp).
  assert (Hi : nth p rlN 0 < length szs) by (rewrite Forall_forall in Hrl; apply Hrl; apply nth_In; exact Hp).
  set (i := nth p rlN 0) in *.
  unfold parse.
  rewrite (nth_map_in _ _ (fun i0 => map (fun os => slice buf (if full then i0 * ssum szs + fst os else n * fst os + i0 * snd os) (snd os))
                                       (combine (offs_from 0 szs) szs)) (seq 0 n) I 0 []) by (rewrite seq_length; exact HI).
  rewrite seq_nth by exact HI. cbn [Nat.add].
  assert (Hc : length (combine (offs_from 0 szs) szs) = length szs) by (rewrite combine_length, offs_from_length; lia).
  rewrite (nth_map_in _ _ (fun os => slice buf (if full then I * ssum szs + fst os else n * fst os + I * snd os) (snd os))
                      (combine (offs_from 0 szs) szs) i (0, 0) []) by (rewrite Hc; exact Hi).
  rewrite combine_nth by apply offs_from_length. cbn [fst snd]. rewrite offs_from_nth by exact Hi. cbn [Nat.add].
  pose proof (prefix_le szs i Hi) as Hpre.
  apply slice_length. rewrite Hlen. destruct full; nia.
Qed.
Local Open Scope Z_scope.

(* ------------------------------------------------------------------ *)
(** * Read after write, as an equality of lists with the specification *)

Lemma vsread_out_length : forall w rl fil ur nelt vtb data v l out,
  m_vsread w rl fil ur nelt vtb data = Some (v, l, out) -> length out = Z.to_nat (user_size w rl nelt).
Proof.
  intros w rl fil ur nelt vtb data v l out H. unfold m_vsread in H.
  destruct ((nelt <=? 0) || match wl_fields w with [] => true | _ :: _ => false end
            || negb ((ur =? NO_INTERLACE) || (ur =? FULL_INTERLACE))); [discriminate|].
  destruct (m_vsread_mem w rl fil ur nelt vtb data (fun _ : Z => 238) (user_size w rl nelt)); [|discriminate].
  inversion H; subst. apply mem_slice_length.
Qed.

Lemma user_size_multi : forall w rl nelt, (2 <= length (wl_fields w))%nat -> rl_ok (wl_fields w) rl ->
  user_size w rl nelt = nelt * rsum (wl_fields w) rl.
Proof.
  intros w rl nelt H2 Hrl. unfold user_size.
  destruct (wl_fields w) as [|f1 [|f2 t]]; cbn [length] in H2; try lia. rewrite (uvsize_of_rsum _ rl Hrl). reflexivity.
Qed.

Lemma cell_split : forall k w s, 1 <= w -> (k < Z.to_nat s)%nat -> s = (s / w) * w ->
  0 <= Z.of_nat k / w < s / w /\ 0 <= Z.of_nat k mod w < w /\ (Z.of_nat k / w) * w + Z.of_nat k mod w = Z.of_nat k.
Proof.
  intros k w s Hw Hk Hs.
  pose proof (Z.div_mod (Z.of_nat k) w ltac:(lia)). pose proof (Z.mod_pos_bound (Z.of_nat k) w ltac:(lia)).
  assert (0 <= Z.of_nat k / w) by (apply Z.div_pos; lia).
  assert (Z.of_nat k < s) by lia.
  repeat split; try lia. apply Z.div_lt_upper_bound; lia.
Qed.

Lemma vsread_after_vswrite_lists_lemma : forall w rl fil uw ur nelt vtbW pos nv ubuf r vtbR vtbR' lens out,
  Forall fld_ok (wl_fields w) -> offs_ok 0 (wl_fields w) -> wl_ivsize w = isum (wl_fields w) ->
  (2 <= length (wl_fields w))%nat -> rl_ok (wl_fields w) rl ->
  (fil = 0 \/ fil = 1) -> (uw = 0 \/ uw = 1) -> (ur = 0 \/ ur = 1) -> 0 < nelt ->
  Z.of_nat (length ubuf) = nelt * isum (wl_fields w) ->
  m_vswrite w fil uw nelt vtbW pos nv ubuf = Some r ->
  m_vsread w rl fil ur nelt vtbR (concat (wr_chunks r)) = Some (vtbR', lens, out) ->
  out = read_buf (ur =? FULL_INTERLACE) (rlN_of rl)
                 (parse (uw =? FULL_INTERLACE) (szs_of (wl_fields w)) (Z.to_nat nelt) ubuf) 0 (Z.to_nat nelt).
Proof.
  intros w rl fil uw ur nelt vtbW pos nv ubuf r vtbR vtbR' lens out Hok Hoff Hiv H2 Hrl Hfil Huw Hur Hn Hlen Hw Hr.
  set (fl := wl_fields w) in *. set (n := Z.to_nat nelt).
  assert (Hnn : nelt = Z.of_nat n) by (unfold n; lia).
  pose proof (ssum_szs fl Hok) as Hszs. pose proof (ssum_ss rl fl Hok Hrl) as Hss.
  assert (HrlN : Forall (fun i => (i < length (szs_of fl))%nat) (rlN_of rl)).
  { unfold rlN_of, szs_of. rewrite map_length. apply Forall_forall. intros i Hi. apply in_map_iff in Hi.
    destruct Hi as [z [<- Hz]]. unfold rl_ok in Hrl. rewrite Forall_forall in Hrl. destruct (Hrl z Hz) as [f Hf].
    apply (nthf_nth fl z f Hf). }
  assert (Hbl : length ubuf = (n * ssum (szs_of fl))%nat).
  { apply Nat2Z.inj. rewrite Hlen, Nat2Z.inj_mul, Hszs, Hnn. reflexivity. }
  pose proof (parse_shaped (uw =? FULL_INTERLACE) (szs_of fl) n ubuf (rlN_of rl) Hbl HrlN) as Hsh.
  fold (ss_of fl rl) in Hsh.
  assert (Hol : length out = (n * ssum (ss_of fl rl))%nat).
  { rewrite (vsread_out_length _ _ _ _ _ _ _ _ _ _ Hr), (user_size_multi w rl nelt H2 Hrl). fold fl.
    apply Nat2Z.inj. rewrite Nat2Z.inj_mul, Hss, Z2Nat.id by (pose proof (rsum_nonneg fl rl Hok); nia). rewrite Hnn. reflexivity. }
  apply (nth_ext _ _ 0 0); [rewrite Hol; symmetry; apply read_buf_length; exact Hsh|].
  intros a Ha. rewrite Hol in Ha.
  destruct (addrN_onto (ur =? FULL_INTERLACE) (ss_of fl rl) n a Ha) as [I [p [k [HI [Hp [Hk Ea]]]]]].
  assert (Hpl : (p < length rl)%nat) by (unfold ss_of, rlN_of in Hp; rewrite !map_length in Hp; exact Hp).
  rewrite Ea.
  rewrite (read_buf_cell _ _ n (rlN_of rl) (ss_of fl rl) I p k Hsh HI ltac:(unfold rlN_of; rewrite map_length; exact Hpl) Hk).
  (* the p-th selected field *)
  destruct (roffs_at rl fl 0 p Hok Hrl Hpl) as [f [Hf [Hin Hsz]]].
  destruct (nthf_nth fl _ f Hf) as [Hz0 [Hilt Hnth]].
  assert (Hfo : fld_ok f) by (rewrite Forall_forall in Hok; apply Hok; eapply nthf_in; eassumption). field_facts f Hfo.
  assert (Ei : nth p (rlN_of rl) 0%nat = Z.to_nat (nth p rl 0)).
  { unfold rlN_of. rewrite (nth_indep _ 0%nat (Z.to_nat 0)) by (rewrite map_length; exact Hpl). apply map_nth. }
  rewrite Ei. set (i := Z.to_nat (nth p rl 0)) in *.
  assert (Hsi : nth i (szs_of fl) 0%nat = Z.to_nat (w_esize f)) by (apply szs_nth; exact Hf).
  rewrite Hsz in Hk.
  rewrite (spec_parse_cell (uw =? FULL_INTERLACE) (szs_of fl) n ubuf I i k HI ltac:(unfold szs_of; rewrite map_length; exact Hilt) ltac:(rewrite Hsi; exact Hk)).
  (* model side *)
  assert (Hs' : w_esize f = (w_esize f / fw f) * fw f) by (rewrite He, Z.div_mul by lia; reflexivity).
  destruct (cell_split k (fw f) (w_esize f) Hw1 Hk Hs') as [Hj [Hb Hjb]].
  replace (w_esize f / fw f) with (w_order f) in Hj by (rewrite He, Z.div_mul by lia; reflexivity).
  pose proof (foffs_at fl 0 i f Hok Hilt) as Hfe. rewrite Hnth in Hfe.
  pose proof (vsread_after_vswrite_lemma w rl fil uw ur nelt vtbW pos nv ubuf r vtbR vtbR' lens out Hok Hoff Hiv H2 Hrl Hfil Huw Hur Hn Hlen Hw Hr
                f _ _ Hfe Hin (Z.of_nat k / fw f) (Z.of_nat I) (Z.of_nat k mod fw f) Hj ltac:(lia) Hb) as Hcell.
  fold fl in Hcell. unfold buf_side in Hcell. rewrite !Z.add_0_l in Hcell.
  rewrite <- Hss, <- Hszs, Hnn in Hcell.
  rewrite <- (Z2Nat.id (w_esize f)) in Hcell by (apply esize_nonneg; exact Hfo).
  rewrite (saddr_addrN _ _ _ _ _ _ k _ _ _ Hjb), (saddr_addrN _ _ _ _ _ _ k _ _ _ Hjb), !Nat2Z.id in Hcell.
  rewrite Hsz. rewrite Hcell. unfold addrN. rewrite Hsi. destruct (uw =? FULL_INTERLACE); reflexivity.
Qed.

(* ------------------------------------------------------------------ *)
(** * VSfexist agrees with VSsetfields; VSfdefine stores a complete definition *)

Lemma fexist_one_find : forall nm fl, fexist_one nm fl = match find_idx nm (map w_name fl) 0 with Some _ => true | None => false end.
Proof.
  intros nm fl. induction fl as [|f t IH]; [reflexivity|].
  unfold fexist_one in *. cbn [existsb map find_idx]. destruct (VSModel.name_eqb nm (w_name f)); [reflexivity|].
  cbn [orb]. rewrite (find_idx_shift nm (map w_name t) (0 + 1)). rewrite IH. destruct (find_idx nm (map w_name t) 0); reflexivity.
Qed.

Lemma fexist_loop_setfields : forall fl names,
  fexist_loop fl names = match setfields_r_loop (map w_name fl) names with Some _ => true | None => false end.
Proof.
  intros fl names. induction names as [|nm rest IH]; [reflexivity|].
  cbn [fexist_loop setfields_r_loop]. rewrite fexist_one_find.
  destruct (find_idx nm (map w_name fl) 0); [|reflexivity].
  rewrite IH. destruct (setfields_r_loop (map w_name fl) rest); reflexivity.
Qed.

(** VSfexist(fields) answers "all exist" exactly when VSsetfields(fields) accepts the list for reading: every name counts *)
Lemma vsfexist_iff_setfields_lemma : forall fl names,
  m_vsfexist fl names = match m_setfields_r (map w_name fl) names with Some _ => true | None => false end.
Proof.
  intros fl names. unfold m_vsfexist, m_setfields_r. destruct names as [|n0 rest]; [reflexivity|].
  destruct (VSFIELDMAX <? Z.of_nat (length (n0 :: rest))); [reflexivity|]. apply fexist_loop_setfields.
Qed.

Lemma vsfexist_all_names_lemma : forall fl names, m_vsfexist fl names = true ->
  forall nm, In nm names -> exists f, In f fl /\ VSModel.name_eqb (VSModel.cut_name nm) (w_name f) = true.
Proof.
  intros fl names H nm Hin. unfold m_vsfexist in H. destruct names as [|n0 rest]; [discriminate|].
  destruct (VSFIELDMAX <? Z.of_nat (length (n0 :: rest))); [discriminate|].
  assert (G : forall l, fexist_loop fl l = true -> forall x, In x l -> fexist_one x fl = true).
  { induction l as [|y t IH]; intros Hl x Hx; [destruct Hx|]. cbn [fexist_loop] in Hl.
    destruct (fexist_one y fl) eqn:E; [|discriminate]. destruct Hx as [<-|Hx]; [exact E|apply IH; assumption]. }
  specialize (G _ H (VSModel.cut_name nm) (in_map _ _ _ Hin)).
  unfold fexist_one in G. apply existsb_exists in G. exact G.
Qed.

(** after VSfdefine the symbol table holds, under that name, exactly the new definition: type, order AND stored size *)
Lemma put_sym_find : forall s usym, VSModel.name_eqb (s_name s) (s_name s) = true -> find_sym (s_name s) (put_sym s usym) = Some s.
Proof.
  intros s usym Hrefl. induction usym as [|g t IH]; cbn [put_sym find_sym].
  - rewrite Hrefl. reflexivity.
  - destruct (VSModel.name_eqb (s_name s) (s_name g)) eqn:E; cbn [find_sym]; [rewrite Hrefl; reflexivity|rewrite E; exact IH].
Qed.

Lemma name_eqb_refl : forall a, VSModel.name_eqb a a = true.
Proof. induction a as [|x t IH]; [reflexivity|]. cbn. rewrite Z.eqb_refl, IH. reflexivity. Qed.

Lemma fdefine_stores_definition_lemma : forall usym name t order usym',
  m_fdefine usym name t order = Some usym' ->
  exists sz, dfkntsize t = Some sz /\
    find_sym (VSModel.cut_name name) usym' = Some (mksym (VSModel.cut_name name) (s16 t) (u16 (s16 sz)) (u16 order)).
Proof.
  intros usym name t order usym' H. unfold m_fdefine in H.
  destruct (existsb (Z.eqb 44) name || match name with [] => true | _ :: _ => false end); [discriminate|].
  destruct ((order <? 1) || (MAX_ORDER <? order)); [discriminate|].
  destruct (dfkntsize t) as [sz|]; [|discriminate].
  destruct (MAX_FIELD_SIZE <? s16 sz * order); [discriminate|].
  inversion H; subst. exists sz. split; [reflexivity|].
  apply (put_sym_find (mksym (VSModel.cut_name name) (s16 t) (u16 (s16 sz)) (u16 order))). apply name_eqb_refl.
Qed.
