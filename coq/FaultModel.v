(** C16 -- implementation model M: error flow of the L1 write / flush / close path over a device with a FAULT ORACLE.

    Definitions only (total, computable); proofs are in FaultProofs.v.

    * The device is a stream of calls; the oracle (a [list bool], consumed one element per device call, exhausted =
      no more faults) says which call fails.  This is exactly the interposer of harness/drive_fault.c.
    * Functions of the library are terms of a small language [prog]: device calls through the HI_ wrapper macros,
      calls of other functions, sequencing, branching on the (abstract) file record, bounded loops.  Every call
      node says what the C code does with the callee's result: [Io]/[Call] = checked (failure leaves the function
      with FAIL at once: `if (X(..) == FAIL) HGOTO_ERROR`), [CallLate] = remembered and reported after the clean-up
      (`close_failed = TRUE`), [IoDrop]/[CallDrop] = dropped.
    * [sites] projects a program onto the list of its call sites with their classification; FaultProofs.v proves
      that this projection of every modelled function equals the table gen/plugins/fault_sites.py extracts from the
      current C source (coq/gen/Gen_Faults.v). *)
From Coq Require Import ZArith List Bool String.
Import ListNotations.
Require Import H4.gen.Gen_Faults.
Local Open Scope string_scope.
Local Open Scope list_scope.
Local Open Scope Z_scope.

Inductive dev := DOpen | DRead | DWrite | DSeek | DTell | DFlush | DClose | DAny.

(** the wrapper through which the C code reaches the device call *)
Definition macro_of (d : dev) : string :=
  match d with
  | DOpen => "HI_OPEN" | DRead => "HI_READ" | DWrite => "HI_WRITE" | DSeek => "HI_SEEK"
  | DTell => "HI_TELL" | DFlush => "HI_FLUSH" | DClose => "fclose" | DAny => "?"
  end%string.

Definition oracle := list bool.
Definition next (o : oracle) : bool * oracle :=
  match o with [] => (false, []) | b :: o' => (b, o') end.

Inductive res := ROk | RErr.
Definition event := (dev * bool)%type.          (* device call, did it fail *)
Definition clean (tr : list event) : bool := forallb (fun e => negb (snd e)) tr.

(** the value a C function returns: SUCCEED iff it ran to its end and no late failure was recorded *)
Definition fn_ok (r : res) (late : bool) : bool := match r with ROk => negb late | RErr => false end.

Section Lang.
  Variable St : Type.

  Inductive prog :=
  | Skip
  | Fail                                    (* leave with FAIL for a reason that is not an I/O failure *)
  | Upd (f : St -> St)
  | Io (d : dev) (onfail : St -> St)        (* checked device call; [onfail] = what the failure branch does to the record *)
  | IoDrop (d : dev)                        (* device call, result unused *)
  | Call (name : string) (p : prog)         (* checked call *)
  | CallLate (name : string) (p : prog)     (* result remembered, reported at the end *)
  | CallDrop (name : string) (p : prog)     (* result unused or only logged *)
  | Seq (p q : prog)
  | If (c : St -> bool) (p q : prog)
  | Loop (n : St -> nat) (p : prog)         (* body run n(state) times, stops at the first failure *)
  | Havoc (n : St -> nat)                   (* a callee outside the model: n checked device calls *)
  | OnFail (p c : prog)                     (* `done: if (ret_value == FAIL) { c }`: clean-up whose results are unused *)
  | CallElse (name : string) (p : prog) (name2 : string) (q : prog) (onret : St -> St).
      (* `if (p() fails) return q();`  -- when q succeeds the function returns success; [onret] marks the record
         so that the rest of the function is skipped *)

  Definition outcome := (res * bool * St * oracle * list event)%type.

  Fixpoint iter (body : St -> oracle -> outcome) (k : nat) (st : St) (o : oracle) : outcome :=
    match k with
    | O => (ROk, false, st, o, [])
    | S k' =>
      let '(r, l, st1, o1, t1) := body st o in
      match r with
      | RErr => (RErr, l, st1, o1, t1)
      | ROk => let '(r2, l2, st2, o2, t2) := iter body k' st1 o1 in (r2, l || l2, st2, o2, t1 ++ t2)
      end
    end.

  Definition io_checked (d : dev) (onfail : St -> St) (st : St) (o : oracle) : outcome :=
    let '(b, o') := next o in
    if b then (RErr, false, onfail st, o', [(d, true)]) else (ROk, false, st, o', [(d, false)]).

  Fixpoint exec (p : prog) (st : St) (o : oracle) : outcome :=
    match p with
    | Skip => (ROk, false, st, o, [])
    | Fail => (RErr, false, st, o, [])
    | Upd f => (ROk, false, f st, o, [])
    | Io d onfail => io_checked d onfail st o
    | IoDrop d => let '(b, o') := next o in (ROk, false, st, o', [(d, b)])
    | Call _ q => let '(r, l, st1, o1, t1) := exec q st o in
                  ((if fn_ok r l then ROk else RErr), false, st1, o1, t1)
    | CallLate _ q => let '(r, l, st1, o1, t1) := exec q st o in (ROk, negb (fn_ok r l), st1, o1, t1)
    | CallDrop _ q => let '(r, l, st1, o1, t1) := exec q st o in (ROk, false, st1, o1, t1)
    | Seq a b =>
      let '(r, l, st1, o1, t1) := exec a st o in
      match r with
      | RErr => (RErr, l, st1, o1, t1)
      | ROk => let '(r2, l2, st2, o2, t2) := exec b st1 o1 in (r2, l || l2, st2, o2, t1 ++ t2)
      end
    | If c a b => if c st then exec a st o else exec b st o
    | Loop n q => iter (exec q) (n st) st o
    | Havoc n => iter (io_checked DAny (fun s => s)) (n st) st o
    | OnFail a c =>
      let '(r, l, st1, o1, t1) := exec a st o in
      match r with
      | ROk => (ROk, l, st1, o1, t1)
      | RErr => let '(_, _, st2, o2, t2) := exec c st1 o1 in (RErr, l, st2, o2, t1 ++ t2)
      end
    | CallElse _ a _ b onret =>
      let '(r, l, st1, o1, t1) := exec a st o in
      if fn_ok r l then (ROk, false, st1, o1, t1)
      else let '(r2, l2, st2, o2, t2) := exec b st1 o1 in
           ((if fn_ok r2 l2 then ROk else RErr), false, (if fn_ok r2 l2 then onret st2 else st2), o2, t1 ++ t2)
    end.

  (** a whole function: (returned SUCCEED?, record afterwards, rest of the oracle, device trace) *)
  Definition run_fn (p : prog) (st : St) (o : oracle) : bool * St * oracle * list event :=
    let '(r, l, st1, o1, t1) := exec p st o in (fn_ok r l, st1, o1, t1).

  (** a workload: API calls one after the other (a failing call does not stop the program) *)
  Fixpoint run_hist (ps : list prog) (st : St) (o : oracle) : list bool * St * oracle * list event :=
    match ps with
    | [] => ([], st, o, [])
    | p :: ps' =>
      let '(ok, st1, o1, t1) := run_fn p st o in
      let '(oks, st2, o2, t2) := run_hist ps' st1 o1 in (ok :: oks, st2, o2, t1 ++ t2)
    end.

  (** no call site, at any depth, drops a result *)
  Fixpoint no_dropped (p : prog) : bool :=
    match p with
    | IoDrop _ | CallDrop _ _ | CallElse _ _ _ _ _ => false
    | Call _ q | CallLate _ q | Loop _ q | OnFail q _ => no_dropped q
    | Seq a b | If _ a b => no_dropped a && no_dropped b
    | _ => true
    end.

  (** the call sites of the function itself (not of its callees), in source order *)
  Fixpoint sites (p : prog) : list (string * cls) :=
    match p with
    | Io d _ => [(macro_of d, Checked)]
    | IoDrop d => [(macro_of d, Dropped)]
    | Call n _ => [(n, Checked)]
    | CallLate n _ => [(n, Late)]
    | CallDrop n _ => [(n, Dropped)]
    | Seq a b | If _ a b => sites a ++ sites b
    | Loop _ q => sites q
    | OnFail a c => sites a ++ map (fun s => (fst s, OnFailPath)) (sites c)
    | CallElse n _ m _ _ => [(n, Diverted); (m, Checked)]
    | _ => []
    end.
End Lang.

Arguments Skip {St}.
Arguments Fail {St}.
Arguments Upd {St}.
Arguments Io {St}.
Arguments IoDrop {St}.
Arguments Call {St}.
Arguments CallLate {St}.
Arguments CallDrop {St}.
Arguments Seq {St}.
Arguments If {St}.
Arguments Loop {St}.
Arguments Havoc {St}.
Arguments OnFail {St}.
Arguments CallElse {St}.

(** the generated table distinguishes "returned as the function's own result" from "checked"; both leave the
    function with the failure value *)
Definition norm_cls (c : cls) : cls := match c with Returned => Checked | c' => c' end.
Definition norm_sites (l : list (string * cls)) : list (string * cls) := map (fun s => (fst s, norm_cls (snd s))) l.

(* ------------------------------------------------------------------------------------------------------------ *)
(** * The L1 file record (hfile_priv.h filerec_t), reduced to what steers the I/O of the close path *)

Inductive lastop := OpUnknown | OpSeek | OpRead | OpWrite.        (* H4_OP_xxx *)
Record blk := { b_off : Z; b_dirty : bool; b_ndds : Z }.         (* ddblock_t: myoffset, dirty, ndds *)

Record frec := {
  cur_off   : Z;        (* f_cur_off *)
  last_op   : lastop;
  end_off   : Z;        (* f_end_off *)
  cache     : bool;
  dirty_dd  : bool;     (* dirty & DDLIST_DIRTY *)
  dirty_end : bool;     (* dirty & FILE_END_DIRTY *)
  blocks    : list blk; (* ddhead ... *)
  cursor    : nat;      (* loop variable of HTPsync *)
  refcount  : Z;
  attach    : Z;
  vmod      : bool;     (* version.modified *)
  vcalls    : nat;      (* device calls made by HIupdate_version's Hputelement (outside this model) *)
  file_open : bool;     (* file_rec->file != NULL *)
  writable  : bool;     (* file_rec->access & DFACC_WRITE *)
  own_aid   : bool;     (* an access record started through this very file id is still attached *)
  nb_published : bool;  (* HTInew_dd_block: the new block has been linked into the in-memory list *)
  nb_freed     : bool   (* HTInew_dd_block: the new block has been freed by the error clean-up *)
}.

Definition set_pos (s : frec) (off : Z) (op : lastop) : frec :=
  {| cur_off := off; last_op := op; end_off := end_off s; cache := cache s; dirty_dd := dirty_dd s;
     dirty_end := dirty_end s; blocks := blocks s; cursor := cursor s; refcount := refcount s; attach := attach s;
     vmod := vmod s; vcalls := vcalls s; file_open := file_open s;
     writable := writable s; own_aid := own_aid s;
     nb_published := nb_published s; nb_freed := nb_freed s |}.
Definition set_dirty (s : frec) (dd de : bool) : frec :=
  {| cur_off := cur_off s; last_op := last_op s; end_off := end_off s; cache := cache s; dirty_dd := dd;
     dirty_end := de; blocks := blocks s; cursor := cursor s; refcount := refcount s; attach := attach s;
     vmod := vmod s; vcalls := vcalls s; file_open := file_open s;
     writable := writable s; own_aid := own_aid s;
     nb_published := nb_published s; nb_freed := nb_freed s |}.
Definition set_blocks (s : frec) (bs : list blk) (c : nat) : frec :=
  {| cur_off := cur_off s; last_op := last_op s; end_off := end_off s; cache := cache s; dirty_dd := dirty_dd s;
     dirty_end := dirty_end s; blocks := bs; cursor := c; refcount := refcount s; attach := attach s;
     vmod := vmod s; vcalls := vcalls s; file_open := file_open s;
     writable := writable s; own_aid := own_aid s;
     nb_published := nb_published s; nb_freed := nb_freed s |}.
Definition set_ref (s : frec) (r : Z) : frec :=
  {| cur_off := cur_off s; last_op := last_op s; end_off := end_off s; cache := cache s; dirty_dd := dirty_dd s;
     dirty_end := dirty_end s; blocks := blocks s; cursor := cursor s; refcount := r; attach := attach s;
     vmod := vmod s; vcalls := vcalls s; file_open := file_open s;
     writable := writable s; own_aid := own_aid s;
     nb_published := nb_published s; nb_freed := nb_freed s |}.
Definition set_vmod (s : frec) (v : bool) : frec :=
  {| cur_off := cur_off s; last_op := last_op s; end_off := end_off s; cache := cache s; dirty_dd := dirty_dd s;
     dirty_end := dirty_end s; blocks := blocks s; cursor := cursor s; refcount := refcount s; attach := attach s;
     vmod := v; vcalls := vcalls s; file_open := file_open s;
     writable := writable s; own_aid := own_aid s;
     nb_published := nb_published s; nb_freed := nb_freed s |}.
Definition set_open (s : frec) (b : bool) : frec :=
  {| cur_off := cur_off s; last_op := last_op s; end_off := end_off s; cache := cache s; dirty_dd := dirty_dd s;
     dirty_end := dirty_end s; blocks := blocks s; cursor := cursor s; refcount := refcount s; attach := attach s;
     vmod := vmod s; vcalls := vcalls s; file_open := b;
     writable := writable s; own_aid := own_aid s;
     nb_published := nb_published s; nb_freed := nb_freed s |}.

Definition lastop_eqb (a b : lastop) : bool :=
  match a, b with
  | OpUnknown, OpUnknown | OpSeek, OpSeek | OpRead, OpRead | OpWrite, OpWrite => true
  | _, _ => false
  end.

Definition cur_blk (s : frec) : blk := nth (cursor s) (blocks s) {| b_off := 0; b_dirty := false; b_ndds := 0 |}.
Definition clear_cur_dirty (s : frec) : frec :=
  set_blocks s
    (firstn (cursor s) (blocks s) ++
     match skipn (cursor s) (blocks s) with
     | [] => []
     | b :: r => {| b_off := b_off b; b_dirty := false; b_ndds := b_ndds b |} :: r
     end) (cursor s).

Definition P := prog frec.
Definition id_st (s : frec) : frec := s.

(** HPseek (hfile.c): the seek is skipped when the cached position is right and the last operation is known *)
Definition HPseek_prog (off : frec -> Z) : P :=
  If (fun s => negb (Z.eqb (cur_off s) (off s)) || lastop_eqb (last_op s) OpUnknown)
     (Seq (Io DSeek id_st) (Upd (fun s => set_pos s (off s) OpSeek)))
     Skip.

(** HP_write (hfile.c): a seek is forced when switching from reading, or when the position is unknown *)
Definition HP_write_prog (n : frec -> Z) : P :=
  Seq (If (fun s => lastop_eqb (last_op s) OpRead || lastop_eqb (last_op s) OpUnknown)
          (Seq (Upd (fun s => set_pos s (cur_off s) OpUnknown)) (Call "HPseek" (HPseek_prog cur_off)))
          Skip)
      (Seq (Io DWrite id_st) (Upd (fun s => set_pos s (cur_off s + n s) OpWrite))).

(** HP_read (hfile.c, after the fix that forgets the position when the read fails) *)
Definition HP_read_prog (n : frec -> Z) : P :=
  Seq (If (fun s => lastop_eqb (last_op s) OpWrite || lastop_eqb (last_op s) OpUnknown)
          (Seq (Upd (fun s => set_pos s (cur_off s) OpUnknown)) (Call "HPseek" (HPseek_prog cur_off)))
          Skip)
      (Seq (Io DRead (fun s => set_pos s (cur_off s) OpUnknown)) (Upd (fun s => set_pos s (cur_off s + n s) OpRead))).

(** hi_close_stdio (hfile.c, fixed): the stream is forgotten whether or not fclose fails *)
Definition hi_close_prog : P := Seq (Io DClose (fun s => set_open s false)) (Upd (fun s => set_open s false)).

(** HIextend_file *)
Definition HIextend_file_prog : P :=
  Seq (Call "HPseek" (HPseek_prog end_off)) (Call "HP_write" (HP_write_prog (fun _ => 1))).

(** HTPsync (hfiledd.c): every dirty DD block: seek, header, DD list *)
Definition HTPsync_prog : P :=
  Seq (If (fun s => match blocks s with [] => true | _ => false end) Fail Skip)
 (Seq (Upd (fun s => set_blocks s (blocks s) 0))
      (Loop (fun s => List.length (blocks s))
         (Seq (If (fun s => b_dirty (cur_blk s))
                  (Seq (Call "HPseek" (HPseek_prog (fun s => b_off (cur_blk s))))
                  (Seq (Call "HP_write" (HP_write_prog (fun _ => NDDS_SZ + OFFSET_SZ)))
                  (Seq (Call "HP_write" (HP_write_prog (fun s => b_ndds (cur_blk s) * DD_SZ)))
                       (Upd clear_cur_dirty))))
                  Skip)
              (Upd (fun s => set_blocks s (blocks s) (S (cursor s))))))).

(** HIsync (hfile.c) *)
Definition HIsync_prog : P :=
  If (fun s => cache s && (dirty_dd s || dirty_end s))
     (Seq (If dirty_dd (Call "HTPsync" HTPsync_prog) Skip)
     (Seq (If dirty_end (Call "HIextend_file" HIextend_file_prog) Skip)
          (Upd (fun s => set_dirty s false false))))
     Skip.

(** HTPend (hfiledd.c) *)
Definition HTPend_prog : P := Seq (Call "HTPsync" HTPsync_prog) (Upd (fun s => set_blocks s [] 0)).

(** HIrelease_filerec_node (hfile.c): closes the file if it is still open; that result is not used *)
Definition Release_prog : P := If file_open (CallDrop "HI_CLOSE" hi_close_prog) Skip.

(** HIupdate_version: Hputelement of the version element; its interior is outside this model *)
Definition HIupdate_version_prog : P :=
  Seq (Call "Hputelement" (Havoc vcalls)) (Upd (fun s => set_vmod s false)).

(** Hclose (hfile.c) after the fix: commits: the version write is checked, the close error is reported late *)
Definition Hclose_tail : P :=
  Seq (CallLate "HI_CLOSE" hi_close_prog)
 (Seq (Call "HTPend" HTPend_prog)
      (Call "HIrelease_filerec_node" Release_prog)).

Definition Hclose_prog : P :=
  Seq (If (fun s => Z.eqb (refcount s) 0) Fail Skip)                                     (* BADFREC *)
 (Seq (If (fun s => Z.ltb 1 (refcount s) && Z.ltb 0 (attach s) && own_aid s) Fail Skip) (* aids of this file id *)
 (Seq (If (fun s => Z.ltb 0 (refcount s) && vmod s && writable s) (Call "HIupdate_version" HIupdate_version_prog) Skip)
 (Seq (Upd (fun s => set_ref s (refcount s - 1)))
      (If (fun s => Z.eqb (refcount s) 0)
          (Seq (If (fun s => Z.ltb 0 (attach s)) (Seq (Upd (fun s => set_ref s (refcount s + 1))) Fail) Skip)
          (Seq (Call "HIsync" HIsync_prog) Hclose_tail))
          Skip)))).

(** Hclose as it was before the fixes (DESIGN.md section 8 #10): both results dropped, and a failed fclose left the
    stream pointer set (hi_close_stdio returned before clearing it) so that HIrelease_filerec_node closed it again *)
Definition hi_close_prog_orig : P := Seq (Io DClose id_st) (Upd (fun s => set_open s false)).
Definition Release_prog_orig : P := If file_open (CallDrop "HI_CLOSE" hi_close_prog_orig) Skip.
Definition Hclose_prog_orig : P :=
  Seq (If (fun s => Z.eqb (refcount s) 0) Fail Skip)
 (Seq (If (fun s => Z.ltb 0 (refcount s) && vmod s) (CallDrop "HIupdate_version" HIupdate_version_prog) Skip)
 (Seq (Upd (fun s => set_ref s (refcount s - 1)))
      (If (fun s => Z.eqb (refcount s) 0)
          (Seq (If (fun s => Z.ltb 0 (attach s)) (Seq (Upd (fun s => set_ref s (refcount s + 1))) Fail) Skip)
          (Seq (Call "HIsync" HIsync_prog)
          (Seq (CallDrop "HI_CLOSE" hi_close_prog_orig)
          (Seq (Call "HTPend" HTPend_prog)
               (Call "HIrelease_filerec_node" Release_prog_orig)))))
          Skip))).

(** Hsync *)
Definition Hsync_prog : P := Seq (If (fun s => Z.eqb (refcount s) 0) Fail Skip) (Call "HIsync" HIsync_prog).

(** ---- DD-block growth and descriptor update (hfile.c HPgetdiskblock, hfiledd.c HTIupdate_dd / HTInew_dd_block) ---- *)
Definition set_end (s : frec) (e : Z) : frec :=
  {| cur_off := cur_off s; last_op := last_op s; end_off := e; cache := cache s; dirty_dd := dirty_dd s;
     dirty_end := dirty_end s; blocks := blocks s; cursor := cursor s; refcount := refcount s; attach := attach s;
     vmod := vmod s; vcalls := vcalls s; file_open := file_open s; writable := writable s; own_aid := own_aid s;
     nb_published := nb_published s; nb_freed := nb_freed s |}.
Definition set_nb (s : frec) (pub fr : bool) : frec :=
  {| cur_off := cur_off s; last_op := last_op s; end_off := end_off s; cache := cache s; dirty_dd := dirty_dd s;
     dirty_end := dirty_end s; blocks := blocks s; cursor := cursor s; refcount := refcount s; attach := attach s;
     vmod := vmod s; vcalls := vcalls s; file_open := file_open s; writable := writable s; own_aid := own_aid s;
     nb_published := pub; nb_freed := fr |}.

(** HPgetdiskblock: reserve [size] bytes at the end of the file; written through only when not caching *)
Definition HPgetdiskblock_prog (size : frec -> Z) (moveto : bool) : P :=
  Seq (If (fun s => Z.ltb (size s) 0) Fail Skip)
 (Seq (If (fun s => Z.ltb 0 (size s))
          (If cache (Upd (fun s => set_dirty s (dirty_dd s) true))
                    (Seq (Call "HPseek" (HPseek_prog (fun s => end_off s + size s - 1)))
                         (Call "HP_write" (HP_write_prog (fun _ => 1)))))
          Skip)
 (Seq (if moveto then Call "HPseek" (HPseek_prog end_off) else Skip)
      (Upd (fun s => set_end s (end_off s + size s))))).

(** HTIupdate_dd: one descriptor, written through only when not caching *)
Definition HTIupdate_dd_prog (off : frec -> Z) : P :=
  If cache (Upd (fun s => set_dirty s true (dirty_end s)))
           (Seq (Call "HPseek" (HPseek_prog off)) (Call "HP_write" (HP_write_prog (fun _ => DD_SZ)))).

(** HTInew_dd_block: room at the end of the file, header, NIL descriptors, THEN the block is linked into the
    in-memory list, and finally (not caching) the previous block's link field in the file is updated.  The error
    clean-up at `done:` is regenerated from the source: does it free the block? *)
Definition nb_size (s : frec) : Z := NDDS_SZ + OFFSET_SZ + b_ndds (nth 0 (blocks s) {| b_off := 0; b_dirty := false; b_ndds := 0 |}) * DD_SZ.
Definition last_blk (s : frec) : blk := last (blocks s) {| b_off := 0; b_dirty := false; b_ndds := 0 |}.
Definition publish_block (s : frec) : frec :=
  let nb := {| b_off := end_off s - nb_size s; b_dirty := cache s; b_ndds := b_ndds (nth 0 (blocks s) (last_blk s)) |} in
  let old := if cache s
             then removelast (blocks s) ++ [ {| b_off := b_off (last_blk s); b_dirty := true; b_ndds := b_ndds (last_blk s) |} ]
             else blocks s in
  set_nb (set_blocks (set_dirty s (dirty_dd s || cache s) (dirty_end s)) (old ++ [nb]) (cursor s)) true (nb_freed s).
Definition link_field_off (s : frec) : Z :=      (* link field of the block that was last before the new one *)
  b_off (nth (Nat.pred (Nat.pred (List.length (blocks s)))) (blocks s) (last_blk s)) + NDDS_SZ.

Definition HTInew_dd_block_prog : P :=
  OnFail
    (Seq (Call "HPgetdiskblock" (HPgetdiskblock_prog nb_size true))
    (Seq (If cache (Upd (fun s => set_dirty s true (dirty_end s))) Skip)
    (Seq (Call "HP_write" (HP_write_prog (fun _ => NDDS_SZ + OFFSET_SZ)))
    (Seq (Call "HP_write" (HP_write_prog (fun s => nb_size s - (NDDS_SZ + OFFSET_SZ))))
    (Seq (Upd publish_block)
    (Seq (If cache Skip
             (Seq (Call "HPseek" (HPseek_prog link_field_off)) (Call "HP_write" (HP_write_prog (fun _ => OFFSET_SZ)))))
         (Upd (fun s => set_end s (b_off (last_blk s) + nb_size s)))))))))
    (if fact_HTInew_dd_block_cleanup_frees_block then Upd (fun s => set_nb s (nb_published s) true) else Skip).

(** the hazard of that clean-up: a block that is reachable from the list has been freed *)
Definition nb_dangling (s : frec) : bool := nb_published s && nb_freed s.

(** Hopen's branch for a file that is already open read-only and is now opened with write access (round 4): the
    file record -- shared with the other file ids -- must keep a stream whatever fails.  The order of the two steps
    is regenerated from the source. *)
Definition Hopen_reopen_prog : P :=
  Seq (Call "HIsync" HIsync_prog)
      (if fact_Hopen_reopen_opens_new_stream_before_closing_old
       then Seq (Io DOpen id_st)                                      (* new stream first; failure: nothing changed *)
           (Seq (Io DClose (fun s => set_open (set_pos s 0 OpUnknown) true))   (* old stream gone either way: install the new one *)
                (Upd (fun s => set_open (set_pos s 0 OpUnknown) true)))
       else Seq (Io DClose (fun s => set_open s false))
           (Seq (Upd (fun s => set_open s false))
           (Seq (Io DOpen id_st) (Upd (fun s => set_open (set_pos s 0 OpUnknown) true))))).

(** a fault plan as the harness issues it: call k fails (single), or call k and every later one (sticky) *)
Definition plan (k : nat) (sticky : bool) (horizon : nat) : oracle :=
  repeat false k ++ (if sticky then repeat true horizon else [true]).

(* ------------------------------------------------------------------------------------------------------------ *)
(** * The anchored functions above L1 (vgp.c, vio.c, hchunks.c, mcache.c, cdf.c, file.c, mfsd.c, HPread_drec)

    Their data-dependent control flow is resolved by an environment of CHOICES: every `if` on library data takes its
    branch from a stream of booleans, every loop its trip count from a stream of numbers, every callee outside the
    model (Hputelement, Vend, VSwrite ...) makes a number of checked device calls taken from a third stream and may
    then also fail for a reason that is no I/O failure.  The theorems quantify over all environments, hence over
    every resolution of the branches.  Two facts persist across a function: netCDF define mode (NC_INDEF) and
    "the function has already returned" (early `return ncabort(..)` in ncclose). *)

Record genv := {
  choices  : list bool;
  trips    : list nat;
  counts   : list nat;
  cur      : nat;        (* trip count of the loop being entered *)
  indef    : bool;       (* handle->flags & NC_INDEF *)
  decode   : bool;       (* xdrs->x_op == XDR_DECODE (reading the structure in; not part of the close path) *)
  returned : bool
}.
Definition pop_choice (s : genv) : genv :=
  {| choices := tl (choices s); trips := trips s; counts := counts s; cur := cur s; indef := indef s;
     decode := decode s; returned := returned s |}.
Definition pop_count (s : genv) : genv :=
  {| choices := choices s; trips := trips s; counts := tl (counts s); cur := cur s; indef := indef s;
     decode := decode s; returned := returned s |}.
Definition pop_trip (s : genv) : genv :=
  {| choices := choices s; trips := tl (trips s); counts := counts s; cur := hd O (trips s); indef := indef s;
     decode := decode s; returned := returned s |}.
Definition set_returned (s : genv) : genv :=
  {| choices := choices s; trips := trips s; counts := counts s; cur := cur s; indef := indef s;
     decode := decode s; returned := true |}.

Definition G := prog genv.
(** a branch on library data *)
Definition Nd (a b : G) : G := If (fun s => hd false (choices s)) (Seq (Upd pop_choice) a) (Seq (Upd pop_choice) b).
(** a check that is no I/O (argument validation, malloc, table look-up): may leave with FAIL *)
Definition MayFail : G := Nd Fail Skip.
(** a loop over library data *)
Definition LoopN (body : G) : G := Seq (Upd pop_trip) (Loop cur body).
(** a callee outside the model *)
Definition ext_body : G := Seq (Havoc (fun s => hd O (counts s))) (Seq (Upd pop_count) MayFail).
Definition Ext (n : string) : G := Call n ext_body.
Definition ExtLate (n : string) : G := CallLate n ext_body.

(** HPread_drec (hfile.c) *)
Definition HPread_drec_prog : G :=
  OnFail (Seq MayFail (Seq (Ext "Hstartaccess") (Seq (Ext "Hread") (Ext "Hendaccess"))))
         (Nd (CallDrop "Hendaccess" ext_body) Skip).

(** Vdetach (vgp.c, fixed: the vgroup write is reported late) *)
Definition Vdetach_prog : G :=
  Seq MayFail
      (Nd (Seq MayFail (Seq (Nd (Nd (Ext "HDreuse_tagref") MayFail) Skip) (ExtLate "Hputelement"))) Skip).

(** VSdetach (vio.c) *)
Definition VSdetach_prog : G :=
  Seq MayFail
      (Nd (Nd (Ext "Hendaccess") Skip)
          (Seq MayFail
          (Seq (Nd (Seq MayFail (Seq (Nd (Nd (Ext "HDreuse_tagref") MayFail) Skip) (Ext "Hputelement"))) Skip)
               (Ext "Hendaccess")))).

(** mcache_sync (mcache.c) *)
Definition mcache_sync_prog : G := Seq MayFail (LoopN (Nd (Ext "mcache_write") Skip)).

(** HMCPcloseAID (hchunks.c, fixed: the cache flush is reported late) *)
Definition HMCPcloseAID_prog : G :=
  Seq MayFail
      (Nd (Seq (Nd (CallLate "mcache_sync" mcache_sync_prog) Skip)
          (Seq (Nd (Call "VSdetach" VSdetach_prog) Fail) (Ext "Vend")))
          Skip).

(** HMCPendaccess (hchunks.c) *)
Definition HMCPendaccess_prog : G :=
  Seq MayFail (Seq (CallLate "HMCPcloseAID" HMCPcloseAID_prog) (Ext "HTPendaccess")).

(** NC_free_cdf (cdf.c); Hclose is the L1 model above, here through its proved interface *)
Definition NC_free_cdf_prog : G :=
  Nd (Seq (Ext "NC_free_xcdf") (Nd (Seq (Ext "Vend") (Ext "Hclose")) Skip)) Skip.

(** hdf_close (cdf.c) *)
Definition hdf_close_prog : G :=
  Seq (Nd (LoopN (Nd (Ext "Hendaccess") Skip)) Skip)
      (Nd (Seq (Ext "Vattach")
          (Seq (LoopN
                 (Nd (Seq (Ext "Vattach")
                     (Seq MayFail
                     (Seq (Nd (LoopN
                                 (Nd (Seq (Ext "VSattach")
                                     (Seq MayFail
                                     (Seq (Nd (Seq MayFail (Seq (Ext "VSseek") (Ext "VSwrite"))) Skip)
                                          (Call "VSdetach" VSdetach_prog))))
                                     Skip))
                              Skip)
                          (Call "Vdetach" Vdetach_prog))))
                     Skip))
               (Call "Vdetach" Vdetach_prog)))
          Skip).

(** hdf_xdr_cdf (cdf.c): XDR_ENCODE and XDR_FREE; XDR_DECODE (SDstart) is outside the close path *)
Definition hdf_xdr_cdf_prog : G :=
  If decode Skip
     (Nd (Seq (Nd (Ext "hdf_cdf_clobber") Skip) (Ext "hdf_write_xdr_cdf"))
         (Nd (CallLate "NC_free_cdf" NC_free_cdf_prog) Fail)).

(** xdr_cdf (cdf.c): HDF files; the netCDF / CDF branches are other libraries' formats *)
Definition xdr_cdf_prog : G := Nd (CallLate "hdf_xdr_cdf" hdf_xdr_cdf_prog) MayFail.

(** ncclose (file.c, fixed: hdf_close and NC_free_cdf are reported late) *)
Definition ncclose_prog : G :=
  Seq MayFail
 (Seq (If indef
          (CallElse "NC_endef" ext_body "ncabort" ext_body set_returned)
          (Nd (Nd (Call "xdr_cdf" xdr_cdf_prog) (Nd (Ext "xdr_numrecs") Skip)) Skip))
      (If returned Skip
          (Seq (Nd (CallLate "hdf_close" hdf_close_prog) Skip)
          (Seq (CallLate "NC_free_cdf" NC_free_cdf_prog) MayFail)))).

(** SDend (mfsd.c) *)
Definition SDend_prog : G :=
  Seq MayFail
 (Seq (Nd (Nd (Call "xdr_cdf" xdr_cdf_prog) (Nd (Ext "xdr_numrecs") Skip)) Skip)
      (Call "ncclose" ncclose_prog)).

(** SDendaccess (mfsd.c) *)
Definition SDendaccess_prog : G := Seq MayFail (Ext "SDIfreevarAID").
