(** C04 -- Storage layout and tuning knobs never change the data an application sees.
    Property theorems only; each is closed by [exact] of a lemma from ChunkProofs.v / MCacheProofs.v.
    M = ChunkModel.v (hchunks.c index arithmetic) and MCacheModel.v (mcache.c), both over gen/Gen_Chunk.v, which is
    regenerated from the C sources on every run. *)
From Coq Require Import ZArith List Bool String Lia.
Require Import H4.gen.Gen_Chunk H4.ChunkModel H4.MCacheModel H4.HChunkModel H4.ChunkProofs H4.MCacheProofs H4.HChunkProofs H4.ExtEltModel H4.ExtEltProofs H4.HAidModel H4.HAidProofs H4.ChunkTabModel H4.ChunkTabProofs H4.FillModel H4.FillProofs.
Import ListNotations.
Local Open Scope Z_scope.

(** chunk_locate_inj.  For every rank, every extent and every chunk List.length >= 1 (dividing the extent or not, longer
    than it or not -- [valid_dim] is what HMCcreate computes, see [mk_dim_is_valid]), with the element stream fitting
    int32: element position |-> (chunk number, byte offset in chunk), as update_chunk_indices_seek +
    calculate_chunk_num + calculate_seek_in_chunk compute it, is injective on [0,total) and lands inside the chunk
    table and inside the chunk, element-aligned. *)
Theorem chunk_locate_inj : forall nt dd p q,
  1 <= nt -> Forall valid_dim dd -> prod (map d_len dd) * nt < 2147483648 ->
  0 <= p < prod (map d_len dd) -> 0 <= q < prod (map d_len dd) ->
  (chunk_locate nt dd (p * nt) = chunk_locate nt dd (q * nt) -> p = q) /\
  (let cn := fst (chunk_locate nt dd (p * nt)) in let off := snd (chunk_locate nt dd (p * nt)) in
   0 <= cn < prod (map n_chunks dd) /\ 0 <= off /\ off + nt <= prod (map c_len dd) * nt /\ (nt | off)).
Proof. exact chunk_locate_inj_lemma. Qed.
Print Assumptions chunk_locate_inj.

Theorem mk_dim_is_valid : forall d c, 1 <= d -> 1 <= c -> valid_dim (mk_dim d c).
Proof. exact mk_dim_valid. Qed.
Print Assumptions mk_dim_is_valid.

(** chunk_run_contig.  The byte count calculate_chunk_for_chunk returns for a transfer of r elements starting at
    element e is k*nt with k = min(r, elements left in the current chunk row, elements left in the array row): all k
    elements lie in the same chunk at consecutive offsets (so one memcpy moves them), and k is the longest such run
    (at e+k the chunk row or the array row ends, by the closed form of [row_left]). *)
Theorem chunk_run_contig : forall nt dd e r,
  1 <= nt -> dd <> [] -> Forall valid_dim dd -> prod (map d_len dd) * nt < 2147483648 ->
  0 <= e -> 1 <= r -> e + r <= prod (map d_len dd) ->
  let k := Z.min r (row_left (rev dd) e) in
  chunk_piece nt dd (e * nt) (r * nt) = k * nt /\ 1 <= k <= r /\
  forall j, 0 <= j < k ->
    chunk_locate nt dd ((e + j) * nt) =
    (fst (chunk_locate nt dd (e * nt)), snd (chunk_locate nt dd (e * nt)) + j * nt).
Proof. exact chunk_run_contig_lemma. Qed.
Print Assumptions chunk_run_contig.

(** mcache_refines_map.  For every cache size (maxcache, any value; 0 means the default 1), every page count and
    every sequence of balanced accesses get / modify / put(dirty or clean), syncs and maxcache changes -- a clean put
    must not have modified the page, as in HMCPread -- starting from mcache_open: every get returns exactly what the
    finite map "puts applied directly" holds, the cache overlaid on the backing store equals that map, and after
    mcache_sync the backing store alone equals it. *)
Theorem mcache_refines_map : forall maxc np (s0 : fstore) os,
  0 <= np -> cops_ok np s0 os ->
  exists mp s outs, run (mcache_open maxc np, s0) os = Some (mp, s, outs) /\
    outs = snd (map_run s0 os) /\
    (forall n, view mp s n = fst (map_run s0 os) n) /\
    exists mp' s', mcache_sync fstore fs_out mp s = Some (mp', s') /\ forall n, s' n = fst (map_run s0 os) n.
Proof. exact mcache_refines_map_lemma. Qed.
Print Assumptions mcache_refines_map.

(** chunked_refines_stream.  The transfer loops of hchunks.c composed with the cache refine the byte stream of S2:
    for every rank, extent and chunk shape ([geometry_ok]), every cache state reachable from mcache_open over a store
    of full-size pages ([st_ok]: the mcache invariant + page lengths), HMCPwrite (locate, piece length, mcache_get,
    memcpy, mcache_put DIRTY, advance -- [hmcp_write]) overwrites exactly the bytes [e*nt,(e+r)*nt) of the stream the
    application sees through cache + chunk table, HMCPread ([hmcp_read]) returns exactly those bytes and changes
    nothing, whatever the cache size; and pages that repeat the fill element (what HMCPchunkread produces for an
    absent chunk) read as the fill value.  Fuel only bounds the loop count; the theorem shows it is never exhausted
    (result is [Some]). *)
Theorem chunked_refines_stream : forall nt dd, geometry_ok nt dd ->
  (forall maxc s0, pages_ok nt dd s0 -> st_ok nt dd (mcache_open maxc (npg dd), s0)) /\
  (forall fuel data st e r,
     st_ok nt dd st -> 0 <= e -> Z.of_nat (List.length data) = r * nt -> e + r <= total dd -> (List.length data <= fuel)%nat ->
     exists st', hmcp_write nt dd fuel st (e * nt) data = Some st' /\ st_ok nt dd st' /\
       forall q, 0 <= q < total dd * nt ->
         stream_of nt dd (view (fst st') (snd st')) q =
         if (e * nt <=? q) && (q <? e * nt + r * nt) then znth data (q - e * nt)
         else stream_of nt dd (view (fst st) (snd st)) q) /\
  (forall fuel st e r,
     st_ok nt dd st -> 0 <= e -> 0 <= r -> e + r <= total dd -> (Z.to_nat r <= fuel)%nat ->
     exists st' out, hmcp_read nt dd fuel st (e * nt) (r * nt) = Some (st', out) /\ st_ok nt dd st' /\
       (forall n, view (fst st') (snd st') n = view (fst st) (snd st) n) /\
       Z.of_nat (List.length out) = r * nt /\
       forall i, 0 <= i < r * nt -> znth out i = stream_of nt dd (view (fst st) (snd st)) (e * nt + i)) /\
  (forall (v : Z -> page) (fe : list Z),
     (forall cn off b, 0 <= cn < npg dd -> 0 <= off -> off + nt <= csize nt dd -> (nt | off) -> 0 <= b < nt ->
        znth (v cn) (off + b) = znth fe b) ->
     forall q, 0 <= q < total dd * nt -> stream_of nt dd v q = znth fe (q mod nt)).
Proof. exact chunked_refines_stream_lemma2. Qed.
Print Assumptions chunked_refines_stream.

(** whole_chunk_is_slab.  Whole-chunk I/O addresses the hyperslab of the same region: for every chunk origin o and
    every chunk-relative coordinate r inside the extent, the element at array coordinates o*chunk_length + r (its
    stream position computed by compute_array_to_seek, the code's own linearisation) is located in chunk
    calculate_chunk_num(o) at calculate_seek_in_chunk(r); hence the buffer HMCreadChunk returns holds at r's position
    the very stream bytes a slab read of that region returns, and after HMCwriteChunk a slab read of the region returns
    the buffer's in-extent bytes while every byte of every other chunk keeps its value -- through the cache, for every
    cache size. *)
Theorem whole_chunk_is_slab : forall nt dd, geometry_ok nt dd ->
  forall o, List.length o = List.length dd -> Forall origin_ok (combine o dd) ->
  (forall r, List.length r = List.length dd -> Forall region_ok (combine (combine o r) dd) ->
     chunk_locate nt dd (compute_array_to_seek nt (region_coords dd o r) dd) =
     (calculate_chunk_num o dd, calculate_seek_in_chunk nt r dd)) /\
  (forall st, st_ok nt dd st ->
     exists st' buf, hmc_readchunk dd st o = Some (st', buf) /\ st_ok nt dd st' /\
       (forall n, view (fst st') (snd st') n = view (fst st) (snd st) n) /\
       forall r b, List.length r = List.length dd -> Forall region_ok (combine (combine o r) dd) -> 0 <= b < nt ->
         znth buf (calculate_seek_in_chunk nt r dd + b) =
         stream_of nt dd (view (fst st) (snd st)) (compute_array_to_seek nt (region_coords dd o r) dd + b)) /\
  (forall st data, st_ok nt dd st -> Z.of_nat (List.length data) = csize nt dd ->
     exists st', hmc_writechunk dd st o data = Some st' /\ st_ok nt dd st' /\
       (forall r b, List.length r = List.length dd -> Forall region_ok (combine (combine o r) dd) -> 0 <= b < nt ->
          stream_of nt dd (view (fst st') (snd st')) (compute_array_to_seek nt (region_coords dd o r) dd + b) =
          znth data (calculate_seek_in_chunk nt r dd + b)) /\
       (forall q, fst (chunk_locate nt dd (q / nt * nt)) <> calculate_chunk_num o dd ->
          stream_of nt dd (view (fst st') (snd st')) q = stream_of nt dd (view (fst st) (snd st)) q)).
Proof. exact whole_chunk_is_slab_lemma. Qed.
Print Assumptions whole_chunk_is_slab.

(** external_refines_stream.  External elements (hextelt.c HXPwrite/HXPread; position update, growth test and new
    length regenerated from the source): element byte q is file byte extern_offset + q; a write of [data] at position
    posn makes the element's length max(old length, posn + len) -- it never shrinks, whatever the offset --, changes
    exactly the element bytes [posn, posn+len) and leaves the foreign bytes in front of the element alone; a read
    inside the element returns exactly its bytes. *)
Theorem external_refines_stream :
  (forall x f data, 0 <= x_posn x -> 0 <= x_offset x ->
     let x' := fst (hxp_write x f data) in let f' := snd (hxp_write x f data) in
     let len := Z.of_nat (List.length data) in
     x_length x' = Z.max (x_length x) (x_posn x + len) /\ x_posn x' = x_posn x + len /\ x_offset x' = x_offset x /\
     (forall q, 0 <= q ->
        f' (x_offset x + q) = if (x_posn x <=? q) && (q <? x_posn x + len) then nth (Z.to_nat (q - x_posn x)) data 0
                             else f (x_offset x + q)) /\
     (forall k, k < x_offset x -> f' k = f k)) /\
  (forall x f len, 0 <= x_posn x -> 1 <= len -> x_posn x + len <= x_length x ->
     exists x' out, hxp_read x f len = Some (x', out) /\ x_posn x' = x_posn x + len /\ x_length x' = x_length x /\
       Z.of_nat (List.length out) = len /\
       forall i, 0 <= i < len -> nth (Z.to_nat i) out 0 = f (x_offset x + (x_posn x + i))).
Proof. exact (conj hxp_write_refines hxp_read_refines). Qed.
Print Assumptions external_refines_stream.

(** the call skeletons the hand-written loop models rely on: HMCPseek/HMCPread/HMCPwrite bring the shared chunk
    indices up to date from the access record's own position before they use them (the indices are shared by all access
    ids of the element), the whole-chunk routines compute the chunk number from the origin, the external routines seek to
    posn + extern_offset, and GRsetexternalfile/SDsetexternalfile hand (offset, length) to HXcreate in that order *)
Theorem call_skeletons_as_modelled :
  HMCPread_q_calls <> [] /\ hd ""%string HMCPread_q_calls =
    "update_chunk_indices_seek(access_rec->posn, info->ndims, info->nt_size, info->seek_chunk_indices, info->seek_pos_chunk, info->ddims)"%string /\
  hd ""%string HMCPwrite_q_calls = hd ""%string HMCPread_q_calls /\
  GRsetexternalfile_q_calls =
    ["HXcreate(ri_ptr->gr_ptr->hdf_file_id, ri_ptr->img_tag, ri_ptr->img_ref, filename, offset, 0)"%string] /\
  hd ""%string HXPwrite_q_calls = "fseek((info->file_external), (long)(access_rec->posn + info->extern_offset), 0)"%string /\
  hd ""%string HXPread_q_calls = hd ""%string HXPwrite_q_calls.
Proof.
  destruct call_skeletons as (_ & R & W & _ & _ & G & _ & XW & XR). rewrite R, W, G, XW, XR. repeat split; discriminate.
Qed.
Print Assumptions call_skeletons_as_modelled.

(** access_ids_see_stream.  Several access ids attached to one chunked element at the same time (the chunk indices,
    the chunk table and the cache are shared by all of them, only the position is per access id; HAidModel.v): for
    EVERY interleaved history of Hseek / Hread / Hwrite over any number of access ids, inside the element, every read
    returns exactly the bytes of the one byte stream at that access id's OWN position, every write overwrites exactly
    those, positions advance per access id -- i.e. the run equals the run of the specification "one stream, one
    position per id" ([sp_run]), for every geometry, cache size and initial page map, and whatever the shared indices
    [ix0] held before.  This is what recomputing the indices from access_rec->posn at the start of HMCPread/HMCPwrite
    (pinned by call_skeletons_as_modelled) buys; see [stale_shared_indices_are_wrong] for the model without it. *)
Theorem access_ids_see_stream : forall nt dd, geometry_ok nt dd ->
  forall maxc (s0 : fstore) ix0 naids os,
    pages_ok nt dd s0 ->
    aops_ok nt (total dd) (stream_of nt dd s0) (repeat 0 naids) os ->
    exists x', aop_run nt dd true (mkae (mcache_open maxc (npg dd), s0) ix0 (repeat 0 naids)) os =
               Some (x', snd (sp_run nt (stream_of nt dd s0) (repeat 0 naids) os)) /\
      forall q, 0 <= q < total dd * nt ->
        stream_of nt dd (view (fst (ae_st x')) (snd (ae_st x'))) q =
        fst (fst (sp_run nt (stream_of nt dd s0) (repeat 0 naids) os)) q.
Proof. exact aid_refines_stream_lemma. Qed.
Print Assumptions access_ids_see_stream.

(** chunk_table_implements_store.  The backing store the cache model works on is implemented by the chunk table
    (TBBT of chunk records + HMCPchunkread/HMCPchunkwrite; tag tests, new tag and fill count regenerated from the
    source): on every well-formed table page-in never fails and is the store's read -- the fill page for a chunk
    without record or with a record never written (DFTAG_NULL) --, and page-out of a chunk whose record was created
    first, as HMCPwrite/HMCwriteChunk do before asking the cache for the page (tbbtdfind/tbbtdins pinned in
    [call_skeletons]), succeeds, keeps the table well-formed and is the store's write: exactly that chunk changes.
    The fill page built by HDmemfill repeats the fill element, which is the hypothesis of the last clause of
    [chunked_refines_stream]: unwritten chunks read as the fill value. *)
Theorem chunk_table_implements_store : forall fillpg t n pg, tab_wf t ->
  fs_in (tab_store fillpg t) n = ct_pagein fillpg t n /\
  exists t', ct_pageout (ct_ensure t n) n pg = Some t' /\ tab_wf t' /\
    forall k, fs_out (tab_store fillpg t) n pg = Some (fun j => if j =? n then pg else tab_store fillpg t j) /\
              tab_store fillpg t' k = (fun j => if j =? n then pg else tab_store fillpg t j) k.
Proof. exact chunk_table_implements_store_lemma. Qed.
Print Assumptions chunk_table_implements_store.

Theorem unwritten_chunks_are_fill : forall fillpg t n, tab_wf t ->
  ct_pagein fillpg t n = Some (tab_store fillpg t n) /\
  (find_rec t n = None -> tab_store fillpg t n = fillpg) /\
  (forall r, find_rec t n = Some r -> cr_tag r = DFTAG_NULL -> tab_store fillpg t n = fillpg) /\
  (forall r, find_rec t n = Some r -> cr_tag r = DFTAG_CHUNK -> tab_store fillpg t n = cr_page r).
Proof. exact pagein_total. Qed.
Print Assumptions unwritten_chunks_are_fill.

Theorem fill_page_is_fill_value : forall chunk_size nt (fe : list Z) off b,
  1 <= nt -> Z.of_nat (List.length fe) = nt -> 0 <= chunk_size ->
  0 <= off -> off + nt <= chunk_size * nt -> (nt | off) -> 0 <= b < nt ->
  nth (Z.to_nat (off + b)) (fill_page chunk_size nt fe) 0 = nth (Z.to_nat b) fe 0.
Proof. exact fill_page_repeats. Qed.
Print Assumptions fill_page_is_fill_value.

(** first_write_fill.  What the contiguous (and the compressed, laid-down-whole) layout does on the first write
    into a new element and the chunked layout never needs: (1) a run of n fill bytes is written completely, in pieces of
    1..MAX_SIZE bytes, by the piece loop of hdf_xdr_NCvdata (statement texts and their order pinned; the leading and
    the trailing site use the same test "fill mode on, or compressed element" and the same loop); (2) in GRwriteimage
    the fill in front of a strided selection, the selection's span and the fill behind it tile the image row. *)
Theorem first_write_fill :
  (forall fuel n, 1 <= n -> n <= Z.of_nat fuel * Z.min n MAX_SIZE ->
     zsum (fill_run fuel n) = n /\ Forall (fun p => 1 <= p <= MAX_SIZE) (fill_run fuel n)) /\
  (nth 2 hdf_xdr_NCvdata_q_stmts ""%string = nth 8 hdf_xdr_NCvdata_q_stmts ""%string /\
   firstn 4 (skipn 4 hdf_xdr_NCvdata_q_stmts) = firstn 4 (skipn 10 hdf_xdr_NCvdata_q_stmts)) /\
  (forall psize xdim sx cx tx, 0 <= psize -> 0 <= sx -> 1 <= cx -> 1 <= tx -> sx + (cx - 1) * tx < xdim ->
     gr_fill_lo psize sx + gr_span psize cx tx + gr_fill_hi psize xdim sx cx tx = psize * xdim /\
     0 <= gr_fill_lo psize sx /\ 0 <= gr_fill_hi psize xdim sx cx tx) /\
  nth 2 GRwriteimage_q_stmts ""%string =
    "fill_hi_size = (int32)pixel_disk_size * (ri_ptr->img_dim.xdim - (start[0] + ((count[0] - 1) * stride[0]) + 1))"%string.
Proof. exact (conj fill_run_complete (conj fill_sites_agree (conj gr_row_tiles (proj2 (proj2 fill_statements))))). Qed.
Print Assumptions first_write_fill.

(** fill_lookup_uniform.  The chunked layout decides "this image has a user-defined fill value" exactly as the
    contiguous read and write paths do (regenerated condition texts): index-or-FAIL compared with FAIL. *)
Theorem fill_lookup_uniform_across_layouts :
  GRreadimage_q_conds = ["(at_index = GRfindattr(riid, 'FillValue')) != (-1)"%string] /\
  GRsetchunk_q_conds = GRreadimage_q_conds /\ GRwriteimage_q_conds = GRreadimage_q_conds.
Proof. exact fill_lookup_uniform. Qed.
Print Assumptions fill_lookup_uniform_across_layouts.

(** the generated constants / loop headers the models' case analyses rely on *)
Theorem generated_skeleton_as_modelled :
  (MCACHE_DIRTY = 1 /\ MCACHE_PINNED = 2 /\ Z.land MCACHE_DIRTY MCACHE_PINNED = 0 /\
   ELEM_READ <> 0 /\ ELEM_WRITTEN <> 0 /\ ELEM_SYNC <> 0) /\
  update_chunk_indices_seek_q_loops = ["i = ndims - 1; i >= 0; i--"%string] /\
  calculate_chunk_num_q_loops = ["j = ndims - 2; j >= 0; j--"%string] /\
  calculate_seek_in_chunk_q_loops = ["j = ndims - 2; j >= 0; j--"%string].
Proof. split. exact flag_constants. destruct skeleton_headers as (A & B & C & _). auto. Qed.
Print Assumptions generated_skeleton_as_modelled.

(** Non-vacuity: the hypotheses are met by concrete non-trivial states. *)
Example dims_5x7_chunks_2x3 :
  let dd := [mk_dim 5 2; mk_dim 7 3] in
  Forall valid_dim dd /\ prod (map d_len dd) * 2 < 2147483648 /\
  map n_chunks dd = [3; 3] /\ map last_len dd = [1; 1] /\
  chunk_locate 2 dd (34 * 2) = (8, 0) /\ chunk_locate 2 dd (12 * 2) = (1, 10) /\
  chunk_piece 2 dd (12 * 2) (20 * 2) = 2.
Proof.
  cbv zeta. split; [repeat constructor; apply mk_dim_valid; lia|]. vm_compute. repeat split; congruence.
Qed.

Example cache_history_meets_hypotheses :
  let s0 : fstore := fun _ => [7; 7] in
  let os := [CAccess 1 (fun p => 5 :: removelast p) true; CAccess 2 (fun p => p) false;
             CAccess 3 (fun p => 6 :: removelast p) true; CAccess 1 (fun p => p) false; CSync; CMaxcache 2;
             CAccess 2 (fun p => 9 :: removelast p) true] in
  cops_ok 3 s0 os /\
  (match run (mcache_open 1 3, s0) os with
   | Some (mp, s, outs) => outs = [Some [7;7]; Some [7;7]; Some [7;7]; Some [5;7]; None; None; Some [7;7]] /\
                           s 0 = [5;7] /\ s 1 = [7;7] /\ s 2 = [6;7] /\ view mp s 1 = [9;7]
   | None => False end).
Proof. cbv zeta. split. simpl. repeat split; try lia; auto. vm_compute. repeat split; reflexivity. Qed.

Example loops_through_cache_of_one_page :
  let dd := [mk_dim 5 2; mk_dim 7 3] in
  let fillpg := repeat 9 12 in
  geometry_ok 2 dd /\ pages_ok 2 dd (fun _ => fillpg) /\
  origin_ok (2, mk_dim 5 2) /\ region_ok ((2, 0), mk_dim 5 2) /\ region_ok ((2, 0), mk_dim 7 3) /\
  (match hmcp_write 2 dd 20 (mcache_open 1 (npg dd), fun _ => fillpg) (12 * 2) [1;2;3;4;5;6;7;8;1;2] with
   | Some st => match hmcp_read 2 dd 20 st (10 * 2) (8 * 2) with
                | Some (_, out) => out = [9;9;9;9;1;2;3;4;5;6;7;8;1;2;9;9]
                | None => False end
   | None => False end).
Proof.
  cbv zeta. split; [|split].
  - split; [lia|]. split; [discriminate|]. split; [repeat constructor; apply mk_dim_valid; lia | vm_compute; reflexivity].
  - intros cn _. reflexivity.
  - vm_compute. repeat split; congruence.
Qed.

Example external_write_near_the_end :
  let x := mkx 8 12 300 in
  x_length (fst (hxp_write x (fun _ => 0) [1; 2])) = 12 /\ snd (hxp_write x (fun _ => 0) [1; 2]) 309 = 2 /\
  snd (hxp_write x (fun _ => 0) [1; 2]) 299 = 0.
Proof. vm_compute. repeat split; reflexivity. Qed.

(** two access ids on a 5x7 dataset of 2-byte elements in 2x3 chunks, cache of one page: id 0 writes, seeks; id 1 seeks
    elsewhere; id 0 reads without a new seek *)
Example two_access_ids_history :
  let dd := [mk_dim 5 2; mk_dim 7 3] in
  let s0 : fstore := fun _ => repeat 9 12 in
  let os := [AWrite 0 [1;2;3;4;5;6]; ASeek 0 1; ASeek 1 20; ARead 1 2; ARead 0 3; AWrite 1 [7;8]; ARead 0 1] in
  aops_ok 2 (total dd) (stream_of 2 dd s0) [0; 0] os /\
  snd (sp_run 2 (stream_of 2 dd s0) [0; 0] os) = [[]; []; []; [9;9;9;9]; [3;4;5;6;9;9]; []; [9;9]] /\
  (match aop_run 2 dd true (mkae (mcache_open 1 (npg dd), s0) ([], []) [0; 0]) os with
   | Some (_, outs) => outs = [[]; []; []; [9;9;9;9]; [3;4;5;6;9;9]; []; [9;9]]
   | None => False end).
Proof.
  cbv zeta. split; [|split].
  - simpl. repeat split; try lia; try (exists 3; split; [reflexivity|vm_compute; congruence]);
      try (exists 1; split; [reflexivity|vm_compute; congruence]); vm_compute; congruence.
  - vm_compute. reflexivity.
  - vm_compute. reflexivity.
Qed.

(** the same history through a model that trusts the shared indices (recompute = false): id 0's read after id 1's seek
    returns the bytes at id 1's position -- the behaviour of the seeded change C04-8 *)
Example stale_shared_indices_are_wrong :
  let dd := [mk_dim 5 2; mk_dim 7 3] in
  let s0 : fstore := fun _ => repeat 9 12 in
  let os := [AWrite 0 [1;2;3;4;5;6]; ASeek 0 1; ASeek 1 20; ARead 0 2] in
  (match aop_run 2 dd true (mkae (mcache_open 1 (npg dd), s0) ([], []) [0; 0]) os with
   | Some (_, outs) => nth 3 outs [] = [3;4;5;6] | None => False end) /\
  (match aop_run 2 dd false (mkae (mcache_open 1 (npg dd), s0) ([], []) [0; 0]) os with
   | Some (_, outs) => nth 3 outs [] <> [3;4;5;6] | None => True end).
Proof. cbv zeta. split; vm_compute; [reflexivity | congruence]. Qed.

Example chunk_table_example :
  let fe := [7; 8] in let fillpg := fill_page 6 2 fe in
  let t0 : ctab := [] in
  tab_wf t0 /\ fillpg = [7;8;7;8;7;8;7;8;7;8;7;8] /\ ct_pagein fillpg t0 4 = Some fillpg /\
  (match ct_pageout (ct_ensure t0 4) 4 [1;2;3;4;5;6;7;8;9;10;11;12] with
   | Some t1 => tab_wf t1 /\ ct_pagein fillpg t1 4 = Some [1;2;3;4;5;6;7;8;9;10;11;12] /\ ct_pagein fillpg t1 3 = Some fillpg /\
                ct_pagein fillpg (ct_ensure t1 3) 3 = Some fillpg
   | None => False end) /\
  ct_pageout t0 4 [1] = None.
Proof.
  cbv zeta. split; [constructor|]. split; [vm_compute; reflexivity|]. split; [vm_compute; reflexivity|]. split.
  - vm_compute. split; [constructor; [right; reflexivity|constructor]|]. repeat split; reflexivity.
  - reflexivity.
Qed.

Example fill_run_of_2300000_bytes :
  fill_run 3 2300000 = [1000000; 1000000; 300000] /\ 2300000 <= Z.of_nat 3 * Z.min 2300000 MAX_SIZE /\
  gr_fill_lo 2 1 + gr_span 2 3 2 + gr_fill_hi 2 8 1 3 2 = 2 * 8.
Proof. vm_compute. repeat split; try reflexivity; discriminate. Qed.

Example stream_example :
  chunk_read_elem 1 [mk_dim 5 2; mk_dim 7 3]
    (chunk_writes 1 [mk_dim 5 2; mk_dim 7 3] (fun _ _ => -1) [(12, 40); (34, 41); (12, 42)]) 12 = 42.
Proof. vm_compute. reflexivity. Qed.
