(** C04 -- Storage layout and tuning knobs never change the data an application sees.
    Property theorems only; each is closed by [exact] of a lemma from ChunkProofs.v / MCacheProofs.v.
    M = ChunkModel.v (hchunks.c index arithmetic) and MCacheModel.v (mcache.c), both over gen/Gen_Chunk.v, which is
    regenerated from the C sources on every run. *)
From Coq Require Import ZArith List Bool String Lia.
Require Import H4.gen.Gen_Chunk H4.ChunkModel H4.MCacheModel H4.ChunkProofs H4.MCacheProofs.
Import ListNotations.
Local Open Scope Z_scope.

(** chunk_locate_inj.  For every rank, every extent and every chunk List.length >= 1 (dividing the extent or not, longer
    than it or not -- [valid_dim] is what HMCcreate computes, see [mk_dim_is_valid]), with the element stream fitting
    int32: element position |-> (chunk number, byte offset in chunk), as update_chunk_indices_seek +
    calculate_chunk_num + calculate_seek_in_chunk compute it, is injective on [0,total) and lands inside the chunk
    table and inside the chunk, element-aligned. *)
Theorem chunk_locate_inj : forall nt dd p q,
  1 <= nt -> Forall valid_dim dd -> prod (map d_len dd) * nt < 2147483648 ->
  0 <= p < prod (map d_len dd) -> 0 <= q < prod (map d_len dd) ->
  (chunk_locate nt dd (p * nt) = chunk_locate nt dd (q * nt) -> p = q) /\
  (let cn := fst (chunk_locate nt dd (p * nt)) in let off := snd (chunk_locate nt dd (p * nt)) in
   0 <= cn < prod (map n_chunks dd) /\ 0 <= off /\ off + nt <= prod (map c_len dd) * nt /\ (nt | off)).
Proof. exact chunk_locate_inj_lemma. Qed.
Print Assumptions chunk_locate_inj.

Theorem mk_dim_is_valid : forall d c, 1 <= d -> 1 <= c -> valid_dim (mk_dim d c).
Proof. exact mk_dim_valid. Qed.
Print Assumptions mk_dim_is_valid.

(** chunk_run_contig.  The byte count calculate_chunk_for_chunk returns for a transfer of r elements starting at
    element e is k*nt with k = min(r, elements left in the current chunk row, elements left in the array row): all k
    elements lie in the same chunk at consecutive offsets (so one memcpy moves them), and k is the longest such run
    (at e+k the chunk row or the array row ends, by the closed form of [row_left]). *)
Theorem chunk_run_contig : forall nt dd e r,
  1 <= nt -> dd <> [] -> Forall valid_dim dd -> prod (map d_len dd) * nt < 2147483648 ->
  0 <= e -> 1 <= r -> e + r <= prod (map d_len dd) ->
  let k := Z.min r (row_left (rev dd) e) in
  chunk_piece nt dd (e * nt) (r * nt) = k * nt /\ 1 <= k <= r /\
  forall j, 0 <= j < k ->
    chunk_locate nt dd ((e + j) * nt) =
    (fst (chunk_locate nt dd (e * nt)), snd (chunk_locate nt dd (e * nt)) + j * nt).
Proof. exact chunk_run_contig_lemma. Qed.
Print Assumptions chunk_run_contig.

(** mcache_refines_map.  For every cache size (maxcache, any value; 0 means the default 1), every page count and
    every sequence of balanced accesses get / modify / put(dirty or clean), syncs and maxcache changes -- a clean put
    must not have modified the page, as in HMCPread -- starting from mcache_open: every get returns exactly what the
    finite map "puts applied directly" holds, the cache overlaid on the backing store equals that map, and after
    mcache_sync the backing store alone equals it. *)
Theorem mcache_refines_map : forall maxc np (s0 : fstore) os,
  0 <= np -> cops_ok np s0 os ->
  exists mp s outs, run (mcache_open maxc np, s0) os = Some (mp, s, outs) /\
    outs = snd (map_run s0 os) /\
    (forall n, view mp s n = fst (map_run s0 os) n) /\
    exists mp' s', mcache_sync fstore fs_out mp s = Some (mp', s') /\ forall n, s' n = fst (map_run s0 os) n.
Proof. exact mcache_refines_map_lemma. Qed.
Print Assumptions mcache_refines_map.

(** chunked_refines_stream (partial).  Element-granular: after any sequence of element writes through chunk_locate
    into a chunk table whose absent chunks read as the fill value, reading any element returns what the byte-stream
    specification returns (last value written there, else fill) -- for every rank, extent and chunk shape.
    MISSING for the full statement: the composition of the while loops of HMCPwrite/HMCPread (piece by piece, with
    mcache in between) into one refinement lemma; the ingredients are chunk_run_contig (a piece is a contiguous run in
    one chunk) and mcache_refines_map (the cache is transparent), the loop composition itself is covered by the
    R-vs-S correspondence only.  Whole-chunk I/O = slab I/O on the same region likewise rests on the correspondence. *)
Theorem chunked_refines_stream_partial : forall nt dd fill ws,
  1 <= nt -> Forall valid_dim dd -> prod (map d_len dd) * nt < 2147483648 ->
  Forall (fun w => 0 <= fst w < prod (map d_len dd)) ws ->
  forall q, 0 <= q < prod (map d_len dd) ->
    chunk_read_elem nt dd (chunk_writes nt dd (fun _ _ => fill) ws) (q * nt) =
    stream_writes (fun _ => fill) ws q.
Proof. exact chunked_refines_stream_lemma. Qed.
Print Assumptions chunked_refines_stream_partial.

(** the generated constants / loop headers the models' case analyses rely on *)
Theorem generated_skeleton_as_modelled :
  (MCACHE_DIRTY = 1 /\ MCACHE_PINNED = 2 /\ Z.land MCACHE_DIRTY MCACHE_PINNED = 0 /\
   ELEM_READ <> 0 /\ ELEM_WRITTEN <> 0 /\ ELEM_SYNC <> 0) /\
  update_chunk_indices_seek_q_loops = ["i = ndims - 1; i >= 0; i--"%string] /\
  calculate_chunk_num_q_loops = ["j = ndims - 2; j >= 0; j--"%string] /\
  calculate_seek_in_chunk_q_loops = ["j = ndims - 2; j >= 0; j--"%string].
Proof. split. exact flag_constants. destruct skeleton_headers as (A & B & C & _). auto. Qed.
Print Assumptions generated_skeleton_as_modelled.

(** Non-vacuity: the hypotheses are met by concrete non-trivial states. *)
Example dims_5x7_chunks_2x3 :
  let dd := [mk_dim 5 2; mk_dim 7 3] in
  Forall valid_dim dd /\ prod (map d_len dd) * 2 < 2147483648 /\
  map n_chunks dd = [3; 3] /\ map last_len dd = [1; 1] /\
  chunk_locate 2 dd (34 * 2) = (8, 0) /\ chunk_locate 2 dd (12 * 2) = (1, 10) /\
  chunk_piece 2 dd (12 * 2) (20 * 2) = 2.
Proof.
  cbv zeta. split; [repeat constructor; apply mk_dim_valid; lia|]. vm_compute. repeat split; congruence.
Qed.

Example cache_history_meets_hypotheses :
  let s0 : fstore := fun _ => [7; 7] in
  let os := [CAccess 1 (fun p => 5 :: removelast p) true; CAccess 2 (fun p => p) false;
             CAccess 3 (fun p => 6 :: removelast p) true; CAccess 1 (fun p => p) false; CSync; CMaxcache 2;
             CAccess 2 (fun p => 9 :: removelast p) true] in
  cops_ok 3 s0 os /\
  (match run (mcache_open 1 3, s0) os with
   | Some (mp, s, outs) => outs = [Some [7;7]; Some [7;7]; Some [7;7]; Some [5;7]; None; None; Some [7;7]] /\
                           s 0 = [5;7] /\ s 1 = [7;7] /\ s 2 = [6;7] /\ view mp s 1 = [9;7]
   | None => False end).
Proof. cbv zeta. split. simpl. repeat split; try lia; auto. vm_compute. repeat split; reflexivity. Qed.

Example stream_example :
  chunk_read_elem 1 [mk_dim 5 2; mk_dim 7 3]
    (chunk_writes 1 [mk_dim 5 2; mk_dim 7 3] (fun _ _ => -1) [(12, 40); (34, 41); (12, 42)]) 12 = 42.
Proof. vm_compute. reflexivity. Qed.
