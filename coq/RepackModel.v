(** C18 -- implementation model M of hrepack's option handling, as the C code performs it:
    hrepack_parse.c (parse_comp, parse_chunk, parse_number), hrepack.c (hrepack_addcomp, hrepack_addchunk,
    print_options' consistency check), hrepack_opttable.c (options_add_comp, options_add_chunk, options_get_object),
    hrepack_utils.c (options_get_info, four cases), and the layout decision of copy_sds / copy_gr
    (hrepack_sds.c, hrepack_gr.c) as a pure function [decide].  The keyword tables, parameter ranges, threshold
    constant and branch conditions come from gen/Gen_Repack.v (regenerated from the sources on every run).
    No proofs here. *)
From Coq Require Import ZArith List Bool.
Require Import H4.gen.Gen_Repack H4.RepackSpec.
Import ListNotations.
Local Open Scope Z_scope.

(** Three-valued results: the C function succeeds, reports an error, or the input is outside what the model
    describes (the C code would index past a fixed buffer or read an uninitialised variable). *)
Inductive res (A : Type) := ROk (a : A) | RErr | RUndef.
Arguments ROk {A} a.
Arguments RErr {A}.
Arguments RUndef {A}.

Definition ch_colon : Z := 58.
Definition ch_comma : Z := 44.
Definition ch_space : Z := 32.
Definition ch_x : Z := 120.
Definition kw_NONE : str := [78; 79; 78; 69].
Definition kw_SZIP : str := [83; 90; 73; 80].

Definition is_digit (c : Z) : bool := (48 <=? c) && (c <=? 57).
Definition truth (z : Z) : bool := negb (z =? 0).

(** atoi on the leading digits *)
Fixpoint atoi_acc (acc : Z) (s : str) : Z :=
  match s with
  | c :: r => if is_digit c then atoi_acc (acc * 10 + (c - 48)) r else acc
  | [] => acc
  end.
Definition atoi (s : str) : Z := atoi_acc 0 s.

Definition zlen {A} (l : list A) : Z := Z.of_nat (length l).

(** split at the first occurrence of [c] *)
Fixpoint split_first (c : Z) (s : str) : option (str * str) :=
  match s with
  | [] => None
  | x :: r => if x =? c then Some ([], r)
              else match split_first c r with Some (a, b) => Some (x :: a, b) | None => None end
  end.

(** split at the last occurrence of [c] (the C loops keep the last ':' they see) *)
Definition split_last (c : Z) (s : str) : option (str * str) :=
  match split_first c (rev s) with
  | Some (a, b) => Some (rev b, rev a)
  | None => None
  end.

(** all segments between occurrences of [c] *)
Fixpoint split_all (c : Z) (s : str) (cur : str) : list str :=
  match s with
  | [] => [rev cur]
  | x :: r => if x =? c then rev cur :: split_all c r [] else split_all c r (x :: cur)
  end.

(** the object list in front of the ':' : names separated by ','.  The C loop closes a name at each ',' and at the
    last character; an empty last name leaves a garbage entry behind (undefined), a name of H4_MAX_NC_NAME or more
    characters overruns the name buffer. *)
Definition parse_names (s : str) : res (list str) :=
  let names := split_all ch_comma s [] in
  if str_eqb (last names []) [] then RUndef
  else if existsb (fun n => H4_MAX_NC_NAME <=? zlen n) names then RUndef
  else ROk names.

Fixpoint find_kw (w : str) (t : list (list Z * Z * Z)) : option (Z * Z) :=
  match t with
  | [] => None
  | (k, c, r) :: t' => if str_eqb w k then Some (c, r) else find_kw w t'
  end.

Definition comp_param_bad (t info : Z) : bool :=
  if t =? COMP_CODE_SKPHUFF then truth (huff_param_bad info)
  else if t =? COMP_CODE_DEFLATE then truth (gzip_param_bad info)
  else if t =? COMP_CODE_JPEG then truth (jpeg_param_bad info)
  else false.

(** parse_comp: "<names>:<KEYWORD>[ <digits>]".  [parse_comp_tail] is the part after the ':' *)
Definition parse_comp_tail (names : list str) (tail : str) : res comp_entry :=
  if str_eqb tail [] then RErr
  else
    let '(word, param) := match split_first ch_space tail with
                          | Some (w, p) => (w, Some p)
                          | None => (tail, None)
                          end in
    if 9 <? zlen word then RUndef
    else if str_eqb word kw_SZIP then RErr
    else match param with
         | Some p => if negb (forallb is_digit p) then RErr
                     else if 4 <? zlen p then RUndef
                     else match find_kw word comp_keywords with
                          | None => RErr
                          | Some (code, rule) =>
                              if (rule =? 2) && (0 <? zlen p) then RErr
                              else if comp_param_bad code (atoi p) then RErr
                              else ROk {| ce_names := names; ce_type := code; ce_info := atoi p |}
                          end
         | None => match find_kw word comp_keywords with
                   | None => RErr
                   | Some (code, rule) =>
                       if rule =? 1 then RErr
                       else if comp_param_bad code (-1) then RErr
                       else ROk {| ce_names := names; ce_type := code; ce_info := -1 |}
                   end
         end.

Definition parse_comp (s : str) : res comp_entry :=
  match split_last ch_colon s with
  | None => RErr
  | Some (objs, tail) =>
      match parse_names objs with
      | RUndef => RUndef
      | RErr => RErr
      | ROk names => parse_comp_tail names tail
      end
  end.

(** parse_chunk: "<names>:<d1>x<d2>...x<dn>" or "<names>:NONE".  State of the character loop: the current segment
    (reversed) and the lengths collected so far (reversed). *)
Fixpoint chunk_loop (s : str) (seg : str) (lens : list Z) : res chunk_entry :=
  match s with
  | [] => RUndef          (* the loop ended on an 'x': chunk_rank is never assigned *)
  | c :: r =>
      if negb (is_digit c || existsb (Z.eqb c) chunk_alphabet) then RErr
      else if negb (c =? ch_x) && (9 <? zlen seg + 1) then RUndef   (* sdim[10]: nine characters and the NUL *)
      else
        match r with
        | [] =>
            if c =? ch_x then
              (if atoi (rev seg) =? 0 then RErr else RUndef)
            else
              let sd := rev (c :: seg) in
              if str_eqb sd kw_NONE then ROk {| ke_names := []; ke_rank := -2; ke_lens := rev lens |}
              else if atoi sd =? 0 then RErr
              else if H4_MAX_VAR_DIMS <=? zlen lens then RUndef
              else ROk {| ke_names := []; ke_rank := zlen lens + 1; ke_lens := rev (atoi sd :: lens) |}
        | _ =>
            if c =? ch_x then
              (if atoi (rev seg) =? 0 then RErr
               else if H4_MAX_VAR_DIMS <=? zlen lens then RUndef
               else chunk_loop r [] (atoi (rev seg) :: lens))
            else chunk_loop r (c :: seg) lens
        end
  end.

Definition parse_chunk (s : str) : res chunk_entry :=
  match split_last ch_colon s with
  | None => RErr
  | Some (objs, tail) =>
      match parse_names objs with
      | RUndef => RUndef
      | RErr => RErr
      | ROk names =>
          if str_eqb tail [] then RErr
          else match chunk_loop tail [] [] with
               | ROk e => ROk {| ke_names := names; ke_rank := ke_rank e; ke_lens := ke_lens e |}
               | RErr => RErr
               | RUndef => RUndef
               end
      end
  end.

(** parse_number (the -m argument): digits only, else -1 *)
Definition parse_number (s : str) : res Z :=
  if negb (forallb is_digit s) then ROk (-1)
  else if 9 <? zlen s then RUndef
  else ROk (atoi s).

(** * Printing (the inverse direction, used by the round-trip theorem and by the harness to build command lines) *)
Fixpoint digits_acc (fuel : nat) (n : Z) (acc : str) : str :=
  match fuel with
  | O => acc
  | S f => if n <? 10 then (48 + n) :: acc else digits_acc f (n / 10) ((48 + n mod 10) :: acc)
  end.
Definition print_nat (n : Z) : str := digits_acc 9 n [].   (* numbers below 10^9: all the parser can take *)

Fixpoint join (sep : Z) (l : list str) : str :=
  match l with
  | [] => []
  | [a] => a
  | a :: r => a ++ sep :: join sep r
  end.

Fixpoint find_scomp (c : Z) (t : list (Z * list Z)) : str :=
  match t with
  | [] => []
  | (k, s) :: t' => if k =? c then s else find_scomp c t'
  end.

Definition has_param (t : Z) : bool := (t =? COMP_CODE_SKPHUFF) || (t =? COMP_CODE_DEFLATE) || (t =? COMP_CODE_JPEG).

Definition print_comp (e : comp_entry) : str :=
  join ch_comma (ce_names e) ++ ch_colon :: find_scomp (ce_type e) scomp_table ++
  (if has_param (ce_type e) then ch_space :: print_nat (ce_info e) else []).

Definition print_chunk (e : chunk_entry) : str :=
  join ch_comma (ke_names e) ++ ch_colon ::
  (if ke_rank e =? -2 then kw_NONE else join ch_x (map print_nat (ke_lens e))).

(** * The options table *)
Record compinfo := { c_type : Z; c_info : Z }.
Record chunkinfo := { k_rank : Z; k_lens : list Z }.
Record pack := { p_path : str; p_comp : compinfo; p_chunk : chunkinfo }.
Record options := { tbl : list pack; all_chunk : bool; all_comp : bool; comp_g : compinfo; chunk_g : chunkinfo;
                    threshold : Z }.

Definition comp_default : compinfo := {| c_type := COMP_CODE_NONE; c_info := -1 |}.
Definition chunk_default : chunkinfo := {| k_rank := -1; k_lens := [] |}.
Definition options_init : options :=
  {| tbl := []; all_chunk := false; all_comp := false; comp_g := {| c_type := 0; c_info := 0 |};
     chunk_g := {| k_rank := 0; k_lens := [] |}; threshold := default_threshold |}.

(** options_get_object: first entry with this path *)
Fixpoint lookup (p : str) (t : list pack) : option pack :=
  match t with
  | [] => None
  | e :: t' => if str_eqb (p_path e) p then Some e else lookup p t'
  end.

(** options_add_comp and options_add_chunk are the same loop over two different fields of the entry; the model has
    one generic loop, instantiated twice.  [refuse e]: the entry already has this kind of information (FAIL);
    [setf e]: the entry with the new information; [mk n]: a fresh entry for name [n].

    In-place update of the first entry named [n]: None = no such entry, Some None = refused (already set). *)
Fixpoint upd_entry (refuse : pack -> bool) (setf : pack -> pack) (n : str) (t : list pack)
  : option (option (list pack)) :=
  match t with
  | [] => None
  | e :: t' =>
      if str_eqb n (p_path e) then (if refuse e then Some None else Some (Some (setf e :: t')))
      else match upd_entry refuse setf n t' with
           | None => None
           | Some None => Some None
           | Some (Some t'') => Some (Some (e :: t''))
           end
  end.

(** names already in the table (as it was when the call started) are updated in place, the others are appended
    after the loop *)
Fixpoint add_loop (refuse : pack -> bool) (setf : pack -> pack) (mk : str -> pack) (names : list str)
         (t added : list pack) : option (list pack) :=
  match names with
  | [] => Some (t ++ rev added)
  | n :: r =>
      match upd_entry refuse setf n t with
      | Some None => None
      | Some (Some t') => add_loop refuse setf mk r t' added
      | None => add_loop refuse setf mk r t (mk n :: added)
      end
  end.

Definition set_comp_of (c : compinfo) (e : pack) : pack := {| p_path := p_path e; p_comp := c; p_chunk := p_chunk e |}.
Definition set_chunk_of (k : chunkinfo) (e : pack) : pack := {| p_path := p_path e; p_comp := p_comp e; p_chunk := k |}.
Definition mk_comp (c : compinfo) (n : str) : pack := {| p_path := n; p_comp := c; p_chunk := chunk_default |}.
Definition mk_chunk (k : chunkinfo) (n : str) : pack := {| p_path := n; p_comp := comp_default; p_chunk := k |}.
Definition has_comp (e : pack) : bool := 0 <? c_type (p_comp e).
Definition has_chunk (e : pack) : bool := 0 <? k_rank (p_chunk e).

(** with an empty table the C code appends every name without looking (the "first time insertion" branch) *)
Definition add_comp (names : list str) (c : compinfo) (t : list pack) : option (list pack) :=
  match t with
  | [] => Some (map (mk_comp c) names)
  | _ => add_loop has_comp (set_comp_of c) (mk_comp c) names t []
  end.

Definition add_chunk (names : list str) (k : chunkinfo) (t : list pack) : option (list pack) :=
  match t with
  | [] => Some (map (mk_chunk k) names)
  | _ => add_loop has_chunk (set_chunk_of k) (mk_chunk k) names t []
  end.

Definition has_star (names : list str) : bool := existsb (str_eqb star) names.

(** hrepack_addcomp / hrepack_addchunk on an already parsed entry *)
Definition addcomp (e : comp_entry) (o : options) : option options :=
  if all_comp o then None
  else
    let c := {| c_type := ce_type e; c_info := ce_info e |} in
    if has_star (ce_names e) then
      (if 1 <? zlen (ce_names e) then None
       else Some {| tbl := tbl o; all_chunk := all_chunk o; all_comp := true; comp_g := c; chunk_g := chunk_g o;
                    threshold := threshold o |})
    else match add_comp (ce_names e) c (tbl o) with
         | None => None
         | Some t => Some {| tbl := t; all_chunk := all_chunk o; all_comp := false; comp_g := comp_g o;
                             chunk_g := chunk_g o; threshold := threshold o |}
         end.

Definition addchunk (e : chunk_entry) (o : options) : option options :=
  if all_chunk o then None
  else
    let k := {| k_rank := ke_rank e; k_lens := ke_lens e |} in
    if has_star (ke_names e) then
      (if 1 <? zlen (ke_names e) then None
       else Some {| tbl := tbl o; all_chunk := true; all_comp := all_comp o; comp_g := comp_g o; chunk_g := k;
                    threshold := threshold o |})
    else match add_chunk (ke_names e) k (tbl o) with
         | None => None
         | Some t => Some {| tbl := t; all_chunk := false; all_comp := all_comp o; comp_g := comp_g o;
                             chunk_g := chunk_g o; threshold := threshold o |}
         end.

(** the command line / option file, in order *)
Inductive rawopt := OT (s : str) | OC (s : str) | OM (s : str).

Definition step (o : options) (r : rawopt) : res options :=
  match r with
  | OT s => match parse_comp s with
            | ROk e => match addcomp e o with Some o' => ROk o' | None => RErr end
            | RErr => RErr
            | RUndef => RUndef
            end
  | OC s => match parse_chunk s with
            | ROk e => match addchunk e o with Some o' => ROk o' | None => RErr end
            | RErr => RErr
            | RUndef => RUndef
            end
  | OM s => match parse_number s with
            | ROk n => if n =? -1 then RErr
                       else ROk {| tbl := tbl o; all_chunk := all_chunk o; all_comp := all_comp o; comp_g := comp_g o;
                                   chunk_g := chunk_g o; threshold := n |}
            | RErr => RErr
            | RUndef => RUndef
            end
  end.

Fixpoint build_from (o : options) (l : list rawopt) : res options :=
  match l with
  | [] => ROk o
  | r :: l' => match step o r with
               | ROk o' => build_from o' l'
               | RErr => RErr
               | RUndef => RUndef
               end
  end.

Definition build (l : list rawopt) : res options := build_from options_init l.

(** the same with already structured entries (what the specification is phrased over) *)
Fixpoint build_entries_from (o : options) (l : list entry) : option options :=
  match l with
  | [] => Some o
  | ET e :: l' => match addcomp e o with Some o' => build_entries_from o' l' | None => None end
  | EC e :: l' => match addchunk e o with Some o' => build_entries_from o' l' | None => None end
  end.

(** print_options' consistency check: "*" together with selected objects *)
Definition options_consistent (o : options) : bool :=
  negb (all_chunk o && existsb (fun e => (0 <? k_rank (p_chunk e)) || (k_rank (p_chunk e) =? -2)) (tbl o)) &&
  negb (all_comp o && existsb (fun e => 0 <? c_type (p_comp e)) (tbl o)).

(** * options_get_info

    The variables copy_sds / copy_gr pass by reference: chunk flags, chunk lengths and the compression inside the
    chunk definition (HDF_CHUNK_DEF is a union: one array of lengths), the compression type and its parameter. *)
Record gstate := { g_flags : Z; g_lens : list Z; g_ctype : Z; g_cinfo : Z; g_comp : Z; g_info : Z }.

Definition flags_chunked (f : Z) : bool := (f =? HDF_CHUNK) || (f =? Z.lor HDF_CHUNK HDF_COMP).

Definition set_chunk (g : gstate) (rank : Z) (lens : list Z) : gstate :=
  {| g_flags := HDF_CHUNK; g_lens := firstn (Z.to_nat rank) lens; g_ctype := g_ctype g; g_cinfo := g_cinfo g;
     g_comp := g_comp g; g_info := g_info g |}.
Definition set_flags (g : gstate) (f : Z) : gstate :=
  {| g_flags := f; g_lens := g_lens g; g_ctype := g_ctype g; g_cinfo := g_cinfo g; g_comp := g_comp g;
     g_info := g_info g |}.
Definition set_comp (g : gstate) (c : compinfo) : gstate :=
  {| g_flags := g_flags g; g_lens := g_lens g; g_ctype := g_ctype g; g_cinfo := g_cinfo g; g_comp := c_type c;
     g_info := c_info c |}.
(** "chunk and compress": flags := HDF_CHUNK|HDF_COMP and the compression goes into the chunk definition *)
Definition comp_into_chunk (g : gstate) : gstate :=
  if flags_chunked (g_flags g) then
    {| g_flags := Z.lor HDF_CHUNK HDF_COMP; g_lens := g_lens g; g_ctype := g_comp g;
       g_cinfo := (if has_param (g_comp g) then g_info g else g_cinfo g); g_comp := g_comp g; g_info := g_info g |}
  else g.

(** the chunk part of the global ("*") request and of a table entry; None = FAIL (rank does not match) *)
Definition global_chunk (o : options) (rank : Z) (g : gstate) : gstate :=
  if k_rank (chunk_g o) =? -2 then set_flags g HDF_NONE
  else if negb (k_rank (chunk_g o) =? rank) then g
  else set_chunk g rank (k_lens (chunk_g o)).

Definition entry_chunk (e : pack) (rank : Z) (g : gstate) : option gstate :=
  let r := k_rank (p_chunk e) in
  if (0 <? r) && negb (r =? rank) then None
  else Some (if r =? -2 then set_flags g HDF_NONE
             else if 0 <? r then set_chunk g rank (k_lens (p_chunk e)) else g).

(** result: None = FAIL; Some (g, have_info) *)
Definition get_info (o : options) (rank : Z) (p : str) (g : gstate) : option (gstate * bool) :=
  let obj := lookup p (tbl o) in
  let have := match obj with Some _ => true | None => false end in
  if all_chunk o && negb (all_comp o) then
    (* case 1: chunk all, compress selected *)
    match obj with
    | Some e => Some (comp_into_chunk (set_comp (global_chunk o rank g) (p_comp e)), have)
    | None => Some (global_chunk o rank g, have)
    end
  else if negb (all_chunk o) && negb (all_comp o) then
    (* case 2: both selected *)
    match obj with
    | None => Some (g, have)
    | Some e =>
        match entry_chunk e rank g with
        | None => None
        | Some g1 => if 0 <=? c_type (p_comp e) then Some (comp_into_chunk (set_comp g1 (p_comp e)), have)
                     else Some (g1, have)
        end
    end
  else if negb (all_chunk o) && all_comp o then
    (* case 3: chunk selected, compress all *)
    match obj with
    | None => Some (comp_into_chunk (set_comp g (comp_g o)), have)
    | Some e =>
        match entry_chunk e rank g with
        | None => None
        | Some g1 => Some (comp_into_chunk (set_comp g1 (comp_g o)), have)
        end
    end
  else
    (* case 4: both all; the table is not consulted here, the function returns 0 even for an object that has an
       entry (one whose -t NONE was superseded by "*") *)
    Some (comp_into_chunk (set_comp (global_chunk o rank g) (comp_g o)), false).

(** * The layout decision of copy_sds / copy_gr *)
Definition flags_of (l : layout) : Z :=
  match l_chunk l with
  | None => HDF_NONE
  | Some _ => if 0 <? l_comp l then Z.lor HDF_CHUNK HDF_COMP else HDF_CHUNK
  end.

Definition gstate_of (l : layout) : gstate :=
  {| g_flags := flags_of l; g_lens := match l_chunk l with Some x => x | None => [] end;
     g_ctype := l_comp l; g_cinfo := l_info l; g_comp := l_comp l; g_info := l_info l |}.

Definition b2z (b : bool) : Z := if b then 1 else 0.
Definition none_layout (r : bool) : layout := {| l_comp := COMP_CODE_NONE; l_info := 0; l_chunk := None; l_rec := r |}.

(** what copy_sds does once options_get_info has returned ([g], [have]); None = FAIL (hrepack exits 1) *)
Definition restore_small (lin : layout) (g : gstate) : gstate :=
  {| g_flags := flags_of lin; g_lens := g_lens g; g_ctype := g_ctype g; g_cinfo := g_cinfo g;
     g_comp := l_comp lin; g_info := g_info g |}.

Definition chunked_layout (g : gstate) : layout :=
  if g_flags g =? HDF_CHUNK
  then {| l_comp := COMP_CODE_NONE; l_info := 0; l_chunk := Some (g_lens g); l_rec := false |}
  else {| l_comp := g_ctype g; l_info := obs_info (g_ctype g) (g_cinfo g); l_chunk := Some (g_lens g); l_rec := false |}.

Definition sds_finish (o : options) (i : objinfo) (g0 : gstate) (have : bool) : option layout :=
  let lin := o_lay i in
  (* objects too small: back to the input's flags and type (the chunk definition keeps what it has) *)
  let g := if truth (sds_restore_cond (b2z have) 1 (o_bytes i) 1 (threshold o)) then restore_small lin g0 else g0 in
  if g_comp g =? COMP_CODE_JPEG then None    (* SDSs do not support JPEG *)
  else
    let is_record := truth (sds_record_cond (b2z (l_rec lin)) (g_comp g)) in
    if truth (sds_chunk_branch (g_flags g)) then
      (if is_record then Some (none_layout true) else Some (chunked_layout g))
    else if truth (sds_comp_branch (g_flags g) (g_comp g)) then
      (if truth (sds_small_cond (o_bytes i) 1 (threshold o)) then Some (none_layout is_record)
       else if g_comp g =? COMP_CODE_NBIT then Some (none_layout is_record)
       else Some {| l_comp := g_comp g; l_info := obs_info (g_comp g) (g_info g); l_chunk := None;
                    l_rec := is_record |})
    else Some (none_layout is_record).

Definition decide_sds (o : options) (p : str) (i : objinfo) : option layout :=
  if o_empty i then Some (none_layout (l_rec (o_lay i)))
  else match get_info o (o_rank i) p (gstate_of (o_lay i)) with
       | None => None
       | Some (g, have) => sds_finish o i g have
       end.

Definition gr_finish (o : options) (i : objinfo) (g0 : gstate) (have : bool) : option layout :=
  let lin := o_lay i in
  let g := if truth (gr_restore_cond (b2z have) 1 (o_bytes i) 1 (threshold o)) then restore_small lin g0 else g0 in
  if flags_chunked (g_flags g) then Some (chunked_layout g)
  else if truth (gr_comp_branch (g_flags g) (g_comp g)) then
    (if truth (gr_small_cond (b2z have) 1 (o_bytes i) 1 (threshold o)) then Some (none_layout false)
     else Some {| l_comp := g_comp g; l_info := obs_info (g_comp g) (g_info g); l_chunk := None; l_rec := false |})
  else Some (none_layout false).

Definition decide_gr (o : options) (p : str) (i : objinfo) : option layout :=
  match get_info o 2 p (gstate_of (o_lay i)) with
  | None => None
  | Some (g, have) => gr_finish o i g have
  end.

Definition decide (o : options) (k : kind) (p : str) (i : objinfo) : option layout :=
  match k with
  | KSds => decide_sds o p i
  | KGr => decide_gr o p i
  | _ => Some (o_lay i)
  end.

(** * repack = map [decide] over the objects of the tree.  The first traversal of hrepack (list_main with trip 0)
    checks that every name in the option table is the path of an SDS or image. *)
Definition with_layout (i : objinfo) (l : layout) : objinfo :=
  {| o_empty := o_empty i; o_rank := o_rank i; o_bytes := o_bytes i; o_lay := l |}.

Fixpoint paths (prefix : option str) (t : node) : list (str * kind) :=
  match t with
  | Node k n _ _ ch =>
      match k with
      | KRoot => flat_map (paths None) ch
      | _ => let p := path_join prefix n in (p, k) :: flat_map (paths (Some p)) ch
      end
  end.

Fixpoint find_path (p : str) (l : list (str * kind)) : option kind :=
  match l with
  | [] => None
  | (q, k) :: l' => if str_eqb q p then Some k else find_path p l'
  end.

Definition names_ok (o : options) (t : node) : bool :=
  let ps := paths None t in
  forallb (fun e => match find_path (p_path e) ps with
                    | Some KSds | Some KGr => true
                    | _ => false
                    end) (tbl o).

(** all decisions succeed? *)
Fixpoint decisions_ok (o : options) (prefix : option str) (t : node) : bool :=
  match t with
  | Node k n _ i ch =>
      match k with
      | KRoot => forallb (decisions_ok o None) ch
      | _ => let p := path_join prefix n in
             match decide o k p i with
             | Some _ => forallb (decisions_ok o (Some p)) ch
             | None => false
             end
      end
  end.

Definition apply_decide (o : options) (k : kind) (p : str) (i : objinfo) : objinfo :=
  match decide o k p i with
  | Some l => with_layout i l
  | None => i
  end.

(** None = hrepack fails (exit status 1) *)
Definition repack (o : options) (t : node) : option node :=
  if options_consistent o && names_ok o t && decisions_ok o None t
  then Some (map_layout (apply_decide o) None t)
  else None.

(** * The strip-mining copy loop of copy_sds (objects of H4TOOLS_MALLOCSIZE bytes or more that are not stored
    "compressed without chunking")

    [strip_size], [strip_hs_size], [strip_wrap], [strip_carry] are generated from the loop's statements.  Lists of
    dimensions are slowest first, as in the C arrays; the loops that run from the fastest dimension work on the
    reversed lists.  [buf] is the buffer size in bytes (H4TOOLS_BUFSIZE in the tool; a parameter here). *)
Fixpoint sm_sizes_rev (dims_rev : list Z) (nbytes buf : Z) : list Z :=
  match dims_rev with
  | [] => []
  | d :: r => let s := strip_size d buf nbytes in s :: sm_sizes_rev r (nbytes * s) buf
  end.
Definition sm_sizes (dims : list Z) (eltsz buf : Z) : list Z := rev (sm_sizes_rev (rev dims) eltsz buf).

Fixpoint hs_sizes (dims offs sm : list Z) : list Z :=
  match dims, offs, sm with
  | d :: dr, o :: orr, s :: sr => strip_hs_size d o s :: hs_sizes dr orr sr
  | _, _, _ => []
  end.

(** "calculate the next hyperslab offset": from the fastest dimension, while the carry is set *)
Fixpoint next_offset_rev (dims offs hs : list Z) : list Z :=
  match dims, offs, hs with
  | d :: dr, o :: orr, h :: hr =>
      let o' := o + h in
      let o'' := if truth (strip_wrap o' d h) then 0 else o' in
      if truth (strip_carry o' d h) then o'' :: next_offset_rev dr orr hr else o'' :: orr
  | _, _, _ => offs
  end.
Definition next_offset (dims offs hs : list Z) : list Z := rev (next_offset_rev (rev dims) (rev offs) (rev hs)).

Definition zprod (l : list Z) : Z := fold_right Z.mul 1 l.

(** the loop "for (elmtno = 0; elmtno < p_nelmts; elmtno += hs_nelmts)": the list of (offset, size) blocks that
    are read from the input and written to the output, in order.  Fuel = number of elements (every pass moves at
    least one element when all sizes are positive); running out of fuel with elements left yields an empty block
    list marker that no theorem accepts. *)
Fixpoint strip_walk (fuel : nat) (dims sm offs : list Z) (elmtno nelmts : Z) : option (list (list Z * list Z)) :=
  if elmtno <? nelmts then
    match fuel with
    | O => None
    | S f =>
        let hs := hs_sizes dims offs sm in
        match strip_walk f dims sm (next_offset dims offs hs) (elmtno + zprod hs) nelmts with
        | Some l => Some ((offs, hs) :: l)
        | None => None
        end
    end
  else Some [].

Definition strips (dims : list Z) (eltsz buf : Z) : option (list (list Z * list Z)) :=
  strip_walk (Z.to_nat (zprod dims)) dims (sm_sizes dims eltsz buf) (map (fun _ => 0) dims) 0 (zprod dims).

(** the cells of a block in row-major order, as linear (row-major) indices of the whole array *)
Fixpoint zcount (lo : Z) (n : nat) : list Z := match n with O => [] | S k => lo :: zcount (lo + 1) k end.

Fixpoint block_cells (dims offs hs : list Z) (base : Z) : list Z :=
  match dims, offs, hs with
  | d :: dr, o :: orr, h :: hr => flat_map (fun k => block_cells dr orr hr (base * d + k)) (zcount o (Z.to_nat h))
  | _, _, _ => [base]
  end.

(** the order in which the strip-mining loop moves the cells of the array *)
Definition strip_order (dims : list Z) (eltsz buf : Z) : option (list Z) :=
  match strips dims eltsz buf with
  | Some l => Some (flat_map (fun b => block_cells dims (fst b) (snd b) 0) l)
  | None => None
  end.

(** does the object go through the strip-mining loop? *)
Definition strip_mined (bytes flags comp : Z) : bool := negb (truth (sds_one_piece bytes flags comp)).

(** * Traversal tags and the metadata plumbing of the copy functions

    [insert_*_tags]: the member tags under which vgroup_insert copies an object of each kind;
    [list_*_search_tags]: the tags the top-level passes (list_sds, list_gr, list_vs) look up to skip objects that were
    already copied as vgroup members.  An object is copied exactly once only if the second set covers the first.

    [copy_*_inquired] / [copy_*_created] ...: the argument lists of the inquiring and the creating / transferring
    calls of copy_gr, copy_sds, copy_vs, as identifiers.  [passes a i b j]: argument [i] of call [a] is the same
    variable as argument [j] of call [b] (what the input reports is what the output is created with). *)
Definition covered (tags by_ : list Z) : bool := forallb (fun t => existsb (Z.eqb t) by_) tags.

Definition passes (a : list str) (i : nat) (b : list str) (j : nat) : bool :=
  match nth_error a i, nth_error b j with
  | Some x, Some y => str_eqb x y
  | _, _ => false
  end.

(** copy_gr: name, number of components, number type, interlace and dimensions go from GRgetiminfo to GRcreate
    untouched; the image is read in its own interlace and written from the same buffer with the same geometry *)
Definition copy_gr_plumbing : bool :=
  passes copy_gr_inquired 1 copy_gr_created 1 && passes copy_gr_inquired 2 copy_gr_created 2 &&
  passes copy_gr_inquired 3 copy_gr_created 3 && passes copy_gr_inquired 4 copy_gr_created 4 &&
  passes copy_gr_inquired 5 copy_gr_created 5 &&
  match copy_gr_reassigned with [] => true | _ => false end &&
  passes copy_gr_inquired 4 copy_gr_reqil 1 &&
  passes copy_gr_read 1 copy_gr_write 1 && passes copy_gr_read 2 copy_gr_write 2 &&
  passes copy_gr_read 3 copy_gr_write 3 && passes copy_gr_read 4 copy_gr_write 4.

(** copy_sds: name, number type and rank go from SDgetinfo to both SDcreate calls, the dimensions to the second
    (the first one replaces the slowest by SD_UNLIMITED) *)
Definition copy_sds_plumbing : bool :=
  passes copy_sds_inquired 1 copy_sds_created 1 && passes copy_sds_inquired 4 copy_sds_created 2 &&
  passes copy_sds_inquired 2 copy_sds_created 3 &&
  passes copy_sds_inquired 1 copy_sds_create2 1 && passes copy_sds_inquired 4 copy_sds_create2 2 &&
  passes copy_sds_inquired 2 copy_sds_create2 3 && passes copy_sds_inquired 3 copy_sds_create2 4 &&
  match copy_sds_reassigned with [] => true | _ => false end.

(** copy_vs: the interlace VSinquire reports is the one set on the output, the one the records are read in and the
    one they are written in; the same buffer and record count are read and written; the same field list is set on
    both vdatas; name and class are those read from the input *)
Definition copy_vs_plumbing : bool :=
  passes copy_vs_inquired 2 copy_vs_created 1 &&
  passes copy_vs_inquired 2 copy_vs_read 3 && passes copy_vs_inquired 2 copy_vs_write 3 &&
  passes copy_vs_inquired 1 copy_vs_read 2 && passes copy_vs_inquired 1 copy_vs_write 2 &&
  passes copy_vs_read 1 copy_vs_write 1 &&
  passes copy_vs_inquired 3 copy_vs_setfields_out 1 && passes copy_vs_inquired 3 copy_vs_setfields_in 1 &&
  passes copy_vs_inquired 5 copy_vs_setname 1 &&
  match copy_vs_reassigned with [] => true | _ => false end.

(** copy_sds, per-dimension loop: the dimension keeps its name; its scale is written with the number type SDdiminfo
    reported, from the buffer SDgetdimscale filled, with as many values as the SDS has along that dimension
    (the extent from SDgetinfo -- for an unlimited dimension SDdiminfo reports 0, the extent is the record count) *)
Definition copy_sds_dim_plumbing : bool :=
  passes copy_sds_diminfo 1 copy_sds_setdimname 1 &&
  passes copy_sds_diminfo 3 copy_sds_setdimscale 2 &&
  passes copy_sds_getdimscale 1 copy_sds_setdimscale 3 &&
  passes copy_sds_diminfo 0 copy_sds_getdimscale 0 &&
  passes copy_sds_setdimname 0 copy_sds_setdimscale 0 &&
  match nth_error copy_sds_setdimscale 1, nth_error copy_sds_inquired 3 with
  | Some c, Some d => str_eqb c (d ++ [91; 105; 93])     (* dimsizes[i] *)
  | _, _ => false
  end.

(** * Data movement of the copy routines

    copy_sds moves the data either in one piece (start / edges set per dimension by the generated [copy_sds_start] /
    [copy_sds_edge]) or strip by strip; copy_gr always in one piece; both read and write the same blocks (plumbing
    tables).  [*_moves]: the cells moved, in the order they are moved, as row-major indices of the array. *)
Definition one_piece (startf edgef : Z -> Z) (dims : list Z) : list (list Z * list Z) :=
  [(map startf dims, map edgef dims)].

Definition cells_of (dims : list Z) (blocks : list (list Z * list Z)) : list Z :=
  flat_map (fun b => block_cells dims (fst b) (snd b) 0) blocks.

Definition copy_sds_moves (dims : list Z) (eltsz buf flags comp : Z) : option (list Z) :=
  if strip_mined (zprod dims * eltsz) flags comp then strip_order dims eltsz buf
  else Some (cells_of dims (one_piece copy_sds_start copy_sds_edge dims)).

Definition copy_gr_moves (dims : list Z) : list Z := cells_of dims (one_piece copy_gr_start copy_gr_edge dims).

(** * Which calls are reached (round 4)

    [copy_gr_writelut_guards]: the conditions enclosing GRwritelut in copy_gr; [list_glb_exits_before_gr_attrs]: the
    conditions of the early exits of list_glb that precede the copy of the GR file attributes; [has_gr_elems]: the test
    that decides whether the GR interface is started on the output file. *)
Fixpoint ends_with (suffix s : str) : bool :=
  str_eqb s suffix || match s with [] => false | _ :: r => ends_with suffix r end.

Definition txt_has_pal : str := [104; 97; 115; 95; 112; 97; 108; 61; 61; 49].                       (* has_pal==1 *)
Definition txt_trip0 : str := [111; 112; 116; 105; 111; 110; 115; 45; 62; 116; 114; 105; 112; 61; 61; 48].  (* options->trip==0 *)
Definition txt_eq_fail : str := [61; 61; 70; 65; 73; 76].                                           (* ==FAIL *)
Definition txt_lt0 : str := [60; 48].                                                               (* <0 *)

(** an early exit that is taken only on the inspection trip or when a library / copy call reports failure *)
Definition benign_exit (c : str) : bool :=
  str_eqb c txt_trip0 || (existsb (Z.eqb 40) c && (ends_with txt_eq_fail c || ends_with txt_lt0 c)).

Definition only_guard (g : list str) (c : str) : bool :=
  match g with [x] => str_eqb x c | _ => false end.
