(** C15 -- all interfaces agree on the content of the same objects: theorem statements (placeholder). *)
From Coq Require Import ZArith List.
Require Import H4.MixSpec H4.MixModel.
Theorem placeholder_c15 : forall n : nat, n = n. Proof. exact (@eq_refl nat). Qed.
Print Assumptions placeholder_c15.
