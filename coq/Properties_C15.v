(** C15 -- all interfaces agree on the content of the same objects: theorem statements.

    What is proved (all closed under the global context) is agreement at *record level*: the records of the older
    storage conventions (NT, SDD, NDG/SDG member lists, ID, RIG member lists), as the writers of one interface
    emit them, are reconstructed to the same (rank, extents, type) / (x, y, components, interlace) by the readers
    of every other interface, for all objects.  Field sequences, constants and acceptance tests are read off the
    current sources by the translator (gen/Gen_Mix.v).  End-to-end agreement of the values (element store,
    Vgroup/Vdata layer, hyperslab engine, number conversion, coders, GR interlace conversion) is NOT proved here;
    it rests on the correspondence runs of checks/C15.py and on C01/C03/C05/C06/C07/C08/C09.                     *)
From Coq Require Import String ZArith Bool List Lia.
Require Import H4.gen.Gen_Mix H4.MixSpec H4.MixModel H4.MixProofs.
Import ListNotations.
Local Open Scope Z_scope.

(* ---- codec round trips ------------------------------------------------------------------------------ *)
Theorem field_codec_roundtrip : forall l1 l2 env rest,
  Forall2 same_shape l1 l2 -> Forall (field_ok env) l1 ->
  dec_fields l2 (enc_fields l1 env ++ rest) = Some (combine (map f_name l2) (map (fun f => env (f_name f)) l1)).
Proof. exact dec_enc_fields. Qed.
Print Assumptions field_codec_roundtrip.

Theorem id_roundtrip_all_pairs : forall r, id_ok r ->
  id_decode DFR8getrig_ID (id_encode DFR8putrig_ID r) = Some r /\
  id_decode DFGRgetrig_ID (id_encode DFGRaddrig_ID r) = Some r /\
  id_decode DFGRgetrig_ID (id_encode DFR8putrig_ID r) = Some r /\
  id_decode DFR8getrig_ID (id_encode DFGRaddrig_ID r) = Some r /\
  id_decode DFR8getrig_ID (id_encode GRIupdatemeta_ID r) = Some (id_pixel r) /\
  id_decode DFGRgetrig_ID (id_encode GRIupdatemeta_ID r) = Some (id_pixel r).
Proof.
  exact (fun r H => conj (id_roundtrip_dfr8 r H) (conj (id_roundtrip_dfgr r H) (conj (id_cross_dfr8_dfgr r H)
          (conj (id_cross_dfgr_dfr8 r H) (conj (id_cross_gr_dfr8 r H) (id_cross_gr_dfgr r H)))))).
Qed.
Print Assumptions id_roundtrip_all_pairs.

Theorem sdd_roundtrip_all_pairs : forall s, sdd_ok s ->
  sd_read_sdd (sdd_encode hdf_write_var_SDD s) = Some s /\ dfsd_read_sdd (sdd_encode DFSDIputndg_SDD s) = Some s /\
  sd_read_sdd (sdd_encode DFSDIputndg_SDD s) = Some s /\ dfsd_read_sdd (sdd_encode hdf_write_var_SDD s) = Some s.
Proof.
  exact (fun s H => conj (sdd_roundtrip_sd s H) (conj (sdd_roundtrip_dfsd s H) (conj (sdd_roundtrip_sd s H) (sdd_roundtrip_dfsd s H)))).
Qed.
Print Assumptions sdd_roundtrip_all_pairs.

Theorem nt_roundtrip_all_types : forall nt, In nt nt_all ->
  nt_decode (nt_encode nt) = Some (shown_nt nt) /\ dfsd_nt_decode (nt_encode nt) = Some (shown_nt nt) /\
  shown_nt nt = same_type nt /\ assoc hdf_unmap_type_switch (Z.land nt 255) = Some (nc_type_of nt) /\
  ntsize nt = nt_size nt /\ 0 < ntsize nt.
Proof. exact nt_roundtrip. Qed.
Print Assumptions nt_roundtrip_all_types.

(* ---- the SD reader: NDG view = Vgroup view ------------------------------------------------------------ *)
Theorem ndg_view_eq_vgroup_view : forall v st', var_ok v ->
  ndg_view (sd_write_var v ++ st') (sd_ndg_members v) = Some (the_view v) /\
  vg_view (sd_write_var v ++ st') (sd_write_vg v) = Some (the_view v).
Proof. exact ndg_view_eq_vgroup_view_lemma. Qed.
Print Assumptions ndg_view_eq_vgroup_view.

(** the SDS interfaces agree on rank, extents and type of every dataset (descriptions; corollary of the next one) *)
Theorem sds_descriptions_agree : forall v st', var_ok v ->
  let shown := (zlen (v_dims v), v_dims v, same_type (v_nt v), v_data_ref v) in
  ndg_view (sd_write_var v ++ st') (sd_ndg_members v) = Some shown /\
  vg_view (sd_write_var v ++ st') (sd_write_vg v) = Some shown /\
  dfsd_view (sd_write_var v ++ st') (sd_ndg_members v) = Some shown /\
  ndg_view (dfsd_put v ++ st') [(DFTAG_SD, v_data_ref v); (DFTAG_SDD, v_ref v)] = Some shown /\
  dfsd_view (dfsd_put v ++ st') [(DFTAG_SD, v_data_ref v); (DFTAG_SDD, v_ref v)] = Some shown.
Proof. exact sds_readers_agree. Qed.
Print Assumptions sds_descriptions_agree.

(** END TO END at the level of the element store, values included: a dataset written through SD (hdf_write_var's
    records + the data element SDwritedata stores) or through DFSD (DFSDIputndg's records + the data element) is handed
    back -- rank, extents, type name and EVERY VALUE -- by the SD reader on the NDG path, by the SD reader on the Vgroup
    path and by the DFSD reader, for every number type and flavour (conversion = element-wise byte reversal unless the
    file holds the host's order, applied with the type the READER decoded).
    Layers below the model (assumed here, verified elsewhere): the element store is a finite map (C01/C12), the Vgroup
    layer presents sd_write_vg unchanged (C07/C08), whole-dataset reads go through the slab engine (C03), the
    conversion kernel is byte reversal (C06).  Tied to the library by the R-vs-M runs on element dumps. *)
Theorem sds_values_agree_across_interfaces : forall v els st', var_ok v -> v_data_ref v <> 0 ->
  Forall (fun e => Z.of_nat (length e) = ntsize (v_nt v)) els ->
  let data := concat els in
  let shown := (zlen (v_dims v), v_dims v, same_type (v_nt v), v_data_ref v) in
  read_values ndg_view (sd_write_full v data st') (sd_ndg_members v) = Some (shown, data) /\
  read_values_vg (sd_write_full v data st') (sd_write_vg v) = Some (shown, data) /\
  read_values dfsd_view (sd_write_full v data st') (sd_ndg_members v) = Some (shown, data) /\
  read_values ndg_view (dfsd_put_full v data st') [(DFTAG_SD, v_data_ref v); (DFTAG_SDD, v_ref v)] = Some (shown, data) /\
  read_values dfsd_view (dfsd_put_full v data st') [(DFTAG_SD, v_data_ref v); (DFTAG_SDD, v_ref v)] = Some (shown, data).
Proof. exact sds_values_agree. Qed.
Print Assumptions sds_values_agree_across_interfaces.


(* ---- record dimensions and dimension scales in the older records ---------------------------------------- *)
(** the NDG of a record variable of an HDF file shows the variable's own record count, whatever the file-wide
    record count (other record variables) is *)
Theorem ndg_shows_own_record_count : forall shape vrecs hrecs nt dref ref ndgref st',
  let v := mkVar (ndg_dims true shape vrecs hrecs) nt dref ref ndgref in
  var_ok v ->
  ndg_view (sd_write_var v ++ st') (sd_ndg_members v) =
  Some (zlen shape, effective_dims shape vrecs, shown_nt nt, dref).
Proof. exact ndg_view_record_variable. Qed.
Print Assumptions ndg_shows_own_record_count.

(** the scales record: for every subset of the dimensions that carries a scale, the offset walk of hdf_read_ndgs and
    the sequential read of DFSDIgetndg both return exactly the scales DFSDIputndg stored *)
Theorem scales_record_roundtrip : forall scales sizes,
  Forall2 scale_fits scales sizes ->
  sd_read_scales sizes (sds_encode scales) = scales /\ dfsd_read_scales sizes (sds_encode scales) = scales.
Proof. exact (fun sc sz H => conj (sds_roundtrip_sd sc sz H) (sds_roundtrip_dfsd sc sz H)). Qed.
Print Assumptions scales_record_roundtrip.

Theorem record_and_scale_code_as_modelled :
  hdf_write_var_recdim =
    "if (val == NC_UNLIMITED) { if (handle->file_type == HDF_FILE) val = (*var)->numrecs; else val = handle->numrecs; }"%string /\
  hdf_read_ndgs_scale_start = "scale_offset = rank * sizeof(uint8)"%string /\
  hdf_read_ndgs_scale_walk =
    "if ((scalebuf) && (scalebuf[dim])) { vars[current_var]->numrecs = dimsizes[dim]; vars[current_var]->data_offset = scale_offset; scale_offset += dimsizes[dim] * DFKNTsize(scaletypes[dim]); } else { vars[current_var]->data_offset = -1; }"%string /\
  NC_UNLIMITED = 0.
Proof. exact source_tie_record_and_scales. Qed.
Print Assumptions record_and_scale_code_as_modelled.

(* ---- round 2: which variable carries a dimension's strings; reading into a larger array ------------------ *)
(** SDgetdimstrs: the variable whose strings are returned is named exactly like the dimension (never one whose name
    merely starts with the dimension's name), is one-dimensional and not an SDS; and it is found whenever it exists *)
Theorem dimension_strings_come_from_the_dimensions_own_variable :
  (forall dim var, name_match dim var = true <-> dim = var) /\
  (forall dim vars v, find_coordvar dim vars = Some v -> cv_name v = dim /\ cv_rank v = 1 /\ cv_is_sds v = false) /\
  (forall dim vars v, In v vars -> cv_name v = dim -> cv_rank v = 1 -> cv_is_sds v = false ->
                      find_coordvar dim vars <> None).
Proof. exact (conj name_match_iff (conj find_coordvar_exact find_coordvar_total)). Qed.
Print Assumptions dimension_strings_come_from_the_dimensions_own_variable.

(** DFSDIgetslice (DFSDgetdata / DFSDgetslice / DFSDreadslab): a dimension is merged into its neighbour only if it is
    whole in the file and in the caller's array; whole dimensions are merged (kernel) ... *)
Theorem getslice_collapse_kernel :
  (forall a w s f, collapse_break (a, w, s, f) = false -> w <= a -> 0 <= s -> s + w <= f -> a = w /\ s = 0 /\ w = f) /\
  (forall a : Z, collapse_break (a, a, 0, a) = false).
Proof. exact (conj collapse_only_whole_dimensions collapse_merges_whole_dimensions). Qed.
Print Assumptions getslice_collapse_kernel.

(** ... and therefore, by induction over the whole loop, for every rank and every window that fits: after the collapse
    every element of the window still lands at the same position of the caller's array and is taken from the same
    position of the file, in the same order ([cells] = the row-major list of (array position, file position)).
    What remains outside the model is the row loop that walks [cells] of the collapsed dimensions (Hseek / Hread /
    DFKconvert per row); it is tied by the padded-array runs (dfsdp views). *)
Theorem getslice_collapse_preserves_placement : forall fuel l, Forall gdim_ok l ->
  cells (collapse fuel l) = cells l /\ Forall gdim_ok (collapse fuel l).
Proof. exact collapse_preserves_cells. Qed.
Print Assumptions getslice_collapse_preserves_placement.

Theorem round2_code_as_modelled :
  SDgetdimstrs_namematch = "namelen == (*dp)->name->len && strncmp(name, (*dp)->name->values, strlen(name)) == 0"%string /\
  getslice_collapse_step = "wstart[i - 1] *= fdims[i]; wdims[i - 1] *= wdims[i]; adims[i - 1] *= adims[i]; fdims[i - 1] *= fdims[i]; rank--;"%string /\
  getslice_fast_readsize = "readsize = wdims[0] * fileNTsize;"%string.
Proof. exact source_tie_round2. Qed.
Print Assumptions round2_code_as_modelled.

Example ex_round2 :
  let lat := mkCv [108; 97; 116] 1 false ([1], [2], [3]) in
  let lat_bnds := mkCv [108; 97; 116; 95; 98] 1 false ([4], [5], [6]) in
  sd_getdimstrs [108; 97; 116] [lat; lat_bnds] = ([1], [2], [3]) /\
  name_match [108; 97; 116] [108; 97; 116; 95; 98] = false /\
  collapse 4 [(6, 4, 0, 4); (3, 3, 0, 3)] = [(6, 4, 0, 4); (3, 3, 0, 3)] /\
  collapse 4 [(4, 4, 0, 4); (5, 3, 0, 3)] = [(20, 12, 0, 12)].
Proof. vm_compute. repeat split; reflexivity. Qed.

(* ---- round 3: the single-file writer between datasets ---------------------------------------------------- *)
(** For every sequence of DFSDsetdimscale (with a scale or with NULL), DFSDsetdims / DFSDclear with new dimensions,
    DFSDsetNT with a new type and DFSDadddata: the scales record the NDG of each dataset refers to (a new one, or
    the one shared with the previous datasets) is read back, by hdf_read_ndgs' walk and by DFSDIgetndg, as exactly
    the scales in effect for that dataset; a dataset without record has no scale.  Which setter marks the record as
    modified / forgotten is read off dfsd.c (the four booleans below).
    The string records (Ref.luf) and the range (Ref.maxmin, one dataset only) follow below; the extents (Ref.dims:
    rewritten whenever <= 0) are covered by sdd_roundtrip_all_pairs per dataset. *)
Theorem writer_session_scales_records : forall ops, Forall wop_ok ops ->
  Forall put_reads_back (wsc_run (mkWs [] (-1) []) ops).
Proof. exact wsc_session_reads_back. Qed.
Print Assumptions writer_session_scales_records.

(** the same for every other Ref.* slot, generically: for every sequence of set / forget / write, the record a dataset
    refers to holds the value in effect; instantiated for the label/unit/format records (always written once modified)
    and the range (applies to one dataset), with the setter / reset behaviour read off dfsd.c *)
Theorem writer_session_slot_records : forall (A : Type) (present : A -> bool) (dflt : A) (oneshot : bool) ops st,
  sl_ok A present dflt st -> Forall (slop_ok A) ops ->
  Forall (sl_put_ok A present dflt) (sl_run true true oneshot present dflt st ops).
Proof. exact sl_run_ok. Qed.
Print Assumptions writer_session_slot_records.

Theorem writer_session_strings_and_range :
  (forall ops, Forall (slop_ok luf_value) ops ->
     Forall (sl_put_ok luf_value (fun _ => true) (None, [])) (luf_run (mkSlot (None, []) (-1) (None, [])) ops)) /\
  (forall ops, Forall (slop_ok range_value) ops ->
     Forall (sl_put_ok range_value (fun v => match v with Some _ => true | None => false end) None)
            (range_run (mkSlot None (-1) None) ops)).
Proof. exact (conj luf_session_ok range_session_ok). Qed.
Print Assumptions writer_session_strings_and_range.


Theorem scales_bookkeeping_as_modelled :
  DFSDsetdimscale_null_marks_modified = true /\ DFSDsetdimscale_set_marks_modified = true /\
  DFSDIclearNT_forgets_scales_record = true /\ DFSDIclear_forgets_scales_record = true.
Proof. exact (conj eq_refl (conj eq_refl (conj eq_refl eq_refl))). Qed.
Print Assumptions scales_bookkeeping_as_modelled.

Example ex_round3 :
  wsc_run (mkWs [] (-1) []) [WNewDims 2; WSet 1 (Some [7; 8]); WPut 2; WPut 3; WSet 1 None; WPut 4] =
    [([None; Some [7; 8]], Some [0; 1; 7; 8]); ([None; Some [7; 8]], Some [0; 1; 7; 8]); ([None; None], None)] /\
  Forall wop_ok [WNewDims 2; WSet 1 (Some [7; 8]); WPut 2; WPut 3; WSet 1 None; WPut 4] /\
  map (fun d => ds_scales d)
      (dfsd_session [OpDims [1; 2]; OpNT 20; OpScale 1 (Some [7; 8]); OpAdd [1; 2]; OpScale 1 None; OpAdd [3; 4]]) =
    [[None; Some [7; 8]]; [None; None]].
Proof. vm_compute. repeat split; try reflexivity; repeat constructor. Qed.

(* ---- round 4: what the single-file readers keep between calls -------------------------------------------- *)
(** DFANIopen: after a different file was opened no annotation directory (labels, descriptions) of the previous file is
    left; DF24getimage used without DF24getdims in between delivers exactly the 24-bit images, in order.  The four
    booleans behind these statements are read off dfan.c and df24.c. *)
Theorem annotation_directories_not_stale : forall (A : Type) (dirs : list A * list A),
  dfan_open false dirs = ([], []) /\ dfan_open true dirs = dirs.
Proof. exact dfan_open_no_stale_directory. Qed.
Print Assumptions annotation_directories_not_stale.

Theorem df24_sequential_reads_deliver_the_24bit_images : forall groups,
  df24_sequence groups = filter (fun g => g =? 3) groups.
Proof. exact df24_sequence_is_the_24bit_images. Qed.
Print Assumptions df24_sequential_reads_deliver_the_24bit_images.

Example ex_round4 :
  df24_sequence [1; 3; 1; 1; 3] = [3; 3] /\ dfan_open false ([7; 8], [9]) = ([], []) /\ dfan_open true ([7; 8], [9]) = ([7; 8], [9]).
Proof. vm_compute. repeat split; reflexivity. Qed.

(* ---- raster-image groups ---------------------------------------------------------------------------- *)
Theorem dfr8_group_read_by_dfr8_and_df24 : forall m st', ri_ok m -> ri_ncomp m = 1 ->
  dfr8_view (dfr8_put m ++ st') (dfr8_members m) = Some (rview_of m (ri_il m)) /\
  dfgr_view (dfr8_put m ++ st') (dfr8_members m) = Some (rview_of m (ri_il m)).
Proof. exact dfr8_rig_roundtrip. Qed.
Print Assumptions dfr8_group_read_by_dfr8_and_df24.

(** the group GR writes for the older interfaces is accepted by their readers with the image's description ... *)
Theorem gr_group_read_by_older_interfaces : forall m st', ri_ok m -> gr_compat m = true ->
  dfgr_view (gr_put m ++ st') (gr_members m) = Some (rview_of m MFGR_INTERLACE_PIXEL) /\
  (ri_ncomp m = 1 -> dfr8_view (gr_put m ++ st') (gr_members m) = Some (rview_of m MFGR_INTERLACE_PIXEL)).
Proof. exact gr_rig_read_by_old. Qed.
Print Assumptions gr_group_read_by_older_interfaces.

(** ... and with every pixel: an uncompressed 8-bit image written by GR or by DFR8 is handed back, description and
    pixels, by DFR8getrig and by DFGRgetrig followed by the read of the image element.  Outside the model: GR's own
    reader of the groups (GRIget_image_list), compressed elements (C05) and the interlace conversion of multi-component
    images (C09); these rest on the correspondence runs. *)
Theorem raster8_values_agree_across_interfaces : forall m pixels st', ri_ok m -> ri_ncomp m = 1 -> ri_ctag m = 0 ->
  (gr_compat m = true ->
     rig_read_pixels dfr8_view (gr_put_full m pixels st') (gr_members m) = Some (rview_of m MFGR_INTERLACE_PIXEL, pixels) /\
     rig_read_pixels dfgr_view (gr_put_full m pixels st') (gr_members m) = Some (rview_of m MFGR_INTERLACE_PIXEL, pixels)) /\
  rig_read_pixels dfr8_view (dfr8_put_full m pixels st') (dfr8_members m) = Some (rview_of m (ri_il m), pixels) /\
  rig_read_pixels dfgr_view (dfr8_put_full m pixels st') (dfr8_members m) = Some (rview_of m (ri_il m), pixels).
Proof. exact raster8_values_agree. Qed.
Print Assumptions raster8_values_agree_across_interfaces.


Theorem other_number_types_refused : forall ver ty w cls,
  ty <> DFNT_UCHAR8 -> ty <> DFNT_UINT8 -> rig_nt_ok [ver; ty; w; cls] = false.
Proof. exact rig_nt_refused. Qed.
Print Assumptions other_number_types_refused.

(* ---- maps between the views --------------------------------------------------------------------------- *)
Theorem interlace_codes_bijection :
  (forall a b, gr_il_of_dfil a = Some b <-> dfil_of_gr_il b = Some a) /\
  (forall il, In il [0; 1; 2] -> gr_il_of_dfil il = Some il /\ dfil_of_gr_il il = Some il).
Proof. exact (conj il_codes_inverse il_codes_total). Qed.
Print Assumptions interlace_codes_bijection.

Theorem dimension_order : forall x y, xy_of_gr_dims (gr_dims_of_xy x y) = Some (x, y).
Proof. exact dims_order_roundtrip. Qed.
Print Assumptions dimension_order.

(* ---- what the translator read off the current sources -------------------------------------------------- *)
Theorem writer_and_reader_field_sequences_agree :
  DFR8putrig_ID = DFR8getrig_ID /\ DFGRaddrig_ID = DFGRgetrig_ID /\ DFR8putrig_ID = DFGRgetrig_ID /\
  DFGRaddrig_LD = DFGRgetrig_ID /\
  map fst GRIupdatemeta_ID = map fst DFGRgetrig_ID /\ map fst GRIupdatemeta_LD = map fst DFGRgetrig_ID /\
  hdf_write_var_SDD = DFSDIputndg_SDD /\
  map (fun f => (f_width f, f_name f)) hdf_write_var_SDD = map (fun f => (f_width f, f_name f)) (firstn 4 DFSDIgetndg_SDD) /\
  hdf_read_rank_f ++ hdf_read_dimsizes_f ++ hdf_read_NT_f = firstn 4 DFSDIgetndg_SDD /\
  DFR8putrig_ID8 = [(2, false, "xdim"%string); (2, false, "ydim"%string)].
Proof. exact source_tie_layouts. Qed.
Print Assumptions writer_and_reader_field_sequences_agree.

(* ---- non-vacuity --------------------------------------------------------------------------------------- *)
Definition ex_var : svar := mkVar [2; 3] (DFNT_INT32 + DFNT_LITEND) 5 7 9.
Example ex_var_ok : var_ok ex_var.
Proof.
  unfold var_ok, ex_var; cbn. repeat split; try lia; try discriminate; try (repeat constructor; lia);
    try (vm_compute; tauto).
Qed.
Example ex_var_views :
  ndg_view (sd_write_var ex_var) (sd_ndg_members ex_var) = Some (2, [2; 3], 16408, 5) /\
  vg_view (sd_write_var ex_var) (sd_write_vg ex_var) = Some (2, [2; 3], 16408, 5) /\
  dfsd_view (dfsd_put ex_var) [(DFTAG_SD, 5); (DFTAG_SDD, 7)] = Some (2, [2; 3], 16408, 5) /\
  sdd_encode hdf_write_var_SDD (sd_sdd ex_var) = [0; 2; 0; 0; 0; 2; 0; 0; 0; 3; 0; 106; 0; 7; 0; 106; 0; 7; 0; 106; 0; 7].
Proof. vm_compute. repeat split; reflexivity. Qed.

Example ex_scales :
  Forall2 scale_fits [None; Some [7; 8]; None; Some [9; 10; 11; 12]] [6; 2; 3; 4] /\
  sds_encode [None; Some [7; 8]; None; Some [9; 10; 11; 12]] = [0; 1; 0; 1; 7; 8; 9; 10; 11; 12] /\
  scale_offsets [6; 2; 3; 4] [0; 1; 0; 1] 4 = [None; Some 4; None; Some 6] /\
  ndg_dims true [0; 3] 2 5 = [2; 3] /\ ndg_dims false [0; 3] 2 5 = [5; 3] /\
  var_ok (mkVar (ndg_dims true [0; 3] 2 5) DFNT_INT16 4 6 8).
Proof.
  repeat split; try reflexivity; try (repeat constructor; fail); try (cbn; lia); try discriminate;
    try (repeat constructor; cbn; lia); try (vm_compute; tauto).
Qed.

Example ex_deepening :
  read_values dfsd_view (sd_write_full ex_var [1; 0; 0; 0; 2; 0; 0; 0; 3; 0; 0; 0; 4; 0; 0; 0; 5; 0; 0; 0; 6; 0; 0; 0] [])
              (sd_ndg_members ex_var) =
    Some ((2, [2; 3], 16408, 5), [1; 0; 0; 0; 2; 0; 0; 0; 3; 0; 0; 0; 4; 0; 0; 0; 5; 0; 0; 0; 6; 0; 0; 0]) /\
  convert DFNT_INT16 [1; 2; 3; 4] = [2; 1; 4; 3] /\
  collapse 3 [(4, 4, 0, 4); (5, 3, 1, 6); (2, 2, 0, 2)] = [(20, 12, 4, 24); (2, 2, 0, 2)] /\
  cells [(2, 2, 0, 2); (3, 2, 1, 4)] = [(0, 2); (1, 3); (2, 4); (3, 5)] /\
  range_run (mkSlot None (-1) None) [SlSet (Some ([9], [1])); SlPut 2; SlPut 3] =
    [(Some ([9], [1]), Some (Some ([9], [1]))); (None, None)] /\
  luf_run (mkSlot (None, []) (-1) (None, [])) [SlSet (Some ([108], [], []), []); SlPut 2; SlPut 3] =
    [((Some ([108], [], []), []), Some (Some ([108], [], []), [])); ((Some ([108], [], []), []), Some (Some ([108], [], []), []))] /\
  rig_read_pixels dfr8_view (gr_put_full (mkRi 4 3 1 DFNT_UINT8 0 DFTAG_RI 2 0 0 1) [1; 2; 3; 4; 5; 6; 7; 8; 9; 10; 11; 12] [])
                  (gr_members (mkRi 4 3 1 DFNT_UINT8 0 DFTAG_RI 2 0 0 1)) =
    Some (mkRv 4 3 1 0 0 DFTAG_RI 2 0, [1; 2; 3; 4; 5; 6; 7; 8; 9; 10; 11; 12]).
Proof. vm_compute. repeat split; reflexivity. Qed.
Example ex_deepening_hyps :
  Forall (fun e => Z.of_nat (length e) = ntsize (v_nt ex_var)) [[1; 0; 0; 0]; [2; 0; 0; 0]] /\
  Forall gdim_ok [(4, 4, 0, 4); (5, 3, 1, 6); (2, 2, 0, 2)] /\
  Forall (slop_ok range_value) [SlSet (Some ([9], [1])); SlPut 2; SlPut 3].
Proof. repeat split; repeat constructor; cbn; lia. Qed.

Definition ex_img : rimage := mkRi 4 3 1 DFNT_UINT8 2 DFTAG_RI 2 0 3 1.
Example ex_img_ok : ri_ok ex_img /\ gr_compat ex_img = true /\ id_ok (ri_id ex_img) /\ sdd_ok (sd_sdd ex_var).
Proof.
  split; [| split; [| split]].
  - unfold ri_ok, ex_img; cbn. repeat split; try lia; try (left; reflexivity).
  - reflexivity.
  - apply ri_id_ok. unfold ri_ok, ex_img; cbn. repeat split; try lia; try (left; reflexivity).
  - apply sd_sdd_ok, ex_var_ok.
Qed.
Example ex_img_views :
  dfr8_view (gr_put ex_img) (gr_members ex_img) = Some (mkRv 4 3 1 0 0 DFTAG_RI 2 3) /\
  id_encode GRIupdatemeta_ID (ri_id ex_img) = [0; 0; 0; 4; 0; 0; 0; 3; 0; 106; 0; 1; 0; 1; 0; 0; 0; 0; 0; 0] /\
  rig_nt_ok [1; DFNT_INT8; 8; 0] = false /\ In (DFNT_FLOAT64 + DFNT_NATIVE) nt_all.
Proof. vm_compute. repeat split; try reflexivity. tauto. Qed.
