(** C05 -- skipping Huffman: the semi-splay preserves the tree invariant; full round trip. *)
From Coq Require Import ZArith List Bool Lia.
Require Import H4.gen.Gen_Comp H4.CompSpec H4.CompRleProofs H4.CompCodecModel.
Import ListNotations.
Local Open Scope Z_scope.

(** * the invariant on child / parent FUNCTIONS
    512 nodes 0..511 (internal 0..255, ROOT = 0; leaves 256..511) sit in the 512 child slots (side, j), j < 256;
    [U] maps every node to the owner of its slot.  ROOT itself occupies a slot (initially its own left slot). *)
Definition fwf (ch : bool -> Z -> Z) (U : Z -> Z) : Prop :=
  (forall s j, 0 <= j < 256 -> 0 <= ch s j < 512 /\ U (ch s j) = j) /\
  (forall j, 0 <= j < 256 -> ch false j <> ch true j) /\
  (forall x, 0 <= x < 512 -> 0 <= U x < 256 /\ exists s, ch s (U x) = x).

Section Swap.
  Variables (ch : bool -> Z -> Z) (U : Z -> Z).
  Variables (s1 s2 : bool) (c d a b : Z).
  Hypothesis W : fwf ch U.
  Hypothesis Hc : 0 <= c < 256.
  Hypothesis Hd : 0 <= d < 256.
  Hypothesis Hcd : c <> d.
  Hypothesis Ha : ch s1 c = a.
  Hypothesis Hb : ch s2 d = b.

  Definition ch' (s : bool) (j : Z) : Z :=
    if Bool.eqb s s1 && (j =? c) then b else if Bool.eqb s s2 && (j =? d) then a else ch s j.
  Definition U' (x : Z) : Z := if x =? b then c else if x =? a then d else U x.

  Lemma swap_ab : a <> b.
  Proof.
    destruct W as (W1 & _ & _). intros E. pose proof (proj2 (W1 s1 c Hc)) as E1. pose proof (proj2 (W1 s2 d Hd)) as E2.
    rewrite Ha in E1. rewrite Hb in E2. congruence.
  Qed.

  Lemma slot_inj s j s' j' : 0 <= j < 256 -> 0 <= j' < 256 -> ch s j = ch s' j' -> s = s' /\ j = j'.
  Proof.
    destruct W as (W1 & W2 & _). intros Hj Hj' E.
    assert (j = j') by (pose proof (proj2 (W1 s j Hj)); pose proof (proj2 (W1 s' j' Hj')); congruence). subst j'.
    split; [|reflexivity]. destruct s, s'; auto; exfalso; apply (W2 j Hj); congruence.
  Qed.

  Lemma swap_fwf : fwf ch' U'.
  Proof.
    pose proof swap_ab as Hab. pose proof W as (W1 & W2 & W3).
    assert (Ra : 0 <= a < 512) by (rewrite <- Ha; apply W1; assumption).
    assert (Rb : 0 <= b < 512) by (rewrite <- Hb; apply W1; assumption).
    assert (Ua : U a = c) by (rewrite <- Ha; apply W1; assumption).
    assert (Ub : U b = d) by (rewrite <- Hb; apply W1; assumption).
    split; [|split].
    - intros s j Hj. unfold ch', U'.
      destruct (Bool.eqb s s1 && (j =? c)) eqn:E1.
      + apply andb_true_iff in E1. destruct E1 as [_ E1]. apply Z.eqb_eq in E1. subst j.
        rewrite Z.eqb_refl. split; [lia | reflexivity].
      + destruct (Bool.eqb s s2 && (j =? d)) eqn:E2.
        * apply andb_true_iff in E2. destruct E2 as [_ E2]. apply Z.eqb_eq in E2. subst j.
          destruct (Z.eqb_spec a b); [contradiction|]. rewrite Z.eqb_refl. split; [lia | reflexivity].
        * destruct (W1 s j Hj) as [R1 U1]. split; [assumption|].
          destruct (Z.eqb_spec (ch s j) b) as [Eb|_].
          { rewrite <- Hb in Eb. destruct (slot_inj s j s2 d Hj Hd Eb) as [-> ->].
            rewrite Bool.eqb_reflx, Z.eqb_refl in E2. discriminate. }
          destruct (Z.eqb_spec (ch s j) a) as [Ea|_]; [|assumption].
          rewrite <- Ha in Ea. destruct (slot_inj s j s1 c Hj Hc Ea) as [-> ->].
          rewrite Bool.eqb_reflx, Z.eqb_refl in E1. discriminate.
    - intros j Hj. unfold ch'. intros E.
      destruct (Z.eqb_spec j c) as [->|Nc].
      + destruct (Z.eqb_spec c d); [contradiction|]. rewrite !andb_false_r in E.
        destruct s1; cbn in E.
        * (* ch false c = b *) rewrite <- Hb in E. destruct (slot_inj false c s2 d Hc Hd E). contradiction.
        * rewrite <- Hb in E. symmetry in E. destruct (slot_inj true c s2 d Hc Hd E). contradiction.
      + rewrite !andb_false_r in E. destruct (Z.eqb_spec j d) as [->|Nd].
        * destruct s2; cbn in E.
          -- rewrite <- Ha in E. destruct (slot_inj false d s1 c Hd Hc E). congruence.
          -- rewrite <- Ha in E. symmetry in E. destruct (slot_inj true d s1 c Hd Hc E). congruence.
        * rewrite !andb_false_r in E. exact (W2 j Hj E).
    - intros x Hx. unfold U'. destruct (Z.eqb_spec x b) as [->|Nb].
      + split; [lia|]. exists s1. unfold ch'. rewrite Bool.eqb_reflx, Z.eqb_refl. reflexivity.
      + destruct (Z.eqb_spec x a) as [->|Na].
        * split; [lia|]. exists s2. unfold ch'. destruct (Z.eqb_spec d c); [congruence|]. rewrite andb_false_r.
          rewrite Bool.eqb_reflx, Z.eqb_refl. reflexivity.
        * destruct (W3 x Hx) as [R (s & E)]. split; [assumption|]. exists s. unfold ch'.
          destruct (Bool.eqb s s1 && (U x =? c)) eqn:E1.
          { apply andb_true_iff in E1. destruct E1 as [E1 E1']. apply Bool.eqb_prop in E1. apply Z.eqb_eq in E1'. subst s. rewrite E1' in E. congruence. }
          destruct (Bool.eqb s s2 && (U x =? d)) eqn:E2; [|assumption].
          apply andb_true_iff in E2. destruct E2 as [E2 E2']. apply Bool.eqb_prop in E2. apply Z.eqb_eq in E2'. subst s. rewrite E2' in E. congruence.
  Qed.
End Swap.

(** * every node reaches ROOT by following the parent pointers *)
Inductive reaches (U : Z -> Z) : Z -> nat -> Prop :=
| reach_root : reaches U 0 O
| reach_step x n : x <> 0 -> 0 <= x < 512 -> reaches U (U x) n -> reaches U x (S n).

Lemma reaches_fun U x n : reaches U x n -> forall m, reaches U x m -> n = m.
Proof.
  induction 1 as [|x n Hx Hr H IH]; intros m Hm; inversion Hm; subst; try congruence.
  f_equal. apply IH. assumption.
Qed.

Lemma reaches_no_self U x n : reaches U x n -> x <> 0 -> U x <> x.
Proof.
  intros H Hx E. inversion H as [|x0 m Hx0 Hr Hm]; subst; [congruence|]. rewrite E in Hm.
  pose proof (reaches_fun _ _ _ H _ Hm). lia.
Qed.
Lemma reaches_parent U x n : reaches U x n -> x <> 0 -> exists m, reaches U (U x) m.
Proof. intros H Hx. inversion H; subst; [congruence|]. eauto. Qed.

Section ReachSwap.
  Variables (U : Z -> Z) (a b c d : Z).
  Hypothesis Ua : U a = c.
  Hypothesis Uc : U c = d.
  Hypothesis Ub : U b = d.
  Hypothesis Ha0 : a <> 0.
  Hypothesis Hc0 : c <> 0.
  Hypothesis Hca : c <> a.
  Hypothesis Hcb : c <> b.
  Hypothesis Hab : a <> b.
  Hypothesis Rc : 0 <= c < 512.
  Let U2 (x : Z) : Z := if x =? b then c else if x =? a then d else U x.

  Lemma reaches_swap : forall n x, reaches U x n -> exists n', reaches U2 x n'.
  Proof.
    induction n as [n IH] using lt_wf_ind. intros x H. destruct H as [|x m Hx Hr Hm].
    - exists O. constructor.
    - destruct (Z.eq_dec x b) as [->|Nb].
      + rewrite Ub in Hm. destruct (IH m ltac:(lia) d Hm) as (m' & Hd).
        assert (Hcr : reaches U2 c (S m')).
        { constructor; auto. unfold U2. destruct (Z.eqb_spec c b); [contradiction|]. destruct (Z.eqb_spec c a); [contradiction|].
          rewrite Uc. exact Hd. }
        exists (S (S m')). constructor; auto. unfold U2. rewrite Z.eqb_refl. exact Hcr.
      + destruct (Z.eq_dec x a) as [->|Na].
        * rewrite Ua in Hm. remember c as c0 eqn:Ec0 in Hm. destruct Hm as [|c1 k Hc Hrc Hk]; [congruence|]. subst c1. rewrite Uc in Hk.
          destruct (IH k ltac:(lia) d Hk) as (k' & Hd). exists (S k'). constructor; auto.
          unfold U2. destruct (Z.eqb_spec a b); [contradiction|]. rewrite Z.eqb_refl. exact Hd.
        * destruct (IH m ltac:(lia) (U x) Hm) as (m' & Hu). exists (S m'). constructor; auto.
          unfold U2. destruct (Z.eqb_spec x b); [contradiction|]. destruct (Z.eqb_spec x a); [contradiction|]. exact Hu.
  Qed.
End ReachSwap.

(** * arrays as lists *)
Lemma my_nth_firstn {A} (d : A) : forall k n l, (n < k)%nat -> nth n (firstn k l) d = nth n l d.
Proof. induction k; intros n l H; [lia|]. destruct l; [destruct n; reflexivity|]. destruct n; cbn; [reflexivity|]. apply IHk. lia. Qed.
Lemma my_nth_skipn {A} (d : A) : forall k n l, nth n (skipn k l) d = nth (k + n) l d.
Proof. induction k; intros n l; [reflexivity|]. destruct l; [destruct n; reflexivity|]. cbn. apply IHk. Qed.
Lemma tab_upd l i v j : 0 <= i < zlen l -> 0 <= j -> tab (upd l i v) j = if j =? i then v else tab l j.
Proof.
  intros Hi Hj. unfold tab, upd, zlen in *.
  assert (Hlen : (Z.to_nat i < length l)%nat) by lia.
  destruct (Z.eqb_spec j i) as [->|Ne].
  - rewrite app_nth2; rewrite firstn_length_le by lia; [|lia]. rewrite Nat.sub_diag. reflexivity.
  - destruct (Z.lt_ge_cases j i).
    + rewrite app_nth1 by (rewrite firstn_length_le by lia; lia). apply my_nth_firstn. lia.
    + rewrite app_nth2 by (rewrite firstn_length_le by lia; lia). rewrite firstn_length_le by lia.
      destruct (Z.to_nat j - Z.to_nat i)%nat as [|k] eqn:Ek; [lia|]. cbn [nth].
      rewrite my_nth_skipn. f_equal. lia.
Qed.
Lemma zlen_upd l i v : 0 <= i < zlen l -> zlen (upd l i v) = zlen l.
Proof.
  intros Hi. unfold upd, zlen in *. rewrite app_length. cbn [length]. rewrite firstn_length_le by lia.
  rewrite skipn_length. lia.
Qed.

Definition chT (t : tree) (s : bool) (j : Z) : Z := if s then tab (t_right t) j else tab (t_left t) j.
Definition UT (t : tree) (x : Z) : Z := tab (t_up t) x.
Definition twf (t : tree) : Prop :=
  zlen (t_left t) = 256 /\ zlen (t_right t) = 256 /\ zlen (t_up t) = 513 /\ fwf (chT t) (UT t) /\
  forall x, 0 <= x < 512 -> exists n, reaches (UT t) x n.

Lemma fwf_ext ch1 U1 ch2 U2 :
  (forall s j, 0 <= j < 256 -> ch1 s j = ch2 s j) -> (forall x, 0 <= x < 512 -> U1 x = U2 x) -> fwf ch1 U1 -> fwf ch2 U2.
Proof.
  intros Ec Eu (W1 & W2 & W3). split; [|split].
  - intros s j Hj. rewrite <- Ec by assumption. destruct (W1 s j Hj) as [R E]. split; [assumption|]. rewrite <- Eu by assumption. exact E.
  - intros j Hj. rewrite <- !Ec by assumption. auto.
  - intros x Hx. rewrite <- Eu by assumption. destruct (W3 x Hx) as [R (s & E)]. split; [assumption|]. exists s. rewrite <- Ec by assumption. exact E.
Qed.
Lemma reaches_ext U1 U2 : (forall x, 0 <= x < 512 -> U1 x = U2 x) -> forall x n, reaches U1 x n -> reaches U2 x n.
Proof. intros E x n H. induction H as [|x n Hx Hr H IH]; constructor; auto. rewrite <- E by assumption. exact IH. Qed.

(** * one semi-rotation of HCIcskphuff_splay *)
Definition skp_rot (t : tree) (a : Z) : tree * Z :=
  let c := tab (t_up t) a in
  let d := tab (t_up t) c in
  let b0 := tab (t_left t) d in
  let '(b, l1, r1) :=
    if c =? b0 then (tab (t_right t) d, t_left t, upd (t_right t) d a) else (b0, upd (t_left t) d a, t_right t) in
  let '(l2, r2) := if a =? tab l1 c then (upd l1 c b, r1) else (l1, upd r1 c b) in
  (mk_tree l2 r2 (upd (upd (t_up t) a d) b c), d).

Lemma loop_unfold f t a :
  skp_splay_loop (S f) t a =
  if negb (tab (t_up t) a =? ROOT) then
    if snd (skp_rot t a) =? ROOT then fst (skp_rot t a) else skp_splay_loop f (fst (skp_rot t a)) (snd (skp_rot t a))
  else t.
Proof.
  cbn [skp_splay_loop]. unfold skp_rot. destruct (negb (tab (t_up t) a =? ROOT)); [|reflexivity].
  destruct (tab (t_up t) a =? tab (t_left t) (tab (t_up t) (tab (t_up t) a)));
    match goal with |- context [if a =? ?x then _ else _] => destruct (a =? x) end; reflexivity.
Qed.

Lemma rot_twf t a : twf t -> 0 <= a < 512 -> a <> 0 -> tab (t_up t) a <> 0 ->
  twf (fst (skp_rot t a)) /\ 0 <= snd (skp_rot t a) < 256.
Proof.
  intros (LL & LR & LU & W & Rch) Ha Ha0 Hc0.
  pose proof W as (W1 & W2 & W3).
  set (c := tab (t_up t) a) in *. set (d := tab (t_up t) c).
  destruct (W3 a Ha) as [Rc (s1 & Es1)]. change (UT t a) with c in *.
  assert (Rc512 : 0 <= c < 512) by lia.
  destruct (W3 c Rc512) as [Rd (s2c & Es2c)]. change (UT t c) with d in *.
  (* c is neither a nor d: the chain from a reaches ROOT *)
  destruct (Rch a Ha) as (n & Hra).
  assert (Hca : c <> a) by (apply (reaches_no_self _ _ _ Hra Ha0)).
  assert (Hcd : c <> d).
  { destruct (reaches_parent _ _ _ Hra Ha0) as (m & Hrc). intros E. apply (reaches_no_self _ _ _ Hrc Hc0). symmetry. exact E. }
  set (s2 := negb s2c). set (b := chT t s2 d).
  assert (Hcb : c <> b).
  { unfold b, s2. rewrite <- Es2c. intros E. destruct s2c; cbn in E; apply (W2 d Rd); cbn; congruence. }
  assert (Hab : a <> b) by (apply (swap_ab (chT t) (UT t) s1 s2 c d a b W Rc Rd Hcd Es1 eq_refl)).
  assert (Rb : 0 <= b < 512) by (apply W1; assumption).
  assert (Ub : UT t b = d) by (apply W1; assumption).
  (* what the code computes *)
  assert (Hrot : skp_rot t a =
      (mk_tree (if s1 then (if s2 then t_left t else upd (t_left t) d a)
                else (if s2 then upd (t_left t) c b else upd (upd (t_left t) d a) c b))
               (if s1 then (if s2 then upd (upd (t_right t) d a) c b else upd (t_right t) c b)
                else (if s2 then upd (t_right t) d a else t_right t))
               (upd (upd (t_up t) a d) b c), d)).
  { unfold skp_rot. fold c. fold d.
    assert (Eleft : (c =? tab (t_left t) d) = s2).
    { unfold s2. destruct s2c; cbn in Es2c |- *.
      - destruct (Z.eqb_spec c (tab (t_left t) d)) as [E|]; [|reflexivity]. exfalso. apply (W2 d Rd). cbn. congruence.
      - rewrite Es2c. apply Z.eqb_refl. }
    rewrite Eleft.
    assert (Eb : (if s2 then tab (t_right t) d else tab (t_left t) d) = b) by (unfold b, chT; destruct s2; reflexivity).
    assert (Etest : forall l1, tab l1 c = tab (t_left t) c -> (a =? tab l1 c) = negb s1).
    { intros l1 ->. destruct s1; cbn in Es1 |- *.
      - destruct (Z.eqb_spec a (tab (t_left t) c)) as [E|]; [|reflexivity]. exfalso. apply (W2 c Rc). cbn. congruence.
      - rewrite Es1. apply Z.eqb_refl. }
    destruct s2.
    - rewrite (Etest (t_left t) eq_refl). destruct s1; reflexivity.
    - rewrite (Etest (upd (t_left t) d a)).
      + destruct s1; reflexivity.
      + rewrite tab_upd by lia. destruct (Z.eqb_spec c d); [contradiction | reflexivity]. }
  rewrite Hrot. cbn [fst snd]. split; [|assumption].
  assert (Lens : zlen (upd (upd (t_up t) a d) b c) = 513) by (rewrite !zlen_upd; rewrite ?zlen_upd; lia).
  unfold twf. cbn [t_left t_right t_up].
  assert (ExtU : forall x, 0 <= x < 512 -> U' (UT t) c d a b x = tab (upd (upd (t_up t) a d) b c) x).
  { intros x Hx. unfold U', UT. rewrite tab_upd by (rewrite ?zlen_upd; lia). destruct (Z.eqb_spec x b); [reflexivity|].
    rewrite tab_upd by lia. reflexivity. }
  split; [|split; [|split; [|split]]].
  - destruct s1, s2; rewrite ?zlen_upd; rewrite ?zlen_upd; lia.
  - destruct s1, s2; rewrite ?zlen_upd; rewrite ?zlen_upd; lia.
  - exact Lens.
  - (* the slot / parent invariant: the code's arrays are the swapped functions *)
    apply (fwf_ext (ch' (chT t) s1 s2 c d a b) (U' (UT t) c d a b)).
    + intros s j Hj. unfold ch', chT. cbn [t_left t_right].
      destruct s, s1, s2; cbn [Bool.eqb andb];
        repeat (rewrite tab_upd by (rewrite ?zlen_upd; lia));
        destruct (Z.eqb_spec j c); destruct (Z.eqb_spec j d); try reflexivity; try lia; subst; try contradiction; reflexivity.
    + intros x Hx. unfold UT at 2. cbn [t_up]. apply ExtU. exact Hx.
    + apply swap_fwf; auto.
  - (* every node still reaches ROOT *)
    intros x Hx. destruct (Rch x Hx) as (m & Hm).
    destruct (reaches_swap (UT t) a b c d eq_refl eq_refl Ub Hc0 Hca Hcb Rc512 m x Hm) as (m' & Hm').
    exists m'. apply (reaches_ext (fun x => if x =? b then c else if x =? a then d else UT t x)); [|exact Hm'].
    intros y Hy. unfold UT at 2. cbn [t_up]. rewrite <- ExtU by assumption. reflexivity.
Qed.

(** * the whole semi-splay keeps the invariant (whatever the fuel) *)
Lemma splay_loop_twf : forall fuel t a, twf t -> 0 <= a < 512 -> a <> 0 -> twf (skp_splay_loop fuel t a).
Proof.
  induction fuel as [|f IH]; intros t a W Ha Ha0; [exact W|].
  rewrite loop_unfold. change ROOT with 0. destruct (Z.eqb_spec (tab (t_up t) a) 0) as [E|Ne]; cbn [negb]; [exact W|].
  destruct (rot_twf t a W Ha Ha0 Ne) as [W' Rd].
  destruct (Z.eqb_spec (snd (skp_rot t a)) 0) as [E0|N0]; [exact W'|].
  apply IH; auto. lia.
Qed.
Lemma splay_twf t b : twf t -> 0 <= b < 256 -> twf (skp_splay t b).
Proof. intros W Hb. unfold skp_splay. apply splay_loop_twf; auto; unfold SUCCMAX; lia. Qed.

(** * the initial tree *)
Fixpoint reachf (U : Z -> Z) (fuel : nat) (x : Z) : bool :=
  if x =? 0 then true else
  match fuel with O => false | S f => (0 <=? x) && (x <? 512) && reachf U f (U x) end.
Lemma reachf_sound U : forall fuel x, reachf U fuel x = true -> exists n, reaches U x n.
Proof.
  induction fuel as [|f IH]; intros x H; cbn [reachf] in H.
  - destruct (Z.eqb_spec x 0) as [E|Nx]; [|discriminate]. subst x. exists O. constructor.
  - destruct (Z.eqb_spec x 0) as [E|Nx]; [subst x; exists O; constructor|].
    rewrite !andb_true_iff in H. destruct H as [[H1 H2] H3]. apply Z.leb_le in H1. apply Z.ltb_lt in H2.
    destruct (IH _ H3) as (n & Hn). exists (S n). constructor; auto.
Qed.

Definition fwfb (ch : bool -> Z -> Z) (U : Z -> Z) : bool :=
  forallb (fun j => forallb (fun s => (0 <=? ch s j) && (ch s j <? 512) && (U (ch s j) =? j)) [false; true]
                    && negb (ch false j =? ch true j)) (zseq 256)
  && forallb (fun x => (0 <=? U x) && (U x <? 256) && ((ch false (U x) =? x) || (ch true (U x) =? x))) (zseq 512).
Lemma fwfb_sound ch U : fwfb ch U = true -> fwf ch U.
Proof.
  unfold fwfb. rewrite andb_true_iff. intros [H1 H2]. split; [|split].
  - intros s j Hj. pose proof (zrange_forall _ 256 H1 j Hj) as H. cbv beta in H. rewrite andb_true_iff in H. destruct H as [H _].
    cbn [forallb] in H. rewrite !andb_true_iff in H. destruct H as [[[A1 A2] A3] [[[B1 B2] B3] _]].
    destruct s; [split; [lia | now apply Z.eqb_eq] | split; [lia | now apply Z.eqb_eq]].
  - intros j Hj. pose proof (zrange_forall _ 256 H1 j Hj) as H. cbv beta in H. rewrite andb_true_iff in H. destruct H as [_ H].
    apply negb_true_iff in H. apply Z.eqb_neq in H. exact H.
  - intros x Hx. pose proof (zrange_forall _ 512 H2 x Hx) as H. cbv beta in H. rewrite !andb_true_iff, orb_true_iff in H.
    destruct H as [[A1 A2] A3]. split; [lia|]. destruct A3 as [A|A]; apply Z.eqb_eq in A; [exists false | exists true]; exact A.
Qed.

Lemma tree_init_twf : twf tree_init.
Proof.
  unfold twf. split; [now vm_compute|]. split; [now vm_compute|]. split; [now vm_compute|]. split.
  - apply fwfb_sound. now vm_compute.
  - intros x Hx. apply (reachf_sound (UT tree_init) 12).
    exact (zrange_forall (fun x => reachf (UT tree_init) 12 x) 512 ltac:(now vm_compute) x Hx).
Qed.

(** * the walk to ROOT visits distinct nodes, so it is shorter than 512 *)
Fixpoint chain (U : Z -> Z) (x : Z) (n : nat) : list Z :=
  match n with O => [] | S m => x :: chain U (U x) m end.

Lemma chain_props U x n : reaches U x n ->
  forall y, In y (chain U x n) -> exists k, (1 <= k <= n)%nat /\ reaches U y k /\ 1 <= y < 512.
Proof.
  induction 1 as [|x n Hx Hr H IH]; intros y Hy; cbn [chain] in Hy; [contradiction|].
  destruct Hy as [<-|Hy].
  - exists (S n). split; [lia|]. split; [constructor; auto | lia].
  - destruct (IH y Hy) as (k & Hk & Rk & Ry). exists k. split; [lia|]. auto.
Qed.
Lemma chain_nodup U x n : reaches U x n -> NoDup (chain U x n).
Proof.
  induction 1 as [|x n Hx Hr H IH]; cbn [chain]; constructor; auto.
  intros Hin. destruct (chain_props U (U x) n H x Hin) as (k & Hk & Rk & _).
  assert (Rx : reaches U x (S n)) by (constructor; auto).
  pose proof (reaches_fun _ _ _ Rx _ Rk). lia.
Qed.
Lemma chain_length U x n : length (chain U x n) = n.
Proof. revert x. induction n; intros x; cbn; auto. Qed.
Lemma zseq_from_length a n : length (zseq_from a n) = n.
Proof. revert a. induction n; intros a; cbn; auto. Qed.

Lemma reaches_bound U x n : reaches U x n -> (n <= 511)%nat.
Proof.
  intros H. rewrite <- (chain_length U x n). rewrite <- (zseq_from_length 1 511).
  apply NoDup_incl_length; [now apply chain_nodup|].
  intros y Hy. destruct (chain_props U x n H y Hy) as (_ & _ & _ & Ry). apply zseq_from_in. lia.
Qed.

(** * the code of a node (walk up) leads back to the node (walk down) *)
Lemma code_walk t : fwf (chT t) (UT t) -> forall x n, reaches (UT t) x n ->
  exists code, length code = n /\
    (forall fuel acc, (n <= fuel)%nat -> x <> 0 -> skp_path_up fuel t x acc = code ++ acc) /\
    (forall f rest, skp_walk_down (n + f) t 0 (code ++ rest) =
                    if x <=? 255 then skp_walk_down f t x rest else Some (x - 256, rest)).
Proof.
  intros (W1 & W2 & W3). induction 1 as [|x n Hx Hr H IH].
  - exists []. split; [reflexivity|]. split; [intros; congruence|]. intros f rest. reflexivity.
  - destruct IH as (cp & Lp & Pp & Wp). destruct (W3 x Hr) as [Rp (s & Es)].
    set (p := UT t x) in *. set (bit := tab (t_right t) p =? x).
    exists (cp ++ [bit]). split; [rewrite app_length; cbn; lia|]. split.
    + intros fuel acc Hf _. destruct fuel as [|fuel']; [lia|]. cbn [skp_path_up]. change (tab (t_up t) x) with p. fold bit.
      change ROOT with 0. destruct (Z.eqb_spec p 0) as [E0|N0].
      * rewrite E0 in H. pose proof (reaches_fun _ _ _ H _ (reach_root _)). subst n. destruct cp; [reflexivity | discriminate].
      * rewrite Pp by (auto; lia). rewrite <- app_assoc. reflexivity.
    + intros f rest. replace (S n + f)%nat with (n + S f)%nat by lia. rewrite <- app_assoc. cbn [app].
      rewrite Wp. destruct (Z.leb_spec p 255); [|lia]. cbn [skp_walk_down].
      assert (Ex : (if bit then tab (t_right t) p else tab (t_left t) p) = x).
      { unfold bit. destruct (Z.eqb_spec (tab (t_right t) p) x) as [E|N]; [exact E|]. destruct s; cbn in Es; [contradiction | exact Es]. }
      rewrite Ex. unfold skp_dec_internal_max, skp_leaf_base. reflexivity.
Qed.

Lemma skp_code_walk t b : twf t -> 0 <= b < 256 ->
  forall suffix, skp_walk_down 600 t ROOT (skp_code t b ++ suffix) = Some (b, suffix).
Proof.
  intros (_ & _ & _ & W & Rch) Hb suffix. unfold skp_code, SUCCMAX, ROOT.
  destruct (Rch (b + 256) ltac:(lia)) as (n & Hn). pose proof (reaches_bound _ _ _ Hn) as Bn.
  destruct (code_walk t W _ _ Hn) as (code & Lc & Pc & Wc).
  rewrite (Pc 600%nat [] ltac:(lia) ltac:(lia)). rewrite app_nil_r.
  replace 600%nat with (n + (600 - n))%nat by lia. rewrite Wc. destruct (Z.leb_spec (b + 256) 255); [lia|].
  f_equal. f_equal. lia.
Qed.

(** * lanes: encoder and decoder stay in lock step, every symbol decodes to itself *)
Lemma Forall_nth_twf trees pos : Forall twf trees -> (pos < length trees)%nat -> twf (nth pos trees tree_init).
Proof. intros F H. rewrite Forall_forall in F. apply F. now apply nth_In. Qed.

Lemma my_Forall_firstn {A} (P : A -> Prop) : forall n l, Forall P l -> Forall P (firstn n l).
Proof. induction n; intros l H; cbn; [constructor|]. destruct H; constructor; auto. Qed.
Lemma my_Forall_skipn {A} (P : A -> Prop) : forall n l, Forall P l -> Forall P (skipn n l).
Proof. induction n; intros l H; cbn; [assumption|]. destruct H; [constructor | auto]. Qed.

Lemma lanes_update trees pos t' : Forall twf trees -> (pos < length trees)%nat -> twf t' ->
  Forall twf (firstn pos trees ++ t' :: skipn (S pos) trees) /\
  length (firstn pos trees ++ t' :: skipn (S pos) trees) = length trees.
Proof.
  intros F H W. split.
  - apply Forall_app. split; [now apply my_Forall_firstn|]. constructor; [assumption | now apply my_Forall_skipn].
  - rewrite app_length. cbn [length]. rewrite firstn_length_le by lia. rewrite skipn_length. lia.
Qed.

Lemma skp_bits_roundtrip : forall bytes trees pos bits,
  Forall twf trees -> (pos < length trees)%nat -> Forall byte bytes ->
  skp_decode_bits (length bytes) trees pos (skp_encode_bits trees pos bytes ++ bits) = Some bytes.
Proof.
  induction bytes as [|b rest IH]; intros trees pos bits F Hp Hb; [reflexivity|].
  inversion Hb as [|? ? Hb1 Hbr]; subst. unfold byte in Hb1.
  pose proof (Forall_nth_twf trees pos F Hp) as Wt.
  cbn [length skp_decode_bits skp_encode_bits]. rewrite <- app_assoc.
  rewrite (skp_code_walk _ b Wt Hb1).
  destruct (lanes_update trees pos (skp_splay (nth pos trees tree_init) b) F Hp (splay_twf _ _ Wt Hb1)) as [F' L'].
  rewrite IH; auto. rewrite L'. apply Nat.mod_upper_bound. lia.
Qed.

(** * bits <-> bytes *)
Lemma my_firstn_repeat {A} (x : A) : forall k n, (k <= n)%nat -> firstn k (repeat x n) = repeat x k.
Proof. induction k; intros n H; [reflexivity|]. destruct n; [lia|]. cbn. f_equal. apply IHk. lia. Qed.
Lemma field_bits_bits_value8 l : length l = 8%nat -> field_bits 8 (bits_value l) = l.
Proof.
  intros H. do 9 (destruct l as [|? l]; try discriminate).
  repeat match goal with b : bool |- _ => destruct b end; reflexivity.
Qed.

Lemma bytes_bits_roundtrip : forall f bits, (length bits <= 8 * f)%nat ->
  exists pad, bytes_to_bits (bits_to_bytes bits f) = bits ++ repeat false pad.
Proof.
  induction f as [|f IH]; intros bits H.
  - destruct bits; [|cbn in H; lia]. exists O. reflexivity.
  - destruct bits as [|b0 bt] eqn:Eb; [exists O; reflexivity|]. rewrite <- Eb in *. cbn [bits_to_bytes].
    assert (Hne : bits <> []) by (rewrite Eb; discriminate).
    replace (match bits with [] => [] | _ :: _ => bits_value (firstn 8 (bits ++ repeat false 7)) :: bits_to_bytes (skipn 8 bits) f end)
      with (bits_value (firstn 8 (bits ++ repeat false 7)) :: bits_to_bytes (skipn 8 bits) f) by (rewrite Eb; reflexivity).
    unfold bytes_to_bits. cbn [map concat]. fold (bytes_to_bits (bits_to_bytes (skipn 8 bits) f)).
    assert (L8 : length (firstn 8 (bits ++ repeat false 7)) = 8%nat).
    { rewrite firstn_length_le; [reflexivity|]. rewrite app_length, repeat_length. rewrite Eb. cbn. lia. }
    rewrite (field_bits_bits_value8 _ L8).
    destruct (le_lt_dec 8 (length bits)) as [Hge|Hlt].
    + destruct (IH (skipn 8 bits)) as (pad & E); [rewrite skipn_length; lia|]. rewrite E. exists pad.
      rewrite firstn_app. replace (8 - length bits)%nat with O by lia. rewrite firstn_O, app_nil_r.
      rewrite app_assoc. rewrite firstn_skipn. reflexivity.
    + exists (8 - length bits)%nat. rewrite (skipn_all2 bits) by lia.
      replace (bytes_to_bits (bits_to_bytes [] f)) with (@nil bool) by (destruct f; reflexivity).
      rewrite app_nil_r. rewrite firstn_app, (firstn_all2 bits) by lia. f_equal.
      apply my_firstn_repeat. assert (1 <= length bits)%nat by (rewrite Eb; cbn; lia). lia.
Qed.


(** * the full round trip *)
Lemma repeat_twf k : Forall twf (repeat tree_init k).
Proof. induction k; cbn; constructor; auto. apply tree_init_twf. Qed.

Lemma skp_roundtrip_lemma : forall skip bytes, 1 <= skip -> Forall byte bytes ->
  skp_decode skip (skp_encode skip bytes) (zlen bytes) = Some bytes.
Proof.
  intros skip bytes Hs Hb. unfold skp_decode, skp_encode, zlen. rewrite Nat2Z.id.
  set (trees := repeat tree_init (Z.to_nat skip)). set (bits := skp_encode_bits trees 0 bytes).
  destruct (bytes_bits_roundtrip (S (length bits)) bits ltac:(lia)) as (pad & E). rewrite E.
  apply skp_bits_roundtrip; auto.
  - apply repeat_twf.
  - unfold trees. rewrite repeat_length. lia.
Qed.

(** the invariant itself, for every tree reachable by splaying (what the lock-step lemma needed) *)
Lemma skp_code_decodes_lemma : forall t b suffix, twf t -> 0 <= b < 256 ->
  skp_walk_down 600 t ROOT (skp_code t b ++ suffix) = Some (b, suffix) /\ twf (skp_splay t b).
Proof. intros t b suffix W Hb. split; [now apply skp_code_walk | now apply splay_twf]. Qed.

(** streams of several write calls: the encoder state is the lane trees and the lane position, so the
    partition is irrelevant by construction; decoding a prefix of n symbols *)
Lemma skp_prefix_lemma : forall skip bytes more, 1 <= skip -> Forall byte bytes ->
  skp_decode_bits (length bytes) (repeat tree_init (Z.to_nat skip)) 0
    (skp_encode_bits (repeat tree_init (Z.to_nat skip)) 0 bytes ++ more) = Some bytes.
Proof.
  intros skip bytes more Hs Hb. apply skp_bits_roundtrip; auto; [apply repeat_twf | rewrite repeat_length; lia].
Qed.
