(** C09 -- proofs about GRModel.v (interlace conversion, region engine, first-write fill). *)
From Coq Require Import List Arith Bool ZArith Lia.
Import ListNotations.
Require Import H4.gen.Gen_GR H4.GRModel.

Lemma il_code_roundtrip_lemma : forall il, il_of_code (il_code il) = Some il.
Proof. destruct il; reflexivity. Qed.

(* ------------------------------------------------------------------------------------------ *)
(** * Arithmetic helpers *)

Lemma divmod_unique : forall b q r, r < b -> (q * b + r) / b = q /\ (q * b + r) mod b = r.
Proof.
  intros b q r H. split.
  - symmetry. apply (Nat.div_unique (q * b + r) b q r); lia.
  - symmetry. apply (Nat.mod_unique (q * b + r) b q r); lia.
Qed.

Lemma div_of : forall b q r, r < b -> (q * b + r) / b = q.
Proof. intros. apply divmod_unique; auto. Qed.
Lemma mod_of : forall b q r, r < b -> (q * b + r) mod b = r.
Proof. intros. apply divmod_unique; auto. Qed.

(* ------------------------------------------------------------------------------------------ *)
(** * The three index functions are bijections onto [0, X*Y*nc) *)

Lemma il_index_lt_lemma : forall il X Y nc y x c,
    y < Y -> x < X -> c < nc -> il_index il X Y nc y x c < X * Y * nc.
Proof.
  intros il X Y nc y x c Hy Hx Hc. destruct il; simpl.
  - assert (y * X + x + 1 <= Y * X) by nia. nia.
  - assert (y * nc + c + 1 <= Y * nc) by nia. nia.
  - assert (c * Y + y + 1 <= nc * Y) by nia. nia.
Qed.

Lemma il_decode_index_lemma : forall il X Y nc y x c,
    y < Y -> x < X -> c < nc -> il_decode il X Y nc (il_index il X Y nc y x c) = (y, x, c).
Proof.
  intros il X Y nc y x c Hy Hx Hc. destruct il; simpl.
  - replace ((y * X + x) * nc + c) with (y * (X * nc) + (x * nc + c)) at 1 by ring.
    rewrite div_of by nia.
    rewrite (div_of nc (y * X + x) c) by lia.
    rewrite (mod_of X y x) by lia.
    rewrite (mod_of nc (y * X + x) c) by lia. reflexivity.
  - replace ((y * nc + c) * X + x) with (y * (nc * X) + (c * X + x)) at 1 by ring.
    rewrite div_of by nia.
    rewrite (mod_of X (y * nc + c) x) by lia.
    rewrite (div_of X (y * nc + c) x) by lia.
    rewrite (mod_of nc y c) by lia. reflexivity.
  - rewrite (div_of X (c * Y + y) x) by lia.
    rewrite (mod_of Y c y) by lia.
    rewrite (mod_of X (c * Y + y) x) by lia.
    replace ((c * Y + y) * X + x) with (c * (Y * X) + (y * X + x)) by ring.
    rewrite div_of by nia. reflexivity.
Qed.

Lemma il_index_decode_lemma : forall il X Y nc q,
    q < X * Y * nc ->
    let '(y, x, c) := il_decode il X Y nc q in
    y < Y /\ x < X /\ c < nc /\ il_index il X Y nc y x c = q.
Proof.
  intros il X Y nc q Hq.
  assert (HX : X <> 0) by (intro; subst; simpl in Hq; lia).
  assert (HY : Y <> 0) by (intro; subst; rewrite Nat.mul_0_r in Hq; simpl in Hq; lia).
  assert (Hn : nc <> 0) by (intro; subst; rewrite Nat.mul_0_r in Hq; lia).
  destruct il; simpl.
  - repeat split.
    + apply Nat.div_lt_upper_bound; nia.
    + apply Nat.mod_upper_bound; auto.
    + apply Nat.mod_upper_bound; auto.
    + rewrite (Nat.mul_comm X nc), <- Nat.div_div by auto.
      pose proof (Nat.div_mod q nc Hn). pose proof (Nat.div_mod (q / nc) X HX). nia.
  - repeat split.
    + apply Nat.div_lt_upper_bound; nia.
    + apply Nat.mod_upper_bound; auto.
    + apply Nat.mod_upper_bound; auto.
    + rewrite (Nat.mul_comm nc X), <- Nat.div_div by auto.
      pose proof (Nat.div_mod q X HX). pose proof (Nat.div_mod (q / X) nc Hn). nia.
  - repeat split.
    + apply Nat.mod_upper_bound; auto.
    + apply Nat.mod_upper_bound; auto.
    + apply Nat.div_lt_upper_bound; nia.
    + rewrite (Nat.mul_comm Y X), <- Nat.div_div by auto.
      pose proof (Nat.div_mod q X HX). pose proof (Nat.div_mod (q / X) Y HY). nia.
Qed.

Lemma il_index_inj_lemma : forall il X Y nc y x c y' x' c',
    y < Y -> x < X -> c < nc -> y' < Y -> x' < X -> c' < nc ->
    il_index il X Y nc y x c = il_index il X Y nc y' x' c' -> (y, x, c) = (y', x', c').
Proof.
  intros. rewrite <- (il_decode_index_lemma il X Y nc y x c), <- (il_decode_index_lemma il X Y nc y' x' c') by auto.
  congruence.
Qed.

Lemma il_index_bijective_lemma : forall il X Y nc,
    (forall y x c, y < Y -> x < X -> c < nc -> il_index il X Y nc y x c < X * Y * nc) /\
    (forall y x c y' x' c', y < Y -> x < X -> c < nc -> y' < Y -> x' < X -> c' < nc ->
                            il_index il X Y nc y x c = il_index il X Y nc y' x' c' -> (y, x, c) = (y', x', c')) /\
    (forall q, q < X * Y * nc -> exists y x c, y < Y /\ x < X /\ c < nc /\ il_index il X Y nc y x c = q) /\
    (forall y x c, y < Y -> x < X -> c < nc -> il_decode il X Y nc (il_index il X Y nc y x c) = (y, x, c)).
Proof.
  intros. split; [|split; [|split]].
  - intros. apply il_index_lt_lemma; auto.
  - intros. eapply il_index_inj_lemma; eauto.
  - intros q Hq. pose proof (il_index_decode_lemma il X Y nc q Hq) as H.
    destruct (il_decode il X Y nc q) as [[y x] c]. exists y, x, c. exact H.
  - intros. apply il_decode_index_lemma; auto.
Qed.

(* ------------------------------------------------------------------------------------------ *)
(** * The pointer walk visits exactly the closed-form indices *)

Lemma vadd_map : forall (f g : nat -> nat) l, vadd (map f l) (map g l) = map (fun i => f i + g i) l.
Proof. intros f g l. unfold vadd. induction l; simpl; auto. f_equal. exact IHl. Qed.

Lemma combine_map2 : forall (f g : nat -> nat) l, combine (map f l) (map g l) = map (fun i => (f i, g i)) l.
Proof. intros f g l. induction l; simpl; auto. f_equal. exact IHl. Qed.

Lemma walk_row_spec : forall (fi fo : nat -> nat -> nat) (ai ao : nat -> nat) l n x0,
    (forall x c, fi (S x) c = fi x c + ai c) -> (forall x c, fo (S x) c = fo x c + ao c) ->
    walk_row n (map (fi x0) l) (map (fo x0) l) (map ai l) (map ao l) =
    (flat_map (fun x => map (fun c => (fi x c, fo x c)) l) (seq x0 n),
     (map (fi (x0 + n)) l, map (fo (x0 + n)) l)).
Proof.
  intros fi fo ai ao l n. induction n; intros x0 Hi Ho; simpl.
  - rewrite Nat.add_0_r. reflexivity.
  - rewrite !vadd_map.
    rewrite (map_ext (fun i : nat => fi x0 i + ai i) (fi (S x0))) by (intros; symmetry; apply Hi).
    rewrite (map_ext (fun i : nat => fo x0 i + ao i) (fo (S x0))) by (intros; symmetry; apply Ho).
    rewrite IHn by auto. rewrite combine_map2.
    replace (S x0 + n) with (x0 + S n) by lia. reflexivity.
Qed.

Lemma walk_rows_spec : forall (Fi Fo : nat -> nat -> nat -> nat) (ai ao li lo : nat -> nat) l X (wrap : bool) n y0,
    (forall y x c, Fi y (S x) c = Fi y x c + ai c) -> (forall y x c, Fo y (S x) c = Fo y x c + ao c) ->
    (forall y c, (if wrap then Fi y X c + li c else Fi y X c) = Fi (S y) 0 c) ->
    (forall y c, (if wrap then Fo y X c + lo c else Fo y X c) = Fo (S y) 0 c) ->
    walk_rows n X wrap (map (Fi y0 0) l) (map (Fo y0 0) l) (map ai l) (map ao l) (map li l) (map lo l) =
    flat_map (fun y => flat_map (fun x => map (fun c => (Fi y x c, Fo y x c)) l) (seq 0 X)) (seq y0 n).
Proof.
  intros Fi Fo ai ao li lo l X wrap n. induction n; intros y0 Hi Ho Hli Hlo; simpl; auto.
  rewrite (walk_row_spec (Fi y0) (Fo y0) ai ao l X 0) by auto. simpl.
  f_equal.
  assert (E1 : (if wrap then vadd (map (Fi y0 X) l) (map li l) else map (Fi y0 X) l) = map (Fi (S y0) 0) l).
  { destruct wrap.
    - rewrite vadd_map. apply map_ext. intros c. apply (Hli y0 c).
    - apply map_ext. intros c. apply (Hli y0 c). }
  assert (E2 : (if wrap then vadd (map (Fo y0 X) l) (map lo l) else map (Fo y0 X) l) = map (Fo (S y0) 0) l).
  { destruct wrap.
    - rewrite vadd_map. apply map_ext. intros c. apply (Hlo y0 c).
    - apply map_ext. intros c. apply (Hlo y0 c). }
  rewrite E1, E2. apply IHn; auto.
Qed.

Lemma il_code_pixel : il_code ILpixel = 0. Proof. reflexivity. Qed.
Lemma il_code_line : il_code ILline = 1. Proof. reflexivity. Qed.
Lemma il_code_comp : il_code ILcomp = 2. Proof. reflexivity. Qed.

(** the trace as a list over all (row, column, component) triples *)
Definition triples (X Y nc : nat) : list (nat * (nat * nat)) :=
  list_prod (seq 0 Y) (list_prod (seq 0 X) (seq 0 nc)).

Definition il_trace_closed (inil outil : ilace) (X Y nc cs : nat) : list (nat * nat) :=
  map (fun t => let '(y, (x, c)) := t in (cs * il_index inil X Y nc y x c, cs * il_index outil X Y nc y x c))
      (triples X Y nc).

Lemma flat_map_list_prod2 : forall {T} (h : nat -> nat -> T) xs cs,
    flat_map (fun x => map (fun c => h x c) cs) xs = map (fun t => let '(x, c) := t in h x c) (list_prod xs cs).
Proof.
  intros T h xs cs. induction xs as [|x xs IHx]; simpl; auto.
  rewrite map_app, IHx. f_equal. rewrite map_map. reflexivity.
Qed.

Lemma flat_map_list_prod : forall {T} (g : nat -> nat -> nat -> T) ys xs cs,
    flat_map (fun y => flat_map (fun x => map (fun c => g y x c) cs) xs) ys =
    map (fun t => let '(y, (x, c)) := t in g y x c) (list_prod ys (list_prod xs cs)).
Proof.
  intros T g ys xs cs. induction ys as [|y ys IH]; simpl; auto.
  rewrite map_app, IH. f_equal.
  rewrite map_map. rewrite (flat_map_list_prod2 (g y)). apply map_ext. intros [x c]. reflexivity.
Qed.

Lemma il_walk_eq_index_lemma : forall inil outil X Y nc cs,
    1 <= nc -> il_walk_trace inil outil X Y nc cs = il_trace_closed inil outil X Y nc cs.
Proof.
  intros inil outil X Y nc cs Hnc. unfold il_walk_trace, il_trace_closed, triples.
  rewrite <- (flat_map_list_prod (fun y x c => (cs * il_index inil X Y nc y x c, cs * il_index outil X Y nc y x c))).
  unfold ilc_loop_outer, ilc_loop_mid.
  set (Fi := fun y x c => cs * il_index inil X Y nc y x c).
  set (Fo := fun y x c => cs * il_index outil X Y nc y x c).
  rewrite (map_ext (fun i : nat => ilc_in_comp_ptr (il_code inil) i cs (cs * nc) nc X Y) (Fi 0 0)).
  2:{ intros c. unfold Fi. destruct inil; simpl; ring. }
  rewrite (map_ext (fun i : nat => ilc_out_comp_ptr (il_code outil) i cs (cs * nc) nc X Y) (Fo 0 0)).
  2:{ intros c. unfold Fo. destruct outil; simpl; ring. }
  apply (walk_rows_spec Fi Fo).
  - intros y x c. unfold Fi. destruct inil; simpl; ring.
  - intros y x c. unfold Fo. destruct outil; simpl; ring.
  - intros y c. unfold Fi. destruct inil, outil; simpl; try ring; nia.
  - intros y c. unfold Fo. destruct inil, outil; simpl; try ring; nia.
Qed.

(* ------------------------------------------------------------------------------------------ *)
(** * memcpy and the application of a trace *)

Lemma nth_firstn_lt : forall {A} (l : list A) n i d, i < n -> nth i (firstn n l) d = nth i l d.
Proof.
  intros A l. induction l; intros n i d H; destruct n, i; simpl; auto; try lia. apply IHl. lia.
Qed.

Lemma nth_skipn_add : forall {A} (l : list A) n i d, nth i (skipn n l) d = nth (n + i) l d.
Proof.
  intros A l. induction l; intros n i d; destruct n; simpl; auto. destruct i; auto.
Qed.

Lemma memcpy_at_length : forall {A} (src dst : list A) s d n,
    s + n <= length src -> d + n <= length dst -> length (memcpy_at src s dst d n) = length dst.
Proof.
  intros. unfold memcpy_at. rewrite !app_length, !firstn_length, !skipn_length. lia.
Qed.

Lemma memcpy_at_nth_in : forall {A} (src dst : list A) s d n b def,
    s + n <= length src -> d + n <= length dst -> b < n ->
    nth (d + b) (memcpy_at src s dst d n) def = nth (s + b) src def.
Proof.
  intros A src dst s d n b def Hs Hd Hb. unfold memcpy_at.
  rewrite app_nth2 by (rewrite firstn_length; lia).
  rewrite firstn_length, Nat.min_l by lia.
  replace (d + b - d) with b by lia.
  rewrite app_nth1 by (rewrite firstn_length, skipn_length; lia).
  rewrite nth_firstn_lt by auto. apply nth_skipn_add.
Qed.

Lemma memcpy_at_nth_out : forall {A} (src dst : list A) s d n p def,
    s + n <= length src -> d + n <= length dst -> p < d \/ d + n <= p ->
    nth p (memcpy_at src s dst d n) def = nth p dst def.
Proof.
  intros A src dst s d n p def Hs Hd Hp. unfold memcpy_at. destruct Hp as [Hp|Hp].
  - rewrite app_nth1 by (rewrite firstn_length; lia). apply nth_firstn_lt; auto.
  - rewrite app_nth2 by (rewrite firstn_length; lia).
    rewrite firstn_length, Nat.min_l by lia.
    rewrite app_nth2 by (rewrite firstn_length, skipn_length; lia).
    rewrite firstn_length, skipn_length, Nat.min_l by lia.
    rewrite nth_skipn_add. f_equal. lia.
Qed.

Section ApplyTrace.
  Context {A T : Type}.
  Variables (n : nat) (src : list A) (fa fb : T -> nat) (def : A).
  Definition mk_tr (ts : list T) := map (fun t => (n * fa t, n * fb t)) ts.

  Lemma apply_trace_length : forall ts dst,
      (forall t, In t ts -> n * fa t + n <= length src /\ n * fb t + n <= length dst) ->
      length (apply_trace n src (mk_tr ts) dst) = length dst.
  Proof.
    induction ts as [|t ts IH]; intros dst H; simpl; auto.
    unfold apply_trace in *. simpl. rewrite IH.
    - apply memcpy_at_length; apply H; left; auto.
    - intros t' Ht'. rewrite memcpy_at_length by (apply H; left; auto). apply H. right; auto.
  Qed.

  Lemma apply_trace_untouched : forall ts dst k b,
      (forall t, In t ts -> n * fa t + n <= length src /\ n * fb t + n <= length dst) ->
      (forall t, In t ts -> fb t <> k) -> b < n ->
      nth (n * k + b) (apply_trace n src (mk_tr ts) dst) def = nth (n * k + b) dst def.
  Proof.
    induction ts as [|t ts IH]; intros dst k b H Hk Hb; simpl; auto.
    unfold apply_trace in *. simpl. rewrite IH; auto.
    - apply memcpy_at_nth_out; try (apply H; left; auto).
      assert (fb t <> k) by (apply Hk; left; auto). nia.
    - intros t' Ht'. rewrite memcpy_at_length by (apply H; left; auto). apply H. right; auto.
    - intros t' Ht'. apply Hk. right; auto.
  Qed.

  (** every copy of the trace is visible in the result, provided equal destinations have equal sources *)
  Lemma apply_trace_nth : forall ts dst t b,
      (forall t, In t ts -> n * fa t + n <= length src /\ n * fb t + n <= length dst) ->
      (forall t t', In t ts -> In t' ts -> fb t = fb t' -> fa t = fa t') ->
      In t ts -> b < n ->
      nth (n * fb t + b) (apply_trace n src (mk_tr ts) dst) def = nth (n * fa t + b) src def.
  Proof.
    induction ts as [|t0 ts IH]; intros dst t b H Hf Ht Hb; [destruct Ht|].
    assert (Hlen : length (memcpy_at src (n * fa t0) dst (n * fb t0) n) = length dst)
      by (apply memcpy_at_length; apply H; left; auto).
    assert (H' : forall t, In t ts -> n * fa t + n <= length src /\
                                     n * fb t + n <= length (memcpy_at src (n * fa t0) dst (n * fb t0) n)).
    { intros t' Ht'. rewrite Hlen. apply H. right; auto. }
    destruct (in_dec Nat.eq_dec (fb t) (map fb ts)) as [Hin|Hnin].
    - apply in_map_iff in Hin. destruct Hin as [t' [E Ht']].
      unfold apply_trace. simpl. fold (mk_tr ts).
      change (fold_left (fun o sd => memcpy_at src (fst sd) o (snd sd) n) (mk_tr ts)
                        (memcpy_at src (n * fa t0) dst (n * fb t0) n))
        with (apply_trace n src (mk_tr ts) (memcpy_at src (n * fa t0) dst (n * fb t0) n)).
      rewrite <- E. rewrite (IH _ t' b); auto.
      + f_equal. f_equal. f_equal. apply Hf; auto. right; auto.
      + intros a a' Ha Ha'. apply Hf; right; auto.
    - assert (t = t0 \/ (In t ts)) as [->|Ht'] by (destruct Ht; auto).
      + unfold apply_trace. simpl.
        change (fold_left (fun o sd => memcpy_at src (fst sd) o (snd sd) n) (mk_tr ts)
                          (memcpy_at src (n * fa t0) dst (n * fb t0) n))
          with (apply_trace n src (mk_tr ts) (memcpy_at src (n * fa t0) dst (n * fb t0) n)).
        rewrite apply_trace_untouched; auto.
        * apply memcpy_at_nth_in; auto; apply H; left; auto.
        * intros t' Ht' E. apply Hnin. rewrite <- E. apply in_map. auto.
      + exfalso. apply Hnin. apply in_map. auto.
  Qed.
End ApplyTrace.

(* ------------------------------------------------------------------------------------------ *)
(** * GRIil_convert (pointer walk) = closed-form specification *)

Lemma in_triples : forall X Y nc y x c, In (y, (x, c)) (triples X Y nc) <-> y < Y /\ x < X /\ c < nc.
Proof.
  intros. unfold triples. rewrite !in_prod_iff, !in_seq. lia.
Qed.

Lemma same_cond_eqb : forall a b, ilc_same_cond (il_code a) (il_code b) = il_eqb a b.
Proof. destruct a, b; reflexivity. Qed.

Lemma il_eqb_eq : forall a b, il_eqb a b = true <-> a = b.
Proof. destruct a, b; simpl; split; intro H; try reflexivity; try discriminate. Qed.

Definition fidx (il : ilace) (X Y nc : nat) (t : nat * (nat * nat)) : nat :=
  let '(y, (x, c)) := t in il_index il X Y nc y x c.

Lemma il_trace_closed_mk : forall inil outil X Y nc cs,
    il_trace_closed inil outil X Y nc cs = mk_tr cs (fidx inil X Y nc) (fidx outil X Y nc) (triples X Y nc).
Proof. intros. unfold il_trace_closed, mk_tr. apply map_ext. intros [y [x c]]. reflexivity. Qed.

Lemma fidx_bounds : forall inil outil X Y nc cs (A : Type) (src dst : list A) t,
    length src = X * Y * nc * cs -> length dst = X * Y * nc * cs -> In t (triples X Y nc) ->
    cs * fidx inil X Y nc t + cs <= length src /\ cs * fidx outil X Y nc t + cs <= length dst.
Proof.
  intros inil outil X Y nc cs A src dst [y [x c]] Hs Hd Ht. apply in_triples in Ht. destruct Ht as (Hy & Hx & Hc).
  pose proof (il_index_lt_lemma inil X Y nc y x c Hy Hx Hc).
  pose proof (il_index_lt_lemma outil X Y nc y x c Hy Hx Hc). simpl. nia.
Qed.

Lemma fidx_functional : forall inil outil X Y nc t t',
    In t (triples X Y nc) -> In t' (triples X Y nc) ->
    fidx outil X Y nc t = fidx outil X Y nc t' -> fidx inil X Y nc t = fidx inil X Y nc t'.
Proof.
  intros inil outil X Y nc [y [x c]] [y' [x' c']] Ht Ht' E.
  apply in_triples in Ht. apply in_triples in Ht'. simpl in E.
  destruct Ht as (Hy & Hx & Hc). destruct Ht' as (Hy' & Hx' & Hc').
  pose proof (il_index_inj_lemma outil X Y nc y x c y' x' c' Hy Hx Hc Hy' Hx' Hc' E) as E'.
  inversion E'; subst. reflexivity.
Qed.

Lemma il_convert_length_lemma : forall {A} inil outil X Y nc cs (src dst : list A),
    1 <= nc -> length src = X * Y * nc * cs -> length dst = X * Y * nc * cs ->
    length (il_convert_walk inil outil X Y nc cs src dst) = X * Y * nc * cs.
Proof.
  intros A inil outil X Y nc cs src dst Hnc Hs Hd. unfold il_convert_walk.
  destruct (ilc_same_cond _ _).
  - unfold ilc_same_len. rewrite memcpy_at_length; auto; nia.
  - rewrite il_walk_eq_index_lemma by auto. unfold ilc_copy_len. rewrite il_trace_closed_mk.
    rewrite apply_trace_length; auto.
    intros t Ht. eapply fidx_bounds; eauto.
Qed.

Lemma nth_map_seq : forall {B} (f : nat -> B) M q d, q < M -> nth q (map f (seq 0 M)) d = f q.
Proof.
  intros B f M q d H. rewrite (nth_indep _ d (f 0)) by (rewrite map_length, seq_length; auto).
  rewrite map_nth. rewrite seq_nth by auto. reflexivity.
Qed.

Lemma il_convert_correct_lemma : forall {A} (d : A) inil outil X Y nc cs (src dst : list A),
    1 <= nc -> 1 <= cs -> length src = X * Y * nc * cs -> length dst = X * Y * nc * cs ->
    il_convert_walk inil outil X Y nc cs src dst = il_convert_spec d inil outil X Y nc cs src.
Proof.
  intros A d inil outil X Y nc cs src dst Hnc Hcs Hs Hd.
  apply (nth_ext _ _ d d).
  - rewrite il_convert_length_lemma by auto. unfold il_convert_spec. rewrite map_length, seq_length. reflexivity.
  - rewrite il_convert_length_lemma by auto. intros q Hq.
    unfold il_convert_spec. rewrite nth_map_seq by auto.
    assert (Hk : q / cs < X * Y * nc) by (apply Nat.div_lt_upper_bound; nia).
    assert (Hb : q mod cs < cs) by (apply Nat.mod_upper_bound; lia).
    assert (Eq : q = cs * (q / cs) + q mod cs) by (apply Nat.div_mod; lia).
    pose proof (il_index_decode_lemma outil X Y nc (q / cs) Hk) as Hdec.
    destruct (il_decode outil X Y nc (q / cs)) as [[y x] c]. destruct Hdec as (Hy & Hx & Hc & Eidx).
    unfold il_convert_walk. rewrite same_cond_eqb.
    destruct (il_eqb inil outil) eqn:E.
    + apply il_eqb_eq in E. subst outil. rewrite Eidx. rewrite <- Eq.
      unfold ilc_same_len. apply (memcpy_at_nth_in src dst 0 0 (X * Y * (cs * nc)) q d); nia.
    + rewrite il_walk_eq_index_lemma by auto. unfold ilc_copy_len. rewrite il_trace_closed_mk.
      rewrite Eq at 1. rewrite <- Eidx.
      change (il_index outil X Y nc y x c) with (fidx outil X Y nc (y, (x, c))).
      change (il_index inil X Y nc y x c) with (fidx inil X Y nc (y, (x, c))).
      apply apply_trace_nth; auto.
      * intros t Ht. eapply fidx_bounds; eauto.
      * intros t t' Ht Ht'. apply fidx_functional; auto.
      * apply in_triples. auto.
Qed.

(** converting there and back is the identity *)
Lemma il_spec_inverse_lemma : forall {A} (d : A) a b X Y nc cs (buf : list A),
    1 <= cs -> length buf = X * Y * nc * cs ->
    il_convert_spec d b a X Y nc cs (il_convert_spec d a b X Y nc cs buf) = buf.
Proof.
  intros A d a b X Y nc cs buf Hcs Hl.
  apply (nth_ext _ _ d d).
  - unfold il_convert_spec. rewrite map_length, seq_length. auto.
  - intros q Hq. unfold il_convert_spec at 1 in Hq. rewrite map_length, seq_length in Hq.
    unfold il_convert_spec at 1. rewrite nth_map_seq by auto.
    assert (Hk : q / cs < X * Y * nc) by (apply Nat.div_lt_upper_bound; nia).
    assert (Hb : q mod cs < cs) by (apply Nat.mod_upper_bound; lia).
    assert (Eq : q = cs * (q / cs) + q mod cs) by (apply Nat.div_mod; lia).
    pose proof (il_index_decode_lemma a X Y nc (q / cs) Hk) as Hdec.
    destruct (il_decode a X Y nc (q / cs)) as [[y x] c]. destruct Hdec as (Hy & Hx & Hc & Eidx).
    pose proof (il_index_lt_lemma b X Y nc y x c Hy Hx Hc) as Hlt.
    unfold il_convert_spec. rewrite nth_map_seq by nia.
    replace ((cs * il_index b X Y nc y x c + q mod cs) / cs) with (il_index b X Y nc y x c)
      by (rewrite (Nat.mul_comm cs); symmetry; apply div_of; auto).
    replace ((cs * il_index b X Y nc y x c + q mod cs) mod cs) with (q mod cs)
      by (rewrite (Nat.mul_comm cs); symmetry; apply mod_of; auto).
    rewrite il_decode_index_lemma by auto. rewrite Eidx, <- Eq. reflexivity.
Qed.

Lemma il_convert_inverse_lemma : forall {A} a b X Y nc cs (buf t1 t2 : list A),
    1 <= nc -> 1 <= cs -> length buf = X * Y * nc * cs -> length t1 = X * Y * nc * cs -> length t2 = X * Y * nc * cs ->
    il_convert_walk b a X Y nc cs (il_convert_walk a b X Y nc cs buf t1) t2 = buf.
Proof.
  intros A a b X Y nc cs buf t1 t2 Hnc Hcs Hl H1 H2.
  destruct buf as [|d0 buf'] eqn:Eb.
  - assert (Z : X * Y * nc * cs = 0) by (simpl in Hl; lia).
    assert (length (il_convert_walk b a X Y nc cs (il_convert_walk a b X Y nc cs [] t1) t2) = 0).
    { rewrite il_convert_length_lemma; auto. rewrite il_convert_length_lemma; auto. }
    destruct (il_convert_walk b a X Y nc cs (il_convert_walk a b X Y nc cs [] t1) t2); simpl in *; auto; lia.
  - rewrite <- Eb in *. rewrite (il_convert_correct_lemma d0 a b) by auto.
    rewrite (il_convert_correct_lemma d0 b a); auto.
    + apply il_spec_inverse_lemma; auto.
    + unfold il_convert_spec. rewrite map_length, seq_length. reflexivity.
Qed.

(* ------------------------------------------------------------------------------------------ *)
(** * Region engine: reads *)

Lemma map_seq_shift : forall {B} (f : nat -> B) s n, map f (seq s n) = map (fun j => f (s + j)) (seq 0 n).
Proof.
  intros B f s n. revert s. induction n; intros s; simpl; auto.
  rewrite Nat.add_0_r. f_equal. rewrite IHn.
  rewrite <- (seq_shift n 0), map_map. apply map_ext. intros j. f_equal. lia.
Qed.

Lemma flat_map_seq_shift : forall {B} (f : nat -> list B) s n,
    flat_map f (seq s n) = flat_map (fun j => f (s + j)) (seq 0 n).
Proof.
  intros B f s n. rewrite !flat_map_concat_map. f_equal. apply map_seq_shift.
Qed.

Lemma seq_mul_flat : forall {B} (f : nat -> B) a b,
    map f (seq 0 (a * b)) = flat_map (fun i => map (fun j => f (i * a + j)) (seq 0 a)) (seq 0 b).
Proof.
  intros B f a b. induction b.
  - rewrite Nat.mul_0_r. reflexivity.
  - replace (a * S b) with (a * b + a) by lia. rewrite seq_app, map_app, IHb.
    rewrite seq_S, flat_map_app. simpl. rewrite app_nil_r. f_equal.
    rewrite map_seq_shift. apply map_ext. intros j. f_equal. lia.
Qed.

Lemma flat_map_ext_in' : forall {A B} (f g : A -> list B) l,
    (forall a, In a l -> f a = g a) -> flat_map f l = flat_map g l.
Proof.
  intros A B f g l. induction l; intros H; simpl; auto.
  rewrite (H a) by (left; auto). f_equal. apply IHl. intros. apply H. right; auto.
Qed.

Section RegionProofs.
  Context {P : Type}.
  Variable d : P.

  Lemma firstn_skipn_seq : forall (e : list P) p n,
      p + n <= length e -> firstn n (skipn p e) = map (fun j => nth (p + j) e d) (seq 0 n).
  Proof.
    intros e p n H. apply (nth_ext _ _ d d).
    - rewrite firstn_length, skipn_length, map_length, seq_length. lia.
    - rewrite firstn_length, skipn_length. intros i Hi.
      rewrite nth_firstn_lt by lia. rewrite nth_skipn_add. rewrite nth_map_seq by lia. reflexivity.
  Qed.

  Lemma map_nth_seq_id : forall (e : list P), map (fun q => nth q e d) (seq 0 (length e)) = e.
  Proof.
    intros e. apply (nth_ext _ _ d d).
    - rewrite map_length, seq_length. reflexivity.
    - rewrite map_length, seq_length. intros i Hi. rewrite nth_map_seq by auto. reflexivity.
  Qed.

  Lemma spec_read_rows : forall (e : list P) xdim r,
      1 <= r_cx r ->
      spec_read_px d e xdim r =
      flat_map (fun i => map (fun j => nth ((r_sy r + i * r_ty r) * xdim + r_sx r + j * r_tx r) e d) (seq 0 (r_cx r)))
               (seq 0 (r_cy r)).
  Proof.
    intros e xdim r Hcx. unfold spec_read_px. rewrite seq_mul_flat.
    apply flat_map_ext. intros i. apply map_ext_in. intros j Hj. apply in_seq in Hj.
    rewrite (div_of (r_cx r) i j) by lia. rewrite (mod_of (r_cx r) i j) by lia. reflexivity.
  Qed.

  Lemma run_solid_read : forall n off rowadd plen (e : list P) pos,
      run_rops (solid_read_ops n off rowadd plen) e pos =
      flat_map (fun i => firstn plen (skipn (off + i * rowadd) e)) (seq 0 n).
  Proof.
    induction n; intros off rowadd plen e pos; simpl; auto.
    rewrite Nat.add_0_r. f_equal. rewrite IHn. rewrite (flat_map_seq_shift _ 1 n).
    apply flat_map_ext. intros i. f_equal. f_equal. lia.
  Qed.

  Lemma run_rops_app : forall a b (e : list P) pos,
      run_rops (a ++ b) e pos = run_rops a e pos ++ run_rops b e (snd (fold_left (fun st o => match o with RSeek n => (fst st, n) | RRead n => (fst st, snd st + n) end) a (0, pos))).
  Proof.
    induction a as [|o a IH]; intros b e pos; simpl; auto.
    destruct o; simpl.
    - rewrite IH. reflexivity.
    - rewrite IH, app_assoc. reflexivity.
  Qed.

  Lemma run_strided_row : forall n loff sadd one (e : list P) pos rest,
      run_rops (strided_read_row n loff sadd one ++ rest) e pos =
      flat_map (fun j => firstn one (skipn (loff + j * sadd) e)) (seq 0 n) ++
      run_rops rest e (match n with 0 => pos | S m => loff + m * sadd + one end).
  Proof.
    induction n; intros loff sadd one e pos rest; simpl; auto.
    rewrite Nat.add_0_r. rewrite <- app_assoc. f_equal. rewrite IHn.
    f_equal.
    - rewrite (flat_map_seq_shift _ 1 n).
      apply flat_map_ext. intros j. f_equal. f_equal. lia.
    - destruct n; f_equal; lia.
  Qed.

  Lemma run_strided_read : forall n cxn off srowadd sadd one (e : list P) pos,
      run_rops (strided_read_ops n cxn off srowadd sadd one) e pos =
      flat_map (fun i => flat_map (fun j => firstn one (skipn (off + i * srowadd + j * sadd) e)) (seq 0 cxn)) (seq 0 n).
  Proof.
    induction n; intros cxn off srowadd sadd one e pos; simpl; auto.
    rewrite run_strided_row. rewrite Nat.add_0_r. f_equal. rewrite IHn.
    rewrite (flat_map_seq_shift _ 1 n).
    apply flat_map_ext. intros i. apply flat_map_ext. intros j. f_equal. f_equal. lia.
  Qed.

  Lemma inside_facts : forall xdim ydim r,
      rgn_inside xdim ydim r = true ->
      1 <= r_tx r /\ 1 <= r_ty r /\ 1 <= r_cx r /\ 1 <= r_cy r /\
      r_sx r + (r_cx r - 1) * r_tx r < xdim /\ r_sy r + (r_cy r - 1) * r_ty r < ydim.
  Proof.
    intros xdim ydim r H. unfold rgn_inside in H.
    repeat (apply andb_prop in H; destruct H as [H ?]).
    repeat match goal with
           | H : (_ <=? _) = true |- _ => apply Nat.leb_le in H
           | H : (_ <? _) = true |- _ => apply Nat.ltb_lt in H
           end. lia.
  Qed.

  Lemma pixel_pos_bound : forall xdim ydim r i j,
      rgn_inside xdim ydim r = true -> i < r_cy r -> j < r_cx r ->
      (r_sy r + i * r_ty r) * xdim + r_sx r + j * r_tx r < xdim * ydim /\
      r_sx r + j * r_tx r < xdim /\ r_sy r + i * r_ty r < ydim.
  Proof.
    intros xdim ydim r i j H Hi Hj. apply inside_facts in H. destruct H as (? & ? & ? & ? & Hx & Hy).
    assert (r_sx r + j * r_tx r <= r_sx r + (r_cx r - 1) * r_tx r) by nia.
    assert (r_sy r + i * r_ty r <= r_sy r + (r_cy r - 1) * r_ty r) by nia.
    assert (r_sy r + i * r_ty r + 1 <= ydim) by lia.
    nia.
  Qed.

  (** GRreadimage returns, for every requested lattice point, the pixel stored at that point *)
  Lemma region_read_refines_lemma : forall (e : list P) xdim ydim r,
      length e = xdim * ydim -> rgn_inside xdim ydim r = true ->
      gr_read_px e xdim ydim r = spec_read_px d e xdim r.
  Proof.
    intros e xdim ydim r Hl Hin. pose proof (inside_facts _ _ _ Hin) as (Htx & Hty & Hcx & Hcy & Hx & Hy).
    unfold gr_read_px, gr_read_ops.
    destruct (whole_image xdim ydim r) eqn:Ew.
    - unfold whole_image, solid_block in Ew.
      repeat (apply andb_prop in Ew; destruct Ew as [Ew ?]).
      repeat match goal with H : (_ =? _) = true |- _ => apply Nat.eqb_eq in H end.
      simpl. rewrite app_nil_r, Nat.add_0_r.
      unfold spec_read_px. rewrite firstn_all2 by (subst; lia).
      rewrite <- (map_nth_seq_id e) at 1. replace (length e) with (r_cx r * r_cy r) by (subst; lia).
      apply map_ext_in. intros q Hq. apply in_seq in Hq. f_equal.
      pose proof (Nat.div_mod q (r_cx r)). nia.
    - rewrite spec_read_rows by auto.
      destruct (solid_block r) eqn:Es.
      + unfold solid_block in Es. apply andb_prop in Es. destruct Es as [E1 E2].
        apply Nat.eqb_eq in E1. apply Nat.eqb_eq in E2.
        rewrite run_solid_read. unfold G, rd_img_offset, rd_row_add, rd_pix_len.
        rewrite ?Nat.mul_1_l, ?Nat.mul_1_r.
        apply flat_map_ext_in'. intros i Hi. apply in_seq in Hi.
        pose proof (pixel_pos_bound xdim ydim r i (r_cx r - 1) Hin ltac:(lia) ltac:(lia)) as Hb.
        rewrite (firstn_skipn_seq e) by nia.
        apply map_ext. intros j. f_equal. nia.
      + rewrite run_strided_read. unfold G, rd_img_offset, rd_srow_add, rd_stride_add.
        rewrite ?Nat.mul_1_l, ?Nat.mul_1_r.
        apply flat_map_ext_in'. intros i Hi. apply in_seq in Hi.
        rewrite flat_map_concat_map.
        rewrite (map_ext_in _ (fun j => [nth ((r_sy r + i * r_ty r) * xdim + r_sx r + j * r_tx r) e d])).
        * rewrite <- flat_map_concat_map. induction (seq 0 (r_cx r)); simpl; auto; f_equal; auto.
        * intros j Hj. apply in_seq in Hj.
          pose proof (pixel_pos_bound xdim ydim r i j Hin ltac:(lia) ltac:(lia)) as Hb.
          rewrite (firstn_skipn_seq e) by nia. simpl. f_equal. f_equal. nia.
  Qed.
End RegionProofs.

(* ------------------------------------------------------------------------------------------ *)
(** * First write of a new image: the sequential fill stream covers the image exactly *)

Lemma skipn_skipn' : forall {A} a b (l : list A), skipn a (skipn b l) = skipn (b + a) l.
Proof.
  intros A a b. induction b; intros l; simpl; auto. destruct l; simpl; auto. destruct a; reflexivity.
Qed.

Lemma strided_total : forall xdim ydim sx sy tx ty cx cy lo hi,
  1<=tx -> 1<=ty -> 1<=cx -> 1<=cy -> sx + (cx-1)*tx < xdim -> sy + (cy-1)*ty < ydim -> lo = sx -> hi = xdim - (sx + (cx-1)*tx+1) ->
  sy*xdim + lo + (cy*(cx*1 + (cx-1)*(tx-1)) + (cy-1)*((ty-1)*xdim + (hi+lo))) + hi + (ydim - (sy+(cy-1)*ty+1))*xdim = xdim*ydim.
Proof.
  intros xdim ydim sx sy tx ty cx cy lo hi Htx Hty Hcx Hcy Hx Hy Elo Ehi.
  destruct cx as [|c]; [lia|]. destruct tx as [|t]; [lia|]. destruct cy as [|c2]; [lia|]. destruct ty as [|t2]; [lia|].
  replace (S c - 1) with c in * by lia. replace (S t - 1) with t in * by lia.
  replace (S c2 - 1) with c2 in * by lia. replace (S t2 - 1) with t2 in * by lia.
  assert (R1 : S c * 1 + c * t + (hi + lo) = xdim) by (subst; nia).
  remember (S c * 1 + c * t) as W. remember (hi + lo) as hl.
  assert (R2 : ydim = (ydim - (sy + c2 * S t2 + 1)) + sy + c2 * S t2 + 1) by lia.
  remember (ydim - (sy + c2 * S t2 + 1)) as Z.
  assert (E : sy * xdim + lo + (S c2 * W + c2 * (t2 * xdim + hl)) + hi + Z * xdim = sy*xdim + S c2 * (W + hl) + c2*t2*xdim + Z*xdim) by (subst hl; ring).
  rewrite E, R1, R2. ring.
Qed.
Lemma solid_total : forall xdim ydim sx sy cx cy lo hi,
  1<=cx -> 1<=cy -> sx + (cx-1)*1 < xdim -> sy + (cy-1)*1 < ydim -> lo = sx -> hi = xdim - (sx + (cx-1)*1+1) ->
  sy*xdim + lo + (cy*cx + (cy-1)*(hi+lo)) + hi + (ydim - (sy+(cy-1)*1+1))*xdim = xdim*ydim.
Proof.
  intros. destruct cx as [|c]; [lia|]. destruct cy as [|c2]; [lia|].
  replace (S c - 1) with c in * by lia. replace (S c2 - 1) with c2 in * by lia.
  assert (R1 : S c + (hi + lo) = xdim) by (subst; lia).
  assert (R2 : ydim = (ydim - (sy + c2 * 1 + 1)) + sy + c2 + 1) by lia.
  remember (ydim - (sy + c2 * 1 + 1)) as Z. remember (hi + lo) as hl.
  assert (E : sy * xdim + lo + (S c2 * S c + c2 * hl) + hi + Z * xdim = sy*xdim + S c2 * (S c + hl) + Z*xdim) by (subst hl; ring).
  rewrite E, R1, R2. ring.
Qed.

Section FillProofs.
  Context {P : Type}.

  Definition wdata (ops : list (wop P)) : list P :=
    flat_map (fun o => match o with WWrite l => l | WSeek _ => [] end) ops.
  Definition noseekb (ops : list (wop P)) : bool :=
    forallb (fun o => match o with WWrite _ => true | WSeek _ => false end) ops.
  Definition wlen (ops : list (wop P)) : nat := length (wdata ops).

  Lemma wlen_app : forall a b, wlen (a ++ b) = wlen a + wlen b.
  Proof. intros. unfold wlen, wdata. rewrite flat_map_app, app_length. reflexivity. Qed.
  Lemma noseekb_app : forall a b, noseekb (a ++ b) = noseekb a && noseekb b.
  Proof. intros. apply forallb_app. Qed.

  (** without seeks every write appends *)
  Lemma run_noseek : forall ops (e : list P),
      noseekb ops = true -> run_wops ops e (length e) = (e ++ wdata ops, length e + wlen ops).
  Proof.
    induction ops as [|o ops IH]; intros e H; simpl.
    - rewrite app_nil_r. unfold wlen. simpl. f_equal. lia.
    - destruct o as [n|l]; simpl in H; [discriminate|].
      unfold stream_write. rewrite firstn_all, skipn_all2 by lia. rewrite app_nil_r.
      replace (length e + length l) with (length (e ++ l)) by (rewrite app_length; reflexivity).
      rewrite IH by auto. unfold wlen. simpl. rewrite !app_length, <- app_assoc. f_equal. lia.
  Qed.

  Variable fl : list P.

  Lemma fill_lines_ok : forall lsz n, noseekb (fill_lines fl lsz n) = true /\ wlen (fill_lines fl lsz n) = n * Nat.min lsz (length fl).
  Proof.
    intros lsz n. unfold fill_lines. induction n; simpl; auto. destruct IHn as [A B]. split; auto.
    change (wfill fl lsz :: repeat (wfill fl lsz) n) with ([wfill fl lsz] ++ repeat (wfill fl lsz) n).
    rewrite wlen_app, B. unfold wlen. simpl. rewrite app_nil_r, firstn_length. lia.
  Qed.

  Lemma opt_w_ok : forall b k, noseekb (opt_w b (wfill fl k)) = true /\
                               wlen (opt_w b (wfill fl k)) = if b then Nat.min k (length fl) else 0.
  Proof.
    intros b k. destruct b; simpl; split; auto. unfold wlen. simpl. rewrite app_nil_r, firstn_length. reflexivity.
  Qed.

  Lemma wlen_cons_write : forall l ops, wlen (WWrite l :: ops) = length l + wlen ops.
  Proof. intros. unfold wlen. simpl. rewrite app_length. reflexivity. Qed.

  Lemma solid_fill_rows_ok : forall n plen hl tmp,
      length tmp = n * plen -> hl <= length fl ->
      noseekb (solid_fill_rows n plen hl fl tmp) = true /\
      wlen (solid_fill_rows n plen hl fl tmp) = n * plen + (n - 1) * hl.
  Proof.
    induction n; intros plen hl tmp Hl Hh; simpl; auto.
    destruct (IHn plen hl (skipn plen tmp)) as [A B]; [rewrite skipn_length; lia | auto |].
    destruct (opt_w_ok ((0 <? hl) && (0 <? n)) hl) as [C D].
    split.
    - rewrite noseekb_app, C, A. reflexivity.
    - rewrite wlen_cons_write, wlen_app, B, D, firstn_length.
      rewrite Nat.min_l by lia. rewrite Nat.min_l by lia.
      destruct n; simpl; [rewrite andb_false_r; lia|].
      destruct hl; simpl; lia.
  Qed.

  Lemma strided_fill_px_ok : forall n gap one (fx : bool) tmp,
      n * one <= length tmp -> (2 <= n -> gap <= length fl) -> (fx = false -> gap = 0) ->
      noseekb (fst (strided_fill_px n gap one fx fl tmp)) = true /\
      wlen (fst (strided_fill_px n gap one fx fl tmp)) = n * one + (n - 1) * gap /\
      snd (strided_fill_px n gap one fx fl tmp) = skipn (n * one) tmp.
  Proof.
    induction n; intros gap one fx tmp Hl Hg Hfx; simpl; auto.
    specialize (IHn gap one fx (skipn one tmp)).
    destruct (strided_fill_px n gap one fx fl (skipn one tmp)) as [ops t] eqn:E. simpl in *.
    destruct IHn as (A & B & C); [rewrite skipn_length; lia | intros; apply Hg; lia | auto |].
    destruct (opt_w_ok (fx && (0 <? n)) gap) as [D F].
    split; [|split].
    - rewrite noseekb_app, D, A. reflexivity.
    - rewrite wlen_cons_write, wlen_app, B, F, firstn_length.
      rewrite (Nat.min_l one) by lia.
      destruct n; simpl; [rewrite andb_false_r; lia|].
      rewrite Nat.min_l by (apply Hg; lia).
      destruct fx; simpl; [lia|]. rewrite (Hfx eq_refl). lia.
    - rewrite C. rewrite skipn_skipn'. first [reflexivity | f_equal; lia].
  Qed.

  Lemma strided_fill_rows_ok : forall n cxn gap one (fx fy : bool) tyn lsz hl tmp,
      length tmp = n * (cxn * one) -> (2 <= cxn -> gap <= length fl) -> (fx = false -> gap = 0) -> hl <= length fl ->
      lsz <= length fl -> (fy = false -> tyn - 1 = 0) ->
      noseekb (strided_fill_rows n cxn gap one fx fy tyn lsz hl fl tmp) = true /\
      wlen (strided_fill_rows n cxn gap one fx fy tyn lsz hl fl tmp) =
      n * (cxn * one + (cxn - 1) * gap) + (n - 1) * ((tyn - 1) * lsz + hl).
  Proof.
    induction n; intros cxn gap one fx fy tyn lsz hl tmp Hl Hg Hfx Hh Hls Hfy; simpl; auto.
    pose proof (strided_fill_px_ok cxn gap one fx tmp) as Hpx.
    destruct (strided_fill_px cxn gap one fx fl tmp) as [ops t] eqn:E. simpl in Hpx.
    destruct Hpx as (A & B & C); [lia | auto | auto |].
    destruct (IHn cxn gap one fx fy tyn lsz hl t) as [A' B']; auto.
    { rewrite C, skipn_length. lia. }
    destruct (opt_w_ok ((0 <? hl) && (0 <? n)) hl) as [D F].
    destruct (fill_lines_ok lsz (tyn - 1)) as [L1 L2].
    split.
    - rewrite !noseekb_app, A, D, A'. destruct (fy && (0 <? n)); simpl; auto. rewrite L1. reflexivity.
    - rewrite !wlen_app, B, F, B'.
      rewrite Nat.min_l by lia.
      assert (Elines : wlen (if fy && (0 <? n) then fill_lines fl lsz (tyn - 1) else []) =
                       if (0 <? n) then (tyn - 1) * lsz else 0).
      { destruct fy; simpl.
        - destruct (0 <? n); [rewrite L2, Nat.min_l by lia; reflexivity | reflexivity].
        - rewrite (Hfy eq_refl). destruct (0 <? n); reflexivity. }
      rewrite Elines.
      destruct n; simpl; [rewrite andb_false_r; lia|].
      destruct hl; simpl; lia.
  Qed.

  (** The fill stream of the first write never seeks and has exactly xdim*ydim pixels: the new image
      element covers the whole image -- no missing trailing rows, no extra lines (DESIGN section 8 #7). *)
  Lemma first_write_covers_image_lemma : forall xdim ydim r (data : list P),
      length fl = xdim -> rgn_inside xdim ydim r = true -> whole_image xdim ydim r = false ->
      length data = r_cx r * r_cy r ->
      let ops := gr_write_ops true xdim ydim 1 r fl data in
      noseekb ops = true /\ wlen ops = xdim * ydim /\
      run_wops ops [] 0 = (wdata ops, xdim * ydim).
  Proof.
    intros xdim ydim r data Hfl Hin Hw Hd ops.
    pose proof (inside_facts _ _ _ Hin) as (Htx & Hty & Hcx & Hcy & Hx & Hy).
    assert (Hcore : noseekb ops = true /\ wlen ops = xdim * ydim).
    { subst ops. unfold gr_write_ops. rewrite Hw.
      unfold Gb, G, wr_fill_lo_cond, wr_fill_hi_cond, wr_fill_lo_size, wr_fill_hi_size, wr_fill_line_size,
        wr_pix_len, wr_trail_to_0, wr_trail_from_0, wr_trail_to_1, wr_trail_from_1, wr_fill_stride_size.
      rewrite ?Nat.mul_1_l.
      set (lo := if 0 <? r_sx r then r_sx r else 0).
      set (hi := if r_sx r + (r_cx r - 1) * r_tx r + 1 <? xdim then xdim - (r_sx r + (r_cx r - 1) * r_tx r + 1) else 0).
      assert (Elo : lo = r_sx r) by (subst lo; destruct (r_sx r); reflexivity).
      assert (Ehi : hi = xdim - (r_sx r + (r_cx r - 1) * r_tx r + 1)).
      { subst hi. destruct (r_sx r + (r_cx r - 1) * r_tx r + 1 <? xdim) eqn:E; auto. apply Nat.ltb_ge in E. lia. }
      destruct (fill_lines_ok xdim (r_sy r)) as [A1 B1].
      destruct (opt_w_ok (0 <? lo) lo) as [A2 B2].
      destruct (opt_w_ok (0 <? hi) hi) as [A4 B4].
      destruct (solid_block r) eqn:Es.
      - unfold solid_block in Es. apply andb_prop in Es. destruct Es as [E1 E2].
        apply Nat.eqb_eq in E1. apply Nat.eqb_eq in E2.
        destruct (solid_fill_rows_ok (r_cy r) (r_cx r) (hi + lo) data) as [A3 B3]; [lia | lia |].
        destruct (fill_lines_ok xdim (ydim - (r_sy r + (r_cy r - 1) * r_ty r + 1))) as [A5 B5].
        split.
        + rewrite !noseekb_app, A1, A2, A3, A4, A5. reflexivity.
        + rewrite !wlen_app, B1, B2, B3, B4, B5. rewrite !Nat.min_l by lia.
          assert (Eo1 : (if 0 <? lo then lo else 0) = lo) by (destruct lo; reflexivity).
          assert (Eo2 : (if 0 <? hi then hi else 0) = hi) by (destruct hi; reflexivity).
          rewrite Eo1, Eo2. rewrite E1, E2 in *. clearbody lo hi.
          pose proof (solid_total xdim ydim (r_sx r) (r_sy r) (r_cx r) (r_cy r) lo hi Hcx Hcy Hx Hy Elo Ehi) as T.
          rewrite ?Nat.min_l by lia. lia.
      - assert (Hfx : (1 <? r_tx r) = false -> r_tx r - 1 = 0) by (intros E; apply Nat.ltb_ge in E; lia).
        assert (Hfy : (1 <? r_ty r) = false -> r_ty r - 1 = 0) by (intros E; apply Nat.ltb_ge in E; lia).
        destruct (strided_fill_rows_ok (r_cy r) (r_cx r) (r_tx r - 1) 1 (1 <? r_tx r) (1 <? r_ty r) (r_ty r) xdim
                                       (hi + lo) data) as [A3 B3]; [rewrite Hd; ring | intros H2; rewrite Hfl; assert (r_tx r * 1 <= (r_cx r - 1) * r_tx r) by nia; lia | exact Hfx | clearbody lo hi; subst lo hi; rewrite Hfl; clear - Hx; nia | rewrite Hfl; lia | exact Hfy |].
        destruct (fill_lines_ok xdim (ydim - (r_sy r + (r_cy r - 1) * r_ty r + 1))) as [A5 B5].
        split.
        + rewrite !noseekb_app, A1, A2, A3, A4, A5. reflexivity.
        + rewrite !wlen_app, B1, B2, B3, B4, B5. rewrite !Nat.min_l by lia.
          assert (Eo1 : (if 0 <? lo then lo else 0) = lo) by (destruct lo; reflexivity).
          assert (Eo2 : (if 0 <? hi then hi else 0) = hi) by (destruct hi; reflexivity).
          rewrite Eo1, Eo2. clearbody lo hi.
          pose proof (strided_total xdim ydim (r_sx r) (r_sy r) (r_tx r) (r_ty r) (r_cx r) (r_cy r) lo hi
                                    Htx Hty Hcx Hcy Hx Hy Elo Ehi) as T.
          rewrite ?Nat.min_l by lia. lia. }
    destruct Hcore as [A B]. split; [|split]; auto.
    pose proof (run_noseek ops [] A) as R. simpl in R. rewrite R, B. reflexivity.
  Qed.
End FillProofs.

(** whole-image writes replace the image *)
Lemma whole_write_lemma : forall {P} (e : option (list P)) xdim ydim r (f : P) (data : list P),
    whole_image xdim ydim r = true -> length data = xdim * ydim ->
    (forall l, e = Some l -> length l = xdim * ydim) ->
    gr_write_px e xdim ydim r f data = data.
Proof.
  intros P e xdim ydim r f data Hw Hd He.
  assert (Hc : 1 * r_cx r * r_cy r = length data).
  { unfold whole_image in Hw. repeat (apply andb_prop in Hw; destruct Hw as [Hw ?]).
    repeat match goal with H : (_ =? _) = true |- _ => apply Nat.eqb_eq in H end. subst. lia. }
  unfold gr_write_px, gr_write_ops. rewrite Hw. rewrite Hc.
  destruct e as [l|]; simpl; unfold stream_write; simpl; rewrite firstn_all.
  - rewrite skipn_all2 by (rewrite (He l eq_refl); lia). apply app_nil_r.
  - destruct (length data); simpl; apply app_nil_r.
Qed.

(** GRreadlut converts the palette as a lut_dimX x lut_dimY image (1 wide, nentries high) of 3 components *)
Lemma lut_read_lemma : forall {A} (d : A) lil (l dst : list A),
    length l = 768 -> length dst = 768 ->
    il_convert_walk ILpixel lil (lut_dimX 256) (lut_dimY 256) 3 1 l dst = il_convert_spec d ILpixel lil 1 256 3 1 l.
Proof.
  intros A d lil l dst Hl Hd. unfold lut_dimX, lut_dimY.
  apply il_convert_correct_lemma; auto.
Qed.

(* ------------------------------------------------------------------------------------------ *)
(** * Old-style run-length coder (dfrle.c): decode (encode row) = row for every byte row *)

Lemma cnt_lit_facts : forallb (fun c => Nat.land c dfrle_dec_flag =? 0) (seq 0 128) = true.
Proof. vm_compute. reflexivity. Qed.

Lemma cnt_run_facts :
  forallb (fun r => let c := Nat.lor dfrle_run_flag (r mod 256) mod 256 in
                    negb (Nat.land c dfrle_dec_flag =? 0) && (Nat.land c dfrle_dec_mask =? r)) (seq 0 128) = true.
Proof. vm_compute. reflexivity. Qed.

Lemma unrle_idle_eq : forall c r,
    unrle_sm DIdle (c :: r) =
    if Nat.land c dfrle_dec_flag =? 0
    then match c with 0 => unrle_sm DIdle r | _ => unrle_sm (DLit c) r end
    else unrle_sm (DRun (Nat.land c dfrle_dec_mask)) r.
Proof. reflexivity. Qed.

Lemma unrle_lit : forall l k tail, length l = S k -> unrle_sm (DLit (S k)) (l ++ tail) = l ++ unrle_sm DIdle tail.
Proof.
  induction l as [|a l IH]; intros k tail H; [discriminate|].
  simpl in H. injection H as H. change ((a :: l) ++ tail) with (a :: (l ++ tail)).
  change (unrle_sm (DLit (S k)) (a :: l ++ tail))
    with (a :: unrle_sm (match S k with S (S k') => DLit (S k') | _ => DIdle end) (l ++ tail)).
  simpl app. f_equal. destruct k.
  - destruct l; [reflexivity|discriminate].
  - apply IH. auto.
Qed.

Lemma unrle_flush : forall lit tail,
    length lit <= 127 -> unrle_sm DIdle (rle_flush lit ++ tail) = lit ++ unrle_sm DIdle tail.
Proof.
  intros lit tail H. destruct lit as [|a l]; [reflexivity|].
  unfold rle_flush. remember (a :: l) as lit eqn:E.
  assert (Hk : exists k, length lit = S k) by (subst; simpl; eauto). destruct Hk as [k Hk].
  rewrite Hk. rewrite Nat.mod_small by lia.
  change ((S k :: lit) ++ tail) with (S k :: (lit ++ tail)). rewrite unrle_idle_eq.
  pose proof cnt_lit_facts as F. rewrite forallb_forall in F.
  rewrite (F (S k)) by (apply in_seq; lia).
  apply unrle_lit. auto.
Qed.

Lemma unrle_idle_run : forall r b tail,
    r <= 127 ->
    unrle_sm DIdle ((Nat.lor dfrle_run_flag (r mod 256) mod 256) :: b :: tail) = repeat b r ++ unrle_sm DIdle tail.
Proof.
  intros r b tail H. rewrite unrle_idle_eq.
  pose proof cnt_run_facts as F. rewrite forallb_forall in F.
  specialize (F r ltac:(apply in_seq; lia)). cbv zeta in F. apply andb_prop in F. destruct F as [F1 F2].
  apply negb_true_iff in F1. rewrite F1. apply Nat.eqb_eq in F2. rewrite F2. reflexivity.
Qed.

Lemma run_len_le : forall b l cap, run_len b l cap <= cap.
Proof.
  intros b l cap. revert l. induction cap; intros l; [destruct l; simpl; lia|].
  destruct l as [|x l]; simpl; [lia|]. destruct (x =? b); [specialize (IHcap l); lia | lia].
Qed.

Lemma run_len_split : forall b l cap, l = repeat b (run_len b l cap) ++ skipn (run_len b l cap) l.
Proof.
  intros b l cap. revert l. induction cap; intros l; [destruct l; reflexivity|].
  destruct l as [|x l]; [reflexivity|]. simpl. destruct (x =? b) eqn:E; [|reflexivity].
  apply Nat.eqb_eq in E. subst. simpl. f_equal. apply IHcap.
Qed.

Lemma rle_go_correct : forall fuel data lit tail,
    length data <= fuel -> length lit <= dfrle_lit_flush ->
    unrle_sm DIdle (rle_go fuel data lit ++ tail) = lit ++ data ++ unrle_sm DIdle tail.
Proof.
  induction fuel as [|f IH]; intros data lit tail Hf Hl.
  - destruct data; [|simpl in Hf; lia]. simpl. apply unrle_flush. unfold dfrle_lit_flush in Hl. lia.
  - destruct data as [|b rest].
    + simpl. apply unrle_flush. unfold dfrle_lit_flush in Hl. lia.
    + cbn [rle_go]. set (k := run_len b rest (dfrle_run_window - 1)).
      assert (Hk : k <= dfrle_run_window - 1) by apply run_len_le.
      destruct (dfrle_min_run <? S k) eqn:E.
      * rewrite <- !app_assoc. rewrite unrle_flush by (unfold dfrle_lit_flush in Hl; lia).
        f_equal. change ([Nat.lor dfrle_run_flag (S k mod 256) mod 256; b] ++ rle_go f (skipn (S k) (b :: rest)) [] ++ tail)
          with ((Nat.lor dfrle_run_flag (S k mod 256) mod 256) :: b :: (rle_go f (skipn (S k) (b :: rest)) [] ++ tail)).
        assert (Hk2 : S k <= 127) by (clearbody k; unfold dfrle_run_window in Hk; lia). rewrite unrle_idle_run by exact Hk2.
        rewrite IH.
        -- simpl. f_equal. rewrite app_assoc. f_equal. symmetry. apply run_len_split.
        -- simpl. rewrite skipn_length. simpl in Hf. lia.
        -- simpl. lia.
      * destruct (dfrle_lit_flush <? length (lit ++ [b])) eqn:E2.
        -- rewrite <- app_assoc. rewrite unrle_flush.
           ++ rewrite IH; [| simpl in Hf; lia | simpl; lia]. simpl. rewrite <- app_assoc. reflexivity.
           ++ rewrite app_length. simpl. unfold dfrle_lit_flush in Hl. lia.
        -- rewrite IH.
           ++ rewrite <- app_assoc. reflexivity.
           ++ simpl in Hf. lia.
           ++ apply Nat.ltb_ge in E2. exact E2.
Qed.

Lemma dfrle_roundtrip_lemma : forall row, dfrle_decode (dfrle_encode row) = row.
Proof.
  intros row. unfold dfrle_decode, dfrle_encode.
  pose proof (rle_go_correct (length row) row [] [] (le_n _) (Nat.le_0_l _)) as H.
  rewrite !app_nil_r in H. exact H.
Qed.

Lemma rle_image_roundtrip_lemma : forall w h bytes,
    length bytes = w * h -> rle_image_decode (rle_image_encode w h bytes) = bytes.
Proof.
  intros w h bytes Hl. unfold rle_image_decode, rle_image_encode. rewrite map_map.
  rewrite (map_ext _ (fun r => r)) by (intros; apply dfrle_roundtrip_lemma). rewrite map_id.
  unfold rows_of. rewrite <- flat_map_concat_map.
  rewrite <- (seq_mul_flat (fun q => nth q bytes 0) w h). rewrite <- Hl. apply map_nth_seq_id.
Qed.

(* ------------------------------------------------------------------------------------------ *)
(** * Region engine: writes into an existing image (per-row and per-pixel Hseek + Hwrite) *)

Section ApplyTraceG.
  Context {A T : Type}.
  Variables (n : nat) (src : list A) (fa fb : T -> nat) (def : A).
  Definition mk_trg (ts : list T) := map (fun t => (fa t, fb t)) ts.

  Lemma apply_traceg_length : forall ts dst,
      (forall t, In t ts -> fa t + n <= length src /\ fb t + n <= length dst) ->
      length (apply_trace n src (mk_trg ts) dst) = length dst.
  Proof.
    induction ts as [|t ts IH]; intros dst H; simpl; auto.
    unfold apply_trace in *. simpl. rewrite IH.
    - apply memcpy_at_length; apply H; left; auto.
    - intros t' Ht'. rewrite memcpy_at_length by (apply H; left; auto). apply H. right; auto.
  Qed.

  Lemma apply_traceg_untouched : forall ts dst p,
      (forall t, In t ts -> fa t + n <= length src /\ fb t + n <= length dst) ->
      (forall t, In t ts -> p < fb t \/ fb t + n <= p) ->
      nth p (apply_trace n src (mk_trg ts) dst) def = nth p dst def.
  Proof.
    induction ts as [|t ts IH]; intros dst p H Hp; simpl; auto.
    unfold apply_trace in *. simpl. rewrite IH; auto.
    - apply memcpy_at_nth_out; try (apply H; left; auto). apply Hp. left; auto.
    - intros t' Ht'. rewrite memcpy_at_length by (apply H; left; auto). apply H. right; auto.
    - intros t' Ht'. apply Hp. right; auto.
  Qed.

  Lemma apply_traceg_nth : forall ts dst t b,
      (forall t, In t ts -> fa t + n <= length src /\ fb t + n <= length dst) ->
      (forall t t', In t ts -> In t' ts -> fb t = fb t' -> fa t = fa t') ->
      (forall t t', In t ts -> In t' ts -> fb t = fb t' \/ fb t + n <= fb t' \/ fb t' + n <= fb t) ->
      In t ts -> b < n ->
      nth (fb t + b) (apply_trace n src (mk_trg ts) dst) def = nth (fa t + b) src def.
  Proof.
    induction ts as [|t0 ts IH]; intros dst t b H Hf Hd Ht Hb; [destruct Ht|].
    assert (Hlen : length (memcpy_at src (fa t0) dst (fb t0) n) = length dst)
      by (apply memcpy_at_length; apply H; left; auto).
    assert (H' : forall t, In t ts -> fa t + n <= length src /\
                                     fb t + n <= length (memcpy_at src (fa t0) dst (fb t0) n)).
    { intros t' Ht'. rewrite Hlen. apply H. right; auto. }
    change (apply_trace n src (mk_trg (t0 :: ts)) dst)
      with (apply_trace n src (mk_trg ts) (memcpy_at src (fa t0) dst (fb t0) n)).
    destruct (in_dec Nat.eq_dec (fb t) (map fb ts)) as [Hin|Hnin].
    - apply in_map_iff in Hin. destruct Hin as [t' [E Ht']].
      rewrite <- E. rewrite (IH _ t' b); auto.
      + f_equal. f_equal. apply Hf; auto. right; auto.
      + intros a a' Ha Ha'. apply Hf; right; auto.
      + intros a a' Ha Ha'. apply Hd; right; auto.
    - assert (t = t0 \/ (In t ts)) as [->|Ht'] by (destruct Ht; auto).
      + rewrite apply_traceg_untouched; auto.
        * apply memcpy_at_nth_in; auto; apply H; left; auto.
        * intros t' Ht'.
          destruct (Hd t0 t' (or_introl eq_refl) (or_intror Ht')) as [E|[E|E]]; [|lia|lia].
          exfalso. apply Hnin. rewrite E. apply in_map. auto.
      + exfalso. apply Hnin. apply in_map. auto.
  Qed.
End ApplyTraceG.

Lemma apply_trace_app : forall {A} n (src : list A) a b dst,
    apply_trace n src (a ++ b) dst = apply_trace n src b (apply_trace n src a dst).
Proof. intros. unfold apply_trace. apply fold_left_app. Qed.

Section WriteProofs.
  Context {P : Type}.
  Variable d : P.

  Lemma run_wops_app : forall (a b : list (wop P)) e pos,
      run_wops (a ++ b) e pos = run_wops b (fst (run_wops a e pos)) (snd (run_wops a e pos)).
  Proof.
    induction a as [|o a IH]; intros b e pos; simpl; auto. destruct o; apply IH.
  Qed.

  Lemma stream_write_memcpy : forall (data e : list P) s pos n,
      s + n <= length data -> stream_write e pos (firstn n (skipn s data)) = memcpy_at data s e pos n.
  Proof.
    intros data e s pos n H. unfold stream_write, memcpy_at.
    rewrite firstn_length, skipn_length, Nat.min_l by lia. reflexivity.
  Qed.

  Lemma run_solid_seek : forall n off rowadd plen (data e : list P) i0 pos,
      (i0 + n) * plen <= length data ->
      fst (run_wops (solid_seek_ops n off rowadd plen (skipn (i0 * plen) data)) e pos) =
      apply_trace plen data (map (fun i => ((i0 + i) * plen, off + i * rowadd)) (seq 0 n)) e.
  Proof.
    induction n; intros off rowadd plen data e i0 pos H; [reflexivity|].
    cbn [solid_seek_ops run_wops]. rewrite stream_write_memcpy by nia.
    rewrite skipn_skipn'. replace (i0 * plen + plen) with (S i0 * plen) by lia.
    rewrite IHn by nia. cbn [seq map]. rewrite (map_seq_shift _ 1 n).
    unfold apply_trace at 2. cbn [fold_left fst snd].
    replace ((i0 + 0) * plen) with (i0 * plen) by lia. replace (off + 0 * rowadd) with off by lia.
    unfold apply_trace. f_equal. apply map_ext. intros i. f_equal; lia.
  Qed.

  Lemma strided_row_spec : forall n loff sadd (data e : list P) q0 pos,
      q0 + n <= length data ->
      fst (run_wops (fst (strided_row_ops n loff sadd 1 (skipn q0 data))) e pos) =
      apply_trace 1 data (map (fun j => (q0 + j, loff + j * sadd)) (seq 0 n)) e /\
      snd (strided_row_ops n loff sadd 1 (skipn q0 data)) = skipn (q0 + n) data.
  Proof.
    induction n; intros loff sadd data e q0 pos H.
    - simpl. rewrite Nat.add_0_r. auto.
    - cbn [strided_row_ops]. rewrite skipn_skipn'.
      specialize (IHn (loff + sadd) sadd data (memcpy_at data q0 e loff 1) (q0 + 1) (loff + 1) ltac:(lia)).
      destruct (strided_row_ops n (loff + sadd) sadd 1 (skipn (q0 + 1) data)) as [ops t] eqn:E.
      cbn [fst snd] in *. destruct IHn as [A B]. split.
      + cbn [run_wops]. rewrite stream_write_memcpy by lia.
        replace (length (firstn 1 (skipn q0 data))) with 1
          by (rewrite firstn_length, skipn_length; lia).
        rewrite A. cbn [seq map]. rewrite (map_seq_shift _ 1 n).
        unfold apply_trace at 2. cbn [fold_left fst snd].
        replace (q0 + 0) with q0 by lia. replace (loff + 0 * sadd) with loff by lia.
        unfold apply_trace. f_equal. apply map_ext. intros j. f_equal; lia.
      + rewrite B. f_equal. lia.
  Qed.

  Lemma strided_seek_spec : forall n cxn off srow sadd (data e : list P) i0 pos,
      (i0 + n) * cxn <= length data ->
      fst (run_wops (strided_seek_ops n cxn off srow sadd 1 (skipn (i0 * cxn) data)) e pos) =
      apply_trace 1 data
                  (flat_map (fun i => map (fun j => ((i0 + i) * cxn + j, off + i * srow + j * sadd)) (seq 0 cxn)) (seq 0 n)) e.
  Proof.
    induction n; intros cxn off srow sadd data e i0 pos H; [reflexivity|].
    cbn [strided_seek_ops].
    destruct (strided_row_spec cxn off sadd data e (i0 * cxn) pos ltac:(nia)) as [A B].
    destruct (strided_row_ops cxn off sadd 1 (skipn (i0 * cxn) data)) as [ops t] eqn:E.
    cbn [fst snd] in *. rewrite run_wops_app. rewrite A. rewrite B.
    replace (i0 * cxn + cxn) with (S i0 * cxn) by lia.
    rewrite IHn by nia. cbn [seq flat_map]. rewrite apply_trace_app. rewrite (flat_map_seq_shift _ 1 n).
    f_equal.
    - apply flat_map_ext. intros i. apply map_ext. intros j. f_equal; lia.
    - f_equal. apply map_ext. intros j. f_equal; lia.
  Qed.

  Lemma in_lattice_some : forall s t c v i, 1 <= t -> in_lattice s t c v = Some i -> v = s + i * t /\ i < c.
  Proof.
    intros s t c v i Ht H. unfold in_lattice in H.
    destruct ((s <=? v) && ((v - s) mod t =? 0) && ((v - s) / t <? c)) eqn:E; [|discriminate].
    injection H as <-. apply andb_prop in E. destruct E as [E E3]. apply andb_prop in E. destruct E as [E1 E2].
    apply Nat.leb_le in E1. apply Nat.eqb_eq in E2. apply Nat.ltb_lt in E3. split; auto.
    pose proof (Nat.div_mod (v - s) t ltac:(lia)). nia.
  Qed.

  Lemma in_lattice_hit : forall s t c i, 1 <= t -> i < c -> in_lattice s t c (s + i * t) = Some i.
  Proof.
    intros s t c i Ht Hi. unfold in_lattice.
    replace (s + i * t - s) with (i * t) by lia.
    rewrite Nat.mod_mul, Nat.div_mul by lia.
    replace (s <=? s + i * t) with true by (symmetry; apply Nat.leb_le; lia).
    rewrite Nat.eqb_refl. replace (i <? c) with true by (symmetry; apply Nat.ltb_lt; auto). reflexivity.
  Qed.

  (** the pixel at linear position [p] after the write: lattice points take the data, the rest is kept *)
  Lemma spec_write_nth : forall (e data : list P) xdim ydim r p,
      p < xdim * ydim ->
      nth p (spec_write_px d e xdim ydim r data) d =
      match in_lattice (r_sy r) (r_ty r) (r_cy r) (p / xdim), in_lattice (r_sx r) (r_tx r) (r_cx r) (p mod xdim) with
      | Some i, Some j => nth (i * r_cx r + j) data d
      | _, _ => nth p e d
      end.
  Proof. intros. unfold spec_write_px. rewrite nth_map_seq by auto. reflexivity. Qed.

  Definition ppos (xdim : nat) (r : rgn) (i j : nat) : nat :=
    (r_sy r + i * r_ty r) * xdim + (r_sx r + j * r_tx r).

  Lemma ppos_divmod : forall xdim ydim r i j,
      rgn_inside xdim ydim r = true -> i < r_cy r -> j < r_cx r ->
      ppos xdim r i j / xdim = r_sy r + i * r_ty r /\ ppos xdim r i j mod xdim = r_sx r + j * r_tx r /\
      ppos xdim r i j < xdim * ydim.
  Proof.
    intros xdim ydim r i j Hin Hi Hj. destruct (pixel_pos_bound xdim ydim r i j Hin Hi Hj) as (A & B & C).
    unfold ppos. split; [apply div_of; auto | split; [apply mod_of; auto | lia]].
  Qed.

  Lemma ppos_inj : forall xdim ydim r i j i' j',
      rgn_inside xdim ydim r = true -> i < r_cy r -> j < r_cx r -> i' < r_cy r -> j' < r_cx r ->
      ppos xdim r i j = ppos xdim r i' j' -> i = i' /\ j = j'.
  Proof.
    intros xdim ydim r i j i' j' Hin Hi Hj Hi' Hj' E.
    destruct (ppos_divmod xdim ydim r i j Hin Hi Hj) as (A & B & _).
    destruct (ppos_divmod xdim ydim r i' j' Hin Hi' Hj') as (A' & B' & _).
    rewrite E in A, B. rewrite A' in A. rewrite B' in B.
    pose proof (inside_facts _ _ _ Hin) as (Htx & Hty & _). split; nia.
  Qed.

  (** common final step: a result that has the data at every lattice point and the old pixel elsewhere *)
  Lemma write_pointwise : forall (e data res : list P) xdim ydim r,
      length e = xdim * ydim -> rgn_inside xdim ydim r = true ->
      length res = xdim * ydim ->
      (forall i j, i < r_cy r -> j < r_cx r -> nth (ppos xdim r i j) res d = nth (i * r_cx r + j) data d) ->
      (forall p, p < xdim * ydim -> (forall i j, i < r_cy r -> j < r_cx r -> p <> ppos xdim r i j) -> nth p res d = nth p e d) ->
      res = spec_write_px d e xdim ydim r data.
  Proof.
    intros e data res xdim ydim r Hl Hin Hr Hhit Hmiss.
    pose proof (inside_facts _ _ _ Hin) as (Htx & Hty & Hcx & Hcy & Hx & Hy).
    apply (nth_ext _ _ d d).
    - unfold spec_write_px. rewrite map_length, seq_length. auto.
    - rewrite Hr. intros p Hp. rewrite spec_write_nth by auto.
      assert (Hxd : xdim <> 0) by (intro; subst; simpl in Hp; lia).
      destruct (in_lattice (r_sy r) (r_ty r) (r_cy r) (p / xdim)) as [i|] eqn:E1;
        [destruct (in_lattice (r_sx r) (r_tx r) (r_cx r) (p mod xdim)) as [j|] eqn:E2|].
      + apply in_lattice_some in E1; auto. apply in_lattice_some in E2; auto.
        destruct E1 as [E1 Hi]. destruct E2 as [E2 Hj].
        rewrite <- (Hhit i j Hi Hj). f_equal. unfold ppos. rewrite <- E1, <- E2.
        pose proof (Nat.div_mod p xdim Hxd). lia.
      + apply Hmiss; auto. intros i' j' Hi' Hj' Ep.
        destruct (ppos_divmod xdim ydim r i' j' Hin Hi' Hj') as (A & B & _). rewrite <- Ep in B.
        rewrite B in E2. rewrite in_lattice_hit in E2 by auto. discriminate.
      + apply Hmiss; auto. intros i' j' Hi' Hj' Ep.
        destruct (ppos_divmod xdim ydim r i' j' Hin Hi' Hj') as (A & B & _). rewrite <- Ep in A.
        rewrite A in E1. rewrite in_lattice_hit in E1 by auto. discriminate.
  Qed.
End WriteProofs.

Lemma region_write_refines_lemma : forall {P} (d : P) (e data : list P) xdim ydim r (f : P),
    length e = xdim * ydim -> rgn_inside xdim ydim r = true -> length data = r_cx r * r_cy r ->
    gr_write_px (Some e) xdim ydim r f data = spec_write_px d e xdim ydim r data.
Proof.
  intros P d e data xdim ydim r f Hl Hin Hd.
  pose proof (inside_facts _ _ _ Hin) as (Htx & Hty & Hcx & Hcy & Hx & Hy).
  destruct (whole_image xdim ydim r) eqn:Ew.
  - (* whole image *)
    assert (Hw := Ew). unfold whole_image, solid_block in Hw.
    repeat (apply andb_prop in Hw; destruct Hw as [Hw ?]).
    repeat match goal with H : (_ =? _) = true |- _ => apply Nat.eqb_eq in H end.
    rewrite (whole_write_lemma (Some e) xdim ydim r f data Ew) by (try (intros l El; injection El as <-); subst; lia).
    apply (write_pointwise d e data data xdim ydim r); auto; try (subst; lia).
    + intros i j Hi Hj. f_equal. unfold ppos. nia.
    + intros p Hp Hm. exfalso.
      assert (Hxd : xdim <> 0) by (intro; subst; simpl in Hp; lia).
      apply (Hm (p / xdim) (p mod xdim)).
      * assert (p / xdim < ydim) by (apply Nat.div_lt_upper_bound; auto). lia.
      * pose proof (Nat.mod_upper_bound p xdim Hxd). lia.
      * unfold ppos. pose proof (Nat.div_mod p xdim Hxd). nia.
  - unfold gr_write_px, gr_write_ops. rewrite Ew.
    destruct (solid_block r) eqn:Es.
    + (* solid block: one Hseek + Hwrite per row *)
      unfold solid_block in Es. apply andb_prop in Es. destruct Es as [E1 E2].
      apply Nat.eqb_eq in E1. apply Nat.eqb_eq in E2.
      unfold G, wr_img_offset, wr_row_add, wr_pix_len.
      change data with (skipn (0 * (1 * r_cx r)) data) at 1.
      rewrite run_solid_seek by (simpl; lia).
      set (fa := fun i : nat => (0 + i) * (1 * r_cx r)).
      set (fb := fun i : nat => (xdim * r_sy r + r_sx r) * 1 + i * (1 * xdim)).
      change (map (fun i : nat => ((0 + i) * (1 * r_cx r), (xdim * r_sy r + r_sx r) * 1 + i * (1 * xdim))) (seq 0 (r_cy r)))
        with (mk_trg fa fb (seq 0 (r_cy r))).
      assert (Hb : forall t, In t (seq 0 (r_cy r)) -> fa t + 1 * r_cx r <= length data /\ fb t + 1 * r_cx r <= length e).
      { intros i Hi. apply in_seq in Hi. unfold fa, fb.
        destruct (pixel_pos_bound xdim ydim r i (r_cx r - 1) Hin ltac:(lia) ltac:(lia)) as (A & B & C).
        rewrite E1, E2 in *. split; nia. }
      assert (Hpp : forall i j, ppos xdim r i j = fb i + j) by (intros; unfold ppos, fb; rewrite E1, E2; ring).
      apply (write_pointwise d e data); auto.
      * rewrite apply_traceg_length; auto.
      * intros i j Hi Hj. rewrite Hpp.
        rewrite (apply_traceg_nth (1 * r_cx r) data fa fb d); auto; try lia.
        -- f_equal. unfold fa. lia.
        -- intros t t' _ _ E. unfold fa, fb in *. nia.
        -- intros t t' Ht Ht'. apply in_seq in Ht. apply in_seq in Ht'. unfold fb.
           destruct (Nat.lt_trichotomy t t') as [L|[L|L]]; [right; left | left | right; right]; nia.
        -- apply in_seq. lia.
      * intros p Hp Hm. apply apply_traceg_untouched; auto.
        intros i Hi. apply in_seq in Hi.
        destruct (le_lt_dec (fb i) p) as [L1|L1]; [|left; auto].
        destruct (le_lt_dec (fb i + 1 * r_cx r) p) as [L2|L2]; [right; auto|].
        exfalso. apply (Hm i (p - fb i)); try lia. rewrite Hpp. lia.
    + (* sub-sampling: one Hseek + Hwrite per pixel *)
      unfold G, wr_img_offset, wr_srow_add, wr_stride_add.
      change data with (skipn (0 * r_cx r) data) at 1.
      rewrite strided_seek_spec by (simpl; lia).
      rewrite (flat_map_list_prod2 (fun i j => ((0 + i) * r_cx r + j, (xdim * r_sy r + r_sx r) * 1 + i * (xdim * r_ty r * 1) + j * (1 * r_tx r)))).
      set (fa := fun t : nat * nat => let '(i, j) := t in (0 + i) * r_cx r + j).
      set (fb := fun t : nat * nat => let '(i, j) := t in (xdim * r_sy r + r_sx r) * 1 + i * (xdim * r_ty r * 1) + j * (1 * r_tx r)).
      rewrite (map_ext _ (fun t => (fa t, fb t))) by (intros [i j]; reflexivity).
      change (map (fun t => (fa t, fb t)) (list_prod (seq 0 (r_cy r)) (seq 0 (r_cx r))))
        with (mk_trg fa fb (list_prod (seq 0 (r_cy r)) (seq 0 (r_cx r)))).
      assert (Hpp : forall i j, ppos xdim r i j = fb (i, j)) by (intros; unfold ppos, fb; ring).
      assert (Hts : forall t, In t (list_prod (seq 0 (r_cy r)) (seq 0 (r_cx r))) -> fst t < r_cy r /\ snd t < r_cx r).
      { intros [i j] Ht. apply in_prod_iff in Ht. rewrite !in_seq in Ht. simpl. lia. }
      assert (Hb : forall t, In t (list_prod (seq 0 (r_cy r)) (seq 0 (r_cx r))) -> fa t + 1 <= length data /\ fb t + 1 <= length e).
      { intros [i j] Ht. destruct (Hts _ Ht) as [Hi Hj]. simpl in Hi, Hj.
        destruct (ppos_divmod xdim ydim r i j Hin Hi Hj) as (_ & _ & C). rewrite Hpp in C.
        split; [unfold fa; nia | lia]. }
      apply (write_pointwise d e data); auto.
      * rewrite apply_traceg_length; auto.
      * intros i j Hi Hj. rewrite Hpp. rewrite <- (Nat.add_0_r (fb (i, j))).
        rewrite (apply_traceg_nth 1 data fa fb d); auto; try lia.
        -- f_equal. unfold fa. lia.
        -- intros [a b] [a' b'] Ht Ht' E. destruct (Hts _ Ht) as [Ha Hb']. destruct (Hts _ Ht') as [Ha' Hb''].
           simpl in *. rewrite <- !Hpp in E.
           destruct (ppos_inj xdim ydim r a b a' b' Hin Ha Hb' Ha' Hb'' E) as [-> ->]. reflexivity.
        -- apply in_prod_iff. rewrite !in_seq. lia.
      * intros p Hp Hm. apply apply_traceg_untouched; auto.
        intros [i j] Ht. destruct (Hts _ Ht) as [Hi Hj]. simpl in Hi, Hj.
        specialize (Hm i j Hi Hj). rewrite Hpp in Hm. lia.
Qed.

(* ------------------------------------------------------------------------------------------ *)
(** * First write of a new image: pointwise contents of the fill stream *)

(** per-pixel trace of a region write: data pixel i*cx+j goes to linear position ppos i j *)
Definition px_trace (xdim : nat) (r : rgn) : list (nat * nat) :=
  flat_map (fun i => map (fun j => (i * r_cx r + j, ppos xdim r i j)) (seq 0 (r_cx r))) (seq 0 (r_cy r)).

Lemma px_trace_spec : forall {P} (d : P) (e data : list P) xdim ydim r,
    length e = xdim * ydim -> rgn_inside xdim ydim r = true -> length data = r_cx r * r_cy r ->
    apply_trace 1 data (px_trace xdim r) e = spec_write_px d e xdim ydim r data.
Proof.
  intros P d e data xdim ydim r Hl Hin Hd.
  pose proof (inside_facts _ _ _ Hin) as (Htx & Hty & Hcx & Hcy & Hx & Hy).
  unfold px_trace. rewrite (flat_map_list_prod2 (fun i j => (i * r_cx r + j, ppos xdim r i j))).
  set (fa := fun t : nat * nat => let '(i, j) := t in i * r_cx r + j).
  set (fb := fun t : nat * nat => let '(i, j) := t in ppos xdim r i j).
  rewrite (map_ext _ (fun t => (fa t, fb t))) by (intros [i j]; reflexivity).
  change (map (fun t => (fa t, fb t)) (list_prod (seq 0 (r_cy r)) (seq 0 (r_cx r))))
    with (mk_trg fa fb (list_prod (seq 0 (r_cy r)) (seq 0 (r_cx r)))).
  assert (Hts : forall t, In t (list_prod (seq 0 (r_cy r)) (seq 0 (r_cx r))) -> fst t < r_cy r /\ snd t < r_cx r).
  { intros [i j] Ht. apply in_prod_iff in Ht. rewrite !in_seq in Ht. simpl. lia. }
  assert (Hb : forall t, In t (list_prod (seq 0 (r_cy r)) (seq 0 (r_cx r))) -> fa t + 1 <= length data /\ fb t + 1 <= length e).
  { intros [i j] Ht. destruct (Hts _ Ht) as [Hi Hj]. simpl in Hi, Hj.
    destruct (ppos_divmod xdim ydim r i j Hin Hi Hj) as (_ & _ & C). split; [unfold fa; nia | unfold fb; lia]. }
  apply (write_pointwise d e data); auto.
  - rewrite apply_traceg_length; auto.
  - intros i j Hi Hj. change (ppos xdim r i j) with (fb (i, j)). rewrite <- (Nat.add_0_r (fb (i, j))).
    rewrite (apply_traceg_nth 1 data fa fb d); auto; try lia.
    + f_equal. unfold fa. lia.
    + intros [a b] [a' b'] Ht Ht' E. destruct (Hts _ Ht) as [Ha Hb']. destruct (Hts _ Ht') as [Ha' Hb''].
      simpl in *. destruct (ppos_inj xdim ydim r a b a' b' Hin Ha Hb' Ha' Hb'' E) as [-> ->]. reflexivity.
    + apply in_prod_iff. rewrite !in_seq. lia.
  - intros p Hp Hm. apply apply_traceg_untouched; auto.
    intros [i j] Ht. destruct (Hts _ Ht) as [Hi Hj]. simpl in Hi, Hj.
    specialize (Hm i j Hi Hj). unfold fb. lia.
Qed.

Lemma firstn_repeat : forall {A} (x : A) n m, n <= m -> firstn n (repeat x m) = repeat x n.
Proof.
  intros A x n. induction n; intros m H; [reflexivity|]. destruct m; [lia|]. simpl. f_equal. apply IHn. lia.
Qed.

Lemma firstn_app_exact : forall {A} (a b : list A), firstn (length a) (a ++ b) = a.
Proof. intros. rewrite <- (Nat.add_0_r (length a)), firstn_app_2. simpl. apply app_nil_r. Qed.

Lemma skipn_app_exact : forall {A} (a b : list A), skipn (length a) (a ++ b) = b.
Proof. intros A a b. induction a; simpl; auto. Qed.

(** a block of consecutive single-pixel copies is one memcpy *)
Lemma block_apply : forall {A} (d : A) (src buf : list A) k0 o len,
    k0 + len <= length src -> o + len <= length buf ->
    apply_trace 1 src (map (fun q => (k0 + q, o + q)) (seq 0 len)) buf = memcpy_at src k0 buf o len.
Proof.
  intros A d src buf k0 o len Hs Hb.
  set (fa := fun q : nat => k0 + q). set (fb := fun q : nat => o + q).
  change (map (fun q => (k0 + q, o + q)) (seq 0 len)) with (mk_trg fa fb (seq 0 len)).
  assert (Hbd : forall t, In t (seq 0 len) -> fa t + 1 <= length src /\ fb t + 1 <= length buf)
    by (intros t Ht; apply in_seq in Ht; unfold fa, fb; lia).
  assert (Hlen : length (apply_trace 1 src (mk_trg fa fb (seq 0 len)) buf) = length buf)
    by (apply apply_traceg_length; auto).
  unfold mk_trg in Hlen.
  apply (nth_ext _ _ d d).
  - rewrite Hlen. rewrite memcpy_at_length; auto.
  - rewrite Hlen. intros p Hp.
    change (map (fun q : nat => (fa q, fb q)) (seq 0 len)) with (mk_trg fa fb (seq 0 len)).
    destruct (le_lt_dec o p) as [L1|L1]; [destruct (le_lt_dec (o + len) p) as [L2|L2]|].
    + rewrite memcpy_at_nth_out by lia. apply apply_traceg_untouched; auto.
      intros t Ht. apply in_seq in Ht. unfold fb. lia.
    + assert (Hfun : forall t t', In t (seq 0 len) -> In t' (seq 0 len) -> fb t = fb t' -> fa t = fa t')
        by (intros t t' _ _ E; unfold fa, fb in *; lia).
      assert (Hdis : forall t t', In t (seq 0 len) -> In t' (seq 0 len) ->
                                  fb t = fb t' \/ fb t + 1 <= fb t' \/ fb t' + 1 <= fb t) by (intros; lia).
      assert (Hin : In (p - o) (seq 0 len)) by (apply in_seq; lia).
      pose proof (apply_traceg_nth 1 src fa fb d (seq 0 len) buf (p - o) 0 Hbd Hfun Hdis Hin ltac:(lia)) as E.
      replace (fb (p - o) + 0) with p in E by (unfold fb; lia). rewrite E.
      replace p with (o + (p - o)) at 2 by lia. rewrite memcpy_at_nth_in by lia. f_equal. unfold fa. lia.
    + rewrite memcpy_at_nth_out by lia. apply apply_traceg_untouched; auto.
      intros t Ht. apply in_seq in Ht. unfold fb. lia.
Qed.

Section FirstWrite.
  Context {P : Type}.
  Variables (f : P) (m : nat) (data : list P).
  Let fl := repeat f m.

  Inductive seg := SF (n : nat) | SD (k0 len : nat).
  Definition realize (s : seg) : wop P :=
    match s with SF n => WWrite (firstn n fl) | SD k0 len => WWrite (firstn len (skipn k0 data)) end.
  Definition seg_len (s : seg) : nat := match s with SF n => n | SD _ len => len end.
  Definition seg_ok (s : seg) : Prop := match s with SF n => n <= m | SD k0 len => k0 + len <= length data end.
  Fixpoint total (segs : list seg) : nat := match segs with [] => 0 | s :: r => seg_len s + total r end.
  Fixpoint place (segs : list seg) (pos : nat) : list (nat * nat) :=
    match segs with
    | [] => []
    | SF n :: r => place r (pos + n)
    | SD k0 len :: r => map (fun q => (k0 + q, pos + q)) (seq 0 len) ++ place r (pos + len)
    end.

  Lemma total_app : forall a b, total (a ++ b) = total a + total b.
  Proof. induction a; intros; simpl; auto. rewrite IHa. lia. Qed.
  Lemma place_app : forall a b pos, place (a ++ b) pos = place a pos ++ place b (pos + total a).
  Proof.
    induction a as [|s a IH]; intros b pos; simpl; [rewrite Nat.add_0_r; auto|].
    destruct s; simpl; rewrite IH; [| rewrite <- app_assoc]; rewrite Nat.add_assoc; reflexivity.
  Qed.

  (** the sequential stream is the per-pixel trace applied to an all-fill buffer *)
  Lemma stream_is_trace : forall segs pre,
      Forall seg_ok segs ->
      apply_trace 1 data (place segs (length pre)) (pre ++ repeat f (total segs)) =
      pre ++ wdata (map realize segs).
  Proof.
    induction segs as [|s segs IH]; intros pre Hok; [reflexivity|].
    inversion Hok as [|? ? Hs Hr]; subst. destruct s as [n|k0 len]; simpl in Hs.
    - cbn [place total seg_len map realize]. unfold wdata. cbn [flat_map]. fold (wdata (map realize segs)).
      unfold fl. rewrite firstn_repeat by auto. rewrite repeat_app, app_assoc.
      replace (length pre + n) with (length (pre ++ repeat f n)) by (rewrite app_length, repeat_length; auto).
      rewrite IH by auto. rewrite <- app_assoc. reflexivity.
    - cbn [place total seg_len map realize]. unfold wdata. cbn [flat_map]. fold (wdata (map realize segs)).
      rewrite apply_trace_app.
      rewrite (block_apply f) by (rewrite ?app_length, ?repeat_length; lia).
      assert (E : memcpy_at data k0 (pre ++ repeat f (len + total segs)) (length pre) len =
                  (pre ++ firstn len (skipn k0 data)) ++ repeat f (total segs)).
      { unfold memcpy_at. rewrite firstn_app_exact. rewrite repeat_app.
        replace (length pre + len) with (length (pre ++ repeat f len)) by (rewrite app_length, repeat_length; auto).
        rewrite (app_assoc pre (repeat f len)), skipn_app_exact. rewrite app_assoc. reflexivity. }
      rewrite E.
      replace (length pre + len) with (length (pre ++ firstn len (skipn k0 data)))
        by (rewrite app_length, firstn_length, skipn_length; lia).
      rewrite IH by auto. rewrite <- app_assoc. reflexivity.
  Qed.

  (** shadow of the first-write generators: which writes are fill and which are data *)
  Definition s_opt (b : bool) (s : seg) : list seg := if b then [s] else [].
  Fixpoint s_solid_rows (n plen hl k0 : nat) : list seg :=
    match n with
    | 0 => []
    | S n' => SD k0 plen :: s_opt ((0 <? hl) && (0 <? n')) (SF hl) ++ s_solid_rows n' plen hl (k0 + plen)
    end.
  Fixpoint s_px (n gap : nat) (fx : bool) (k0 : nat) : list seg :=
    match n with
    | 0 => []
    | S n' => SD k0 1 :: s_opt (fx && (0 <? n')) (SF gap) ++ s_px n' gap fx (k0 + 1)
    end.
  Fixpoint s_rows (n cxn gap : nat) (fx fy : bool) (tyn lsz hl k0 : nat) : list seg :=
    match n with
    | 0 => []
    | S n' => s_px cxn gap fx k0 ++ (if fy && (0 <? n') then repeat (SF lsz) (tyn - 1) else [])
                   ++ s_opt ((0 <? hl) && (0 <? n')) (SF hl) ++ s_rows n' cxn gap fx fy tyn lsz hl (k0 + cxn)
    end.

  Lemma realize_lines : forall lsz n, map realize (repeat (SF lsz) n) = fill_lines fl lsz n.
  Proof. intros. unfold fill_lines. induction n; simpl; auto. f_equal. auto. Qed.
  Lemma realize_opt : forall b k, map realize (s_opt b (SF k)) = opt_w b (wfill fl k).
  Proof. intros [] k; reflexivity. Qed.
  Lemma realize_solid_rows : forall n plen hl k0,
      map realize (s_solid_rows n plen hl k0) = solid_fill_rows n plen hl fl (skipn k0 data).
  Proof.
    induction n; intros plen hl k0; [reflexivity|]. cbn [s_solid_rows solid_fill_rows map realize].
    rewrite map_app, realize_opt, IHn, skipn_skipn'. reflexivity.
  Qed.
  Lemma realize_px : forall n gap fx k0,
      strided_fill_px n gap 1 fx fl (skipn k0 data) = (map realize (s_px n gap fx k0), skipn (k0 + n) data).
  Proof.
    induction n; intros gap fx k0; [simpl; rewrite Nat.add_0_r; reflexivity|].
    cbn [strided_fill_px s_px]. rewrite skipn_skipn', IHn. cbn [map realize].
    rewrite map_app, realize_opt. f_equal. f_equal. lia.
  Qed.
  Lemma realize_rows : forall n cxn gap fx fy tyn lsz hl k0,
      map realize (s_rows n cxn gap fx fy tyn lsz hl k0) =
      strided_fill_rows n cxn gap 1 fx fy tyn lsz hl fl (skipn k0 data).
  Proof.
    induction n; intros cxn gap fx fy tyn lsz hl k0; [reflexivity|].
    cbn [s_rows strided_fill_rows]. rewrite realize_px. rewrite !map_app, realize_opt, IHn.
    f_equal. f_equal. destruct (fy && (0 <? n)); [apply realize_lines | reflexivity].
  Qed.

  (** layout: positions, sizes and validity of the shadow streams *)
  Lemma lines_layout : forall lsz n pos, lsz <= m ->
      place (repeat (SF lsz) n) pos = [] /\ total (repeat (SF lsz) n) = n * lsz /\ Forall seg_ok (repeat (SF lsz) n).
  Proof.
    intros lsz n. induction n; intros pos H; simpl; [auto|].
    destruct (IHn (pos + lsz) H) as (A & B & C). repeat split; auto; lia.
  Qed.
  Lemma opt_layout : forall b k pos, k <= m ->
      place (s_opt b (SF k)) pos = [] /\ total (s_opt b (SF k)) = (if b then k else 0) /\ Forall seg_ok (s_opt b (SF k)).
  Proof. intros [] k pos H; simpl; repeat split; auto. Qed.

  Lemma solid_rows_layout : forall n plen hl k0 pos,
      hl <= m -> k0 + n * plen <= length data ->
      place (s_solid_rows n plen hl k0) pos =
      flat_map (fun i => map (fun q => (k0 + i * plen + q, pos + i * (plen + hl) + q)) (seq 0 plen)) (seq 0 n) /\
      total (s_solid_rows n plen hl k0) = n * plen + (n - 1) * hl /\
      Forall seg_ok (s_solid_rows n plen hl k0).
  Proof.
    induction n; intros plen hl k0 pos Hh Hd; [simpl; auto|].
    cbn [s_solid_rows place]. rewrite place_app.
    destruct (opt_layout ((0 <? hl) && (0 <? n)) hl (pos + plen) Hh) as (A1 & A2 & A3).
    destruct (IHn plen hl (k0 + plen) (pos + plen + total (s_opt ((0 <? hl) && (0 <? n)) (SF hl))) Hh ltac:(lia)) as (B1 & B2 & B3).
    assert (Et : total (s_opt ((0 <? hl) && (0 <? n)) (SF hl)) = if 0 <? n then hl else 0).
    { rewrite A2. destruct hl; simpl; [destruct (0 <? n); reflexivity | reflexivity]. }
    split; [|split].
    - rewrite A1, B1. cbn [seq flat_map app]. f_equal.
      + apply map_ext. intros q. f_equal; lia.
      + rewrite (flat_map_seq_shift _ 1 n). apply flat_map_ext_in'. intros i Hi. apply in_seq in Hi.
        apply map_ext. intros q. rewrite Et. destruct n; [lia|]. change (0 <? S n) with true. cbv iota. f_equal; nia.
    - cbn [total seg_len]. rewrite total_app, B2, Et. destruct n; simpl; lia.
    - constructor; [simpl; lia|]. apply Forall_app. auto.
  Qed.

  Lemma px_layout : forall n gap fx k0 pos,
      (2 <= n -> gap <= m) -> (fx = false -> gap = 0) -> k0 + n <= length data ->
      place (s_px n gap fx k0) pos = map (fun j => (k0 + j, pos + j * (1 + gap))) (seq 0 n) /\
      total (s_px n gap fx k0) = n + (n - 1) * gap /\ Forall seg_ok (s_px n gap fx k0).
  Proof.
    induction n; intros gap fx k0 pos Hg Hfx Hd; [simpl; auto|].
    cbn [s_px place]. rewrite place_app.
    assert (Et : total (s_opt (fx && (0 <? n)) (SF gap)) = if 0 <? n then gap else 0).
    { destruct fx; simpl; [destruct (0 <? n); simpl; lia|]. rewrite (Hfx eq_refl). destruct (0 <? n); reflexivity. }
    assert (Hp : place (s_opt (fx && (0 <? n)) (SF gap)) (pos + 1) = []) by (destruct (fx && (0 <? n)); reflexivity).
    assert (Hk : Forall seg_ok (s_opt (fx && (0 <? n)) (SF gap))).
    { destruct n; [rewrite andb_false_r; constructor|]. destruct fx; simpl; [|constructor].
      constructor; [|constructor]. simpl. apply Hg. lia. }
    destruct (IHn gap fx (k0 + 1) (pos + 1 + total (s_opt (fx && (0 <? n)) (SF gap))) ltac:(intros; apply Hg; lia) Hfx ltac:(lia))
      as (B1 & B2 & B3).
    split; [|split].
    - rewrite Hp, B1. cbn [seq map app]. apply f_equal2; [f_equal; lia|].
      rewrite (map_seq_shift _ 1 n). apply map_ext_in. intros j Hj. apply in_seq in Hj.
      rewrite Et. destruct n; [lia|]. change (0 <? S n) with true. cbv iota. f_equal; nia.
    - cbn [total seg_len]. rewrite total_app, B2, Et. destruct n; simpl; lia.
    - constructor; [simpl; lia|]. apply Forall_app. auto.
  Qed.

  Lemma rows_layout : forall n cxn gap fx fy tyn lsz hl k0 pos,
      (2 <= cxn -> gap <= m) -> (fx = false -> gap = 0) -> (fy = false -> tyn - 1 = 0) -> lsz <= m -> hl <= m ->
      k0 + n * cxn <= length data ->
      let R := cxn + (cxn - 1) * gap + (tyn - 1) * lsz + hl in
      place (s_rows n cxn gap fx fy tyn lsz hl k0) pos =
      flat_map (fun i => map (fun j => (k0 + i * cxn + j, pos + i * R + j * (1 + gap))) (seq 0 cxn)) (seq 0 n) /\
      total (s_rows n cxn gap fx fy tyn lsz hl k0) = n * (cxn + (cxn - 1) * gap) + (n - 1) * ((tyn - 1) * lsz + hl) /\
      Forall seg_ok (s_rows n cxn gap fx fy tyn lsz hl k0).
  Proof.
    induction n; intros cxn gap fx fy tyn lsz hl k0 pos Hg Hfx Hfy Hls Hh Hd R; [simpl; auto|].
    cbn [s_rows]. rewrite !place_app, !total_app.
    destruct (px_layout cxn gap fx k0 pos Hg Hfx ltac:(lia)) as (A1 & A2 & A3).
    set (L := if fy && (0 <? n) then repeat (SF lsz) (tyn - 1) else []).
    assert (HL : forall p, place L p = [] /\ total L = (if 0 <? n then (tyn - 1) * lsz else 0) /\ Forall seg_ok L).
    { intros p. subst L. destruct fy; simpl.
      - destruct (0 <? n); [apply lines_layout; auto | simpl; auto].
      - rewrite (Hfy eq_refl). destruct (0 <? n); simpl; auto. }
    set (O := s_opt ((0 <? hl) && (0 <? n)) (SF hl)).
    assert (HO : forall p, place O p = [] /\ total O = (if 0 <? n then hl else 0) /\ Forall seg_ok O).
    { intros p. subst O. destruct (opt_layout ((0 <? hl) && (0 <? n)) hl p Hh) as (X1 & X2 & X3).
      repeat split; auto. rewrite X2. destruct hl; simpl; [destruct (0 <? n); reflexivity | reflexivity]. }
    destruct (HL (pos + total (s_px cxn gap fx k0))) as (L1 & L2 & L3).
    destruct (HO (pos + total (s_px cxn gap fx k0) + total L)) as (O1 & O2 & O3).
    destruct (IHn cxn gap fx fy tyn lsz hl (k0 + cxn) (pos + total (s_px cxn gap fx k0) + total L + total O)
                  Hg Hfx Hfy Hls Hh ltac:(lia)) as (B1 & B2 & B3).
    fold R in B1.
    assert (ER : R = cxn + (cxn - 1) * gap + (tyn - 1) * lsz + hl) by reflexivity. clearbody R.
    remember ((cxn - 1) * gap) as a eqn:Ea. remember ((tyn - 1) * lsz) as b eqn:Eb.
    split; [|split].
    - rewrite A1, L1, O1, B1. cbn [seq flat_map app]. f_equal.
      + apply map_ext. intros j. f_equal; lia.
      + rewrite (flat_map_seq_shift _ 1 n). apply flat_map_ext_in'. intros i Hi. apply in_seq in Hi.
        apply map_ext. intros j. rewrite A2, L2, O2. destruct n; [exfalso; clear - Hi; lia|].
        change (0 <? S n) with true. cbv iota.
        f_equal; [clear; lia | clear - ER; lia].
    - rewrite A2, L2, O2, B2. destruct n; [clear; simpl; lia|]. change (0 <? S n) with true. cbv iota.
      replace (S (S n) - 1) with (S n) by (clear; lia). replace (S n - 1) with n by (clear; lia). clear. lia.
    - apply Forall_app; split; [auto|]. apply Forall_app; split; [auto|]. apply Forall_app; split; auto.
  Qed.
End FirstWrite.

Lemma place_lines_nil : forall lsz n pos, place (repeat (SF lsz) n) pos = [].
Proof. intros lsz n. induction n; intros pos; simpl; auto. Qed.
Lemma place_opt_nil : forall b k pos, place (s_opt b (SF k)) pos = [].
Proof. intros [] k pos; reflexivity. Qed.

Lemma row_width : forall xdim sx tx cx, 1 <= tx -> 1 <= cx -> sx + (cx - 1) * tx < xdim ->
    cx + (cx - 1) * (tx - 1) + (xdim - (sx + (cx - 1) * tx + 1) + sx) = xdim.
Proof.
  intros xdim sx tx cx Ht Hc H. destruct cx as [|c]; [lia|]. destruct tx as [|t]; [lia|].
  replace (S c - 1) with c in * by lia. replace (S t - 1) with t by lia. nia.
Qed.

Lemma first_write_fills_image_lemma : forall {P} (d f : P) (data : list P) xdim ydim r,
    rgn_inside xdim ydim r = true -> length data = r_cx r * r_cy r ->
    gr_write_px None xdim ydim r f data = spec_write_px d (repeat f (xdim * ydim)) xdim ydim r data.
Proof.
  intros P d f data xdim ydim r Hin Hd.
  pose proof (inside_facts _ _ _ Hin) as (Htx & Hty & Hcx & Hcy & Hx & Hy).
  assert (HlenF : length (repeat f (xdim * ydim)) = xdim * ydim) by apply repeat_length.
  destruct (whole_image xdim ydim r) eqn:Ew.
  - rewrite <- (region_write_refines_lemma d (repeat f (xdim * ydim)) data xdim ydim r f HlenF Hin Hd).
    assert (Hw := Ew). unfold whole_image, solid_block in Hw.
    repeat (apply andb_prop in Hw; destruct Hw as [Hw ?]).
    repeat match goal with H : (_ =? _) = true |- _ => apply Nat.eqb_eq in H end.
    rewrite !whole_write_lemma; auto; try (subst; lia).
    + intros l El. injection El as <-. auto.
    + intros l El. discriminate.
  - destruct (first_write_covers_image_lemma (repeat f xdim) xdim ydim r data (repeat_length _ _) Hin Ew Hd) as (_ & _ & Hrun).
    unfold gr_write_px. rewrite Hrun. cbn [fst].
    rewrite <- (px_trace_spec d (repeat f (xdim * ydim)) data xdim ydim r HlenF Hin Hd).
    (* the generator in shadow form *)
    unfold gr_write_ops. rewrite Ew.
    unfold Gb, G, wr_fill_lo_cond, wr_fill_hi_cond, wr_fill_lo_size, wr_fill_hi_size, wr_fill_line_size,
      wr_pix_len, wr_trail_to_0, wr_trail_from_0, wr_trail_to_1, wr_trail_from_1, wr_fill_stride_size.
    rewrite ?Nat.mul_1_l.
    set (lo := if 0 <? r_sx r then r_sx r else 0).
    set (hi := if r_sx r + (r_cx r - 1) * r_tx r + 1 <? xdim then xdim - (r_sx r + (r_cx r - 1) * r_tx r + 1) else 0).
    assert (Elo : lo = r_sx r) by (subst lo; destruct (r_sx r); reflexivity).
    assert (Ehi : hi = xdim - (r_sx r + (r_cx r - 1) * r_tx r + 1)).
    { subst hi. destruct (r_sx r + (r_cx r - 1) * r_tx r + 1 <? xdim) eqn:E; auto. apply Nat.ltb_ge in E. lia. }
    clearbody lo hi.
    set (tr := ydim - (r_sy r + (r_cy r - 1) * r_ty r + 1)).
    assert (Hlo : lo <= xdim) by (rewrite Elo; clear - Hx; nia).
    assert (Hhi : hi <= xdim) by (rewrite Ehi; clear; lia).
    assert (Hhl : hi + lo <= xdim) by (rewrite Elo, Ehi; clear - Hx; nia).
    change data with (skipn 0 data) at 1 2.
    destruct (lines_layout xdim data xdim (r_sy r) 0 (le_n _)) as (A1 & A2 & A3).
    destruct (solid_block r) eqn:Es.
    + unfold solid_block in Es. apply andb_prop in Es. destruct Es as [E1 E2].
      apply Nat.eqb_eq in E1. apply Nat.eqb_eq in E2.
      set (segs := repeat (SF xdim) (r_sy r) ++ s_opt (0 <? lo) (SF lo) ++ s_solid_rows (r_cy r) (r_cx r) (hi + lo) 0
                          ++ s_opt (0 <? hi) (SF hi) ++ repeat (SF xdim) tr).
      assert (Hops : map (realize f xdim data) segs =
                     fill_lines (repeat f xdim) xdim (r_sy r) ++ opt_w (0 <? lo) (wfill (repeat f xdim) lo)
                       ++ solid_fill_rows (r_cy r) (r_cx r) (hi + lo) (repeat f xdim) (skipn 0 data)
                       ++ opt_w (0 <? hi) (wfill (repeat f xdim) hi) ++ fill_lines (repeat f xdim) xdim tr).
      { subst segs. rewrite !map_app, !realize_lines, !realize_opt, realize_solid_rows. reflexivity. }
      rewrite <- Hops.
      destruct (opt_layout xdim data (0 <? lo) lo (r_sy r * xdim) Hlo) as (B1 & B2 & B3).
      assert (B2' : total (s_opt (0 <? lo) (SF lo)) = lo) by (rewrite B2; destruct lo; reflexivity).
      destruct (solid_rows_layout xdim data (r_cy r) (r_cx r) (hi + lo) 0 (r_sy r * xdim + lo) Hhl ltac:(lia)) as (C1 & C2 & C3).
      destruct (opt_layout xdim data (0 <? hi) hi (r_sy r * xdim + lo + (r_cy r * r_cx r + (r_cy r - 1) * (hi + lo))) Hhi) as (D1 & D2 & D3).
      assert (D2' : total (s_opt (0 <? hi) (SF hi)) = hi) by (rewrite D2; destruct hi; reflexivity).
      destruct (lines_layout xdim data xdim tr
                             (r_sy r * xdim + lo + (r_cy r * r_cx r + (r_cy r - 1) * (hi + lo)) + hi) (le_n _)) as (F1 & F2 & F3).
      assert (Hok : Forall (seg_ok xdim data) segs).
      { subst segs. apply Forall_app; split; [auto|]. apply Forall_app; split; [auto|].
        apply Forall_app; split; [auto|]. apply Forall_app; split; auto. }
      assert (Htot : total segs = xdim * ydim).
      { subst segs. rewrite !total_app, A2, B2', C2, D2', F2. subst tr. rewrite E1, E2 in *.
        pose proof (solid_total xdim ydim (r_sx r) (r_sy r) (r_cx r) (r_cy r) lo hi Hcx Hcy Hx Hy Elo Ehi). lia. }
      assert (Hpl : place segs 0 = px_trace xdim r).
      { subst segs. rewrite !place_app, !place_lines_nil, !place_opt_nil, A2, B2'. cbn [app]. simpl (0 + _).
        rewrite C1, !app_nil_r. unfold px_trace.
        apply flat_map_ext_in'. intros i Hi. apply in_seq in Hi. apply map_ext_in. intros j Hj. apply in_seq in Hj.
        unfold ppos. rewrite E1, E2.
        pose proof (row_width xdim (r_sx r) (r_tx r) (r_cx r) Htx Hcx Hx) as RW. rewrite E1 in RW.
        apply f_equal2; [lia|]. subst lo hi. rewrite E1. nia. }
      pose proof (stream_is_trace f xdim data segs [] Hok) as ST. cbn [length app] in ST.
      rewrite <- ST, Hpl, Htot. reflexivity.
    + set (gap := r_tx r - 1).
      set (segs := repeat (SF xdim) (r_sy r) ++ s_opt (0 <? lo) (SF lo)
                          ++ s_rows (r_cy r) (r_cx r) gap (1 <? r_tx r) (1 <? r_ty r) (r_ty r) xdim (hi + lo) 0
                          ++ s_opt (0 <? hi) (SF hi) ++ repeat (SF xdim) tr).
      assert (Hops : map (realize f xdim data) segs =
                     fill_lines (repeat f xdim) xdim (r_sy r) ++ opt_w (0 <? lo) (wfill (repeat f xdim) lo)
                       ++ strided_fill_rows (r_cy r) (r_cx r) gap 1 (1 <? r_tx r) (1 <? r_ty r) (r_ty r) xdim (hi + lo)
                                            (repeat f xdim) (skipn 0 data)
                       ++ opt_w (0 <? hi) (wfill (repeat f xdim) hi) ++ fill_lines (repeat f xdim) xdim tr).
      { subst segs. rewrite !map_app, !realize_lines, !realize_opt, realize_rows. reflexivity. }
      rewrite <- Hops.
      assert (Hfx : (1 <? r_tx r) = false -> gap = 0) by (intros E; apply Nat.ltb_ge in E; subst gap; lia).
      assert (Hfy : (1 <? r_ty r) = false -> r_ty r - 1 = 0) by (intros E; apply Nat.ltb_ge in E; lia).
      assert (Hg : 2 <= r_cx r -> gap <= xdim).
      { intros H2. subst gap. assert (r_tx r * 1 <= (r_cx r - 1) * r_tx r) by nia. lia. }
      destruct (opt_layout xdim data (0 <? lo) lo (r_sy r * xdim) Hlo) as (B1 & B2 & B3).
      assert (B2' : total (s_opt (0 <? lo) (SF lo)) = lo) by (rewrite B2; destruct lo; reflexivity).
      destruct (rows_layout xdim data (r_cy r) (r_cx r) gap (1 <? r_tx r) (1 <? r_ty r) (r_ty r) xdim (hi + lo) 0
                            (r_sy r * xdim + lo) Hg Hfx Hfy (le_n _) Hhl ltac:(lia)) as (C1 & C2 & C3).
      set (TS := r_cy r * (r_cx r + (r_cx r - 1) * gap) + (r_cy r - 1) * ((r_ty r - 1) * xdim + (hi + lo))) in *.
      destruct (opt_layout xdim data (0 <? hi) hi (r_sy r * xdim + lo + TS) Hhi) as (D1 & D2 & D3).
      assert (D2' : total (s_opt (0 <? hi) (SF hi)) = hi) by (rewrite D2; destruct hi; reflexivity).
      destruct (lines_layout xdim data xdim tr (r_sy r * xdim + lo + TS + hi) (le_n _)) as (F1 & F2 & F3).
      assert (Hok : Forall (seg_ok xdim data) segs).
      { subst segs. apply Forall_app; split; [auto|]. apply Forall_app; split; [auto|].
        apply Forall_app; split; [auto|]. apply Forall_app; split; auto. }
      assert (Htot : total segs = xdim * ydim).
      { subst segs. rewrite !total_app, A2, B2', C2, D2', F2. subst tr TS gap.
        pose proof (strided_total xdim ydim (r_sx r) (r_sy r) (r_tx r) (r_ty r) (r_cx r) (r_cy r) lo hi
                                  Htx Hty Hcx Hcy Hx Hy Elo Ehi). lia. }
      assert (Hpl : place segs 0 = px_trace xdim r).
      { subst segs. rewrite !place_app, !place_lines_nil, !place_opt_nil, A2, B2'. cbn [app]. simpl (0 + _).
        rewrite C1, !app_nil_r. unfold px_trace.
        apply flat_map_ext_in'. intros i Hi. apply in_seq in Hi. apply map_ext_in. intros j Hj. apply in_seq in Hj.
        unfold ppos.
        pose proof (row_width xdim (r_sx r) (r_tx r) (r_cx r) Htx Hcx Hx) as RW.
        assert (ER : r_cx r + (r_cx r - 1) * gap + (r_ty r - 1) * xdim + (hi + lo) = r_ty r * xdim).
        { subst gap lo hi. clear - RW Hty. destruct (r_ty r) as [|t]; [lia|]. replace (S t - 1) with t by lia. lia. }
        rewrite ER. apply f_equal2; [lia|]. subst gap lo. clear - Htx. destruct (r_tx r) as [|t]; [lia|].
        replace (1 + (S t - 1)) with (S t) by lia. lia. }
      pose proof (stream_is_trace f xdim data segs [] Hok) as ST. cbn [length app] in ST.
      rewrite <- ST, Hpl, Htot. reflexivity.
Qed.

Lemma region_refines_image_lemma : forall (P : Type) (d : P) (e data : list P) xdim ydim r (f : P),
    length e = xdim * ydim -> rgn_inside xdim ydim r = true -> length data = r_cx r * r_cy r ->
    gr_write_px (Some e) xdim ydim r f data = spec_write_px d e xdim ydim r data /\
    gr_read_px e xdim ydim r = spec_read_px d e xdim r.
Proof.
  intros P d e data xdim ydim r f H1 H2 H3. split.
  - exact (region_write_refines_lemma d e data xdim ydim r f H1 H2 H3).
  - exact (region_read_refines_lemma d e xdim ydim r H1 H2).
Qed.

Lemma read_after_write_lemma : forall (P : Type) (d : P) (e data : list P) xdim ydim r (f : P),
    length e = xdim * ydim -> rgn_inside xdim ydim r = true -> length data = r_cx r * r_cy r ->
    gr_read_px (gr_write_px (Some e) xdim ydim r f data) xdim ydim r =
    spec_read_px d (spec_write_px d e xdim ydim r data) xdim r.
Proof.
  intros P d e data xdim ydim r f H1 H2 H3.
  rewrite (region_write_refines_lemma d e data xdim ydim r f H1 H2 H3).
  apply region_read_refines_lemma; auto. unfold spec_write_px. rewrite map_length, seq_length. reflexivity.
Qed.

(* ------------------------------------------------------------------------------------------ *)
(** * Number type across GRend / reopen (DFTAG_NT record of GRIupdatemeta) *)

Lemma nt_persists_sweep :
  forallb (fun nt => let '(nt1, s1) := reopen_nt nt DFNTF_HDFDEFAULT in
                     let '(nt2, s2) := reopen_nt nt1 s1 in
                     Z.eqb nt1 nt && Z.eqb nt2 nt &&
                     match nt_size nt with
                     | Some cs => (1 <=? cs) && Bool.eqb (nt_swapped nt1 cs) (nt_swapped nt cs)
                     | None => false
                     end) gr_number_types = true.
Proof. vm_compute. reflexivity. Qed.

(** For each of the 20 number types of the domain (10 standard + 10 little-endian): the type is known to
    DFKNTsize, an image created with it (file subclass DFNTF_HDFDEFAULT) comes back from GRend / reopen with
    the same number type -- also after a second save -- and the same byte order of its components. *)
Lemma nt_persists_lemma : forall nt,
    In nt gr_number_types ->
    (exists cs, nt_size nt = Some cs /\ 1 <= cs /\
                nt_swapped (fst (reopen_nt nt DFNTF_HDFDEFAULT)) cs = nt_swapped nt cs) /\
    fst (reopen_nt nt DFNTF_HDFDEFAULT) = nt /\
    fst (reopen_nt (fst (reopen_nt nt DFNTF_HDFDEFAULT)) (snd (reopen_nt nt DFNTF_HDFDEFAULT))) = nt.
Proof.
  intros nt Hin. pose proof nt_persists_sweep as F. rewrite forallb_forall in F. specialize (F nt Hin).
  destruct (reopen_nt nt DFNTF_HDFDEFAULT) as [nt1 s1] eqn:E1. destruct (reopen_nt nt1 s1) as [nt2 s2] eqn:E2.
  simpl. rewrite E2. simpl.
  apply andb_prop in F. destruct F as [F F3]. apply andb_prop in F. destruct F as [F1 F2].
  apply Z.eqb_eq in F1. apply Z.eqb_eq in F2.
  destruct (nt_size nt) as [cs|]; [|discriminate].
  apply andb_prop in F3. destruct F3 as [F3 F4]. apply Nat.leb_le in F3. apply Bool.eqb_prop in F4.
  repeat split; auto. exists cs. repeat split; auto.
Qed.

(* ------------------------------------------------------------------------------------------ *)
(** * Whole GRwriteimage / GRreadimage / chunk access: interlace conversion + number conversion + region engine
      refine the raster specification (s_write / s_read) for all regions, strides and interlaces *)

Lemma map_repeat' : forall {A B} (g : A -> B) x n, map g (repeat x n) = repeat (g x) n.
Proof. intros. induction n; simpl; auto. f_equal. auto. Qed.

Lemma nth_repeat_lt : forall {A} (a d : A) m n, n < m -> nth n (repeat a m) d = a.
Proof. intros A a d m. induction m; intros n H; [lia|]. destruct n; simpl; auto. apply IHm. lia. Qed.

Lemma concat_uniform_length : forall {T} (l : list (list T)) nc,
    (forall x, In x l -> length x = nc) -> length (concat l) = length l * nc.
Proof.
  intros T l nc. induction l; intros H; simpl; auto. rewrite app_length, IHl.
  - rewrite (H a) by (left; auto). reflexivity.
  - intros. apply H. right; auto.
Qed.

Lemma nth_concat_uniform : forall {T} (l : list (list T)) nc k c d,
    (forall x, In x l -> length x = nc) -> k < length l -> c < nc ->
    nth (k * nc + c) (concat l) d = nth c (nth k l []) d.
Proof.
  intros T l nc. induction l as [|a l IH]; intros k c d H Hk Hc; [simpl in Hk; lia|].
  assert (Ha : length a = nc) by (apply H; left; auto).
  destruct k; simpl.
  - apply app_nth1. lia.
  - rewrite app_nth2 by lia. replace (nc + k * nc + c - length a) with (k * nc + c) by lia.
    apply IH; auto; [intros; apply H; right; auto | simpl in Hk; lia].
Qed.

Lemma il_spec_same : forall {A} (d : A) a X Y nc cs (src : list A),
    1 <= cs -> length src = X * Y * nc * cs -> il_convert_spec d a a X Y nc cs src = src.
Proof.
  intros A d a X Y nc cs src Hcs Hl. apply (nth_ext _ _ d d).
  - unfold il_convert_spec. rewrite map_length, seq_length. auto.
  - unfold il_convert_spec at 1. rewrite map_length, seq_length. intros q Hq.
    unfold il_convert_spec. rewrite nth_map_seq by auto.
    assert (Hk : q / cs < X * Y * nc) by (apply Nat.div_lt_upper_bound; nia).
    pose proof (il_index_decode_lemma a X Y nc (q / cs) Hk) as Hdec.
    destruct (il_decode a X Y nc (q / cs)) as [[y x] c]. destruct Hdec as (_ & _ & _ & E).
    rewrite E. f_equal. symmetry. apply Nat.div_mod. lia.
Qed.

Lemma px_index_lt : forall cx cy y x, y < cy -> x < cx -> y * cx + x < cx * cy.
Proof. intros. assert (y * cx + x + 1 <= cy * cx) by nia. lia. Qed.
Lemma comp_index_lt : forall cx cy nc y x c, y < cy -> x < cx -> c < nc -> (y * cx + x) * nc + c < cx * cy * nc.
Proof. intros. exact (il_index_lt_lemma ILpixel cx cy nc y x c H H0 H1). Qed.

Section Compose.
  Context {C D : Type}.
  Variables (enc : C -> D) (dec : D -> C) (d0 : C).
  Hypothesis dec_enc : forall c, dec (enc c) = c.

  (** the pixel-interlaced buffer GRwriteimage / GRwritechunk build from the caller's buffer *)
  Definition pixbuf_of (wil : ilace) (cx cy nc : nat) (user : list C) : list C :=
    if il_eqb wil ILpixel then user
    else il_convert_walk wil ILpixel cx cy nc 1 user (repeat d0 (length user)).

  Lemma pixbuf_nth : forall wil cx cy nc user k c,
      1 <= nc -> length user = cx * cy * nc -> k < cx * cy -> c < nc ->
      nth (k * nc + c) (pixbuf_of wil cx cy nc user) d0 = nth (il_index wil cx cy nc (k / cx) (k mod cx) c) user d0.
  Proof.
    intros wil cx cy nc user k c Hnc Hl Hk Hc. unfold pixbuf_of.
    assert (Hcx : cx <> 0) by (intro; subst; simpl in Hk; lia).
    assert (Hy : k / cx < cy) by (apply Nat.div_lt_upper_bound; auto; lia).
    assert (Hx : k mod cx < cx) by (apply Nat.mod_upper_bound; auto).
    assert (Ek : il_index ILpixel cx cy nc (k / cx) (k mod cx) c = k * nc + c).
    { simpl. pose proof (Nat.div_mod k cx Hcx). nia. }
    destruct (il_eqb wil ILpixel) eqn:E.
    - apply il_eqb_eq in E. subst wil. rewrite Ek. reflexivity.
    - rewrite (il_convert_correct_lemma d0) by (rewrite ?repeat_length; lia).
      unfold il_convert_spec. rewrite nth_map_seq by nia.
      rewrite Nat.div_1_r.
      replace (il_decode ILpixel cx cy nc (k * nc + c)) with (k / cx, k mod cx, c)
        by (rewrite <- Ek; symmetry; apply il_decode_index_lemma; auto).
      cbv beta iota. rewrite Nat.mod_1_r, Nat.add_0_r, Nat.mul_1_l. reflexivity.
  Qed.

  Lemma chunk_px_codec : forall nc n (buf : list C),
      map (map dec) (chunk_px (enc d0) nc n (map enc buf)) = chunk_px d0 nc n buf.
  Proof.
    intros. unfold chunk_px. rewrite map_map. apply map_ext. intros k. rewrite map_map. apply map_ext. intros c.
    rewrite map_nth. apply dec_enc.
  Qed.

  Lemma write_pixels_lemma : forall wil cx cy nc user,
      1 <= nc -> length user = cx * cy * nc ->
      map (map dec) (chunk_px (enc d0) nc (cx * cy) (map enc (pixbuf_of wil cx cy nc user))) =
      user_pixels d0 wil cx cy nc user.
  Proof.
    intros wil cx cy nc user Hnc Hl. rewrite chunk_px_codec. unfold chunk_px, user_pixels.
    apply map_ext_in. intros k Hk. apply in_seq in Hk. apply map_ext_in. intros c Hc. apply in_seq in Hc.
    apply pixbuf_nth; auto; lia.
  Qed.

  Lemma spec_write_map : forall {T U} (g : T -> U) (d : T) (e data : list T) xdim ydim r,
      map g (spec_write_px d e xdim ydim r data) = spec_write_px (g d) (map g e) xdim ydim r (map g data).
  Proof.
    intros. unfold spec_write_px. rewrite map_map. apply map_ext. intros p.
    destruct (in_lattice _ _ _ _); [destruct (in_lattice _ _ _ _)|]; rewrite map_nth; reflexivity.
  Qed.

  (** GRwriteimage as a whole refines s_write -- image with data ([e = Some l]) or new image ([None]: the
      never-written pixels become the fill pixel) *)
  Lemma image_write_refines_lemma : forall (e : option (list (list D))) xdim ydim nc wil r (fillpx user : list C),
      1 <= nc -> rgn_inside xdim ydim r = true -> length user = r_cx r * r_cy r * nc ->
      (forall l, e = Some l -> length l = xdim * ydim) ->
      map (map dec) (m_write enc d0 e xdim ydim nc wil r fillpx user) =
      s_write d0 (match e with Some l => map (map dec) l | None => repeat fillpx (xdim * ydim) end)
              xdim ydim nc wil r user.
  Proof.
    intros e xdim ydim nc wil r fillpx user Hnc Hin Hl He. unfold m_write, s_write.
    fold (pixbuf_of wil (r_cx r) (r_cy r) nc user).
    set (data := chunk_px (enc d0) nc (r_cx r * r_cy r) (map enc (pixbuf_of wil (r_cx r) (r_cy r) nc user))).
    assert (Hd : length data = r_cx r * r_cy r) by (subst data; unfold chunk_px; rewrite map_length, seq_length; auto).
    rewrite <- (write_pixels_lemma wil (r_cx r) (r_cy r) nc user Hnc Hl). fold data.
    destruct e as [l|].
    - rewrite (region_write_refines_lemma [] l data xdim ydim r (map enc fillpx) (He l eq_refl) Hin Hd).
      apply (spec_write_map (map dec) []).
    - rewrite (first_write_fills_image_lemma [] (map enc fillpx) data xdim ydim r Hin Hd).
      rewrite (spec_write_map (map dec) []). rewrite map_repeat'. rewrite map_map.
      rewrite (map_ext _ (fun c => c)) by apply dec_enc. rewrite map_id. reflexivity.
  Qed.

  (** common shape of the read side: a pixel-interlaced memory buffer [mem] whose component (y, x, c) is [V y x c],
      delivered in the requested interlace, is the closed-form reordering *)
  Lemma read_layout_lemma : forall (V : nat -> nat -> nat -> C) ril cx cy nc (mem : list C),
      1 <= nc -> length mem = cx * cy * nc ->
      (forall y x c, y < cy -> x < cx -> c < nc -> nth ((y * cx + x) * nc + c) mem d0 = V y x c) ->
      (if il_eqb ril ILpixel then mem else il_convert_walk ILpixel ril cx cy nc 1 mem (repeat d0 (length mem))) =
      map (fun q => let '(i, j, c) := il_decode ril cx cy nc q in V i j c) (seq 0 (cx * cy * nc)).
  Proof.
    intros V ril cx cy nc mem Hnc Hl HV.
    assert (E : (if il_eqb ril ILpixel then mem else il_convert_walk ILpixel ril cx cy nc 1 mem (repeat d0 (length mem)))
                = il_convert_spec d0 ILpixel ril cx cy nc 1 mem).
    { destruct (il_eqb ril ILpixel) eqn:E.
      - apply il_eqb_eq in E. subst. symmetry. apply il_spec_same; lia.
      - apply il_convert_correct_lemma; rewrite ?repeat_length; lia. }
    rewrite E. unfold il_convert_spec. rewrite Nat.mul_1_r. apply map_ext_in. intros q Hq. apply in_seq in Hq.
    rewrite Nat.div_1_r.
    pose proof (il_index_decode_lemma ril cx cy nc q ltac:(lia)) as Hdec.
    destruct (il_decode ril cx cy nc q) as [[y x] c]. destruct Hdec as (Hy & Hx & Hc & _).
    rewrite Nat.mod_1_r, Nat.add_0_r, Nat.mul_1_l. simpl il_index. apply HV; auto.
  Qed.

  (** GRreadimage as a whole refines s_read *)
  Lemma image_read_refines_lemma : forall (e : list (list D)) xdim ydim nc ril r,
      1 <= nc -> rgn_inside xdim ydim r = true -> length e = xdim * ydim ->
      (forall px, In px e -> length px = nc) ->
      m_read dec d0 e xdim ydim nc ril r = s_read d0 (map (map dec) e) xdim nc ril r.
  Proof.
    intros e xdim ydim nc ril r Hnc Hin Hl Hpx. unfold m_read, s_read.
    rewrite (region_read_refines_lemma [] e xdim ydim r Hl Hin).
    pose proof (inside_facts _ _ _ Hin) as (Htx & Hty & Hcx & Hcy & Hx & Hy).
    set (px := spec_read_px [] e xdim r).
    assert (Hpl : length px = r_cx r * r_cy r) by (subst px; unfold spec_read_px; rewrite map_length, seq_length; auto).
    assert (Hpn : forall y x, y < r_cy r -> x < r_cx r ->
                              nth (y * r_cx r + x) px [] = nth ((r_sy r + y * r_ty r) * xdim + r_sx r + x * r_tx r) e []).
    { intros y x Hy' Hx'. subst px. unfold spec_read_px. rewrite nth_map_seq by (apply px_index_lt; auto).
      rewrite (div_of (r_cx r) y x) by lia. rewrite (mod_of (r_cx r) y x) by lia. reflexivity. }
    assert (Hin_e : forall y x, y < r_cy r -> x < r_cx r ->
                                In (nth ((r_sy r + y * r_ty r) * xdim + r_sx r + x * r_tx r) e []) e).
    { intros y x Hy' Hx'. apply nth_In. rewrite Hl.
      destruct (pixel_pos_bound xdim ydim r y x Hin Hy' Hx') as (A & _). lia. }
    assert (Hu : forall x, In x px -> length x = nc).
    { intros x Hx'. subst px. unfold spec_read_px in Hx'. apply in_map_iff in Hx'. destruct Hx' as [q [<- Hq]].
      apply in_seq in Hq. assert (Hcxn : r_cx r <> 0) by lia.
      apply Hpx. replace ((r_sy r + q / r_cx r * r_ty r) * xdim + r_sx r + q mod r_cx r * r_tx r)
        with ((r_sy r + (q / r_cx r) * r_ty r) * xdim + r_sx r + (q mod r_cx r) * r_tx r) by reflexivity.
      apply Hin_e; [apply Nat.div_lt_upper_bound; auto; lia | apply Nat.mod_upper_bound; auto]. }
    rewrite (read_layout_lemma
               (fun y x c => dec (nth c (nth ((r_sy r + y * r_ty r) * xdim + r_sx r + x * r_tx r) e []) (enc d0)))).
    - apply map_ext_in. intros q Hq. apply in_seq in Hq.
      pose proof (il_index_decode_lemma ril (r_cx r) (r_cy r) nc q ltac:(lia)) as Hdec.
      destruct (il_decode ril (r_cx r) (r_cy r) nc q) as [[y x] c]. destruct Hdec as (Hy' & Hx' & Hc & _).
      change (@nil C) with (map dec (@nil D)). rewrite map_nth.
      rewrite (nth_indep _ d0 (dec (enc d0))) by (rewrite map_length, (Hpx _ (Hin_e y x Hy' Hx')); auto).
      rewrite map_nth. reflexivity.
    - auto.
    - rewrite map_length, (concat_uniform_length px nc Hu), Hpl. reflexivity.
    - intros y x c Hy' Hx' Hc.
      rewrite (nth_indep _ d0 (dec (enc d0)))
        by (rewrite map_length, (concat_uniform_length px nc Hu), Hpl; apply comp_index_lt; auto).
      rewrite map_nth. rewrite nth_concat_uniform by (auto; rewrite Hpl; apply px_index_lt; auto).
      rewrite Hpn by auto. reflexivity.
  Qed.

  (** GRreadimage of an image that has no data yet: every pixel is the fill pixel *)
  Lemma read_nodata_refines_lemma : forall xdim ydim nc ril r (fillpx : list C),
      1 <= nc -> rgn_inside xdim ydim r = true -> length fillpx = nc ->
      m_read_nodata d0 nc ril r fillpx = s_read d0 (repeat fillpx (xdim * ydim)) xdim nc ril r.
  Proof.
    intros xdim ydim nc ril r fillpx Hnc Hin Hf. unfold m_read_nodata, s_read.
    assert (Hu : forall x, In x (repeat fillpx (r_cx r * r_cy r)) -> length x = nc)
      by (intros x Hx; apply repeat_spec in Hx; subst; auto).
    rewrite (read_layout_lemma (fun _ _ c => nth c fillpx d0)).
    - apply map_ext_in. intros q Hq. apply in_seq in Hq.
      pose proof (il_index_decode_lemma ril (r_cx r) (r_cy r) nc q ltac:(lia)) as Hdec.
      destruct (il_decode ril (r_cx r) (r_cy r) nc q) as [[y x] c]. destruct Hdec as (Hy' & Hx' & Hc & _).
      destruct (pixel_pos_bound xdim ydim r y x Hin Hy' Hx') as (A & _).
      rewrite nth_repeat_lt by lia. reflexivity.
    - auto.
    - rewrite (concat_uniform_length _ nc Hu), repeat_length. reflexivity.
    - intros y x c Hy' Hx' Hc. rewrite nth_concat_uniform by (auto; rewrite repeat_length; apply px_index_lt; auto).
      rewrite nth_repeat_lt by (apply px_index_lt; auto). reflexivity.
  Qed.
End Compose.

Section ComposeChunk.
  Context {C D : Type}.
  Variables (enc : C -> D) (dec : D -> C) (d0 : C).
  Hypothesis dec_enc : forall c, dec (enc c) = c.

  Lemma put_chunk_map : forall {T U} (g : T -> U) (t0 : T) (img px : list T) xdim ydim c0 c1 o0 o1,
      map g (put_chunk t0 img xdim ydim c0 c1 o0 o1 px) = put_chunk (g t0) (map g img) xdim ydim c0 c1 o0 o1 (map g px).
  Proof.
    intros. unfold put_chunk. rewrite map_map. apply map_ext. intros p.
    destruct (cell_of ydim c0 c1 o0 o1 p); rewrite map_nth; reflexivity.
  Qed.

  Lemma get_chunk_map : forall {T U} (g : T -> U) (t0 : T) (img : list T) ydim c0 c1 o0 o1,
      map g (get_chunk t0 img ydim c0 c1 o0 o1) = get_chunk (g t0) (map g img) ydim c0 c1 o0 o1.
  Proof. intros. unfold get_chunk. rewrite map_map. apply map_ext. intros l. rewrite map_nth. reflexivity. Qed.

  (** GRwritechunk: the caller's chunk buffer (any interlace), converted with GRIil_convert over the chunk
      lengths and per component, lands in the cells of chunk (o0, o1) exactly as the specification says *)
  Lemma chunk_write_refines_lemma : forall (e : list (list D)) xdim ydim nc wil c0 c1 o0 o1 (user : list C),
      1 <= nc -> length user = c0 * c1 * nc ->
      map (map dec) (put_chunk [] e xdim ydim c0 c1 o0 o1
                               (chunk_px (enc d0) nc (c0 * c1) (map enc (pixbuf_of d0 wil c0 c1 nc user)))) =
      put_chunk [] (map (map dec) e) xdim ydim c0 c1 o0 o1 (user_pixels d0 wil c0 c1 nc user).
  Proof.
    intros e xdim ydim nc wil c0 c1 o0 o1 user Hnc Hl.
    rewrite (put_chunk_map (map dec) []). rewrite (write_pixels_lemma enc dec d0 dec_enc wil c0 c1 nc user Hnc Hl).
    reflexivity.
  Qed.

  Lemma chunk_cell_lt : forall xdim ydim c0 c1 o0 o1 l,
      chunk_inside xdim ydim c0 c1 o0 o1 = true -> l < c0 * c1 -> chunk_cell ydim c0 c1 o0 o1 l < xdim * ydim.
  Proof.
    intros xdim ydim c0 c1 o0 o1 l H Hl. unfold chunk_inside in H.
    repeat (apply andb_prop in H; destruct H as [H ?]).
    repeat match goal with H : (_ <=? _) = true |- _ => apply Nat.leb_le in H end.
    unfold chunk_cell.
    assert (l / c1 < c0) by (apply Nat.div_lt_upper_bound; nia).
    assert (l mod c1 < c1) by (apply Nat.mod_upper_bound; lia).
    assert (o0 * c0 + l / c1 + 1 <= xdim) by nia. assert (o1 * c1 + l mod c1 < ydim) by nia. nia.
  Qed.

  (** GRreadchunk: the cells of chunk (o0, o1), converted per component and to the requested interlace over the
      chunk lengths, are the closed-form reordering of the specification's chunk *)
  Lemma chunk_read_refines_lemma : forall (e : list (list D)) xdim ydim nc ril c0 c1 o0 o1,
      1 <= nc -> chunk_inside xdim ydim c0 c1 o0 o1 = true -> length e = xdim * ydim ->
      (forall px, In px e -> length px = nc) ->
      let mem := map dec (concat (get_chunk [] e ydim c0 c1 o0 o1)) in
      (if il_eqb ril ILpixel then mem else il_convert_walk ILpixel ril c0 c1 nc 1 mem (repeat d0 (length mem))) =
      il_convert_spec d0 ILpixel ril c0 c1 nc 1 (concat (get_chunk [] (map (map dec) e) ydim c0 c1 o0 o1)).
  Proof.
    intros e xdim ydim nc ril c0 c1 o0 o1 Hnc Hin Hl Hpx mem.
    assert (Hmem : mem = concat (get_chunk [] (map (map dec) e) ydim c0 c1 o0 o1)).
    { subst mem. rewrite concat_map. rewrite (get_chunk_map (map dec) []). reflexivity. }
    assert (Hu : forall x, In x (get_chunk [] e ydim c0 c1 o0 o1) -> length x = nc).
    { intros x Hx. unfold get_chunk in Hx. apply in_map_iff in Hx. destruct Hx as [l [<- Hl']]. apply in_seq in Hl'.
      apply Hpx. apply nth_In. rewrite Hl. apply (chunk_cell_lt xdim ydim c0 c1 o0 o1 l Hin). lia. }
    assert (Hlen : length mem = c0 * c1 * nc * 1).
    { subst mem. rewrite map_length, (concat_uniform_length _ nc Hu). unfold get_chunk. rewrite map_length, seq_length. lia. }
    rewrite <- Hmem.
    destruct (il_eqb ril ILpixel) eqn:E.
    - apply il_eqb_eq in E. subst. symmetry. apply il_spec_same; auto.
    - apply il_convert_correct_lemma; rewrite ?repeat_length; auto.
  Qed.
End ComposeChunk.

(* ------------------------------------------------------------------------------------------ *)
(** * History level: the extracted GRwriteimage / GRreadimage models simulate the specification *)

Lemma codec_involutive : forall b c, codec b (codec b c) = c.
Proof. intros [] c; simpl; auto. apply rev_involutive. Qed.

(** M's image (element in disk format, None while the file has no data) represents S's image *)
Definition img_rel (m : mimg) (s : simg) : Prop :=
  m_g m = s_g s /\ m_wil m = s_wil s /\ m_ril m = s_ril s /\ m_fill m = s_fill s /\
  1 <= gnc (m_g m) /\
  (forall p, m_fill m = Some p -> length p = gnc (m_g m)) /\
  match m_elt m, s_data s with
  | Some e, Some img => img = map (map (codec (gswap (m_g m)))) e /\ length e = gx (m_g m) * gy (m_g m) /\
                        (forall px, In px e -> length px = gnc (m_g m))
  | None, None => True
  | _, _ => False
  end.

Lemma fill_of_length : forall g f, (forall p, f = Some p -> length p = gnc g) -> length (fill_of g f) = gnc g.
Proof. intros g [p|] H; simpl; [apply H; auto | unfold zero_px; apply repeat_length]. Qed.

Lemma group_length : forall cs n bytes, length (group cs n bytes) = n.
Proof. intros. unfold group. rewrite map_length, seq_length. reflexivity. Qed.

Lemma spec_write_px_lengths : forall {T} (img data : list (list T)) xdim ydim r nc,
    rgn_inside xdim ydim r = true -> length img = xdim * ydim -> length data = r_cx r * r_cy r ->
    (forall px, In px img -> length px = nc) -> (forall px, In px data -> length px = nc) ->
    forall px, In px (spec_write_px [] img xdim ydim r data) -> length px = nc.
Proof.
  intros T img data xdim ydim r nc Hin Hl Hd Hi Hdt px Hpx.
  pose proof (inside_facts _ _ _ Hin) as (Htx & Hty & Hcx & Hcy & Hx & Hy).
  unfold spec_write_px in Hpx. apply in_map_iff in Hpx. destruct Hpx as [p [<- Hp]]. apply in_seq in Hp.
  destruct (in_lattice (r_sy r) (r_ty r) (r_cy r) (p / xdim)) as [i|] eqn:E1;
    [destruct (in_lattice (r_sx r) (r_tx r) (r_cx r) (p mod xdim)) as [j|] eqn:E2|];
    try (apply Hi; apply nth_In; lia).
  apply in_lattice_some in E1; auto. apply in_lattice_some in E2; auto.
  apply Hdt. apply nth_In. rewrite Hd. apply px_index_lt; tauto.
Qed.

Lemma user_pixels_lengths : forall {C} (d0 : C) wil cx cy nc user px,
    In px (user_pixels d0 wil cx cy nc user) -> length px = nc.
Proof.
  intros C d0 wil cx cy nc user px H. unfold user_pixels in H. apply in_map_iff in H. destruct H as [k [<- _]].
  rewrite map_length, seq_length. reflexivity.
Qed.

(** every GRwriteimage the specification accepts is performed by the model, and the images stay related *)
Lemma sim_writeimage_lemma : forall m s r bytes s',
    img_rel m s -> s_writeimage s r bytes = Some s' ->
    exists m' tr, m_writeimage m r bytes = Some (m', tr) /\ img_rel m' s'.
Proof.
  intros m s r bytes s' (Hg & Hw & Hr & Hf & Hnc & Hfl & Hd) Hs.
  unfold s_writeimage in Hs. rewrite <- Hg in Hs.
  destruct (rgn_inside (gx (m_g m)) (gy (m_g m)) r && (length bytes =? r_cx r * r_cy r * gnc (m_g m) * gcs (m_g m))) eqn:E;
    [|discriminate].
  apply andb_prop in E. destruct E as [Hin _]. injection Hs as <-.
  pose proof (inside_facts _ _ _ Hin) as (Htx & Hty & Hcx & Hcy & Hx & Hy).
  unfold m_writeimage.
  assert (Ea : args_ok r = true).
  { unfold args_ok. repeat (apply andb_true_intro; split); apply Nat.leb_le; auto. }
  rewrite Ea. cbn [negb orb].
  assert (Erf : comp_write_refused m r = false).
  { unfold comp_write_refused. destruct (m_store m); auto. destruct (m_elt m); reflexivity. }
  rewrite Erf. eexists. eexists. split; [reflexivity|].
  set (g := m_g m) in *. set (user := group (gcs g) (r_cx r * r_cy r * gnc g) bytes).
  set (d0 := repeat 0%Z (gcs g)).
  assert (Hu : length user = r_cx r * r_cy r * gnc g) by apply group_length.
  assert (Hfill : length (fill_of g (m_fill m)) = gnc g) by (apply fill_of_length; auto).
  assert (Hel : forall l, m_elt m = Some l -> length l = gx g * gy g).
  { intros l El. rewrite El in Hd. destruct (s_data s); [tauto|contradiction]. }
  pose proof (image_write_refines_lemma (codec (gswap g)) (codec (gswap g)) d0 (codec_involutive (gswap g))
                                        (m_elt m) (gx g) (gy g) (gnc g) (m_wil m) r (fill_of g (m_fill m)) user
                                        Hnc Hin Hu Hel) as R.
  assert (Eimg : match m_elt m with
                 | Some l => map (map (codec (gswap g))) l
                 | None => repeat (fill_of g (m_fill m)) (gx g * gy g)
                 end = match s_data s with Some i => i | None => repeat (fill_of g (s_fill s)) (gx g * gy g) end).
  { destruct (m_elt m), (s_data s); try contradiction; [symmetry; tauto | rewrite Hf; reflexivity]. }
  rewrite Eimg in R.
  unfold img_rel. cbn [m_set_elt s_set_data m_g s_g m_wil s_wil m_ril s_ril m_fill s_fill m_elt s_data].
  rewrite <- Hw. do 6 (split; [solve [auto] |]). split; [symmetry; exact R | split].
  - apply (f_equal (@length _)) in R. rewrite map_length in R. rewrite R.
    unfold s_write, spec_write_px. rewrite map_length, seq_length. reflexivity.
  - intros px Hpx.
    assert (Hpx' : In (map (codec (gswap g)) px) (map (map (codec (gswap g)))
                     (m_write (codec (gswap g)) d0 (m_elt m) (gx g) (gy g) (gnc g) (m_wil m) r (fill_of g (m_fill m)) user)))
      by (apply in_map; auto).
    rewrite R in Hpx'. rewrite <- (map_length (codec (gswap g)) px).
    unfold s_write in Hpx'.
    eapply (spec_write_px_lengths _ _ (gx g) (gy g) r (gnc g) Hin); [| | | | exact Hpx'].
    + destruct (m_elt m) as [l|], (s_data s) as [i|]; try contradiction.
      * destruct Hd as (-> & Hl & _). rewrite !map_length. auto.
      * apply repeat_length.
    + unfold user_pixels. rewrite map_length, seq_length. reflexivity.
    + intros q Hq. destruct (m_elt m) as [l|], (s_data s) as [i|]; try contradiction.
      * destruct Hd as (-> & _ & Hp). apply in_map_iff in Hq. destruct Hq as [q' [<- Hq']]. rewrite map_length. auto.
      * apply repeat_spec in Hq. subst q. rewrite <- Hf. auto.
    + intros q Hq. eapply user_pixels_lengths; eauto.
Qed.

(** every GRreadimage the specification defines returns, in the model, exactly the specified bytes *)
Lemma sim_readimage_lemma : forall m s r out,
    img_rel m s -> s_readimage s r = Some out -> exists tr, m_readimage m r = Some (out, tr).
Proof.
  intros m s r out (Hg & Hw & Hr & Hf & Hnc & Hfl & Hd) Hs.
  unfold s_readimage in Hs. rewrite <- Hg in Hs.
  destruct (rgn_inside (gx (m_g m)) (gy (m_g m)) r) eqn:Hin; [|discriminate]. injection Hs as <-.
  pose proof (inside_facts _ _ _ Hin) as (Htx & Hty & Hcx & Hcy & Hx & Hy).
  unfold m_readimage.
  assert (Ea : args_ok r = true).
  { unfold args_ok. repeat (apply andb_true_intro; split); apply Nat.leb_le; auto. }
  rewrite Ea. cbn [negb]. set (g := m_g m) in *.
  destruct (m_elt m) as [e|] eqn:Ee, (s_data s) as [img|] eqn:Es; try contradiction.
  - destruct Hd as (-> & Hl & Hp). eexists. f_equal. f_equal. f_equal. rewrite <- Hr.
    apply (image_read_refines_lemma (codec (gswap g)) (codec (gswap g)) (repeat 0%Z (gcs g))); auto.
  - eexists. f_equal. f_equal. f_equal. rewrite <- Hr, <- Hf.
    change rd_nodata_caches_fill with false. cbv iota.
    apply read_nodata_refines_lemma; auto. apply fill_of_length; auto.
Qed.

(** a compressed image selected from a file is accessed through the buffered driver *)
Lemma selected_comp_buffered_lemma : selected_comp_buffered = true.
Proof. vm_compute. reflexivity. Qed.

Lemma img_rel_create_lemma : forall g il, 1 <= gnc g -> img_rel (m_create g il) (s_create g il).
Proof. intros g il H. unfold img_rel. simpl. repeat split; auto. intros p Hp. discriminate. Qed.

Lemma img_rel_reqil_lemma : forall m s il, img_rel m s -> img_rel (m_reqil m il) (s_reqil s il).
Proof. intros m s il H. unfold img_rel in *. simpl. tauto. Qed.
