(** C09 -- proofs about GRModel.v *)
From Coq Require Import List Arith Bool ZArith Lia.
Import ListNotations.
Require Import H4.gen.Gen_GR H4.GRModel.

Lemma il_code_roundtrip_lemma : forall il, il_of_code (il_code il) = Some il.
Proof. destruct il; reflexivity. Qed.
