(** C06 -- executable model of the number-type conversion routines
    (dfkswap.c, dfknat.c, dfconv.c).  No proofs in this file.

    Memory is one flat address space [Z -> Z] so that source/destination
    overlap is expressible.  The loop bodies, the fast-path conditions, the
    memcpy lengths, the DFKsetNT switch and the DFKNTsize switch are NOT
    written here: they are imported from the generated file Gen_Conv.v, i.e.
    regenerated from /repo on every run. *)
From Coq Require Import ZArith List Bool String.
Require Import H4.ConvLang H4.gen.Gen_Conv.
Import ListNotations.
Local Open Scope Z_scope.

Definition mem := Z -> Z.
Definition upd (m : mem) (a v : Z) : mem := fun x => if Z.eqb x a then v else m x.

Record st := mkst { M : mem; B : Z -> Z; S : Z; D : Z }.

Definition rd (s : st) (l : loc) : Z :=
  match l with Dst k => M s (D s + k) | Src k => M s (S s + k) | Buf k => B s k end.

Definition exec1 (ss ds : Z) (s : st) (c : stmt) : st :=
  match c with
  | Asg (Dst k) r => mkst (upd (M s) (D s + k) (rd s r)) (B s) (S s) (D s)
  | Asg (Src k) r => mkst (upd (M s) (S s + k) (rd s r)) (B s) (S s) (D s)
  | Asg (Buf k) r => mkst (M s) (upd (B s) k (rd s r)) (S s) (D s)
  | IncD v => mkst (M s) (B s) (S s) (D s + match v with Some n => n | None => ds end)
  | IncS v => mkst (M s) (B s) (S s + match v with Some n => n | None => ss end) (D s)
  end.

Definition exec_body (ss ds : Z) (body : list stmt) (s : st) : st := fold_left (exec1 ss ds) body s.

Fixpoint iter (n : nat) (ss ds : Z) (body : list stmt) (s : st) : st :=
  match n with O => s | Datatypes.S n' => iter n' ss ds body (exec_body ss ds body s) end.

(** memcpy for non-overlapping regions (the only use the C code makes of it) *)
Fixpoint memcpy_n (n : nat) (m0 m : mem) (d s : Z) : mem :=
  match n with O => m | Datatypes.S n' => memcpy_n n' m0 (upd m d (m0 s)) (d + 1) (s + 1) end.
Definition memcpy (m : mem) (d s len : Z) : mem := memcpy_n (Z.to_nat len) m m d s.

Record routine := mkroutine {
  r_width : Z; r_swap : bool;
  r_fast : Z -> Z -> Z; r_loops : list (Z * list stmt); r_memcpy : Z -> list Z }.

Definition run_loop (l : option (Z * list stmt)) (m : mem) (s d n ss ds : Z) : option mem :=
  match l with
  | Some (i0, body) => Some (M (iter (Z.to_nat (n - i0)) ss ds body (mkst m (fun _ => 0) s d)))
  | None => None
  end.

(** Control skeleton shared by DFKsb2b/4b/8b: four loops in textual order
    fast&out-of-place, fast&in-place, strided&out-of-place, strided&in-place. *)
Definition run_swap (r : routine) (m : mem) (s d n ss ds : Z) : option mem :=
  if n =? 0 then None else
  let fast := negb (r_fast r ss ds =? 0) in
  let inplace := s =? d in
  let idx := ((if fast then 0 else 2) + (if inplace then 1 else 0))%nat in
  run_loop (nth_error (r_loops r) idx) m s d n ss ds.

(** DFKnb2b/4b/8b: fast path is memcpy (out of place) or nothing (in place); then two loops. *)
Definition run_nat (r : routine) (m : mem) (s d n ss ds : Z) : option mem :=
  if n =? 0 then None else
  let fast := negb (r_fast r ss ds =? 0) in
  let inplace := s =? d in
  if fast then
    if inplace then Some m
    else match r_memcpy r n with len :: _ => Some (memcpy m d s len) | [] => None end
  else run_loop (nth_error (r_loops r) (if inplace then 1 else 0)%nat) m s d n ss ds.

(** DFKnb1b: strided path stores the first byte, then one loop starting at i = 1
    that advances before it stores. *)
Definition run_nat1 (r : routine) (m : mem) (s d n ss ds : Z) : option mem :=
  if n =? 0 then None else
  let fast := negb (r_fast r ss ds =? 0) in
  let inplace := s =? d in
  if fast then
    if inplace then Some m
    else match r_memcpy r n with len :: _ => Some (memcpy m d s len) | [] => None end
  else run_loop (nth_error (r_loops r) 0%nat) (upd m d (m s)) s d n ss ds.

Definition R_sb2b := mkroutine 2 true DFKsb2b_fastcond DFKsb2b_loops DFKsb2b_memcpy_len.
Definition R_sb4b := mkroutine 4 true DFKsb4b_fastcond DFKsb4b_loops DFKsb4b_memcpy_len.
Definition R_sb8b := mkroutine 8 true DFKsb8b_fastcond DFKsb8b_loops DFKsb8b_memcpy_len.
Definition R_nb1b := mkroutine 1 false DFKnb1b_fastcond DFKnb1b_loops DFKnb1b_memcpy_len.
Definition R_nb2b := mkroutine 2 false DFKnb2b_fastcond DFKnb2b_loops DFKnb2b_memcpy_len.
Definition R_nb4b := mkroutine 4 false DFKnb4b_fastcond DFKnb4b_loops DFKnb4b_memcpy_len.
Definition R_nb8b := mkroutine 8 false DFKnb8b_fastcond DFKnb8b_loops DFKnb8b_memcpy_len.

Definition run_routine (r : routine) : mem -> Z -> Z -> Z -> Z -> Z -> option mem :=
  if r_swap r then run_swap r else if r_width r =? 1 then run_nat1 r else run_nat r.

Inductive rid := SB2 | SB4 | SB8 | NB1 | NB2 | NB4 | NB8.
Definition routine_of (r : rid) : routine :=
  match r with SB2 => R_sb2b | SB4 => R_sb4b | SB8 => R_sb8b
             | NB1 => R_nb1b | NB2 => R_nb2b | NB4 => R_nb4b | NB8 => R_nb8b end.
Definition rwidth (r : rid) : Z := match r with SB2 | NB2 => 2 | SB4 | NB4 => 4 | SB8 | NB8 => 8 | NB1 => 1 end.
Definition rswap (r : rid) : bool := match r with SB2 | SB4 | SB8 => true | _ => false end.

Local Open Scope string_scope.
Definition rid_of_name (nm : string) : option rid :=
  if String.eqb nm "DFKsb2b" then Some SB2 else
  if String.eqb nm "DFKsb4b" then Some SB4 else
  if String.eqb nm "DFKsb8b" then Some SB8 else
  if String.eqb nm "DFKnb1b" then Some NB1 else
  if String.eqb nm "DFKnb2b" then Some NB2 else
  if String.eqb nm "DFKnb4b" then Some NB4 else
  if String.eqb nm "DFKnb8b" then Some NB8 else None.
Local Close Scope string_scope.

Fixpoint zassoc {A} (k : Z) (l : list (Z * A)) : option A :=
  match l with [] => None | (k', v) :: t => if Z.eqb k k' then Some v else zassoc k t end.

(** DFKsetNT: which routine numin (acc=read) / numout (acc=write) point to. *)
Definition setnt (ntype : Z) (read : bool) : option rid :=
  match zassoc ntype DFKsetNT_switch with
  | Some [i; o] => rid_of_name (if read then i else o)
  | _ => None
  end.

(** DFKNTsize: masks off the little-endian bit, then the generated switch. *)
Definition ntsize (ntype : Z) : option Z :=
  zassoc (Z.land ntype (Z.lnot DFNT_LITEND)) DFKNTsize_switch.

(** DFKconvert for a supported number type. *)
Definition dfkconvert (m : mem) (s d ntype n : Z) (read : bool) (ss ds : Z) : option mem :=
  match setnt ntype read with
  | Some r => run_routine (routine_of r) m s d n ss ds
  | None => None
  end.

(** ---- specification side ------------------------------------------------ *)

(** What the number type designates: element width and whether the file order
    differs from this (little-endian) host's memory order. *)
Definition nt_base (nt : Z) : Z := Z.land nt DFNT_MASK.
Definition nt_width (nt : Z) : option Z :=
  let b := nt_base nt in
  if (b =? DFNT_UCHAR8) || (b =? DFNT_CHAR8) || (b =? DFNT_INT8) || (b =? DFNT_UINT8) then Some 1
  else if (b =? DFNT_INT16) || (b =? DFNT_UINT16) then Some 2
  else if (b =? DFNT_INT32) || (b =? DFNT_UINT32) || (b =? DFNT_FLOAT32) then Some 4
  else if (b =? DFNT_FLOAT64) then Some 8 else None.
Definition nt_flavour_ok (nt : Z) : bool :=
  let f := Z.land nt (Z.lnot DFNT_MASK) in (f =? 0) || (f =? DFNT_NATIVE) || (f =? DFNT_LITEND).
Definition nt_bigendian_file (nt : Z) : bool := Z.land nt (Z.lor DFNT_NATIVE DFNT_LITEND) =? 0.

Definition supported_nts : list Z :=
  flat_map (fun f => map (fun b => Z.lor f b)
     [DFNT_UCHAR8; DFNT_CHAR8; DFNT_INT8; DFNT_UINT8; DFNT_INT16; DFNT_UINT16; DFNT_INT32; DFNT_UINT32;
      DFNT_FLOAT32; DFNT_FLOAT64]) [0; DFNT_NATIVE; DFNT_LITEND].

Definition perm (w : Z) (swap : bool) (k : Z) : Z := if swap then w - 1 - k else k.

(** effective strides: (0,0) means contiguous *)
Definition eff (w ss ds : Z) : Z * Z := if (ss =? 0) && (ds =? 0) then (w, w) else (ss, ds).

(** The abstract result of converting n elements: element i, byte k of the
    destination is byte perm(k) of source element i; nothing else changes. *)
Fixpoint spec_conv (n : nat) (w : Z) (swap : bool) (m0 m : mem) (s d se de : Z) : mem :=
  match n with
  | O => m
  | Datatypes.S n' =>
      let m1 := fold_left (fun mm k => upd mm (d + k) (m0 (s + perm w swap k)))
                          (map Z.of_nat (seq 0 (Z.to_nat w))) m in
      spec_conv n' w swap m0 m1 (s + se) (d + de) se de
  end.

Definition spec_convert (m : mem) (s d ntype n ss ds : Z) : option mem :=
  match nt_width ntype with
  | Some w =>
      if negb (nt_flavour_ok ntype) || (n <=? 0) then None else
      let '(se, de) := eff w ss ds in
      Some (spec_conv (Z.to_nat n) w (nt_bigendian_file ntype && (1 <? w)) m m s d se de)
  | None => None
  end.

(** domain of the property: strides at least the element size (or both zero), and source / destination
    regions disjoint, or in place (same start) with the destination stride not larger than the source
    stride (identical layout, or packing towards the front: element i is written at or before the place
    it was read from, so no later source element is clobbered) *)
Definition in_domain (w s d n ss ds : Z) : bool :=
  let '(se, de) := eff w ss ds in
  (w <=? se) && (w <=? de) && (0 <? n) &&
  (((s =? d) && (de <=? se)) || (d + (n - 1) * de + w <=? s) || (s + (n - 1) * se + w <=? d)).

(** ---- list front end used by the extracted driver ------------------------ *)
Definition mem_of_list (l : list Z) : mem := fun a => if a <? 0 then 0 else nth (Z.to_nat a) l 0.
Definition list_of_mem (m : mem) (len : nat) : list Z := map (fun i => m (Z.of_nat i)) (seq 0 len).

Definition model_case (l : list Z) (s d ntype n : Z) (read : bool) (ss ds : Z) : option (list Z) :=
  match dfkconvert (mem_of_list l) s d ntype n read ss ds with
  | Some m => Some (list_of_mem m (List.length l)) | None => None end.
Definition spec_case (l : list Z) (s d ntype n ss ds : Z) : option (list Z) :=
  match spec_convert (mem_of_list l) s d ntype n ss ds with
  | Some m => Some (list_of_mem m (List.length l)) | None => None end.
Definition domain_case (s d ntype n ss ds : Z) : bool :=
  match nt_width ntype with Some w => in_domain w s d n ss ds | None => false end.
