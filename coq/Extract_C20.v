(** Extraction of the C20 specification and site models (ExtrOcamlBasic only; Z stays the extracted datatype). *)
Require Import H4.LimitsSpec H4.LimitsModel.
Require Extraction.
Require ExtrOcamlBasic.
Extraction "../extract/gen/limits_model.ml" LimitsSpec.step LimitsSpec.init
  m_getdiskblock m_vinsertpair m_endoff.
