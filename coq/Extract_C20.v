(** Extraction of the C20 specification and site models (ExtrOcamlBasic only; Z stays the extracted datatype). *)
Require Import H4.gen.Gen_Limits H4.LimitsSpec H4.LimitsModel.
Require Extraction.
Require ExtrOcamlBasic.
Extraction "../extract/gen/limits_model.ml" LimitsSpec.step LimitsSpec.init
  m_getdiskblock m_vinsertpair m_endoff m_hwrite m_vsetname m_vsetclass m_vssetname m_vsfdefine m_vssetfields
  m_vsseek m_vswrite_total m_newref_next m_tagnewref m_sdcreate_ok m_reset_maxopen ntsize alloc_dd find_elem get_vg get_vs
  d_open_count resize m_hseek m_chunk_ref m_vpackvs_size m_sdsetattr m_grsetattr sdcreate_too_many_vars coordvar_too_many_vars putattr_too_many truth file_get sd_needs_coordvar attr_count_of attr_key.
