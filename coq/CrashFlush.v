(** C17 -- Part 2: every prefix of the flush is safe.

    State at the start of a flush, per DD block: the version on disk (t_d), the version in memory (t_m) and the
    version currently on disk while the flush proceeds (t_x, a mix: header from d or m, DD list from d or m).
    [Inv] says the image agrees with the mix, block regions are pairwise disjoint, memory versions are linked
    into a chain and are compatible with the disk versions (same place and size, old descriptors kept, only NIL
    slots filled, next-offset either already on disk or 0 on disk).  Any header / DD-list write of a memory block
    keeps [Inv]; any [Inv] image parses and shows every descriptor of every disk block that is reachable with
    its old links. *)
From Coq Require Import ZArith List Bool Lia.
Require Import H4.gen.Gen_Crash H4.CrashSpec H4.CrashModel H4.CrashBytes H4.CrashProofs.
Import ListNotations.
Local Open Scope Z_scope.

Record tri := mktri { t_d : block; t_m : block; t_x : block }.

Definition agrees (img : image) (b : block) : Prop := read_block img (b_off b) = Some b.

Definition blk_in_range (b : block) : Prop :=
  0 < b_ndds b < 32768 /\ -2147483648 <= b_next b < 2147483648 /\ Forall dd_in_range (b_dds b) /\
  zlen (b_dds b) = b_ndds b /\ 0 <= b_off b.

Definition compat (d m : block) : Prop :=
  b_off m = b_off d /\ b_ndds m = b_ndds d /\ (b_next d = b_next m \/ b_next d = 0) /\
  Forall2 (fun dd md => dd = md \/ d_tag dd = DFTAG_NULL) (b_dds d) (b_dds m) /\ blk_in_range m.

Definition mixrel (d m x : block) : Prop :=
  b_off x = b_off d /\ b_ndds x = b_ndds d /\
  (b_next x = b_next d \/ b_next x = b_next m) /\ (b_dds x = b_dds d \/ b_dds x = b_dds m).

Definition tri_ok (t : tri) : Prop := compat (t_d t) (t_m t) /\ mixrel (t_d t) (t_m t) (t_x t).

Definition region (t : tri) : Z * Z := (b_off (t_d t), block_end (t_d t)).
Definition disj (r q : Z * Z) : Prop := snd r <= fst q \/ snd q <= fst r.
Fixpoint pdisj (l : list (Z * Z)) : Prop :=
  match l with [] => True | r :: t => Forall (disj r) t /\ pdisj t end.

Fixpoint linked (l : list block) : Prop :=
  match l with
  | [] => False
  | b :: r => match r with
              | [] => b_next b = 0
              | b' :: _ => b_next b = b_off b' /\ b_next b <> 0 /\ linked r
              end
  end.

Record Inv (img : image) (T : list tri) : Prop := {
  i_ok : Forall tri_ok T;
  i_linked : linked (map t_m T);
  i_first : match T with [] => False | t :: _ => b_off (t_d t) = MAGICLEN end;
  i_agree : Forall (fun t => agrees img (t_x t)) T;
  i_disj : pdisj ((0, MAGICLEN) :: map region T);
  i_magic : read_bytes img 0 MAGICLEN = Some HDFMAGIC;
  i_len : (length T <= length img)%nat }.

(** ---- read_block from its parts *)
Lemma read_block_intro img b h bs :
  read_bytes img (b_off b) hdr_sz = Some h -> b_ndds b = s16 (be (firstn 2 h)) -> 0 < b_ndds b ->
  b_next b = s32 (be (skipn 2 h)) ->
  read_bytes img (b_off b + hdr_sz) (b_ndds b * DD_SZ) = Some bs ->
  b_dds b = parse_dds (Z.to_nat (b_ndds b)) bs ->
  read_block img (b_off b) = Some b.
Proof.
  intros Hh Hn Hp Hx Hb Hd. unfold read_block. rewrite Hh. cbv zeta. rewrite <- Hn.
  destruct (Z.leb_spec (b_ndds b) 0); [lia|]. rewrite Hb. destruct b; simpl in *. subst. reflexivity.
Qed.

Lemma block_end_eq b : block_end b = b_off b + hdr_sz + b_ndds b * DD_SZ.
Proof. unfold block_end, start_block_end, hdr_sz, NDDS_SZ, OFFSET_SZ, DD_SZ. lia. Qed.

(** a write outside a block's region leaves the block as it is *)
Lemma agrees_frame img b off bs :
  agrees img b -> 0 <= off -> (block_end b <= off \/ off + zlen bs <= b_off b) ->
  agrees (write_at img off bs) b.
Proof.
  unfold agrees. intros A Hoff Hd. destruct (read_block_inv _ _ _ A) as (h & ds & Rh & Hn & Hp & Hx & _ & Rd & Hdd).
  rewrite block_end_eq in Hd.
  assert (0 <= zlen bs) by (unfold zlen; lia).
  assert (DD_SZ = 12) by reflexivity. assert (hdr_sz = 6) by reflexivity.
  eapply read_block_intro; eauto; apply read_write_other; auto; lia.
Qed.

(** the header write of a block *)
Lemma agrees_hdr_write img x nxt :
  agrees img x -> 0 <= b_off x -> 0 < b_ndds x < 32768 -> -2147483648 <= nxt < 2147483648 ->
  agrees (write_at img (b_off x) (enc_hdr (b_ndds x) nxt)) (set_next x nxt).
Proof.
  unfold agrees. intros A Hoff Hn Hx. destruct (read_block_inv _ _ _ A) as (h & ds & Rh & Hnn & Hp & Hxx & _ & Rd & Hdd).
  destruct (parse_enc_hdr (b_ndds x) nxt Hn Hx) as [E1 E2].
  assert (L : zlen (enc_hdr (b_ndds x) nxt) = hdr_sz) by (unfold zlen; rewrite length_enc_hdr; reflexivity).
  assert (hdr_sz = 6) by reflexivity.
  apply (read_block_intro _ (set_next x nxt) (enc_hdr (b_ndds x) nxt) ds); simpl; auto.
  - rewrite <- L. apply read_write_same; auto.
  - apply read_write_other; auto. lia.
Qed.

(** the DD-list write of a block *)
Lemma agrees_dds_write img x l :
  agrees img x -> 0 <= b_off x -> Forall dd_in_range l -> zlen l = b_ndds x ->
  agrees (write_at img (b_off x + hdr_sz) (enc_dds l)) (set_dds x l).
Proof.
  unfold agrees. intros A Hoff Hr Hl. destruct (read_block_inv _ _ _ A) as (h & ds & Rh & Hnn & Hp & Hxx & _ & Rd & Hdd).
  assert (L : zlen (enc_dds l) = b_ndds x * DD_SZ).
  { unfold zlen in *. rewrite length_enc_dds. unfold DD_SZ. lia. }
  assert (hdr_sz = 6) by reflexivity.
  apply (read_block_intro _ (set_dds x l) h (enc_dds l)); simpl; auto.
  - apply read_write_other; auto; lia.
  - rewrite <- L. apply read_write_same; lia.
  - unfold zlen in Hl. rewrite <- Hl, Nat2Z.id. symmetry. apply parse_enc_dds; auto.
Qed.

(** ---- pairwise disjointness under decomposition *)
Lemma disj_sym r q : disj r q -> disj q r.
Proof. unfold disj; tauto. Qed.

Lemma pdisj_split A r B : pdisj (A ++ r :: B) -> Forall (disj r) A /\ Forall (disj r) B.
Proof.
  induction A as [|a A IH]; simpl.
  - intros [H _]. split; auto.
  - intros [Ha Hp]. destruct (IH Hp) as [H1 H2]. split; auto.
    constructor; auto. rewrite Forall_app in Ha. destruct Ha as [_ Ha]. inversion Ha; subst. now apply disj_sym.
Qed.

(** ---- one flush write keeps the invariant *)
Definition upd_x (t : tri) (x : block) : tri := mktri (t_d t) (t_m t) x.

Lemma linked_map_upd Ta t Tb x : map t_m (Ta ++ upd_x t x :: Tb) = map t_m (Ta ++ t :: Tb).
Proof. rewrite !map_app. reflexivity. Qed.

Lemma region_map_upd Ta t Tb x : map region (Ta ++ upd_x t x :: Tb) = map region (Ta ++ t :: Tb).
Proof. rewrite !map_app. reflexivity. Qed.

Lemma step_generic img Ta t Tb off bs x' :
  Inv img (Ta ++ t :: Tb) ->
  0 <= off -> b_off (t_d t) <= off -> off + zlen bs <= block_end (t_d t) ->
  agrees (write_at img off bs) x' ->
  mixrel (t_d t) (t_m t) x' ->
  Inv (write_at img off bs) (Ta ++ upd_x t x' :: Tb).
Proof.
  intros I Hoff Hlo Hhi Hag Hmix. destruct I as [Iok Ilk Ifst Iag Idj Img Ilen].
  assert (Hsplit := Idj). simpl in Hsplit. destruct Hsplit as [Hmagic Hreg].
  rewrite map_app in Hreg. simpl in Hreg. destruct (pdisj_split _ _ _ Hreg) as [HA HB].
  rewrite map_app in Hmagic. simpl in Hmagic. rewrite Forall_app in Hmagic. destruct Hmagic as [_ Hm].
  inversion Hm as [|? ? Hmt _]; subst. unfold disj, region in Hmt; simpl in Hmt.
  assert (Hz : 0 <= zlen bs) by (unfold zlen; lia).
  rewrite Forall_app in Iok, Iag. destruct Iok as [OkA OkB]. destruct Iag as [AgA AgB].
  inversion OkB as [|? ? Okt OkB']; subst. inversion AgB as [|? ? Agt AgB']; subst.
  assert (Frame : forall u, disj (region t) (region u) -> tri_ok u -> agrees img (t_x u) -> agrees (write_at img off bs) (t_x u)).
  { intros u Hd [_ (Mo & Mn & _)] Au. apply agrees_frame; auto.
    unfold disj, region in Hd; simpl in Hd. unfold block_end in *. rewrite Mo, Mn. lia. }
  constructor.
  - rewrite Forall_app. split; auto. constructor; auto. destruct Okt as [C _]. split; auto.
  - rewrite linked_map_upd. exact Ilk.
  - destruct Ta; simpl in *; auto.
  - rewrite Forall_app. split.
    + apply Forall_forall. intros u Hu. apply Frame.
      * rewrite Forall_forall in HA. apply HA. apply in_map. exact Hu.
      * rewrite Forall_forall in OkA. auto.
      * rewrite Forall_forall in AgA. auto.
    + constructor; auto. apply Forall_forall. intros u Hu. apply Frame.
      * rewrite Forall_forall in HB. apply HB. apply in_map. exact Hu.
      * rewrite Forall_forall in OkB'. auto.
      * rewrite Forall_forall in AgB'. auto.
  - rewrite region_map_upd. exact Idj.
  - apply read_write_other; auto. unfold MAGICLEN in *. destruct Hmt; simpl in *; lia.
  - rewrite length_write_at. rewrite !app_length in *. simpl in *. lia.
Qed.

Lemma step_hdr img Ta t Tb :
  Inv img (Ta ++ t :: Tb) ->
  Inv (write_at img (b_off (t_m t)) (enc_hdr (b_ndds (t_m t)) (b_next (t_m t))))
      (Ta ++ upd_x t (set_next (t_x t) (b_next (t_m t))) :: Tb).
Proof.
  intros I. assert (I' := I). destruct I' as [Iok _ _ Iag _ _ _].
  rewrite Forall_app in Iok, Iag. destruct Iok as [_ OkB]. destruct Iag as [_ AgB].
  inversion OkB as [|? ? [C M] _]; subst. inversion AgB as [|? ? Agt _]; subst.
  destruct C as (Co & Cn & Cx & Cd & (R1 & R2 & R3 & R4 & R5)). destruct M as (Mo & Mn & Mx & Md).
  assert (L : zlen (enc_hdr (b_ndds (t_m t)) (b_next (t_m t))) = 6) by (unfold zlen; rewrite length_enc_hdr; reflexivity).
  apply step_generic; auto; try lia.
  - rewrite L. unfold block_end, start_block_end. lia.
  - replace (b_off (t_m t)) with (b_off (t_x t)) by congruence.
    replace (b_ndds (t_m t)) with (b_ndds (t_x t)) by congruence.
    apply agrees_hdr_write; auto; try lia; try congruence.
  - unfold mixrel; simpl. repeat split; auto.
Qed.

Lemma step_dds img Ta t Tb :
  Inv img (Ta ++ t :: Tb) ->
  Inv (write_at img (b_off (t_m t) + hdr_sz) (enc_dds (b_dds (t_m t))))
      (Ta ++ upd_x t (set_dds (t_x t) (b_dds (t_m t))) :: Tb).
Proof.
  intros I. assert (I' := I). destruct I' as [Iok _ _ Iag _ _ _].
  rewrite Forall_app in Iok, Iag. destruct Iok as [_ OkB]. destruct Iag as [_ AgB].
  inversion OkB as [|? ? [C M] _]; subst. inversion AgB as [|? ? Agt _]; subst.
  destruct C as (Co & Cn & Cx & Cd & (R1 & R2 & R3 & R4 & R5)). destruct M as (Mo & Mn & Mx & Md).
  assert (L : zlen (enc_dds (b_dds (t_m t))) = b_ndds (t_m t) * 12).
  { unfold zlen in *. rewrite length_enc_dds. lia. }
  assert (hdr_sz = 6) by reflexivity.
  apply step_generic; auto; try lia.
  - rewrite L. unfold block_end, start_block_end. lia.
  - replace (b_off (t_m t)) with (b_off (t_x t)) by congruence.
    apply agrees_dds_write; auto; try lia; try congruence.
  - unfold mixrel; simpl. repeat split; auto.
Qed.

(** a write entirely above every block keeps the invariant too (HIextend_file) *)
Lemma step_above img T off bs :
  Inv img T -> 0 <= off -> Forall (fun t => block_end (t_d t) <= off) T -> MAGICLEN <= off ->
  Inv (write_at img off bs) T.
Proof.
  intros [Iok Ilk Ifst Iag Idj Img Ilen] Hoff Hab Hm. constructor; auto.
  - rewrite Forall_forall in *. intros u Hu. apply agrees_frame; auto.
    destruct (Iok u Hu) as [_ (Mo & Mn & _)]. left. unfold block_end in *. rewrite Mo, Mn. apply Hab; auto.
  - apply read_write_other; auto.
  - rewrite length_write_at. lia.
Qed.

(** ---- any image satisfying the invariant parses; what it shows *)
Fixpoint reach (l : list block) : list block :=
  match l with [] => [] | b :: r => if b_next b =? 0 then [b] else b :: reach r end.

Lemma walk_ok img : forall T fuel,
  T <> [] -> Forall tri_ok T -> linked (map t_m T) -> Forall (fun t => agrees img (t_x t)) T ->
  (length T <= fuel)%nat ->
  parse_chain fuel img (match T with [] => 0 | t :: _ => b_off (t_d t) end) = Some (reach (map t_x T)).
Proof.
  induction T as [|t T' IH]; intros fuel Hne Hok Hlk Hag Hlen; [congruence|].
  destruct fuel as [|fuel]; [simpl in Hlen; lia|].
  inversion Hok as [|? ? [C M] Hok']; subst. inversion Hag as [|? ? At Hag']; subst.
  destruct C as (Co & Cn & Cx & Cd & R). destruct M as (Mo & Mn & Mx & Md).
  simpl. unfold agrees in At. rewrite Mo in At. rewrite At.
  destruct (Z.eqb_spec (b_next (t_x t)) 0) as [E|E]; [reflexivity|].
  assert (Hnx : b_next (t_x t) = b_next (t_m t)) by (destruct Mx as [Mx|Mx]; destruct Cx as [Cx|Cx]; congruence).
  destruct T' as [|t' T''].
  - simpl in Hlk. congruence.
  - simpl in Hlk. destruct Hlk as (L1 & L2 & L3).
    inversion Hok' as [|? ? [C' M'] _]; subst. destruct C' as (Co' & _).
    rewrite Hnx, L1, Co'.
    rewrite (IH fuel); auto; try discriminate; try (simpl in *; lia).
Qed.

Lemma inv_parses img T : Inv img T -> parse_file img = Some (reach (map t_x T)).
Proof.
  intros [Iok Ilk Ifst Iag Idj Img Ilen]. unfold parse_file. rewrite Img.
  change (list_eqb HDFMAGIC HDFMAGIC) with true. cbv iota.
  destruct T as [|t T']; [contradiction|].
  rewrite <- Ifst. apply (walk_ok img (t :: T')); auto; try discriminate.
Qed.

(** the old chain: a prefix T1 of the blocks whose disk versions are linked with non-zero next-offsets (all but
    possibly the last) stays reachable in every mix, and every live old descriptor is still listed *)
Lemma reach_prefix T1 : forall T2,
  Forall tri_ok (T1 ++ T2) ->
  Forall (fun t => b_next (t_d t) <> 0) (removelast T1) ->
  incl (map t_x T1) (reach (map t_x (T1 ++ T2))).
Proof.
  induction T1 as [|t T1' IH]; intros T2 Hok Hnz; [intros x []|].
  inversion Hok as [|? ? [C M] Hok']; subst. simpl.
  destruct T1' as [|t' T1''].
  - intros x [<-|[]]. destruct (b_next (t_x t) =? 0); left; reflexivity.
  - change (removelast (t :: t' :: T1'')) with (t :: removelast (t' :: T1'')) in Hnz.
    inversion Hnz as [|? ? Hn Hnz']; subst.
    destruct C as (Co & Cn & Cx & Cd & R). destruct M as (Mo & Mn & Mx & Md).
    assert (b_next (t_x t) <> 0) by (destruct Mx as [Mx|Mx]; destruct Cx as [Cx|Cx]; congruence).
    destruct (Z.eqb_spec (b_next (t_x t)) 0); [contradiction|].
    intros x [<-|Hx]; [left; reflexivity|]. right. apply (IH T2 Hok' Hnz'). exact Hx.
Qed.

Lemma live_dd_kept t d :
  tri_ok t -> In d (b_dds (t_d t)) -> dd_live d = true -> In d (b_dds (t_x t)).
Proof.
  intros [C M] Hin Hl. destruct C as (_ & _ & _ & Cd & _). destruct M as (_ & _ & _ & [Md|Md]); rewrite Md; auto.
  clear Md. induction Cd as [|a b la lb Hab _ IH]; [destruct Hin|].
  destruct Hin as [<-|Hin]; [|right; auto].
  destruct Hab as [<-|Hn]; [left; reflexivity|].
  unfold dd_live in Hl. rewrite Hn in Hl. rewrite Z.eqb_refl in Hl. discriminate.
Qed.

Lemma dd_eqb_refl d : dd_eqb d d = true.
Proof. unfold dd_eqb. rewrite !Z.eqb_refl. reflexivity. Qed.

Lemma list_eqb_refl l : list_eqb l l = true.
Proof. induction l; simpl; auto. rewrite Z.eqb_refl. exact IHl. Qed.

(** the data of the old objects: [Prot img0 bl0 img] *)
Definition Prot (img0 : image) (bl0 : list block) (img : image) : Prop :=
  forall d x, In d (all_dds bl0) -> dd_live d = true -> dd_has_data d = true ->
              elem_bytes img0 d = Some x -> elem_bytes img d = Some x.

Lemma inv_preserves img0 bl0 img T1 T2 :
  parse_file img0 = Some bl0 -> Inv img (T1 ++ T2) -> map t_d T1 = bl0 ->
  Forall (fun t => b_next (t_d t) <> 0) (removelast T1) -> Prot img0 bl0 img ->
  preserves img0 img = true.
Proof.
  intros P0 I Hd Hnz Hp. unfold preserves. rewrite P0, (inv_parses _ _ I).
  apply forallb_forall. intros d Hin. destruct (dd_live d) eqn:Hl; auto.
  unfold dd_preserved. apply andb_true_intro. split.
  - apply existsb_exists. exists d. split; [|apply dd_eqb_refl].
    subst bl0. unfold all_dds in Hin. apply in_flat_map in Hin. destruct Hin as (b & Hb & Hdb).
    apply in_map_iff in Hb. destruct Hb as (t & <- & Ht).
    unfold all_dds. apply in_flat_map. exists (t_x t). split.
    + apply (reach_prefix T1 T2); [apply (i_ok _ _ I)|exact Hnz|]. apply in_map. exact Ht.
    + apply live_dd_kept; auto. pose proof (i_ok _ _ I) as Hok. rewrite Forall_forall in Hok. apply Hok.
      apply in_or_app. left. exact Ht.
  - destruct (dd_has_data d) eqn:Hh; auto. destruct (elem_bytes img0 d) as [x|] eqn:E; auto.
    rewrite (Hp d x Hin Hl Hh E). apply list_eqb_refl.
Qed.

(** ---- the flush of the model, write by write *)
Definition flush_state (img0 : image) (bl0 : list block) (img : image) (fr : frec) (T : list tri) : Prop :=
  parse_file img0 = Some bl0 /\ Inv img T /\ (exists D2, map t_d T = bl0 ++ D2) /\
  Forall (fun b => b_next b <> 0) (removelast bl0) /\ Prot img0 bl0 img /\
  map t_m T = map m_blk (f_blocks fr) /\
  (* old data lies outside every DD block and below the end of file; so does every DD block *)
  (forall d b, In d (all_dds bl0) -> dd_live d = true -> dd_has_data d = true -> In b (map t_d T) ->
               d_off d + d_len d <= b_off b \/ block_end b <= d_off d) /\
  (forall d, In d (all_dds bl0) -> dd_live d = true -> dd_has_data d = true -> d_off d + d_len d <= f_end fr) /\
  Forall (fun b => block_end b <= f_end fr) (map t_d T) /\ MAGICLEN <= f_end fr.

Lemma flush_state_intro img0 bl0 img fr T :
  parse_file img0 = Some bl0 -> Inv img T -> (exists D2, map t_d T = bl0 ++ D2) ->
  Forall (fun b => b_next b <> 0) (removelast bl0) -> Prot img0 bl0 img ->
  map t_m T = map m_blk (f_blocks fr) ->
  (forall d b, In d (all_dds bl0) -> dd_live d = true -> dd_has_data d = true -> In b (map t_d T) ->
               d_off d + d_len d <= b_off b \/ block_end b <= d_off d) ->
  (forall d, In d (all_dds bl0) -> dd_live d = true -> dd_has_data d = true -> d_off d + d_len d <= f_end fr) ->
  Forall (fun b => block_end b <= f_end fr) (map t_d T) -> MAGICLEN <= f_end fr ->
  flush_state img0 bl0 img fr T.
Proof. unfold flush_state. tauto. Qed.

(** the writes a flush can issue, in terms of the memory blocks *)
Inductive flush_write (fr : frec) (M : list block) : Z * list Z -> Prop :=
| FW_hdr m : In m M -> flush_write fr M (b_off m, enc_hdr (b_ndds m) (b_next m))
| FW_dds m : In m M -> flush_write fr M (b_off m + hdr_sz, enc_dds (b_dds m))
| FW_ext : flush_write fr M (f_end fr, [0]).

Lemma prot_frame img0 bl0 img off bs :
  Prot img0 bl0 img -> 0 <= off ->
  (forall d, In d (all_dds bl0) -> dd_live d = true -> dd_has_data d = true ->
             d_off d + d_len d <= off \/ off + zlen bs <= d_off d) ->
  Prot img0 bl0 (write_at img off bs).
Proof.
  intros Hp Hoff Hd d x Hin Hl Hh E. unfold elem_bytes. apply read_write_other; auto. apply (Hp d x); auto.
Qed.

Lemma map_upd_d Ta t Tb x : map t_d (Ta ++ upd_x t x :: Tb) = map t_d (Ta ++ t :: Tb).
Proof. rewrite !map_app. reflexivity. Qed.

Lemma map_removelast {A B} (f : A -> B) l : map f (removelast l) = removelast (map f l).
Proof. induction l as [|a l IH]; simpl; auto. destruct l; simpl in *; auto. f_equal. exact IH. Qed.

Lemma flush_step img0 bl0 img fr T w :
  flush_state img0 bl0 img fr T -> flush_write fr (map t_m T) w ->
  exists T', flush_state img0 bl0 (write_at img (fst w) (snd w)) fr T'.
Proof.
  intros (P0 & I & HD & Hnz & Hp & HM & Hdb & Hde & Hbe & Hmg) Hw.
  assert (Hin_t : forall m, In m (map t_m T) -> exists Ta t Tb, T = Ta ++ t :: Tb /\ t_m t = m).
  { intros m Hm. apply in_map_iff in Hm. destruct Hm as (t & E & Ht). apply in_split in Ht.
    destruct Ht as (Ta & Tb & ->). exists Ta, t, Tb. auto. }
  assert (Hblk : forall Ta t Tb, T = Ta ++ t :: Tb ->
            0 <= b_off (t_m t) /\ b_off (t_m t) = b_off (t_d t) /\ b_ndds (t_m t) = b_ndds (t_d t) /\
            0 < b_ndds (t_m t) /\ zlen (b_dds (t_m t)) = b_ndds (t_m t) /\ In (t_d t) (map t_d T)).
  { intros Ta t Tb ->. pose proof (i_ok _ _ I) as Hok. rewrite Forall_app in Hok. destruct Hok as [_ Hok].
    inversion Hok as [|? ? [C _] _]; subst. destruct C as (Co & Cn & _ & _ & (R1 & _ & _ & R4 & R5)).
    repeat split; auto; try lia. rewrite map_app. apply in_or_app. right. left. reflexivity. }
  inversion Hw as [m Hm|m Hm|]; subst; simpl.
  - destruct (Hin_t m Hm) as (Ta & t & Tb & -> & <-).
    destruct (Hblk Ta t Tb eq_refl) as (B1 & B2 & B3 & B4 & B5 & B6).
    exists (Ta ++ upd_x t (set_next (t_x t) (b_next (t_m t))) :: Tb).
    assert (L : zlen (enc_hdr (b_ndds (t_m t)) (b_next (t_m t))) = 6) by (unfold zlen; rewrite length_enc_hdr; reflexivity).
    apply flush_state_intro; rewrite ?map_upd_d, ?linked_map_upd; auto.
    + apply step_hdr. exact I.
    + apply prot_frame; auto. intros d Hd Hl Hh. rewrite L.
      destruct (Hdb d (t_d t) Hd Hl Hh B6) as [X|X]; [left; lia|right].
      rewrite block_end_eq in X. unfold hdr_sz, NDDS_SZ, OFFSET_SZ, DD_SZ in X. lia.
  - destruct (Hin_t m Hm) as (Ta & t & Tb & -> & <-).
    destruct (Hblk Ta t Tb eq_refl) as (B1 & B2 & B3 & B4 & B5 & B6).
    exists (Ta ++ upd_x t (set_dds (t_x t) (b_dds (t_m t))) :: Tb).
    assert (L : zlen (enc_dds (b_dds (t_m t))) = b_ndds (t_m t) * 12).
    { unfold zlen in *. rewrite length_enc_dds. lia. }
    apply flush_state_intro; rewrite ?map_upd_d, ?linked_map_upd; auto.
    + apply step_dds. exact I.
    + apply prot_frame; auto; [unfold hdr_sz, NDDS_SZ, OFFSET_SZ; lia|]. intros d Hd Hl Hh. rewrite L.
      destruct (Hdb d (t_d t) Hd Hl Hh B6) as [X|X]; [left; unfold hdr_sz, NDDS_SZ, OFFSET_SZ; lia|right].
      rewrite block_end_eq in X. unfold hdr_sz, NDDS_SZ, OFFSET_SZ, DD_SZ in *. lia.
  - exists T. unfold MAGICLEN in *. apply flush_state_intro; auto.
    + apply step_above; auto; try (unfold MAGICLEN; lia); try (rewrite Forall_map in Hbe; exact Hbe).
    + apply prot_frame; auto; try lia; intros d Hd Hl Hh; left; apply Hde; auto.
Qed.

Lemma flush_steps img0 bl0 fr l : forall img T,
  flush_state img0 bl0 img fr T -> Forall (flush_write fr (map m_blk (f_blocks fr))) l ->
  exists T', flush_state img0 bl0 (apply_log img l) fr T'.
Proof.
  induction l as [|w l IH]; intros img T S Hl; [exists T; exact S|].
  inversion Hl as [|? ? Hw Hl']; subst.
  assert (HM : map t_m T = map m_blk (f_blocks fr)) by (destruct S as (_ & _ & _ & _ & _ & HM & _); exact HM).
  rewrite <- HM in Hw. destruct (flush_step _ _ _ _ _ _ S Hw) as (T' & S').
  simpl. apply (IH _ T' S' Hl').
Qed.

(** the model's flush issues only such writes *)
Lemma sync_blocks_writes fr bl :
  Forall (flush_write fr (map m_blk bl)) (sync_blocks bl).
Proof.
  unfold sync_blocks. apply Forall_forall. intros w Hw. apply in_flat_map in Hw. destruct Hw as (mb & Hmb & Hw).
  destruct (m_dirty mb); [|destruct Hw].
  assert (In (m_blk mb) (map m_blk bl)) by (apply in_map; exact Hmb).
  destruct Hw as [<-|[<-|[]]]; [apply FW_hdr|apply FW_dds]; auto.
Qed.

Lemma sync_writes fr : Forall (flush_write fr (map m_blk (f_blocks fr))) (snd (sync fr)).
Proof.
  unfold sync. destruct (f_cache fr && (f_dd_dirty fr || f_end_dirty fr)); simpl; [|constructor].
  apply Forall_app. split.
  - destruct (f_dd_dirty fr); [apply sync_blocks_writes|constructor].
  - destruct (f_end_dirty fr); [|constructor]. unfold extend_file. constructor; [apply FW_ext|constructor].
Qed.

Lemma flush_state_safe img0 bl0 img fr T : flush_state img0 bl0 img fr T -> preserves img0 img = true.
Proof.
  intros (P0 & I & (D2 & HD) & Hnz & Hp & _).
  set (n := length bl0).
  assert (E1 : map t_d (firstn n T) = bl0).
  { rewrite <- firstn_map, HD. apply firstn_app_exact. reflexivity. }
  rewrite <- (firstn_skipn n T) in I.
  apply (inv_preserves img0 bl0 img (firstn n T) (skipn n T)); auto.
  rewrite <- Forall_map with (f := t_d) (P := fun b => b_next b <> 0).
  rewrite map_removelast, E1. exact Hnz.
Qed.

(** THEOREM 2 (from the state at the start of the flush): after ANY prefix of the writes the flush issues, the
    image opens and every old object is intact *)
Lemma prefix_safe_flush_lemma img0 bl0 pre fr T k :
  flush_state img0 bl0 (apply_log img0 pre) fr T ->
  preserves img0 (apply_log img0 (pre ++ firstn k (snd (sync fr)))) = true.
Proof.
  intros S. unfold apply_log. rewrite fold_left_app. fold (apply_log img0 pre).
  fold (apply_log (apply_log img0 pre) (firstn k (snd (sync fr)))).
  assert (Hf : Forall (flush_write fr (map m_blk (f_blocks fr))) (firstn k (snd (sync fr)))).
  { pose proof (sync_writes fr) as H. rewrite <- (firstn_skipn k (snd (sync fr))) in H.
    apply Forall_app in H. tauto. }
  destruct (flush_steps _ _ _ _ _ _ S Hf) as (T' & S'). apply (flush_state_safe _ _ _ _ _ S').
Qed.

(** round trip of the DD-block writer and the format reader: writing the header and the DD list of an in-range
    block anywhere into any image makes read_block return exactly that block *)
Lemma dd_block_roundtrip_lemma img b :
  blk_in_range b ->
  read_block (write_at (write_at img (b_off b) (enc_hdr (b_ndds b) (b_next b))) (b_off b + hdr_sz) (enc_dds (b_dds b)))
             (b_off b) = Some b.
Proof.
  intros (R1 & R2 & R3 & R4 & R5).
  destruct (parse_enc_hdr (b_ndds b) (b_next b) R1 R2) as [E1 E2].
  assert (L1 : zlen (enc_hdr (b_ndds b) (b_next b)) = hdr_sz) by (unfold zlen; rewrite length_enc_hdr; reflexivity).
  assert (L2 : zlen (enc_dds (b_dds b)) = b_ndds b * DD_SZ).
  { unfold zlen in *. rewrite length_enc_dds. unfold DD_SZ. lia. }
  assert (hdr_sz = 6) by reflexivity.
  apply (read_block_intro _ b (enc_hdr (b_ndds b) (b_next b)) (enc_dds (b_dds b))); auto; try lia.
  - apply read_write_other; try lia. rewrite <- L1. apply read_write_same; auto.
  - rewrite <- L2. apply read_write_same. lia.
  - unfold zlen in R4. rewrite <- R4, Nat2Z.id. symmetry. apply parse_enc_dds; auto.
Qed.
