(** C05 -- n-bit end to end: nbit_decode c (nbit_encode c v) = nbit_project c v for all whole-value byte lists. *)
From Coq Require Import ZArith List Bool Lia.
Require Import H4.gen.Gen_Comp H4.CompSpec H4.CompRleProofs H4.CompCodecModel H4.CompCodecProofs H4.CompBitioProofs
  H4.CompNbitProofs.
Import ListNotations.
Local Open Scope Z_scope.

(** * A. reading one written field back, at its position *)
Lemma stream_len_app a : forall b, stream_len (a ++ b) = stream_len a + stream_len b.
Proof. induction a as [|[c v] t IH]; intros b; cbn [app stream_len]; [lia | rewrite IH; lia]. Qed.
Lemma ws_bits_app a b : ws_bits (a ++ b) = ws_bits a ++ ws_bits b.
Proof. unfold ws_bits. now rewrite map_app, concat_app. Qed.
Lemma Forall_wr_ok_app a b : Forall wr_ok (a ++ b) <-> Forall wr_ok a /\ Forall wr_ok b.
Proof. apply Forall_app. Qed.

Lemma field_at pre c v post : Forall wr_ok (pre ++ (c, v) :: post) ->
  bit_field (stream_val 0 (pre ++ (c, v) :: post)) (stream_len (pre ++ (c, v) :: post)) (stream_len pre) c = v mod 2 ^ c.
Proof.
  intros Hw. pose proof Hw as Hw2. apply Forall_app in Hw2. destruct Hw2 as [Hpre Hrest].
  inversion Hrest as [|? ? [Hc Hv] Hpost]; subst. cbn [fst snd] in *.
  destruct (ws_bits_value _ Hw) as [V L]. rewrite <- V, <- L.
  destruct (ws_bits_value _ Hpre) as [_ Lp]. destruct (field_bits_value v c ltac:(lia)) as [Fv Fl].
  replace (ws_bits (pre ++ (c, v) :: post)) with (ws_bits pre ++ field_bits c v ++ ws_bits post)
    by (rewrite ws_bits_app; unfold ws_bits at 4; cbn [map concat fst snd]; reflexivity).
  rewrite <- Lp. rewrite <- Fl at 3. rewrite bits_value_mid. exact Fv.
Qed.

(** the reader positioned at the start of a written field delivers that field *)
Lemma read_written_field ws pre c v post s :
  ws = pre ++ (c, v) :: post -> Forall wr_ok ws ->
  let stream := bw_flush (bw_writes bitw_init ws) in
  br_at stream s (stream_len pre) ->
  exists s', br_read s c = Some (s', v mod 2 ^ c) /\ br_at stream s' (stream_len (pre ++ [(c, v)])).
Proof.
  intros E Hw stream A. subst ws.
  destruct bw_inv_init as (I0 & A0 & L0).
  destruct (bw_writes_spec _ bitw_init 0 I0 Hw) as (hi & I & Ac & Lc).
  destruct (bw_flush_spec _ hi I) as (Fb & pad & Hpad & Lb & Vb). fold stream in Fb, Lb, Vb.
  rewrite Ac, A0 in Vb. rewrite Lc, L0 in Lb. rewrite Z.add_0_l in Lb.
  pose proof Hw as Hw2. apply Forall_app in Hw2. destruct Hw2 as [Hpre Hrest].
  inversion Hrest as [|? ? [Hc Hv] Hpost]; subst. cbn [fst snd] in *.
  pose proof (stream_len_nonneg pre Hpre) as Np. pose proof (stream_len_nonneg post Hpost) as Npost.
  assert (SL : stream_len (pre ++ (c, v) :: post) = stream_len pre + c + stream_len post)
    by (rewrite stream_len_app; cbn [stream_len]; lia).
  destruct (br_at_read stream s (stream_len pre) c A Np ltac:(lia) ltac:(lia)) as (s' & R & A').
  exists s'. split.
  - rewrite R. f_equal. f_equal. rewrite Vb, Lb. rewrite bit_field_pad by lia. apply field_at. exact Hw.
  - rewrite stream_len_app. cbn [stream_len]. rewrite Z.add_0_r. exact A'.
Qed.

(** * B. the control structure: fields of whole values, the inner decode loop, the value loop *)
Definition vfield (mi : mask_info) (b : Z) : list (Z * Z) :=
  if 0 <? mi_len mi then [(mi_len mi, Z.shiftr (Z.land b (mi_mask mi)) (mi_off mi - mi_len mi + 1))] else [].
Fixpoint vfields (mis : list mask_info) (vs : list Z) : list (Z * Z) :=
  match mis, vs with mi :: mt, b :: bt => vfield mi b ++ vfields mt bt | _, _ => [] end.

Lemma enc_fields_nil all rest : all <> [] -> nbit_encode_fields [] all rest = nbit_encode_fields all all rest.
Proof. intros H. destruct rest as [|b t]; [reflexivity|]. destruct all as [|mi r]; [congruence | reflexivity]. Qed.

Lemma enc_fields_aligned all : forall mis bytes rest, length bytes = length mis ->
  nbit_encode_fields mis all (bytes ++ rest) = vfields mis bytes ++ nbit_encode_fields [] all rest.
Proof.
  induction mis as [|mi mt IH]; intros bytes rest H; destruct bytes as [|b bt]; try discriminate.
  - cbn [app vfields]. destruct rest; reflexivity.
  - cbn [app nbit_encode_fields vfields]. fold (vfield mi b). rewrite IH by (cbn in H; lia). now rewrite app_assoc.
Qed.

Lemma enc_fields_values all : all <> [] -> forall values, Forall (fun v => length v = length all) values ->
  nbit_encode_fields all all (concat values) = concat (map (vfields all) values).
Proof.
  intros Hne. induction 1 as [|v t Hv Ht IH]; [reflexivity|].
  cbn [concat map]. rewrite enc_fields_aligned by assumption. rewrite enc_fields_nil by assumption. now rewrite IH.
Qed.

(** what the inner loop computes, as a pure function of the value's bytes *)
Definition sh_of (mi : mask_info) (b : Z) : Z :=
  u32 (Z.shiftl (Z.shiftr (Z.land b (mi_mask mi)) (mi_off mi - mi_len mi + 1)) (mi_off mi - mi_len mi + 1)).
Definition dec_byte (mi : mask_info) (m b : Z) : Z :=
  if 0 <? mi_len mi then Z.lor m (Z.land (mi_mask mi) (CompCodecModel.u8 (sh_of mi b))) else m.
Fixpoint dec_bytes_pure (mis : list mask_info) (mbuf vs : list Z) : list Z :=
  match mis, mbuf, vs with
  | mi :: mt, m :: bt, b :: vt => dec_byte mi m b :: dec_bytes_pure mt bt vt
  | _, _, _ => []
  end.
Fixpoint dec_sign (mis : list mask_info) (vs : list Z) (j sign_byte sign_mask : Z) : bool * bool :=
  match mis, vs with
  | mi :: mt, b :: vt =>
      let '(sb, seen) := dec_sign mt vt (j + 1) sign_byte sign_mask in
      if (0 <? mi_len mi) && (j =? sign_byte) then (negb (Z.land sign_mask (sh_of mi b) =? 0), true) else (sb, seen)
  | _, _ => (false, false)
  end.

Lemma vfield_ok mi b : mi_wf mi -> byte b -> Forall field_ok (vfield mi b).
Proof. intros. unfold vfield. apply one_field_ok; auto. Qed.

Lemma dec_bytes_spec ws sign_byte sign_mask : Forall wr_ok ws ->
  let stream := bw_flush (bw_writes bitw_init ws) in
  forall mis mbuf vs j s pre post,
  length mbuf = length mis -> length vs = length mis -> Forall mi_wf mis -> Forall byte vs ->
  ws = pre ++ vfields mis vs ++ post -> br_at stream s (stream_len pre) ->
  exists s', nbit_decode_bytes mis mbuf s j sign_byte sign_mask =
               Some (dec_bytes_pure mis mbuf vs, s', fst (dec_sign mis vs j sign_byte sign_mask),
                     snd (dec_sign mis vs j sign_byte sign_mask)) /\
             br_at stream s' (stream_len (pre ++ vfields mis vs)).
Proof.
  intros Hw stream. induction mis as [|mi mt IH]; intros mbuf vs j s pre post Lm Lv Fm Fv E A.
  - destruct mbuf; [|discriminate]. destruct vs; [|discriminate]. exists s. cbn. rewrite app_nil_r. auto.
  - destruct mbuf as [|m bt]; [discriminate|]. destruct vs as [|b vt]; [discriminate|].
    apply Forall_cons_iff in Fm. destruct Fm as [Hmi Fmt]. apply Forall_cons_iff in Fv. destruct Fv as [Hb Fvt].
    cbn [nbit_decode_bytes dec_bytes_pure dec_sign vfields]. cbn [vfields] in E.
    pose proof (vfield_ok mi b Hmi Hb) as Hf. unfold vfield in *.
    destruct (Z.ltb_spec 0 (mi_len mi)) as [Hpos|Hz].
    + apply Forall_cons_iff in Hf. destruct Hf as [[Hl Hv] _]. cbn [fst snd] in Hl, Hv.
      set (fv := Z.shiftr (Z.land b (mi_mask mi)) (mi_off mi - mi_len mi + 1)) in *.
      destruct (read_written_field ws pre (mi_len mi) fv (vfields mt vt ++ post) s) as (s1 & R1 & A1); auto.
      rewrite Z.mod_small in R1 by lia. rewrite R1.
      destruct (IH bt vt (j + 1) s1 (pre ++ [(mi_len mi, fv)]) post) as (s2 & R2 & A2); auto;
        try (cbn in Lm; lia); try (cbn in Lv; lia); try (rewrite E; rewrite <- !app_assoc; reflexivity).
      rewrite R2. exists s2. split.
      * unfold dec_byte, sh_of. fold fv. destruct (Z.ltb_spec 0 (mi_len mi)); [|lia].
        destruct (dec_sign mt vt (j + 1) sign_byte sign_mask) as [sb seen]. cbn [fst snd andb].
        destruct (j =? sign_byte); reflexivity.
      * cbn [app]. rewrite <- app_assoc in A2. exact A2.
    + destruct (IH bt vt (j + 1) s pre post) as (s2 & R2 & A2); auto;
        try (cbn in Lm; lia); try (cbn in Lv; lia).
      rewrite R2. exists s2. split; [|exact A2].
      unfold dec_byte. destruct (Z.ltb_spec 0 (mi_len mi)); [lia|].
      destruct (dec_sign mt vt (j + 1) sign_byte sign_mask) as [sb seen]. reflexivity.
Qed.

(** one value, then all values *)
Definition nb_sign_byte (c : nbit_cfg) : Z := nb_size c - (nb_off c / 8 + 1).
Definition nb_sign_mask (c : nbit_cfg) : Z := Z.lxor (tab mask_arr32 (nb_off c mod 8 + 1)) (tab mask_arr32 (nb_off c mod 8)).
Definition value_pure (c : nbit_cfg) (prev : bool) (vs : list Z) : list Z * bool :=
  let bytes := dec_bytes_pure (nbit_mask_info c) (nbit_mask_buf c) vs in
  let '(sb, seen) := dec_sign (nbit_mask_info c) vs 0 (nb_sign_byte c) (nb_sign_mask c) in
  if nb_sign c then let sbit := if seen then sb else prev in (nbit_sign_extend c bytes sbit, sbit) else (bytes, prev).
Fixpoint values_pure (c : nbit_cfg) (prev : bool) (values : list (list Z)) : list Z :=
  match values with
  | [] => []
  | v :: t => let '(o, p) := value_pure c prev v in o ++ values_pure c p t
  end.

Lemma decode_values_spec c ws : Forall wr_ok ws -> Forall mi_wf (nbit_mask_info c) ->
  let stream := bw_flush (bw_writes bitw_init ws) in
  forall values prev s pre post,
  Forall (fun v => length v = length (nbit_mask_info c) /\ Forall byte v) values ->
  ws = pre ++ concat (map (vfields (nbit_mask_info c)) values) ++ post -> br_at stream s (stream_len pre) ->
  nbit_decode_values (length values) c s prev = Some (values_pure c prev values).
Proof.
  intros Hw Hm stream. induction values as [|v t IH]; intros prev s pre post Fv E A; [reflexivity|].
  apply Forall_cons_iff in Fv. destruct Fv as [[Lv Bv] Ft].
  cbn [length nbit_decode_values values_pure]. unfold nbit_decode_value, value_pure.
  fold (nb_sign_byte c). fold (nb_sign_mask c).
  cbn [map concat] in E. rewrite <- app_assoc in E.
  destruct (dec_bytes_spec ws (nb_sign_byte c) (nb_sign_mask c) Hw (nbit_mask_info c) (nbit_mask_buf c) v 0 s pre
              (concat (map (vfields (nbit_mask_info c)) t) ++ post)) as (s1 & R1 & A1); auto.
  { unfold nbit_mask_buf. now rewrite map_length. }
  rewrite R1. destruct (dec_sign (nbit_mask_info c) v 0 (nb_sign_byte c) (nb_sign_mask c)) as [sb seen]. cbn [fst snd].
  destruct (nb_sign c).
  - rewrite (IH (if seen then sb else prev) s1 (pre ++ vfields (nbit_mask_info c) v) post); auto.
    rewrite E. rewrite <- !app_assoc. reflexivity.
  - rewrite (IH prev s1 (pre ++ vfields (nbit_mask_info c) v) post); auto.
    rewrite E. rewrite <- !app_assoc. reflexivity.
Qed.

Lemma nbit_decode_encode_pure : forall size start len se fo values,
  In size [1; 2; 4; 8] -> 0 <= start < 8 * size -> 1 <= len <= start + 1 ->
  Forall (fun v => zlen v = size /\ Forall byte v) values ->
  let c := mk_nbit size start len se fo in
  nbit_decode c (nbit_encode c (concat values)) (zlen values) = Some (values_pure c false values).
Proof.
  intros size start len se fo values Hs Hst Hl Fv c.
  pose proof (nbit_mask_info_wf size start len se fo Hs Hst Hl) as Hw. fold c in Hw.
  assert (Lm : zlen (nbit_mask_info c) = size).
  { pose proof (nbit_masks_lemma size start len Hs Hst Hl) as C. unfold nbit_cfg_case in C. cbv zeta in C.
    rewrite !andb_true_iff in C. destruct C as [[C1 _] _]. apply Z.eqb_eq in C1. exact C1. }
  assert (Hne : nbit_mask_info c <> []).
  { intros E. rewrite E in Lm. change (zlen (@nil mask_info)) with 0 in Lm. cbn in Hs. lia. }
  assert (Fv' : Forall (fun v => length v = length (nbit_mask_info c) /\ Forall byte v) values).
  { eapply Forall_impl; [|exact Fv]. intros v [L B]. split; [|exact B]. unfold zlen in *. lia. }
  assert (Fl : Forall (fun v => length v = length (nbit_mask_info c)) values) by (eapply Forall_impl; [|exact Fv']; intros v [L _]; exact L).
  assert (Fb : Forall byte (concat values)).
  { apply Forall_concat. eapply Forall_impl; [|exact Fv]. intros v [_ B]. exact B. }
  unfold nbit_decode, nbit_encode. fold c. unfold zlen. rewrite Nat2Z.id.
  set (ws := nbit_encode_fields (nbit_mask_info c) (nbit_mask_info c) (concat values)).
  assert (Hwr : Forall wr_ok ws).
  { pose proof (enc_fields_ok _ Hw (concat values) _ Hw Fb) as Hf. eapply Forall_impl; [|exact Hf].
    intros [l v] [H1 H2]. unfold wr_ok. cbn [fst snd] in *. lia. }
  apply (decode_values_spec c ws Hwr Hw values false _ [] []); auto.
  - cbn [app]. rewrite app_nil_r. unfold ws. apply enc_fields_values; assumption.
  - cbn [stream_len]. apply br_at_init.
    destruct bw_inv_init as (I0 & _ & _). destruct (bw_writes_spec ws bitw_init 0 I0 Hwr) as (hi & I & _ & _).
    apply (bw_flush_spec _ hi I).
Qed.

(** * C. the value algebra: per byte, model = documented projection *)
Definition byteof (x k : Z) : Z := Z.land (Z.shiftr x k) 255.

Lemma byteof_land x y k : byteof (Z.land x y) k = Z.land (byteof x k) (byteof y k).
Proof.
  unfold byteof. rewrite Z.shiftr_land. apply Z.bits_inj'. intros n Hn. rewrite !Z.land_spec.
  destruct (Z.testbit (Z.shiftr x k) n), (Z.testbit (Z.shiftr y k) n), (Z.testbit 255 n); reflexivity.
Qed.
Lemma byteof_lor x y k : byteof (Z.lor x y) k = Z.lor (byteof x k) (byteof y k).
Proof. unfold byteof. rewrite Z.shiftr_lor. apply Z.land_lor_distr_l. Qed.

Lemma nth_map_zseq_from {A} (f : Z -> A) d : forall n a i, (i < n)%nat -> nth i (map f (zseq_from a n)) d = f (a + Z.of_nat i).
Proof.
  induction n as [|n IH]; intros a i H; [lia|]. destruct i as [|i]; cbn [zseq_from map nth].
  - f_equal. lia.
  - rewrite IH by lia. f_equal. lia.
Qed.
Lemma zseq_from_length' a n : length (zseq_from a n) = n.
Proof. revert a. induction n; intros a; cbn; auto. Qed.
Lemma tab_be_bytes size v i : 0 <= i < size -> tab (be_bytes size v) i = byteof v (8 * (size - 1 - i)).
Proof.
  intros H. unfold tab, be_bytes, zseq. rewrite nth_map_zseq_from by lia. unfold byteof. rewrite Z2Nat.id by lia. reflexivity.
Qed.
Lemma zlen_be_bytes' size v : 0 <= size -> zlen (be_bytes size v) = size.
Proof. intros. unfold zlen, be_bytes, zseq. rewrite map_length, zseq_from_length'. lia. Qed.

(** byte i of the big-endian value of a byte list is the list's byte i *)
Lemma byteof_drop_high x h r k : 0 <= k -> k + 8 <= h -> byteof (x * 2 ^ h + r) k = byteof r k.
Proof.
  intros Hk Hh. unfold byteof. rewrite !land255, !shiftr_div by lia.
  replace (2 ^ h) with (2 ^ (h - k - 8) * 256 * 2 ^ k)
    by (change 256 with (2 ^ 8); rewrite <- !pow2_add by lia; f_equal; lia).
  pose proof (pow2_pos k Hk).
  replace (x * (2 ^ (h - k - 8) * 256 * 2 ^ k) + r) with ((x * 2 ^ (h - k - 8) * 256) * 2 ^ k + r) by ring.
  rewrite Z.div_add_l by lia. rewrite Z.add_comm, Z.mod_add by lia. reflexivity.
Qed.

Lemma byteof_be_value : forall vs i, Forall byte vs -> (i < length vs)%nat ->
  byteof (be_value vs) (8 * (zlen vs - 1 - Z.of_nat i)) = nth i vs 0.
Proof.
  induction vs as [|x t IH]; intros i Hb Hi; [cbn in Hi; lia|].
  apply Forall_cons_iff in Hb. destruct Hb as [Hx Ht]. unfold byte in Hx.
  rewrite be_value_cons, zlen_cons. pose proof (zlen_nonneg t) as Hn. pose proof (be_value_bound t Ht) as Bt.
  destruct i as [|i]; cbn [nth].
  - replace (8 * (1 + zlen t - 1 - Z.of_nat 0)) with (8 * zlen t) by lia. unfold byteof.
    rewrite land255, shiftr_div by lia. rewrite <- W_pow. rewrite div_add_small by lia. apply Z.mod_small. lia.
  - rewrite W_pow. rewrite byteof_drop_high by (cbn in Hi; unfold zlen in *; lia).
    replace (1 + zlen t - 1 - Z.of_nat (S i)) with (zlen t - 1 - Z.of_nat i) by lia. apply IH; auto. cbn in Hi. lia.
Qed.

Lemma testbit_byteof x K k : 0 <= K -> 0 <= k < 8 -> Z.testbit (byteof x K) k = Z.testbit x (K + k).
Proof.
  intros HK Hk. unfold byteof. rewrite Z.land_spec, Z.shiftr_spec by lia. change 255 with (Z.ones 8).
  rewrite Z.ones_spec_low by lia. rewrite andb_true_r. f_equal. lia.
Qed.

(** at a known bit of b the form (b land A) lor B can be normalised *)
Definition norm_k (k : Z) (s : bool) (ab : Z * Z) : Z * Z :=
  (Z.land (fst ab) (Z.lnot (2 ^ k)), if s && Z.testbit (fst ab) k then Z.lor (snd ab) (2 ^ k) else snd ab).
Lemma norm_k_ok b k A B : 0 <= k ->
  Z.lor (Z.land b A) B = Z.lor (Z.land b (fst (norm_k k (Z.testbit b k) (A, B)))) (snd (norm_k k (Z.testbit b k) (A, B))).
Proof.
  intros Hk. unfold norm_k. cbn [fst snd]. apply Z.bits_inj'. intros n Hn.
  destruct (Z.eq_dec k n) as [E|Ne].
  - subst n. destruct (Z.testbit b k) eqn:Eb; destruct (Z.testbit A k) eqn:Ea; cbn [andb];
      rewrite ?Z.lor_spec, ?Z.land_spec, ?Z.lnot_spec, ?Z.pow2_bits_eqb by lia; rewrite ?Z.eqb_refl, ?Eb, ?Ea;
      destruct (Z.testbit B k); reflexivity.
  - destruct (Z.testbit b k && Z.testbit A k);
      rewrite ?Z.lor_spec, ?Z.land_spec, ?Z.lnot_spec, ?Z.pow2_bits_eqb by lia;
      destruct (Z.eqb_spec k n); try contradiction;
      destruct (Z.testbit b n), (Z.testbit A n), (Z.testbit B n); reflexivity.
Qed.

(** the pure decoder, index-wise *)
Lemma dec_bytes_pure_nth : forall mis mbuf vs i, length mbuf = length mis -> length vs = length mis -> (i < length mis)%nat ->
  nth i (dec_bytes_pure mis mbuf vs) 0 = dec_byte (nth i mis mi_zero) (nth i mbuf 0) (nth i vs 0).
Proof.
  induction mis as [|mi mt IH]; intros mbuf vs i Lm Lv Hi; [cbn in Hi; lia|].
  destruct mbuf as [|m bt]; [discriminate|]. destruct vs as [|b vt]; [discriminate|].
  destruct i as [|i]; cbn [dec_bytes_pure nth]; [reflexivity|]. apply IH; cbn in *; lia.
Qed.
Lemma dec_bytes_pure_length : forall mis mbuf vs, length mbuf = length mis -> length vs = length mis ->
  length (dec_bytes_pure mis mbuf vs) = length mis.
Proof.
  induction mis as [|mi mt IH]; intros mbuf vs Lm Lv; [reflexivity|].
  destruct mbuf as [|m bt]; [discriminate|]. destruct vs as [|b vt]; [discriminate|].
  cbn [dec_bytes_pure length]. f_equal. apply IH; cbn in *; lia.
Qed.

Lemma dec_sign_at sign_byte sign_mask : forall mis vs j, length vs = length mis ->
  0 <= sign_byte - j -> (Z.to_nat (sign_byte - j) < length mis)%nat ->
  0 < mi_len (nth (Z.to_nat (sign_byte - j)) mis mi_zero) ->
  dec_sign mis vs j sign_byte sign_mask =
  (negb (Z.land sign_mask (sh_of (nth (Z.to_nat (sign_byte - j)) mis mi_zero) (nth (Z.to_nat (sign_byte - j)) vs 0)) =? 0), true).
Proof.
  induction mis as [|mi mt IH]; intros vs j Lv H0 Hi Hlen; [cbn in Hi; lia|].
  destruct vs as [|b vt]; [discriminate|]. cbn [dec_sign].
  destruct (Z.eq_dec j sign_byte) as [->|Ne].
  - replace (sign_byte - sign_byte) with 0 in * by lia. cbn [Z.to_nat nth] in *.
    destruct (dec_sign mt vt (sign_byte + 1) sign_byte sign_mask) as [sb seen].
    destruct (Z.ltb_spec 0 (mi_len mi)); [|lia]. rewrite Z.eqb_refl. reflexivity.
  - assert (Z.to_nat (sign_byte - j) = S (Z.to_nat (sign_byte - (j + 1)))) as En by lia.
    rewrite En in *. cbn [nth] in *.
    rewrite (IH vt (j + 1)); try (cbn in *; lia); auto.
    destruct (Z.eqb_spec j sign_byte); [contradiction|]. rewrite andb_false_r. reflexivity.
Qed.

Lemma nth_combine_zseq {B} (l : list B) d : forall a i, (i < length l)%nat ->
  nth i (combine (zseq_from a (length l)) l) (0, d) = (a + Z.of_nat i, nth i l d).
Proof.
  induction l as [|x t IH]; intros a i H; [cbn in H; lia|]. destruct i as [|i]; cbn [length zseq_from combine nth].
  - f_equal. lia.
  - rewrite IH by (cbn in H; lia). f_equal. lia.
Qed.

Lemma sign_extend_nth c bytes sbit i : (i < length bytes)%nat ->
  nth i (nbit_sign_extend c bytes sbit) 0 =
  let b := nth i bytes 0 in let j := Z.of_nat i in
  let sext := CompCodecModel.u8 (Z.lnot (tab mask_arr32 (nb_off c mod 8))) in
  if Bool.eqb sbit (nb_fill c) then b
  else if j <? nb_sign_byte c then (if sbit then 255 else 0)
  else if j =? nb_sign_byte c then (if sbit then Z.lor b sext else Z.land b (CompCodecModel.u8 (Z.lnot sext)))
  else b.
Proof.
  intros Hi. unfold nbit_sign_extend. fold (nb_sign_byte c). cbv zeta. destruct (Bool.eqb sbit (nb_fill c)); [reflexivity|].
  unfold zseq, zlen. rewrite Nat2Z.id.
  set (g := fun '(j, b) => _). rewrite (nth_indep _ 0 (g (0, 0))) by (rewrite map_length, combine_length, zseq_from_length'; lia).
  rewrite map_nth. rewrite nth_combine_zseq by assumption. unfold g. rewrite Z.add_0_l. reflexivity.
Qed.
Lemma sign_extend_length c bytes sbit : length (nbit_sign_extend c bytes sbit) = length bytes.
Proof.
  unfold nbit_sign_extend. cbv zeta. destruct (Bool.eqb sbit (nb_fill c)); [reflexivity|].
  rewrite map_length, combine_length. unfold zseq, zlen. rewrite zseq_from_length', Nat2Z.id. lia.
Qed.

(** ** finite facts: per mask entry, per configuration *)
Definition entry_sign_case (off len b : Z) : bool :=
  let mi := mk_mi off len (nbit_byte_mask off len) in
  Bool.eqb (negb (Z.land (Z.lxor (tab mask_arr32 (off + 1)) (tab mask_arr32 off)) (sh_of mi b) =? 0)) (Z.testbit b off).
Definition entry_sign_sweep : bool :=
  forallb (fun off => forallb (fun len => if (1 <=? len) && (len <=? off + 1) then
     forallb (fun b => entry_sign_case off len b) (zseq 256) else true) (zseq 9)) (zseq 8).
Lemma entry_sign_sweep_ok : entry_sign_sweep = true.
Proof. vm_compute. reflexivity. Qed.
Lemma entry_sign_lemma off len b : 0 <= off < 8 -> 1 <= len <= off + 1 -> 0 <= b < 256 -> entry_sign_case off len b = true.
Proof.
  intros Ho Hl Hb. pose proof entry_sign_sweep_ok as H. unfold entry_sign_sweep in H.
  pose proof (zrange_forall _ 8 H off Ho) as K1. cbv beta in K1.
  pose proof (zrange_forall _ 9 K1 len ltac:(lia)) as K2. cbv beta in K2.
  destruct (Z.leb_spec 1 len); [|lia]. destruct (Z.leb_spec len (off + 1)); [|lia]. cbn [andb] in K2.
  exact (zrange_forall _ 256 K2 b Hb).
Qed.

Definition nf_byte (se fill s : bool) (sign_byte sext j mask m : Z) : Z * Z :=
  if se && negb (Bool.eqb s fill) then
    if j <? sign_byte then (0, if s then 255 else 0)
    else if j =? sign_byte then (if s then (mask, Z.lor m sext)
                                 else (Z.land mask (CompCodecModel.u8 (Z.lnot sext)), Z.land m (CompCodecModel.u8 (Z.lnot sext))))
    else (mask, m)
  else (mask, m).
Definition spec_K (size start len : Z) (hi fill : bool) : Z :=
  Z.lor (if hi then nbit_high_mask size start else 0) (if fill then nbit_low_mask start len else 0).
Definition pair_eqb (a b : Z * Z) : bool := (fst a =? fst b) && (snd a =? snd b).
Definition cfg_check (size start len : Z) (se fill s : bool) : bool :=
  let c := mk_nbit size start len se fill in
  let sb := size - (start / 8 + 1) in
  let sext := CompCodecModel.u8 (Z.lnot (tab mask_arr32 (start mod 8))) in
  let hi := if se then s else fill in
  forallb (fun i =>
      let a := nf_byte se fill s sb sext i (mi_mask (nth (Z.to_nat i) (nbit_mask_info c) mi_zero)) (tab (nbit_mask_buf c) i) in
      let b := (tab (be_bytes size (nbit_field_mask start len)) i, tab (be_bytes size (spec_K size start len hi fill)) i) in
      if i =? sb then pair_eqb (norm_k (start mod 8) s a) (norm_k (start mod 8) s b) else pair_eqb a b)
          (zseq size)
  && (0 <=? sb) && (sb <? size)
  && (0 <? mi_len (nth (Z.to_nat sb) (nbit_mask_info c) mi_zero))
  && (mi_off (nth (Z.to_nat sb) (nbit_mask_info c) mi_zero) =? start mod 8)
  && forallb (fun mi => (0 <? mi_len mi) || (mi_mask mi =? 0)) (nbit_mask_info c).
Definition cfg_check8 (size start len : Z) : bool :=
  cfg_check size start len false false false && cfg_check size start len false false true &&
  cfg_check size start len false true false && cfg_check size start len false true true &&
  cfg_check size start len true false false && cfg_check size start len true false true &&
  cfg_check size start len true true false && cfg_check size start len true true true.
Lemma all_check_ok :
  forallb (fun size => forallb (fun start => forallb (fun len =>
     if (1 <=? len) && (len <=? start + 1) then cfg_check8 size start len else true)
     (zseq (8 * size + 1))) (zseq (8 * size))) [1; 2; 4; 8] = true.
Proof. vm_compute. reflexivity. Qed.
Lemma cfg_check8_lemma size start len :
  In size [1; 2; 4; 8] -> 0 <= start < 8 * size -> 1 <= len <= start + 1 -> cfg_check8 size start len = true.
Proof.
  intros Hs Hst Hl. pose proof all_check_ok as H. rewrite forallb_forall in H. specialize (H size Hs).
  pose proof (zrange_forall _ (8 * size) H start Hst) as K1. cbv beta in K1.
  assert (Hl2 : 0 <= len < 8 * size + 1) by lia.
  pose proof (zrange_forall _ (8 * size + 1) K1 len Hl2) as K2. cbv beta in K2.
  assert (E : (1 <=? len) && (len <=? start + 1) = true) by (rewrite andb_true_iff, !Z.leb_le; lia).
  rewrite E in K2. exact K2.
Qed.
Lemma cfg_check_lemma size start len se fill s :
  In size [1; 2; 4; 8] -> 0 <= start < 8 * size -> 1 <= len <= start + 1 -> cfg_check size start len se fill s = true.
Proof.
  intros Hs Hst Hl. pose proof (cfg_check8_lemma size start len Hs Hst Hl) as H. unfold cfg_check8 in H.
  rewrite !andb_true_iff in H. destruct se, fill, s; tauto.
Qed.

