(** C12 -- proofs about the bit-vector model (bitvect.c). *)
From Coq Require Import ZArith List Bool Lia.
Require Import H4.gen.Gen_DD H4.DDBvModel.
Import ListNotations.
Local Open Scope Z_scope.

(** the generated table bv_first_zero: entry x is the least clear bit of x, for all 256 byte values *)
Definition first_zero_ok (x : Z) : bool :=
  let k := tbl bv_first_zero x in
  (0 <=? k) && (k <=? 8) && negb (Z.testbit x k) &&
  forallb (fun j => Z.testbit x (Z.of_nat j)) (seq 0 (Z.to_nat k)).

Lemma first_zero_table_sweep : forallb first_zero_ok (map Z.of_nat (seq 0 256)) = true.
Proof. vm_compute. reflexivity. Qed.

Lemma first_zero_table_lemma : forall x, 0 <= x < 256 ->
  let k := tbl bv_first_zero x in
  0 <= k <= 8 /\ Z.testbit x k = false /\ forall j, 0 <= j < k -> Z.testbit x j = true.
Proof.
  intros x Hx k.
  assert (Hin : In x (map Z.of_nat (seq 0 256))).
  { apply in_map_iff. exists (Z.to_nat x). split; [lia|]. apply in_seq. lia. }
  pose proof (proj1 (forallb_forall _ _) first_zero_table_sweep x Hin) as H.
  unfold first_zero_ok in H. fold k in H.
  repeat rewrite andb_true_iff in H. destruct H as [[[H0 H8] Hk] Hall].
  apply Z.leb_le in H0. apply Z.leb_le in H8. apply negb_true_iff in Hk.
  repeat split; auto.
  intros j Hj. rewrite forallb_forall in Hall.
  specialize (Hall (Z.to_nat j)). rewrite Z2Nat.id in Hall by lia. apply Hall. apply in_seq. lia.
Qed.
