(** C12 -- proofs about the bit-vector model (bitvect.c). *)
From Coq Require Import ZArith List Bool Lia.
Require Import H4.gen.Gen_DD H4.DDBvModel.
Import ListNotations.
Local Open Scope Z_scope.

(** the generated table bv_first_zero: entry x is the least clear bit of x, for all 256 byte values *)
Definition first_zero_ok (x : Z) : bool :=
  let k := tbl bv_first_zero x in
  (0 <=? k) && (k <=? 8) && negb (Z.testbit x k) &&
  forallb (fun j => Z.testbit x (Z.of_nat j)) (seq 0 (Z.to_nat k)).

Lemma first_zero_table_sweep : forallb first_zero_ok (map Z.of_nat (seq 0 256)) = true.
Proof. vm_compute. reflexivity. Qed.

Lemma first_zero_table_lemma : forall x, 0 <= x < 256 ->
  let k := tbl bv_first_zero x in
  0 <= k <= 8 /\ Z.testbit x k = false /\ forall j, 0 <= j < k -> Z.testbit x j = true.
Proof.
  intros x Hx k.
  assert (Hin : In x (map Z.of_nat (seq 0 256))).
  { apply in_map_iff. exists (Z.to_nat x). split; [lia|]. apply in_seq. lia. }
  pose proof (proj1 (forallb_forall _ _) first_zero_table_sweep x Hin) as H.
  unfold first_zero_ok in H. fold k in H.
  repeat rewrite andb_true_iff in H. destruct H as [[[H0 H8] Hk] Hall].
  apply Z.leb_le in H0. apply Z.leb_le in H8. apply negb_true_iff in Hk.
  repeat split; auto.
  intros j Hj. rewrite forallb_forall in Hall.
  specialize (Hall (Z.to_nat j)). rewrite Z2Nat.id in Hall by lia. apply Hall. apply in_seq. lia.
Qed.

(* ------------------------------------------------------------------------------------------ *)
(** * Bytes, bits *)

Definition byte_ok (x : Z) : Prop := 0 <= x /\ forall j, 8 <= j -> Z.testbit x j = false.

Lemma byte_ok_lt : forall x, byte_ok x -> 0 <= x < 256.
Proof.
  intros x [H0 Hb]. split; auto.
  destruct (Z_lt_ge_dec x 256) as [|Hge]; auto. exfalso.
  assert (Hl : 8 <= Z.log2 x) by (change 8 with (Z.log2 256); apply Z.log2_le_mono; lia).
  pose proof (Z.bit_log2 x ltac:(lia)) as Hbl. rewrite (Hb _ Hl) in Hbl. discriminate.
Qed.

Lemma lt_byte_ok : forall x, 0 <= x < 256 -> byte_ok x.
Proof.
  intros x Hx. split; [lia|]. intros j Hj.
  destruct (Z.eq_dec x 0) as [->|]; [apply Z.bits_0|].
  apply Z.bits_above_log2; [lia|].
  assert (Z.log2 x < 8); [|lia]. apply Z.log2_lt_pow2; [lia|]. simpl. lia.
Qed.

Lemma testbit_255 : forall j, 0 <= j < 8 -> Z.testbit 255 j = true.
Proof. intros j Hj. assert (j = 0 \/ j = 1 \/ j = 2 \/ j = 3 \/ j = 4 \/ j = 5 \/ j = 6 \/ j = 7) by lia.
  intuition subst; reflexivity. Qed.

Lemma all_bits_255 : forall x, byte_ok x -> (forall j, 0 <= j < 8 -> Z.testbit x j = true) -> x = 255.
Proof.
  intros x [H0 Hb] Hall. apply Z.bits_inj'. intros n Hn.
  destruct (Z_lt_ge_dec n 8).
  - rewrite Hall, testbit_255; auto; lia.
  - rewrite Hb by lia. symmetry. apply (proj2 (lt_byte_ok 255 ltac:(lia))). lia.
Qed.

Lemma bit_value_pow : forall e, 0 <= e < 8 -> tbl bv_bit_value e = 2 ^ e.
Proof. intros e He. assert (e = 0 \/ e = 1 \/ e = 2 \/ e = 3 \/ e = 4 \/ e = 5 \/ e = 6 \/ e = 7) by lia.
  intuition subst; reflexivity. Qed.

Lemma bit_mask_ones : forall n, 0 <= n <= 8 -> tbl bv_bit_mask n = Z.ones n.
Proof. intros n Hn. assert (n = 0 \/ n = 1 \/ n = 2 \/ n = 3 \/ n = 4 \/ n = 5 \/ n = 6 \/ n = 7 \/ n = 8) by lia.
  intuition subst; reflexivity. Qed.

Lemma testbit_pow2 : forall e j, 0 <= e -> 0 <= j -> Z.testbit (2 ^ e) j = (j =? e).
Proof.
  intros e j He Hj. destruct (Z.eqb_spec j e) as [->|Hne].
  - apply Z.pow2_bits_true; lia.
  - apply Z.pow2_bits_false; lia.
Qed.

(* ------------------------------------------------------------------------------------------ *)
(** * Lists of bytes *)

Lemma byte_at_set_nth : forall l k v j, (k < length l)%nat -> 0 <= j ->
  byte_at (set_nth l k v) j = if (j =? Z.of_nat k) then v else byte_at l j.
Proof.
  unfold byte_at. induction l as [|x l IH]; intros k v j Hk Hj; [simpl in Hk; lia|].
  destruct k as [|k]; simpl.
  - destruct (Z.eqb_spec j 0) as [->|Hne]; [reflexivity|].
    destruct (Z.to_nat j) eqn:E; [lia|reflexivity].
  - destruct (Z.to_nat j) as [|n] eqn:E.
    + destruct (Z.eqb_spec j (Z.pos (Pos.of_succ_nat k))); [lia|reflexivity].
    + simpl in Hk. specialize (IH k v (Z.of_nat n) ltac:(lia) ltac:(lia)).
      rewrite Nat2Z.id in IH. rewrite IH.
      destruct (Z.eqb_spec (Z.of_nat n) (Z.of_nat k)), (Z.eqb_spec j (Z.pos (Pos.of_succ_nat k))); try reflexivity; lia.
Qed.

Lemma set_nth_length : forall l k v, length (set_nth l k v) = length l.
Proof. induction l; intros [|k] v; simpl; auto. Qed.

Lemma Forall_set_nth : forall (P : Z -> Prop) l k v, Forall P l -> P v -> Forall P (set_nth l k v).
Proof.
  induction l as [|x l IH]; intros k v Hl Hv; destruct k; simpl; try constructor; inversion Hl; subst; auto.
Qed.

Lemma byte_at_app_zeros : forall l n j, byte_at (l ++ repeat 0 n) j = byte_at l j.
Proof.
  unfold byte_at. intros l n j. destruct (Nat.lt_ge_cases (Z.to_nat j) (length l)).
  - apply app_nth1; auto.
  - rewrite app_nth2 by auto. rewrite (nth_overflow l) by auto.
    destruct (Nat.lt_ge_cases (Z.to_nat j - length l) n).
    + apply nth_repeat.
    + apply nth_overflow. rewrite repeat_length. auto.
Qed.

Lemma byte_at_Forall : forall (P : Z -> Prop) l j, Forall P l -> P 0 -> P (byte_at l j).
Proof.
  unfold byte_at. intros P l j Hl H0. destruct (Nat.lt_ge_cases (Z.to_nat j) (length l)).
  - rewrite Forall_forall in Hl. apply Hl. apply nth_In. auto.
  - rewrite nth_overflow; auto.
Qed.

Lemma byte_ok_0 : byte_ok 0.
Proof. split; [lia|]. intros. apply Z.bits_0. Qed.

(* ------------------------------------------------------------------------------------------ *)
(** * Well-formed bit-vectors *)

Record bv_wf (b : bv) : Prop := {
  wf_bytes : Forall byte_ok (buffer b);
  wf_used : 0 < bits_used b <= 8 * array_size b;
  wf_lz : 0 <= last_zero b <= bits_used b / 8;
  wf_full : forall j, 0 <= j < last_zero b -> byte_at (buffer b) j = 255;
  wf_clear : forall n, bits_used b <= n -> bv_bit b n = false
}.

Lemma bv_bit_split : forall b i k, 0 <= i -> 0 <= k < 8 ->
  bv_bit b (i * 8 + k) = Z.testbit (byte_at (buffer b) i) k.
Proof.
  intros b i k Hi Hk. unfold bv_bit.
  replace ((i * 8 + k) / 8) with i by (apply Z.div_unique with k; lia).
  replace ((i * 8 + k) mod 8) with k by (apply Z.mod_unique with i; lia).
  reflexivity.
Qed.

Lemma bv_bit_full : forall b n, 0 <= n -> byte_at (buffer b) (n / 8) = 255 -> bv_bit b n = true.
Proof. intros b n Hn H. unfold bv_bit. rewrite H. apply testbit_255. apply Z.mod_pos_bound. lia. Qed.

(** bv_new gives a well-formed, all-clear vector *)
Lemma bv_new_wf : forall nb b, bv_new nb = Some b -> bv_wf b /\ forall n, bv_bit b n = false.
Proof.
  unfold bv_new. intros nb b H.
  destruct ((nb <? -1) || (nb =? 0)) eqn:E; [discriminate|]. apply orb_false_iff in E. destruct E as [E1 E2].
  apply Z.ltb_ge in E1. apply Z.eqb_neq in E2. inversion H; subst; clear H.
  set (n := if nb =? -1 then BV_DEFAULT_BITS else nb).
  assert (Hn : 0 < n) by (unfold n, BV_DEFAULT_BITS; destruct (Z.eqb_spec nb (-1)); lia).
  assert (Hbit : forall m, bv_bit (mkbv n 0 (repeat 0 (Z.to_nat ((
       (if 0 <? n mod BV_BASE_BITS then n / BV_BASE_BITS + 1 else n / BV_BASE_BITS) / BV_CHUNK_SIZE + 1) * BV_CHUNK_SIZE)))) m = false).
  { intros m. unfold bv_bit, byte_at. simpl.
    match goal with |- Z.testbit (nth ?a (repeat 0 ?c) 0) _ = _ => 
      assert (Hz : nth a (repeat 0 c) 0 = 0) end.
    { match goal with |- nth ?a (repeat 0 ?c) 0 = 0 => destruct (Nat.lt_ge_cases a c) end.
      - apply nth_repeat. - apply nth_overflow. rewrite repeat_length. auto. }
    rewrite Hz. apply Z.bits_0. }
  split; [|exact Hbit].
  constructor; cbn [buffer bits_used last_zero].
  - apply Forall_forall. intros x Hx. apply repeat_spec in Hx. subst. apply byte_ok_0.
  - unfold array_size. cbn [buffer]. rewrite repeat_length. unfold BV_BASE_BITS, BV_CHUNK_SIZE.
    split; [lia|].
    assert (Hq : 0 <= n / 8) by (apply Z.div_pos; lia).
    pose proof (Z.div_mod n 8 ltac:(lia)). pose proof (Z.mod_pos_bound n 8 ltac:(lia)).
    destruct (0 <? n mod 8).
    + pose proof (Z.div_mod (n / 8 + 1) 64 ltac:(lia)). pose proof (Z.mod_pos_bound (n / 8 + 1) 64 ltac:(lia)).
      assert (0 <= (n / 8 + 1) / 64) by (apply Z.div_pos; lia). rewrite Z2Nat.id by lia. lia.
    + pose proof (Z.div_mod (n / 8) 64 ltac:(lia)). pose proof (Z.mod_pos_bound (n / 8) 64 ltac:(lia)).
      assert (0 <= (n / 8) / 64) by (apply Z.div_pos; lia). rewrite Z2Nat.id by lia. lia.
  - split; [lia|]. apply Z.div_pos; lia.
  - intros; lia.
  - intros; apply Hbit.
Qed.

(* ------------------------------------------------------------------------------------------ *)
(** * bv_set *)

Lemma bv_extend_spec : forall b n, bv_wf b -> 0 <= n ->
  let b1 := bv_extend b n in
  bv_wf b1 /\ (forall m, bv_bit b1 m = bv_bit b m) /\ n < bits_used b1 /\ n / 8 < array_size b1 /\
  last_zero b1 = last_zero b /\ bits_used b <= bits_used b1.
Proof.
  intros b n [Wb Wu Wl Wf Wc] Hn. unfold bv_extend, BV_BASE_BITS, BV_CHUNK_SIZE.
  assert (Hq : 0 <= n / 8) by (apply Z.div_pos; lia).
  pose proof (Z.div_mod n 8 ltac:(lia)) as Hdm. pose proof (Z.mod_pos_bound n 8 ltac:(lia)) as Hmb.
  destruct (Z.geb_spec n (bits_used b)) as [Hge|Hlt].
  2:{ cbv zeta. repeat split; auto; try lia. }
  destruct (Z.ltb_spec (n / 8) (array_size b)) as [Hin|Hout]; cbv zeta.
  - split; [|repeat split; cbn [buffer bits_used last_zero]; auto; try lia].
    constructor; cbn [buffer bits_used last_zero]; auto.
    + unfold array_size in *. cbn [buffer]. lia.
    + split; [lia|]. etransitivity; [apply Wl|]. apply Z.div_le_mono; lia.
    + intros m Hm. apply Wc. lia.
  - set (nc := (n / 8 + 1 - array_size b) / 64 + 1).
    assert (Hnc : 0 < nc /\ n / 8 < array_size b + nc * 64).
    { unfold nc. pose proof (Z.div_mod (n / 8 + 1 - array_size b) 64 ltac:(lia)).
      pose proof (Z.mod_pos_bound (n / 8 + 1 - array_size b) 64 ltac:(lia)).
      assert (0 <= (n / 8 + 1 - array_size b) / 64) by (apply Z.div_pos; lia). lia. }
    assert (Hbit : forall m, bv_bit (mkbv (n + 1) (last_zero b) (buffer b ++ repeat 0 (Z.to_nat (nc * 64)))) m = bv_bit b m).
    { intros m. unfold bv_bit. cbn [buffer]. rewrite byte_at_app_zeros. reflexivity. }
    assert (Has : array_size (mkbv (n + 1) (last_zero b) (buffer b ++ repeat 0 (Z.to_nat (nc * 64)))) = array_size b + nc * 64).
    { unfold array_size. cbn [buffer]. rewrite app_length, repeat_length. lia. }
    split; [|repeat split; cbn [bits_used last_zero]; auto; try lia].
    constructor; cbn [bits_used last_zero]; try rewrite Has; auto; try lia.
    + cbn [buffer]. apply Forall_app. split; auto. apply Forall_forall. intros x Hx.
      apply repeat_spec in Hx. subst. apply byte_ok_0.
    + split; [lia|]. etransitivity; [apply Wl|]. apply Z.div_le_mono; lia.
    + intros j Hj. cbn [buffer]. rewrite byte_at_app_zeros. auto.
    + intros m Hm. rewrite Hbit. apply Wc. lia.
Qed.

Lemma div_mod_8_eq : forall m n, 0 <= m -> 0 <= n -> m / 8 = n / 8 -> m mod 8 = n mod 8 -> m = n.
Proof. intros m n Hm Hn Hd Hr. pose proof (Z.div_mod m 8 ltac:(lia)). pose proof (Z.div_mod n 8 ltac:(lia)). lia. Qed.

Lemma lor_pow2_byte : forall x e, byte_ok x -> 0 <= e < 8 -> byte_ok (Z.lor x (2 ^ e)).
Proof.
  intros x e [H0 Hb] He. split.
  - apply Z.lor_nonneg. split; [lia|]. apply Z.pow_nonneg; lia.
  - intros j Hj. rewrite Z.lor_spec, Hb by lia. rewrite testbit_pow2 by lia.
    destruct (Z.eqb_spec j e); [lia|reflexivity].
Qed.

Lemma land_lnot_byte : forall x y, byte_ok x -> byte_ok (Z.land x (Z.lnot y)).
Proof.
  intros x y [H0 Hb]. split.
  - apply Z.land_nonneg. left. lia.
  - intros j Hj. rewrite Z.land_spec, Hb by lia. reflexivity.
Qed.

(** bv_set: always succeeds on a well-formed vector and a non-negative bit number; sets exactly that bit *)
Lemma bv_set_spec : forall b n v, bv_wf b -> 0 <= n -> (v = BV_TRUE \/ v = BV_FALSE) ->
  exists b', bv_set b n v = Some b' /\ bv_wf b' /\
             (forall m, 0 <= m -> bv_bit b' m = if m =? n then (v =? BV_TRUE) else bv_bit b m) /\
             bits_used b <= bits_used b'.
Proof.
  intros b n v W Hn Hv. unfold bv_set. destruct (Z.ltb_spec n 0) as [|_]; [lia|].
  destruct (bv_extend_spec b n W Hn) as (W1 & Hbits & Hlt & Hin & Hlz & Hmono).
  set (b1 := bv_extend b n) in *. unfold BV_BASE_BITS.
  assert (Hq : 0 <= n / 8) by (apply Z.div_pos; lia).
  pose proof (Z.mod_pos_bound n 8 ltac:(lia)) as Hmb.
  rewrite bit_value_pow by lia.
  destruct W1 as [Wb Wu Wl Wf Wc].
  assert (Hk : (Z.to_nat (n / 8) < length (buffer b1))%nat) by (unfold array_size in Hin; lia).
  assert (Hold : byte_ok (byte_at (buffer b1) (n / 8))) by (apply byte_at_Forall; auto using byte_ok_0).
  assert (Hbitset : forall newb, (forall j, 0 <= j < 8 -> Z.testbit newb j =
                      if j =? n mod 8 then (v =? BV_TRUE) else Z.testbit (byte_at (buffer b1) (n / 8)) j) ->
            forall lz m, 0 <= m ->
            bv_bit (mkbv (bits_used b1) lz (set_nth (buffer b1) (Z.to_nat (n / 8)) newb)) m =
            if m =? n then (v =? BV_TRUE) else bv_bit b m).
  { intros newb Hnew lz m Hm. unfold bv_bit at 1. cbn [buffer].
    assert (0 <= m / 8) by (apply Z.div_pos; lia). pose proof (Z.mod_pos_bound m 8 ltac:(lia)).
    rewrite byte_at_set_nth by (auto; lia). rewrite Z2Nat.id by lia.
    destruct (Z.eqb_spec (m / 8) (n / 8)) as [Hd|Hd].
    - rewrite Hnew by lia. destruct (Z.eqb_spec (m mod 8) (n mod 8)) as [Hr|Hr].
      + rewrite (div_mod_8_eq m n) by auto. rewrite Z.eqb_refl. reflexivity.
      + destruct (Z.eqb_spec m n) as [->|_]; [lia|]. rewrite <- Hbits. unfold bv_bit. rewrite Hd. reflexivity.
    - destruct (Z.eqb_spec m n) as [->|_]; [lia|]. rewrite <- Hbits. reflexivity. }
  destruct Hv as [-> | ->]; unfold BV_TRUE, BV_FALSE; cbn [Z.eqb].
  - (* set *)
    eexists. split; [reflexivity|].
    assert (Hnewbits : forall j, 0 <= j < 8 -> Z.testbit (Z.lor (byte_at (buffer b1) (n / 8)) (2 ^ (n mod 8))) j =
                if j =? n mod 8 then true else Z.testbit (byte_at (buffer b1) (n / 8)) j).
    { intros j Hj. rewrite Z.lor_spec, testbit_pow2 by lia. destruct (Z.eqb_spec j (n mod 8)); [apply orb_true_r|apply orb_false_r]. }
    split; [|split].
    + constructor; cbn [buffer bits_used last_zero]; auto.
      * apply Forall_set_nth; auto. apply lor_pow2_byte; auto.
      * unfold array_size in *. cbn [buffer]. rewrite set_nth_length. auto.
      * intros j Hj. rewrite byte_at_set_nth by (auto; lia). rewrite Z2Nat.id by lia.
        destruct (Z.eqb_spec j (n / 8)) as [->|]; auto.
        rewrite (Wf _ Hj). apply all_bits_255. { apply lor_pow2_byte; auto. rewrite <- (Wf _ Hj). auto. }
        intros i Hi. rewrite Z.lor_spec, testbit_255 by lia. reflexivity.
      * intros m Hm. rewrite (Hbitset _ Hnewbits) by lia. destruct (Z.eqb_spec m n); [lia|].
        rewrite <- Hbits. apply Wc. auto.
    + intros m Hm. apply (Hbitset _ Hnewbits). auto.
    + cbn [bits_used]. auto.
  - (* clear *)
    eexists. split; [reflexivity|].
    assert (Hnewbits : forall j, 0 <= j < 8 -> Z.testbit (Z.land (byte_at (buffer b1) (n / 8)) (Z.lnot (2 ^ (n mod 8)))) j =
                if j =? n mod 8 then false else Z.testbit (byte_at (buffer b1) (n / 8)) j).
    { intros j Hj. rewrite Z.land_spec, Z.lnot_spec, testbit_pow2 by lia.
      destruct (Z.eqb_spec j (n mod 8)); [apply andb_false_r|apply andb_true_r]. }
    split; [|split].
    + constructor; cbn [buffer bits_used last_zero]; auto.
      * apply Forall_set_nth; auto. apply land_lnot_byte; auto.
      * unfold array_size in *. cbn [buffer]. rewrite set_nth_length. auto.
      * destruct (Z.ltb_spec (n / 8) (last_zero b1)); lia.
      * intros j Hj. rewrite byte_at_set_nth by (auto; lia). rewrite Z2Nat.id by lia.
        destruct (Z.ltb_spec (n / 8) (last_zero b1)); destruct (Z.eqb_spec j (n / 8)); try lia; apply Wf; lia.
      * intros m Hm. rewrite (Hbitset _ Hnewbits) by lia. destruct (Z.eqb_spec m n); [reflexivity|].
        rewrite <- Hbits. apply Wc. auto.
    + intros m Hm. apply (Hbitset _ Hnewbits). auto.
    + cbn [bits_used]. auto.
Qed.

Lemma shiftr_land_pow2 : forall x e, 0 <= e -> Z.shiftr (Z.land x (2 ^ e)) e = if Z.testbit x e then 1 else 0.
Proof.
  intros x e He. apply Z.bits_inj'. intros j Hj.
  rewrite Z.shiftr_spec, Z.land_spec, testbit_pow2 by lia.
  destruct (Z.eqb_spec (j + e) e) as [Heq|Hne].
  - assert (j = 0) by lia. subst j. simpl. rewrite andb_true_r. destruct (Z.testbit x e); reflexivity.
  - rewrite andb_false_r. destruct (Z.testbit x e).
    + destruct j; try lia; reflexivity.
    + symmetry. apply Z.bits_0.
Qed.

(** bv_get reads the bit *)
Lemma bv_get_spec : forall b n, bv_wf b -> 0 <= n -> bv_get b n = if bv_bit b n then BV_TRUE else BV_FALSE.
Proof.
  intros b n W Hn. unfold bv_get. destruct (Z.ltb_spec n 0); [lia|].
  destruct (Z.geb_spec n (bits_used b)) as [Hge|Hlt].
  - rewrite (wf_clear b W) by lia. reflexivity.
  - unfold bv_bit, BV_BASE_BITS. pose proof (Z.mod_pos_bound n 8 ltac:(lia)) as Hmb.
    rewrite bit_value_pow by lia. rewrite shiftr_land_pow2 by lia. reflexivity.
Qed.

(* ------------------------------------------------------------------------------------------ *)
(** * bv_find_next_zero *)

Lemma nth_skipn_add : forall (l : list Z) a k d, nth k (skipn a l) d = nth (a + k) l d.
Proof. induction l as [|x l IH]; intros [|a] k d; simpl; auto. destruct k; reflexivity. Qed.

Lemma scan_full_spec : forall l i bu,
  let r := scan_full l i bu in
  i <= r /\ r - i <= Z.of_nat (length l) /\
  (forall j, i <= j < r -> nth (Z.to_nat (j - i)) l 0 = 255 /\ j < bu) /\
  (r < bu -> (Z.to_nat (r - i) < length l)%nat -> nth (Z.to_nat (r - i)) l 0 <> 255).
Proof.
  induction l as [|x l IH]; intros i bu; simpl.
  - split; [lia|]. split; [lia|]. split; [intros; lia|]. intros _ H. simpl in H. lia.
  - destruct (Z.ltb_spec i bu) as [Hlt|Hge]; simpl.
    + destruct (Z.eqb_spec x 255) as [->|Hne].
      * destruct (IH (i + 1) bu) as (H1 & H2 & H3 & H4).
        split; [lia|]. split; [lia|]. split.
        -- intros j Hj. destruct (Z.eq_dec j i) as [->|]. { replace (i - i) with 0 by lia. simpl. lia. }
           destruct (H3 j ltac:(lia)) as [Ha Hb]. split; [|lia].
           replace (Z.to_nat (j - i)) with (S (Z.to_nat (j - (i + 1)))) by lia. exact Ha.
        -- intros Hr Hlen.
           replace (Z.to_nat (scan_full l (i + 1) bu - i)) with (S (Z.to_nat (scan_full l (i + 1) bu - (i + 1)))) in * by lia.
           simpl. apply H4; [lia|]. simpl in Hlen. lia.
      * split; [lia|]. split; [lia|]. split; [intros; lia|].
        intros _ _. replace (i - i) with 0 by lia. simpl. auto.
    + split; [lia|]. split; [lia|]. split; intros; lia.
Qed.

Lemma land_ones_byte : forall x n, byte_ok x -> byte_ok (Z.land x (Z.ones n)).
Proof.
  intros x n [H0 Hb]. split.
  - apply Z.land_nonneg. left. lia.
  - intros j Hj. rewrite Z.land_spec, Hb by lia. reflexivity.
Qed.

(** bv_find_next_zero returns the least clear bit, for every well-formed vector: the last_zero cache,
    the table lookup, the slush bits of the last partial byte and the extension step are all covered *)
Lemma bv_find_next_zero_spec : forall b, bv_wf b ->
  exists b' r, bv_find_next_zero b = Some (b', r) /\ bv_wf b' /\
               (forall m, 0 <= m -> bv_bit b' m = bv_bit b m) /\
               0 <= r /\ bv_bit b r = false /\ (forall m, 0 <= m < r -> bv_bit b m = true).
Proof.
  intros b W. pose proof W as [Wb Wu Wl Wf Wc]. unfold bv_find_next_zero, BV_BASE_BITS.
  set (bu := bits_used b / 8).
  assert (Hbu : 0 <= bu /\ bu * 8 <= bits_used b < bu * 8 + 8).
  { unfold bu. pose proof (Z.div_mod (bits_used b) 8 ltac:(lia)). pose proof (Z.mod_pos_bound (bits_used b) 8 ltac:(lia)).
    assert (0 <= bits_used b / 8) by (apply Z.div_pos; lia). lia. }
  assert (Hasz : bu <= array_size b) by lia.
  destruct (Z.geb_spec (last_zero b) 0) as [_|]; [|lia].
  pose proof (scan_full_spec (skipn (Z.to_nat (last_zero b)) (buffer b)) (last_zero b) bu) as Hs.
  set (i := scan_full (skipn (Z.to_nat (last_zero b)) (buffer b)) (last_zero b) bu) in *.
  cbv zeta in Hs. destruct Hs as (Hi0 & Hilen & Hfull & Hstop).
  assert (Hnth : forall j, last_zero b <= j ->
            nth (Z.to_nat (j - last_zero b)) (skipn (Z.to_nat (last_zero b)) (buffer b)) 0 = byte_at (buffer b) j).
  { intros j Hj. rewrite nth_skipn_add. unfold byte_at. f_equal. lia. }
  assert (Hbefore : forall j, 0 <= j < i -> byte_at (buffer b) j = 255).
  { intros j Hj. destruct (Z_lt_ge_dec j (last_zero b)); [apply Wf; lia|].
    rewrite <- Hnth by lia. apply Hfull. lia. }
  assert (Hile : i <= bu).
  { destruct (Z.eq_dec i (last_zero b)); [lia|]. destruct (Hfull (i - 1) ltac:(lia)). lia. }
  assert (Hlow : forall m, 0 <= m -> m / 8 < i -> bv_bit b m = true).
  { intros m Hm Hlt. apply bv_bit_full; auto. apply Hbefore. split; [apply Z.div_pos; lia|auto]. }
  assert (Hsame : forall lz m, bv_bit (mkbv (bits_used b) lz (buffer b)) m = bv_bit b m) by reflexivity.
  assert (Hwf' : bv_wf (mkbv (bits_used b) i (buffer b))).
  { constructor; cbn [buffer bits_used last_zero]; auto. fold bu. lia. }
  (* the common end game: the answer lies in byte i, at the table's position for value s *)
  assert (Hend : forall s lim, byte_ok s -> s <> 255 -> 0 < lim <= 8 ->
            (forall j, 0 <= j < lim -> Z.testbit s j = Z.testbit (byte_at (buffer b) i) j) ->
            (forall j, lim <= j -> Z.testbit s j = false) ->
            (lim < 8 -> forall m, i * 8 + lim <= m -> bv_bit b m = false) ->
            0 <= i * 8 + tbl bv_first_zero s /\ bv_bit b (i * 8 + tbl bv_first_zero s) = false /\
            (forall m, 0 <= m < i * 8 + tbl bv_first_zero s -> bv_bit b m = true)).
  { intros s lim Hsok Hne Hlim Hagree Hhigh Hclr.
    destruct (first_zero_table_lemma s (byte_ok_lt s Hsok)) as (Hk & Hkz & Hkall).
    set (k := tbl bv_first_zero s) in *.
    assert (Hk7 : k <= lim).
    { destruct (Z_le_gt_dec k lim); auto. exfalso.
      specialize (Hkall lim ltac:(lia)). rewrite Hhigh in Hkall by lia. discriminate. }
    assert (k < 8).
    { destruct (Z.eq_dec k 8); [|lia]. exfalso. apply Hne. apply all_bits_255; auto. intros j Hj. apply Hkall. lia. }
    split; [lia|]. split.
    - destruct (Z.eq_dec k lim) as [He|]; [apply Hclr; lia|].
      rewrite bv_bit_split by lia. rewrite <- Hagree by lia. auto.
    - intros m Hm. destruct (Z_lt_ge_dec (m / 8) i) as [|Hge]; [apply Hlow; lia|].
      pose proof (Z.div_mod m 8 ltac:(lia)). pose proof (Z.mod_pos_bound m 8 ltac:(lia)).
      assert (m / 8 = i) by lia.
      replace m with (i * 8 + m mod 8) by lia. rewrite bv_bit_split by lia.
      rewrite <- Hagree by lia. apply Hkall. lia. }
  destruct (Z.ltb_spec i bu) as [Hlt|Hge].
  - (* a byte with a zero inside the fully used bytes *)
    exists (mkbv (bits_used b) i (buffer b)), (i * 8 + tbl bv_first_zero (byte_at (buffer b) i)).
    split; [reflexivity|]. split; [exact Hwf'|]. split; [intros; apply Hsame|].
    apply (Hend _ 8).
    + apply byte_at_Forall; auto using byte_ok_0.
    + rewrite <- Hnth by lia. apply Hstop; [lia|]. rewrite skipn_length. unfold array_size in *. lia.
    + lia.
    + reflexivity.
    + intros j Hj. apply (byte_at_Forall byte_ok); auto using byte_ok_0.
    + intros; lia.
  - assert (Hib : i = bu) by lia. clearbody i. subst i. clear Hge Hile.
    destruct (Z.ltb_spec (bu * 8) (bits_used b)) as [Hsl|Hnosl].
    + (* slush bits in the last, partially used byte *)
      set (ns := bits_used b - bu * 8) in *. rewrite bit_mask_ones by lia.
      set (s := Z.land (byte_at (buffer b) bu) (Z.ones ns)).
      assert (Hsb : forall j, 0 <= j -> Z.testbit s j = Z.testbit (byte_at (buffer b) bu) j && (j <? ns)).
      { intros j Hj. unfold s. rewrite Z.land_spec. f_equal.
        destruct (Z.ltb_spec j ns); [apply Z.ones_spec_low; lia|apply Z.ones_spec_high; lia]. }
      assert (Hs255 : s <> 255).
      { intros E. pose proof (Hsb 7 ltac:(lia)) as H7. rewrite E in H7. simpl in H7.
        destruct (Z.ltb_spec 7 ns); [lia|]. rewrite andb_false_r in H7. discriminate. }
      destruct (Z.eqb_spec s 255) as [|_]; [contradiction|]. cbn [negb].
      exists (mkbv (bits_used b) bu (buffer b)), (bu * 8 + tbl bv_first_zero s).
      split; [reflexivity|]. split; [exact Hwf'|]. split; [intros; apply Hsame|].
      apply (Hend _ ns).
      * apply land_ones_byte. apply byte_at_Forall; auto using byte_ok_0.
      * auto.
      * lia.
      * intros j Hj. rewrite Hsb by lia. destruct (Z.ltb_spec j ns); [apply andb_true_r|lia].
      * intros j Hj. rewrite Hsb by lia. destruct (Z.ltb_spec j ns); [lia|apply andb_false_r].
      * intros _ m Hm. apply Wc. lia.
    + (* every used bit is set: extend the vector by one (clear) bit *)
      destruct (bv_set_spec b (bits_used b) BV_FALSE W ltac:(lia) ltac:(auto)) as (b' & Hset & Wb' & Hbits' & _).
      rewrite Hset. exists b', (bits_used b). split; [reflexivity|]. split; [auto|].
      split; [|split; [lia|split]].
      * intros m Hm. rewrite Hbits' by auto. destruct (Z.eqb_spec m (bits_used b)) as [->|]; auto.
        rewrite Wc by lia. reflexivity.
      * apply Wc. lia.
      * intros m Hm. apply Hlow; [lia|]. apply Z.div_lt_upper_bound; lia.
Qed.

Lemma bv_set_get_lemma : forall b n v, bv_wf b -> 0 <= n -> (v = BV_TRUE \/ v = BV_FALSE) ->
  exists b', bv_set b n v = Some b' /\ bv_wf b' /\
             (forall m, 0 <= m -> bv_bit b' m = if m =? n then (v =? BV_TRUE) else bv_bit b m) /\
             (forall m, 0 <= m -> bv_get b' m = if bv_bit b' m then BV_TRUE else BV_FALSE).
Proof.
  intros b n v W Hn Hv. destruct (bv_set_spec b n v W Hn Hv) as (b' & H1 & H2 & H3 & _).
  exists b'. split; [exact H1|]. split; [exact H2|]. split; [exact H3|].
  intros m Hm. exact (bv_get_spec b' m H2 Hm).
Qed.

(* ------------------------------------------------------------------------------------------ *)
(** * All operation sequences: the bit-vector refines a set of natural numbers *)

(** what a sequence of outputs must be, for the set [f] (as a characteristic function) *)
Fixpoint set_ok (f : Z -> bool) (h : list (Z * Z * Z)) (outs : list (Z * Z * Z * Z)) : Prop :=
  match h, outs with
  | [], [] => True
  | (k, n, v) :: h', (r, _, _, _) :: o' =>
      if k =? 0 then r = SUCCEED /\ set_ok (fun m => if m =? n then v =? BV_TRUE else f m) h' o'
      else if k =? 1 then r = (if f n then BV_TRUE else BV_FALSE) /\ set_ok f h' o'
      else (0 <= r /\ f r = false /\ forall m, 0 <= m < r -> f m = true) /\ set_ok f h' o'
  | _, _ => False
  end.

Definition op_ok (o : Z * Z * Z) : Prop :=
  let '(k, n, v) := o in
  (k = 0 -> 0 <= n /\ (v = BV_TRUE \/ v = BV_FALSE)) /\ (k = 1 -> 0 <= n).

Lemma bv_seq_refines_set_lemma : forall h b f, bv_wf b -> (forall m, 0 <= m -> bv_bit b m = f m) ->
  Forall op_ok h -> set_ok f h (bv_run b h).
Proof.
  induction h as [|[[k n] v] h IH]; intros b f W Hf Hok; [exact I|].
  inversion Hok as [|x l Hop Hrest]; subst. unfold op_ok in Hop. destruct Hop as [Hk0 Hk1]. cbn [bv_run bv_step set_ok].
  destruct (Z.eqb_spec k 0) as [->|Hn0]; [|destruct (Z.eqb_spec k 1) as [->|Hn1]].
  - destruct (Hk0 eq_refl) as [Hn Hv].
    destruct (bv_set_spec b n v W Hn Hv) as (b' & Es & W' & Hb' & _). rewrite Es. cbn [set_ok Z.eqb].
    split; [reflexivity|]. apply IH; auto. intros m Hm. rewrite Hb' by auto. destruct (m =? n); auto.
  - cbn [set_ok]. change (1 =? 0) with false. change (1 =? 1) with true. cbv iota.
    split; [rewrite (bv_get_spec b n W (Hk1 eq_refl)), Hf by (apply Hk1; reflexivity); reflexivity|]. apply IH; auto.
  - destruct (bv_find_next_zero_spec b W) as (b' & r & Ez & W' & Hsame & Hr0 & Hclr & Hlow). rewrite Ez.
    cbn [set_ok]. destruct (Z.eqb_spec k 0); [contradiction|]. destruct (Z.eqb_spec k 1); [contradiction|].
    split.
    + split; [exact Hr0|]. split; [rewrite <- Hf by auto; exact Hclr|]. intros m Hm. rewrite <- Hf by lia. apply Hlow. exact Hm.
    + apply IH; auto. intros m Hm. rewrite Hsame by auto. apply Hf. exact Hm.
Qed.

(** from bv_new: every sequence of bv_set / bv_get / bv_find_next_zero behaves as the empty set updated by the sets *)
Lemma bv_new_seq_refines_set_lemma : forall nb h outs, Forall op_ok h -> bv_run_new nb h = Some outs ->
  set_ok (fun _ => false) h outs.
Proof.
  intros nb h outs Hok H. unfold bv_run_new in H. destruct (bv_new nb) as [b|] eqn:E; [|discriminate].
  injection H as <-. destruct (bv_new_wf nb b E) as [W Hclr]. apply bv_seq_refines_set_lemma; auto.
Qed.
