(** Extraction of the C03 specification and model (ExtrOcamlBasic only; Z stays the extracted datatype). *)
Require Import H4.SlabSpec H4.SlabModel.
Require Extraction.
Require ExtrOcamlBasic.
Extraction "../extract/gen/slab_model.ml" s_init s_run s_step default_fill nt_size m_init m_run m_step file_recsize m_set_recsize.
