(** C01 -- implementation model M of linked-block elements (hblocks.c HLPseek / HLPread / HLPwrite,
    HLcreate's information record), as the C code performs them AFTER the fix: commits recorded in
    known_findings.d/C01.json.  No proofs in this file.

    One element = the shared information record (first_length, block_length, number_blocks, length), the
    chain of block tables (each with number_blocks slots) and the data blocks.  Access handles only carry a
    position, so any interleaving of handles that share the record is a sequence of position-parameterised
    operations on one [lb] value.

    Blocks are indexed globally (table t, slot i  <->  index t*nb + i); a block is [None] (slot ref = 0:
    a hole) or [Some f] with [f r] the byte at offset r of the block (bytes never written are 0: file holes,
    and HPgetdiskblock's end marker is 0). *)
From Coq Require Import ZArith List Bool.
Require Import H4.gen.Gen_HBlocks.
Import ListNotations.
Local Open Scope Z_scope.

Record lb := mklb {
  fl : Z;            (* info->first_length *)
  bl : Z;            (* info->block_length *)
  nb : Z;            (* info->number_blocks *)
  len : Z;           (* info->length *)
  ntab : Z;          (* number of block tables in the chain *)
  blk : Z -> option (Z -> Z)
}.

Definition zlen {A} (l : list A) : Z := Z.of_nat (length l).

Definition cur_len (st : lb) (idx : Z) : Z := if idx =? 0 then fl st else bl st.

(** "search for linked block to start reading from / writing into" *)
Definition locate (st : lb) (pos : Z) : Z * Z :=
  if pos <? fl st then (0, pos)
  else ((pos - fl st) / bl st + 1, (pos - fl st) mod bl st).

Definition set_blk (st : lb) (idx : Z) (f : Z -> Z) : lb :=
  mklb (fl st) (bl st) (nb st) (len st) (ntab st)
       (fun i => if i =? idx then Some f else blk st i).

Definition with_ntab (st : lb) (n : Z) : lb := mklb (fl st) (bl st) (nb st) (len st) n (blk st).
Definition with_len (st : lb) (n : Z) : lb := mklb (fl st) (bl st) (nb st) n (ntab st) (blk st).

(** Hwrite of [chunk] at offset [rel] into a block (new blocks start as zeros) *)
Definition put_chunk (b : option (Z -> Z)) (rel : Z) (chunk : list Z) : Z -> Z :=
  let old := match b with Some f => f | None => fun _ => 0 end in
  fun r => if (rel <=? r) && (r <? rel + zlen chunk) then nth (Z.to_nat (r - rel)) chunk 0 else old r.

(** the do-while loop of HLPwrite; fuel = number of data bytes + 1 *)
Fixpoint wr_loop (fuel : nat) (st : lb) (idx rel : Z) (data : list Z) : lb :=
  match fuel with
  | O => st
  | S f =>
      let remaining := Z.min (cur_len st idx - rel) (zlen data) in
      let chunk := firstn (Z.to_nat remaining) data in
      let rest := skipn (Z.to_nat remaining) data in
      let st1 := set_blk st idx (put_chunk (blk st idx) rel chunk) in
      match rest with
      | [] => st1
      | _ => (* "move to the next link/block table", creating it when missing *)
             let st2 := with_ntab st1 (Z.max (ntab st1) ((idx + 1) / nb st1 + 1)) in
             wr_loop f st2 (idx + 1) 0 rest
      end
  end.

(** HLPwrite: returns the new record and the byte count (None = FAIL) *)
Definition hl_write (st : lb) (pos : Z) (data : list Z) : option (lb * Z) :=
  let n := zlen data in
  if n <=? 0 then None else
  let '(idx, rel) := locate st pos in
  (* follow the links of block tables and create missing block tables along the way *)
  let st0 := with_ntab st (Z.max (ntab st) (idx / nb st + 1)) in
  let st1 := wr_loop (S (length data)) st0 idx rel data in
  Some (with_len st1 (Z.max (len st1) (pos + n)), n).

(** the do-while loop of HLPread: bytes of [n] positions starting at (idx, rel).
    [None] = the walk ran off the chain of block tables (t_link == NULL -> DFE_INTERNAL). *)
Fixpoint rd_loop (fuel : nat) (st : lb) (idx rel n : Z) : option (list Z) :=
  match fuel with
  | O => None
  | S f =>
      if ntab st <=? idx / nb st then None else
      let remaining := Z.min (cur_len st idx - rel) n in
      let bytes := match blk st idx with
                   | Some g => map (fun i => g (rel + Z.of_nat i)) (seq 0 (Z.to_nat remaining))
                   | None => repeat 0 (Z.to_nat remaining)   (* hole: memset 0 *)
                   end in
      if n - remaining <=? 0 then Some bytes
      else match rd_loop f st (idx + 1) 0 (n - remaining) with
           | Some more => Some (bytes ++ more)
           | None => None
           end
  end.

(** HLPread (with the fix: nothing to read at or beyond the end).  None = FAIL. *)
Definition hl_read (st : lb) (pos n : Z) : option (list Z) :=
  if n <? 0 then None else
  let n1 := if n =? 0 then len st - pos else n in
  let n2 := if len st <? pos + n1 then len st - pos else n1 in
  if n2 <=? 0 then Some [] else
  let '(idx, rel) := locate st pos in
  rd_loop (S (Z.to_nat n2)) st idx rel n2.

(** HLPseek *)
Definition hl_seek (st : lb) (pos off origin : Z) : option Z :=
  let t := off + (if origin =? DF_CURRENT then pos else if origin =? DF_END then len st else 0) in
  if t <? 0 then None else Some t.

(** HLcreate on a fresh tag/ref: empty element whose first block has the regular length;
    HLcreate / HLconvert on existing data: the data becomes block 0 of length = data length *)
Definition hl_new (blen nblk : Z) : lb := mklb blen blen nblk 0 1 (fun _ => None).
Definition hl_of_data (data : list Z) (blen nblk : Z) : lb :=
  mklb (zlen data) blen nblk (zlen data) 1
       (fun i => if i =? 0 then Some (fun r => nth (Z.to_nat r) data 0) else None).

(** the silent promotion done by Hwrite / Hseek on an appendable element that is not at the end of the file:
    HLconvert with the library's default block length and table size (constants regenerated from hlimits.h) *)
Definition hl_promote (data : list Z) : lb := hl_of_data data HDF_APPENDABLE_BLOCK_LEN HDF_APPENDABLE_BLOCK_NUM.

(** ---- abstraction to the byte stream --------------------------------------- *)
Definition byte_at (st : lb) (q : Z) : Z :=
  let '(i, r) := locate st q in match blk st i with Some g => g r | None => 0 end.

Definition zrange (lo : Z) (n : nat) : list Z := map (fun i => lo + Z.of_nat i) (seq 0 n).
Definition abs_stream (st : lb) : list Z := map (byte_at st) (zrange 0 (Z.to_nat (len st))).

(** allocation flags per table (R-vs-M observable): which slots hold a block *)
Definition table_flags (st : lb) : list (list bool) :=
  map (fun t => map (fun i => match blk st (Z.of_nat t * nb st + Z.of_nat i) with Some _ => true | None => false end)
                    (seq 0 (Z.to_nat (nb st))))
      (seq 0 (Z.to_nat (ntab st))).

(** ---- the stream specification with zero gaps (what S becomes after reopen) -- *)
Definition write_at0 (data : list Z) (pos : Z) (bytes : list Z) : list Z :=
  let p := Z.to_nat pos in
  let padded := data ++ repeat 0 (p - length data) in
  firstn p padded ++ bytes ++ skipn (p + length bytes) padded.

Definition stream_read (data : list Z) (pos n : Z) : option (list Z) :=
  if n <? 0 then None else
  let l := zlen data in
  let n1 := if n =? 0 then l - pos else n in
  let n2 := if l <? pos + n1 then l - pos else n1 in
  if n2 <=? 0 then Some [] else Some (firstn (Z.to_nat n2) (skipn (Z.to_nat pos) data)).

(** ---- operation sequences (any interleaving of handles = any positions) ----- *)
Inductive lop := LWrite (pos : Z) (data : list Z) | LRead (pos n : Z).
Inductive lres := LFail | LWrote (n : Z) | LBytes (b : list Z).

Definition lb_step (st : lb) (o : lop) : lb * lres :=
  match o with
  | LWrite pos data => match hl_write st pos data with Some (st', n) => (st', LWrote n) | None => (st, LFail) end
  | LRead pos n => match hl_read st pos n with Some b => (st, LBytes b) | None => (st, LFail) end
  end.

Definition stream_step (d : list Z) (o : lop) : list Z * lres :=
  match o with
  | LWrite pos data => if zlen data <=? 0 then (d, LFail) else (write_at0 d pos data, LWrote (zlen data))
  | LRead pos n => match stream_read d pos n with Some b => (d, LBytes b) | None => (d, LFail) end
  end.

Fixpoint lb_run (st : lb) (ops : list lop) : list lres :=
  match ops with [] => [] | o :: t => let '(st', r) := lb_step st o in r :: lb_run st' t end.
Fixpoint stream_run (d : list Z) (ops : list lop) : list lres :=
  match ops with [] => [] | o :: t => let '(d', r) := stream_step d o in r :: stream_run d' t end.
