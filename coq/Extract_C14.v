(** Extraction of the C14 specification (monitor) and, later, the L1 effect model (ExtrOcamlBasic only). *)
Require Import H4.ROSpec.
Require Extraction.
Require ExtrOcamlBasic.
Extraction "../extract/gen/ro_spec.ml" ROSpec.step ROSpec.init ROSpec.clause_code ROSpec.is_mutator.
