(** Extraction of the C14 specification (monitor) and the L1 effect model (ExtrOcamlBasic only). *)
Require Import H4.ROSpec H4.ROModel H4.SDModel.
Require Extraction.
Require ExtrOcamlBasic.
Extraction "../extract/gen/ro_spec.ml" ROSpec.step ROSpec.init ROSpec.clause_code ROSpec.is_mutator.
Extraction "../extract/gen/ro_model.ml" ROModel.step ROModel.hopen_existing ROModel.mutating ROModel.f_open SDModel.sd_step SDModel.sdstart SDModel.sd_mutating SDModel.s_open.
