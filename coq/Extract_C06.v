(** Extraction of the C06 model and specification (ExtrOcamlBasic only; Z stays the extracted datatype). *)
Require Import H4.ConvModel.
Require Extraction.
Require ExtrOcamlBasic.
Extraction "../extract/gen/conv_model.ml" model_case spec_case domain_case.
