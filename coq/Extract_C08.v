(** Extraction of the C08 specification (VGraphSpec) and implementation model (VGModel); ExtrOcamlBasic only. *)
Require Import H4.VGraphSpec H4.VGModel.
Require Extraction.
Require ExtrOcamlBasic.
Extraction "../extract/gen/vg_c08.ml" VGraphSpec.step VGraphSpec.init VGModel.mstep VGModel.minit.
