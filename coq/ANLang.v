(** C11 -- the two C string functions that occur in the regenerated condition of dfan.c DFANIopen.
    A C string is the list of its bytes without the terminating NUL (so it contains no 0). *)
From Coq Require Import ZArith List.
Import ListNotations.
Local Open Scope Z_scope.

Definition strlen (s : list Z) : Z := Z.of_nat (length s).

(** compare at most [n] characters; a string ends at its NUL *)
Fixpoint strncmp_nat (a b : list Z) (n : nat) : Z :=
  match n with
  | O => 0
  | S n' =>
      match a, b with
      | [], [] => 0
      | [], y :: _ => if y =? 0 then 0 else -1
      | x :: _, [] => if x =? 0 then 0 else 1
      | x :: a', y :: b' => if x =? y then (if x =? 0 then 0 else strncmp_nat a' b' n') else if x <? y then -1 else 1
      end
  end.
Definition strncmp (a b : list Z) (n : Z) : Z := strncmp_nat a b (Z.to_nat n).
