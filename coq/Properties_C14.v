(** C14 -- Read-only access never alters a file; write requests through it are refused.

    M = coq/ROModel.v (L1 effect model: Hopen access flags, every modelled operation returns (state, result,
    device writes); the mode checks are the C conditions regenerated into gen/Gen_RO.v).
    S = coq/ROSpec.v (monitor over the observable trace; decides R in checks/C14.py).

    Full strength (all histories, induction):  ro_no_writes, ro_mutators_fail, rw_noop_preserves,
    close_writes_only_when_dirty_or_version_modified, and the characterisations of the regenerated guards.
    PARTIAL by construction of M: the SD, GR and AN layers have no faithful model.  For them the property rests on
    (a) ro_no_writes at the device level -- whatever a caller above L1 does, every path to HP_write goes through
    the modelled L1 operations, none of which emits a write on a read-only file record -- and (b) the
    correspondence R vs S on return codes ("returns FAIL rather than appearing to succeed"). *)
From Coq Require Import ZArith List Bool.
Import ListNotations.
Require Import H4.gen.Gen_RO H4.ROModel H4.ROProofs H4.SDModel H4.SDProofs.
Require H4.ROSpec.
Local Open Scope Z_scope.

(** For a file opened without DFACC_WRITE, for EVERY history of the modelled operations (Hstartaccess, Hstartwrite,
    Hwrite, Hread, Hseek, Htrunc, Hsetlength, Happendable, Hendaccess, Hputelement, Hdupdd, Hdeldd, HDreuse_tagref,
    HLcreate/HXcreate/HCcreate/HMCcreate, HLconvert, Hsync, Hcache, Vattach, VSattach, the V/VS setters, VSwrite,
    Vdetach/VSdetach, Vdelete/VSdelete, Hclose), whatever the DD list, the file length and the stored version are,
    the concatenated list of device writes is empty. *)
Theorem ro_no_writes : forall mode dds fend diskver ops,
  Z.land mode DFACC_WRITE = 0 ->
  writes_of (snd (run (hopen_existing mode dds fend diskver) ops)) = [].
Proof. exact ro_no_writes_full. Qed.
Print Assumptions ro_no_writes.

(** ... and every operation of the history that is a write request or a creation returns FAIL. *)
Theorem ro_mutators_fail : forall mode dds fend diskver ops,
  Z.land mode DFACC_WRITE = 0 ->
  Forall2 (fun o rw => mutating o = true -> fst rw = FAIL) ops (snd (run (hopen_existing mode dds fend diskver) ops)).
Proof. exact ro_mutators_fail_full. Qed.
Print Assumptions ro_mutators_fail.

(** The invariant behind both (any state satisfying it, not only the one right after Hopen). *)
Theorem ro_invariant_step : forall f o f' r w,
  ro_inv f -> step f o = (f', r, w) -> ro_inv f' /\ w = [] /\ (mutating o = true -> r = FAIL).
Proof. exact step_ro. Qed.
Print Assumptions ro_invariant_step.

(** Opening an existing file in ANY mode (in particular for writing) and closing it with no request in between emits
    no device write and leaves the descriptor list and the file length as they were -- whether or not the stored
    version element is current (the faithful model shows the library refreshes the version element only when it is
    absent and some element was accessed before the close). *)
Theorem rw_noop_preserves : forall mode dds fend diskver,
  exists f', hclose (hopen_existing mode dds fend diskver) = (f', 0, []) /\ f_dds f' = dds /\ f_end f' = fend.
Proof. exact rw_noop_preserves_full. Qed.
Print Assumptions rw_noop_preserves.

(** Hclose writes only when the DD cache is dirty or the version was marked modified. *)
Theorem close_writes_only_when_dirty_or_version_modified : forall f,
  f_open f = true -> f_dirty f = 0 -> f_vmod f = 0 -> f_recs f = [] -> snd (hclose f) = [].
Proof. exact ROProofs.close_writes_only_when_dirty_or_version_modified. Qed.
Print Assumptions close_writes_only_when_dirty_or_version_modified.

(** The guards taken from the C sources mean what the property needs (a weakened or deleted check breaks these). *)
Theorem guard_hstartaccess : forall flags facc,
  hstartaccess_denied flags facc = 1 <-> (Z.land flags DFACC_WRITE <> 0 /\ Z.land facc DFACC_WRITE = 0).
Proof. exact hstartaccess_denied_spec. Qed.
Print Assumptions guard_hstartaccess.

Theorem guards_need_write_bit :
  write_guard hwrite_denied /\ write_guard htrunc_denied /\ write_guard hsetlength_denied /\ write_guard hlcreate_denied /\
  write_guard hlconvert_denied /\ write_guard hxcreate_denied /\ write_guard hccreate_denied /\ write_guard hmccreate_denied /\
  write_guard hmcwritechunk_denied /\ write_guard hdupdd_denied /\ write_guard hdeldd_denied /\ write_guard hdreuse_denied /\
  write_guard vdelete_denied /\ write_guard vsdelete_denied /\ write_guard vsattach_new_denied.
Proof.
  exact (conj hwrite_guard (conj htrunc_guard (conj hsetlength_guard (conj hlcreate_guard (conj hlconvert_guard
        (conj hxcreate_guard (conj hccreate_guard (conj hmccreate_guard (conj hmcwritechunk_guard (conj hdupdd_guard
        (conj hdeldd_guard (conj hdreuse_guard (conj vdelete_guard (conj vsdelete_guard vsattach_new_guard)))))))))))))).
Qed.
Print Assumptions guards_need_write_bit.

(** Hclose refreshes the version element exactly when the file is open, the version is marked modified and the file
    allows writing; a failed refresh fails the close. *)
Theorem guard_hclose_version : forall refcount modified facc,
  hclose_updates_version refcount modified facc = 1 <-> (0 < refcount /\ modified = 1 /\ Z.land facc DFACC_WRITE <> 0).
Proof. exact hclose_update_spec. Qed.
Print Assumptions guard_hclose_version.

Theorem guard_hclose_reports_failed_update : forall r, hclose_fails_when_update_fails r = 1 <-> r = FAIL.
Proof. exact hclose_fails_spec. Qed.
Print Assumptions guard_hclose_reports_failed_update.

(** POSITION of the guards (regenerated from the control structure of the current sources): every guard stands at
    conditional depth 0 of its function (no branch can bypass it), no effect of the function precedes it, and the
    guarded SD handle is not re-assigned after it, no successful exit and no store through a pointer (free, ++, p->x =,
    a[i] =) stands before it (the one exception is SDsetexternalfile's documented no-op exit for a dataset that is
    external already).  A guard moved into or behind a branch, or a handle looked up again after the guard, changes
    these numbers.  The helper SDIregister_data_ref (a writer of handle->flags without a guard of its own) is never
    called before the guard of any SD mutator. *)
Theorem guards_dominate :
  sdcreate_guard_depth = 0 /\
  sdcreate_handle_reassigned_after_guard = 0 /\
  sdsetdimname_guard_depth = 0 /\
  sdsetdimname_handle_reassigned_after_guard = 0 /\
  sdsetrange_guard_depth = 0 /\
  sdsetrange_handle_reassigned_after_guard = 0 /\
  sdsetattr_guard_depth = 0 /\
  sdsetattr_handle_reassigned_after_guard = 0 /\
  sdsetdatastrs_guard_depth = 0 /\
  sdsetdatastrs_handle_reassigned_after_guard = 0 /\
  sdsetcal_guard_depth = 0 /\
  sdsetcal_handle_reassigned_after_guard = 0 /\
  sdsetfillvalue_guard_depth = 0 /\
  sdsetfillvalue_handle_reassigned_after_guard = 0 /\
  sdsetdimstrs_guard_depth = 0 /\
  sdsetdimstrs_handle_reassigned_after_guard = 0 /\
  sdsetdimscale_guard_depth = 0 /\
  sdsetdimscale_handle_reassigned_after_guard = 0 /\
  sdsetdimval_comp_guard_depth = 0 /\
  sdsetdimval_comp_handle_reassigned_after_guard = 0 /\
  sdwritedata_guard_depth = 0 /\
  sdwritedata_handle_reassigned_after_guard = 0 /\
  sdsetexternalfile_guard_depth = 0 /\
  sdsetexternalfile_handle_reassigned_after_guard = 0 /\
  sdsetcompress_guard_depth = 0 /\
  sdsetcompress_handle_reassigned_after_guard = 0 /\
  sdsetchunk_guard_depth = 0 /\
  sdsetchunk_handle_reassigned_after_guard = 0 /\
  sdsetnbitdataset_guard_depth = 0 /\
  sdsetnbitdataset_handle_reassigned_after_guard = 0 /\
  sdwritechunk_guard_depth = 0 /\
  sdwritechunk_handle_reassigned_after_guard = 0 /\
  grsetattr_guard_depth = 0 /\
  grsetattr_effects_before_guard = 0 /\
  hstartaccess_guard_depth = 0 /\
  hstartaccess_effects_before_guard = 0 /\
  hsetlength_guard_depth = 0 /\
  hsetlength_effects_before_guard = 0 /\
  hlcreate_guard_depth = 0 /\
  hlcreate_effects_before_guard = 0 /\
  hlconvert_guard_depth = 0 /\
  hlconvert_effects_before_guard = 0 /\
  hxcreate_guard_depth = 0 /\
  hxcreate_effects_before_guard = 0 /\
  hccreate_guard_depth = 0 /\
  hccreate_effects_before_guard = 0 /\
  hmccreate_guard_depth = 0 /\
  hmccreate_effects_before_guard = 0 /\
  hmcwritechunk_guard_depth = 0 /\
  hmcwritechunk_effects_before_guard = 0 /\
  hdupdd_guard_depth = 0 /\
  hdupdd_effects_before_guard = 0 /\
  hdeldd_guard_depth = 0 /\
  hdeldd_effects_before_guard = 0 /\
  hdreuse_tagref_guard_depth = 0 /\
  hdreuse_tagref_effects_before_guard = 0 /\
  vattach_guard_depth = 0 /\
  vattach_effects_before_guard = 0 /\
  vdelete_guard_depth = 0 /\
  vdelete_effects_before_guard = 0 /\
  vsdelete_guard_depth = 0 /\
  vsdelete_effects_before_guard = 0 /\
  vaddtagref_guard_depth = 0 /\
  vaddtagref_effects_before_guard = 0 /\
  vdeletetagref_guard_depth = 0 /\
  vdeletetagref_effects_before_guard = 0 /\
  vswrite_guard_depth = 0 /\
  vswrite_effects_before_guard = 0 /\
  hwrite_guard_depth = 0 /\
  hwrite_effects_before_guard = 0 /\
  htrunc_guard_depth = 0 /\
  htrunc_effects_before_guard = 0 /\
  sdcreate_success_exits_before_guard = 0 /\
  sdcreate_stores_before_guard = 0 /\
  sdsetdimname_success_exits_before_guard = 0 /\
  sdsetdimname_stores_before_guard = 0 /\
  sdsetrange_success_exits_before_guard = 0 /\
  sdsetrange_stores_before_guard = 0 /\
  sdsetattr_success_exits_before_guard = 0 /\
  sdsetattr_stores_before_guard = 0 /\
  sdsetdatastrs_success_exits_before_guard = 0 /\
  sdsetdatastrs_stores_before_guard = 0 /\
  sdsetcal_success_exits_before_guard = 0 /\
  sdsetcal_stores_before_guard = 0 /\
  sdsetfillvalue_success_exits_before_guard = 0 /\
  sdsetfillvalue_stores_before_guard = 0 /\
  sdsetdimstrs_success_exits_before_guard = 0 /\
  sdsetdimstrs_stores_before_guard = 0 /\
  sdsetdimscale_success_exits_before_guard = 0 /\
  sdsetdimscale_stores_before_guard = 0 /\
  sdsetdimval_comp_success_exits_before_guard = 0 /\
  sdsetdimval_comp_stores_before_guard = 0 /\
  sdwritedata_success_exits_before_guard = 0 /\
  sdwritedata_stores_before_guard = 0 /\
  sdsetexternalfile_success_exits_before_guard = 1 /\
  sdsetexternalfile_stores_before_guard = 0 /\
  sdsetcompress_success_exits_before_guard = 0 /\
  sdsetcompress_stores_before_guard = 0 /\
  sdsetchunk_success_exits_before_guard = 0 /\
  sdsetchunk_stores_before_guard = 0 /\
  sdsetnbitdataset_success_exits_before_guard = 0 /\
  sdsetnbitdataset_stores_before_guard = 0 /\
  sdwritechunk_success_exits_before_guard = 0 /\
  sdwritechunk_stores_before_guard = 0 /\
  grsetattr_success_exits_before_guard = 0 /\
  grsetattr_stores_before_guard = 0 /\
  hstartaccess_success_exits_before_guard = 0 /\
  hstartaccess_stores_before_guard = 0 /\
  hsetlength_success_exits_before_guard = 0 /\
  hsetlength_stores_before_guard = 0 /\
  hlcreate_success_exits_before_guard = 0 /\
  hlcreate_stores_before_guard = 0 /\
  hlconvert_success_exits_before_guard = 0 /\
  hlconvert_stores_before_guard = 0 /\
  hxcreate_success_exits_before_guard = 0 /\
  hxcreate_stores_before_guard = 0 /\
  hccreate_success_exits_before_guard = 0 /\
  hccreate_stores_before_guard = 0 /\
  hmccreate_success_exits_before_guard = 0 /\
  hmccreate_stores_before_guard = 0 /\
  hmcwritechunk_success_exits_before_guard = 0 /\
  hmcwritechunk_stores_before_guard = 0 /\
  hdupdd_success_exits_before_guard = 0 /\
  hdupdd_stores_before_guard = 0 /\
  hdeldd_success_exits_before_guard = 0 /\
  hdeldd_stores_before_guard = 0 /\
  hdreuse_tagref_success_exits_before_guard = 0 /\
  hdreuse_tagref_stores_before_guard = 0 /\
  vattach_success_exits_before_guard = 0 /\
  vattach_stores_before_guard = 0 /\
  vdelete_success_exits_before_guard = 0 /\
  vdelete_stores_before_guard = 0 /\
  vsdelete_success_exits_before_guard = 0 /\
  vsdelete_stores_before_guard = 0 /\
  vaddtagref_success_exits_before_guard = 0 /\
  vaddtagref_stores_before_guard = 0 /\
  vdeletetagref_success_exits_before_guard = 0 /\
  vdeletetagref_stores_before_guard = 0 /\
  vswrite_success_exits_before_guard = 0 /\
  vswrite_stores_before_guard = 0 /\
  hwrite_success_exits_before_guard = 0 /\
  hwrite_stores_before_guard = 0 /\
  htrunc_success_exits_before_guard = 0 /\
  htrunc_stores_before_guard = 0 /\
  sdcreate_registers_before_guard = 0 /\
  sdsetdimname_registers_before_guard = 0 /\
  sdsetrange_registers_before_guard = 0 /\
  sdsetattr_registers_before_guard = 0 /\
  sdsetdatastrs_registers_before_guard = 0 /\
  sdsetcal_registers_before_guard = 0 /\
  sdsetfillvalue_registers_before_guard = 0 /\
  sdsetdimstrs_registers_before_guard = 0 /\
  sdsetdimscale_registers_before_guard = 0 /\
  sdsetdimval_comp_registers_before_guard = 0 /\
  sdwritedata_registers_before_guard = 0 /\
  sdsetexternalfile_registers_before_guard = 0 /\
  sdsetcompress_registers_before_guard = 0 /\
  sdsetchunk_registers_before_guard = 0 /\
  sdsetnbitdataset_registers_before_guard = 0 /\
  sdwritechunk_registers_before_guard = 0.
Proof. exact guards_dominate_full. Qed.
Print Assumptions guards_dominate.

(** Hopen of an already open path gives the shared record the write bit only after the reopen was attempted and
    after the last failing exit of that block; a refused reopen (and any open that asks for no write access) leaves
    a read-only record read-only and writes nothing. *)
Theorem hopen_upgrade_after_last_exit :
  hopen_failing_exits_after_upgrade = 0 /\ hopen_reopen_attempts_before_upgrade = 1 /\ hopen_upgrade_bits = DFACC_WRITE.
Proof. exact hopen_upgrade_position. Qed.
Print Assumptions hopen_upgrade_after_last_exit.

Theorem refused_reopen_keeps_read_only : forall f mode f' r w,
  ro_inv f -> hopen_again f mode false = (f', r, w) -> ro_inv f' /\ w = [].
Proof. exact hopen_again_refused_keeps_ro. Qed.
Print Assumptions refused_reopen_keeps_read_only.

Theorem read_only_reopen_keeps_read_only : forall f mode ok f' r w,
  ro_inv f -> Z.land mode DFACC_WRITE = 0 -> hopen_again f mode ok = (f', r, w) -> ro_inv f' /\ w = [].
Proof. exact hopen_again_readonly_keeps_ro. Qed.
Print Assumptions read_only_reopen_keeps_read_only.

(** The guards of the SD layer and of GRsetattr (no model above them: their conditions and positions only). *)
Theorem sd_guards_need_rdwr :
  nc_guard sdcreate_denied /\
  nc_guard sdsetdimname_denied /\
  nc_guard sdsetrange_denied /\
  nc_guard sdsetattr_denied /\
  nc_guard sdsetdatastrs_denied /\
  nc_guard sdsetcal_denied /\
  nc_guard sdsetfillvalue_denied /\
  nc_guard sdsetdimstrs_denied /\
  nc_guard sdsetdimscale_denied /\
  nc_guard sdsetdimval_comp_denied /\
  nc_guard sdwritedata_denied /\
  nc_guard sdsetexternalfile_denied /\
  nc_guard sdsetcompress_denied /\
  nc_guard sdsetchunk_denied /\
  nc_guard sdsetnbitdataset_denied /\
  nc_guard sdwritechunk_denied.
Proof. exact sd_guards_full. Qed.
Print Assumptions sd_guards_need_rdwr.

Theorem gr_guard_needs_write_bit : write_guard grsetattr_denied.
Proof. exact grsetattr_guard. Qed.
Print Assumptions gr_guard_needs_write_bit.

(** VSsetfields defines a record layout (a creation) exactly for a vdata attached with 'w' that has no records and no
    fields yet -- the condition is the conjunction of all tests enclosing that branch in the current vsfld.c *)
Theorem guard_vssetfields_defines_layout : forall acc nv wn,
  vssetfields_defines_layout acc nv wn = 1 <-> (acc = CH_W /\ nv = 0 /\ wn = 0).
Proof. exact vssetfields_define_spec. Qed.
Print Assumptions guard_vssetfields_defines_layout.

(** The write attach of an existing vdata opens its data element (Hstartwrite, the step that refuses a read-only file)
    on every path of that branch -- conditional depth 2 = the two enclosing else-branches -- and checks the result;
    SDreaddata and SDwritedata name themselves in cdf_routine_name (NCcoordck decides by that name whether a read past
    the end of one record variable is refused or filled by writing records); GRsetcompress fails exactly when the
    image's element cannot be created. *)
Theorem attach_and_read_paths_keep_their_gates :
  vsattach_w_hstartwrite_depth = 2 /\ vsattach_w_failure_checked = 1 /\
  sdreaddata_sets_routine_name = 1 /\ sdwritedata_sets_routine_name = 1.
Proof. exact round4_structure. Qed.
Print Assumptions attach_and_read_paths_keep_their_gates.

Theorem guard_grsetcompress : forall r, grsetcompress_fails_when r = 1 <-> r = FAIL.
Proof. exact grsetcompress_fail_spec. Qed.
Print Assumptions guard_grsetcompress.

Theorem guard_vattach : forall mode facc,
  vattach_denied mode facc = 1 <-> (mode = CH_W /\ Z.land facc DFACC_WRITE = 0).
Proof. exact vattach_denied_spec. Qed.
Print Assumptions guard_vattach.

Theorem guards_special_access : forall facc, Z.land facc DFACC_WRITE = 0 ->
  hlistaccess_denied facc hl_stwrite_mode = 1 /\ hxistaccess_denied facc hl_stwrite_mode = 1 /\
  hcistaccess_denied facc hl_stwrite_mode = 1 /\ hmcistaccess_denied facc hl_stwrite_mode = 1.
Proof. exact special_staccess. Qed.
Print Assumptions guards_special_access.

Theorem hopen_read_only_flags : forall mode, Z.land mode DFACC_WRITE = 0 ->
  hopen_stream_writable mode = 0 /\ Z.land (hopen_existing_access mode) DFACC_WRITE = 0.
Proof. exact hopen_readonly_flags. Qed.
Print Assumptions hopen_read_only_flags.

(** ---- SD layer (guard-structure model SDModel composed with the L1 model) ----

    For a file opened with SDstart without DFACC_WRITE, for EVERY history of SD calls -- the sixteen guarded mutators,
    SDsetfillmode, SDgetdimscale (which marks the header dirty even on a read-only handle), every reader, SDend with its
    ncclose / hdf_close / Hclose tail -- and WHATEVER L1 calls each of them issues (the L1 operation lists are
    universally quantified): no device write, the in-memory header is never changed, NC_RDWR stays clear, the L1
    record stays read-only, and every mutator returns FAIL. *)
Theorem sd_ro_silent : forall HDFmode dds fend diskver ops,
  Z.land HDFmode DFACC_WRITE = 0 ->
  let '(s', l) := sd_run (sdstart HDFmode dds fend diskver) ops in
  concat (map snd l) = [] /\ s_header s' = 0 /\ Z.land (s_flags s') NC_RDWR = 0 /\ ro_inv (s_l1 s') /\
  Forall2 (fun o rw => sd_mutating o = true -> fst rw = FAIL) ops l.
Proof. exact sd_ro_silent_full. Qed.
Print Assumptions sd_ro_silent.

Theorem sd_ro_invariant_step : forall h0 s o s' r w,
  sd_ro_inv h0 s -> sd_step s o = (s', r, w) -> sd_ro_inv h0 s' /\ w = [] /\ (sd_mutating o = true -> r = FAIL).
Proof. exact sd_step_ro. Qed.
Print Assumptions sd_ro_invariant_step.

(** the open path (mfsd.c SDstart -> file.c ncopen -> cdf.c NC_new_cdf): a request without DFACC_WRITE becomes NC_NOWRITE,
    the handle gets no flag at all, and the switch of NC_new_cdf opens the HDF file DFACC_RDONLY *)
Theorem sd_open_mode_read_only : forall HDFmode, Z.land HDFmode DFACC_WRITE = 0 ->
  sd_ncmode HDFmode = NC_NOWRITE /\ nc_hdf_mode (sd_ncmode HDFmode) = DFACC_RDONLY /\
  Z.land (nc_new_cdf_flags (sd_ncmode HDFmode)) sdstart_flag_mask = 0.
Proof. exact sdstart_readonly_mode. Qed.
Print Assumptions sd_open_mode_read_only.

Theorem sd_open_mode_write : forall HDFmode, Z.land HDFmode DFACC_WRITE <> 0 ->
  sd_ncmode HDFmode = NC_WRITE /\ nc_hdf_mode (sd_ncmode HDFmode) = DFACC_RDWR.
Proof. exact sdstart_write_mode. Qed.
Print Assumptions sd_open_mode_write.

Theorem sd_guards_refuse_without_rdwr : forall k fl, Z.land fl NC_RDWR = 0 -> sd_guard k fl = 1.
Proof. exact sd_guard_refuses. Qed.
Print Assumptions sd_guards_refuse_without_rdwr.

(** exactly fourteen functions of mfsd.c named SD... assign to handle->flags: SDstart, SDend, SDgetdimscale, ten guarded
    mutators and the helper SDIregister_data_ref; the helper has no guard of its own and is called from exactly four
    functions of mfsd.c -- SDsetcompress, SDsetchunk, SDsetexternalfile, SDsetnbitdataset -- each of them one of the sixteen
    guarded mutators, and (guards_dominate) never before their guard *)
Theorem sd_flag_writers :
  sd_flag_updates_count = 14 /\ sd_flag_updates_sdstart = 1 /\ sd_flag_updates_sdend = 2 /\ sd_flag_updates_sdgetdimscale = 1 /\
  sd_flag_updates_sdcreate = 1 /\ sd_flag_updates_sdsetdimname = 2 /\ sd_flag_updates_sdsetrange = 1 /\
  sd_flag_updates_sdsetattr = 1 /\ sd_flag_updates_sdsetdatastrs = 1 /\ sd_flag_updates_sdsetcal = 1 /\
  sd_flag_updates_sdsetfillvalue = 1 /\ sd_flag_updates_sdsetdimstrs = 1 /\ sd_flag_updates_sdsetdimscale = 1 /\
  sd_flag_updates_sdsetdimval_comp = 1 /\ sd_flag_updates_sdiregister_data_ref = 1 /\
  sd_register_callers_count = 4 /\ sd_register_callers_sdsetcompress = 1 /\ sd_register_callers_sdsetchunk = 1 /\
  sd_register_callers_sdsetexternalfile = 1 /\ sd_register_callers_sdsetnbitdataset = 1.
Proof. exact sd_flag_writers_are_modelled. Qed.
Print Assumptions sd_flag_writers.

(** the model's "marks the header dirty" table is the regenerated one: ten mutators by themselves, four through the helper *)
Theorem sd_header_marking_table :
  map sd_marks_header (seq 0 16) =
  [true; true; true; true; true; true; true; true; true; true; false; true; true; true; true; false].
Proof. exact sd_marks_table. Qed.
Print Assumptions sd_header_marking_table.

(** ---- non-vacuity: a concrete read-only file with a plain element, a special element, a length-less element,
    a vdata and a vgroup; a history mixing successful reads with every kind of write request ---- *)
Definition ex_dds : list dd :=
  [ {| d_tag := DFTAG_VERSION; d_ref := 1; d_off := 202; d_len := 92; d_special := false; d_ext := false |};
    {| d_tag := 1000; d_ref := 1; d_off := 294; d_len := 20; d_special := false; d_ext := false |};
    {| d_tag := 1001; d_ref := 1; d_off := 314; d_len := 16; d_special := true; d_ext := false |};
    {| d_tag := 1002; d_ref := 1; d_off := -1; d_len := -1; d_special := false; d_ext := false |};
    {| d_tag := DFTAG_VH; d_ref := 5; d_off := 330; d_len := 60; d_special := false; d_ext := false |};
    {| d_tag := DFTAG_VS; d_ref := 5; d_off := 390; d_len := 24; d_special := false; d_ext := false |};
    {| d_tag := DFTAG_VG; d_ref := 6; d_off := 414; d_len := 30; d_special := false; d_ext := false |} ].
Definition ex_ops : list op :=
  [ OStartAccess 1000 1 DFACC_READ; ORead 2 10; OWrite 2 4; OTrunc 2 3; OStartAccess 1000 1 DFACC_RDWR;
    OStartAccess 1002 1 DFACC_READ; OSetLength 3 8; OStartAccess 1001 1 DFACC_READ; OHLconvert 2; OPutElement 1000 1 20;
    OPutElement 1500 1 20; ODupdd 1100 1 1000 1; OCache 1; ODeldd 1000 1; OReuse 1000 1; OSpecialCreate 0 1000 1;
    OSpecialCreate 3 1600 1; OVSattach 5 CH_R; OVSwrite 6 3; OVSdefine 6 0 0; OVset 6; OVSattach (-1) CH_W; OVattach 6 CH_R; OVset 7;
    OVattach (-1) CH_W; OVdelete true 5; OVdetach 6; OEndAccess 2; OEndAccess 3; OEndAccess 4; OVdetach 7; OSync; OCache 0; OClose ].

Example ex_state_is_read_only : ro_inv (hopen_existing DFACC_READ ex_dds 444 (4, 3, 1)).
Proof. apply hopen_ro_inv. reflexivity. Qed.

(** results of the example history: the four read-side attaches and the read succeed (non-FAIL), the closes
    succeed, every write request fails, no device write *)
Example ex_results :
  map fst (snd (run (hopen_existing DFACC_READ ex_dds 444 (4, 3, 1)) ex_ops)) =
  [2; 0; -1; -1; -1; 3; -1; 4; -1; -1; -1; -1; 0; -1; -1; -1; -1; 6; -1; -1; -1; -1; 7; -1; -1; -1; 0; 0; 0; 0; 0; 0; 0; 0]
  /\ writes_of (snd (run (hopen_existing DFACC_READ ex_dds 444 (4, 3, 1)) ex_ops)) = [].
Proof. vm_compute. split; reflexivity. Qed.

(** the same history on the same file opened for writing does write (so the theorem is about the mode) *)
Example ex_rw_writes :
  writes_of (snd (run (hopen_existing DFACC_RDWR ex_dds 444 (4, 3, 1)) ex_ops)) <> [].
Proof. vm_compute. discriminate. Qed.

(** write-mode open of a file WITHOUT version element, one read access, close: the version element is written *)
Example ex_version_written_after_access :
  let f := hopen_existing DFACC_RDWR (tl ex_dds) 444 (0, 0, 0) in
  snd (hclose f) = [] /\
  (let '(f1, aid, _) := hstartaccess f 1000 1 DFACC_READ in
   let '(f2, _, _) := hendaccess f1 aid in snd (hclose f2)) = [WData 92; WDDBlocks; WFileEnd].
Proof. vm_compute. split; reflexivity. Qed.

(** read-only open of a file WITHOUT version element, one read access (marks the version modified), close: the close
    succeeds and writes nothing (on the merged tree before the repair it failed and left the file open) *)
Example ex_read_only_close_of_versionless_file :
  let f := hopen_existing DFACC_READ (tl ex_dds) 444 (0, 0, 0) in
  let '(f1, aid, _) := hstartaccess f 1000 1 DFACC_READ in
  let '(f2, _, _) := hendaccess f1 aid in
  f_vmod f2 = 1 /\ (let '(f3, r, w) := hclose f2 in (r, w, f_open f3)) = (0, [], false).
Proof. vm_compute. split; reflexivity. Qed.

(** a granted reopen for writing does give the record the write bit (so the theorems above are about refusal) *)
Example ex_granted_reopen_upgrades :
  let f := hopen_existing DFACC_READ ex_dds 444 (4, 3, 1) in
  Z.land (f_access (fst (fst (hopen_again f DFACC_RDWR true)))) DFACC_WRITE = 2 /\
  Z.land (f_access (fst (fst (hopen_again f DFACC_RDWR false)))) DFACC_WRITE = 0.
Proof. vm_compute. split; reflexivity. Qed.

(** SD: a history with every kind of call; the L1 calls the mutators would issue are real write requests.  Read-only:
    the mutators fail, SDgetdimscale leaves NC_HDIRTY set, SDend still writes nothing.  The same history after
    SDstart(DFACC_RDWR): the mutators go ahead, the header changes, device writes happen. *)
Definition ex_sd_ops : list sdop :=
  [ SRead [OStartAccess 1000 1 DFACC_READ; ORead 2 10; OEndAccess 2]; SMut 0 [OPutElement 720 9 40]; SMut 3 [OPutElement 1962 9 30];
    SGetDimScale [OStartAccess 1000 1 DFACC_READ; OEndAccess 2]; SMut 10 [OStartWrite 702 3 64; OWrite 2 64; OEndAccess 2];
    SSetFill []; SMut 40 []; SEnd [OPutElement 1962 2 100] [OPutElement 1962 3 4] [OVSattach 5 CH_W; OVSwrite 6 1; OVdetach 6] ].
Example ex_sd_read_only :
  let '(s', l) := sd_run (sdstart DFACC_READ ex_dds 444 (4, 3, 1)) ex_sd_ops in
  map fst l = [0; -1; -1; 0; -1; -1; -1; 0] /\ concat (map snd l) = [] /\ s_header s' = 0 /\ s_flags s' = NC_HDIRTY /\ s_open s' = false.
Proof. vm_compute. repeat split; reflexivity. Qed.
Example ex_sd_write_mode :
  let '(s', l) := sd_run (sdstart DFACC_RDWR ex_dds 444 (4, 3, 1)) ex_sd_ops in
  map fst l = [0; 0; 0; 0; 0; 0; -1; 0] /\ s_header s' = 3 /\ concat (map snd l) <> [].
Proof. vm_compute. repeat split; try reflexivity. discriminate. Qed.
Example ex_sd_state_is_read_only : sd_ro_inv 0 (sdstart DFACC_READ ex_dds 444 (4, 3, 1)).
Proof. apply sdstart_ro_inv. reflexivity. Qed.

(** S: the monitor flags a succeeding mutator, a device write and changed bytes while the file is read-only *)
Module SpecExample.
Import H4.ROSpec.
Import String.
Local Open Scope string_scope.
Example ex_spec_flags :
  let s := {| opens := [((0, 0), false)]; snapped := true; rw_seen := false; tainted := false; dump0 := true |} in
  snd (ROSpec.step s {| e_name := "sdsetattr"; e_args := [1; 0; 0; 0; 2; 3; 9]; e_rc := ROk; e_wbytes := 0; e_wcalls := 0; e_wcreates := 0; e_aux := 0 |}) = [MutatorSucceeded] /\
  snd (ROSpec.step s {| e_name := "hsync"; e_args := [0]; e_rc := RFail; e_wbytes := 6; e_wcalls := 1; e_wcreates := 0; e_aux := 0 |}) = [WriteReachedDevice] /\
  snd (ROSpec.step s {| e_name := "startaccess"; e_args := [0; 0; 1000; 1; 3]; e_rc := RFail; e_wbytes := 0; e_wcalls := 0; e_wcreates := 0; e_aux := 0 |}) = [] /\
  snd (ROSpec.step s {| e_name := "check"; e_args := []; e_rc := ROk; e_wbytes := 0; e_wcalls := 0; e_wcreates := 0; e_aux := 0 |}) = [BytesChanged].
Proof. vm_compute. repeat split; reflexivity. Qed.
End SpecExample.
