(** C14 -- placeholder while the model is being built (replaced by the full statement file). *)
Require Import H4.ROSpec.
Theorem spec_init_not_read_only : read_only_now init = false.
Proof. reflexivity. Qed.
Print Assumptions spec_init_not_read_only.
