(** C17 -- proofs about the write-log model (CrashModel.v) against the specification (CrashSpec.v).

    Part 0: the model's control skeletons are the ones of the current sources (generated file Gen_Crash.v).
    Part 1: append_only_above_old_end -- by induction over the history.
    Part 2: prefix safety of the flush -- every image reachable by any subset-in-order (in particular every
            prefix) of the flush's writes parses and keeps every old descriptor and its bytes. *)
From Coq Require Import ZArith List Bool Lia.
Require Coq.Strings.String.
Require Import H4.gen.Gen_Crash H4.CrashSpec H4.CrashModel H4.CrashBytes.
Import ListNotations.
Local Open Scope Z_scope.

(** ---- Part 0: tie to the sources.  These lists are regenerated from hfile.c / hfiledd.c on every run; the model
    functions named on the right were written against exactly these skeletons. *)
Import Coq.Strings.String.StringSyntax.
Local Open Scope string_scope.
Lemma skel_HPgetdiskblock : HPgetdiskblock_skel =
  ["if(block_size>0)"; "if(file_rec->cache)"; "else"; "HPseek(file_rec,ret_value+block_size-1)";
   "HP_write(file_rec,&temp,1)"; "if(moveto==(!0))"; "HPseek(file_rec,ret_value)"].      (* getdiskblock *)
Proof. reflexivity. Qed.
Lemma skel_HIextend_file : HIextend_file_skel =
  ["HPseek(file_rec,file_rec->f_end_off)"; "HP_write(file_rec,&temp,1)"].                 (* extend_file *)
Proof. reflexivity. Qed.
Lemma skel_HIsync : HIsync_skel =
  ["if(file_rec->cache&&file_rec->dirty)"; "if(file_rec->dirty&0x01)"; "HTPsync(file_rec)";
   "if(file_rec->dirty&0x02)"; "HIextend_file(file_rec)"].                                 (* sync *)
Proof. reflexivity. Qed.
Lemma skel_HTInew_dd_block : HTInew_dd_block_skel =
  ["HPgetdiskblock(file_rec,2+4+(ndds*12),(!0))"; "if(file_rec->cache)"; "HP_write(file_rec,ddhead,2+4)";
   "HP_write(file_rec,tbuf,ndds*12)"; "if(file_rec->cache)"; "else"; "else"; "HPseek(file_rec,offset)";
   "HP_write(file_rec,ddhead,4)"].                                                         (* new_dd_block *)
Proof. reflexivity. Qed.
Lemma skel_HTIupdate_dd : HTIupdate_dd_skel =
  ["if(file_rec->cache)"; "else"; "HPseek(file_rec,offset)"; "HP_write(file_rec,tbuf,12)"]. (* update_dd *)
Proof. reflexivity. Qed.
Lemma skel_HTPsync : HTPsync_skel =
  ["if(block->dirty==(!0))"; "HPseek(file_rec,block->myoffset)"; "HP_write(file_rec,ddhead,2+4)";
   "HP_write(file_rec,tbuf,ndds*12)"].                                                     (* sync_blocks *)
Proof. reflexivity. Qed.
Lemma skel_HTPcreate : HTPcreate_skel =
  ["HTIfind_dd(file_rec,tag,ref,&dd_ptr,1)"; "HTIfind_dd(file_rec,(uint16)1,(uint16)0,&dd_ptr,1)";
   "HTInew_dd_block(file_rec)"; "else"; "HTIupdate_dd(file_rec,dd_ptr)"].               (* has_dd; create_dd *)
Proof. reflexivity. Qed.
Lemma skel_HPfreediskblock : HPfreediskblock_skel = [].                   (* releases nothing: op_del frees no space *)
Proof. reflexivity. Qed.
Lemma skel_Hdeldd : Hdeldd_skel = ["HTPselect(file_rec,tag,ref)"; "HTPdelete(ddid)"].                (* op_del *)
Proof. reflexivity. Qed.
Lemma skel_HTPdelete : HTPdelete_skel =
  ["HPfreediskblock(file_rec,dd_ptr->offset,dd_ptr->length)"; "HTIunregister_tag_ref(file_rec,dd_ptr)";
   "HTIupdate_dd(file_rec,dd_ptr)"].                                                                 (* op_del *)
Proof. reflexivity. Qed.
Lemma skel_Hnewref : Hnewref_skel =
  ["if(file_rec->maxref<((uint16)65535))"; "ret_value=++(file_rec->maxref);"; "else";
   "for(i_ref=1;i_ref<=(uint32)((uint16)65535);i_ref++)"; "dd_t*dd_ptr=((void*)0);";
   "HTIfind_dd(file_rec,(uint16)0,ref,&dd_ptr,1)"; "ret_value=ref;"; "break;"].
   (* newref, first_free: every candidate is searched from the head of the DD list (dd_ptr reset inside the loop) *)
Proof. reflexivity. Qed.
(* every forward walk of HTIfind_dd goes over ALL DD blocks: outer loop over the block list, inner loop over the
   block, index reset to 0 before the next block (find_null, has_dd, ref_used, find_dd walk all blocks) *)
Lemma skel_HTIfind_dd : HTIfind_dd_skel =
  ["else"; "block=file_rec->ddhead;"; "idx=0;"; "else"; "idx=((*pdd)-&block->ddlist[0])+1;";
   "for(;block;block=block->next)"; "for(;idx<block->ndds;idx++,list++)"; "idx=0;";
   "else"; "block=file_rec->ddhead;"; "else"; "block=file_rec->ddnull;"; "if(file_rec->ddnull_idx<0)"; "idx=0;";
   "else"; "idx=file_rec->ddnull_idx+1;";
   "for(;block;block=block->next)"; "for(;idx<block->ndds;idx++,list++)"; "idx=idx;"; "idx=0;";
   "else"; "for(;block;block=block->next)"; "for(;idx<block->ndds;idx++,list++)"; "idx=0;";
   "else"; "for(;block;block=block->next)"; "for(;idx<block->ndds;idx++,list++)"; "idx=0;";
   "else"; "for(;block;block=block->next)"; "for(;idx<block->ndds;idx++,list++)"; "idx=0;";
   "else"; "for(;block;block=block->next)"; "for(;idx<block->ndds;idx++,list++)"; "idx=0;";
   "else"; "block=file_rec->ddlast;"; "idx=block->ndds-1;"; "else"; "idx=((*pdd)-&block->ddlist[0])-1;";
   "for(;block;)"; "for(;idx>=0;idx--)"; "if(list[idx].tag==1&&look_tag!=1)";
   "if(((look_tag==0||list[idx].tag==look_tag)||(special_tag!=1&&list[idx].tag==special_tag))&&(look_ref==0||list[idx].ref==look_ref))";
   "if(block!=((void*)0))"; "idx=block->ndds-1;"].
Proof. reflexivity. Qed.
(* ALL places of hfile.c / hfiledd.c that change f_end_off: each one is modelled and none lowers it
   (load; HPgetdiskblock += size >= 0; Hwrite / HTIupdate_dd / HTInew_dd_block only under 'greater than' or at the
   end of a block just allocated) -- the basis of `mono` *)
Lemma census_f_end_off : f_end_off_writers =
  ["Hwrite: file_rec->f_end_off=file_rec->f_cur_off";
   "HPgetdiskblock: file_rec->f_end_off+=block_size";
   "HTPstart: file_rec->f_end_off=end_off";
   "HTPinit: file_rec->f_end_off=block->myoffset+(NDDS_SZ+OFFSET_SZ)+(block->ndds*DD_SZ)";
   "HTInew_dd_block: file_rec->f_end_off=block->myoffset+(NDDS_SZ+OFFSET_SZ)+(block->ndds*DD_SZ)";
   "HTIupdate_dd: file_rec->f_end_off=dd_ptr->offset+dd_ptr->length"].
Proof. reflexivity. Qed.
(* Hread adds reserved space to the file before reading (op_get); every physical position change and transfer goes
   through HPseek / HP_write / HP_read, which keep f_cur_off / last_op (the model's "a write lands at the offset
   the caller sought" rests on it) *)
Lemma skel_Hread : Hread_skel =
  ["if(file_rec->cache&&(file_rec->dirty&0x02))"; "HIextend_file(file_rec)"; "file_rec->dirty&=~0x02;";
   "HPseek(file_rec,access_rec->posn+data_off)"; "HP_read(file_rec,data,length)"].
Proof. reflexivity. Qed.
Lemma skel_HP_write : HP_write_skel =
  ["if(file_rec->last_op==H4_OP_READ||file_rec->last_op==H4_OP_UNKNOWN)"; "file_rec->last_op=H4_OP_UNKNOWN;";
   "HPseek(file_rec,file_rec->f_cur_off)"; "file_rec->f_cur_off+=bytes;"; "file_rec->last_op=H4_OP_WRITE;"].
Proof. reflexivity. Qed.
Lemma skel_HPseek : HPseek_skel =
  ["if(file_rec->f_cur_off!=offset||file_rec->last_op==H4_OP_UNKNOWN)"; "file_rec->f_cur_off=offset;";
   "file_rec->last_op=H4_OP_SEEK;"].
Proof. reflexivity. Qed.
Lemma census_raw_stream : raw_stream_users =
  ["HIvalid_magic: HI_SEEK("; "HIvalid_magic: HI_READ("; "HP_read: HI_READ("; "HPseek: HI_SEEK("; "HP_write: HI_WRITE("].
Proof. reflexivity. Qed.
(* Hopen: an existing file is opened and its descriptors are read (load) unless the mode is EXACTLY DFACC_CREATE (4);
   a file is created (HTPinit) only for that mode or when it did not exist.  Hdupdd: HTPcreate before the update. *)
Lemma skel_Hopen : Hopen_skel =
  ["if(!path||((acc_mode&7)!=acc_mode))"; "HIget_filerec_node(path)"; "if(acc_mode==4)";
   "if((acc_mode&2)&&!(file_rec->access&2))"; "else"; "if(acc_mode!=4)"; "if((acc_mode&2)&&(*__errno_location())==2)";
   "else"; "else"; "HTPstart(file_rec)"; "if(acc_mode==4||new_file)"; "else"; "HTPinit(file_rec,ndds)"; "else"].
Proof. reflexivity. Qed.
Lemma skel_Hdupdd : Hdupdd_skel =
  ["HTPselect(file_rec,old_tag,old_ref)"; "HTPcreate(file_rec,tag,ref)";
   "HTPinquire(old_dd,((void*)0),((void*)0),&old_off,&old_len)"; "HTPupdate(new_dd,old_off,old_len)"].   (* op_dup *)
Proof. reflexivity. Qed.
Lemma session_entry_lemma :
  Hopen_skel =
    ["if(!path||((acc_mode&7)!=acc_mode))"; "HIget_filerec_node(path)"; "if(acc_mode==4)";
     "if((acc_mode&2)&&!(file_rec->access&2))"; "else"; "if(acc_mode!=4)"; "if((acc_mode&2)&&(*__errno_location())==2)";
     "else"; "else"; "HTPstart(file_rec)"; "if(acc_mode==4||new_file)"; "else"; "HTPinit(file_rec,ndds)"; "else"] /\
  Hdupdd_skel =
    ["HTPselect(file_rec,old_tag,old_ref)"; "HTPcreate(file_rec,tag,ref)";
     "HTPinquire(old_dd,((void*)0),((void*)0),&old_off,&old_len)"; "HTPupdate(new_dd,old_off,old_len)"] /\
  (forall fr t r ot orf, has_dd fr t r = true -> run_op fr (OpDup t r ot orf) = (fr, []) \/
                         snd (run_op fr (OpDup t r ot orf)) = []).
Proof.
  split; [exact skel_Hopen|]. split; [exact skel_Hdupdd|].
  intros fr t r ot orf H. simpl. unfold op_dup.
  destruct (find_dd (f_blocks fr) ot orf) as [[bi i]|]; [|left; reflexivity].
  destruct (nth_error (f_blocks fr) bi); [|left; reflexivity].
  destruct (nth_error (b_dds (m_blk m)) i); [|left; reflexivity].
  rewrite H. left. reflexivity.
Qed.

Lemma census_maxref : maxref_writers =
  ["Hopen: file_rec->maxref=0"; "Hstartaccess: file_rec->maxref=new_ref"; "HTPstart: file_rec->maxref=0";
   "HTPstart: file_rec->maxref=curr_dd_ptr->ref"; "HTPinit: file_rec->maxref=0"; "HTPcreate: file_rec->maxref=ref";
   "Hnewref: ++(file_rec->maxref)"].
Proof. reflexivity. Qed.
Local Close Scope string_scope.

Lemma consts_format : MAGICLEN = 4 /\ NDDS_SZ = 2 /\ OFFSET_SZ = 4 /\ DD_SZ = 12 /\ hdr_sz = 6 /\
  DFTAG_NULL = 1 /\ INVALID_OFFSET = -1 /\ INVALID_LENGTH = -1 /\ HDFMAGIC = [14; 3; 19; 1].
Proof. repeat split; reflexivity. Qed.

Lemma exprs_sources : forall a b,
  getdiskblock_mark_off a b = a + b - 1 /\ getdiskblock_advance b = b /\ newblock_size b = 6 + b * 12 /\
  newblock_end a b = a + 6 + b * 12 /\ prev_next_field_off a = a + 2 /\ dd_disk_off a b = a + 6 + b * 12 /\
  start_block_end a b = a + 6 + b * 12.
Proof.
  intros. unfold getdiskblock_mark_off, getdiskblock_advance, newblock_size, newblock_end, prev_next_field_off,
    dd_disk_off, start_block_end. repeat split; lia.
Qed.

(** ---- Part 1: before the flush every write lies at or above the old end of file *)
Definition hd_ndds (fr : frec) : Z := match f_blocks fr with [] => 0 | hd :: _ => b_ndds (m_blk hd) end.

Definition mono (e : Z) (fr fr' : frec) (w : wlog) : Prop :=
  f_cache fr' = f_cache fr /\ f_end fr <= f_end fr' /\ Forall (fun x => e <= fst x) w /\ hd_ndds fr' = hd_ndds fr.

Lemma mono_refl e fr : mono e fr fr [].
Proof. unfold mono; repeat split; auto; lia. Qed.

Lemma mono_trans e fr fr1 fr2 w1 w2 : mono e fr fr1 w1 -> mono e fr1 fr2 w2 -> mono e fr fr2 (w1 ++ w2).
Proof.
  intros (A & B & C & D) (A' & B' & C' & D'). unfold mono. repeat split; try congruence; try lia.
  apply Forall_app; auto.
Qed.

Lemma hd_upd_block bi f bl :
  (forall mb, b_ndds (m_blk (f mb)) = b_ndds (m_blk mb)) ->
  match upd_block bi f bl with [] => 0 | hd :: _ => b_ndds (m_blk hd) end =
  match bl with [] => 0 | hd :: _ => b_ndds (m_blk hd) end.
Proof. intros H. destruct bl, bi; simpl; auto. Qed.

Lemma getdiskblock_mono fr size e :
  f_cache fr = true -> 0 <= size -> e <= f_end fr ->
  forall ret fr' w, getdiskblock fr size = (ret, fr', w) ->
  ret = f_end fr /\ w = [] /\ mono e fr fr' w /\ f_end fr' = f_end fr + size.
Proof.
  intros Hc Hs He ret fr' w. unfold getdiskblock. rewrite Hc.
  destruct (0 <? size); intros H; inversion H; subst; clear H; unfold mono, hd_ndds, getdiskblock_advance; simpl;
    repeat split; auto; lia.
Qed.

Lemma update_dd_mono fr bi i d e :
  f_cache fr = true -> e <= f_end fr ->
  forall fr' w, update_dd fr bi i d = (fr', w) -> w = [] /\ mono e fr fr' w.
Proof.
  intros Hc He fr' w. unfold update_dd. rewrite Hc.
  match goal with |- context [if ?c then _ else _] => destruct c eqn:Hcond end;
    intros H; inversion H; subst; clear H; unfold mono, hd_ndds; simpl; repeat split; auto; try lia.
  - apply andb_prop in Hcond. destruct Hcond as [_ Hlt]. apply Z.ltb_lt in Hlt. simpl in Hlt. lia.
  - apply hd_upd_block. intros; reflexivity.
  - apply hd_upd_block. intros; reflexivity.
Qed.

Lemma new_dd_block_mono fr e :
  f_cache fr = true -> 0 <= hd_ndds fr -> e <= f_end fr ->
  forall fr' w, new_dd_block fr = (fr', w) -> mono e fr fr' w.
Proof.
  intros Hc Hn He fr' w. unfold new_dd_block. destruct (f_blocks fr) as [|hd tl] eqn:Hb.
  - intros H; inversion H; subst. apply mono_refl.
  - assert (Hnd : 0 <= b_ndds (m_blk hd)) by (unfold hd_ndds in Hn; rewrite Hb in Hn; exact Hn).
    destruct (getdiskblock fr (newblock_size (b_ndds (m_blk hd)))) as [[off fr1] w1] eqn:G.
    assert (Hsz : 0 <= newblock_size (b_ndds (m_blk hd))) by (unfold newblock_size; lia).
    destruct (getdiskblock_mono fr _ e Hc Hsz He _ _ _ G) as (Hoff & Hw1 & (M1 & M2 & M3 & M4) & Hend).
    assert (Hb1 : f_blocks fr1 = hd :: tl).
    { unfold getdiskblock in G. rewrite Hc in G. destruct (0 <? _) in G; inversion G; subst; simpl; auto. }
    rewrite Hc. intros H; inversion H; subst; clear H.
    unfold mono, hd_ndds. simpl. rewrite Hc. simpl.
    split; [congruence|]. split; [unfold newblock_end, newblock_size in *; lia|]. split.
    + repeat constructor; simpl; unfold hdr_sz, NDDS_SZ, OFFSET_SZ; lia.
    + rewrite Hb1, Hb. simpl length. replace (S (length tl) - 1)%nat with (length tl) by lia.
      destruct tl; simpl; auto.
Qed.

Lemma mono_set_maxref e fr fr' w (c : bool) r :
  mono e fr fr' w -> mono e fr (if c then set_maxref fr' r else fr') w.
Proof. intros (A & B & C & D). destruct c; unfold mono, hd_ndds; simpl; repeat split; auto. Qed.

Lemma create_dd_mono fr tag ref e :
  f_cache fr = true -> 0 <= hd_ndds fr -> e <= f_end fr ->
  forall slot fr' w, create_dd fr tag ref = (slot, fr', w) -> mono e fr fr' w.
Proof.
  intros Hc Hn He slot fr' w. unfold create_dd.
  destruct (find_null (f_blocks fr)) as [s|].
  - destruct (update_dd fr (fst s) (snd s) _) as [fr2 w2] eqn:U. intros H; inversion H; subst; clear H.
    destruct (update_dd_mono _ _ _ _ e Hc He _ _ U) as [-> M]. apply mono_set_maxref. exact M.
  - destruct (new_dd_block fr) as [fr1 w1] eqn:N.
    pose proof (new_dd_block_mono fr e Hc Hn He _ _ N) as M1.
    destruct (update_dd fr1 _ _ _) as [fr2 w2] eqn:U. intros H; inversion H; subst; clear H.
    destruct M1 as (A & B & C & D).
    destruct (update_dd_mono fr1 _ _ _ e (eq_trans A Hc) ltac:(lia) _ _ U) as [-> M2].
    apply mono_set_maxref.
    apply (mono_trans e fr fr1 fr2 w1 []); auto. repeat split; auto.
Qed.

Lemma mono_set_end e fr fr' w x :
  mono e fr fr' w -> mono e fr (if f_end fr' <? x then set_end fr' x else fr') w.
Proof.
  intros (A & B & C & D). destruct (Z.ltb_spec (f_end fr') x); unfold mono; simpl; repeat split; auto; lia.
Qed.

Lemma op_put_mono fr tag ref len data e :
  f_cache fr = true -> 0 <= hd_ndds fr -> e <= f_end fr -> 0 <= len ->
  forall fr' w, op_put fr tag ref len data = (fr', w) -> mono e fr fr' w.
Proof.
  intros Hc Hn He Hl fr' w. unfold op_put.
  destruct (has_dd fr tag ref); [intros H; inversion H; subst; apply mono_refl|].
  destruct (create_dd fr tag ref) as [[slot fr1] w1] eqn:C.
  pose proof (create_dd_mono fr tag ref e Hc Hn He _ _ _ C) as M1.
  destruct M1 as (A1 & B1 & C1 & D1).
  destruct (getdiskblock fr1 len) as [[off fr2] w2] eqn:G.
  destruct (getdiskblock_mono fr1 len e (eq_trans A1 Hc) Hl ltac:(lia) _ _ _ G) as (Hoff & Hw2 & M2 & Hend).
  destruct M2 as (A2 & B2 & C2 & D2).
  destruct (update_dd fr2 (fst slot) (snd slot) _) as [fr3 w3] eqn:U.
  destruct (update_dd_mono fr2 _ _ _ e ltac:(congruence) ltac:(lia) _ _ U) as [Hw3 M3].
  destruct M3 as (A3 & B3 & C3 & D3).
  assert (M : mono e fr fr3 (w1 ++ w2 ++ w3)).
  { unfold mono. repeat split; try congruence; try lia. repeat (apply Forall_app; split); auto. }
  destruct data as [|b0 data'].
  - intros H; inversion H; subst. exact M.
  - intros H; inversion H; subst; clear H.
    replace (w1 ++ [] ++ [] ++ [(f_end fr1, b0 :: data')]) with ((w1 ++ [] ++ []) ++ [(f_end fr1, b0 :: data')])
      by (rewrite <- !app_assoc; reflexivity).
    apply (mono_trans e fr fr3 _ (w1 ++ [] ++ []) [(f_end fr1, b0 :: data')]); auto.
    destruct (Z.ltb_spec (f_end fr3) (f_end fr1 + zlen (b0 :: data'))); unfold mono; simpl; repeat split; auto;
      try lia; repeat constructor; simpl; lia.
Qed.

Lemma app_writes_mono chunks : forall fr slot tag ref off posn e,
  f_cache fr = true -> e <= f_end fr -> e <= off -> 0 <= posn ->
  forall fr' w, app_writes fr slot tag ref off posn chunks = (fr', w) -> mono e fr fr' w.
Proof.
  induction chunks as [|c r IH]; intros fr slot tag ref off posn e Hc He Ho Hp fr' w; simpl.
  - intros H; inversion H; subst. apply mono_refl.
  - destruct (update_dd fr (fst slot) (snd slot) _) as [fr1 w1] eqn:U.
    destruct (update_dd_mono fr _ _ _ e Hc He _ _ U) as [Hw1 M1]. destruct M1 as (A1 & B1 & C1 & D1).
    set (fr2 := if f_end fr1 <? off + posn + zlen c then set_end fr1 (off + posn + zlen c) else fr1).
    assert (M2 : mono e fr fr2 w1).
    { unfold fr2. apply mono_set_end. repeat split; auto. }
    destruct M2 as (A2 & B2 & C2 & D2).
    destruct (app_writes fr2 slot tag ref off (posn + zlen c) r) as [fr3 w3] eqn:R.
    assert (0 <= zlen c) by (unfold zlen; lia).
    pose proof (IH fr2 slot tag ref off (posn + zlen c) e ltac:(congruence) ltac:(lia) Ho ltac:(lia) _ _ R) as M3.
    intros H0; inversion H0; subst; clear H0.
    apply (mono_trans e fr fr2 fr' [] ([(off + posn, c)] ++ w3)).
    + repeat split; auto.
    + destruct M3 as (A3 & B3 & C3 & D3). repeat split; auto. simpl. constructor; [simpl; lia | exact C3].
Qed.

Lemma op_app_mono fr tag ref chunks e :
  f_cache fr = true -> 0 <= hd_ndds fr -> e <= f_end fr ->
  forall fr' w, op_app fr tag ref chunks = (fr', w) -> mono e fr fr' w.
Proof.
  intros Hc Hn He fr' w. unfold op_app.
  destruct (has_dd fr tag ref); [intros H; inversion H; subst; apply mono_refl|].
  destruct (create_dd fr tag ref) as [[slot fr1] w1] eqn:C.
  pose proof (create_dd_mono fr tag ref e Hc Hn He _ _ _ C) as M1.
  destruct chunks as [|c r].
  - intros H; inversion H; subst. exact M1.
  - destruct M1 as (A1 & B1 & C1 & D1).
    assert (Hz : 0 <= zlen c) by (unfold zlen; lia).
    destruct (getdiskblock fr1 (zlen c)) as [[off fr2] w2] eqn:G.
    destruct (getdiskblock_mono fr1 _ e (eq_trans A1 Hc) Hz ltac:(lia) _ _ _ G) as (Hoff & Hw2 & M2 & Hend).
    destruct M2 as (A2 & B2 & C2 & D2).
    destruct (update_dd fr2 (fst slot) (snd slot) _) as [fr3 w3] eqn:U.
    destruct (update_dd_mono fr2 _ _ _ e ltac:(congruence) ltac:(lia) _ _ U) as [Hw3 M3].
    destruct M3 as (A3 & B3 & C3 & D3).
    set (fr4 := if f_end fr3 <? off + zlen c then set_end fr3 (off + zlen c) else fr3).
    assert (M4 : mono e fr fr4 (w1 ++ w2 ++ w3)).
    { unfold fr4. apply mono_set_end. unfold mono. repeat split; try congruence; try lia.
      repeat (apply Forall_app; split); auto. }
    destruct (app_writes fr4 slot tag ref off (zlen c) r) as [fr5 w5] eqn:R.
    destruct M4 as (A4 & B4 & C4 & D4).
    pose proof (app_writes_mono r fr4 slot tag ref off (zlen c) e ltac:(congruence) ltac:(lia) ltac:(lia) Hz _ _ R) as M5.
    intros H0; inversion H0; subst; clear H0.
    replace (w1 ++ [] ++ [] ++ [(f_end fr1, c)] ++ w5) with ((w1 ++ [] ++ []) ++ ([(f_end fr1, c)] ++ w5))
      by (rewrite <- !app_assoc; reflexivity).
    apply (mono_trans e fr fr4 fr'); [repeat split; auto|].
    destruct M5 as (A5 & B5 & C5 & D5). repeat split; auto. simpl. constructor; [simpl; lia | exact C5].
Qed.

Lemma op_putn_mono fr tag len data e :
  f_cache fr = true -> 0 <= hd_ndds fr -> e <= f_end fr -> 0 <= len ->
  forall fr' w, op_putn fr tag len data = (fr', w) -> mono e fr fr' w.
Proof.
  intros Hc Hn He Hl fr' w. unfold op_putn.
  destruct (newref fr) as [ref fr1] eqn:N.
  assert (M1 : mono e fr fr1 []).
  { unfold newref in N. remember (first_free fr (Z.to_nat MAX_REF) 1) as ff.
    destruct (f_maxref fr <? MAX_REF); inversion N; subst ref fr1; unfold mono, hd_ndds;
      cbn [f_cache f_end f_blocks set_maxref]; repeat split; auto; lia. }
  destruct M1 as (A & B & C & D).
  destruct ((0 <? ref) && (ref <? 65536)).
  - intros H. pose proof (op_put_mono fr1 tag ref len data e ltac:(congruence) ltac:(congruence) ltac:(lia) Hl _ _ H) as M2.
    apply (mono_trans e fr fr1 fr' [] w); auto. repeat split; auto.
  - intros H; inversion H; subst. repeat split; auto.
Qed.

Lemma op_del_mono fr tag ref e :
  f_cache fr = true -> e <= f_end fr ->
  forall fr' w, op_del fr tag ref = (fr', w) -> mono e fr fr' w.
Proof.
  intros Hc He fr' w. unfold op_del.
  destruct (find_dd (f_blocks fr) tag ref) as [[bi i]|]; [|intros H; inversion H; subst; apply mono_refl].
  destruct (nth_error (f_blocks fr) bi) as [mb|]; [|intros H; inversion H; subst; apply mono_refl].
  destruct (nth_error (b_dds (m_blk mb)) i) as [d|]; [|intros H; inversion H; subst; apply mono_refl].
  intros U. destruct (update_dd_mono _ _ _ _ e Hc He _ _ U) as [-> M]. exact M.
Qed.

Lemma op_get_mono fr e :
  f_cache fr = true -> e <= f_end fr ->
  forall fr' w, op_get fr = (fr', w) ->
  mono e fr fr' w /\ f_end fr' = f_end fr /\ f_blocks fr' = f_blocks fr.
Proof.
  intros Hc He fr' w. unfold op_get. rewrite Hc. simpl.
  destruct (f_end_dirty fr); intros H; inversion H; subst; unfold mono, hd_ndds; simpl; repeat split; auto; try lia;
    repeat constructor; simpl; lia.
Qed.

Lemma op_copy_mono fr tag ref len data e :
  f_cache fr = true -> 0 <= hd_ndds fr -> e <= f_end fr -> 0 <= len ->
  forall fr' w, op_copy fr tag ref len data = (fr', w) -> mono e fr fr' w.
Proof.
  intros Hc Hn He Hl fr' w. unfold op_copy.
  destruct (has_dd fr tag ref); [intros H; inversion H; subst; apply mono_refl|].
  destruct (create_dd fr tag ref) as [[slot fr1] w1] eqn:C.
  pose proof (create_dd_mono fr tag ref e Hc Hn He _ _ _ C) as M1.
  destruct M1 as (A1 & B1 & C1 & D1).
  destruct (getdiskblock fr1 len) as [[off fr2] w2] eqn:G.
  destruct (getdiskblock_mono fr1 len e (eq_trans A1 Hc) Hl ltac:(lia) _ _ _ G) as (Hoff & Hw2 & M2 & Hend).
  destruct M2 as (A2 & B2 & C2 & D2).
  destruct (update_dd fr2 (fst slot) (snd slot) _) as [fr3 w3] eqn:U.
  destruct (update_dd_mono fr2 _ _ _ e ltac:(congruence) ltac:(lia) _ _ U) as [Hw3 M3].
  destruct M3 as (A3 & B3 & C3 & D3).
  assert (M : mono e fr fr3 (w1 ++ w2 ++ w3)).
  { unfold mono. repeat split; try congruence; try lia. repeat (apply Forall_app; split); auto. }
  destruct (op_get fr3) as [fr4 w4] eqn:Gt.
  destruct (op_get_mono fr3 e ltac:(congruence) ltac:(lia) _ _ Gt) as (M4 & E4 & _).
  assert (M' : mono e fr fr4 ((w1 ++ w2 ++ w3) ++ w4)) by (eapply mono_trans; eauto).
  destruct M' as (A5 & B5 & C5 & D5).
  destruct data as [|b0 data'].
  - intros H. injection H as <- <-. rewrite <- !app_assoc in C5. repeat split; auto.
  - intros H. injection H as <- <-.
    replace (w1 ++ w2 ++ w3 ++ w4 ++ [(off, b0 :: data')]) with (((w1 ++ w2 ++ w3) ++ w4) ++ [(off, b0 :: data')])
      by (rewrite <- !app_assoc; reflexivity).
    apply (mono_trans e fr fr4); [repeat split; auto|].
    destruct (Z.ltb_spec (f_end fr4) (off + zlen (b0 :: data'))); unfold mono, hd_ndds; simpl; repeat split; auto;
      try lia; repeat constructor; simpl; lia.
Qed.

Lemma op_rewrite_mono fr tag ref len data e :
  f_cache fr = true -> e <= f_end fr -> 0 <= len ->
  forall fr' w, op_rewrite fr tag ref len data = (fr', w) -> mono e fr fr' w.
Proof.
  intros Hc He Hl fr' w. unfold op_rewrite.
  destruct (find_dd (f_blocks fr) tag ref) as [[bi i]|]; [|intros H; inversion H; subst; apply mono_refl].
  destruct (nth_error (f_blocks fr) bi) as [mb|]; [|intros H; inversion H; subst; apply mono_refl].
  destruct (nth_error (b_dds (m_blk mb)) i) as [d|]; [|intros H; inversion H; subst; apply mono_refl].
  destruct (update_dd fr bi i _) as [fr1 w1] eqn:U1.
  destruct (update_dd_mono _ _ _ _ e Hc He _ _ U1) as [Hw1 M1]. destruct M1 as (A1 & B1 & C1 & D1).
  destruct (getdiskblock fr1 len) as [[off fr2] w2] eqn:G.
  destruct (getdiskblock_mono fr1 len e (eq_trans A1 Hc) Hl ltac:(lia) _ _ _ G) as (Hoff & Hw2 & M2 & Hend).
  destruct M2 as (A2 & B2 & C2 & D2).
  destruct (update_dd fr2 bi i _) as [fr3 w3] eqn:U.
  destruct (update_dd_mono fr2 _ _ _ e ltac:(congruence) ltac:(lia) _ _ U) as [Hw3 M3].
  destruct M3 as (A3 & B3 & C3 & D3).
  assert (M : mono e fr fr3 (w1 ++ w2 ++ w3)).
  { unfold mono. repeat split; try congruence; try lia. repeat (apply Forall_app; split); auto. }
  destruct M as (A5 & B5 & C5 & D5).
  destruct data as [|b0 data'].
  - intros H. injection H as <- <-. repeat split; auto.
  - intros H. injection H as <- <-.
    replace (w1 ++ w2 ++ w3 ++ [(off, b0 :: data')]) with ((w1 ++ w2 ++ w3) ++ [(off, b0 :: data')])
      by (rewrite <- !app_assoc; reflexivity).
    apply (mono_trans e fr fr3); [repeat split; auto|].
    destruct (Z.ltb_spec (f_end fr3) (off + zlen (b0 :: data'))); unfold mono, hd_ndds; simpl; repeat split; auto;
      try lia; repeat constructor; simpl; lia.
Qed.

Lemma op_dup_mono fr tag ref otag oref e :
  f_cache fr = true -> 0 <= hd_ndds fr -> e <= f_end fr ->
  forall fr' w, op_dup fr tag ref otag oref = (fr', w) -> mono e fr fr' w.
Proof.
  intros Hc Hn He fr' w. unfold op_dup.
  destruct (find_dd (f_blocks fr) otag oref) as [[bi i]|]; [|intros H; inversion H; subst; apply mono_refl].
  destruct (nth_error (f_blocks fr) bi) as [mb|]; [|intros H; inversion H; subst; apply mono_refl].
  destruct (nth_error (b_dds (m_blk mb)) i) as [d|]; [|intros H; inversion H; subst; apply mono_refl].
  destruct (has_dd fr tag ref); [intros H; inversion H; subst; apply mono_refl|].
  destruct (create_dd fr tag ref) as [[slot fr1] w1] eqn:C.
  pose proof (create_dd_mono fr tag ref e Hc Hn He _ _ _ C) as M1. destruct M1 as (A1 & B1 & C1 & D1).
  destruct (update_dd fr1 (fst slot) (snd slot) _) as [fr2 w2] eqn:U.
  destruct (update_dd_mono fr1 _ _ _ e ltac:(congruence) ltac:(lia) _ _ U) as [Hw2 M2].
  intros H. injection H as <- <-. apply (mono_trans e fr fr1 fr2); auto. repeat split; auto.
Qed.

Lemma op_ok1_len o : op_ok1 o = true ->
  match o with OpPut _ _ l _ => 0 <= l | OpPutNew _ l _ => 0 <= l | OpCopy _ _ l _ => 0 <= l
             | OpRewrite _ _ l _ => 0 <= l | _ => True end.
Proof.
  destruct o; simpl; auto; intros H; repeat (apply andb_prop in H; destruct H as [H ?]);
    match goal with X : (0 <=? ?l) = true |- 0 <= ?l => apply Z.leb_le in X; exact X end.
Qed.

Lemma op_ok_ok1 o : op_ok o = true -> op_ok1 o = true.
Proof. destruct o; simpl; auto; intros; discriminate. Qed.

Lemma op_ok_len o : op_ok o = true ->
  match o with OpPut _ _ l _ => 0 <= l | OpPutNew _ l _ => 0 <= l | OpCopy _ _ l _ => 0 <= l
             | OpRewrite _ _ l _ => 0 <= l | _ => True end.
Proof. intros H. apply op_ok1_len. apply op_ok_ok1. exact H. Qed.

Lemma forallb_ok_ok1 ops : forallb op_ok ops = true -> forallb op_ok1 ops = true.
Proof.
  induction ops; simpl; auto. intros H. apply andb_prop in H. destruct H as [A B].
  rewrite (op_ok_ok1 _ A), (IHops B). reflexivity.
Qed.

Lemma run_ops_mono1 ops : forall fr e,
  f_cache fr = true -> 0 <= hd_ndds fr -> e <= f_end fr -> forallb op_ok1 ops = true ->
  forall fr' w, run_ops fr ops = (fr', w) -> mono e fr fr' w.
Proof.
  induction ops as [|o r IH]; intros fr e Hc Hn He Hok fr' w; simpl.
  - intros H; inversion H; subst. apply mono_refl.
  - simpl in Hok. apply andb_prop in Hok. destruct Hok as [Ho Hr].
    destruct (run_op fr o) as [fr1 w1] eqn:R1.
    assert (M1 : mono e fr fr1 w1).
    { pose proof (op_ok1_len o Ho) as L. destruct o; simpl in R1.
      - eapply op_put_mono; eauto.
      - eapply op_app_mono; eauto.
      - eapply op_putn_mono; eauto.
      - eapply op_del_mono; eauto.
      - eapply op_get_mono; eauto.
      - eapply op_copy_mono; eauto.
      - eapply op_rewrite_mono; eauto.
      - eapply op_dup_mono; eauto. }
    destruct (run_ops fr1 r) as [fr2 w2] eqn:R2.
    destruct M1 as (A & B & C & D).
    pose proof (IH fr1 e ltac:(congruence) ltac:(congruence) ltac:(lia) Hr _ _ R2) as M2.
    intros H; inversion H; subst. apply (mono_trans e fr fr1 fr'); auto. repeat split; auto.
Qed.

Lemma run_ops_mono ops : forall fr e,
  f_cache fr = true -> 0 <= hd_ndds fr -> e <= f_end fr -> forallb op_ok ops = true ->
  forall fr' w, run_ops fr ops = (fr', w) -> mono e fr fr' w.
Proof. intros. eapply run_ops_mono1; eauto. apply forallb_ok_ok1. assumption. Qed.

(** Hnewref never hands out a reference number that a descriptor of ANY block uses *)
Lemma first_free_spec fr n : forall r, first_free fr n r = 0 \/ ref_used fr (first_free fr n r) = false.
Proof.
  induction n; intros r; simpl; [left; reflexivity|].
  destruct (ref_used fr r) eqn:U; [apply IHn|right; exact U].
Qed.

Lemma newref_fresh_lemma fr :
  (forall d, In d (all_mem_dds fr) -> d_ref d <= f_maxref fr) ->
  fst (newref fr) = 0 \/ ref_used fr (fst (newref fr)) = false.
Proof.
  intros H. unfold newref. destruct (f_maxref fr <? MAX_REF); cbn [fst]; [|apply first_free_spec].
  right. unfold ref_used. destruct (existsb _ (all_mem_dds fr)) eqn:E; [|reflexivity].
  apply existsb_exists in E. destruct E as (d & Hin & Hd). apply andb_prop in Hd. destruct Hd as [_ Hd].
  apply Z.eqb_eq in Hd. specialize (H d Hin). lia.
Qed.

(** the file record HTPstart builds from a parsable image *)
Lemma read_block_inv img off b :
  read_block img off = Some b ->
  exists h bs, read_bytes img off hdr_sz = Some h /\ b_ndds b = s16 (be (firstn 2 h)) /\ 0 < b_ndds b /\
               b_next b = s32 (be (skipn 2 h)) /\ b_off b = off /\
               read_bytes img (off + hdr_sz) (b_ndds b * DD_SZ) = Some bs /\
               b_dds b = parse_dds (Z.to_nat (b_ndds b)) bs.
Proof.
  unfold read_block. destruct (read_bytes img off hdr_sz) as [h|] eqn:Rh; [|discriminate]. cbv zeta.
  destruct (Z.leb_spec (s16 (be (firstn 2 h))) 0); [discriminate|].
  destruct (read_bytes img (off + hdr_sz) (s16 (be (firstn 2 h)) * DD_SZ)) as [bs|] eqn:Rb; [|discriminate].
  intros E. injection E as E. subst b. exists h, bs. cbn [b_ndds b_next b_off b_dds]. repeat split; auto.
Qed.

Lemma parse_chain_ndds fuel : forall img off bl, parse_chain fuel img off = Some bl -> Forall (fun b => 0 < b_ndds b) bl.
Proof.
  induction fuel; intros img off bl; simpl; try discriminate.
  destruct (read_block img off) as [b|] eqn:R; try discriminate.
  assert (Hb : 0 < b_ndds b) by (apply read_block_inv in R; destruct R as (h & bs & _ & _ & Hp & _); exact Hp).
  destruct (b_next b =? 0).
  - intros H; inversion H; subst. constructor; auto.
  - destruct (parse_chain fuel img (b_next b)) eqn:P; try discriminate.
    intros H; inversion H; subst. constructor; eauto.
Qed.

Lemma load_props img fr :
  load img true = Some fr ->
  exists bl, parse_file img = Some bl /\ f_cache fr = true /\ f_end fr = old_end bl /\ 0 <= hd_ndds fr.
Proof.
  unfold load. destruct (parse_file img) as [bl|] eqn:P; try discriminate.
  intros H; inversion H; subst; clear H. exists bl. repeat split; auto.
  unfold hd_ndds; simpl. destruct bl; simpl; try lia.
  unfold parse_file in P. destruct (read_bytes img 0 MAGICLEN); try discriminate.
  destruct (list_eqb l HDFMAGIC); try discriminate.
  apply parse_chain_ndds in P. inversion P; subst. lia.
Qed.

(** THEOREM 1 (full): in a caching session that only creates new elements, every write issued before the flush
    has an offset at or above the old end of file (old_end of the image HTPstart read) *)
Lemma append_only_above_old_end_lemma :
  forall img bl fr ops fr1 pre,
    parse_file img = Some bl -> load img true = Some fr -> forallb op_ok1 ops = true ->
    run_ops fr ops = (fr1, pre) ->
    log_above (old_end bl) pre = true /\ old_end bl <= f_end fr1.
Proof.
  intros img bl fr ops fr1 pre P L Hok R.
  destruct (load_props img fr L) as (bl' & P' & Hc & He & Hn).
  rewrite P in P'. inversion P'; subst bl'.
  pose proof (run_ops_mono1 ops fr (old_end bl) Hc Hn ltac:(lia) Hok _ _ R) as (A & B & C & D).
  split; [|lia].
  unfold log_above. apply forallb_forall. intros x Hx.
  rewrite Forall_forall in C. apply Z.leb_le. auto.
Qed.
