(** C07 -- implementation model M of the Vdata layer (vsfld.c, vrw.c, vio.c).  No proofs in this file.

    The model follows the C code statement by statement: loops are structural recursion, the pointer
    variables (src / dest / b1 / b2 / Src / offset) are integers into ONE flat memory in which the caller's
    buffer occupies addresses 0 .. and the library's transfer buffer Vtbuf starts at [vt], every
    DFKconvert call is a call of the C06 *specification* of DFKconvert ([ConvModel.spec_convert]: strided copy
    of n elements, bytes reversed for big-endian file types), and the data element is the C01 byte stream
    (VSwrite returns the byte strings it hands to Hwrite, VSread takes the bytes Hread delivered).
    The integer expressions and case conditions (chunk size, buffer-size decision, case split A-E, seek
    offset, new record count) are not written here: they are the definitions of gen/Gen_VS.v, regenerated from
    vrw.c on every run. *)
From Coq Require Import ZArith List Bool.
Require Import H4.gen.Gen_VS.
Require H4.ConvModel.
Notation mem := ConvModel.mem.
Notation spec_convert := ConvModel.spec_convert.
Notation mem_of_list := ConvModel.mem_of_list.
Import ListNotations.
Local Open Scope Z_scope.

(* ------------------------------------------------------------------ *)
(** * Schema: VSfdefine, VSsetfields *)

Record symdef := mksym { s_name : list Z; s_type : Z; s_isize : Z; s_order : Z }.

Record wfield := mkwf { w_name : list Z; w_type : Z; w_isize : Z; w_esize : Z; w_order : Z; w_off : Z }.
Record wlist := mkwl { wl_fields : list wfield; wl_ivsize : Z }.

Definition u16 (x : Z) : Z := x mod 65536.
Definition s16 (x : Z) : Z := (x + 32768) mod 65536 - 32768.

Fixpoint zassoc (k : Z) (l : list (Z * Z)) : option Z :=
  match l with [] => None | (k', v) :: t => if k =? k' then Some v else zassoc k t end.

(** DFKNTsize: masks off the little-endian bit, then the generated switch; FAIL = None *)
Definition dfkntsize (t : Z) : option Z := zassoc (Z.land t (Z.lnot DFNT_LITEND)) DFKNTsize_switch.

Fixpoint name_eqb (a b : list Z) : bool :=
  match a, b with
  | [], [] => true
  | x :: a', y :: b' => (x =? y) && name_eqb a' b'
  | _, _ => false
  end.

(** scanattrs cuts every token at FIELDNAMELENMAX characters *)
Definition cut_name (nm : list Z) : list Z := firstn (Z.to_nat FIELDNAMELENMAX) nm.

(** VSfdefine (vsfld.c ~255): checks; then the new definition replaces the entry of the same name (name, type, isize
    and order of that entry are all overwritten) or is appended.  [None] = FAIL. *)
Fixpoint put_sym (s : symdef) (usym : list symdef) : list symdef :=
  match usym with
  | [] => [s]
  | g :: t => if name_eqb (s_name s) (s_name g) then s :: t else g :: put_sym s t
  end.
Definition m_fdefine (usym : list symdef) (name : list Z) (localtype order : Z) : option (list symdef) :=
  (* scanattrs must find exactly one token: no comma, not empty *)
  if existsb (Z.eqb 44) name || match name with [] => true | _ => false end then None else
  if (order <? 1) || (MAX_ORDER <? order) then None else
  match dfkntsize localtype with
  | None => None
  | Some sz =>
      let isize := s16 sz in
      if (MAX_FIELD_SIZE <? isize * order) then None else
      Some (put_sym (mksym (cut_name name) (s16 localtype) (u16 isize) (u16 order)) usym)
  end.

Fixpoint find_sym (nm : list Z) (l : list symdef) : option symdef :=
  match l with [] => None | s :: t => if name_eqb nm (s_name s) then Some s else find_sym nm t end.

Definition rstab_syms : list symdef :=
  map (fun e => mksym (fst (fst (fst e))) (snd (fst (fst e))) (snd e) (snd (fst e))) (combine rstab rstab_isize).

(** the loop over the requested names of VSsetfields, write-definition branch (vsfld.c ~116..196):
    [acc] = fields so far (reversed), [ivsize] = running record size.  The user's symbol table is searched
    before the reserved one; the field size is checked against MAX_FIELD_SIZE for user symbols, the record size for both. *)
Fixpoint setfields_w_loop (usym : list symdef) (names : list (list Z)) (acc : list wfield) (ivsize : Z)
  : option (list wfield * Z) :=
  match names with
  | [] => Some (rev acc, ivsize)
  | nm :: rest =>
      match find_sym nm usym with
      | Some s =>
          match dfkntsize (Z.lor (s_type s) DFNT_NATIVE) with
          | None => None
          | Some nsz =>
              let esize := u16 (s_order s * nsz) in
              let v := s_order s * s_isize s in
              if MAX_FIELD_SIZE <? v then None else
              let isize := u16 v in
              let v2 := ivsize + isize in
              if MAX_FIELD_SIZE <? v2 then None else
              setfields_w_loop usym rest (mkwf (s_name s) (s_type s) isize esize (s_order s) 0 :: acc) (u16 v2)
          end
      | None =>
          match find_sym nm rstab_syms with
          | Some s =>
              match dfkntsize (Z.lor (s_type s) DFNT_NATIVE) with
              | None => None
              | Some nsz =>
                  let esize := u16 (s_order s * nsz) in
                  let isize := u16 (s_order s * s_isize s) in
                  let v2 := ivsize + isize in
                  if MAX_FIELD_SIZE <? v2 then None else
                  setfields_w_loop usym rest (mkwf (s_name s) (s_type s) isize esize (s_order s) 0 :: acc) (u16 v2)
              end
          | None => None
          end
      end
  end.

(** "compute and save the fields' offsets" *)
Fixpoint set_offsets (uj : Z) (l : list wfield) : list wfield :=
  match l with
  | [] => []
  | f :: t => mkwf (w_name f) (w_type f) (w_isize f) (w_esize f) (w_order f) (u16 uj) :: set_offsets (u16 (uj + w_isize f)) t
  end.

Definition m_setfields_w (usym : list symdef) (names : list (list Z)) : option wlist :=
  match names with [] => None | _ =>
  if VSFIELDMAX <? Z.of_nat (length names) then None else
  match setfields_w_loop usym (map cut_name names) [] 0 with
  | None => None
  | Some (fl, ivsize) => Some (mkwl (set_offsets 0 fl) ivsize)
  end end.

(** read branch: indices into the write list, first match *)
Fixpoint find_idx (nm : list Z) (l : list (list Z)) (j : Z) : option Z :=
  match l with [] => None | x :: t => if name_eqb nm x then Some j else find_idx nm t (j + 1) end.
Fixpoint setfields_r_loop (wnames names : list (list Z)) : option (list Z) :=
  match names with
  | [] => Some []
  | nm :: rest =>
      match find_idx nm wnames 0 with
      | None => None
      | Some j => match setfields_r_loop wnames rest with None => None | Some l => Some (j :: l) end
      end
  end.
Definition m_setfields_r (wnames names : list (list Z)) : option (list Z) :=
  match names with [] => None | _ =>
  if VSFIELDMAX <? Z.of_nat (length names) then None else setfields_r_loop wnames (map cut_name names) end.

(* ------------------------------------------------------------------ *)
(** * VSseek *)
Definition m_vsseek (eltpos ivsize wn : Z) : option Z :=
  if (eltpos <? 0) || (wn <=? 0) then None else Some (vsseek_offset eltpos ivsize).

(* ------------------------------------------------------------------ *)
(** * The transfer plan of cases E and C: how many records go through Vtbuf per Hread / Hwrite *)

(** the while loop: [fuel] bounds the number of iterations (every iteration moves >= 1 record) *)
Fixpoint chunk_loop (last_cond : Z -> Z -> Z -> Z) (fuel : nat) (nelt done chunk : Z) : list Z :=
  match fuel with
  | O => []
  | S k =>
      if done <? nelt then
        let chunk' := if last_cond nelt done chunk =? 0 then chunk else nelt - done in
        chunk' :: chunk_loop last_cond k nelt (done + chunk') chunk'
      else []
  end.

Record plan := mkplan { p_chunks : list Z; p_vtb : Z }.

Definition ec_plan (fits : Z -> Z -> Z) (bufsz : Z -> Z) (chunkf : Z -> Z -> Z) (last_cond : Z -> Z -> Z -> Z)
                   (hsize nelt vtb : Z) : plan :=
  let total := hsize * nelt in
  let '(chunk, vtb') := if fits total vtb =? 0 then let c := chunkf (bufsz total) hsize in (c, c * hsize)
                        else (nelt, vtb) in
  mkplan (chunk_loop last_cond (Z.to_nat nelt) nelt 0 chunk) vtb'.

Definition write_plan := ec_plan vswrite_fits_cond vswrite_buf_size vswrite_chunk vswrite_last_chunk_cond.
Definition read_plan := ec_plan vsread_fits_cond vsread_buf_size vsread_chunk vsread_last_chunk_cond.

(* ------------------------------------------------------------------ *)
(** * Gather / scatter *)

(** the [for (index = 0; index < order; index++)] loop: one DFKconvert of [n] elements per component,
    then both pointers move on by one component (esize / order, isize / order: C integer division).
    p = source pointer, q = destination pointer.  Returns the memory and the pointers after the loop. *)
Fixpoint order_loop (k : nat) (m : mem) (p q ntype n sp sq stepp stepq : Z) : option (mem * Z * Z) :=
  match k with
  | O => Some (m, p, q)
  | S k' =>
      match spec_convert m p q ntype n sp sq with
      | None => None
      | Some m' => order_loop k' m' (p + stepp) (q + stepq) ntype n sp sq stepp stepq
      end
  end.

Definition esz (f : wfield) : Z := w_esize f.
Definition int_size_of (fl : list wfield) : Z := fold_left (fun a f => a + w_esize f) fl 0.

(** VSwrite, cases E + C, body of the while loop for one chunk:
      offset = 0; for j: src = Src + offset; dest = Vtbuf + off[j]; order loop with strides (int_size, hdf_size);
      offset += esize *)
Fixpoint wr_ec_fields (fl : list wfield) (m : mem) (vt Src offset chunk int_size hdf_size : Z) : option mem :=
  match fl with
  | [] => Some m
  | f :: t =>
      let o := w_order f in
      match order_loop (Z.to_nat o) m (Src + offset) (vt + w_off f) (w_type f) chunk int_size hdf_size
                       (Z.quot (w_esize f) o) (Z.quot (w_isize f) o) with
      | None => None
      | Some (m', _, _) => wr_ec_fields t m' vt Src (offset + w_esize f) chunk int_size hdf_size
      end
  end.

Definition mem_slice (m : mem) (base : Z) (len : Z) : list Z :=
  map (fun i => m (base + Z.of_nat i)) (seq 0 (Z.to_nat len)).

(** the while loop over the chunks of the plan; returns the byte strings handed to Hwrite *)
Fixpoint wr_ec_chunks (fl : list wfield) (m : mem) (vt Src : Z) (chunks : list Z) (int_size hdf_size : Z)
  : option (list (list Z)) :=
  match chunks with
  | [] => Some []
  | c :: rest =>
      match wr_ec_fields fl m vt Src 0 c int_size hdf_size with
      | None => None
      | Some m' =>
          match wr_ec_chunks fl m' vt (Src + c * int_size) rest int_size hdf_size with
          | None => None
          | Some l => Some (mem_slice m' vt (hdf_size * c) :: l)
          end
      end
  end.

(** case A (user NO_INTERLACE, file FULL_INTERLACE):
      src = buf; for j: dest = Vtbuf + off[j]; order loop with strides (esize, hdf_size); src += (nelt-1)*esize *)
Fixpoint wr_a_fields (fl : list wfield) (m : mem) (vt src nelt hdf_size : Z) : option mem :=
  match fl with
  | [] => Some m
  | f :: t =>
      let o := w_order f in
      match order_loop (Z.to_nat o) m src (vt + w_off f) (w_type f) nelt (w_esize f) hdf_size
                       (Z.quot (w_esize f) o) (Z.quot (w_isize f) o) with
      | None => None
      | Some (m', src', _) => wr_a_fields t m' vt (src' + (nelt - 1) * w_esize f) nelt hdf_size
      end
  end.

(** case B (user NO_INTERLACE, file NO_INTERLACE): dest = Vtbuf + off[j] * nelt; strides (esize, isize) *)
Fixpoint wr_b_fields (fl : list wfield) (m : mem) (vt src nelt : Z) : option mem :=
  match fl with
  | [] => Some m
  | f :: t =>
      let o := w_order f in
      match order_loop (Z.to_nat o) m src (vt + w_off f * nelt) (w_type f) nelt (w_esize f) (w_isize f)
                       (Z.quot (w_esize f) o) (Z.quot (w_isize f) o) with
      | None => None
      | Some (m', src', _) => wr_b_fields t m' vt (src' + (nelt - 1) * w_esize f) nelt
      end
  end.

(** case D (user FULL_INTERLACE, file NO_INTERLACE): src = buf + offset; dest = Vtbuf + off[j] * nelt;
    strides (int_size, isize); offset += esize *)
Fixpoint wr_d_fields (fl : list wfield) (m : mem) (vt offset nelt int_size : Z) : option mem :=
  match fl with
  | [] => Some m
  | f :: t =>
      let o := w_order f in
      match order_loop (Z.to_nat o) m offset (vt + w_off f * nelt) (w_type f) nelt int_size (w_isize f)
                       (Z.quot (w_esize f) o) (Z.quot (w_isize f) o) with
      | None => None
      | Some (m', _, _) => wr_d_fields t m' vt (offset + w_esize f) nelt int_size
      end
  end.

Record wres := mkwres { wr_vtb : Z; wr_nvert : Z; wr_chunks : list (list Z) }.

(** VSwrite (vrw.c ~445) after its argument checks.  [position] = byte position of the access id, [vtb] = size
    of the static transfer buffer, [m] = memory holding the caller's buffer at 0, [vt] = address of Vtbuf. *)
Definition m_vswrite_mem (w : wlist) (fil uil nelt vtb position nvert : Z) (m : mem) (vt : Z) : option wres :=
  let fl := wl_fields w in
  let hdf_size := wl_ivsize w in
  let total := hdf_size * nelt in
  let new_size := vswrite_new_size position hdf_size nelt in
  let int_size := int_size_of fl in
  let nvert' := if vswrite_grow_cond new_size nvert =? 0 then nvert else new_size in
  if negb (vswrite_ec_cond (Z.of_nat (length fl)) uil fil =? 0) then
    let p := write_plan hdf_size nelt vtb in
    match wr_ec_chunks fl m vt 0 (p_chunks p) int_size hdf_size with
    | None => None
    | Some cs => Some (mkwres (p_vtb p) nvert' cs)
    end
  else
    let vtb' := if vswrite_abd_grow_cond vtb total =? 0 then vtb else total in
    let r := if negb (vswrite_caseA_cond uil fil =? 0) then wr_a_fields fl m vt 0 nelt hdf_size
             else if negb (vswrite_caseB_cond uil fil =? 0) then wr_b_fields fl m vt 0 nelt
             else if negb (vswrite_caseD_cond uil fil =? 0) then wr_d_fields fl m vt 0 nelt int_size
             else Some m in
    match r with
    | None => None
    | Some m' => Some (mkwres vtb' nvert' [mem_slice m' vt total])
    end.

Definition m_vswrite (w : wlist) (fil uil nelt vtb position nvert : Z) (ubuf : list Z) : option wres :=
  if (nelt <=? 0) || match wl_fields w with [] => true | _ => false end
     || negb ((uil =? NO_INTERLACE) || (uil =? FULL_INTERLACE)) then None
  else m_vswrite_mem w fil uil nelt vtb position nvert (mem_of_list ubuf) (Z.of_nat (length ubuf)).

(** the Hwrite lengths alone (for transfers too large to run the byte-level model on) *)
Definition m_vswrite_lens (w : wlist) (fil uil nelt vtb : Z) : list Z * Z :=
  let hdf_size := wl_ivsize w in
  if negb (vswrite_ec_cond (Z.of_nat (length (wl_fields w))) uil fil =? 0) then
    let p := write_plan hdf_size nelt vtb in (map (fun c => hdf_size * c) (p_chunks p), p_vtb p)
  else ([hdf_size * nelt], if vswrite_abd_grow_cond vtb (hdf_size * nelt) =? 0 then vtb else hdf_size * nelt).

(** the same argument checks as [m_vswrite] in front of the length-only plan *)
Definition m_vswrite_lens_checked (w : wlist) (fil uil nelt vtb : Z) : option (list Z * Z) :=
  if (nelt <=? 0) || match wl_fields w with [] => true | _ => false end
     || negb ((uil =? NO_INTERLACE) || (uil =? FULL_INTERLACE)) then None
  else Some (m_vswrite_lens w fil uil nelt vtb).

(* ---- VSread -------------------------------------------------------- *)

(** place the bytes a Hread delivered at [base] *)
Definition load (m : mem) (base : Z) (l : list Z) : mem :=
  fun a => if (base <=? a) && (a <? base + Z.of_nat (length l)) then nth (Z.to_nat (a - base)) l 0 else m a.

Definition nthf (fl : list wfield) (i : Z) : option wfield := if i <? 0 then None else nth_error fl (Z.to_nat i).

(** uvsize: for (uvsize = 0, j = 0; j < r->n; j++) uvsize += w->esize[r->item[j]] *)
Fixpoint uvsize_of (fl : list wfield) (rl : list Z) : option Z :=
  match rl with
  | [] => Some 0
  | i :: t => match nthf fl i, uvsize_of fl t with Some f, Some u => Some (w_esize f + u) | _, _ => None end
  end.

(** case C, one chunk: offset = 0; for j: i = item[j]; b1 = Src + offset; b2 = Vtbuf + off[i];
    order loop Vtbuf -> user with strides (hsize, uvsize); offset += esize *)
Fixpoint rd_c_fields (fl : list wfield) (rl : list Z) (m : mem) (vt Src offset chunk hsize uvsize : Z) : option mem :=
  match rl with
  | [] => Some m
  | i :: t =>
      match nthf fl i with
      | None => None
      | Some f =>
          let o := w_order f in
          match order_loop (Z.to_nat o) m (vt + w_off f) (Src + offset) (w_type f) chunk hsize uvsize
                           (Z.quot (w_isize f) o) (Z.quot (w_esize f) o) with
          | None => None
          | Some (m', _, _) => rd_c_fields fl t m' vt Src (offset + w_esize f) chunk hsize uvsize
          end
      end
  end.

(** the while loop of cases E + C: every chunk is first loaded into Vtbuf from the stream *)
Fixpoint rd_ec_chunks (fl : list wfield) (rl : list Z) (m : mem) (vt Src : Z) (chunks : list Z) (data : list Z)
                      (hsize uvsize : Z) : option mem :=
  match chunks with
  | [] => Some m
  | c :: rest =>
      let bytes := Z.to_nat (hsize * c) in
      let m1 := load m vt (firstn bytes data) in
      let r := match fl with
               | [f] => (* case E *) spec_convert m1 vt Src (w_type f) (w_order f * c) 0 0
               | _ => rd_c_fields fl rl m1 vt Src 0 c hsize uvsize
               end in
      match r with
      | None => None
      | Some m2 => rd_ec_chunks fl rl m2 vt (Src + c * uvsize) rest (skipn bytes data) hsize uvsize
      end
  end.

(** case A (user NO_INTERLACE, file FULL_INTERLACE): b1 = buf; for j: b2 = Vtbuf + off[i]; strides (hsize, esize);
    b1 += (nelt - 1) * esize *)
Fixpoint rd_a_fields (fl : list wfield) (rl : list Z) (m : mem) (vt b1 nelt hsize : Z) : option mem :=
  match rl with
  | [] => Some m
  | i :: t =>
      match nthf fl i with
      | None => None
      | Some f =>
          let o := w_order f in
          match order_loop (Z.to_nat o) m (vt + w_off f) b1 (w_type f) nelt hsize (w_esize f)
                           (Z.quot (w_isize f) o) (Z.quot (w_esize f) o) with
          | None => None
          | Some (m', _, b1') => rd_a_fields fl t m' vt (b1' + (nelt - 1) * w_esize f) nelt hsize
          end
      end
  end.

(** case B: b2 = Vtbuf + off[i] * nelt; strides (isize, esize) *)
Fixpoint rd_b_fields (fl : list wfield) (rl : list Z) (m : mem) (vt b1 nelt : Z) : option mem :=
  match rl with
  | [] => Some m
  | i :: t =>
      match nthf fl i with
      | None => None
      | Some f =>
          let o := w_order f in
          match order_loop (Z.to_nat o) m (vt + w_off f * nelt) b1 (w_type f) nelt (w_isize f) (w_esize f)
                           (Z.quot (w_isize f) o) (Z.quot (w_esize f) o) with
          | None => None
          | Some (m', _, b1') => rd_b_fields fl t m' vt (b1' + (nelt - 1) * w_esize f) nelt
          end
      end
  end.

(** case D: b1 = buf + offset; b2 = Vtbuf + off[i] * nelt; strides (isize, uvsize); offset += isize *)
Fixpoint rd_d_fields (fl : list wfield) (rl : list Z) (m : mem) (vt offset nelt uvsize : Z) : option mem :=
  match rl with
  | [] => Some m
  | i :: t =>
      match nthf fl i with
      | None => None
      | Some f =>
          let o := w_order f in
          match order_loop (Z.to_nat o) m (vt + w_off f * nelt) offset (w_type f) nelt (w_isize f) uvsize
                           (Z.quot (w_isize f) o) (Z.quot (w_esize f) o) with
          | None => None
          | Some (m', _, _) => rd_d_fields fl t m' vt (offset + w_isize f) nelt uvsize
          end
      end
  end.

Record rres := mkrres { rr_vtb : Z; rr_lens : list Z; rr_mem : mem }.

(** VSread (vrw.c ~151) after its argument checks, for a stream that delivers [data] (nelt * hsize bytes).
    [m] = memory (caller's buffer at 0), [vt] = address of Vtbuf. *)
Definition m_vsread_mem (w : wlist) (rl : list Z) (fil uil nelt vtb : Z) (data : list Z) (m : mem) (vt : Z) : option rres :=
  let fl := wl_fields w in
  let hsize := wl_ivsize w in
  match uvsize_of fl rl with
  | None => None
  | Some uvsize =>
    if negb (vsread_ec_cond (Z.of_nat (length fl)) uil fil =? 0) then
      let p := read_plan hsize nelt vtb in
      let uv := match fl with [f] => w_esize f | _ => uvsize end in
      match rd_ec_chunks fl rl m vt 0 (p_chunks p) data hsize uv with
      | None => None
      | Some m' => Some (mkrres (p_vtb p) (map (fun c => hsize * c) (p_chunks p)) m')
      end
    else
      let vtb' := if vtb <? nelt * hsize then nelt * hsize else vtb in
      let m1 := load m vt data in
      let r := if negb (vsread_caseA_cond uil fil =? 0) then rd_a_fields fl rl m1 vt 0 nelt hsize
               else if negb (vsread_caseB_cond uil fil =? 0) then rd_b_fields fl rl m1 vt 0 nelt
               else if negb (vsread_caseD_cond uil fil =? 0) then rd_d_fields fl rl m1 vt 0 nelt uvsize
               else Some m1 in
      match r with
      | None => None
      | Some m' => Some (mkrres vtb' [nelt * hsize] m')
      end
  end.

(** size of the caller's buffer: nelt records of the selected fields (the single field in case E) *)
Definition user_size (w : wlist) (rl : list Z) (nelt : Z) : Z :=
  match wl_fields w with
  | [f] => nelt * w_esize f
  | fl => match uvsize_of fl rl with Some u => nelt * u | None => 0 end
  end.

Definition m_vsread (w : wlist) (rl : list Z) (fil uil nelt vtb : Z) (data : list Z) : option (Z * list Z * list Z) :=
  if (nelt <=? 0) || match wl_fields w with [] => true | _ => false end
     || negb ((uil =? NO_INTERLACE) || (uil =? FULL_INTERLACE)) then None else
  let us := user_size w rl nelt in
  match m_vsread_mem w rl fil uil nelt vtb data (fun _ => 238) us with
  | None => None
  | Some r => Some (rr_vtb r, rr_lens r, mem_slice (rr_mem r) 0 us)
  end.

Definition m_vsread_lens (w : wlist) (fil uil nelt vtb : Z) : list Z * Z :=
  let hsize := wl_ivsize w in
  if negb (vsread_ec_cond (Z.of_nat (length (wl_fields w))) uil fil =? 0) then
    let p := read_plan hsize nelt vtb in (map (fun c => hsize * c) (p_chunks p), p_vtb p)
  else ([nelt * hsize], if vtb <? nelt * hsize then nelt * hsize else vtb).
Definition m_vsread_lens_checked (w : wlist) (fil uil nelt vtb : Z) : option (list Z * Z) :=
  if (nelt <=? 0) || match wl_fields w with [] => true | _ => false end
     || negb ((uil =? NO_INTERLACE) || (uil =? FULL_INTERLACE)) then None
  else Some (m_vsread_lens w fil uil nelt vtb).

(* ------------------------------------------------------------------ *)
(** * vpackvs / vunpackvs: the Vdata header record (DFTAG_VH) *)

Definition enc16 (x : Z) : list Z := [(x / 256) mod 256; x mod 256].
Definition enc32 (x : Z) : list Z := [(x / 16777216) mod 256; (x / 65536) mod 256; (x / 256) mod 256; x mod 256].
Definition dec16u (l : list Z) : Z := match l with a :: b :: _ => a * 256 + b | _ => 0 end.
Definition dec16s (l : list Z) : Z := s16 (dec16u l).
Definition dec32s (l : list Z) : Z :=
  match l with a :: b :: c :: d :: _ => let u := ((a * 256 + b) * 256 + c) * 256 + d in (u + 2147483648) mod 4294967296 - 2147483648
             | _ => 0 end.

Record vhdr := mkvh {
  h_interlace : Z; h_nvertices : Z; h_ivsize : Z;
  h_fields : list wfield;
  h_vsname : list Z; h_vsclass : list Z;
  h_extag : Z; h_exref : Z; h_version : Z; h_more : Z
}.

Definition zlen {A} (l : list A) : Z := Z.of_nat (length l).
Definition enc_str (s : list Z) : list Z := enc16 (zlen s) ++ s.

(** vpackvs (vio.c ~360) for a Vdata without attributes (flags = 0).  The size it reports is one more than
    the bytes it encodes, and it stores a 0 there. *)
Definition m_vpackvs (h : vhdr) : list Z :=
  let fl := h_fields h in
  enc16 (h_interlace h) ++ enc32 (h_nvertices h) ++ enc16 (h_ivsize h) ++ enc16 (zlen fl)
  ++ flat_map (fun f => enc16 (w_type f)) fl
  ++ flat_map (fun f => enc16 (w_isize f)) fl
  ++ flat_map (fun f => enc16 (w_off f)) fl
  ++ flat_map (fun f => enc16 (w_order f)) fl
  ++ flat_map (fun f => enc_str (w_name f)) fl
  ++ enc_str (h_vsname h) ++ enc_str (h_vsclass h)
  ++ enc16 (h_extag h) ++ enc16 (h_exref h) ++ enc16 (h_version h) ++ enc16 (h_more h)
  ++ enc16 (h_version h) ++ enc16 (h_more h) ++ [0].

(** decoding helpers: every one returns the value and the rest of the bytes; [None] when bytes run out *)
Definition take (n : nat) (l : list Z) : option (list Z * list Z) :=
  if (length l <? n)%nat then None else Some (firstn n l, skipn n l).
Definition get16u (l : list Z) : option (Z * list Z) :=
  match take 2 l with Some (a, r) => Some (dec16u a, r) | None => None end.
Definition get16s (l : list Z) : option (Z * list Z) :=
  match take 2 l with Some (a, r) => Some (dec16s a, r) | None => None end.
Definition get32s (l : list Z) : option (Z * list Z) :=
  match take 4 l with Some (a, r) => Some (dec32s a, r) | None => None end.
Fixpoint getn (g : list Z -> option (Z * list Z)) (n : nat) (l : list Z) : option (list Z * list Z) :=
  match n with
  | O => Some ([], l)
  | S k => match g l with
           | None => None
           | Some (v, r) => match getn g k r with None => None | Some (vs, r') => Some (v :: vs, r') end
           end
  end.
(** a counted string: INT16 length, then that many characters (HIstrncpy stops at a NUL) *)
Fixpoint upto_nul (l : list Z) : list Z := match l with [] => [] | c :: t => if c =? 0 then [] else c :: upto_nul t end.
Definition get_str (l : list Z) : option (list Z * list Z) :=
  match get16s l with
  | None => None
  | Some (n, r) => if n <? 0 then None else
                   match take (Z.to_nat n) r with Some (s, r') => Some (upto_nul s, r') | None => None end
  end.
Fixpoint get_strs (n : nat) (l : list Z) : option (list (list Z) * list Z) :=
  match n with
  | O => Some ([], l)
  | S k => match get_str l with
           | None => None
           | Some (s, r) => match get_strs k r with None => None | Some (ss, r') => Some (s :: ss, r') end
           end
  end.

Fixpoint zip_fields (names : list (list Z)) (types isizes offs orders : list Z) : list wfield :=
  match names, types, isizes, offs, orders with
  | nm :: n', t :: t', i :: i', o :: o', r :: r' =>
      let es := match dfkntsize (Z.lor t DFNT_NATIVE) with Some sz => u16 (r * sz) | None => u16 (r * (-1)) end in
      mkwf nm t i es r o :: zip_fields n' t' i' o' r'
  | _, _, _, _, _ => []
  end.

(** vunpackvs (vio.c ~475) for version <= VSET_NEW_VERSION records without attribute flags: the version / more
    pair is read first from the end (len - 5), then the record front to back, then the middle copy of
    version / more is compared with it.  [None] = FAIL. *)
Definition m_vunpackvs (buf : list Z) : option vhdr :=
  let len := length buf in
  if (len <? 5)%nat then None else
  let tail := skipn (len - 5) buf in
  let version := s16 (dec16u tail) in
  let more := s16 (dec16u (skipn 2 tail)) in
  if VSET_NEW_VERSION <? version then None else
  match get16s buf with None => None | Some (il, b1) =>
  match get32s b1 with None => None | Some (nv, b2) =>
  match get16u b2 with None => None | Some (ivs, b3) =>
  match get16s b3 with None => None | Some (n, b4) =>
  if n <? 0 then None else
  let k := Z.to_nat n in
  match getn get16s k b4 with None => None | Some (types, b5) =>
  match getn get16u k b5 with None => None | Some (isizes, b6) =>
  match getn get16u k b6 with None => None | Some (offs, b7) =>
  match getn get16u k b7 with None => None | Some (orders, b8) =>
  match get_strs k b8 with None => None | Some (names, b9) =>
  match get_str b9 with None => None | Some (vsname, b10) =>
  match get_str b10 with None => None | Some (vsclass, b11) =>
  match get16u b11 with None => None | Some (extag, b12) =>
  match get16u b12 with None => None | Some (exref, b13) =>
  match get16s b13 with None => None | Some (v2, b14) =>
  match get16s b14 with None => None | Some (m2, _) =>
  if negb (v2 =? version) || negb (m2 =? more) then None else
  Some (mkvh il nv ivs (zip_fields names types isizes offs orders) vsname vsclass extag exref version more)
  end end end end end end end end end end end end end end end.

(* ------------------------------------------------------------------ *)
(** * VSfexist (vg.c ~312): every requested name must be a field; the search result of EACH name is looked at *)
Definition fexist_one (nm : list Z) (fl : list wfield) : bool := existsb (fun f => name_eqb nm (w_name f)) fl.
Fixpoint fexist_loop (fl : list wfield) (names : list (list Z)) : bool :=
  match names with [] => true | nm :: rest => if fexist_one nm fl then fexist_loop fl rest else false end.
Definition m_vsfexist (fl : list wfield) (names : list (list Z)) : bool :=
  match names with
  | [] => false
  | _ => if VSFIELDMAX <? Z.of_nat (length names) then false else fexist_loop fl (map cut_name names)
  end.

(* ------------------------------------------------------------------ *)
(** * VSsizeof (vg.c ~388) *)

(** the search loop for one requested name: the first field of the vdata with that name contributes ITS esize
    ([totalsize += vs->wlist.esize[j]], j = index of the matching field); no match = FAIL *)
Fixpoint sizeof_find (nm : list Z) (fl : list wfield) : option Z :=
  match fl with [] => None | f :: t => if name_eqb nm (w_name f) then Some (w_esize f) else sizeof_find nm t end.
Fixpoint sizeof_loop (fl : list wfield) (names : list (list Z)) (total : Z) : option Z :=
  match names with
  | [] => Some total
  | nm :: rest => match sizeof_find nm fl with None => None | Some e => sizeof_loop fl rest (total + e) end
  end.
(** [names = None]: the NULL field list, all fields *)
Definition m_vssizeof (fl : list wfield) (names : option (list (list Z))) : option Z :=
  match names with
  | None => Some (fold_left (fun a f => a + w_esize f) fl 0)
  | Some [] => None
  | Some l => if VSFIELDMAX <? Z.of_nat (length l) then None else sizeof_loop fl (map cut_name l) 0
  end.

(** VSsetname / VSsetclass (vg.c): the string is cut at VSNAMELENMAX characters; the header is marked as changing
    size ([new_h_sz], which makes VSdetach release the old header element before it writes the new one) when the new
    string is longer than the CURRENT string of the same kind.  [grow] is the regenerated condition. *)
Definition m_setstr (grow : Z -> Z -> Z) (cur new : list Z) (new_h_sz : bool) : list Z * bool :=
  let curr_len := Z.of_nat (length cur) in
  let slen := Z.of_nat (length new) in
  (if VSNAMELENMAX <? slen then firstn (Z.to_nat VSNAMELENMAX) new else new,
   new_h_sz || negb (grow curr_len slen =? 0)).
Definition m_setname := m_setstr vssetname_grow_cond.
Definition m_setclass := m_setstr vssetclass_grow_cond.

(* ------------------------------------------------------------------ *)
(** * VSfpack *)

(** blist: for every field of the buffer its index in the write list and its offset in a buffer record *)
Fixpoint blist_offs (fl : list wfield) (idx : list Z) (off : Z) : option (list (Z * Z)) :=
  match idx with
  | [] => Some []
  | i :: t => match nthf fl i with
              | None => None
              | Some f => match blist_offs fl t (off + w_esize f) with None => None | Some l => Some ((i, off) :: l) end
              end
  end.

Fixpoint find_pair (i : Z) (l : list (Z * Z)) : option (Z * Z) :=
  match l with [] => None | (j, o) :: t => if i =? j then Some (j, o) else find_pair i t end.

(** for every selected field: (offset in the buffer record, size) *)
Fixpoint fpack_sel (fl : list wfield) (bl : list (Z * Z)) (sel : list Z) : option (list (Z * Z)) :=
  match sel with
  | [] => Some []
  | i :: t => match find_pair i bl, nthf fl i, fpack_sel fl bl t with
              | Some (_, o), Some f, Some l => Some ((o, w_esize f) :: l)
              | _, _, _ => None
              end
  end.

Definition lset (buf : list Z) (off : nat) (src : list Z) : list Z :=
  firstn off buf ++ src ++ skipn (off + length src) buf.
Definition lget (buf : list Z) (off len : nat) : list Z := firstn len (skipn off buf).

(** the record loop: for i < n_records: for j < ac: memcpy(bufp + foffs[j], fbufps[j], fmsizes[j]); fbufps[j] += fmsizes[j];
    bufp += b_rec_size *)
Fixpoint pack_rec (buf : list Z) (bufp : nat) (sel : list (Z * Z)) (cols : list (list Z)) (i : nat) : list Z :=
  match sel, cols with
  | (o, sz) :: st, c :: ct =>
      pack_rec (lset buf (bufp + Z.to_nat o) (lget c (i * Z.to_nat sz) (Z.to_nat sz))) bufp st ct i
  | _, _ => buf
  end.
Fixpoint pack_loop (k : nat) (i : nat) (buf : list Z) (brs : nat) (sel : list (Z * Z)) (cols : list (list Z)) : list Z :=
  match k with
  | O => buf
  | S k' => pack_loop k' (S i) (pack_rec buf (i * brs) sel cols i) brs sel cols
  end.
Definition m_pack (n : nat) (brs : nat) (sel : list (Z * Z)) (buf : list Z) (cols : list (list Z)) : list Z :=
  pack_loop n 0 buf brs sel cols.

(** unpack: column j = the field's bytes of record 0, 1, ... *)
Definition m_unpack (n : nat) (brs : nat) (sel : list (Z * Z)) (buf : list Z) : list (list Z) :=
  map (fun os => flat_map (fun i => lget buf (i * brs + Z.to_nat (fst os)) (Z.to_nat (snd os))) (seq 0 n)) sel.

Definition m_fpack_layout (w : wlist) (bidx : list Z) (sel : list Z) : option (Z * list (Z * Z)) :=
  match blist_offs (wl_fields w) bidx 0 with
  | None => None
  | Some bl =>
      match fpack_sel (wl_fields w) bl sel with
      | None => None
      | Some s => Some (fold_left (fun a i => a + match nthf (wl_fields w) i with Some f => w_esize f | None => 0 end) bidx 0, s)
      end
  end.
