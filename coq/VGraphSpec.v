(** C08 -- abstract specification S: the Vgroup graph of one file.
    No proofs here.  The file holds a finite map  reference number -> Vgroup {name, class, ordered member list
    of (tag, ref)}  and a finite map  reference number -> Vdata {name, class}.  A Vgroup (Vdata) is `lone' when
    no Vgroup of the file lists (DFTAG_VG, its ref)  ((DFTAG_VH, its ref))  as a member.  All handles on a Vgroup
    see the same, current, state -- including the access mode: a Vgroup is writable while it is attached iff one of
    the attaches since it was last unattached asked for "w" (a later "r" attach never takes the permission away);
    every edit needs a writable Vgroup, through whichever handle.  Closing and reopening the file changes nothing.

    Reference numbers of new objects are chosen by the library's allocator (property C12); here they are an
    *input* of the creating operation and only checked for freshness.
    [RUnspec]: the operation lies outside the property's domain (see checks/C08.py ASSUMPTIONS); nothing is claimed
    about it or about anything later in the same history.  [RNoSpec]: no claim about this one operation. *)
From Coq Require Import ZArith List Bool.
Require Import H4.gen.Gen_VG.
Import ListNotations.
Local Open Scope Z_scope.

Notation pair := (Z * Z)%type (only parsing). (* tag, ref *)
Definition bytes := list Z.
Definition pair_eqb (a b : pair) : bool := (fst a =? fst b) && (snd a =? snd b).
Fixpoint bytes_eqb (a b : bytes) : bool :=
  match a, b with
  | [], [] => true
  | x :: a', y :: b' => (x =? y) && bytes_eqb a' b'
  | _, _ => false
  end.
Fixpoint is_prefix (p s : bytes) : bool :=
  match p, s with
  | [], _ => true
  | x :: p', y :: s' => (x =? y) && is_prefix p' s'
  | _ :: _, [] => false
  end.
Definition zlen {A} (l : list A) : Z := Z.of_nat (length l).

Record vg := mkvg { g_name : bytes; g_class : bytes; g_members : list pair;
                   g_w : bool (* writable; false while not attached *) }.
Record vs := mkvs { s_name : bytes; s_class : bytes; s_fields : list bytes }.

(* ---- tables keyed by reference number, kept in ascending key order -------------------------------- *)
Fixpoint tget {A} (k : Z) (t : list (Z * A)) : option A :=
  match t with [] => None | (k', v) :: r => if k =? k' then Some v else tget k r end.
Fixpoint tins {A} (k : Z) (v : A) (t : list (Z * A)) : list (Z * A) :=
  match t with
  | [] => [(k, v)]
  | (k', v') :: r => if k <? k' then (k, v) :: t else (k', v') :: tins k v r
  end.
Fixpoint tset {A} (k : Z) (v : A) (t : list (Z * A)) : list (Z * A) :=
  match t with [] => [] | (k', v') :: r => if k =? k' then (k', v) :: r else (k', v') :: tset k v r end.
Fixpoint tdel {A} (k : Z) (t : list (Z * A)) : list (Z * A) :=
  match t with [] => [] | (k', v') :: r => if k =? k' then r else (k', v') :: tdel k r end.
Definition keys {A} (t : list (Z * A)) : list Z := map fst t.
(** the key after [k] in table order; [None] when [k] is absent or last *)
Fixpoint tnext {A} (k : Z) (t : list (Z * A)) : option Z :=
  match t with
  | [] => None
  | (k', _) :: r => if k =? k' then match r with [] => None | (k2, _) :: _ => Some k2 end else tnext k r
  end.

Record state := mkst {
  vgs : list (Z * vg);                  (* the file's Vgroups *)
  vss : list (Z * vs);                  (* the file's Vdatas *)
  hg  : list (Z * Z);                   (* open Vgroup handles: slot -> ref *)
  hs  : list (Z * Z)                    (* open Vdata handles: slot -> ref *)
}.
Definition init : state := mkst [] [] [] [].

Inductive op :=
| OOpen | OReopen
| OVgNew (h ref : Z)                    (* [ref] = the number the library chose *)
| OVgAttach (h ref : Z) (w : bool)
| OVgDetach (h : Z)
| OSetName (h : Z) (s : bytes) | OSetClass (h : Z) (s : bytes)
| OAddTagRef (h tag ref : Z)
| OAddMany (h tag ref count step : Z)
| OInsertVg (h h2 : Z) | OInsertVs (h h2 : Z)
| ODelTagRef (h tag ref : Z)
| OVDelete (ref : Z) | OVSDelete (ref : Z)
| OVsNew (ref : Z) (name cls : bytes) (fields : list bytes)
| OVsAttach (h ref : Z) | OVsDetach (h : Z)
| ONTagRefs (h : Z) | OGetTagRefs (h n : Z) | OGetTagRef (h i : Z) | OInqTagRef (h tag ref : Z) | ONRefs (h tag : Z)
| OGetName (h : Z) | OGetClass (h : Z) | OInquire (h : Z) | OQueryRef (h : Z)
| OIsVg (h id : Z) | OIsVs (h id : Z)
| OLone (n : Z) | OVSLone (n : Z)
| OGetId (ref : Z) | OVSGetId (ref : Z) | OIter | OVSIter
| OFind (s : bytes) | OFindClass (s : bytes) | OVSFind (s : bytes) | OVSFindClass (s : bytes)
| OGetVgroupsF (start n : Z) | OGetVgroupsG (h start n : Z)
| OGetVdatasF (q : option bytes) (start n : Z)          (* VSgetvdatas / VSofclass on the file id; n = 0: count only *)
| OGetVdatasG (h : Z) (q : option bytes) (start n : Z)  (* ... on a vgroup id *)
| OVHMakeGroup (ref : Z) (name cls : option bytes) (l : list pair)     (* VHmakegroup; [ref] chosen by the library *)
| OVentries (ref : Z) | OQueryTag (h : Z) | OGisInternal (h : Z) | OFlocate (h : Z) (field : bytes)
| OCountVgroupsF (start : Z) | OCountVgroupsG (h start : Z)            (* Vgetvgroups with a NULL array *)
(* observed on the implementation model only *)
| OGetNext (h id : Z) | OMsize (h : Z) | ORawVg (ref : Z) | OPutRaw (ref : Z) (b : bytes).

Inductive res := RFail | RUnspec | RNoSpec | ROk (vals : list Z) (bs : option bytes).

(* ---- the property's domain ------------------------------------------------------------------------ *)
Definition u16 (z : Z) : bool := (0 <=? z) && (z <=? 65535).
Definition name_ok (s : bytes) : bool := forallb (fun b => (1 <=? b) && (b <=? 255)) s.
(** the 16-bit member counter: the library refuses the 65536th member *)
Definition room (g : vg) (k : Z) : bool := zlen (g_members g) + k <=? 65535.

(* ---- list operations on a member list ------------------------------------------------------------- *)
Definition has_member (p : pair) (l : list pair) : bool := existsb (pair_eqb p) l.
Fixpoint remove_first (p : pair) (l : list pair) : option (list pair) :=
  match l with
  | [] => None
  | q :: r => if pair_eqb p q then Some r
              else match remove_first p r with Some r' => Some (q :: r') | None => None end
  end.
Fixpoint add_many (l : list pair) (tag ref step : Z) (n : nat) : list pair :=
  match n with O => l | S n' => add_many (l ++ [(tag, ref)]) tag (ref + step) step n' end.
Fixpoint flat (l : list pair) : list Z := match l with [] => [] | (t, r) :: l' => t :: r :: flat l' end.

(* ---- graph queries -------------------------------------------------------------------------------- *)
(** is (tag, r) a member of some Vgroup of the file? *)
Definition referenced (tag r : Z) (t : list (Z * vg)) : bool :=
  existsb (fun e => has_member (tag, r) (g_members (snd e))) t.
Definition lone_vgroups (s : state) : list Z := filter (fun r => negb (referenced DFTAG_VG r (vgs s))) (keys (vgs s)).
Definition lone_vdatas (s : state) : list Z := filter (fun r => negb (referenced DFTAG_VH r (vgs s))) (keys (vss s)).
Definition internal_class (c : bytes) : bool := existsb (fun p => is_prefix p c) HDF_INTERNAL_VGS.
Fixpoint find_first {A} (p : A -> bool) (t : list (Z * A)) : Z :=
  match t with [] => 0 | (k, v) :: r => if p v then k else find_first p r end.
Definition slice (start n : Z) (l : list Z) : list Z := firstn (Z.to_nat n) (skipn (Z.to_nat start) l).
(** the answer of the Vgetvgroups / VSgetvdatas family on the list [u] of qualifying objects: from position [start],
    at most [n] of them; [n] = 0 asks for the count only *)
Definition enum_answer (s : state) (u : list Z) (start n : Z) : state * res :=
  if zlen u <? start then (s, RFail)
  else if n =? 0 then (s, ROk [zlen u - start] None)
  else let l := slice start n u in (s, ROk (zlen l :: l) None).
(** does a vdata of class [c] answer the query [q]?  [None] asks for the user-created vdatas (no class, or a class
    that is not one of the library's); a class query starting with the chunk-table prefix matches by that prefix *)
Definition HDF_CHK_TBL_CLASS : bytes := _HDF_CHK_TBL_CLASS.
Definition internal_vs_class (c : bytes) : bool := existsb (fun p => is_prefix p c) HDF_INTERNAL_VDS.
Definition vs_class_match (q : option bytes) (c : bytes) : bool :=
  match c, q with
  | [], None => true
  | [], Some _ => false
  | _, None => negb (internal_vs_class c)
  | _, Some qc => if is_prefix HDF_CHK_TBL_CLASS qc then is_prefix HDF_CHK_TBL_CLASS c else bytes_eqb qc c
  end.
Definition vs_matches (q : option bytes) (r : Z) (t : list (Z * vs)) : bool :=
  match tget r t with Some v => vs_class_match q (s_class v) | None => false end.
Definition opt_ok (o : option bytes) : bool := match o with Some b => name_ok b && (zlen b <=? 65535) | None => true end.
Definition opt_val (o : option bytes) : bytes := match o with Some b => b | None => [] end.
(** Vflocate: the first vdata member that has the field; a member naming a vdata that does not exist ends the search *)
Fixpoint flocate (f : bytes) (t : list (Z * vs)) (l : list pair) : option Z :=
  match l with
  | [] => None
  | (tg, r) :: l' =>
      if tg =? DFTAG_VH then
        match tget r t with
        | None => None
        | Some v => if existsb (bytes_eqb f) (s_fields v) then Some r else flocate f t l'
        end
      else flocate f t l'
  end.

(* ---- one operation -------------------------------------------------------------------------------- *)
Definition ok0 (s : state) : state * res := (s, ROk [] None).
Definition okv (s : state) (v : list Z) : state * res := (s, ROk v None).

(** run [f] on the Vgroup behind handle [h] *)
Definition with_h (s : state) (h : Z) (f : Z -> vg -> state * res) : state * res :=
  match tget h (hg s) with
  | None => (s, RUnspec)
  | Some r => match tget r (vgs s) with None => (s, RUnspec) | Some g => f r g end
  end.
(** an edit: the Vgroup must be writable *)
Definition edit_h (s : state) (h : Z) (f : Z -> vg -> state * res) : state * res :=
  with_h s h (fun r g => if g_w g then f r g else (s, RFail)).
Definition put_vg (s : state) (r : Z) (g : vg) : state := mkst (tset r g (vgs s)) (vss s) (hg s) (hs s).
Definition set_w (g : vg) (w : bool) : vg := mkvg (g_name g) (g_class g) (g_members g) w.
Definition set_members (g : vg) (l : list pair) : vg := mkvg (g_name g) (g_class g) l (g_w g).
Definition attached_in (r : Z) (t : list (Z * Z)) : bool := existsb (fun e => snd e =? r) t.
Definition attached (r : Z) (s : state) : bool := attached_in r (hg s).
Definition vs_attached (r : Z) (s : state) : bool := attached_in r (hs s).

Definition insert_pair (s : state) (h : Z) (p : pair) : state * res :=
  edit_h s h (fun r g =>
    if has_member p (g_members g) then (s, RFail)
    else if negb (room g 1) then (s, RFail)
    else (put_vg s r (set_members g (g_members g ++ [p])), ROk [zlen (g_members g)] None)).

Definition getid {A} (t : list (Z * A)) (r : Z) (s : state) : state * res :=
  if r =? -1 then match t with [] => (s, RFail) | (k, _) :: _ => okv s [k] end
  else if r <? -1 then (s, RFail)
  else match tnext r t with Some k => okv s [k] | None => (s, RFail) end.

Definition step (s : state) (o : op) : state * res :=
  match o with
  | OOpen => ok0 s
  | OReopen => match hg s, hs s with [], [] => ok0 s | _, _ => (s, RUnspec) end
  | OVgNew h r =>
      match tget h (hg s) with Some _ => (s, RUnspec) | None =>
        if negb ((1 <=? r) && (r <=? 65535)) then (s, RFail)
        else match tget r (vgs s) with Some _ => (s, RFail) | None =>
          (mkst (tins r (mkvg [] [] [] true) (vgs s)) (vss s) (tins h r (hg s)) (hs s), ROk [r] None) end end
  | OVgAttach h r w =>
      match tget h (hg s) with Some _ => (s, RUnspec) | None =>
        match tget r (vgs s) with None => (s, RFail) | Some g =>
          let w' := if attached r s then g_w g || w else w in
          (mkst (tset r (set_w g w') (vgs s)) (vss s) (tins h r (hg s)) (hs s), ROk [] None) end end
  | OVgDetach h =>      (* an empty slot: nothing is called, the drivers report fail *)
      match tget h (hg s) with None => (s, RFail) | Some r =>
        match tget r (vgs s) with None => (s, RUnspec) | Some g =>
          let hg' := tdel h (hg s) in
          (mkst (if attached_in r hg' then vgs s else tset r (set_w g false) (vgs s)) (vss s) hg' (hs s),
           ROk [] None) end end
  | OSetName h n => edit_h s h (fun r g =>
      if negb (name_ok n) then (s, RUnspec)
      else if 65535 <? zlen n then (s, RFail)
      else ok0 (put_vg s r (mkvg n (g_class g) (g_members g) (g_w g))))
  | OSetClass h n => edit_h s h (fun r g =>
      if negb (name_ok n) then (s, RUnspec)
      else if 65535 <? zlen n then (s, RFail)
      else ok0 (put_vg s r (mkvg (g_name g) n (g_members g) (g_w g))))
  | OAddTagRef h t r => edit_h s h (fun vr g =>
      if negb (u16 t && u16 r) then (s, RUnspec)
      else if negb (room g 1) then (s, RFail)
      else (put_vg s vr (set_members g (g_members g ++ [(t, r)])), ROk [zlen (g_members g) + 1] None))
  | OAddMany h t r c st => edit_h s h (fun vr g =>
      if u16 t && u16 r && u16 (r + (c - 1) * st) && (1 <=? c) && room g c
      then (put_vg s vr (set_members g (add_many (g_members g) t r st (Z.to_nat c))),
            ROk [zlen (g_members g) + c] None)
      else (s, RUnspec))
  | OInsertVg h h2 =>
      match tget h2 (hg s) with None => (s, RUnspec) | Some r2 => insert_pair s h (DFTAG_VG, r2) end
  | OInsertVs h h2 =>
      match tget h2 (hs s) with None => (s, RUnspec) | Some r2 => insert_pair s h (DFTAG_VH, r2) end
  | ODelTagRef h t r => edit_h s h (fun vr g =>
      if u16 t && u16 r then
        match remove_first (t, r) (g_members g) with
        | None => (s, RFail)
        | Some l => ok0 (put_vg s vr (set_members g l))
        end
      else (s, RUnspec))
  | OVDelete r =>
      if negb (u16 r) then (s, RUnspec)
      else match tget r (vgs s) with None => (s, RFail) | Some _ =>
        if attached r s then (s, RUnspec) else ok0 (mkst (tdel r (vgs s)) (vss s) (hg s) (hs s)) end
  | OVSDelete r =>
      if negb (u16 r) then (s, RUnspec)
      else match tget r (vss s) with None => (s, RFail) | Some _ =>
        if vs_attached r s then (s, RUnspec) else ok0 (mkst (vgs s) (tdel r (vss s)) (hg s) (hs s)) end
  | OVsNew r n c fl =>
      if negb ((1 <=? r) && (r <=? 65535)) then (s, RFail)
      else match tget r (vss s) with Some _ => (s, RFail) | None =>
        if name_ok n && name_ok c
        then (mkst (vgs s) (tins r (mkvs n c fl) (vss s)) (hg s) (hs s), ROk [r] None) else (s, RUnspec) end
  | OVsAttach h r =>
      match tget h (hs s) with Some _ => (s, RUnspec) | None =>
        match tget r (vss s) with None => (s, RFail) | Some _ =>
          (mkst (vgs s) (vss s) (hg s) (tins h r (hs s)), ROk [] None) end end
  | OVsDetach h =>
      match tget h (hs s) with None => (s, RFail) | Some _ =>
        (mkst (vgs s) (vss s) (hg s) (tdel h (hs s)), ROk [] None) end
  (* ---- observers ---- *)
  | ONTagRefs h => with_h s h (fun _ g => okv s [zlen (g_members g)])
  | OGetTagRefs h n => with_h s h (fun _ g =>
      if n <? 0 then (s, RUnspec)
      else let l := firstn (Z.to_nat n) (g_members g) in okv s (zlen l :: flat l))
  | OGetTagRef h i => with_h s h (fun _ g =>
      if (0 <=? i) && (i <? zlen (g_members g))
      then match nth_error (g_members g) (Z.to_nat i) with Some (t, r) => okv s [t; r] | None => (s, RFail) end
      else (s, RFail))
  | OInqTagRef h t r => with_h s h (fun _ g =>
      if u16 t && u16 r then okv s [if has_member (t, r) (g_members g) then 1 else 0] else (s, RUnspec))
  | ONRefs h t => with_h s h (fun _ g =>
      if u16 t then okv s [zlen (filter (fun p => fst p =? t) (g_members g))] else (s, RUnspec))
  | OGetName h => with_h s h (fun _ g => (s, ROk [] (Some (g_name g))))
  | OGetClass h => with_h s h (fun _ g => (s, ROk [] (Some (g_class g))))
  | OInquire h => with_h s h (fun _ g => (s, ROk [zlen (g_members g)] (Some (g_name g))))
  | OQueryRef h => with_h s h (fun r _ => okv s [r])
  | OIsVg h id => with_h s h (fun _ g =>
      if u16 id then okv s [if has_member (DFTAG_VG, id) (g_members g) then 1 else 0] else (s, RUnspec))
  | OIsVs h id => with_h s h (fun _ g =>
      if u16 id then okv s [if has_member (DFTAG_VH, id) (g_members g) then 1 else 0] else (s, RUnspec))
  | OLone n => if n <? 0 then (s, RUnspec)
               else let l := lone_vgroups s in okv s (zlen l :: firstn (Z.to_nat n) l)
  | OVSLone n => if n <? 0 then (s, RUnspec)
                 else let l := lone_vdatas s in okv s (zlen l :: firstn (Z.to_nat n) l)
  | OGetId r => getid (vgs s) r s
  | OVSGetId r => getid (vss s) r s
  | OIter => okv s (keys (vgs s))
  | OVSIter => okv s (keys (vss s))
  | OFind n => match n with [] => (s, RNoSpec) | _ => okv s [find_first (fun g => bytes_eqb n (g_name g)) (vgs s)] end
  | OFindClass n => match n with [] => (s, RNoSpec) | _ => okv s [find_first (fun g => bytes_eqb n (g_class g)) (vgs s)] end
  | OVSFind n => match n with [] => (s, RNoSpec) | _ => okv s [find_first (fun v => bytes_eqb n (s_name v)) (vss s)] end
  | OVSFindClass n => match n with [] => (s, RNoSpec) | _ => okv s [find_first (fun v => bytes_eqb n (s_class v)) (vss s)] end
  | OGetVgroupsF start n =>
      if (start <? 0) || (n <? 1) then (s, RUnspec)
      else let u := keys (filter (fun e => negb (internal_class (g_class (snd e)))) (vgs s)) in
           if zlen u <? start then (s, RFail) else let l := slice start n u in okv s (zlen l :: l)
  | OGetVgroupsG h start n => with_h s h (fun _ g =>
      if (start <? 0) || (n <? 1) then (s, RUnspec)
      else let u := map snd (filter (fun p => (fst p =? DFTAG_VG) &&
                                      match tget (snd p) (vgs s) with
                                      | Some g2 => negb (internal_class (g_class g2)) | None => false end)
                                    (g_members g)) in
           if zlen u <? start then (s, RFail) else let l := slice start n u in okv s (zlen l :: l))
  | OGetVdatasF q start n =>
      if (start <? 0) || (n <? 0) then (s, RUnspec)
      else enum_answer s (keys (filter (fun e => vs_class_match q (s_class (snd e))) (vss s))) start n
  | OGetVdatasG h q start n => with_h s h (fun _ g =>
      if (start <? 0) || (n <? 0) then (s, RUnspec)
      else enum_answer s (map snd (filter (fun p => (fst p =? DFTAG_VH) && vs_matches q (snd p) (vss s))
                                           (g_members g))) start n)
  | OVHMakeGroup r n c l =>
      if negb ((1 <=? r) && (r <=? 65535)) then (s, RFail)
      else match tget r (vgs s) with Some _ => (s, RFail) | None =>
        if opt_ok n && opt_ok c && forallb (fun p => u16 (fst p) && u16 (snd p)) l && (zlen l <=? 65535)
        then (mkst (tins r (mkvg (opt_val n) (opt_val c) l false) (vgs s)) (vss s) (hg s) (hs s), ROk [r] None)
        else (s, RUnspec) end
  | OVentries r =>
      if r <? 1 then (s, RFail)
      else if negb (u16 r) then (s, RUnspec)
      else match tget r (vgs s) with Some g => okv s [zlen (g_members g)] | None => (s, RFail) end
  | OQueryTag h => with_h s h (fun _ _ => okv s [DFTAG_VG])
  | OGisInternal h => with_h s h (fun _ g =>
      match g_class g with
      | [] => if is_prefix GR_NAME (g_name g) then (s, RNoSpec) else okv s [0]
      | c => okv s [if internal_class c then 1 else 0]
      end)
  | OFlocate h f => with_h s h (fun _ g =>
      match f with [] => (s, RUnspec) | _ =>
        match flocate f (vss s) (g_members g) with Some r => okv s [r] | None => (s, RFail) end end)
  | OCountVgroupsF start =>
      if start <? 0 then (s, RUnspec) else if 0 <? start then (s, RNoSpec)
      else okv s [zlen (filter (fun e => negb (internal_class (g_class (snd e)))) (vgs s))]
  | OCountVgroupsG h start => with_h s h (fun _ g =>
      if start <? 0 then (s, RUnspec)
      else let u := filter (fun p => (fst p =? DFTAG_VG) &&
                                      match tget (snd p) (vgs s) with
                                      | Some g2 => negb (internal_class (g_class g2)) | None => false end)
                           (g_members g) in
           if zlen u <? start then (s, RFail) else okv s [zlen u - start])
  | OGetNext _ _ | OMsize _ | ORawVg _ => (s, RNoSpec)
  | OPutRaw _ _ => (s, RUnspec)
  end.

(* ---- the member list of one Vgroup as a list machine (used by theorem vg_members_refine_list) ------- *)
Inductive mop :=
| MAdd (t r : Z)            (* Vaddtagref: duplicates allowed *)
| MInsert (t r : Z)         (* Vinsert: refuses a duplicate *)
| MDel (t r : Z)            (* Vdeletetagref: first match *)
| MCount                    (* Vntagrefs *)
| MGetAll (n : Z)           (* Vgettagrefs *)
| MGet (i : Z)              (* Vgettagref *)
| MInq (t r : Z).           (* Vinqtagref *)
Inductive mres := MNum (z : Z) | MFail | MPairs (l : list pair) | MBool (b : bool).

(** [None]: outside the domain (arguments beyond 16 bits).  The 65536th member is refused. *)
Definition l_apply (l : list pair) (o : mop) : option (list pair * mres) :=
  match o with
  | MAdd t r => if u16 t && u16 r
                then Some (if zlen l <? 65535 then (l ++ [(t, r)], MNum (zlen l + 1)) else (l, MFail)) else None
  | MInsert t r => if u16 t && u16 r
                   then Some (if has_member (t, r) l then (l, MFail)
                              else if zlen l <? 65535 then (l ++ [(t, r)], MNum (zlen l)) else (l, MFail)) else None
  | MDel t r => if u16 t && u16 r
                then Some (match remove_first (t, r) l with Some l' => (l', MNum 0) | None => (l, MFail) end) else None
  | MCount => Some (l, MNum (zlen l))
  | MGetAll n => if 0 <=? n then Some (l, MPairs (firstn (Z.to_nat n) l)) else None
  | MGet i => Some (l, match (if 0 <=? i then nth_error l (Z.to_nat i) else None) with
                       | Some p => MPairs [p] | None => MFail end)
  | MInq t r => if u16 t && u16 r then Some (l, MBool (has_member (t, r) l)) else None
  end.
Fixpoint l_run (l : list pair) (ops : list mop) : option (list pair * list mres) :=
  match ops with
  | [] => Some (l, [])
  | o :: r => match l_apply l o with
              | None => None
              | Some (l1, x) => match l_run l1 r with None => None | Some (l2, xs) => Some (l2, x :: xs) end
              end
  end.
