(** C11 -- abstract specification S of the annotation interfaces.

    The whole state is a finite map
        (annotation type, annotation ref)  |->  (target tag, target ref, text)
    (an association list with unique keys) plus the table of identifiers handed out to the caller
    ([slots]: caller-side handle number |-> key).  A text of [None] is an annotation that was created
    (ANcreate/ANcreatef) but not written yet: it is listed and counted while the session lasts, has no
    length and no text, and is gone after ANend.

    The annotation ref is chosen by the library; the specification does not say which one it picks, only
    that it is FRESH: operations that allocate one take the library's choice as the argument [rref] and
    answer [RBad] when that choice is not acceptable.  [RUnspec] marks operations outside the property's
    domain (nothing later in that history is compared).  No proofs here. *)
From Coq Require Import ZArith List Bool.
Require Import H4.gen.Gen_AN.
Import ListNotations.
Local Open Scope Z_scope.

Definition key := (Z * Z)%type.                       (* annotation type, annotation ref *)
Definition key_eqb (a b : key) : bool := (fst a =? fst b) && (snd a =? snd b).

Record ann := mkann { a_key : key; a_ttag : Z; a_tref : Z; a_text : option (list Z) }.

Record state := mkstate {
  anns : list ann;                 (* the finite map; keys unique *)
  slots : list (Z * key);          (* identifiers the caller holds: slot |-> key *)
  sess : bool                      (* an AN session (ANstart .. ANend) is open on the file *)
}.
Definition init : state := mkstate [] [] false.

(** the data objects every test file contains (tag, ref), in directory order: only DFANlablist looks at them *)
Definition objects : list (Z * Z) := [(700, 1); (700, 2); (700, 3); (700, 5); (701, 1); (701, 2)].

Inductive op :=
| OStart | OEnd
| OCreate (slot type ttag tref rref : Z)        (* ANcreate; rref = ref the library chose (0: it failed) *)
| OCreatef (slot type rref : Z)                 (* ANcreatef *)
| OWrite (slot : Z) (text : list Z)             (* ANwriteann *)
| ORead (slot maxlen : Z)                       (* ANreadann into a buffer of maxlen bytes pre-filled with 0xEE *)
| OLen (slot : Z)                               (* ANannlen *)
| OSelect (slot type idx rref : Z)              (* ANselect *)
| OSelectAll (type : Z)                         (* ANfileinfo count n, then ANselect 0..n-1: the refs *)
| OFileInfo                                     (* ANfileinfo *)
| ONumann (type ttag tref : Z)                  (* ANnumann *)
| OAnnlist (type ttag tref : Z)                 (* ANannlist: the refs of the listed ids *)
| OTagref2id (slot tag ref : Z)                 (* ANtagref2id *)
| OId2tagref (slot : Z)                         (* ANid2tagref *)
| OEndaccess (slot : Z)                         (* ANendaccess *)
| OIds                                          (* number of distinct annotations the live identifiers denote *)
| ODfPut (kind ttag tref : Z) (text : list Z) (rref : Z)   (* DFANputlabel (kind 0) / DFANputdesc (kind 1) *)
| ODfGet (kind ttag tref maxlen : Z)            (* DFANgetlabel / DFANgetdesc into a 0xEE-filled buffer *)
| ODfGetLen (kind ttag tref : Z)                (* DFANgetlablen / DFANgetdesclen *)
| ODfAddF (kind : Z) (text : list Z) (rref : Z) (* DFANaddfid / DFANaddfds *)
| ODfGetFs (kind : Z)                           (* all file labels / descriptions: DFANgetfid(len) / DFANgetfds(len) *)
| ODfLablist (tag maxlen : Z).                  (* DFANlablist: refs of the objects of [tag] and their labels *)

(** [ROk vals bufs]: integer results, then byte-string results; every byte-string position carries the list
    of acceptable answers (one element except where an object has several labels/descriptions and the
    single-annotation DFAN call may return any of them).  [ROneOf vs]: one integer out of [vs]. *)
Inductive res := RFail | RUnspec | RBad | ROk (vals : list Z) (bufs : list (list (list Z))) | ROneOf (vs : list Z).

(* ---- the four annotation types ------------------------------------------------------------- *)
Definition valid_type (t : Z) : bool := (0 <=? t) && (t <=? 3).
Definition is_data (t : Z) : bool := (t =? AN_DATA_LABEL) || (t =? AN_DATA_DESC).
Definition is_label (t : Z) : bool := (t =? AN_DATA_LABEL) || (t =? AN_FILE_LABEL).
Definition tag_of_type (t : Z) : Z :=
  if t =? AN_DATA_LABEL then DFTAG_DIL else if t =? AN_DATA_DESC then DFTAG_DIA
  else if t =? AN_FILE_LABEL then DFTAG_FID else if t =? AN_FILE_DESC then DFTAG_FD else DFTAG_NULL.
Definition type_of_tag (g : Z) : option Z :=
  if g =? DFTAG_DIL then Some AN_DATA_LABEL else if g =? DFTAG_DIA then Some AN_DATA_DESC
  else if g =? DFTAG_FID then Some AN_FILE_LABEL else if g =? DFTAG_FD then Some AN_FILE_DESC else None.

(* ---- the finite map ---------------------------------------------------------------------------- *)
Fixpoint lookup (k : key) (l : list ann) : option ann :=
  match l with [] => None | a :: t => if key_eqb k (a_key a) then Some a else lookup k t end.
Fixpoint set_text (k : key) (txt : list Z) (l : list ann) : list ann :=
  match l with
  | [] => []
  | a :: t => if key_eqb k (a_key a) then mkann k (a_ttag a) (a_tref a) (Some txt) :: t else a :: set_text k txt t
  end.
Definition of_type (t : Z) (l : list ann) : list ann := filter (fun a => fst (a_key a) =? t) l.
Definition on_target (t ttag tref : Z) (l : list ann) : list ann :=
  filter (fun a => (a_ttag a =? ttag) && (a_tref a =? tref)) (of_type t l).
Definition written (l : list ann) : list ann :=
  filter (fun a => match a_text a with Some _ => true | None => false end) l.
Definition refs (l : list ann) : list Z := map (fun a => snd (a_key a)) l.
Definition fresh (t rref : Z) (l : list ann) : bool :=
  (1 <=? rref) && (rref <=? MAX_REF) && match lookup (t, rref) l with None => true | Some _ => false end.
Definition zlen {A} (l : list A) : Z := Z.of_nat (length l).

Fixpoint slot_get (s : Z) (l : list (Z * key)) : option key :=
  match l with [] => None | (s', k) :: t => if s =? s' then Some k else slot_get s t end.
Definition slot_set (s : Z) (k : key) (l : list (Z * key)) : list (Z * key) :=
  (s, k) :: filter (fun p => negb (fst p =? s)) l.
Definition slot_clear (s : Z) (l : list (Z * key)) : list (Z * key) := filter (fun p => negb (fst p =? s)) l.
Fixpoint distinct_keys (l : list key) : list key :=
  match l with [] => [] | k :: t => if existsb (key_eqb k) t then distinct_keys t else k :: distinct_keys t end.

(* ---- what a read call leaves in the caller's buffer ------------------------------------------------- *)
Definition FILL : Z := 238.   (* 0xEE: the harness pre-fills every buffer with it *)
(** labels: at most maxlen-1 bytes and a terminating NUL; descriptions: at most maxlen bytes, no terminator;
    bytes beyond that are untouched *)
Definition buffer_image (label : bool) (txt : list Z) (maxlen : Z) : list Z :=
  let n := if label then Z.min (zlen txt) (maxlen - 1) else Z.min (zlen txt) maxlen in
  let body := firstn (Z.to_nat n) txt ++ (if label then [0] else []) in
  body ++ repeat FILL (Z.to_nat maxlen - length body).
(** DFANgetfds: at most maxlen-1 bytes and a NUL, like a label (dfan.c DFANIgetfann) *)
Definition has_nul (txt : list Z) : bool := existsb (fun b => b =? 0) txt.

Definition text_of (a : ann) : list Z := match a_text a with Some t => t | None => [] end.

(* ---- operations -------------------------------------------------------------------------------------- *)
Definition with_slot (s : state) (slot : Z) (k : ann -> state * res) : state * res :=
  match slot_get slot (slots s) with
  | None => (s, RFail)
  | Some key => match lookup key (anns s) with None => (s, RFail) | Some a => k a end
  end.

Definition add_ann (s : state) (slot : option Z) (a : ann) : state :=
  mkstate (anns s ++ [a]) (match slot with Some sl => slot_set sl (a_key a) (slots s) | None => slots s end) (sess s).

Definition create (s : state) (slot type ttag tref rref : Z) : state * res :=
  if negb (sess s) then (mkstate (anns s) (slot_clear slot (slots s)) (sess s), RFail) else
  if negb (valid_type type) then (mkstate (anns s) (slot_clear slot (slots s)) (sess s), RFail) else
  if is_data type && ((ttag =? 0) || (tref =? 0)) then (mkstate (anns s) (slot_clear slot (slots s)) (sess s), RFail) else
  if negb (fresh type rref (anns s)) then (s, RBad) else
  let a := if is_data type then mkann (type, rref) ttag tref None
           else mkann (type, rref) (tag_of_type type) rref None in
  (add_ann s (Some slot) a, ROk [tag_of_type type; rref] []).

Definition dfan_kind_type (kind : Z) : Z := if kind =? DFAN_LABEL then AN_DATA_LABEL else AN_DATA_DESC.
Definition dfan_kind_ftype (kind : Z) : Z := if kind =? DFAN_LABEL then AN_FILE_LABEL else AN_FILE_DESC.

Definition step (s : state) (o : op) : state * res :=
  match o with
  | OStart => if sess s then (s, RUnspec) else (mkstate (anns s) [] true, ROk [] [])
  | OEnd => if sess s then (mkstate (written (anns s)) [] false, ROk [] []) else (s, RFail)
  | OCreate slot type ttag tref rref => create s slot type ttag tref rref
  | OCreatef slot type rref =>
      if is_data type then (mkstate (anns s) (slot_clear slot (slots s)) (sess s), RFail)
      else create s slot type 0 0 rref
  | OWrite slot txt =>
      with_slot s slot (fun a =>
        if (zlen txt =? 0) || (is_label (fst (a_key a)) && has_nul txt) then (s, RUnspec)
        else (mkstate (set_text (a_key a) txt (anns s)) (slots s) (sess s), ROk [] []))
  | ORead slot maxlen =>
      with_slot s slot (fun a =>
        match a_text a with
        | None => (s, RFail)
        | Some t => if maxlen <? 1 then (s, RUnspec)
                    else (s, ROk [] [[buffer_image (is_label (fst (a_key a))) t maxlen]])
        end)
  | OLen slot =>
      with_slot s slot (fun a => match a_text a with None => (s, RFail) | Some t => (s, ROk [zlen t] []) end)
  | OSelect slot type idx rref =>
      if negb (sess s) then (mkstate (anns s) (slot_clear slot (slots s)) (sess s), RFail) else
      if negb (valid_type type) then (s, RUnspec) else
      if (idx <? 0) || (zlen (of_type type (anns s)) <=? idx)
      then (mkstate (anns s) (slot_clear slot (slots s)) (sess s), RFail) else
      match lookup (type, rref) (anns s) with
      | None => (s, RBad)
      | Some _ => (mkstate (anns s) (slot_set slot (type, rref) (slots s)) (sess s), ROk [tag_of_type type; rref] [])
      end
  | OSelectAll type =>
      if negb (sess s) then (s, RFail) else
      if negb (valid_type type) then (s, RUnspec) else
      (s, ROk (zlen (of_type type (anns s)) :: refs (of_type type (anns s))) [])
  | OFileInfo =>
      if negb (sess s) then (s, RFail) else
      (s, ROk [zlen (of_type AN_FILE_LABEL (anns s)); zlen (of_type AN_FILE_DESC (anns s));
               zlen (of_type AN_DATA_LABEL (anns s)); zlen (of_type AN_DATA_DESC (anns s))] [])
  | ONumann type ttag tref =>
      if negb (valid_type type) then (s, RUnspec) else
      if negb (sess s) || negb (is_data type) then (s, RFail) else
      (s, ROk [zlen (on_target type ttag tref (anns s))] [])
  | OAnnlist type ttag tref =>
      if negb (valid_type type) then (s, RUnspec) else
      if negb (sess s) || negb (is_data type) then (s, RFail) else
      (s, ROk (zlen (on_target type ttag tref (anns s)) :: refs (on_target type ttag tref (anns s))) [])
  | OTagref2id slot tag ref =>
      if negb (sess s) then (mkstate (anns s) (slot_clear slot (slots s)) (sess s), RFail) else
      match type_of_tag tag with
      | None => (mkstate (anns s) (slot_clear slot (slots s)) (sess s), RFail)
      | Some t => match lookup (t, ref) (anns s) with
                  | None => (mkstate (anns s) (slot_clear slot (slots s)) (sess s), RFail)
                  | Some _ => (mkstate (anns s) (slot_set slot (t, ref) (slots s)) (sess s), ROk [] [])
                  end
      end
  | OId2tagref slot =>
      with_slot s slot (fun a => (s, ROk [tag_of_type (fst (a_key a)); snd (a_key a)] []))
  | OEndaccess _ => (s, ROk [] [])
  | OIds => (s, ROk [zlen (distinct_keys (map snd (slots s)))] [])
  | ODfPut kind ttag tref txt rref =>
      if sess s then (s, RUnspec) else
      if (ttag =? 0) || (tref =? 0) then (s, RFail) else
      if (zlen txt =? 0) || ((kind =? DFAN_LABEL) && has_nul txt) then (s, RUnspec) else
      let t := dfan_kind_type kind in
      match on_target t ttag tref (anns s) with
      | [] => if fresh t rref (anns s)
              then (add_ann s None (mkann (t, rref) ttag tref (Some txt)), ROk [rref] []) else (s, RBad)
      | l => if existsb (fun r => r =? rref) (refs l)
             then (mkstate (set_text (t, rref) txt (anns s)) (slots s) (sess s), ROk [rref] []) else (s, RBad)
      end
  | ODfGet kind ttag tref maxlen =>
      if sess s then (s, RUnspec) else
      if (ttag =? 0) || (tref =? 0) then (s, RFail) else
      match on_target (dfan_kind_type kind) ttag tref (anns s) with
      | [] => (s, RFail)
      | l => if maxlen <? 1 then (s, RUnspec)
             else (s, ROk [] [map (fun a => buffer_image (kind =? DFAN_LABEL) (text_of a) maxlen) l])
      end
  | ODfGetLen kind ttag tref =>
      if sess s then (s, RUnspec) else
      if (ttag =? 0) || (tref =? 0) then (s, RFail) else
      match on_target (dfan_kind_type kind) ttag tref (anns s) with
      | [] => (s, RFail)
      | l => (s, ROneOf (map (fun a => zlen (text_of a)) l))
      end
  | ODfAddF kind txt rref =>
      if sess s then (s, RUnspec) else
      if (zlen txt =? 0) || ((kind =? DFAN_LABEL) && has_nul txt) then (s, RUnspec) else
      let t := dfan_kind_ftype kind in
      if fresh t rref (anns s)
      then (add_ann s None (mkann (t, rref) (tag_of_type t) rref (Some txt)), ROk [rref] []) else (s, RBad)
  | ODfGetFs kind =>
      if sess s then (s, RUnspec) else
      let l := of_type (dfan_kind_ftype kind) (anns s) in
      (s, ROk [zlen l] (map (fun a => [text_of a]) l))
  | ODfLablist tag maxlen =>
      if sess s then (s, RUnspec) else
      if tag =? 0 then (s, RFail) else
      if maxlen <? 1 then (s, RUnspec) else
      let orefs := map snd (filter (fun o => fst o =? tag) objects) in
      if zlen orefs =? 0 then (s, RFail) else      (* no object of that tag: nothing to list, the call fails *)
      (s, ROk (zlen orefs :: orefs)
              (map (fun r => match on_target AN_DATA_LABEL tag r (anns s) with
                             | [] => [[]]
                             | l => map (fun a => firstn (Z.to_nat (maxlen - 1)) (text_of a)) l
                             end) orefs))
  end.

Fixpoint run (s : state) (ops : list op) : list res :=
  match ops with [] => [] | o :: t => let '(s', r) := step s o in r :: run s' t end.

(* ---- operations added later: ANget_tagref, and the file-annotation enumeration call by call -------------------- *)
(** [x_enum kind] is the enumeration of file labels (kind 0) / file descriptions (kind 1) in progress on this file:
    the refs delivered since it was started with isfirst = 1, and the ref the last length call announced (the next
    read delivers that one).  [None]: no enumeration in progress (another file was used, the file changed, a whole
    enumeration ran) -- continuing with isfirst = 0 is then outside the domain.  Which annotation comes first or next
    is the library's choice ([rref]); the specification demands that it is one NOT delivered yet, that a read delivers
    the announced one, and that the calls fail exactly when all have been delivered. *)
Inductive xop :=
| XOp (o : op)
| XGetTagref (type idx rref : Z)                  (* ANget_tagref, compared with ANid2tagref(ANselect(idx)) *)
| XFLen (kind : Z) (first : bool) (rref : Z)      (* DFANgetfidlen / DFANgetfdslen *)
| XFGet (kind : Z) (first : bool) (maxlen rref : Z)   (* DFANgetfid / DFANgetfds into a 0xEE-filled buffer *)
| XSwitch                                         (* another file is used from now on *)
| XLablistPage (tag maxlen listsize startpos : Z) (* DFANlablist paging: up to listsize refs from the startpos'th on *)
| XRestart.                                       (* ANend, then ANstart on the same open file *)

Record xstate := mkx { x_st : state; x_enum : Z -> option (list Z * option Z) }.
Definition xinit : xstate := mkx init (fun _ => None).

Definition zmem (r : Z) (l : list Z) : bool := existsb (fun x => x =? r) l.
Definition set_enum_x (e : Z -> option (list Z * option Z)) (k : Z) (v : option (list Z * option Z)) :=
  fun k' => if k' =? k then v else e k'.

Definition xstep (x : xstate) (o : xop) : xstate * res :=
  let s := x_st x in
  match o with
  | XOp o' =>
      let '(s', r) := step s o' in
      let e' := match o' with OStart | ODfAddF _ _ _ | ODfGetFs _ => (fun _ => None) | _ => x_enum x end in
      (mkx s' e', r)
  | XSwitch => (mkx s (fun _ => None), ROk [] [])
  | XRestart =>
      (* exactly ANend followed by ANstart: what was created but not written is gone, no identifier survives *)
      if sess s then (mkx (mkstate (written (anns s)) [] true) (fun _ => None), ROk [] []) else (x, RFail)
  | XLablistPage tag maxlen listsize startpos =>
      if sess s then (x, RUnspec) else
      if tag =? 0 then (x, RFail) else
      if (maxlen <? 1) || (listsize <? 1) || (startpos <? 1) then (x, RUnspec) else
      let allrefs := map snd (filter (fun o => fst o =? tag) objects) in
      if zlen allrefs =? 0 then (x, RFail) else
      let orefs := firstn (Z.to_nat listsize) (skipn (Z.to_nat (startpos - 1)) allrefs) in
      (x, ROk (zlen orefs :: orefs)
              (map (fun r => match on_target AN_DATA_LABEL tag r (anns s) with
                             | [] => [[]]
                             | l => map (fun a => firstn (Z.to_nat (maxlen - 1)) (text_of a)) l
                             end) orefs))
  | XGetTagref type idx rref =>
      if negb (sess s) then (x, RFail) else
      if negb (valid_type type) then (x, RUnspec) else
      if (idx <? 0) || (zlen (of_type type (anns s)) <=? idx) then (x, RFail) else
      match lookup (type, rref) (anns s) with
      | None => (x, RBad)
      | Some _ => (x, ROk [tag_of_type type; rref; tag_of_type type; rref] [])
      end
  | XFLen kind first rref =>
      if sess s then (x, RUnspec) else
      if negb ((kind =? 0) || (kind =? 1)) then (x, RUnspec) else
      let t := dfan_kind_ftype kind in
      match (if first then Some ([], None) else x_enum x kind) with
      | None => (x, RUnspec)
      | Some (seen, peek) =>
          let cands := filter (fun r => negb (zmem r seen)) (refs (of_type t (anns s))) in
          match cands with
          | [] => (mkx s (set_enum_x (x_enum x) kind (Some (seen, None))), RFail)
          | _ =>
              if match peek with Some p => rref =? p | None => zmem rref cands end
              then match lookup (t, rref) (anns s) with
                   | Some a => (mkx s (set_enum_x (x_enum x) kind (Some (seen, Some rref))), ROk [zlen (text_of a); rref] [])
                   | None => (x, RBad)
                   end
              else (x, RBad)
          end
      end
  | XFGet kind first maxlen rref =>
      if sess s then (x, RUnspec) else
      if negb ((kind =? 0) || (kind =? 1)) || (maxlen <? 1) then (x, RUnspec) else
      let t := dfan_kind_ftype kind in
      match (if first then (match x_enum x kind with Some ([], Some p) => Some ([], Some p) | _ => Some ([], None) end)
             else x_enum x kind) with
      | None => (x, RUnspec)
      | Some (seen, peek) =>
          let cands := filter (fun r => negb (zmem r seen)) (refs (of_type t (anns s))) in
          match cands with
          | [] => (mkx s (set_enum_x (x_enum x) kind (Some (seen, None))), RFail)
          | _ =>
              if match peek with Some p => rref =? p | None => zmem rref cands end
              then match lookup (t, rref) (anns s) with
                   | Some a => (mkx s (set_enum_x (x_enum x) kind (Some (rref :: seen, None))),
                                ROk [Z.min (zlen (text_of a)) (maxlen - 1); rref] [[buffer_image true (text_of a) maxlen]])
                   | None => (x, RBad)
                   end
              else (x, RBad)
          end
      end
  end.
