(** C20 -- proofs: the site models (LimitsModel, built from the regenerated guards and evaluated with wrapping
    arithmetic) compute, for ALL arguments in the ranges of their C types, exactly the unbounded specification
    (LimitsSpec): under the guards the code performs nothing wraps, and a refused request changes nothing. *)
From Coq Require Import ZArith List Bool Lia.
Require Import H4.LimitsWidth H4.gen.Gen_Limits H4.LimitsSpec H4.LimitsModel.
Import ListNotations.
Local Open Scope Z_scope.

Arguments wrap32 : simpl never.
Arguments u16 : simpl never.
Arguments add32 : simpl never.
Arguments sub32 : simpl never.
Arguments mul32 : simpl never.
Arguments Z.modulo : simpl never.
Arguments Z.quot : simpl never.
Arguments Z.div : simpl never.
Arguments Z.mul : simpl never.
Arguments Z.add : simpl never.
Arguments Z.sub : simpl never.

Lemma wrap32_id : forall z, is_int32 z -> wrap32 z = z.
Proof.
  intros z H. unfold is_int32 in H. unfold wrap32.
  rewrite Z.mod_small by lia. lia.
Qed.
Lemma u16_id : forall z, 0 <= z <= 65535 -> u16 z = z.
Proof. intros z H. unfold u16. apply Z.mod_small. lia. Qed.
Lemma add32_id : forall a b, is_int32 (a + b) -> add32 a b = a + b.
Proof. intros. unfold add32. apply wrap32_id; assumption. Qed.
Lemma sub32_id : forall a b, is_int32 (a - b) -> sub32 a b = a - b.
Proof. intros. unfold sub32. apply wrap32_id; assumption. Qed.
Lemma mul32_id : forall a b, is_int32 (a * b) -> mul32 a b = a * b.
Proof. intros. unfold mul32. apply wrap32_id; assumption. Qed.

Ltac w32 := repeat first [ rewrite add32_id by (unfold is_int32 in *; lia)
                         | rewrite sub32_id by (unfold is_int32 in *; lia)
                         | rewrite mul32_id by (unfold is_int32 in *; lia)
                         | rewrite wrap32_id by (unfold is_int32 in *; lia)
                         | rewrite u16_id by lia ].
Ltac cases :=
  repeat match goal with
         | |- context [Z.ltb ?a ?b] => destruct (Z.ltb_spec a b)
         | |- context [Z.leb ?a ?b] => destruct (Z.leb_spec a b)
         | |- context [Z.eqb ?a ?b] => destruct (Z.eqb_spec a b)
         end; simpl.

(* ------------------------------------------------------------------ HPgetdiskblock *)
Lemma getdiskblock_lemma : forall eof size, 0 <= eof <= INT32_MAX -> is_int32 size ->
  m_getdiskblock eof size =
  match s_getdiskblock eof size with Some (o, e) => (Some o, e) | None => (None, eof) end.
Proof.
  intros eof size He Hs. unfold INT32_MAX in *. unfold is_int32 in Hs.
  unfold m_getdiskblock, s_getdiskblock, truth, getdiskblock_bad_size, getdiskblock_too_far, getdiskblock_incr, INT32_MAX.
  rewrite (sub32_id 2147483647 eof) by (unfold is_int32; lia).
  destruct (Z.ltb_spec size 0); simpl; [reflexivity|].
  destruct (Z.ltb_spec (2147483647 - eof) size); simpl.
  - destruct (Z.ltb_spec 2147483647 (eof + size)); [reflexivity | lia].
  - destruct (Z.ltb_spec 2147483647 (eof + size)); [lia|].
    rewrite add32_id by (unfold is_int32; lia). reflexivity.
Qed.

Lemma getdiskblock_range : forall eof size o e, 0 <= eof <= INT32_MAX ->
  s_getdiskblock eof size = Some (o, e) -> o = eof /\ eof <= e <= INT32_MAX /\ e = eof + size.
Proof.
  intros eof size o e He. unfold s_getdiskblock.
  destruct (Z.ltb_spec size 0); simpl; [discriminate|].
  destruct (Z.ltb_spec INT32_MAX (eof + size)); [discriminate|].
  intro Hinv. inversion Hinv; subst. lia.
Qed.

Lemma getdiskblock_fail_unchanged : forall eof size, fst (m_getdiskblock eof size) = None -> snd (m_getdiskblock eof size) = eof.
Proof.
  intros eof size. unfold m_getdiskblock.
  destruct (truth (getdiskblock_bad_size size)); [reflexivity|].
  destruct (truth (getdiskblock_too_far size eof)); [reflexivity|]. simpl. discriminate.
Qed.

(* ------------------------------------------------------------------ Hwrite *)
Definition hwrite_expected (appendable : bool) (pos len off elen eof : Z) : hw_result :=
  match s_hwrite appendable (off + elen =? eof) pos len off elen eof with
  | Some (p, l, e) => HwOk p l e
  | None => if appendable && (0 <? len) && (pos + len <=? INT32_MAX) && (elen <? pos + len) && negb (off + elen =? eof)
            then HwConvert else HwFail
  end.

Lemma hwrite_lemma : forall appendable pos len off elen eof,
  0 <= pos <= INT32_MAX -> is_int32 len -> 0 <= off -> 0 <= elen -> off + elen <= eof -> eof <= INT32_MAX ->
  m_hwrite appendable pos len off elen eof = hwrite_expected appendable pos len off elen eof.
Proof.
  intros app pos len off elen eof Hp Hl Ho He Hoe Hm. unfold INT32_MAX in *. unfold is_int32 in Hl.
  unfold m_hwrite, hwrite_expected, s_hwrite, truth, hwrite_past_elem_max, hwrite_bad_request, hwrite_extends,
         hwrite_past_file_max, INT32_MAX.
  rewrite (sub32_id 2147483647 pos) by (unfold is_int32; lia).
  rewrite (sub32_id 2147483647 off) by (unfold is_int32; lia).
  rewrite (add32_id elen off) by (unfold is_int32; lia).
  destruct (Z.ltb_spec (2147483647 - pos) len) as [Hbig|Hsmall]; simpl.
  - (* beyond 2^31-1 in the element *)
    destruct (Z.leb_spec len 0); [lia|]. simpl.
    destruct (Z.ltb_spec 2147483647 (pos + len)); [|lia]. simpl.
    destruct app; simpl; try reflexivity.
    destruct (Z.ltb_spec 0 len); simpl; [|reflexivity].
    destruct (Z.leb_spec (pos + len) 2147483647); [lia|]. reflexivity.
  - rewrite (add32_id len pos) by (unfold is_int32; lia).
    rewrite (add32_id pos len) by (unfold is_int32; lia).
    destruct (Z.leb_spec len 0) as [Hle|Hgt]; simpl.
    + destruct app; simpl; try reflexivity.
      destruct (Z.ltb_spec 0 len); [lia|]. reflexivity.
    + destruct (Z.ltb_spec 2147483647 (pos + len)); [lia|]. simpl.
      replace (elen + off) with (off + elen) by lia.
      destruct app; simpl.
      * (* appendable *)
        destruct (Z.ltb_spec elen (len + pos)) as [Hext|Hin]; simpl.
        -- destruct (Z.leb_spec (pos + len) elen); [lia|].
           destruct (Z.eqb_spec (off + elen) eof) as [Heq|Hne]; simpl.
           ++ destruct (Z.ltb_spec (2147483647 - off) (pos + len)); simpl.
              ** destruct (Z.ltb_spec 2147483647 (off + pos + len)); [|lia].
                 destruct (Z.ltb_spec 0 len); [|lia]. simpl.
                 destruct (Z.leb_spec (pos + len) 2147483647); [|lia]. simpl.
                 destruct (Z.ltb_spec elen (pos + len)); [|lia]. simpl. reflexivity.
              ** destruct (Z.ltb_spec 2147483647 (off + pos + len)); [lia|].
                 rewrite (add32_id pos off) by (unfold is_int32; lia).
                 rewrite (add32_id (pos + off) len) by (unfold is_int32; lia).
                 destruct (Z.ltb_spec eof (pos + off + len)).
                 --- f_equal. lia.
                 --- f_equal. lia.
           ++ destruct (Z.ltb_spec 0 len); [|lia]. simpl.
              destruct (Z.leb_spec (pos + len) 2147483647); [|lia]. simpl.
              destruct (Z.ltb_spec elen (pos + len)); [|lia]. reflexivity.
        -- destruct (Z.leb_spec (pos + len) elen); [|lia].
           rewrite (add32_id pos off) by (unfold is_int32; lia).
           rewrite (add32_id (pos + off) len) by (unfold is_int32; lia).
           destruct (Z.ltb_spec eof (pos + off + len)); [lia|]. reflexivity.
      * (* not appendable *)
        destruct (Z.ltb_spec elen (len + pos)) as [Hext|Hin]; simpl.
        -- destruct (Z.leb_spec (pos + len) elen); [lia|]. reflexivity.
        -- destruct (Z.leb_spec (pos + len) elen); [|lia].
           rewrite (add32_id pos off) by (unfold is_int32; lia).
           rewrite (add32_id (pos + off) len) by (unfold is_int32; lia).
           destruct (Z.ltb_spec eof (pos + off + len)); [lia|]. reflexivity.
Qed.

(** what a successful write leaves: everything still in range, element inside the file *)
Lemma hwrite_ok_range : forall appendable at_eof pos len off elen eof p l e,
  0 <= pos -> 0 <= off -> 0 <= elen -> off + elen <= eof -> eof <= INT32_MAX -> (at_eof = true -> off + elen = eof) ->
  s_hwrite appendable at_eof pos len off elen eof = Some (p, l, e) ->
  p = pos + len /\ 0 <= p <= INT32_MAX /\ elen <= l /\ off + l <= e /\ eof <= e <= INT32_MAX.
Proof.
  intros app ate pos len off elen eof p l e Hp Ho He Hoe Hm Hate. unfold s_hwrite.
  destruct (Z.leb_spec len 0); simpl; [discriminate|].
  destruct (Z.ltb_spec INT32_MAX (pos + len)); [discriminate|].
  destruct (Z.leb_spec (pos + len) elen).
  - intro Hinv; inversion Hinv; subst. lia.
  - destruct app; simpl; [|discriminate]. destruct ate; simpl; [|discriminate].
    destruct (Z.ltb_spec INT32_MAX (off + pos + len)); [discriminate|].
    intro Hinv; inversion Hinv; subst. specialize (Hate eq_refl). lia.
Qed.

Lemma hlpwrite_length_lemma : forall posn bw len info_length,
  0 <= posn -> 0 <= bw <= len -> len <= INT32_MAX - posn -> 0 <= info_length <= INT32_MAX ->
  m_hlpwrite_length posn bw info_length = (posn + bw, Z.max info_length (posn + bw)).
Proof.
  intros posn bw len il Hp Hb Hl Hi. unfold INT32_MAX in *. unfold m_hlpwrite_length.
  rewrite (add32_id bw posn) by (unfold is_int32; lia).
  rewrite (add32_id posn bw) by (unfold is_int32; lia).
  destruct (Z.ltb_spec il (bw + posn)); f_equal; lia.
Qed.

(* ------------------------------------------------------------------ HTPstart / HTIupdate_dd *)
Definition dd_ok (p : Z * Z) : Prop :=
  (fst p = -1 /\ snd p = -1) \/ (0 <= fst p /\ 0 <= snd p /\ fst p + snd p <= INT32_MAX).

Lemma endoff_fold : forall dds e, 0 <= e <= INT32_MAX -> Forall dd_ok dds ->
  fold_left (fun e p => let s := htpstart_dd_end (fst p) (snd p) in if e <? s then s else e) dds e
  = fold_left (fun e p => Z.max e (fst p + snd p)) dds e /\
  0 <= fold_left (fun e p => Z.max e (fst p + snd p)) dds e <= INT32_MAX.
Proof.
  induction dds as [|p t IH]; intros e He Hall; simpl.
  - split; [reflexivity | exact He].
  - inversion Hall as [|? ? Hp Ht]; subst.
    assert (Hs : htpstart_dd_end (fst p) (snd p) = fst p + snd p).
    { unfold htpstart_dd_end. apply add32_id. unfold is_int32. unfold dd_ok, INT32_MAX in Hp. lia. }
    rewrite Hs.
    assert (Hm : (if e <? fst p + snd p then fst p + snd p else e) = Z.max e (fst p + snd p)).
    { destruct (Z.ltb_spec e (fst p + snd p)); lia. }
    rewrite Hm. apply IH; [|assumption].
    unfold dd_ok, INT32_MAX in *. lia.
Qed.

Lemma endoff_lemma : forall myoffset ndds dds,
  0 <= myoffset -> 0 < ndds <= 32767 -> myoffset + (NDDS_SZ + OFFSET_SZ) + ndds * DD_SZ <= INT32_MAX -> Forall dd_ok dds ->
  m_endoff myoffset ndds dds = s_endoff (myoffset + (NDDS_SZ + OFFSET_SZ) + ndds * DD_SZ) dds /\
  0 <= m_endoff myoffset ndds dds <= INT32_MAX.
Proof.
  intros myoffset ndds dds Ho Hn Hb Hall. unfold NDDS_SZ, OFFSET_SZ, DD_SZ, INT32_MAX in *.
  unfold m_endoff, s_endoff, htpstart_blk_end.
  rewrite (add32_id 2 4) by (unfold is_int32; lia).
  rewrite (mul32_id ndds 12) by (unfold is_int32; lia).
  rewrite (add32_id myoffset (2 + 4)) by (unfold is_int32; lia).
  rewrite (add32_id (myoffset + (2 + 4)) (ndds * 12)) by (unfold is_int32; lia).
  assert (He : (if 0 <? myoffset + (2 + 4) + ndds * 12 then myoffset + (2 + 4) + ndds * 12 else 0)
               = Z.max 0 (myoffset + (2 + 4) + ndds * 12)).
  { destruct (Z.ltb_spec 0 (myoffset + (2 + 4) + ndds * 12)); lia. }
  rewrite He.
  destruct (endoff_fold dds (Z.max 0 (myoffset + (2 + 4) + ndds * 12))) as [H1 H2]; [unfold INT32_MAX; lia | assumption |].
  cbv zeta in H1. rewrite H1. unfold INT32_MAX in H2. split; [reflexivity | exact H2].
Qed.

Lemma update_dd_eof_lemma : forall offset length eof, 0 <= eof <= INT32_MAX -> dd_ok (offset, length) ->
  m_update_dd_eof offset length eof = (if (offset =? -1) && (length =? -1) then eof else Z.max eof (offset + length)) /\
  0 <= m_update_dd_eof offset length eof <= INT32_MAX.
Proof.
  intros offset length eof He Hd. unfold dd_ok in Hd; simpl in Hd. unfold INT32_MAX in *.
  unfold m_update_dd_eof, INVALID_OFFSET, INVALID_LENGTH, htiupdate_dd_end.
  destruct Hd as [[H1 H2]|[H1 [H2 H3]]].
  - subst. simpl. split; [reflexivity | lia].
  - rewrite (add32_id offset length) by (unfold is_int32; lia).
    destruct (Z.eqb_spec offset (-1)); [lia|]. destruct (Z.eqb_spec length (-1)); [lia|]. simpl.
    destruct (Z.ltb_spec eof (offset + length)); split; lia.
Qed.

(* ------------------------------------------------------------------ vinsertpair / names *)
Lemma vinsertpair_lemma : forall n, 0 <= n <= 65535 ->
  m_vinsertpair n = match s_vinsertpair n with Some k => (Some k, k) | None => (None, n) end.
Proof.
  intros n Hn. unfold m_vinsertpair, s_vinsertpair, truth, vinsertpair_full, vinsertpair_counter, UINT16_MAX.
  destruct (Z.leb_spec 65535 n); simpl.
  - destruct (Z.ltb_spec n 65535); [lia | reflexivity].
  - destruct (Z.ltb_spec n 65535); [|lia]. rewrite u16_id by lia. reflexivity.
Qed.

Lemma vsetname_lemma : forall len, 0 <= len -> m_vsetname len = s_vsetname len /\ m_vsetclass len = s_vsetname len.
Proof.
  intros len Hl. unfold m_vsetname, m_vsetclass, s_vsetname, truth, vsetname_too_long, vsetclass_too_long, vpackvg_len16, UINT16_MAX.
  destruct (Z.ltb_spec 65535 len); simpl.
  - destruct (Z.leb_spec len 65535); [lia|]. split; reflexivity.
  - destruct (Z.leb_spec len 65535); [|lia].
    destruct (Z.ltb_spec 0 len); simpl.
    + rewrite Z.mod_small by lia. split; reflexivity.
    + assert (len = 0) by lia. subst. split; reflexivity.
Qed.

Lemma vssetname_lemma : forall slen, 0 <= slen ->
  m_vssetname slen = s_vssetname slen /\ m_vssetclass slen = s_vssetname slen /\ 0 <= m_vssetname slen <= VSNAMELENMAX.
Proof.
  intros slen Hs. unfold m_vssetname, m_vssetclass, s_vssetname, vssetname_limit, vssetname_copied, vssetclass_limit,
    vssetclass_copied, VSNAMELENMAX.
  destruct (Z.ltb_spec 64 slen); repeat split; lia.
Qed.

(* ------------------------------------------------------------------ Vdata fields *)
Lemma vsfdefine_lemma : forall sz order, is_int32 order -> (sz = -1 \/ 0 < sz <= 32767) ->
  m_vsfdefine sz order = s_vsfdefine sz order.
Proof.
  intros sz order Ho Hsz. unfold is_int32 in Ho.
  unfold m_vsfdefine, s_vsfdefine, truth, vsfdefine_bad_order, vsfdefine_too_big, MAX_ORDER, MAX_FIELD_SIZE.
  destruct (Z.ltb_spec order 1); simpl.
  - destruct (Z.leb_spec 1 order); [lia|]. reflexivity.
  - destruct (Z.ltb_spec 65535 order); simpl.
    + destruct (Z.leb_spec 1 order); [|lia]. destruct (Z.leb_spec order 65535); [lia|]. reflexivity.
    + destruct (Z.leb_spec 1 order); [|lia]. destruct (Z.leb_spec order 65535); [|lia]. simpl.
      destruct Hsz as [Hm|Hp].
      * subst. simpl. reflexivity.
      * destruct (Z.eqb_spec sz (-1)); [lia|]. simpl.
        rewrite (mul32_id sz order) by (unfold is_int32; nia).
        destruct (Z.ltb_spec 0 sz); [|lia]. simpl.
        destruct (Z.ltb_spec 65535 (sz * order)); simpl.
        -- destruct (Z.leb_spec (sz * order) 65535); [lia|]. reflexivity.
        -- destruct (Z.leb_spec (sz * order) 65535); [|lia].
           rewrite (u16_id sz) by nia. rewrite (u16_id order) by lia. reflexivity.
Qed.

(** a field as VSfdefine stores it (order and isize are uint16 fields whose product passed its check), or a
    predefined one *)
Definition field_ok (f : option (Z * Z)) : Prop :=
  match f with Some (order, isz) => 1 <= order <= 65535 /\ 1 <= isz <= 65535 /\ order * isz <= MAX_FIELD_SIZE | None => True end.

Lemma setfields_loop_lemma : forall fs n iv, Forall field_ok fs -> 0 <= iv <= 65535 ->
  m_setfields_loop fs n iv =
  match s_record_size fs iv with Some t => Some (n + Z.of_nat (length fs), t) | None => None end /\
  (forall t, s_record_size fs iv = Some t -> 0 <= t <= 65535).
Proof.
  induction fs as [|f t IH]; intros n iv Hall Hiv.
  - simpl. split; [f_equal; f_equal; lia | intros t0 H; inversion H; subst; lia].
  - inversion Hall as [|? ? Hf Ht]; subst.
    cbn [m_setfields_loop s_record_size].
    assert (Hsz : 1 <= s_field_size f <= 65535 /\
                  (let '(order, isz) := match f with Some p => p | None => (1, SIZE_FLOAT32) end in
                   vssetfields_isize order isz) = s_field_size f).
    { destruct f as [[order isz]|]; simpl in *.
      - unfold MAX_FIELD_SIZE in Hf. unfold vssetfields_isize. rewrite mul32_id by (unfold is_int32; nia). split; nia.
      - unfold vssetfields_isize, SIZE_FLOAT32. rewrite mul32_id by (unfold is_int32; lia). split; lia. }
    destruct Hsz as [Hr Hv].
    destruct (match f with Some p => p | None => (1, SIZE_FLOAT32) end) as [order isz] eqn:Ef.
    rewrite Hv. unfold truth, vssetfields_too_big, vssetfields_sum, vssetfields_store, MAX_FIELD_SIZE.
    destruct (Z.ltb_spec 65535 (s_field_size f)); [lia|]. simpl.
    rewrite (u16_id (s_field_size f)) by lia.
    rewrite (add32_id iv (s_field_size f)) by (unfold is_int32; lia).
    destruct (Z.ltb_spec 65535 (iv + s_field_size f)); simpl.
    + destruct (Z.leb_spec (iv + s_field_size f) 65535); [lia|]. split; [reflexivity | intros ? H'; discriminate].
    + destruct (Z.leb_spec (iv + s_field_size f) 65535); [|lia].
      rewrite Z.mod_small by lia.
      destruct (IH (n + 1) (iv + s_field_size f) Ht) as [IH1 IH2]; [lia|].
      rewrite IH1. split; [|exact IH2].
      destruct (s_record_size t (iv + s_field_size f)); [|reflexivity].
      f_equal. f_equal. rewrite Zpos_P_of_succ_nat. lia.
Qed.

Lemma vssetfields_lemma : forall fs, Forall field_ok fs ->
  m_vssetfields fs = match s_vssetfields fs with Some r => (true, r) | None => (false, (0, 0)) end.
Proof.
  intros fs Hall. unfold m_vssetfields, s_vssetfields, truth, scanattrs_full, vssetfields_too_many, VSFIELDMAX.
  destruct (Z.leb_spec 256 (Z.of_nat (length fs) - 1)); simpl.
  - destruct (Z.ltb_spec 256 (Z.of_nat (length fs))); [reflexivity | lia].
  - destruct (Z.ltb_spec 256 (Z.of_nat (length fs))); [lia|]. simpl.
    destruct (setfields_loop_lemma fs 0 0 Hall) as [H1 _]; [lia|].
    rewrite H1. destruct (s_record_size fs 0); reflexivity.
Qed.

(* ------------------------------------------------------------------ products *)
Lemma quot_guard : forall a b, 0 < b -> 0 <= a -> (Z.quot 2147483647 b <? a) = (2147483647 <? a * b).
Proof.
  intros a b Hb Ha. rewrite Z.quot_div_nonneg by lia.
  pose proof (Z.div_mod 2147483647 b ltac:(lia)) as Hdm.
  pose proof (Z.mod_pos_bound 2147483647 b Hb) as Hmb.
  destruct (Z.ltb_spec (2147483647 / b) a); destruct (Z.ltb_spec 2147483647 (a * b)); try reflexivity; nia.
Qed.

Lemma vsseek_lemma : forall ivsize eltpos, 0 <= ivsize <= 65535 -> is_int32 eltpos ->
  m_vsseek ivsize eltpos = if eltpos <? 0 then None else s_product eltpos ivsize.
Proof.
  intros iv p Hiv Hp. unfold is_int32 in Hp. unfold m_vsseek, s_product, truth, vsseek_too_far, vsseek_offset, INT32_MAX.
  destruct (Z.ltb_spec p 0); [reflexivity|].
  destruct (Z.ltb_spec 0 iv); simpl.
  - rewrite quot_guard by lia.
    destruct (Z.ltb_spec 2147483647 (p * iv)); simpl.
    + destruct (Z.leb_spec (p * iv) 2147483647); [lia | reflexivity].
    + destruct (Z.leb_spec (p * iv) 2147483647); [|lia].
      rewrite mul32_id by (unfold is_int32; nia). reflexivity.
  - assert (iv = 0) by lia. subst. rewrite Z.mul_0_r. simpl.
    rewrite mul32_id by (unfold is_int32; lia). rewrite Z.mul_0_r. reflexivity.
Qed.

Lemma vswrite_total_lemma : forall hsize nelt, 0 < hsize <= 65535 -> is_int32 nelt ->
  m_vswrite_total hsize nelt = (if nelt <=? 0 then None else s_product hsize nelt) /\
  m_vsread_total hsize nelt = (if nelt <? 0 then Some (mul32 hsize nelt) else s_product hsize nelt).
Proof.
  intros h n Hh Hn. unfold is_int32 in Hn.
  unfold m_vswrite_total, m_vsread_total, s_product, truth, vswrite_too_many, vswrite_total, vsread_too_many, vsread_total, INT32_MAX.
  destruct (Z.ltb_spec 0 h); [|lia]. simpl. split.
  - destruct (Z.leb_spec n 0); [reflexivity|].
    rewrite quot_guard by lia. replace (n * h) with (h * n) by lia.
    destruct (Z.ltb_spec 2147483647 (h * n)); simpl.
    + destruct (Z.leb_spec (h * n) 2147483647); [lia | reflexivity].
    + destruct (Z.leb_spec (h * n) 2147483647); [|lia]. rewrite mul32_id by (unfold is_int32; nia). reflexivity.
  - destruct (Z.ltb_spec n 0).
    + assert (Hq : (Z.quot 2147483647 h <? n) = false).
      { apply Z.ltb_ge. pose proof (Z.quot_pos 2147483647 h ltac:(lia) ltac:(lia)). lia. }
      rewrite Hq. simpl. reflexivity.
    + rewrite quot_guard by lia. replace (n * h) with (h * n) by lia.
      destruct (Z.ltb_spec 2147483647 (h * n)); simpl.
      * destruct (Z.leb_spec (h * n) 2147483647); [lia | reflexivity].
      * destruct (Z.leb_spec (h * n) 2147483647); [|lia]. rewrite mul32_id by (unfold is_int32; nia). reflexivity.
Qed.

(* ------------------------------------------------------------------ refs *)
Lemma newref_lemma : forall maxref, 0 <= maxref <= 65535 ->
  m_newref_next maxref = s_newref_next maxref /\
  (forall i, 1 <= i -> truth (hnewref_search_more i) = true -> 1 <= i <= MAX_REF /\ u16 i = i).
Proof.
  intros m Hm. unfold m_newref_next, s_newref_next, truth, hnewref_has_next, hnewref_search_more, MAX_REF.
  change (65535 mod 65536) with 65535. split.
  - destruct (Z.ltb_spec m 65535); simpl; [rewrite u16_id by lia; reflexivity | reflexivity].
  - intros i Hi. destruct (Z.leb_spec i 65535); simpl; [|discriminate]. intros _. split; [lia | apply u16_id; lia].
Qed.

Lemma tagnewref_lemma : forall next, -1 <= next <= 2147483647 -> m_tagnewref next = s_tagnewref next.
Proof.
  intros next Hn. unfold m_tagnewref, s_tagnewref, truth, htagnewref_none_left, MAX_REF.
  match goal with |- context [Z.ltb ?c next] => let v := eval vm_compute in c in change c with v end.
  destruct (Z.eqb_spec next (-1)); simpl.
  - subst. reflexivity.
  - destruct (Z.ltb_spec 65535 next); simpl.
    + destruct (Z.leb_spec 0 next); destruct (Z.leb_spec next 65535); simpl; try lia; reflexivity.
    + destruct (Z.leb_spec 0 next); [|lia]. destruct (Z.leb_spec next 65535); [|lia]. simpl.
      rewrite u16_id by lia. reflexivity.
Qed.

Lemma sdcreate_lemma : forall rank namelen, m_sdcreate_ok rank namelen = s_sdcreate_ok rank namelen.
Proof.
  intros. unfold m_sdcreate_ok, s_sdcreate_ok, truth, sdcreate_bad_rank, ncstring_too_long, H4_MAX_VAR_DIMS, H4_MAX_NC_NAME.
  destruct (Z.ltb_spec 32 rank); destruct (Z.leb_spec rank 32); try lia; simpl;
  destruct (Z.ltb_spec 256 namelen); destruct (Z.leb_spec namelen 256); try lia; reflexivity.
Qed.

(* ------------------------------------------------------------------ the open-file list *)
Lemma resize_nth : forall l n i x, nth_error l i = Some x -> (i < n)%nat -> nth_error (resize l n) i = Some x.
Proof.
  induction l as [|a t IH]; intros n i x H Hi.
  - destruct i; discriminate.
  - destruct n; [lia|]. destruct i; simpl in *.
    + assumption.
    + apply IH; [assumption | lia].
Qed.

Lemma highest_mono : forall l i0 hi, hi < i0 -> hi <= highest l i0 hi.
Proof.
  induction l as [|a t IH]; intros i0 hi H; simpl; [lia|].
  destruct a.
  - pose proof (IH (i0 + 1) i0 ltac:(lia)). lia.
  - apply IH. lia.
Qed.

Lemma highest_ge : forall l i0 hi i k, hi < i0 -> nth_error l i = Some (Some k) -> i0 + Z.of_nat i <= highest l i0 hi.
Proof.
  induction l as [|a t IH]; intros i0 hi i k Hlt H.
  - destruct i; discriminate.
  - destruct i; simpl in H.
    + inversion H; subst. simpl. pose proof (highest_mono t (i0 + 1) i0 ltac:(lia)). lia.
    + destruct a; simpl.
      * pose proof (IH (i0 + 1) i0 i k ltac:(lia) H). lia.
      * pose proof (IH (i0 + 1) hi i k ltac:(lia) H). lia.
Qed.

Lemma reset_maxopen_lemma : forall req sys cur slots i k,
  nth_error slots i = Some (Some k) ->
  nth_error (snd (m_reset_maxopen req sys cur slots)) i = Some (Some k).
Proof.
  intros req sys cur slots i k H. unfold m_reset_maxopen.
  destruct (req <? 0); [exact H|].
  destruct (truth (resetmax_keeps req cur)); [exact H|].
  set (alloc := if truth (resetmax_caps req sys) then sys else req).
  unfold truth, resetmax_too_small.
  destruct (Z.leb_spec alloc (highest slots 0 (-1))); simpl; [exact H|].
  apply resize_nth; [exact H|].
  pose proof (highest_ge slots 0 (-1) i k ltac:(lia) H). lia.
Qed.

Lemma reset_maxopen_size : forall req sys cur slots, 0 <= sys ->
  fst (m_reset_maxopen req sys cur slots) = -1 \/ fst (m_reset_maxopen req sys cur slots) = Z.of_nat (length slots) \/
  (0 <= fst (m_reset_maxopen req sys cur slots) <= sys /\
   Z.of_nat (length (snd (m_reset_maxopen req sys cur slots))) = fst (m_reset_maxopen req sys cur slots)).
Proof.
  intros req sys cur slots Hs. unfold m_reset_maxopen.
  destruct (Z.ltb_spec req 0); [left; reflexivity|].
  destruct (truth (resetmax_keeps req cur)); [right; left; reflexivity|].
  unfold truth at 2. unfold resetmax_too_small.
  set (alloc := if truth (resetmax_caps req sys) then sys else req).
  destruct (Z.leb_spec alloc (highest slots 0 (-1))); simpl; [right; left; reflexivity|].
  right; right.
  assert (Ha : 0 <= alloc <= sys).
  { unfold alloc, truth, resetmax_caps. destruct (Z.ltb_spec sys req); simpl; lia. }
  split; [exact Ha|].
  assert (Hl : forall (n : nat) (l' : list (option Z)), length (resize l' n) = n).
  { induction n as [|n' IHn]; intros l'; simpl; [reflexivity|]. destruct l'; simpl; rewrite IHn; reflexivity. }
  rewrite Hl. lia.
Qed.

(* ------------------------------------------------------------------ reachable file states (history level of S) *)
(** every descriptor of a tracked file is either length-less or lies inside [0, end of file], and the end of file
    is within [0, 2^31-1]: the precondition [dd_ok] of HTPstart / HTIupdate_dd holds in every reachable state *)
Definition elem_ok (eof : Z) (e : elem) : Prop :=
  (e_off e = -1 /\ e_len e = -1) \/ (0 <= e_off e /\ 0 <= e_len e /\ e_off e + e_len e <= eof).
Definition h_inv (h : hst) : Prop :=
  h_known h = true -> 0 <= h_eof h <= INT32_MAX /\ 0 < h_ndds h /\ 0 <= h_free h /\ Forall (elem_ok (h_eof h)) (h_elems h).

Lemma elem_ok_mono : forall eof eof' e, eof <= eof' -> elem_ok eof e -> elem_ok eof' e.
Proof. unfold elem_ok. intros eof eof' e H [H1|H1]; [left; exact H1 | right; lia]. Qed.
Lemma forall_ok_mono : forall eof eof' l, eof <= eof' -> Forall (elem_ok eof) l -> Forall (elem_ok eof') l.
Proof. intros eof eof' l H. apply Forall_impl. intros a. apply elem_ok_mono. exact H. Qed.
Lemma forall_filter : forall (P : elem -> Prop) f l, Forall P l -> Forall P (filter f l).
Proof. intros P f l H. induction H; simpl; [constructor|]. destruct (f x); [constructor; assumption | assumption]. Qed.
Lemma set_elem_ok : forall h e eof, Forall (elem_ok eof) (h_elems h) -> elem_ok eof e -> Forall (elem_ok eof) (set_elem h e).
Proof. intros h e eof H He. unfold set_elem. constructor; [exact He | apply forall_filter; exact H]. Qed.

Lemma h_create_inv : forall ndds, 0 <= ndds <= 32767 -> h_inv (h_create ndds).
Proof.
  intros ndds Hn _. unfold h_create, norm_ndds, ddblock_size, MAGICLEN, NDDS_SZ, OFFSET_SZ, DD_SZ, LIBVER_LEN, DEF_NDDS, MIN_NDDS, INT32_MAX.
  simpl h_eof. simpl h_ndds. simpl h_free. simpl h_elems.
  destruct (Z.eqb_spec ndds 0); [|destruct (Z.ltb_spec ndds 4)];
    (split; [lia | split; [lia | split; [lia | constructor; [right; simpl; lia | constructor]]]]).
Qed.

Lemma alloc_dd_inv : forall h h1, h_inv h -> alloc_dd h = Some h1 ->
  h_inv h1 /\ h_known h1 = h_known h /\ h_elems h1 = h_elems h /\ (h_known h = true -> h_eof h <= h_eof h1).
Proof.
  intros h h1 Hi. unfold alloc_dd.
  destruct (h_known h) eqn:Hk; simpl.
  - destruct (Hi Hk) as [He [Hn [Hf Ha]]].
    destruct (Z.ltb_spec 0 (h_free h)).
    + intro H1; inversion H1; subst; clear H1. simpl.
      split; [|repeat split; try reflexivity; intros; simpl; lia].
      intros _. simpl. repeat split; try lia. assumption.
    + destruct (Z.leb_spec (h_eof h + ddblock_size (h_ndds h)) INT32_MAX); [|discriminate].
      intro H1; inversion H1; subst; clear H1. simpl.
      assert (0 <= ddblock_size (h_ndds h)) by (unfold ddblock_size, NDDS_SZ, OFFSET_SZ, DD_SZ; lia).
      split; [|repeat split; try reflexivity; intros; simpl; lia].
      intros _. simpl. repeat split; try lia. apply (forall_ok_mono (h_eof h)); [lia | assumption].
  - intro H1; inversion H1; subst. split; [exact Hi|]. rewrite Hk. repeat split; try reflexivity; try (intros Hc; discriminate).
Qed.

Lemma give_block_inv : forall h tag ref len w, h_inv h -> h_inv (fst (give_block h tag ref len w)).
Proof.
  intros h tag ref len w Hi. unfold give_block.
  destruct (Z.ltb_spec len 0); [exact Hi|].
  destruct (h_known h) eqn:Hk.
  - destruct (Hi Hk) as [He [Hn [Hf Ha]]].
    destruct (Z.leb_spec (h_eof h + len) INT32_MAX); simpl; [|exact Hi].
    intros _. simpl. repeat split; try lia.
    apply set_elem_ok; [apply (forall_ok_mono (h_eof h)); [lia | assumption] | right; simpl; lia].
  - simpl. intros Hc. simpl in Hc. discriminate.
Qed.

Lemma with_placeholder_inv : forall h tag ref m,
  h_inv h -> h_inv (mkH (h_known h) (h_eof h) (h_ndds h) (h_free h) m (set_elem h (mkE tag ref (-1) (-1) false)) (h_bulk h)).
Proof.
  intros h tag ref m Hi Hk. simpl in Hk. destruct (Hi Hk) as [He [Hn [Hf Ha]]]. simpl.
  repeat split; try lia. apply set_elem_ok; [assumption | left; simpl; split; reflexivity].
Qed.

Lemma new_element_inv : forall h tag ref len w, h_inv h -> h_inv (fst (new_element h tag ref len w)).
Proof.
  intros h tag ref len w Hi. unfold new_element.
  destruct (negb (h_known h) && (FAR <? len)); [exact Hi|].
  destruct (in_bulk h tag ref); [exact Hi|].
  destruct (find_elem h tag ref) as [e|].
  - destruct (0 <=? e_len e); [exact Hi|].
    pose proof (give_block_inv h tag ref len w Hi) as Hg.
    destruct (give_block h tag ref len w) as [h' okb]. simpl in *. exact Hg.
  - destruct (alloc_dd h) as [h1|] eqn:Ea; [|exact Hi].
    destruct (alloc_dd_inv h h1 Hi Ea) as [Hi1 _].
    pose proof (with_placeholder_inv h1 tag ref (Z.max (h_maxref h1) ref) Hi1) as Hp.
    match goal with |- context [give_block ?hh tag ref len w] => pose proof (give_block_inv hh tag ref len w Hp) as Hg;
      destruct (give_block hh tag ref len w) as [h3 okb] end.
    simpl in *. exact Hg.
Qed.

Lemma step_h_inv : forall h v o, (forall n, o <> OHopen n) -> h_inv h -> h_inv (fst (step_h h v o)).
Proof.
  intros h v o Hno Hi. destruct o; simpl; try exact Hi.
  - exfalso. apply (Hno ndds). reflexivity.
  - apply new_element_inv. exact Hi.
  - destruct (n <=? 0); simpl; apply new_element_inv; exact Hi.
  - destruct (find_elem h tag ref) as [e|]; [|destruct (in_bulk h tag ref)]; try exact Hi.
    destruct (e_written e); [exact Hi|]. destruct (e_len e <? 0); exact Hi.
  - destruct (h_known h); exact Hi.
  - (* appendat *)
    destruct (find_elem h tag ref) as [e|] eqn:Ef; simpl.
    + destruct (h_known h) eqn:Hk; simpl; [|intros Hc; discriminate].
      destruct (Z.ltb_spec (e_len e) 0); simpl; [intros Hc; discriminate|].
      destruct (Z.eqb_spec (e_off e + e_len e) (h_eof h)); simpl; [|intros Hc; discriminate].
      destruct (Z.ltb_spec pos 0); simpl; [intros Hc; discriminate|].
      destruct (Z.leb_spec n 0); simpl; [intros Hc; discriminate|].
      destruct (Z.leb_spec (pos + n) INT32_MAX); simpl; [|exact Hi].
      destruct (Z.leb_spec (e_off e + pos + n) INT32_MAX); simpl; [|exact Hi].
      destruct (Hi Hk) as [He [Hn [Hf Ha]]].
      assert (Hoff : 0 <= e_off e).
      { unfold find_elem in Ef. apply find_some in Ef. destruct Ef as [Hin _].
        rewrite Forall_forall in Ha. destruct (Ha e Hin) as [[Hq1 Hq2]|Hq1]; lia. }
      intros _. simpl. repeat split; try lia.
      apply set_elem_ok; [apply (forall_ok_mono (h_eof h)); [lia | assumption] | right; simpl; lia].
    + destruct (h_known h && (pos =? 0) && (0 <? n) && negb (in_bulk h tag ref)); [|intros Hc; discriminate].
      destruct (alloc_dd h) as [h1|] eqn:Ea; [|exact Hi].
      destruct (alloc_dd_inv h h1 Hi Ea) as [Hi1 _].
      pose proof (with_placeholder_inv h1 tag ref (Z.max (h_maxref h1) ref) Hi1) as Hp.
      match goal with |- context [give_block ?hh tag ref n false] => pose proof (give_block_inv hh tag ref n false Hp) as Hg;
        destruct (give_block hh tag ref n false) as [h3 okb] end.
      simpl in *. exact Hg.
  - (* hlwrite *)
    destruct (find_elem h tag ref); [exact Hi|].
    destruct ((pos <? 0) || (n <=? 0) || (blen <=? 0) || (nblk <=? 0) || in_bulk h tag ref); [exact Hi|].
    destruct (pos + n <=? INT32_MAX); simpl; intros Hc; discriminate.
  - (* fillrefs *)
    match goal with |- context [if ?c then _ else _] => destruct c eqn:Ec end; [exact Hi|].
    apply orb_false_iff in Ec. destruct Ec as [Ec _]. apply orb_false_iff in Ec. destruct Ec as [Ec _].
    apply orb_false_iff in Ec. destruct Ec as [Ec _]. apply orb_false_iff in Ec. destruct Ec as [Ec Hlo].
    apply orb_false_iff in Ec. destruct Ec as [Hk Hkk]. apply negb_false_iff in Hk.
    apply Z.leb_gt in Hkk.
    destruct (Hi Hk) as [He [Hn [Hf Ha]]].
    set (k := hi - lo + 1) in *.
    set (nb := if k <=? h_free h then 0 else (k - h_free h + h_ndds h - 1) / h_ndds h).
    assert (Hnb : 0 <= nb).
    { unfold nb. destruct (Z.leb_spec k (h_free h)); [lia|]. apply Z.div_pos; lia. }
    assert (Hfree : 0 <= (if k <=? h_free h then h_free h - k else nb * h_ndds h - (k - h_free h))).
    { unfold nb. destruct (Z.leb_spec k (h_free h)); [lia|].
      pose proof (Z.div_mod (k - h_free h + h_ndds h - 1) (h_ndds h) ltac:(lia)) as Hdm.
      pose proof (Z.mod_pos_bound (k - h_free h + h_ndds h - 1) (h_ndds h) Hn) as Hmb. nia. }
    assert (Hdd : 0 <= ddblock_size (h_ndds h)) by (unfold ddblock_size, NDDS_SZ, OFFSET_SZ, DD_SZ; lia).
    destruct (Z.leb_spec (h_eof h + k + nb * ddblock_size (h_ndds h)) FAR); simpl; [|exact Hi].
    intros _. simpl. unfold FAR, INT32_MAX in *. repeat split; try nia.
    apply (forall_ok_mono (h_eof h)); [nia | assumption].
  - (* newref *)
    destruct (h_maxref h <? 0); [exact Hi|].
    destruct (h_maxref h <? MAX_REF); simpl.
    + intros Hk. simpl in Hk. exact (Hi Hk).
    + destruct (vgs v); [destruct (vss v)|]; try exact Hi.
      match goal with |- context [if ?c then _ else _] => destruct c end; exact Hi.
  - match goal with |- context [if ?c then _ else _] => destruct c end; exact Hi.
  - (* seekat: the state is not touched *)
    destruct (find_elem h tag ref); [|exact Hi].
    match goal with |- context [if ?c then _ else _] => destruct c end; [exact Hi|].
    match goal with |- context [if ?c then _ else _] => destruct c end; exact Hi.
  - (* chunkfill: the end of file is no longer tracked *)
    match goal with |- context [if ?c then _ else _] => destruct c end; [exact Hi|].
    simpl. intros Hc; discriminate.
Qed.

Lemma elem_ok_dd_ok : forall eof e, 0 <= eof <= INT32_MAX -> elem_ok eof e -> dd_ok (e_off e, e_len e).
Proof. unfold elem_ok, dd_ok. simpl. intros eof e He [H|H]; [left; exact H | right; lia]. Qed.

(* ------------------------------------------------------------------ Hseek, chunk refs, vpackvs *)
Lemma hseek_lemma : forall appendable origin offset posn data_len,
  0 <= posn <= INT32_MAX -> 0 <= data_len <= INT32_MAX -> (appendable = false -> posn <= data_len) ->
  is_int32 offset -> (origin = DF_START \/ origin = DF_CURRENT \/ origin = DF_END) ->
  m_hseek appendable origin offset posn data_len = s_hseek appendable origin offset posn data_len.
Proof.
  intros app origin offset posn dl Hp Hd Hna Ho Hor. unfold INT32_MAX in *. unfold is_int32 in Ho.
  unfold m_hseek, s_hseek, truth, hseek_from_current, hseek_from_end, hseek_stays, hseek_out_of_range,
         DF_START, DF_CURRENT, DF_END, INT32_MAX in *.
  (* the wrapped sum of the origin arithmetic: equal to the true sum when that fits, negative when it does not *)
  assert (Hw : forall b, 0 <= b <= 2147483647 ->
            (offset + b <= 2147483647 /\ add32 offset b = offset + b) \/ (2147483647 < offset + b /\ add32 offset b < 0)).
  { intros b Hb. destruct (Z_le_gt_dec (offset + b) 2147483647).
    - left. split; [lia | apply add32_id; unfold is_int32; lia].
    - right. split; [lia|]. unfold add32, wrap32.
      replace (offset + b + 2147483648) with ((offset + b - 2147483648) + 1 * 4294967296) by lia.
      rewrite Z.mod_add by lia. rewrite Z.mod_small by lia. lia. }
  destruct Hor as [Hor|[Hor|Hor]]; subst origin; simpl.
  - (* DF_START *)
    replace (0 + offset) with offset by lia.
    destruct (Z.eqb_spec offset posn).
    + subst. simpl. destruct (Z.leb_spec 0 posn); [|lia]. destruct (Z.leb_spec posn 2147483647); [|lia]. simpl.
      destruct app; simpl; [reflexivity|]. specialize (Hna eq_refl). destruct (Z.leb_spec posn dl); [reflexivity | lia].
    + simpl. destruct app; simpl.
      * destruct (Z.ltb_spec offset 0); simpl.
        -- destruct (Z.leb_spec 0 offset); [lia | reflexivity].
        -- destruct (Z.leb_spec 0 offset); [|lia]. destruct (Z.leb_spec offset 2147483647); [|lia]. reflexivity.
      * destruct (Z.ltb_spec offset 0); simpl.
        -- destruct (Z.leb_spec 0 offset); [lia | reflexivity].
        -- destruct (Z.leb_spec 0 offset); [|lia]. destruct (Z.leb_spec offset 2147483647); [|lia]. simpl.
           destruct (Z.ltb_spec dl offset); simpl; destruct (Z.leb_spec offset dl); try lia; reflexivity.
  - (* DF_CURRENT *)
    replace (posn + offset) with (offset + posn) by lia.
    destruct (Hw posn Hp) as [[Hfit Heq]|[Hover Hneg]].
    + rewrite Heq. destruct (Z.eqb_spec (offset + posn) posn).
      * simpl. rewrite e. destruct (Z.leb_spec 0 posn); [|lia]. destruct (Z.leb_spec posn 2147483647); [|lia]. simpl.
        destruct app; simpl; [reflexivity|]. specialize (Hna eq_refl). destruct (Z.leb_spec posn dl); [reflexivity | lia].
      * simpl. destruct app; simpl.
        -- destruct (Z.ltb_spec (offset + posn) 0); simpl.
           ++ destruct (Z.leb_spec 0 (offset + posn)); [lia | reflexivity].
           ++ destruct (Z.leb_spec 0 (offset + posn)); [|lia]. destruct (Z.leb_spec (offset + posn) 2147483647); [|lia]. reflexivity.
        -- destruct (Z.ltb_spec (offset + posn) 0); simpl.
           ++ destruct (Z.leb_spec 0 (offset + posn)); [lia | reflexivity].
           ++ destruct (Z.leb_spec 0 (offset + posn)); [|lia]. destruct (Z.leb_spec (offset + posn) 2147483647); [|lia]. simpl.
              destruct (Z.ltb_spec dl (offset + posn)); simpl; destruct (Z.leb_spec (offset + posn) dl); try lia; reflexivity.
    + destruct (Z.eqb_spec (add32 offset posn) posn); [lia|]. simpl.
      destruct (Z.ltb_spec (add32 offset posn) 0); [|lia]. simpl.
      destruct (Z.leb_spec 0 (offset + posn)); [|lia]. destruct (Z.leb_spec (offset + posn) 2147483647); [lia|]. reflexivity.
  - (* DF_END *)
    replace (dl + offset) with (offset + dl) by lia.
    destruct (Hw dl Hd) as [[Hfit Heq]|[Hover Hneg]].
    + rewrite Heq. destruct (Z.eqb_spec (offset + dl) posn).
      * simpl. rewrite e. destruct (Z.leb_spec 0 posn); [|lia]. destruct (Z.leb_spec posn 2147483647); [|lia]. simpl.
        destruct app; simpl; [reflexivity|]. specialize (Hna eq_refl). destruct (Z.leb_spec posn dl); [reflexivity | lia].
      * simpl. destruct app; simpl.
        -- destruct (Z.ltb_spec (offset + dl) 0); simpl.
           ++ destruct (Z.leb_spec 0 (offset + dl)); [lia | reflexivity].
           ++ destruct (Z.leb_spec 0 (offset + dl)); [|lia]. destruct (Z.leb_spec (offset + dl) 2147483647); [|lia]. reflexivity.
        -- destruct (Z.ltb_spec (offset + dl) 0); simpl.
           ++ destruct (Z.leb_spec 0 (offset + dl)); [lia | reflexivity].
           ++ destruct (Z.leb_spec 0 (offset + dl)); [|lia]. destruct (Z.leb_spec (offset + dl) 2147483647); [|lia]. simpl.
              destruct (Z.ltb_spec dl (offset + dl)); simpl; destruct (Z.leb_spec (offset + dl) dl); try lia; reflexivity.
    + destruct (Z.eqb_spec (add32 offset dl) posn); [lia|]. simpl.
      destruct (Z.ltb_spec (add32 offset dl) 0); [|lia]. simpl.
      destruct (Z.leb_spec 0 (offset + dl)); [|lia]. destruct (Z.leb_spec (offset + dl) 2147483647); [lia|]. reflexivity.
Qed.

Lemma chunk_ref_lemma : forall next, -1 <= next <= 2147483647 -> next <> 0 -> m_chunk_ref next = s_tagnewref next.
Proof.
  intros next Hn Hz. unfold m_chunk_ref. rewrite (tagnewref_lemma next Hn).
  unfold s_tagnewref, truth, chunkwrite_no_ref, MAX_REF.
  destruct (Z.leb_spec 0 next); simpl; [|reflexivity].
  destruct (Z.leb_spec next 65535); simpl; [|reflexivity].
  destruct (Z.eqb_spec next 0); [lia | reflexivity].
Qed.

Lemma int16_id : forall l, 0 <= l <= 32767 -> sub32 ((add32 l 32768) mod 65536) 32768 = l.
Proof.
  intros l Hl. rewrite (add32_id l 32768) by (unfold is_int32; lia).
  rewrite Z.mod_small by lia. rewrite sub32_id by (unfold is_int32; lia). lia.
Qed.

Lemma vpackvs_fold : forall fnames, Forall (fun l => 0 <= l <= FIELDNAMELENMAX) fnames ->
  fold_right (fun l acc => acc + (2 + vpackvs_fieldname_len16 l)) 0 fnames = fold_right (fun l acc => acc + (2 + l)) 0 fnames /\
  0 <= fold_right (fun l acc => acc + (2 + l)) 0 fnames <= (2 + FIELDNAMELENMAX) * Z.of_nat (length fnames).
Proof.
  induction 1 as [|l t Hl Ht IH]; simpl fold_right; simpl length.
  - split; [reflexivity | lia].
  - destruct IH as [IH1 IH2]. unfold FIELDNAMELENMAX in *. rewrite IH1. unfold vpackvs_fieldname_len16.
    rewrite int16_id by lia. split; [reflexivity|]. rewrite Nat2Z.inj_succ. lia.
Qed.

Lemma vpackvs_lemma : forall fnames namelen classlen,
  Forall (fun l => 0 <= l <= FIELDNAMELENMAX) fnames -> Z.of_nat (length fnames) <= VSFIELDMAX ->
  0 <= namelen <= VSNAMELENMAX -> 0 <= classlen <= VSNAMELENMAX ->
  m_vpackvs_size fnames namelen classlen = s_vpackvs_size fnames namelen classlen /\
  0 < m_vpackvs_size fnames namelen classlen <= vh_buffer_lower_bound.
Proof.
  intros fnames nl cl Hf Hn Hnl Hcl. destruct (vpackvs_fold fnames Hf) as [H1 H2].
  unfold m_vpackvs_size, s_vpackvs_size, vh_buffer_lower_bound, vpackvs_name_len16, vpackvs_class_len16,
         VSFIELDMAX, FIELDNAMELENMAX, VSNAMELENMAX in *.
  rewrite H1. rewrite (int16_id nl) by lia. rewrite (int16_id cl) by lia.
  destruct (Z.ltb_spec 0 (Z.of_nat (length fnames))).
  - split; lia.
  - assert (Hz : length fnames = 0%nat) by lia. destruct fnames; [|discriminate]. simpl. split; lia.
Qed.

(* ------------------------------------------------------------------ a refused request changes nothing *)
(** site level: whenever a site model refuses, the state components it returns are the ones it was given *)
Lemma sites_refusal_lemma :
  (forall eof size, fst (m_getdiskblock eof size) = None -> snd (m_getdiskblock eof size) = eof) /\
  (forall n, fst (m_vinsertpair n) = None -> snd (m_vinsertpair n) = n) /\
  (forall fs, fst (m_vssetfields fs) = false -> snd (m_vssetfields fs) = (0, 0)) /\
  (forall req sys cur slots, 0 <= req ->
     truth (resetmax_keeps req cur) = true \/
     truth (resetmax_too_small (if truth (resetmax_caps req sys) then sys else req) (highest slots 0 (-1))) = true ->
     m_reset_maxopen req sys cur slots = (Z.of_nat (length slots), slots)).
Proof.
  split; [exact getdiskblock_fail_unchanged|]. split; [|split].
  - intros n. unfold m_vinsertpair. destruct (truth (vinsertpair_full n)); simpl; [reflexivity | discriminate].
  - intros fs. unfold m_vssetfields.
    destruct (truth (scanattrs_full (Z.of_nat (length fs) - 1))); [reflexivity|].
    destruct (truth (vssetfields_too_many (Z.of_nat (length fs)))); [reflexivity|].
    destruct (m_setfields_loop fs 0 0); simpl; [discriminate | reflexivity].
  - intros req sys cur slots Hreq Hc. unfold m_reset_maxopen.
    destruct (Z.ltb_spec req 0); [lia|].
    destruct (truth (resetmax_keeps req cur)); [reflexivity|].
    destruct Hc as [Hc|Hc]; [discriminate|]. rewrite Hc. reflexivity.
Qed.

(** specification level: a refused request returns the abstract state it was given.  Excluded are the requests
    whose refusal leaves the documented trace -- the length-less descriptor of an element whose space could not be
    reserved ([refused_reservation_lemma] below says that this is all that changes) -- the linked-block write, which
    is refused after HLcreate has made the element, and batches of several insertions. *)
Definition is_refusal (r : res) : Prop := match r with RFail _ => True | _ => False end.
Definition plain_request (st : state) (o : op) : bool :=
  match st, o with
  | _, OReserve _ _ _ | _, OPut _ _ _ | _, OHlWrite _ _ _ _ _ _ => false
  | (h, _, _), OAppendAt tag ref _ _ => match find_elem h tag ref with Some _ => true | None => false end
  | _, OVgAdd _ _ _ n => n =? 1
  | _, _ => true
  end.

Ltac crush_step :=
  repeat match goal with
         | |- context [match ?x with _ => _ end] =>
             match type of x with
             | bool => destruct x eqn:?
             | option _ => destruct x eqn:?
             | prod _ _ => destruct x eqn:?
             | list _ => destruct x eqn:?
             | res => destruct x eqn:?
             end; simpl in *; try discriminate; try tauto
         end.

Ltac fin := simpl; let Hr := fresh "Hr" in intro Hr; first [exfalso; exact Hr | reflexivity].
Ltac ifs := repeat (match goal with |- context [if ?c then _ else _] => destruct c end; simpl).

Lemma step_h_refusal : forall h v o, plain_request (h, v, d0) o = true -> is_h o = true ->
  is_refusal (snd (step_h h v o)) -> fst (step_h h v o) = h.
Proof.
  intros h v o Hp Hh. destruct o; simpl in Hp, Hh; try discriminate; simpl.
  - fin.
  - destruct (find_elem h tag ref) as [e|]; [destruct (e_written e); [|destruct (e_len e <? 0)] | destruct (in_bulk h tag ref)]; fin.
  - fin.
  - destruct (h_known h); fin.
  - destruct (find_elem h tag ref) as [e|]; [|discriminate].
    match goal with |- context [if ?c then _ else _] => destruct c end; [fin|].
    match goal with |- context [if ?c then _ else _] => destruct c end; fin.
  - match goal with |- context [if ?c then _ else _] => destruct c end; [fin|].
    match goal with |- context [if ?c then _ else _] => destruct c end; fin.
  - destruct (h_maxref h <? 0); [fin|]. destruct (h_maxref h <? MAX_REF); [fin|].
    destruct (vgs v); [destruct (vss v)|]; try fin.
    match goal with |- context [if ?c then _ else _] => destruct c end; fin.
  - match goal with |- context [if ?c then _ else _] => destruct c end; fin.
  - destruct (find_elem h tag ref); [|fin].
    match goal with |- context [if ?c then _ else _] => destruct c end; [fin|].
    match goal with |- context [if ?c then _ else _] => destruct c end; fin.
  - match goal with |- context [if ?c then _ else _] => destruct c end; fin.
Qed.

Ltac brk := repeat (simpl; match goal with |- context [match ?x with _ => _ end] => destruct x end).

Lemma step_v_refusal : forall h v o, plain_request (h, v, d0) o = true ->
  is_refusal (snd (step_v h v o)) -> fst (step_v h v o) = (h, v).
Proof.
  intros h v o Hp. destruct o; simpl in Hp; try discriminate;
    try (brk; first [fin | (let Hr := fresh in simpl; intro Hr; exfalso; unfold s_attr2 in Hr;
                            match type of Hr with context [if ?c then _ else _] => destruct c end; exact Hr)]).
  (* vgadd of a single member: either accepted or nothing changes *)
  simpl. apply Z.eqb_eq in Hp. subst n.
  destruct (get_vg v v0) as [[i g]|]; [|fin].
  destruct (Z.eqb_spec (Z.max 0 (Z.min 1 (UINT16_MAX - g_n g))) 0); [fin|].
  destruct (Z.eqb_spec (Z.max 0 (Z.min 1 (UINT16_MAX - g_n g))) 1); [fin|]. lia.
Qed.

Lemma sd_do_open_refusal : forall d k, is_refusal (snd (sd_do_open d k)) -> fst (sd_do_open d k) = d.
Proof. intros d k. unfold sd_do_open. brk; fin. Qed.

Lemma step_d_refusal : forall d o, is_refusal (snd (step_d d o)) -> fst (step_d d o) = d.
Proof.
  intros d o. destruct o; try (brk; fin).
  - (* sdstart *) simpl. destruct (file_get d k); [fin|].
    pose proof (sd_do_open_refusal d k) as Ho. destruct (sd_do_open d k) as [d' r]. destruct r; simpl in *; try fin.
    intros _. apply Ho. exact I.
  - (* sdopen *) simpl. destruct (file_get d k); [|fin]. apply sd_do_open_refusal.
Qed.

Lemma step_refusal : forall st o, plain_request st o = true -> is_refusal (snd (step st o)) -> fst (step st o) = st.
Proof.
  intros [[h v] d] o Hp. unfold step.
  destruct o eqn:Eo; try (simpl in Hp; discriminate); simpl is_d; simpl is_h; cbv iota.
  all: try match goal with |- context [h_ndds ?hh =? 0] => destruct (h_ndds hh =? 0); [fin|] end.
  all: try match goal with
       | |- context [step_d ?dd ?oo] =>
           pose proof (step_d_refusal dd oo) as Hd; destruct (step_d dd oo) as [d' r]; simpl in *;
           intro Hr; rewrite (Hd Hr); reflexivity
       | |- context [step_h ?hh ?vv ?oo] =>
           pose proof (step_h_refusal hh vv oo) as Hh; destruct (step_h hh vv oo) as [h' r]; simpl in *;
           intro Hr; rewrite (Hh Hp eq_refl Hr); reflexivity
       | |- context [step_v ?hh ?vv ?oo] =>
           pose proof (step_v_refusal hh vv oo) as Hv; destruct (step_v hh vv oo) as [[h' v'] r]; simpl in *;
           intro Hr; specialize (Hv Hp Hr); inversion Hv; subst; reflexivity
       end.
  all: try fin.
Qed.

(** ... and for a reservation: all that a refusal may leave is the length-less descriptor of the requested
    element (and the descriptor block that holds it); every other element, and the end of the data, stay *)
Lemma find_filter_other : forall (l : list elem) tag ref t r, (t =? tag) && (r =? ref) = false ->
  find (fun e => (e_tag e =? t) && (e_ref e =? r)) (filter (fun x => negb ((e_tag x =? tag) && (e_ref x =? ref))) l)
  = find (fun e => (e_tag e =? t) && (e_ref e =? r)) l.
Proof.
  intros l tag ref t r Hk. induction l as [|a l IH]; simpl; [reflexivity|].
  destruct ((e_tag a =? tag) && (e_ref a =? ref)) eqn:Ea; simpl.
  - apply andb_true_iff in Ea. destruct Ea as [E1 E2]. apply Z.eqb_eq in E1. apply Z.eqb_eq in E2.
    rewrite E1, E2. rewrite Z.eqb_sym in Hk. rewrite (Z.eqb_sym r ref) in Hk. rewrite Hk. exact IH.
  - destruct ((e_tag a =? t) && (e_ref a =? r)); [reflexivity | exact IH].
Qed.

Lemma find_set_elem_other : forall h e t r, (t =? e_tag e) && (r =? e_ref e) = false ->
  find (fun x => (e_tag x =? t) && (e_ref x =? r)) (set_elem h e) = find_elem h t r.
Proof.
  intros h e t r Hk. unfold set_elem, find_elem. simpl.
  rewrite Z.eqb_sym, (Z.eqb_sym (e_ref e) r), Hk. apply find_filter_other. exact Hk.
Qed.

Lemma find_set_elem_same : forall h e, find (fun x => (e_tag x =? e_tag e) && (e_ref x =? e_ref e)) (set_elem h e) = Some e.
Proof. intros h e. unfold set_elem. simpl. rewrite !Z.eqb_refl. reflexivity. Qed.

Lemma give_block_refused : forall h tag ref len w, snd (give_block h tag ref len w) = false -> fst (give_block h tag ref len w) = h.
Proof.
  intros h tag ref len w. unfold give_block.
  destruct (len <? 0); [reflexivity|]. destruct (h_known h); [|simpl; discriminate].
  destruct (h_eof h + len <=? INT32_MAX); simpl; [discriminate | reflexivity].
Qed.

Lemma refused_reservation_lemma : forall h tag ref len w h' vs, 0 <= h_ndds h ->
  new_element h tag ref len w = (h', RFail vs) ->
  h_bulk h' = h_bulk h /\
  (forall t r, (t =? tag) && (r =? ref) = false -> find_elem h' t r = find_elem h t r) /\
  (match find_elem h' tag ref with Some e => e_len e < 0 | None => find_elem h tag ref = None end) /\
  (h_known h = true -> h_known h' = true /\ h_eof h <= h_eof h' <= h_eof h + ddblock_size (h_ndds h)).
Proof.
  intros h tag ref len w h' vs Hn. unfold new_element.
  destruct (negb (h_known h) && (FAR <? len)); [discriminate|].
  destruct (in_bulk h tag ref); [discriminate|].
  assert (Hdd : 0 <= ddblock_size (h_ndds h)) by (unfold ddblock_size, NDDS_SZ, OFFSET_SZ, DD_SZ; lia).
  destruct (find_elem h tag ref) as [e|] eqn:Ef.
  - destruct (Z.leb_spec 0 (e_len e)); [discriminate|].
    pose proof (give_block_refused h tag ref len w) as Hg.
    destruct (give_block h tag ref len w) as [h1 okb]. destruct okb; [discriminate|].
    intro H1; inversion H1; subst. simpl in Hg. rewrite (Hg eq_refl).
    split; [reflexivity|]. split; [intros; reflexivity|]. split; [rewrite Ef; lia|].
    intros Hk; split; [exact Hk | lia].
  - destruct (alloc_dd h) as [h1|] eqn:Ea.
    + set (h2 := mkH (h_known h1) (h_eof h1) (h_ndds h1) (h_free h1) (Z.max (h_maxref h1) ref)
                     (set_elem h1 (mkE tag ref (-1) (-1) false)) (h_bulk h1)).
      pose proof (give_block_refused h2 tag ref len w) as Hg.
      destruct (give_block h2 tag ref len w) as [h3 okb]. destruct okb; [discriminate|].
      intro H1; inversion H1; subst h'. simpl in Hg. rewrite (Hg eq_refl). clear Hg H1.
      (* what alloc_dd changed *)
      assert (Ha : h_bulk h1 = h_bulk h /\ h_elems h1 = h_elems h /\ h_known h1 = h_known h /\
                   (h_known h = true -> h_eof h <= h_eof h1 <= h_eof h + ddblock_size (h_ndds h))).
      { unfold alloc_dd in Ea. destruct (h_known h) eqn:Hk; simpl in Ea.
        - destruct (0 <? h_free h); [inversion Ea; subst; simpl; repeat split; lia|].
          destruct (h_eof h + ddblock_size (h_ndds h) <=? INT32_MAX); [|discriminate].
          inversion Ea; subst; simpl. repeat split; lia.
        - inversion Ea; subst. rewrite Hk. repeat split; intros; discriminate. }
      destruct Ha as [Hb [He [Hk Heof]]].
      split; [exact Hb|]. split; [|split].
      * intros t r Hne. unfold find_elem, set_elem. simpl.
        rewrite (Z.eqb_sym tag t), (Z.eqb_sym ref r), Hne.
        rewrite (find_filter_other (h_elems h1) tag ref t r Hne). rewrite He. reflexivity.
      * unfold find_elem, set_elem. simpl. rewrite !Z.eqb_refl. simpl. lia.
      * intros Hkk. simpl. rewrite Hk. split; [exact Hkk | exact (Heof Hkk)].
    + intro H1; inversion H1; subst.
      split; [reflexivity|]. split; [intros; reflexivity|]. split; [rewrite Ef; reflexivity|].
      intros Hk; split; [exact Hk | lia].
Qed.

(* ------------------------------------------------------------------ attributes (one Vdata field each) *)
Lemma setattr_lemma : forall sz count, is_int32 count -> 0 < sz <= 8 ->
  m_sdsetattr sz count = s_setattr sz count /\ m_grsetattr sz count = s_setattr sz count.
Proof.
  intros sz count Hc Hs. unfold is_int32 in Hc.
  unfold m_sdsetattr, m_grsetattr, s_setattr, truth, sdsetattr_no_values, sdsetattr_too_big, grsetattr_too_big,
         MAX_ORDER, MAX_FIELD_SIZE.
  destruct (Z.leb_spec count 0) as [Hle|Hgt]; simpl.
  - destruct (Z.leb_spec 1 count); [lia|]. simpl. destruct (Z.ltb_spec 0 count); [lia|].
    rewrite andb_false_r. split; reflexivity.
  - destruct (Z.leb_spec 1 count); [|lia]. destruct (Z.ltb_spec 0 count); [|lia]. simpl.
    destruct (Z.ltb_spec 65535 count) as [Hbig|Hsmall]; simpl.
    + destruct (Z.leb_spec count 65535); [lia|]. simpl. split; reflexivity.
    + destruct (Z.leb_spec count 65535); [|lia]. simpl.
      rewrite (mul32_id count sz) by (unfold is_int32; nia).
      destruct (Z.ltb_spec 65535 (count * sz)); simpl; destruct (Z.leb_spec (count * sz) 65535); try lia; split; reflexivity.
Qed.

(* ------------------------------------------------------------------ limits enforced at more than one site; scans up to MAX_REF *)
Lemma variable_limit_lemma : forall c,
  coordvar_too_many_vars c = sdcreate_too_many_vars c /\ (truth (coordvar_too_many_vars c) = true <-> H4_MAX_NC_VARS <= c).
Proof.
  intros c. unfold coordvar_too_many_vars, sdcreate_too_many_vars, truth, H4_MAX_NC_VARS. split; [reflexivity|].
  destruct (Z.leb_spec 5000 c); simpl; split; intros; try lia; try reflexivity; discriminate.
Qed.

Lemma attribute_count_lemma : forall c, truth (putattr_too_many c) = true <-> H4_MAX_NC_ATTRS <= c.
Proof.
  intros c. unfold putattr_too_many, truth, H4_MAX_NC_ATTRS.
  destruct (Z.leb_spec 3000 c); simpl; split; intros; try lia; try reflexivity; discriminate.
Qed.

Lemma lone_scan_lemma : forall i, 0 <= i ->
  (truth (vslone_scan_more i) = true <-> i <= MAX_REF) /\ (truth (vlone_scan_more i) = true <-> i <= MAX_REF).
Proof.
  intros i Hi. unfold vslone_scan_more, vlone_scan_more, truth, MAX_REF.
  match goal with |- context [Z.leb i ?c] => let v := eval vm_compute in c in change c with v end.
  destruct (Z.leb_spec i 65535); simpl; split; split; intros; try lia; try reflexivity; discriminate.
Qed.
