(** C20 -- proofs about the site models (LimitsModel) against the unbounded specification (LimitsSpec). *)
From Coq Require Import ZArith List Bool Lia.
Require Import H4.gen.Gen_Limits H4.LimitsSpec H4.LimitsModel.
Import ListNotations.
Local Open Scope Z_scope.

Lemma wrap32_id : forall z, -2147483648 <= z <= 2147483647 -> wrap32 z = z.
Proof.
  intros z H. unfold wrap32.
  rewrite Z.mod_small by lia. lia.
Qed.

Lemma u16_id : forall z, 0 <= z <= 65535 -> u16 z = z.
Proof. intros z H. unfold u16. apply Z.mod_small. lia. Qed.
