(** C08 -- implementation model M of the Vgroup code (vgp.c, vg.c), as the C code performs it.
    No proofs here; total computable definitions only.

    What is modelled as the code does it: the member arrays with capacity [msize] (doubling in vinsertpair from
    MAXNVELT, 16-bit counter), the scan / shift-down loops of Vdeletetagref, the duplicate scan of Vinsert, the
    index loops of the observers, the DFTAG_VG record codec vpackvg / vunpackvg (version bump, flags, attribute
    list, the historic extra byte: the record is one byte longer than its fields and the trailer is read at
    [len - 5]), Vdetach's write-back of marked vgroups, Load_vfile, Vdelete, the flag-array algorithm of Vlone /
    VSlone (incl. its attach/detach of every vgroup, which writes marked ones back), Vgetid / VSgetid, Vfind,
    Vfindclass, Vgetnext, Vgetvgroups.
    What is abstracted: the element store (a finite map ref -> bytes of the DFTAG_VG elements), the TBBT (a
    table in key order), Vdata records (table ref -> name, class).  The access mode is modelled as the code keeps
    it: one [access] field per VGROUP shared by all handles (Vattach: MAX with the requested mode while nattach > 0,
    overwritten when nattach = 0; every edit tests it); nattach of a vginstance is the number of handle slots that
    name its ref. *)
From Coq Require Import ZArith List Bool FMapPositive.
Require Import H4.gen.Gen_VG H4.VGraphSpec.
Import ListNotations.
Local Open Scope Z_scope.

(* ---- integer widths ------------------------------------------------------------------------------- *)
Definition w16 (z : Z) : Z := z mod 65536.
Definition s16 (z : Z) : Z := if z <? 32768 then z else z - 65536.       (* (int16) of a uint16 value *)

(* ---- C arrays as lists ---------------------------------------------------------------------------- *)
Fixpoint aset (a : list Z) (i : nat) (v : Z) : list Z :=
  match a, i with
  | [], _ => []
  | _ :: r, O => v :: r
  | x :: r, S i' => x :: aset r i' v
  end.
Definition aget (a : list Z) (i : nat) : Z := nth i a 0.
(** realloc to [n] cells (new cells are uninitialised in C; never read before written) *)
Definition agrow (a : list Z) (n : Z) : list Z := a ++ repeat 0 (Z.to_nat n - length a).

Record VGROUP := mkVG {
  oref : Z; nvelt : Z; msize : Z; tag : list Z; ref : list Z;
  vgname : option bytes; vgclass : option bytes;
  extag : Z; exref : Z; flags : Z; nattrs : Z; alist : list pair;
  version : Z; more : Z; marked : bool; new_vg : bool;
  access : bool                         (* vg->access == 'w'; shared by all handles on the vgroup *) }.

Definition set_arrays (g : VGROUP) (n m : Z) (t r : list Z) : VGROUP :=
  mkVG (oref g) n m t r (vgname g) (vgclass g) (extag g) (exref g) (flags g) (nattrs g) (alist g)
       (version g) (more g) true (new_vg g) (access g).
Definition set_name (g : VGROUP) (s : option bytes) : VGROUP :=
  mkVG (oref g) (nvelt g) (msize g) (tag g) (ref g) s (vgclass g) (extag g) (exref g) (flags g) (nattrs g) (alist g)
       (version g) (more g) true (new_vg g) (access g).
Definition set_class (g : VGROUP) (s : option bytes) : VGROUP :=
  mkVG (oref g) (nvelt g) (msize g) (tag g) (ref g) (vgname g) s (extag g) (exref g) (flags g) (nattrs g) (alist g)
       (version g) (more g) true (new_vg g) (access g).
Definition set_saved (g : VGROUP) (v : Z) : VGROUP :=      (* after the write-back in Vdetach *)
  mkVG (oref g) (nvelt g) (msize g) (tag g) (ref g) (vgname g) (vgclass g) (extag g) (exref g) (flags g) (nattrs g)
       (alist g) v (more g) false false (access g).
(** Vattach of a vgroup nobody has attached: vg->access = mode; vg->marked = 0 *)
Definition set_first_attach (g : VGROUP) (w : bool) : VGROUP :=
  mkVG (oref g) (nvelt g) (msize g) (tag g) (ref g) (vgname g) (vgclass g) (extag g) (exref g) (flags g) (nattrs g)
       (alist g) (version g) (more g) false (new_vg g) w.
(** Vattach of an attached vgroup: vg->access = MAX(vg->access, mode) *)
Definition set_access (g : VGROUP) (w : bool) : VGROUP :=
  mkVG (oref g) (nvelt g) (msize g) (tag g) (ref g) (vgname g) (vgclass g) (extag g) (exref g) (flags g) (nattrs g)
       (alist g) (version g) (more g) (marked g) (new_vg g) w.

(** Vattach(f, -1, "w") *)
Definition new_vgroup (r : Z) : VGROUP :=
  mkVG r 0 MAXNVELT (repeat 0 (Z.to_nat MAXNVELT)) (repeat 0 (Z.to_nat MAXNVELT)) None None 0 0 0 0 []
       VSET_VERSION 0 true true true.

(** the member list an array pair stands for *)
Definition members (g : VGROUP) : list pair :=
  combine (firstn (Z.to_nat (nvelt g)) (tag g)) (firstn (Z.to_nat (nvelt g)) (ref g)).

(* ---- vinsertpair / Vaddtagref / Vinsert / Vdeletetagref -------------------------------------------- *)
Definition vinsertpair (g : VGROUP) (t r : Z) : option (VGROUP * Z) :=
  if 65535 <=? nvelt g then None else                        (* vg->nvelt >= UINT16_MAX: DFE_EXCEEDMAX *)
  let '(m, tg, rf) :=
    if msize g <=? nvelt g                                   (* (int)vg->nvelt >= vg->msize *)
    then let m := msize g * 2 in (m, agrow (tag g) m, agrow (ref g) m)
    else (msize g, tag g, ref g) in
  let i := Z.to_nat (nvelt g) in
  let n := w16 (nvelt g + 1) in                              (* uint16 nvelt++ *)
  Some (set_arrays g n m (aset tg i t) (aset rf i r), n).

(** first index in [i, i + fuel) whose cell matches *)
Fixpoint scan (tg rf : list Z) (t r : Z) (i fuel : nat) : option nat :=
  match fuel with
  | O => None
  | S f => if (aget tg i =? t) && (aget rf i =? r) then Some i else scan tg rf t r (S i) f
  end.
(** for (j = i; j < nvelt - 1; j++) a[j] = a[j + 1] *)
Fixpoint shift (a : list Z) (j fuel : nat) : list Z :=
  match fuel with O => a | S f => shift (aset a j (aget a (S j))) (S j) f end.

Definition Vaddtagref (g : VGROUP) (t r : Z) : option (VGROUP * Z) := vinsertpair g (w16 t) (w16 r).

Definition Vinsert (g : VGROUP) (t r : Z) : option (VGROUP * Z) :=
  match scan (tag g) (ref g) t r 0 (Z.to_nat (nvelt g)) with
  | Some _ => None                                           (* DFE_DUPDD *)
  | None => match vinsertpair g t r with Some (g', n) => Some (g', n - 1) | None => None end
  end.

Definition Vdeletetagref (g : VGROUP) (t r : Z) : option VGROUP :=
  let n := Z.to_nat (nvelt g) in
  match scan (tag g) (ref g) (w16 t) (w16 r) 0 n with
  | None => None
  | Some i =>
      let tg := aset (shift (tag g) i (n - 1 - i)) (n - 1) DFTAG_NULL in
      let rf := aset (shift (ref g) i (n - 1 - i)) (n - 1) 0 in
      Some (set_arrays g (w16 (nvelt g - 1)) (msize g) tg rf)
  end.

(* ---- observers of one vgroup ----------------------------------------------------------------------- *)
Definition idx (g : VGROUP) : list nat := seq 0 (Z.to_nat (nvelt g)).
Definition Vgettagrefs (g : VGROUP) (n : Z) : list pair :=
  let k := if nvelt g <? n then nvelt g else n in
  map (fun i => (aget (tag g) i, aget (ref g) i)) (seq 0 (Z.to_nat k)).
Definition Vgettagref (g : VGROUP) (which : Z) : option pair :=
  if (which <? 0) || (nvelt g - 1 <? which) then None
  else Some (aget (tag g) (Z.to_nat which), aget (ref g) (Z.to_nat which)).
Definition Vinqtagref (g : VGROUP) (t r : Z) : bool :=
  match scan (tag g) (ref g) (w16 t) (w16 r) 0 (Z.to_nat (nvelt g)) with Some _ => true | None => false end.
Definition Vnrefs (g : VGROUP) (t : Z) : Z :=
  fold_left (fun acc i => if aget (tag g) i =? w16 t then acc + 1 else acc) (idx g) 0.
Definition Visvg (g : VGROUP) (id : Z) : bool :=
  existsb (fun i => (aget (ref g) i =? w16 id) && (aget (tag g) i =? DFTAG_VG)) (idx g).
Definition Visvs (g : VGROUP) (id : Z) : bool :=
  existsb (fun i => (aget (ref g) i =? w16 id) && (aget (tag g) i =? VSDESCTAG)) (rev (idx g)).
Definition is_vset_tag (t : Z) : bool := (t =? DFTAG_VG) || (t =? VSDESCTAG).
(** Vgetnext: the entry after the first vset entry whose ref is [id]; stops at a non-vset entry *)
Fixpoint getnext_loop (g : VGROUP) (id : Z) (us : list nat) : option Z :=
  match us with
  | [] => None
  | u :: r =>
      if is_vset_tag (aget (tag g) u) && (aget (ref g) u =? w16 id) then
        if Z.of_nat u =? nvelt g - 1 then None
        else if is_vset_tag (aget (tag g) (S u)) then Some (aget (ref g) (S u)) else None
      else getnext_loop g id r
  end.
Definition Vgetnext (g : VGROUP) (id : Z) : option Z :=
  if id <? -1 then None
  else if nvelt g =? 0 then None
  else if (id =? -1) && is_vset_tag (aget (tag g) 0) then Some (aget (ref g) 0)
  else getnext_loop g id (idx g).
Definition opt_bytes (o : option bytes) : bytes := match o with Some b => b | None => [] end.

(** the same operations as VGraphSpec.l_apply, performed on the arrays *)
Definition m_apply (g : VGROUP) (o : mop) : VGROUP * mres :=
  match o with
  | MAdd t r => match Vaddtagref g t r with Some (g', n) => (g', MNum n) | None => (g, MFail) end
  | MInsert t r => match Vinsert g (w16 t) (w16 r) with Some (g', i) => (g', MNum i) | None => (g, MFail) end
  | MDel t r => match Vdeletetagref g t r with Some g' => (g', MNum 0) | None => (g, MFail) end
  | MCount => (g, MNum (nvelt g))
  | MGetAll n => (g, MPairs (Vgettagrefs g n))
  | MGet i => (g, match Vgettagref g i with Some p => MPairs [p] | None => MFail end)
  | MInq t r => (g, MBool (Vinqtagref g t r))
  end.
Fixpoint m_run (g : VGROUP) (ops : list mop) : VGROUP * list mres :=
  match ops with
  | [] => (g, [])
  | o :: r => let '(g1, x) := m_apply g o in let '(g2, xs) := m_run g1 r in (g2, x :: xs)
  end.

(* ---- the DFTAG_VG record ---------------------------------------------------------------------------- *)
Definition enc16 (v : Z) : bytes := [(v / 256) mod 256; v mod 256].
Definition enc32 (v : Z) : bytes := [(v / 16777216) mod 256; (v / 65536) mod 256; (v / 256) mod 256; v mod 256].
Definition dec16 (b : bytes) : option (Z * bytes) :=
  match b with h :: l :: r => Some (h * 256 + l, r) | _ => None end.
Definition dec32 (b : bytes) : option (Z * bytes) :=
  match b with a :: b1 :: c :: d :: r => Some (((a * 256 + b1) * 256 + c) * 256 + d, r) | _ => None end.
Fixpoint dec16s (n : nat) (b : bytes) : option (list Z * bytes) :=
  match n with
  | O => Some ([], b)
  | S n' => match dec16 b with
            | None => None
            | Some (v, r) => match dec16s n' r with None => None | Some (l, r') => Some (v :: l, r') end
            end
  end.
Fixpoint decpairs (n : nat) (b : bytes) : option (list pair * bytes) :=
  match n with
  | O => Some ([], b)
  | S n' => match dec16 b with
            | None => None
            | Some (t, r) => match dec16 r with
              | None => None
              | Some (rf, r2) => match decpairs n' r2 with None => None | Some (l, r') => Some ((t, rf) :: l, r') end
              end
            end
  end.
Definition take (n : nat) (b : bytes) : option (bytes * bytes) :=
  if (length b <? n)%nat then None else Some (firstn n b, skipn n b).
(** what strcpy / HIstrncpy see of a byte string: everything before the first NUL *)
Fixpoint cstr (b : bytes) : bytes := match b with [] => [] | x :: r => if x =? 0 then [] else x :: cstr r end.

(** vpackvg: the vgroup (its version may be raised) and the bytes of the record; the last byte is the
    historic extra one ("the '+1' part shouldn't be there") *)
Definition vpackvg (g : VGROUP) : Z * bytes :=
  let n := Z.to_nat (nvelt g) in
  let nm := cstr (opt_bytes (vgname g)) in
  let cl := cstr (opt_bytes (vgclass g)) in
  let ver := if negb (flags g =? 0) && (version g <? VSET_NEW_VERSION) then VSET_NEW_VERSION else version g in
  (ver,
   enc16 (nvelt g) ++ flat_map enc16 (firstn n (tag g)) ++ flat_map enc16 (firstn n (ref g))
   ++ enc16 (w16 (zlen nm)) ++ firstn (Z.to_nat (w16 (zlen nm))) nm
   ++ enc16 (w16 (zlen cl)) ++ firstn (Z.to_nat (w16 (zlen cl))) cl
   ++ enc16 (extag g) ++ enc16 (exref g)
   ++ (if flags g =? 0 then []
       else enc32 (flags g) ++
            (if Z.land (flags g) VG_ATTR_SET =? 0 then []
             else enc32 (nattrs g) ++ flat_map (fun p => enc16 (fst p) ++ enc16 (snd p)) (firstn (Z.to_nat (nattrs g)) (alist g))))
   ++ enc16 ver ++ enc16 (more g) ++ [0]).

Definition opt_name (n : Z) (b : bytes) : option (option bytes * bytes) :=
  if n =? 0 then Some (None, b)
  else match take (Z.to_nat n) b with None => None | Some (s, r) => Some (Some (cstr s), r) end.

(** vunpackvg.  [None]: the C code would read outside the buffer, or meets a version it does not decode
    (> 4: the vgroup is left without arrays) -- not a record this library writes. *)
Definition vunpackvg (r0 : Z) (buf : bytes) : option VGROUP :=
  let len := length buf in
  if (len <? 5)%nat then None else
  match dec16 (skipn (len - 5) buf) with None => None | Some (uver, t1) =>
  match dec16 t1 with None => None | Some (umore, _) =>
  let ver := s16 uver in let mor := s16 umore in
  if negb (ver <=? 4) then None else
  match dec16 buf with None => None | Some (n, b1) =>
  let m := if MAXNVELT <? n then n else MAXNVELT in
  match dec16s (Z.to_nat n) b1 with None => None | Some (tg, b2) =>
  match dec16s (Z.to_nat n) b2 with None => None | Some (rf, b3) =>
  match dec16 b3 with None => None | Some (nl, b4) =>
  match opt_name nl b4 with None => None | Some (nm, b5) =>
  match dec16 b5 with None => None | Some (cl, b6) =>
  match opt_name cl b6 with None => None | Some (cls, b7) =>
  match dec16 b7 with None => None | Some (xt, b8) =>
  match dec16 b8 with None => None | Some (xr, b9) =>
  let mk fl na al := Some (mkVG r0 n m (agrow tg m) (agrow rf m) nm cls xt xr fl na al ver mor false false false) in
  if ver =? VSET_NEW_VERSION then
    match dec32 b9 with None => None | Some (fl, b10) =>
      if Z.land fl VG_ATTR_SET =? 0 then mk fl 0 []
      else match dec32 b10 with None => None | Some (na, b11) =>
        if 2147483648 <=? na then None                       (* INT32DECODE: negative count *)
        else match decpairs (Z.to_nat na) b11 with None => None | Some (al, _) => mk fl na al end end
    end
  else mk 0 0 []
  end end end end end end end end end end end.

(* ---- the file-level state ---------------------------------------------------------------------------- *)
Record mstate := mkm {
  m_file : list (Z * bytes);            (* DFTAG_VG elements of the file: ref -> record *)
  m_vg   : list (Z * VGROUP);           (* vgtree: key order *)
  m_vs   : list (Z * vs);               (* vstree *)
  m_hg   : list (Z * Z);                (* vgroup handles (atoms): slot -> ref of the shared vginstance;
                                           nattach of a vginstance = number of slots naming its ref *)
  m_hs   : list (Z * Z) }.
Definition minit : mstate := mkm [] [] [] [] [].

Definition tput {A} (k : Z) (v : A) (t : list (Z * A)) : list (Z * A) :=
  match tget k t with Some _ => tset k v t | None => tins k v t end.

(** The element store under the vgroup records (hfile.c), as far as Vdetach / Load_vfile / Vdelete use it: an element
    is its byte content, whose length is the length recorded in its descriptor.
    Hputelement = Hstartwrite + Hwrite + Hendaccess.  On an element that does not exist (or whose descriptor
    HDreuse_tagref has just invalidated) Hstartwrite gives it exactly the requested length (Hsetlength).  On an
    existing element nothing is resized: the bytes are written over the beginning, the old tail and the old length
    stay; a longer write fails (DFE_BADSEEK, the element is not appendable). *)
Definition Hputelement (old : option bytes) (new : bytes) : option bytes :=
  match old with
  | None => Some new
  | Some o => if (length o <? length new)%nat then None else Some (new ++ skipn (length new) o)
  end.
(** what Vdetach hands to Hputelement as "the element now": a vgroup that came from the file (new_vg = 0) gets its
    descriptor invalidated first (HDcheck_tagref = 1 -> HDreuse_tagref), a vgroup created in this session is written
    straight away *)
Definition element_before_put (file : list (Z * bytes)) (g : VGROUP) : option bytes :=
  if new_vg g then tget (oref g) file else None.
Definition write_fails (file : list (Z * bytes)) (g : VGROUP) : bool :=
  marked g && match Hputelement (element_before_put file g) (snd (vpackvg g)) with Some _ => false | None => true end.
(** Vdetach's write-back: a marked vgroup is packed and stored under (DFTAG_VG, oref); when the write fails the
    vgroup stays marked and nothing changes *)
Definition write_back (file : list (Z * bytes)) (g : VGROUP) : list (Z * bytes) * VGROUP :=
  if marked g then
    let '(ver, b) := vpackvg g in
    match Hputelement (element_before_put file g) b with
    | Some e => (tput (oref g) e file, set_saved g ver)
    | None => (file, g)
    end
  else (file, g).
(** Vlone / VSlone attach every vgroup with "r" and detach it again: an attached one (nattach > 0) keeps its
    access (MAX) and is written back when marked; an unattached one gets access 'r', marked 0 *)
Fixpoint lone_visits (hg : list (Z * Z)) (file : list (Z * bytes)) (t : list (Z * VGROUP))
  : list (Z * bytes) * list (Z * VGROUP) :=
  match t with
  | [] => (file, [])
  | (k, g) :: r => let '(f1, g1) := if attached_in k hg then write_back file g
                                    else (file, set_first_attach g false) in
                   let '(f2, r2) := lone_visits hg f1 r in (f2, (k, g1) :: r2)
  end.
(** Load_vfile: every DFTAG_VG element is unpacked and inserted under its ref *)
Fixpoint load_vfile (file : list (Z * bytes)) : option (list (Z * VGROUP)) :=
  match file with
  | [] => Some []
  | (k, b) :: r => match vunpackvg k b, load_vfile r with
                   | Some g, Some t => Some (tins k g t)
                   | _, _ => None
                   end
  end.

(** Vgetid / VSgetid on a tree: position of the key, then its successor *)
Fixpoint pos_of {A} (k : Z) (t : list (Z * A)) (i : nat) : option nat :=
  match t with [] => None | (k', _) :: r => if k =? k' then Some i else pos_of k r (S i) end.
Definition m_getid {A} (t : list (Z * A)) (id : Z) : option Z :=
  if id <? -1 then None
  else if id =? -1 then match t with [] => None | (k, _) :: _ => Some k end
  else match pos_of id t 0 with
       | None => None
       | Some i => if (S i =? length t)%nat then None        (* t == tbbtlast *)
                   else match nth_error t (S i) with Some (k, _) => Some k | None => None end
       end.
(** while ((id = Vgetid(f, id)) != FAIL): the ids visited, with fuel *)
Fixpoint iter_ids {A} (t : list (Z * A)) (id : Z) (fuel : nat) : list Z :=
  match fuel with
  | O => []
  | S f => match m_getid t id with None => [] | Some k => k :: iter_ids t k f end
  end.
Definition all_ids {A} (t : list (Z * A)) : list Z := iter_ids t (-1) (S (length t)).

(** Vlone / VSlone: a flag per reference number 0 .. MAX_REF *)
Definition fkey (i : Z) : positive := Z.to_pos (i + 1).
Definition flag_set (i : Z) (v : bool) (m : PositiveMap.t bool) : PositiveMap.t bool := PositiveMap.add (fkey i) v m.
Definition flag_get (i : Z) (m : PositiveMap.t bool) : bool :=
  match PositiveMap.find (fkey i) m with Some b => b | None => false end.
Definition clear_members (wanted : Z) (g : VGROUP) (m : PositiveMap.t bool) : PositiveMap.t bool :=
  fold_left (fun m i => if aget (tag g) i =? wanted then flag_set (aget (ref g) i) false m else m) (idx g) m.
Fixpoint zrange_from (a : Z) (n : nat) : list Z := match n with O => [] | S n' => a :: zrange_from (a + 1) n' end.
Definition zrange (n : Z) : list Z := zrange_from 0 (Z.to_nat n).       (* for (i = 0; i < n; i++) *)
Definition lone_scan (ids : list Z) (wanted : Z) (vgt : list (Z * VGROUP)) (bound : Z) : list Z :=
  let m1 := fold_left (fun m id => flag_set id true m) ids (PositiveMap.empty bool) in
  let m2 := fold_left (fun m id => match tget id vgt with Some g => clear_members wanted g m | None => m end)
                      (all_ids vgt) m1 in
  filter (fun i => flag_get i m2) (zrange bound).
Definition Vlone (s : mstate) : list Z := lone_scan (all_ids (m_vg s)) DFTAG_VG (m_vg s) (MAX_REF + 1).
Definition VSlone (s : mstate) : list Z := lone_scan (all_ids (m_vs s)) DFTAG_VH (m_vg s) (MAX_REF + 1).

(** Vfind / Vfindclass / VSfind / VSfindclass: first hit of the Vgetid iteration *)
Fixpoint find_loop {A} (p : A -> bool) (t : list (Z * A)) (ids : list Z) : Z :=
  match ids with
  | [] => 0
  | id :: r => match tget id t with None => 0 | Some v => if p v then id else find_loop p t r end
  end.
Definition name_is (n : bytes) (o : option bytes) : bool :=
  match o with Some b => bytes_eqb n (cstr b) | None => false end.

(** Visinternal: strncmp(HDF_INTERNAL_VGS[i], classname, strlen(HDF_INTERNAL_VGS[i])) == 0 *)
Definition Visinternal (c : bytes) : bool := existsb (fun p => is_prefix p c) HDF_INTERNAL_VGS.
Definition user_created (g : VGROUP) : bool :=
  match vgclass g with None => true | Some c => negb (Visinternal (cstr c)) end.
(** VSisinternal / vscheckclass: strnlen(vsclass) != 0 ? (query NULL ? !VSisinternal
    : strncmp(query, _HDF_CHK_TBL_CLASS, 13) ? !strcmp(query, vsclass) : !strncmp(query, vsclass, 13)) : query == NULL *)
Definition VSisinternal (c : bytes) : bool := existsb (fun p => is_prefix p c) HDF_INTERNAL_VDS.
Definition vscheckclass (t : list (Z * vs)) (r : Z) (q : option bytes) : bool :=
  match tget r t with
  | None => false
  | Some v =>
      match s_class v with
      | [] => match q with None => true | Some _ => false end
      | c => match q with
             | None => negb (VSisinternal c)
             | Some qc => if is_prefix _HDF_CHK_TBL_CLASS qc then is_prefix _HDF_CHK_TBL_CLASS c else bytes_eqb qc c
             end
      end
  end.
(** the common tail of Vgetvgroups / VSIgetvdatas: FAIL when fewer than [start] objects qualify; with a NULL array
    (n = 0) the count from [start] on, else the refs stored *)
Definition m_enum (users : list Z) (start n : Z) : option (list Z) :=
  if zlen users <? start then None
  else if n =? 0 then Some [zlen users - start]
  else let l := firstn (Z.to_nat n) (skipn (Z.to_nat start) users) in Some (zlen l :: l).
Definition getvgroups_result (users : list Z) (start n : Z) : option (list Z) :=
  if zlen users <? start then None else Some (firstn (Z.to_nat n) (skipn (Z.to_nat start) users)).

(* ---- one operation ----------------------------------------------------------------------------------- *)
Definition mok (s : mstate) (v : list Z) : mstate * res := (s, ROk v None).
Definition m_with (s : mstate) (h : Z) (f : Z -> VGROUP -> mstate * res) : mstate * res :=
  match tget h (m_hg s) with
  | None => (s, RUnspec)
  | Some r => match tget r (m_vg s) with None => (s, RUnspec) | Some g => f r g end
  end.
(** every edit checks vg->access == 'w' *)
Definition m_edit (s : mstate) (h : Z) (f : Z -> VGROUP -> mstate * res) : mstate * res :=
  m_with s h (fun r g => if access g then f r g else (s, RFail)).
Definition m_put (s : mstate) (r : Z) (g : VGROUP) : mstate :=
  mkm (m_file s) (tset r g (m_vg s)) (m_vs s) (m_hg s) (m_hs s).
Definition m_attached (r : Z) (s : mstate) : bool := attached_in r (m_hg s).        (* nattach > 0 *)
Definition m_vs_attached (r : Z) (s : mstate) : bool := attached_in r (m_hs s).
Definition m_room (g : VGROUP) (k : Z) : bool := nvelt g + k <=? 65535.
Fixpoint addmany_loop (g : VGROUP) (t r step : Z) (n : nat) (last : Z) : option (VGROUP * Z) :=
  match n with
  | O => Some (g, last)
  | S n' => match Vaddtagref g t r with
            | Some (g', k) => addmany_loop g' t (r + step) step n' k
            | None => None
            end
  end.
Definition m_insert (s : mstate) (h : Z) (t r : Z) : mstate * res :=
  m_edit s h (fun vr g =>
    match Vinsert g t r with None => (s, RFail) | Some (g', i) => (m_put s vr g', ROk [i] None) end).
Definition set_string (s : bytes) : option bytes := Some (cstr s).     (* malloc(strlen + 1); HIstrncpy *)
(** VHmakegroup's loop: Vaddtagref for every pair of the arrays *)
Fixpoint addlist_loop (g : VGROUP) (l : list pair) : option VGROUP :=
  match l with
  | [] => Some g
  | (t, r) :: l' => match Vaddtagref g t r with Some (g', _) => addlist_loop g' l' | None => None end
  end.
Definition vgroup_users (s : mstate) (g : VGROUP) : list Z :=
  flat_map (fun i => if aget (tag g) i =? DFTAG_VG
                     then match tget (aget (ref g) i) (m_vg s) with
                          | Some g2 => if user_created g2 then [aget (ref g) i] else []
                          | None => [] end
                     else []) (idx g).
Definition file_users (s : mstate) : list Z :=
  filter (fun id => match tget id (m_vg s) with Some g => user_created g | None => false end) (all_ids (m_vg s)).
Definition lone_side_effect (s : mstate) : mstate :=
  let '(f, t) := lone_visits (m_hg s) (m_file s) (m_vg s) in mkm f t (m_vs s) (m_hg s) (m_hs s).

Definition mstep (s : mstate) (o : op) : mstate * res :=
  match o with
  | OOpen => (s, ROk [] None)
  | OReopen =>
      match m_hg s, m_hs s with
      | [], [] => match load_vfile (m_file s) with
                  | Some t => (mkm (m_file s) t (m_vs s) [] [], ROk [] None)
                  | None => (s, RUnspec)
                  end
      | _, _ => (s, RUnspec)
      end
  | OVgNew h r =>
      match tget h (m_hg s) with Some _ => (s, RUnspec) | None =>
        if negb ((1 <=? r) && (r <=? 65535)) then (s, RFail)
        else match tget r (m_vg s) with Some _ => (s, RFail) | None =>
          (mkm (m_file s) (tins r (new_vgroup r) (m_vg s)) (m_vs s) (tins h r (m_hg s)) (m_hs s), ROk [r] None)
        end end
  | OVgAttach h r w =>
      match tget h (m_hg s) with Some _ => (s, RUnspec) | None =>
        match tget r (m_vg s) with None => (s, RFail) | Some g =>
          let g' := if m_attached r s then set_access g (access g || w)      (* nattach > 0: MAX(access, mode) *)
                    else set_first_attach g w in
          (mkm (m_file s) (tset r g' (m_vg s)) (m_vs s) (tins h r (m_hg s)) (m_hs s), ROk [] None) end end
  | OVgDetach h =>
      match tget h (m_hg s) with None => (s, RFail) | Some r =>
        match tget r (m_vg s) with None => (s, RUnspec) | Some g =>
          let '(f, g') := write_back (m_file s) g in
          (mkm f (tset r g' (m_vg s)) (m_vs s) (tdel h (m_hg s)) (m_hs s),
           if write_fails (m_file s) g then RFail else ROk [] None) end end
  | OSetName h n => m_edit s h (fun r g =>
      if negb (name_ok n) then (s, RUnspec)
      else if 65535 <? zlen (cstr n) then (s, RFail)                         (* name_len > UINT16_MAX *)
      else (m_put s r (set_name g (set_string n)), ROk [] None))
  | OSetClass h n => m_edit s h (fun r g =>
      if negb (name_ok n) then (s, RUnspec)
      else if 65535 <? zlen (cstr n) then (s, RFail)
      else (m_put s r (set_class g (set_string n)), ROk [] None))
  | OAddTagRef h t r => m_edit s h (fun vr g =>
      if negb (u16 t && u16 r) then (s, RUnspec)
      else match Vaddtagref g t r with Some (g', n) => (m_put s vr g', ROk [n] None) | None => (s, RFail) end)
  | OAddMany h t r c st => m_edit s h (fun vr g =>
      if u16 t && u16 r && u16 (r + (c - 1) * st) && (1 <=? c) && m_room g c
      then match addmany_loop g t r st (Z.to_nat c) (-1) with
           | Some (g', n) => (m_put s vr g', ROk [n] None) | None => (s, RUnspec) end
      else (s, RUnspec))
  | OInsertVg h h2 =>
      match tget h2 (m_hg s) with None => (s, RUnspec) | Some r2 => m_insert s h DFTAG_VG r2 end
  | OInsertVs h h2 =>
      match tget h2 (m_hs s) with None => (s, RUnspec) | Some r2 => m_insert s h DFTAG_VH r2 end
  | ODelTagRef h t r => m_edit s h (fun vr g =>
      if u16 t && u16 r then
        match Vdeletetagref g t r with None => (s, RFail) | Some g' => (m_put s vr g', ROk [] None) end
      else (s, RUnspec))
  | OVDelete r =>
      if negb (u16 r) then (s, RUnspec)
      else match tget r (m_vg s) with None => (s, RFail) | Some _ =>
        if m_attached r s then (s, RUnspec)
        else match tget r (m_file s) with
             | None => (mkm (m_file s) (tdel r (m_vg s)) (m_vs s) (m_hg s) (m_hs s), RFail)     (* Hdeldd fails *)
             | Some _ => (mkm (tdel r (m_file s)) (tdel r (m_vg s)) (m_vs s) (m_hg s) (m_hs s), ROk [] None)
             end end
  | OVSDelete r =>
      if negb (u16 r) then (s, RUnspec)
      else match tget r (m_vs s) with None => (s, RFail) | Some _ =>
        if m_vs_attached r s then (s, RUnspec)
        else (mkm (m_file s) (m_vg s) (tdel r (m_vs s)) (m_hg s) (m_hs s), ROk [] None) end
  | OVsNew r n c fl =>
      if negb ((1 <=? r) && (r <=? 65535)) then (s, RFail)
      else match tget r (m_vs s) with Some _ => (s, RFail) | None =>
        if name_ok n && name_ok c
        then (mkm (m_file s) (m_vg s) (tins r (mkvs n c fl) (m_vs s)) (m_hg s) (m_hs s), ROk [r] None)
        else (s, RUnspec) end
  | OVsAttach h r =>
      match tget h (m_hs s) with Some _ => (s, RUnspec) | None =>
        match tget r (m_vs s) with None => (s, RFail) | Some _ =>
          (mkm (m_file s) (m_vg s) (m_vs s) (m_hg s) (tins h r (m_hs s)), ROk [] None) end end
  | OVsDetach h =>
      match tget h (m_hs s) with None => (s, RFail) | Some _ =>
        (mkm (m_file s) (m_vg s) (m_vs s) (m_hg s) (tdel h (m_hs s)), ROk [] None) end
  | ONTagRefs h => m_with s h (fun _ g => mok s [nvelt g])
  | OGetTagRefs h n => m_with s h (fun _ g =>
      if n <? 0 then (s, RUnspec) else let l := Vgettagrefs g n in mok s (zlen l :: flat l))
  | OGetTagRef h i => m_with s h (fun _ g =>
      match Vgettagref g i with Some (t, r) => mok s [t; r] | None => (s, RFail) end)
  | OInqTagRef h t r => m_with s h (fun _ g =>
      if u16 t && u16 r then mok s [if Vinqtagref g t r then 1 else 0] else (s, RUnspec))
  | ONRefs h t => m_with s h (fun _ g => if u16 t then mok s [Vnrefs g t] else (s, RUnspec))
  | OGetName h => m_with s h (fun _ g => (s, ROk [] (Some (cstr (opt_bytes (vgname g))))))
  | OGetClass h => m_with s h (fun _ g => (s, ROk [] (Some (cstr (opt_bytes (vgclass g))))))
  | OInquire h => m_with s h (fun _ g => (s, ROk [nvelt g] (Some (cstr (opt_bytes (vgname g))))))
  | OQueryRef h => m_with s h (fun _ g => mok s [oref g])
  | OIsVg h id => m_with s h (fun _ g => if u16 id then mok s [if Visvg g id then 1 else 0] else (s, RUnspec))
  | OIsVs h id => m_with s h (fun _ g => if u16 id then mok s [if Visvs g id then 1 else 0] else (s, RUnspec))
  | OLone n => if n <? 0 then (s, RUnspec)
               else let l := Vlone s in (lone_side_effect s, ROk (zlen l :: firstn (Z.to_nat n) l) None)
  | OVSLone n => if n <? 0 then (s, RUnspec)
                 else let l := VSlone s in (lone_side_effect s, ROk (zlen l :: firstn (Z.to_nat n) l) None)
  | OGetId r => match m_getid (m_vg s) r with Some k => mok s [k] | None => (s, RFail) end
  | OVSGetId r => match m_getid (m_vs s) r with Some k => mok s [k] | None => (s, RFail) end
  | OIter => mok s (all_ids (m_vg s))
  | OVSIter => mok s (all_ids (m_vs s))
  | OFind n => match n with [] => (s, RNoSpec) | _ =>
      mok s [find_loop (fun g => name_is n (vgname g)) (m_vg s) (all_ids (m_vg s))] end
  | OFindClass n => match n with [] => (s, RNoSpec) | _ =>
      mok s [find_loop (fun g => name_is n (vgclass g)) (m_vg s) (all_ids (m_vg s))] end
  | OVSFind n => match n with [] => (s, RNoSpec) | _ =>
      mok s [find_loop (fun v => bytes_eqb n (s_name v)) (m_vs s) (all_ids (m_vs s))] end
  | OVSFindClass n => match n with [] => (s, RNoSpec) | _ =>
      mok s [find_loop (fun v => bytes_eqb n (s_class v)) (m_vs s) (all_ids (m_vs s))] end
  | OGetVgroupsF start n =>
      if (start <? 0) || (n <? 1) then (s, RUnspec)
      else let users := filter (fun id => match tget id (m_vg s) with Some g => user_created g | None => false end)
                               (all_ids (m_vg s)) in
           match getvgroups_result users start n with None => (s, RFail) | Some l => mok s (zlen l :: l) end
  | OGetVgroupsG h start n => m_with s h (fun _ g =>
      if (start <? 0) || (n <? 1) then (s, RUnspec)
      else let users := flat_map (fun i => if aget (tag g) i =? DFTAG_VG
                                           then match tget (aget (ref g) i) (m_vg s) with
                                                | Some g2 => if user_created g2 then [aget (ref g) i] else []
                                                | None => [] end
                                           else []) (idx g) in
           match getvgroups_result users start n with None => (s, RFail) | Some l => mok s (zlen l :: l) end)
  | OGetVdatasF q start n =>
      if (start <? 0) || (n <? 0) then (s, RUnspec)
      else match m_enum (filter (fun id => vscheckclass (m_vs s) id q) (all_ids (m_vs s))) start n with
           | Some l => mok s l | None => (s, RFail) end
  | OGetVdatasG h q start n => m_with s h (fun _ g =>
      if (start <? 0) || (n <? 0) then (s, RUnspec)
      else match m_enum (flat_map (fun i => if aget (tag g) i =? DFTAG_VH
                                            then (if vscheckclass (m_vs s) (aget (ref g) i) q then [aget (ref g) i] else [])
                                            else []) (idx g)) start n with
           | Some l => mok s l | None => (s, RFail) end)
  | OVHMakeGroup r n c l =>
      if negb ((1 <=? r) && (r <=? 65535)) then (s, RFail)
      else match tget r (m_vg s) with Some _ => (s, RFail) | None =>
        if opt_ok n && opt_ok c && forallb (fun p => u16 (fst p) && u16 (snd p)) l && (zlen l <=? 65535)
        then let g0 := new_vgroup r in                                           (* Vattach(f, -1, "w") *)
             let g1 := match n with Some b => set_name g0 (set_string b) | None => g0 end in
             let g2 := match c with Some b => set_class g1 (set_string b) | None => g1 end in
             match addlist_loop g2 l with
             | None => (s, RUnspec)
             | Some g3 => let '(f, g4) := write_back (m_file s) g3 in            (* Vdetach *)
                          (mkm f (tins r g4 (m_vg s)) (m_vs s) (m_hg s) (m_hs s), ROk [r] None)
             end
        else (s, RUnspec) end
  | OVentries r =>
      if r <? 1 then (s, RFail)
      else if negb (u16 r) then (s, RUnspec)
      else match tget (w16 r) (m_vg s) with Some g => mok s [nvelt g] | None => (s, RFail) end
  | OQueryTag h => m_with s h (fun _ g => mok s [DFTAG_VG])
  | OGisInternal h => m_with s h (fun _ g =>
      mok s [match vgclass g with
             | Some c => if Visinternal (cstr c) then 1 else 0
             | None => match vgname g with
                       | Some nm => if is_prefix GR_NAME (cstr nm) then 1 else 0
                       | None => 0 end
             end])
  | OFlocate h f => m_with s h (fun _ g =>
      match f with [] => (s, RUnspec) | _ =>
        match flocate f (m_vs s) (map (fun i => (aget (tag g) i, aget (ref g) i)) (idx g)) with
        | Some r => mok s [r] | None => (s, RFail) end end)
  | OCountVgroupsF start =>
      if start <? 0 then (s, RUnspec)
      else if zlen (file_users s) <? start then (s, RFail) else mok s [zlen (file_users s)]
  | OCountVgroupsG h start => m_with s h (fun _ g =>
      if start <? 0 then (s, RUnspec)
      else if zlen (vgroup_users s g) <? start then (s, RFail) else mok s [zlen (vgroup_users s g) - start])
  | OGetNext h id => m_with s h (fun _ g => match Vgetnext g id with Some k => mok s [k] | None => (s, RFail) end)
  | OMsize h => m_with s h (fun _ g => mok s [nvelt g; msize g])
  | ORawVg r => match tget r (m_file s) with Some b => (s, ROk [] (Some b)) | None => (s, RFail) end
  | OPutRaw r b => if u16 r then
                     match Hputelement (tget r (m_file s)) b with
                     | Some e => (mkm (tput r e (m_file s)) (m_vg s) (m_vs s) (m_hg s) (m_hs s), ROk [] None)
                     | None => (s, RFail)
                     end
                   else (s, RUnspec)
  end.
