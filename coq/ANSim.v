(** C11 -- the simulation between the implementation model M (ANModel.mstep) and the specification S
    (ANSpec.step): the relation [Sim], and the per-operation lemmas.  Used by Properties_C11.v. *)
From Coq Require Import ZArith List Bool Lia Permutation Sorted.
Require Import H4.ANLang H4.gen.Gen_AN H4.ANSpec H4.ANModel H4.ANProofs H4.ANProofs2.
Import ListNotations.
Local Open Scope Z_scope.

(* ================= A. the finite map of the specification ==================================================== *)
Definition keys (l : list ann) : list key := map a_key l.

Lemma key_eqb_eq : forall a b, key_eqb a b = true <-> a = b.
Proof.
  intros [a1 a2] [b1 b2]. unfold key_eqb. simpl. rewrite andb_true_iff, !Z.eqb_eq. split; [intros [-> ->]; reflexivity | intros E; inversion E; auto].
Qed.
Lemma key_eqb_refl : forall a, key_eqb a a = true. Proof. intros. apply key_eqb_eq. reflexivity. Qed.
Lemma key_eqb_neq : forall a b, key_eqb a b = false <-> a <> b.
Proof. intros. rewrite <- key_eqb_eq. destruct (key_eqb a b); split; congruence. Qed.

Lemma lookup_In : forall l k x, lookup k l = Some x -> In x l /\ a_key x = k.
Proof.
  induction l as [|a t IH]; simpl; intros k x H; [discriminate|].
  destruct (key_eqb k (a_key a)) eqn:E.
  - apply key_eqb_eq in E. inversion H; subst. auto.
  - destruct (IH _ _ H). auto.
Qed.
Lemma In_lookup : forall l x, NoDup (keys l) -> In x l -> lookup (a_key x) l = Some x.
Proof.
  induction l as [|a t IH]; simpl; intros x ND H; [contradiction|]. inversion ND as [|? ? Hn ND']; subst.
  destruct H as [->|H]; [rewrite key_eqb_refl; reflexivity|].
  destruct (key_eqb (a_key x) (a_key a)) eqn:E; [|auto].
  apply key_eqb_eq in E. exfalso. apply Hn. rewrite <- E. apply in_map. assumption.
Qed.
Lemma lookup_None : forall l k, lookup k l = None <-> ~ In k (keys l).
Proof.
  induction l as [|a t IH]; simpl; intros k; [split; auto|].
  destruct (key_eqb k (a_key a)) eqn:E.
  - apply key_eqb_eq in E. split; [discriminate | intros H; exfalso; apply H; left; congruence].
  - apply key_eqb_neq in E. rewrite IH. split; intros H; [intros [X|X]; [congruence|auto] | intros X; apply H; right; assumption].
Qed.

Lemma set_text_keys : forall k txt l, keys (set_text k txt l) = keys l.
Proof.
  induction l as [|a t IH]; simpl; [reflexivity|]. destruct (key_eqb k (a_key a)) eqn:E; simpl.
  - apply key_eqb_eq in E. rewrite E. reflexivity.
  - f_equal. exact IH.
Qed.
Lemma set_text_In : forall k txt l x, NoDup (keys l) ->
  (In x (set_text k txt l) <->
   (exists y, In y l /\ a_key y = k /\ x = mkann k (a_ttag y) (a_tref y) (Some txt)) \/ (In x l /\ a_key x <> k)).
Proof.
  induction l as [|a t IH]; simpl; intros x ND.
  - split; [contradiction | intros [[y [[] _]]|[[] _]]].
  - inversion ND as [|? ? Hn ND']; subst. destruct (key_eqb k (a_key a)) eqn:E; simpl.
    + apply key_eqb_eq in E. split.
      * intros [H|H]; [left; exists a; auto|]. right. split; [auto|]. intros X. apply Hn. rewrite <- E, <- X. apply in_map. assumption.
      * intros [[y [[Hy|Hy] [Ky X]]]|[[H|H] N]].
        -- subst. left. reflexivity.
        -- exfalso. apply Hn. rewrite <- E, <- Ky. apply in_map. assumption.
        -- subst. congruence.
        -- right. assumption.
    + apply key_eqb_neq in E. rewrite (IH x ND'). split.
      * intros [H|[[y [Hy R]]|[H N]]]; [right; subst; split; [left; reflexivity | congruence] | left; exists y; split; [right|]; tauto | right; tauto].
      * intros [[y [[Hy|Hy] [Ky X]]]|[[H|H] N]]; [subst; congruence | right; left; exists y; auto | left; assumption | right; right; auto].
Qed.

Lemma NoDup_app_one : forall A (l : list A) x, NoDup l -> ~ In x l -> NoDup (l ++ [x]).
Proof.
  induction l as [|a t IH]; simpl; intros x ND H; [constructor; [auto|constructor]|].
  inversion ND; subst. constructor; [|apply IH; auto]. rewrite in_app_iff. simpl. intuition.
Qed.

Lemma NoDup_filter_keys : forall f l, NoDup (keys l) -> NoDup (keys (filter f l)).
Proof.
  induction l as [|a t IH]; simpl; intros ND; [constructor|]. inversion ND; subst.
  destruct (f a); simpl; [constructor|]; auto. intros X. apply H1. unfold keys in *. apply in_map_iff in X.
  destruct X as [y [E Hy]]. apply filter_In in Hy. rewrite <- E. apply in_map. tauto.
Qed.

(** two duplicate-free lists with the same elements have the same length / are permutations *)
Lemma same_elems_perm : forall A (l l' : list A), NoDup l -> NoDup l' -> (forall x, In x l <-> In x l') -> Permutation l l'.
Proof. intros. apply NoDup_Permutation; assumption. Qed.

(* type <-> tag *)
Lemma atype2tag_iff : forall ty g, atype2tag ty = Some g <-> tyok ty /\ g = tag_of_type ty.
Proof.
  intros ty g. split.
  - intros H. pose proof (atype2tag_ok _ _ H) as T. split; [assumption|]. unfold tyok in T.
    assert (ty = 0 \/ ty = 1 \/ ty = 2 \/ ty = 3) as [-> | [-> | [-> | ->]]] by lia; vm_compute in H; inversion H; reflexivity.
  - intros [T ->]. unfold tyok in T. assert (ty = 0 \/ ty = 1 \/ ty = 2 \/ ty = 3) as [-> | [-> | [-> | ->]]] by lia; reflexivity.
Qed.
Lemma valid_type_iff : forall ty, valid_type ty = true <-> tyok ty.
Proof. intros. unfold valid_type, tyok. rewrite andb_true_iff, !Z.leb_le. tauto. Qed.
Lemma tag_of_type_inj : forall t1 t2, tyok t1 -> tyok t2 -> tag_of_type t1 = tag_of_type t2 -> t1 = t2.
Proof.
  intros t1 t2 H1 H2. unfold tyok in *.
  assert (t1 = 0 \/ t1 = 1 \/ t1 = 2 \/ t1 = 3) as [-> | [-> | [-> | ->]]] by lia;
  assert (t2 = 0 \/ t2 = 1 \/ t2 = 2 \/ t2 = 3) as [-> | [-> | [-> | ->]]] by lia; vm_compute; congruence.
Qed.
Lemma is_data_same : forall ty, is_data_type ty = is_data ty. Proof. reflexivity. Qed.
Lemma is_data_tag_type : forall ty, tyok ty -> is_data_tag (tag_of_type ty) = is_data ty.
Proof. intros ty H. unfold tyok in H. assert (ty = 0 \/ ty = 1 \/ ty = 2 \/ ty = 3) as [-> | [-> | [-> | ->]]] by lia; reflexivity. Qed.
Lemma is_label_tag_type : forall ty, tyok ty -> is_label_tag (tag_of_type ty) = is_label ty.
Proof. intros ty H. unfold tyok in H. assert (ty = 0 \/ ty = 1 \/ ty = 2 \/ ty = 3) as [-> | [-> | [-> | ->]]] by lia; reflexivity. Qed.

(* ================= B. what the tables of M represent ============================================================ *)
Definition ddkey (d : dd) : Z * Z := (d_tag d, d_ref d).
Definition target_of (ty : Z) (d : dd) : Z * Z := if is_data_type ty then decode_target (d_data d) else (d_tag d, d_ref d).

(** the annotation [x] exists in library state [l]: written (a descriptor in the file) or created in this session
    and not written yet (an entry of the loaded tree without a descriptor) *)
Definition Repr (l : lstate) (x : ann) : Prop :=
  (tyok (fst (a_key x)) /\ 1 <= snd (a_key x) <= MAX_REF) /\
  ((exists d, In d (l_dds l) /\ d_tag d = tag_of_type (fst (a_key x)) /\ d_ref d = snd (a_key x) /\
              a_text x = Some (payload_text (d_tag d) (d_data d)) /\ (a_ttag x, a_tref x) = target_of (fst (a_key x)) d)
   \/ (a_text x = None /\ hfind (tag_of_type (fst (a_key x))) (snd (a_key x)) (l_dds l) = None /\
       exists t e, l_tree l (fst (a_key x)) = Some t /\ In (AN_CREATE_KEY (fst (a_key x)) (snd (a_key x)), e) t /\
                   (a_ttag x, a_tref x) = (e_elmtag e, e_elmref e))).

Record TF (l : lstate) : Prop := mkTF {
  tf_nodup : NoDup (map ddkey (l_dds l));
  tf_len : forall d, In d (l_dds l) -> is_data_tag (d_tag d) = true -> 4 <= zlen (d_data d);
  tf_tags : forall d, In d (l_dds l) -> exists ty, tyok ty /\ d_tag d = tag_of_type ty;
  tf_file : forall ty t d, l_tree l ty = Some t -> In d (l_dds l) -> d_tag d = tag_of_type ty ->
            exists e, In (AN_CREATE_KEY ty (d_ref d), e) t /\ (e_elmtag e, e_elmref e) = target_of ty d;
  tf_old : forall ty t k e nd, l_tree l ty = Some t -> In (k, e) t -> zassoc (e_id e) (l_atoms l) = Some nd ->
           n_new nd = false -> exists d, In d (l_dds l) /\ d_tag d = tag_of_type ty /\ d_ref d = e_annref e;
  tf_num : forall ty t, l_tree l ty = Some t -> l_num l ty = zlen t;
  tf_range : forall ty t k e, l_tree l ty = Some t -> In (k, e) t -> 0 <= e_elmtag e < 65536 /\ 0 <= e_elmref e < 65536;
  tf_ftarget : forall ty t k e, l_tree l ty = Some t -> In (k, e) t -> is_data_type ty = false ->
               (e_elmtag e, e_elmref e) = (tag_of_type ty, e_annref e)
}.

Lemma hfind_In : forall tag ref dds d, NoDup (map ddkey dds) -> In d dds -> d_tag d = tag -> d_ref d = ref -> hfind tag ref dds = Some d.
Proof.
  induction dds as [|x t IH]; simpl; intros d ND H Ht Hr; [contradiction|]. inversion ND as [|? ? Hn ND']; subst.
  unfold hfind. simpl. destruct H as [->|H].
  - unfold dd_is. rewrite !Z.eqb_refl. reflexivity.
  - destruct (dd_is (d_tag d) (d_ref d) x) eqn:E.
    + unfold dd_is in E. apply andb_true_iff in E. destruct E as [E1 E2]. apply Z.eqb_eq in E1. apply Z.eqb_eq in E2.
      exfalso. apply Hn. replace (ddkey x) with (ddkey d) by (unfold ddkey; congruence). apply in_map. assumption.
    + apply (IH d ND' H eq_refl eq_refl).
Qed.
Lemma hfind_none : forall tag ref dds, hfind tag ref dds = None -> forall d, In d dds -> d_tag d = tag -> d_ref d = ref -> False.
Proof.
  intros tag ref dds H d Hin Ht Hr. unfold hfind in H. pose proof (find_none _ _ H d Hin) as X. unfold dd_is in X.
  rewrite Ht, Hr, !Z.eqb_refl in X. discriminate.
Qed.

Lemma uint16_decode_range : forall b0 b1, 0 <= UINT16DECODE b0 b1 < 65536.
Proof.
  intros. unfold UINT16DECODE.
  set (x := Z.shiftl (Z.land b0 255) 8 mod 65536). set (y := Z.land b1 255 mod 65536).
  assert (Hx : 0 <= x < 2 ^ 16) by (apply Z.mod_pos_bound; lia). assert (Hy : 0 <= y < 2 ^ 16) by (apply Z.mod_pos_bound; lia).
  split; [apply Z.lor_nonneg; lia|].
  destruct (Z.eq_dec (Z.lor x y) 0) as [->|N]; [lia|].
  assert (P : 0 < Z.lor x y) by (assert (0 <= Z.lor x y) by (apply Z.lor_nonneg; lia); lia).
  change 65536 with (2 ^ 16). apply (proj2 (Z.log2_lt_pow2 (Z.lor x y) 16 P)).
  rewrite Z.log2_lor by lia. apply Z.max_lub_lt.
  - destruct (Z.eq_dec x 0) as [->|]; [simpl; lia|]. apply (proj1 (Z.log2_lt_pow2 x 16 ltac:(lia))). lia.
  - destruct (Z.eq_dec y 0) as [->|]; [simpl; lia|]. apply (proj1 (Z.log2_lt_pow2 y 16 ltac:(lia))). lia.
Qed.

(** Repr only looks at the descriptors and the trees *)
Lemma Repr_ext : forall l l' x, l_dds l' = l_dds l -> l_tree l' = l_tree l -> Repr l x -> Repr l' x.
Proof. intros l l' x Hd Ht [A B]. split; [assumption|]. rewrite Hd, Ht. exact B. Qed.

(* ================= C. effect of the mfan.c routines on trees and atoms ========================================= *)
Definition tgt (ty tag : Z) (d : dd) : Z * Z := if is_data_type ty then decode_target (d_data d) else (tag, d_ref d).

Lemma load_tree_spec : forall ty tag els s s' t,
  Inv s -> (forall d, In d els -> 1 <= d_ref d <= MAX_REF) -> load_tree ty tag els s = Some s' -> l_tree s ty = Some t ->
  exists t', l_tree s' ty = Some t' /\
    (forall k e, In (k, e) t' -> In (k, e) t \/
        exists d, In d els /\ k = AN_CREATE_KEY ty (d_ref d) /\ e_annref e = d_ref d /\
                  (e_elmtag e, e_elmref e) = tgt ty tag d /\ l_next s <= e_id e) /\
    (forall k e, In (k, e) t -> In (k, e) t') /\
    (forall d, In d els -> exists e, In (AN_CREATE_KEY ty (d_ref d), e) t' /\ (e_elmtag e, e_elmref e) = tgt ty tag d) /\
    (forall id nd, zassoc id (l_atoms s') = Some nd -> zassoc id (l_atoms s) = Some nd \/ (l_next s <= id /\ n_new nd = false)) /\
    (forall id, id < l_next s -> zassoc id (l_atoms s') = zassoc id (l_atoms s)) /\ l_next s <= l_next s'.
Proof.
  induction els as [|d rest IH]; simpl; intros s s' t HI Hr H Ht.
  - inversion H; subst. exists t. split; [assumption|]. repeat split; auto; try lia; try (intros d []).
  - destruct (add_core s ty (d_ref d) _ _ false) as [[s1 id]|] eqn:E; [|discriminate].
    destruct (add_core_Inv _ _ _ _ _ _ _ _ HI (Hr d (or_introl eq_refl)) E) as [HI1 [Hid [Hd [Hn [Hto [[t0 [t1 [A [B C]]]] Hat]]]]]].
    rewrite Ht in A. inversion A; subst t0.
    destruct (IH s1 s' t1 HI1 (fun x Hx => Hr x (or_intror Hx)) H B) as [t' [Ht' [P1 [P2 [P3 [P4 [P5 P6]]]]]]].
    assert (Hnx : l_next s1 = l_next s + 1) by (unfold add_core in E; rewrite Ht in E; destruct (tins _ _ t); inversion E; subst; reflexivity).
    exists t'. split; [assumption|]. split; [|split; [|split; [|split; [|split]]]].
    + intros k e Hin. destruct (P1 k e Hin) as [X|[d0 [X1 X2]]].
      * apply (tins_In _ _ _ _ C) in X. destruct X as [X|X]; [|left; assumption].
        inversion X; subst. right. exists d. split; [left; reflexivity|]. simpl.
        repeat split; try reflexivity; try lia. unfold tgt. destruct (is_data_type ty); simpl; try reflexivity; symmetry; apply surjective_pairing.
      * right. exists d0. split; [right; assumption|]. destruct X2 as [Y1 [Y2 [Y3 Y4]]]. repeat split; auto. lia.
    + intros k e Hin. apply P2. apply (tins_In _ _ _ _ C). right. assumption.
    + intros d0 [->|Hd0]; [|apply P3; assumption].
      eexists. split; [apply P2; apply (tins_In _ _ _ _ C); left; reflexivity|]. simpl. unfold tgt. destruct (is_data_type ty); simpl; try reflexivity; symmetry; apply surjective_pairing.
    + intros i nd Hz. destruct (P4 i nd Hz) as [X|[X1 X2]].
      * rewrite Hat in X. simpl in X. destruct (i =? id) eqn:Ei; [|left; assumption].
        apply Z.eqb_eq in Ei. inversion X; subst. right. simpl. split; [lia | reflexivity].
      * right. split; [lia | assumption].
    + intros i Hi. rewrite P5 by lia. rewrite Hat. simpl. destruct (i =? id) eqn:Ei; [apply Z.eqb_eq in Ei; lia | reflexivity].
    + lia.
Qed.

Lemma tins_length : forall t k e t', tins k e t = Some t' -> length t' = S (length t).
Proof.
  induction t as [|[k' e'] r IH]; simpl; intros k e t' H.
  - inversion H; reflexivity.
  - destruct (_ =? 0); [discriminate|]. destruct (_ <? 0); [inversion H; reflexivity|].
    destruct (tins k e r) eqn:E; [|discriminate]. inversion H; subst. simpl. rewrite (IH _ _ _ E). reflexivity.
Qed.

Lemma load_tree_length : forall ty tag els s s' t, load_tree ty tag els s = Some s' -> l_tree s ty = Some t ->
  exists t', l_tree s' ty = Some t' /\ length t' = (length t + length els)%nat.
Proof.
  induction els as [|d rest IH]; simpl; intros s s' t H Ht.
  - inversion H; subst. exists t. split; [assumption | lia].
  - destruct (add_core s ty (d_ref d) _ _ false) as [[s1 id]|] eqn:E; [|discriminate].
    destruct (add_core_tree _ _ _ _ _ _ _ _ E) as [t0 [t1 [A [B [C _]]]]]. rewrite Ht in A. inversion A; subst t0.
    destruct (IH _ _ _ H B) as [t' [X Y]]. exists t'. split; [assumption|]. rewrite Y, (tins_length _ _ _ _ C). lia.
Qed.

Lemma load_tree_some : forall ty tag els s t, tyok ty -> l_tree s ty = Some t ->
  NoDup (map d_ref els) -> (forall d, In d els -> 1 <= d_ref d <= MAX_REF) ->
  (forall d k, In d els -> In k (tkeys t) -> exists r, k = AN_CREATE_KEY ty r /\ 0 <= r < 65536 /\ r <> d_ref d) ->
  exists s', load_tree ty tag els s = Some s'.
Proof.
  induction els as [|d rest IH]; simpl; intros s t Hty Ht ND Hr Hk; [eauto|].
  inversion ND as [|? ? Hn ND']; subst.
  assert (Hfresh : ~ In (AN_CREATE_KEY ty (d_ref d)) (tkeys t)).
  { intros X. destruct (Hk d _ (or_introl eq_refl) X) as [r [E [R N]]].
    pose proof (Hr d (or_introl eq_refl)) as Rd. rewrite MAX_REF_val in Rd.
    apply key_inj in E; try (unfold tyok in Hty; lia). }
  unfold add_core. rewrite Ht.
  match goal with |- context [tins ?k ?e t] => destruct (tins_some t k e Hfresh) as [t1 E1]; rewrite E1 end.
  eapply IH; [exact Hty | simpl; apply upd_same | exact ND' | intros; apply Hr; right; assumption |].
  intros d0 k Hd0 Hkin. apply (tins_keys _ _ _ _ E1) in Hkin. destruct Hkin as [->|Hkin].
  - exists (d_ref d). pose proof (Hr d (or_introl eq_refl)) as Rd. rewrite MAX_REF_val in Rd. split; [reflexivity|]. split; [lia|].
    intros X. apply Hn. rewrite X. apply in_map. assumption.
  - apply (Hk d0 k (or_intror Hd0) Hkin).
Qed.

Lemma of_tag_refs_NoDup : forall tag dds, NoDup (map ddkey dds) -> NoDup (map d_ref (of_tag tag dds)).
Proof.
  induction dds as [|x t IH]; simpl; intros ND; [constructor|]. inversion ND as [|? ? Hn ND']; subst.
  destruct (d_tag x =? tag) eqn:E; simpl; [|auto]. apply Z.eqb_eq in E. constructor; [|auto].
  intros X. apply in_map_iff in X. destruct X as [y [Ey Hy]]. apply of_tag_In in Hy. destruct Hy as [Hy Ty].
  apply Hn. replace (ddkey x) with (ddkey y) by (unfold ddkey; congruence). apply in_map. assumption.
Qed.

Definition Good (l : lstate) : Prop := Inv l /\ TF l.

Lemma tgt_target : forall ty d, d_tag d = tag_of_type ty -> tgt ty (tag_of_type ty) d = target_of ty d.
Proof. intros ty d H. unfold tgt, target_of. rewrite H. reflexivity. Qed.

Lemma target_range : forall ty d, tyok ty -> d_tag d = tag_of_type ty -> 1 <= d_ref d <= MAX_REF ->
  0 <= fst (target_of ty d) < 65536 /\ 0 <= snd (target_of ty d) < 65536.
Proof.
  intros ty d Hty Ht Hr. unfold target_of. destruct (is_data_type ty).
  - unfold decode_target. simpl. split; apply uint16_decode_range.
  - simpl. rewrite Ht. rewrite MAX_REF_val in Hr. split; [|lia]. unfold tyok in Hty.
    assert (ty = 0 \/ ty = 1 \/ ty = 2 \/ ty = 3) as [-> | [-> | [-> | ->]]] by lia; vm_compute; split; congruence.
Qed.

(** loading the tree of a type: always succeeds, changes nothing that exists *)
Lemma create_tree_Good : forall s ty s' n, Good s -> tyok ty -> ANIcreate_ann_tree s ty = (s', n) ->
  Good s' /\ n <> FAILV /\ l_dds s' = l_dds s /\ (forall x, Repr s' x <-> Repr s x) /\
  (exists t, l_tree s' ty = Some t) /\ (forall ty', ty' <> ty -> l_tree s' ty' = l_tree s ty') /\
  (forall id, id < l_next s -> zassoc id (l_atoms s') = zassoc id (l_atoms s)) /\ l_next s <= l_next s'.
Proof.
  intros s ty s' n [HI HT] Hty H.
  destruct (create_tree_Inv _ _ _ _ HI Hty H) as [HI' [Hd [_ Hoth]]].
  unfold ANIcreate_ann_tree in H. destruct (l_num s ty =? -1) eqn:En; simpl in H.
  2:{ inversion H; subst s' n. apply Z.eqb_neq in En. split; [split; assumption|].
      assert (exists t, l_tree s ty = Some t) as [t Ht].
      { destruct (l_tree s ty) eqn:E; [eauto|]. apply (inv_num _ HI) in E. contradiction. }
      split; [rewrite (tf_num _ HT _ _ Ht); unfold zlen, FAILV; lia|]. split; [reflexivity|]. split; [intros; tauto|].
      split; [eauto|]. split; [auto|]. split; [auto | lia]. }
  apply Z.eqb_eq in En. assert (Hnone : l_tree s ty = None) by (apply (inv_num _ HI); assumption).
  destruct (proj2 (atype2tag_iff ty (tag_of_type ty)) (conj Hty eq_refl)) as []. 
  assert (Et : atype2tag ty = Some (tag_of_type ty)) by (apply atype2tag_iff; auto). rewrite Et in H.
  set (tag := tag_of_type ty) in *. set (els := of_tag tag (l_dds s)) in *.
  set (s0 := set_tree s ty (Some []) 0) in *.
  pose proof (Inv_open_tree s ty HI Hty Hnone) as HI0.
  assert (Hels : forall d, In d els -> 1 <= d_ref d <= MAX_REF) by (intros d Hd0; apply (inv_refs _ HI); apply (of_tag_In _ _ _ Hd0)).
  destruct (load_tree_some ty tag els s0 [] Hty) as [s1 El]; [simpl; apply upd_same | apply of_tag_refs_NoDup; apply (tf_nodup _ HT) | exact Hels | intros d k _ []|].
  rewrite El in H. inversion H; subst s' n; clear H.
  destruct (load_tree_spec ty tag els s0 s1 [] HI0 Hels El) as [t' [Ht' [P1 [P2 [P3 [P4 [P5 P6]]]]]]]; [simpl; apply upd_same|].
  destruct (load_tree_length _ _ _ _ _ [] El) as [t'' [Ht'' Hlen]]; [simpl; apply upd_same|]. rewrite Ht' in Ht''. inversion Ht''; subst t''.
  destruct (load_tree_Inv _ _ _ _ _ HI0 Hels El) as [HI1 [Hd1 [Hn1 Ht1]]].
  assert (Htree : forall ty', l_tree (set_tree s1 ty (l_tree s1 ty) (zlen els)) ty' = l_tree s1 ty').
  { intros ty'. simpl. unfold upd. destruct (ty' =? ty) eqn:E; [apply Z.eqb_eq in E; subst|]; reflexivity. }
  assert (Hothers : forall ty', ty' <> ty -> l_tree s1 ty' = l_tree s ty').
  { intros ty' N. rewrite Ht1 by assumption. simpl. apply upd_other. assumption. }
  assert (Hentry_dd : forall k e, In (k, e) t' -> exists d, In d (l_dds s) /\ d_tag d = tag /\ d_ref d = e_annref e /\
                        k = AN_CREATE_KEY ty (d_ref d) /\ (e_elmtag e, e_elmref e) = target_of ty d).
  { intros k e Hin. destruct (P1 k e Hin) as [[]|[d [Hd0 [K [R [T _]]]]]]. apply of_tag_In in Hd0. destruct Hd0 as [A B].
    exists d. repeat split; auto. rewrite <- (tgt_target ty d B). exact T. }
  assert (TF' : TF (set_tree s1 ty (l_tree s1 ty) (zlen els))).
  { constructor; simpl; rewrite ?Hd1; simpl.
    - apply (tf_nodup _ HT).
    - apply (tf_len _ HT).
    - apply (tf_tags _ HT).
    - intros ty' t0 d Htr Hd0 Hg. change (upd (l_tree s1) ty (l_tree s1 ty) ty') with (l_tree (set_tree s1 ty (l_tree s1 ty) (zlen els)) ty') in Htr.
      rewrite Htree in Htr. destruct (Z.eq_dec ty' ty) as [->|N].
      + rewrite Ht' in Htr. inversion Htr; subst t0. destruct (P3 d) as [e [A B]].
        { unfold els, of_tag. apply filter_In. split; [assumption | apply Z.eqb_eq; assumption]. }
        exists e. split; [assumption|]. rewrite <- (tgt_target ty d Hg). exact B.
      + rewrite Hothers in Htr by assumption. apply (tf_file _ HT ty' t0 d Htr Hd0 Hg).
    - intros ty' t0 k e nd Htr Hin Hz Hnew.
      change (upd (l_tree s1) ty (l_tree s1 ty) ty') with (l_tree (set_tree s1 ty (l_tree s1 ty) (zlen els)) ty') in Htr.
      rewrite Htree in Htr. destruct (Z.eq_dec ty' ty) as [->|N].
      + rewrite Ht' in Htr. inversion Htr; subst t0. destruct (Hentry_dd k e Hin) as [d [A [B [C _]]]]. exists d. auto.
      + rewrite Hothers in Htr by assumption.
        destruct (inv_tree _ HI ty' t0 Htr) as [_ [_ Hent]]. destruct (Hent k e Hin) as [_ [_ [nd0 [Z0 _]]]].
        pose proof (inv_ids _ HI _ _ (zassoc_In _ _ _ _ Z0)) as Hlt.
        rewrite P5 in Hz by (simpl; lia). simpl in Hz. apply (tf_old _ HT ty' t0 k e nd Htr Hin Hz Hnew).
    - intros ty' t0 Htr. change (upd (l_tree s1) ty (l_tree s1 ty) ty') with (l_tree (set_tree s1 ty (l_tree s1 ty) (zlen els)) ty') in Htr.
      rewrite Htree in Htr. unfold upd. destruct (ty' =? ty) eqn:E.
      + apply Z.eqb_eq in E. subst ty'. rewrite Ht' in Htr. inversion Htr; subst t0. unfold zlen. rewrite Hlen. simpl. reflexivity.
      + apply Z.eqb_neq in E. rewrite Hn1. simpl. rewrite upd_other by assumption. rewrite Hothers in Htr by assumption.
        apply (tf_num _ HT _ _ Htr).
    - intros ty' t0 k e Htr Hin. change (upd (l_tree s1) ty (l_tree s1 ty) ty') with (l_tree (set_tree s1 ty (l_tree s1 ty) (zlen els)) ty') in Htr.
      rewrite Htree in Htr. destruct (Z.eq_dec ty' ty) as [->|N].
      + rewrite Ht' in Htr. inversion Htr; subst t0. destruct (Hentry_dd k e Hin) as [d [A [B [C [_ T]]]]].
        pose proof (target_range ty d Hty B (inv_refs _ HI d A)) as R. rewrite <- T in R. exact R.
      + rewrite Hothers in Htr by assumption. apply (tf_range _ HT ty' t0 k e Htr Hin).
    - intros ty' t0 k e Htr Hin Hnd. change (upd (l_tree s1) ty (l_tree s1 ty) ty') with (l_tree (set_tree s1 ty (l_tree s1 ty) (zlen els)) ty') in Htr.
      rewrite Htree in Htr. destruct (Z.eq_dec ty' ty) as [->|N].
      + rewrite Ht' in Htr. inversion Htr; subst t0. destruct (Hentry_dd k e Hin) as [d [A [B [C [_ T]]]]].
        rewrite T. unfold target_of. rewrite Hnd. rewrite B, C. reflexivity.
      + rewrite Hothers in Htr by assumption. apply (tf_ftarget _ HT ty' t0 k e Htr Hin Hnd). }
  split; [split; assumption|]. split; [unfold zlen, FAILV; lia|]. split; [assumption|].
  split.
  { intros [[xt xr] xg xf xtx]. unfold Repr. cbn [a_key a_text a_ttag a_tref fst snd]. rewrite Hd. destruct (Z.eq_dec xt ty) as [E|N].
    - subst xt. split; intros [[A R] [B|[B1 [B2 [t0 [e [C1 [C2 C3]]]]]]]]; (split; [split; assumption|]); try (left; exact B); exfalso.
      + rewrite Htree, Ht' in C1. inversion C1; subst t0. destruct (Hentry_dd _ _ C2) as [d [D1 [D2 [D3 [D4 _]]]]].
        pose proof (inv_refs _ HI d D1) as Rd. rewrite MAX_REF_val in *.
        apply key_inj in D4; try (unfold tyok in Hty; lia). destruct D4 as [_ D4].
        apply (hfind_none _ _ _ B2 d D1 D2). symmetry. exact D4.
      + rewrite Hnone in C1. discriminate.
    - rewrite Htree, Hothers by assumption. tauto. }
  split; [exists t'; rewrite Htree; assumption|]. split; [intros ty' N; rewrite Htree; apply Hothers; assumption|].
  split; [intros id Hid; simpl; apply P5; simpl; assumption | simpl; simpl in P6; assumption].
Qed.

Lemma ANIaddentry_spec : forall s ty annref etag eref new s' id,
  Inv s -> 1 <= annref <= MAX_REF -> l_num s ty <> -1 ->
  ~ In annref (tree_refs (match l_tree s ty with Some t => t | None => [] end)) ->
  atype2tag ty = Some (tag_of_type ty) ->
  ANIaddentry s ty annref etag eref new = (s', id) ->
  let tg := if is_data_type ty then (etag, eref) else (tag_of_type ty, annref) in
  id = l_next s /\ 0 <= id /\
  (exists t t', l_tree s ty = Some t /\ l_tree s' ty = Some t' /\
     tins (AN_CREATE_KEY ty annref) (mkentry id annref (fst tg) (snd tg)) t = Some t') /\
  (forall ty', ty' <> ty -> l_tree s' ty' = l_tree s ty' /\ l_num s' ty' = l_num s ty') /\
  l_num s' ty = l_num s ty + 1 /\
  l_atoms s' = (id, mknode (AN_CREATE_KEY ty annref) new) :: l_atoms s /\ l_dds s' = l_dds s /\ l_next s' = id + 1.
Proof.
  intros s ty annref etag eref new s' id HI Hr Hnum Hfresh Et H. unfold ANIaddentry in H.
  destruct (l_num s ty =? -1) eqn:E; [apply Z.eqb_eq in E; congruence|]. clear E. rewrite Et in H.
  pose proof (atype2tag_ok _ _ Et) as Hty.
  match type of H with context [add_core s ty annref ?a ?b new] => destruct (add_core s ty annref a b new) as [[s2 id2]|] eqn:Ea end.
  - inversion H; subst s' id; clear H.
    destruct (add_core_Inv _ _ _ _ _ _ _ _ HI Hr Ea) as [HI2 [Hid [Hd [Hn [Ht [[t [t' [A [B C]]]] Hat]]]]]].
    assert (Hnx : l_next s2 = l_next s + 1) by (unfold add_core in Ea; rewrite A in Ea; destruct (tins _ _ t); inversion Ea; subst; reflexivity).
    split; [assumption|]. split; [subst; apply (inv_next _ HI)|].
    split; [exists t, t'; split; [assumption|]; split; [simpl; rewrite upd_same; assumption | exact C]|].
    split; [intros ty' N; simpl; rewrite !upd_other by assumption; split; [apply Ht; assumption | apply Hn]|].
    split; [simpl; rewrite upd_same; rewrite Hn; reflexivity|]. split; [simpl; assumption|]. split; [simpl; assumption | simpl; lia].
  - exfalso. unfold add_core in Ea. destruct (l_tree s ty) as [t|] eqn:Etr.
    + match type of Ea with context [tins ?k ?e t] => destruct (tins_some t k e) as [t' Hs] end.
      * intros Hin. destruct (tkeys_refs _ _ _ _ HI Etr Hin) as [r [Hr1 [Hk Hr2]]].
        rewrite MAX_REF_val in *. apply key_inj in Hk; try (unfold tyok in Hty; lia). destruct Hk; subst. auto.
      * rewrite Hs in Ea. discriminate.
    + apply (inv_num _ HI) in Etr. congruence.
Qed.

Lemma ANid2tagref_spec : forall l id ty ref, Inv l ->
  (ANid2tagref l id = Some (tag_of_type ty, ref) /\ tyok ty <->
   exists nd, zassoc id (l_atoms l) = Some nd /\ AN_KEY2TYPE (n_key nd) = ty /\ AN_KEY2REF (n_key nd) = ref /\ tyok ty).
Proof.
  intros l id ty ref HI. unfold ANid2tagref. destruct (zassoc id (l_atoms l)) as [nd|] eqn:Ez.
  - destruct (switches_agree (AN_KEY2TYPE (n_key nd))) as [S1 _]. rewrite S1.
    destruct (atype2tag (AN_KEY2TYPE (n_key nd))) as [g|] eqn:Eg.
    + apply atype2tag_iff in Eg. destruct Eg as [T ->]. split.
      * intros [H Hty]. inversion H. exists nd. split; [reflexivity|]. split; [symmetry; apply tag_of_type_inj; auto|]. auto.
      * intros [nd' [H [A [B C]]]]. inversion H; subst nd'. subst. auto.
    + split; [intros [H _]; discriminate|]. intros [nd' [H [A [B C]]]]. inversion H; subst nd'.
      rewrite A in Eg. rewrite (proj2 (atype2tag_iff ty _) (conj C eq_refl)) in Eg. discriminate.
  - split; [intros [H _]; discriminate | intros [nd' [H _]]; discriminate].
Qed.

Lemma not_in_refs_hfind : forall tag ref dds, ~ In ref (map d_ref (of_tag tag dds)) -> hfind tag ref dds = None.
Proof.
  intros tag ref dds H. unfold hfind. destruct (find (dd_is tag ref) dds) as [d|] eqn:E; [|reflexivity].
  exfalso. apply H. apply find_some in E. destruct E as [A B]. unfold dd_is in B. apply andb_true_iff in B.
  destruct B as [B1 B2]. apply Z.eqb_eq in B1. apply Z.eqb_eq in B2. rewrite <- B2. apply in_map. unfold of_tag.
  apply filter_In. split; [assumption | apply Z.eqb_eq; assumption].
Qed.

Lemma tag_of_type_range : forall ty, tyok ty -> 0 <= tag_of_type ty < 65536.
Proof. intros ty H. unfold tyok in H. assert (ty = 0 \/ ty = 1 \/ ty = 2 \/ ty = 3) as [-> | [-> | [-> | ->]]] by lia; vm_compute; split; congruence. Qed.

Definition new_ann (ty ref etag eref : Z) : ann :=
  mkann (ty, ref) (if is_data ty then etag else tag_of_type ty) (if is_data ty then eref else ref) None.

Lemma ANIcreate_sim : forall s etag eref ty s' id, Good s -> 0 <= etag < 65536 -> 0 <= eref < 65536 ->
  ANIcreate s etag eref ty = (s', id) ->
  Good s' /\ l_dds s' = l_dds s /\
  (forall id0 tr, ANid2tagref s id0 = Some tr -> ANid2tagref s' id0 = Some tr) /\
  (forall ty' t, l_tree s ty' = Some t -> exists t', l_tree s' ty' = Some t') /\
  ((id = FAILV /\ (forall x, Repr s' x <-> Repr s x) /\
    (~ tyok ty \/ (is_data ty = true /\ (etag = 0 \/ eref = 0)) \/ (tyok ty /\ exists s1, ANInewref s1 ty (tag_of_type ty) = 0)))
   \/ (id <> FAILV /\ tyok ty /\ (is_data ty = true -> etag <> 0 /\ eref <> 0) /\ exists ref, 1 <= ref <= MAX_REF /\
       ANid2tagref s' id = Some (tag_of_type ty, ref) /\
       (forall x, a_key x = (ty, ref) -> ~ Repr s x) /\
       (forall x, Repr s' x <-> Repr s x \/ x = new_ann ty ref etag eref))).
Proof.
  intros s etag eref ty s' id HG Het Her H. unfold ANIcreate in H.
  destruct (atype2tag ty) as [tag|] eqn:Et.
  2:{ inversion H; subst s' id. split; [assumption|]. split; [reflexivity|]. split; [auto|]. split; [eauto|].
      left. split; [reflexivity|]. split; [tauto|]. left. intros T. rewrite (proj2 (atype2tag_iff ty _) (conj T eq_refl)) in Et. discriminate. }
  apply atype2tag_iff in Et. destruct Et as [Hty ->]. set (tag := tag_of_type ty) in *.
  assert (Hload : exists s1 n, (if l_num s ty =? -1 then ANIcreate_ann_tree s ty else (s, 0)) = (s1, n) /\
            Good s1 /\ n <> FAILV /\ l_dds s1 = l_dds s /\ (forall x, Repr s1 x <-> Repr s x) /\ (exists t, l_tree s1 ty = Some t) /\
            (forall ty', ty' <> ty -> l_tree s1 ty' = l_tree s ty') /\
            (forall i, i < l_next s -> zassoc i (l_atoms s1) = zassoc i (l_atoms s)) /\ l_next s <= l_next s1).
  { destruct (l_num s ty =? -1) eqn:En.
    - destruct (ANIcreate_ann_tree s ty) as [s1 n] eqn:Ec. exists s1, n. split; [reflexivity|].
      destruct (create_tree_Good _ _ _ _ HG Hty Ec) as [A [B [C [D [E [F [G1 G2]]]]]]].
      split; [exact A|]. split; [exact B|]. split; [exact C|]. split; [exact D|]. split; [exact E|]. split; [exact F|]. split; [exact G1 | exact G2].
    - exists s, 0. split; [reflexivity|]. split; [assumption|]. split; [unfold FAILV; lia|]. split; [reflexivity|]. split; [tauto|].
      apply Z.eqb_neq in En. split; [|split; [auto|split; [auto|lia]]].
      destruct (l_tree s ty) eqn:E; [eauto|]. apply (inv_num _ (proj1 HG)) in E. contradiction. }
  destruct Hload as [s1 [n [E1 [[HI1 HT1] [Hn [Hd1 [HR1 [[t1 Ht1] [Hoth1 [Hat1 Hnx1]]]]]]]]]]. rewrite E1 in H.
  destruct (n =? FAILV) eqn:En; [apply Z.eqb_eq in En; contradiction|]. clear En.
  assert (Hids1 : forall id0 tr, ANid2tagref s id0 = Some tr -> ANid2tagref s1 id0 = Some tr).
  { intros id0 tr X. unfold ANid2tagref in *. destruct (zassoc id0 (l_atoms s)) as [nd|] eqn:Ez; [|discriminate].
    pose proof (inv_ids _ (proj1 HG) _ _ (zassoc_In _ _ _ _ Ez)) as Hlt. rewrite Hat1 by lia. rewrite Ez. exact X. }
  assert (Htrees1 : forall ty' t, l_tree s ty' = Some t -> exists t', l_tree s1 ty' = Some t').
  { intros ty' t X. destruct (Z.eq_dec ty' ty) as [->|N]; [eauto|]. rewrite Hoth1 by assumption. eauto. }
  remember (ANInewref s1 ty tag) as annref eqn:Er.
  set (tg := if is_data_type ty then (etag, eref) else (tag, annref)) in *.
  match type of H with (if ?c then _ else _) = _ => destruct c eqn:Ez end.
  { inversion H; subst s' id. split; [split; assumption|]. split; [assumption|]. split; [assumption|]. split; [assumption|].
    left. split; [reflexivity|]. split; [assumption|].
    apply orb_true_iff in Ez. destruct Ez as [Ez|Ez]; [apply orb_true_iff in Ez; destruct Ez as [Ez|Ez]|].
    - apply Z.eqb_eq in Ez. right. right. split; [assumption|]. exists s1. congruence.
    - unfold tg in Ez. rewrite is_data_same in Ez. destruct (is_data ty) eqn:Ed; simpl in Ez.
      + apply Z.eqb_eq in Ez. right. left. auto.
      + apply Z.eqb_eq in Ez. pose proof (tag_of_type_range ty Hty). unfold tag in Ez.
        exfalso. unfold tyok in Hty. assert (ty = 0 \/ ty = 1 \/ ty = 2 \/ ty = 3) as [-> | [-> | [-> | ->]]] by lia; vm_compute in Ez; discriminate.
    - unfold tg in Ez. rewrite is_data_same in Ez. destruct (is_data ty) eqn:Ed; simpl in Ez.
      + apply Z.eqb_eq in Ez. right. left. auto.
      + apply Z.eqb_eq in Ez. right. right. split; [assumption|]. exists s1. congruence. }
  apply orb_false_iff in Ez. destruct Ez as [Ez Ez3]. apply orb_false_iff in Ez. destruct Ez as [Ez1 Ez2].
  apply Z.eqb_neq in Ez1. apply Z.eqb_neq in Ez2. apply Z.eqb_neq in Ez3.
  destruct (ANInewref_fresh _ _ _ _ (eq_sym Er) Ez1) as [Hr [Hf Hff]].
  assert (Hnum1 : l_num s1 ty <> -1) by (intros X; apply (inv_num _ HI1) in X; congruence).
  assert (Et' : atype2tag ty = Some (tag_of_type ty)) by (apply atype2tag_iff; auto).
  destruct (ANIaddentry_spec _ _ _ _ _ _ _ _ HI1 Hr Hnum1 Hf Et' H) as [Hid [Hid0 [[t [t' [A [B C]]]] [Hoth [Hnum' [Hat [Hd' Hnx']]]]]]].
  destruct (ANIaddentry_Inv _ _ _ _ _ _ _ _ HI1 Hr Hnum1 Hf H) as [HI' _].
  rewrite Ht1 in A. inversion A; subst t.
  assert (Htg2 : (if is_data_type ty then (fst tg, snd tg) else (tag_of_type ty, annref)) = tg) by (unfold tg, tag; destruct (is_data_type ty); reflexivity).
  rewrite Htg2 in C.
  assert (Htg : tg = (if is_data ty then etag else tag, if is_data ty then eref else annref)).
  { unfold tg. rewrite is_data_same. destruct (is_data ty); reflexivity. }
  assert (Htgr : 0 <= fst tg < 65536 /\ 0 <= snd tg < 65536).
  { rewrite Htg. rewrite MAX_REF_val in Hr. pose proof (tag_of_type_range ty Hty). destruct (is_data ty); simpl; unfold tag; lia. }
  assert (Hold_atoms : forall i nd, zassoc i (l_atoms s1) = Some nd -> zassoc i (l_atoms s') = Some nd).
  { intros i nd X. rewrite Hat. simpl. pose proof (inv_ids _ HI1 _ _ (zassoc_In _ _ _ _ X)). destruct (i =? id) eqn:Ei; [apply Z.eqb_eq in Ei; lia | assumption]. }
  assert (Hhf : hfind tag annref (l_dds s1) = None) by (apply not_in_refs_hfind; assumption).
  assert (HT' : TF s').
  { constructor; rewrite ?Hd'.
    - apply (tf_nodup _ HT1). - apply (tf_len _ HT1). - apply (tf_tags _ HT1).
    - intros ty' t0 d Htr Hd0 Hg. destruct (Z.eq_dec ty' ty) as [->|N].
      + rewrite B in Htr. inversion Htr; subst t0. destruct (tf_file _ HT1 ty t1 d Ht1 Hd0 Hg) as [e [X Y]].
        exists e. split; [apply (tins_In _ _ _ _ C); right; assumption | assumption].
      + destruct (Hoth ty' N) as [X _]. rewrite X in Htr. apply (tf_file _ HT1 ty' t0 d Htr Hd0 Hg).
    - intros ty' t0 k e nd Htr Hin Hz Hnew. destruct (Z.eq_dec ty' ty) as [->|N].
      + rewrite B in Htr. inversion Htr; subst t0. apply (tins_In _ _ _ _ C) in Hin. destruct Hin as [Hin|Hin].
        * inversion Hin; subst. simpl in Hz. rewrite Hat in Hz. simpl in Hz. rewrite Z.eqb_refl in Hz. inversion Hz; subst. discriminate.
        * destruct (inv_tree _ HI1 ty t1 Ht1) as [_ [_ Hent]]. destruct (Hent _ _ Hin) as [_ [_ [nd0 [Z0 _]]]].
          rewrite (Hold_atoms _ _ Z0) in Hz. inversion Hz; subst nd0. apply (tf_old _ HT1 ty t1 k e nd Ht1 Hin Z0 Hnew).
      + destruct (Hoth ty' N) as [X _]. rewrite X in Htr.
        destruct (inv_tree _ HI1 ty' t0 Htr) as [_ [_ Hent]]. destruct (Hent _ _ Hin) as [_ [_ [nd0 [Z0 _]]]].
        rewrite (Hold_atoms _ _ Z0) in Hz. inversion Hz; subst nd0. apply (tf_old _ HT1 ty' t0 k e nd Htr Hin Z0 Hnew).
    - intros ty' t0 Htr. destruct (Z.eq_dec ty' ty) as [->|N].
      + rewrite B in Htr. inversion Htr; subst t0. rewrite Hnum', (tf_num _ HT1 _ _ Ht1). unfold zlen. rewrite (tins_length _ _ _ _ C). lia.
      + destruct (Hoth ty' N) as [X Y]. rewrite X in Htr. rewrite Y. apply (tf_num _ HT1 _ _ Htr).
    - intros ty' t0 k e Htr Hin. destruct (Z.eq_dec ty' ty) as [->|N].
      + rewrite B in Htr. inversion Htr; subst t0. apply (tins_In _ _ _ _ C) in Hin. destruct Hin as [Hin|Hin].
        * inversion Hin; subst. simpl. exact Htgr.
        * apply (tf_range _ HT1 ty t1 k e Ht1 Hin).
      + destruct (Hoth ty' N) as [X _]. rewrite X in Htr. apply (tf_range _ HT1 ty' t0 k e Htr Hin).
    - intros ty' t0 k e Htr Hin Hnd. destruct (Z.eq_dec ty' ty) as [->|N].
      + rewrite B in Htr. inversion Htr; subst t0. apply (tins_In _ _ _ _ C) in Hin. destruct Hin as [Hin|Hin].
        * inversion Hin; subst. cbn [e_elmtag e_elmref e_annref]. unfold tg. rewrite Hnd. reflexivity.
        * apply (tf_ftarget _ HT1 ty t1 k e Ht1 Hin Hnd).
      + destruct (Hoth ty' N) as [X _]. rewrite X in Htr. apply (tf_ftarget _ HT1 ty' t0 k e Htr Hin Hnd). }
  split; [split; assumption|]. split; [congruence|].
  split.
  { intros id0 tr X. apply Hids1 in X. unfold ANid2tagref in *. destruct (zassoc id0 (l_atoms s1)) as [nd|] eqn:Ez; [|discriminate].
    rewrite (Hold_atoms _ _ Ez). exact X. }
  split.
  { intros ty' t0 X. destruct (Htrees1 _ _ X) as [t2 Y]. destruct (Z.eq_dec ty' ty) as [->|N]; [eauto|].
    destruct (Hoth ty' N) as [Z1 _]. rewrite Z1. eauto. }
  right. split; [unfold FAILV; lia|]. split; [assumption|].
  split.
  { intros Hd0. rewrite Htg in Ez2, Ez3. rewrite Hd0 in Ez2, Ez3. simpl in *. auto. }
  exists annref. split; [assumption|].
  rewrite MAX_REF_val in Hr.
  split.
  { apply (ANid2tagref_spec s' id ty annref HI'). eexists. rewrite Hat. simpl. rewrite Z.eqb_refl. split; [reflexivity|]. simpl.
    split; [apply key_type | split; [apply key_ref | assumption]]; unfold tyok in Hty; lia. }
  split.
  { intros x Hk Hx. apply HR1 in Hx. destruct x as [[xt xr] xg xf xtx]. simpl in Hk. inversion Hk; subst xt xr.
    destruct Hx as [_ [[d [D1 [D2 [D3 _]]]]|[_ [_ [t0 [e [C1 [C2 _]]]]]]]]; simpl in *.
    - apply Hff. rewrite <- D3. apply in_map. unfold of_tag. apply filter_In. split; [assumption | apply Z.eqb_eq; assumption].
    - rewrite Ht1 in C1. inversion C1; subst t0. apply Hf. rewrite Ht1. unfold tree_refs. apply in_map_iff. exists (AN_CREATE_KEY ty annref, e).
      split; [|assumption]. simpl. destruct (inv_tree _ HI1 ty t1 Ht1) as [_ [_ Hent]]. destruct (Hent _ _ C2) as [R1 [R2 _]].
      rewrite MAX_REF_val in R1. apply key_inj in R2; try (unfold tyok in Hty; lia). }
  intros [[xt xr] xg xf xtx]. rewrite <- HR1. unfold Repr, new_ann. cbn [a_key a_text a_ttag a_tref fst snd]. rewrite Hd'. split.
  - intros [[T R] [X|[X1 [X2 [t0 [e [C1 [C2 C3]]]]]]]]; [left; split; [auto | left; exact X]|].
    destruct (Z.eq_dec xt ty) as [->|N].
    + rewrite B in C1. inversion C1; subst t0. apply (tins_In _ _ _ _ C) in C2. destruct C2 as [C2|C2].
      * right. inversion C2 as [[K E0]]. rewrite MAX_REF_val in R. apply key_inj in K; try (unfold tyok in Hty; lia). destruct K as [_ K].
        subst xr e. simpl in C3. rewrite Htg in C3. simpl in C3. inversion C3. subst. reflexivity.
      * left. split; [auto|]. right. split; [assumption|]. split; [assumption|]. exists t1, e. auto.
    + left. split; [auto|]. right. split; [assumption|]. split; [assumption|]. exists t0, e. destruct (Hoth xt N) as [Z1 _]. rewrite <- Z1. auto.
  - intros [[[T R] [X|[X1 [X2 [t0 [e [C1 [C2 C3]]]]]]]]|X].
    + split; [auto|]. left. exact X.
    + split; [auto|]. right. split; [assumption|]. split; [assumption|]. destruct (Z.eq_dec xt ty) as [->|N].
      * rewrite Ht1 in C1. inversion C1; subst t0. exists t', e. split; [assumption|]. split; [apply (tins_In _ _ _ _ C); right; assumption | assumption].
      * exists t0, e. destruct (Hoth xt N) as [Z1 _]. rewrite Z1. auto.
    + inversion X; subst. split; [split; [assumption | rewrite MAX_REF_val; lia]|]. right. split; [reflexivity|]. split; [exact Hhf|].
      exists t'. eexists. split; [assumption|]. split; [apply (tins_In _ _ _ _ C); left; reflexivity|]. simpl. rewrite Htg. reflexivity.
Qed.

Lemma hput_In : forall tag ref data dds d, NoDup (map ddkey dds) ->
  (In d (hput tag ref data dds) <-> d = mkdd tag ref data \/ (In d dds /\ ddkey d <> (tag, ref))).
Proof.
  induction dds as [|x t IH]; simpl; intros d ND.
  - split; [intros [H|[]]; auto | intros [H|[[] _]]; auto].
  - inversion ND as [|? ? Hn ND']; subst. destruct (dd_is tag ref x) eqn:E; simpl.
    + unfold dd_is in E. apply andb_true_iff in E. destruct E as [E1 E2]. apply Z.eqb_eq in E1. apply Z.eqb_eq in E2.
      assert (Kx : ddkey x = (tag, ref)) by (unfold ddkey; congruence). split.
      * intros [H|H]; [auto|]. right. split; [auto|]. intros K. apply Hn. rewrite Kx, <- K. apply in_map. assumption.
      * intros [H|[[H|H] N]]; [auto | subst; contradiction | auto].
    + assert (Kx : ddkey x <> (tag, ref)).
      { intros K. unfold ddkey in K. inversion K. unfold dd_is in E. rewrite H0, H1, !Z.eqb_refl in E. discriminate. }
      rewrite (IH d ND'). split.
      * intros [H|[H|[H N]]]; [subst; auto | auto | auto].
      * intros [H|[[H|H] N]]; [auto | auto | auto].
Qed.

Lemma hput_keys_NoDup : forall tag ref data dds, NoDup (map ddkey dds) -> NoDup (map ddkey (hput tag ref data dds)).
Proof.
  intros tag ref data dds ND. unfold ddkey. rewrite hput_order. destruct (hfind tag ref dds) eqn:E; [assumption|].
  apply NoDup_app_one; [assumption|]. intros X. apply in_map_iff in X. destruct X as [d [K Hd]]. inversion K.
  apply (hfind_none _ _ _ E d Hd); assumption.
Qed.

Lemma payload_len4 : forall tag etag eref txt, is_data_tag tag = true -> 4 <= zlen (payload tag etag eref txt).
Proof. intros. unfold payload, zlen, encode_target. rewrite H. rewrite app_length. cbn [length]. lia. Qed.

Lemma Repr_key_target : forall s ty ref t e y, Good s -> l_tree s ty = Some t -> In (AN_CREATE_KEY ty ref, e) t ->
  Repr s y -> a_key y = (ty, ref) -> (a_ttag y, a_tref y) = (e_elmtag e, e_elmref e).
Proof.
  intros s ty ref t e [[yt yr] yg yf ytx] [HI HT] Ht Hin [_ Hy] Hk. simpl in Hk. inversion Hk; subst yt yr.
  cbn [a_key a_text a_ttag a_tref fst snd] in *.
  destruct (inv_tree _ HI ty t Ht) as [_ [Hs _]]. pose proof (tsorted_NoDup _ Hs) as ND.
  destruct Hy as [[d [D1 [D2 [D3 [D4 D5]]]]]|[_ [_ [t0 [e0 [C1 [C2 C3]]]]]]].
  - destruct (tf_file _ HT ty t d Ht D1 D2) as [e' [X Y]]. rewrite D3 in X.
    pose proof (In_tfind _ _ _ ND X) as F1. pose proof (In_tfind _ _ _ ND Hin) as F2. rewrite F1 in F2. inversion F2; subst e'. congruence.
  - rewrite Ht in C1. inversion C1; subst t0.
    pose proof (In_tfind _ _ _ ND C2) as F1. pose proof (In_tfind _ _ _ ND Hin) as F2. rewrite F1 in F2. inversion F2; subst e0. assumption.
Qed.

Lemma ANIwriteann_sim : forall s id ty ref txt s' ok, Good s -> tyok ty ->
  ANid2tagref s id = Some (tag_of_type ty, ref) -> zlen txt <> 0 ->
  ANIwriteann s id txt = (s', ok) ->
  ok = true /\ Good s' /\ (forall id', ANid2tagref s' id' = ANid2tagref s id') /\ l_tree s' = l_tree s /\
  (exists y, Repr s y /\ a_key y = (ty, ref)) /\
  (forall x, Repr s' x <->
     (exists y, Repr s y /\ a_key y = (ty, ref) /\ x = mkann (ty, ref) (a_ttag y) (a_tref y) (Some txt)) \/
     (Repr s x /\ a_key x <> (ty, ref))).
Proof.
  intros s id ty ref txt s' ok HG Hty Hid Htxt H. pose proof HG as [HI HT].
  destruct (proj1 (ANid2tagref_spec s id ty ref HI) (conj Hid Hty)) as [nd [Ez [K1 [K2 _]]]].
  destruct (inv_owner _ HI id nd Ez) as [ty2 [t [e [Ht [Hin Heid]]]]].
  destruct (inv_tree _ HI ty2 t Ht) as [Hty2 [Hs Hent]]. destruct (Hent _ _ Hin) as [Hr [Hk _]].
  pose proof Hr as Hr'. rewrite MAX_REF_val in Hr'.
  assert (ty2 = ty) by (rewrite <- K1, Hk; symmetry; apply key_type; unfold tyok in Hty2; lia). subst ty2.
  assert (Href : e_annref e = ref) by (rewrite <- K2, Hk; symmetry; apply key_ref; unfold tyok in Hty; lia).
  set (tag := tag_of_type ty) in *.
  assert (Et : atype2tag (AN_KEY2TYPE (n_key nd)) = Some tag) by (rewrite K1; apply atype2tag_iff; auto).
  pose proof (In_tfind _ _ _ (tsorted_NoDup _ Hs) Hin) as Hf.
  assert (Hin' : In (AN_CREATE_KEY ty ref, e) t) by (rewrite <- Href, <- Hk; assumption).
  unfold ANIwriteann in H. rewrite Ez, Et, K1, Ht, Hf, K2 in H.
  set (s1 := if n_new nd then set_atoms s (set_node id (mknode (n_key nd) false) (l_atoms s)) (l_next s) else s) in *.
  assert (Hreuse : negb (n_new nd) && match hfind tag ref (l_dds s) with None => true | Some _ => false end = false).
  { destruct (n_new nd) eqn:En; [reflexivity|]. simpl.
    assert (Ez' : zassoc (e_id e) (l_atoms s) = Some nd) by (rewrite Heid; assumption).
    destruct (tf_old _ HT ty t _ e nd Ht Hin Ez' En) as [d [D1 [D2 D3]]].
    rewrite (hfind_In tag ref (l_dds s) d (tf_nodup _ HT) D1 D2 (eq_trans D3 Href)). reflexivity. }
  rewrite Hreuse in H. inversion H; subst s' ok; clear H.
  assert (Hs1 : l_tree s1 = l_tree s /\ l_num s1 = l_num s /\ l_dds s1 = l_dds s /\ l_next s1 = l_next s) by (unfold s1; destruct (n_new nd); repeat split).
  destruct Hs1 as [T1 [T2 [T3 T4]]].
  assert (HI1 : Inv s1) by (unfold s1; destruct (n_new nd); [apply Inv_set_node; assumption | assumption]).
  assert (Hat1 : forall i, zassoc i (l_atoms s1) = if (i =? id) && n_new nd then Some (mknode (n_key nd) false) else zassoc i (l_atoms s)).
  { intros i. unfold s1. destruct (n_new nd); simpl; [|rewrite andb_false_r; reflexivity]. rewrite set_node_assoc, andb_true_r.
    destruct (i =? id) eqn:Ei; [apply Z.eqb_eq in Ei; subst; rewrite Ez|]; reflexivity. }
  destruct (tf_range _ HT ty t _ e Ht Hin) as [Rg1 Rg2].
  destruct (payload_roundtrip_lemma tag (e_elmtag e) (e_elmref e) txt Rg1 Rg2) as [Ptxt [Pdec Plen]].
  set (pl := payload tag (e_elmtag e) (e_elmref e) txt) in *.
  split; [destruct (zlen txt =? 0) eqn:E; [apply Z.eqb_eq in E; contradiction | reflexivity]|].
  rewrite T3. set (s2 := set_dds s1 (hput tag ref pl (l_dds s))).
  assert (Hids : forall id', ANid2tagref s2 id' = ANid2tagref s id').
  { intros id'. unfold ANid2tagref. unfold s2. cbn [l_atoms set_dds]. rewrite Hat1. destruct ((id' =? id) && n_new nd) eqn:E; [|reflexivity].
    apply andb_true_iff in E. destruct E as [E _]. apply Z.eqb_eq in E. subst id'. rewrite Ez. reflexivity. }
  assert (Hdd : forall d, In d (hput tag ref pl (l_dds s)) <-> d = mkdd tag ref pl \/ (In d (l_dds s) /\ ddkey d <> (tag, ref))).
  { intros d. apply hput_In. apply (tf_nodup _ HT). }
  assert (HI' : Inv s2).
  { apply (Inv_same_tables s1); [assumption | repeat split|]. unfold s2. cbn [l_dds set_dds]. intros d Hd. apply Hdd in Hd.
    destruct Hd as [->|[Hd _]]; [simpl; rewrite <- Href; exact Hr | apply (inv_refs _ HI); assumption]. }
  assert (Hdt : is_data_tag tag = is_data ty) by (apply is_data_tag_type; assumption).
  assert (Htarget : target_of ty (mkdd tag ref pl) = (e_elmtag e, e_elmref e)).
  { unfold target_of. cbn [d_data d_tag d_ref]. rewrite is_data_same. destruct (is_data ty) eqn:Ed.
    - apply Pdec. rewrite Hdt. reflexivity.
    - rewrite (tf_ftarget _ HT ty t _ e Ht Hin Ed). rewrite Href. reflexivity. }
  assert (Hkeyneq : forall ty' r', tyok ty' -> (ty', r') <> (ty, ref) -> (tag_of_type ty', r') <> (tag, ref)).
  { intros ty' r' T N X. inversion X. apply N. f_equal; [apply tag_of_type_inj; assumption | congruence]. }
  assert (HT' : TF s2).
  { constructor; unfold s2; cbn [l_dds l_tree l_num l_atoms set_dds]; rewrite ?T1, ?T2.
    - apply hput_keys_NoDup. apply (tf_nodup _ HT).
    - intros d Hd Hdat. apply Hdd in Hd. destruct Hd as [->|[Hd _]]; [apply payload_len4; exact Hdat | apply (tf_len _ HT); assumption].
    - intros d Hd. apply Hdd in Hd. destruct Hd as [->|[Hd _]]; [exists ty; auto | apply (tf_tags _ HT); assumption].
    - intros ty' t0 d Htr Hd Hg. apply Hdd in Hd. destruct Hd as [->|[Hd _]].
      + cbn [d_tag d_ref] in *. destruct (inv_tree _ HI ty' t0 Htr) as [Hty' _].
        assert (ty' = ty) by (apply tag_of_type_inj; auto). subst ty'. rewrite Ht in Htr. inversion Htr; subst t0.
        exists e. split; [assumption | symmetry; exact Htarget].
      + apply (tf_file _ HT ty' t0 d Htr Hd Hg).
    - intros ty' t0 k e0 nd0 Htr Hin0 Hz Hnew. destruct (inv_tree _ HI ty' t0 Htr) as [Hty' [_ Hent0]].
      destruct (Hent0 _ _ Hin0) as [R0 [K0 [nd1 [Z1 N1]]]].
      destruct (Z.eq_dec ty' ty) as [->|N]; [destruct (Z.eq_dec (e_annref e0) ref) as [E|N]|].
      + exists (mkdd tag ref pl). split; [apply Hdd; left; reflexivity|]. auto.
      + rewrite Hat1 in Hz. destruct (e_id e0 =? id) eqn:Ei.
        * apply Z.eqb_eq in Ei. exfalso. rewrite Ei, Ez in Z1. inversion Z1; subst nd1. rewrite Hk in N1. rewrite K0 in N1.
          rewrite MAX_REF_val in R0. apply key_inj in N1; try (unfold tyok in Hty; lia); try (destruct N1; congruence).
        * simpl in Hz. destruct (tf_old _ HT ty t0 k e0 nd0 Htr Hin0 Hz Hnew) as [d [D1 [D2 D3]]].
          exists d. split; [|auto]. apply Hdd. right. split; [assumption|]. unfold ddkey. rewrite D2, D3. intros X. inversion X. contradiction.
      + rewrite Hat1 in Hz. destruct (e_id e0 =? id) eqn:Ei.
        * apply Z.eqb_eq in Ei. exfalso. rewrite Ei, Ez in Z1. inversion Z1; subst nd1. rewrite Hk in N1. rewrite K0 in N1.
          rewrite MAX_REF_val in R0. apply key_inj in N1; try (unfold tyok in Hty, Hty'; lia); try (destruct N1; congruence).
        * simpl in Hz. destruct (tf_old _ HT ty' t0 k e0 nd0 Htr Hin0 Hz Hnew) as [d [D1 [D2 D3]]].
          exists d. split; [|auto]. apply Hdd. right. split; [assumption|]. unfold ddkey. rewrite D2, D3.
          apply Hkeyneq; [assumption|]. intros X. inversion X. contradiction.
    - apply (tf_num _ HT). - apply (tf_range _ HT). - apply (tf_ftarget _ HT). }
  split; [split; assumption|]. split; [exact Hids|]. split; [unfold s2; cbn [l_tree set_dds]; exact T1|].
  assert (Hy : exists y, Repr s y /\ a_key y = (ty, ref)).
  { destruct (hfind tag ref (l_dds s)) as [d0|] eqn:Eh.
    - apply hfind_some in Eh. destruct Eh as [D1 [D2 D3]].
      exists (mkann (ty, ref) (fst (target_of ty d0)) (snd (target_of ty d0)) (Some (payload_text (d_tag d0) (d_data d0)))).
      split; [|reflexivity]. split; [cbn; split; [assumption | rewrite <- Href; exact Hr]|]. left. exists d0. cbn. repeat split; auto. destruct (target_of ty d0); reflexivity.
    - exists (mkann (ty, ref) (e_elmtag e) (e_elmref e) None). split; [|reflexivity].
      split; [cbn; split; [assumption | rewrite <- Href; exact Hr]|]. right. cbn. split; [reflexivity|]. split; [exact Eh|]. exists t, e. auto. }
  split; [exact Hy|].
  intros [[xt xr] xg xf xtx]. split.
  - intros [[T R] X]. cbn [a_key a_text a_ttag a_tref fst snd] in *. unfold s2 in X. cbn [l_dds l_tree set_dds] in X. rewrite T1 in X.
    destruct X as [[d [D1 [D2 [D3 [D4 D5]]]]]|[X1 [X2 [t0 [e0 [C1 [C2 C3]]]]]]].
    + apply Hdd in D1. destruct D1 as [->|[D1 Dk]].
      * cbn [d_tag d_ref d_data] in *. assert (xt = ty) by (apply tag_of_type_inj; auto). subst xt xr.
        left. destruct Hy as [y [Y1 Y2]]. exists y. split; [assumption|]. split; [assumption|].
        pose proof (Repr_key_target s ty ref t e y HG Ht Hin' Y1 Y2) as Yt. rewrite Htarget in D5. rewrite Ptxt in D4.
        inversion D5. inversion Yt. inversion D4. congruence.
      * right. split.
        -- split; [cbn; auto|]. left. exists d. cbn. auto.
        -- cbn. intros X. inversion X. apply Dk. unfold ddkey. rewrite D2, D3, H0, H1. reflexivity.
    + assert (Nk : (xt, xr) <> (ty, ref)).
      { intros X. inversion X as [[X0 X00]]. rewrite X0, X00 in X2. fold tag in X2. rewrite (hput_same tag ref pl (l_dds s)) in X2. discriminate. }
      right. split; [|cbn; exact Nk]. split; [cbn; auto|]. right. cbn. split; [assumption|].
      split; [rewrite hput_other in X2 by (apply Hkeyneq; assumption); exact X2|]. exists t0, e0. auto.
  - intros [[y [Y1 [Y2 X]]]|[[[T R] X] Nk]]; cbn [a_key a_text a_ttag a_tref fst snd] in *.
    + inversion X; subst xt xr xg xf xtx. pose proof (Repr_key_target s ty ref t e y HG Ht Hin' Y1 Y2) as Yt.
      split; [cbn; split; [assumption | rewrite <- Href; exact Hr]|]. left. exists (mkdd tag ref pl). unfold s2. cbn.
      split; [apply Hdd; left; reflexivity|]. split; [reflexivity|]. split; [reflexivity|]. split; [rewrite Ptxt; reflexivity|].
      fold tag. change (mkdd tag ref pl) with (mkdd tag ref pl). rewrite Htarget. assumption.
    + split; [cbn; auto|]. unfold s2. cbn [l_dds l_tree set_dds]. rewrite T1.
      destruct X as [[d [D1 [D2 [D3 [D4 D5]]]]]|[X1 [X2 [t0 [e0 [C1 [C2 C3]]]]]]].
      * left. exists d. split; [|auto]. apply Hdd. right. split; [assumption|]. unfold ddkey. rewrite D2, D3. apply Hkeyneq; assumption.
      * right. split; [assumption|]. split; [rewrite hput_other by (apply Hkeyneq; assumption); exact X2|]. exists t0, e0. auto.
Qed.

(* ================= D. ANend, loading on demand, and what a loaded tree lists ================================ *)
Lemma ANend_Good : forall s, Good s -> Good (ANend s) /\ l_dds (ANend s) = l_dds s /\ (forall ty, l_tree (ANend s) ty = None) /\
  l_atoms (ANend s) = [] /\
  (forall x, Repr (ANend s) x <-> Repr s x /\ a_text x <> None).
Proof.
  intros s [HI HT]. pose proof (ANend_Inv s HI) as HI'.
  assert (Hat : l_atoms (ANend s) = []).
  { destruct (l_atoms (ANend s)) as [|[i nd] r] eqn:E; [reflexivity|]. exfalso.
    assert (Z0 : zassoc i (l_atoms (ANend s)) = Some nd) by (rewrite E; simpl; rewrite Z.eqb_refl; reflexivity).
    destruct (inv_owner _ HI' i nd Z0) as [ty [t [e [A _]]]]. simpl in A. discriminate. }
  split; [split; [assumption|]|].
  - constructor; simpl; try discriminate.
    + apply (tf_nodup _ HT). + apply (tf_len _ HT). + apply (tf_tags _ HT).
  - split; [reflexivity|]. split; [reflexivity|]. split; [assumption|].
    intros x. unfold Repr. simpl. split.
    + intros [A [B|[_ [_ [t [e [C _]]]]]]]; [|discriminate]. split; [split; [assumption | left; assumption]|].
      destruct B as [d [_ [_ [_ [B _]]]]]. rewrite B. discriminate.
    + intros [[A [B|[B _]]] N]; [split; [assumption | left; assumption] | contradiction].
Qed.

Lemma ids_preserved : forall s s', Inv s -> (forall i, i < l_next s -> zassoc i (l_atoms s') = zassoc i (l_atoms s)) ->
  forall id tr, ANid2tagref s id = Some tr -> ANid2tagref s' id = Some tr.
Proof.
  intros s s' HI H id tr X. unfold ANid2tagref in *. destruct (zassoc id (l_atoms s)) as [nd|] eqn:Ez; [|discriminate].
  pose proof (inv_ids _ HI _ _ (zassoc_In _ _ _ _ Ez)). rewrite H by lia. rewrite Ez. exact X.
Qed.

Lemma need_tree_Good : forall s ty s1 r, Good s -> tyok ty -> need_tree s ty = (s1, r) ->
  Good s1 /\ (exists t, r = Some t /\ l_tree s1 ty = Some t) /\ l_dds s1 = l_dds s /\ (forall x, Repr s1 x <-> Repr s x) /\
  (forall id tr, ANid2tagref s id = Some tr -> ANid2tagref s1 id = Some tr) /\
  (forall ty' t, l_tree s ty' = Some t -> l_tree s1 ty' = Some t) /\ l_next s <= l_next s1.
Proof.
  intros s ty s1 r HG Hty H. unfold need_tree in H. destruct (l_num s ty =? -1) eqn:En.
  - destruct (ANIcreate_ann_tree s ty) as [s2 n] eqn:Ec.
    destruct (create_tree_Good _ _ _ _ HG Hty Ec) as [A [B [C [D [[t E] [F [G1 G2]]]]]]].
    destruct (n =? FAILV) eqn:Ef; [apply Z.eqb_eq in Ef; contradiction|]. inversion H; subst s1 r.
    split; [assumption|]. split; [exists t; auto|]. split; [assumption|]. split; [assumption|].
    split; [apply (ids_preserved s s2 (proj1 HG) G1)|]. split; [|assumption].
    intros ty' t0 X. destruct (Z.eq_dec ty' ty) as [->|N]; [|rewrite F by assumption; assumption].
    apply Z.eqb_eq in En. apply (inv_num _ (proj1 HG)) in En. congruence.
  - simpl in H. inversion H; subst s1 r. apply Z.eqb_neq in En.
    assert (exists t, l_tree s ty = Some t) as [t Ht].
    { destruct (l_tree s ty) eqn:E; [eauto|]. apply (inv_num _ (proj1 HG)) in E. contradiction. }
    split; [assumption|]. split; [exists t; auto|]. split; [reflexivity|]. split; [tauto|]. split; [auto|]. split; [auto|lia].
Qed.

(** the entries of a loaded tree are exactly the existing annotations of that type *)
Lemma tree_repr : forall s ty t, Good s -> l_tree s ty = Some t ->
  (forall k e, In (k, e) t -> k = AN_CREATE_KEY ty (e_annref e) /\
     exists x, Repr s x /\ a_key x = (ty, e_annref e) /\ (a_ttag x, a_tref x) = (e_elmtag e, e_elmref e)) /\
  (forall x, Repr s x -> fst (a_key x) = ty ->
     exists e, In (AN_CREATE_KEY ty (snd (a_key x)), e) t /\ e_annref e = snd (a_key x) /\ (a_ttag x, a_tref x) = (e_elmtag e, e_elmref e)).
Proof.
  intros s ty t HG Ht. pose proof HG as [HI HT]. destruct (inv_tree _ HI ty t Ht) as [Hty [Hs Hent]]. split.
  - intros k e Hin. destruct (Hent _ _ Hin) as [Hr [Hk _]]. split; [assumption|]. subst k.
    destruct (hfind (tag_of_type ty) (e_annref e) (l_dds s)) as [d|] eqn:Eh.
    + apply hfind_some in Eh. destruct Eh as [D1 [D2 D3]].
      exists (mkann (ty, e_annref e) (fst (target_of ty d)) (snd (target_of ty d)) (Some (payload_text (d_tag d) (d_data d)))).
      assert (Rx : Repr s (mkann (ty, e_annref e) (fst (target_of ty d)) (snd (target_of ty d)) (Some (payload_text (d_tag d) (d_data d))))).
      { split; [cbn; auto|]. left. exists d. cbn. repeat split; auto. destruct (target_of ty d); reflexivity. }
      split; [exact Rx|]. split; [reflexivity|]. apply (Repr_key_target s ty (e_annref e) t e _ HG Ht Hin Rx eq_refl).
    + exists (mkann (ty, e_annref e) (e_elmtag e) (e_elmref e) None). split; [|split; reflexivity].
      split; [cbn; auto|]. right. cbn. split; [reflexivity|]. split; [assumption|]. exists t, e. auto.
  - intros [[xt xr] xg xf xtx] Rx Hk. cbn in Hk. subst xt. cbn [a_key a_ttag a_tref fst snd]. pose proof Rx as Rx0.
    assert (exists e, In (AN_CREATE_KEY ty xr, e) t) as [e Hin].
    { destruct Rx as [_ [[d [D1 [D2 [D3 _]]]]|[_ [_ [t0 [e [C1 [C2 _]]]]]]]]; cbn in *.
      - destruct (tf_file _ HT ty t d Ht D1 D2) as [e [X _]]. rewrite D3 in X. eauto.
      - rewrite Ht in C1. inversion C1; subst t0. eauto. }
    exists e. split; [assumption|]. destruct (Hent _ _ Hin) as [Hr [Hk _]]. destruct Rx as [[_ R] _]. cbn in R.
    rewrite MAX_REF_val in *. pose proof Hk as Hk'. apply key_inj in Hk'; try (unfold tyok in Hty; lia). destruct Hk' as [_ Hk'].
    split; [congruence|].
    apply (Repr_key_target s ty xr t e _ HG Ht Hin Rx0 eq_refl).
Qed.

(* ================= E. the simulation relation ================================================================== *)
Definition sget (hs : list (Z * Z)) (slot : Z) : Z := match zassoc slot hs with Some id => id | None => FAILV end.
Definition srel (l : lstate) (hs : list (Z * Z)) (ss : list (Z * key)) : Prop :=
  forall slot, match slot_get slot ss with
               | Some k => tyok (fst k) /\ ANid2tagref l (sget hs slot) = Some (tag_of_type (fst k), snd k)
               | None => sget hs slot = FAILV
               end.

Record Sim (h : hstate) (a : state) : Prop := mkSim {
  sim_good : Good (h_lib h);
  sim_nodup : NoDup (keys (anns a));
  sim_repr : forall x, In x (anns a) <-> Repr (h_lib h) x;
  sim_sess : sess a = h_sess h;
  sim_closed : h_sess h = false -> (forall ty, l_tree (h_lib h) ty = None) /\ l_atoms (h_lib h) = [];
  sim_slots : srel (h_lib h) (h_slots h) (slots a)
}.

Lemma hslot_sget : forall h slot, hslot h slot = sget (h_slots h) slot. Proof. reflexivity. Qed.

Lemma zassoc_filter_ne : forall (l : list (Z * Z)) slot s', s' <> slot ->
  zassoc s' (filter (fun p => negb (fst p =? slot)) l) = zassoc s' l.
Proof.
  induction l as [|[k v] t IH]; simpl; intros slot s' N; [reflexivity|].
  destruct (k =? slot) eqn:E; simpl.
  - apply Z.eqb_eq in E. subst. destruct (s' =? slot) eqn:E2; [apply Z.eqb_eq in E2; contradiction | apply IH; assumption].
  - destruct (s' =? k); [reflexivity | apply IH; assumption].
Qed.
Lemma sget_set : forall hs slot id s', sget ((slot, id) :: filter (fun p => negb (fst p =? slot)) hs) s' = if s' =? slot then id else sget hs s'.
Proof.
  intros. unfold sget. simpl. destruct (s' =? slot) eqn:E; [reflexivity|]. apply Z.eqb_neq in E. rewrite zassoc_filter_ne by assumption. reflexivity.
Qed.
Lemma slot_get_filter_ne : forall (l : list (Z * key)) slot s', s' <> slot ->
  slot_get s' (filter (fun p => negb (fst p =? slot)) l) = slot_get s' l.
Proof.
  induction l as [|[k v] t IH]; simpl; intros slot s' N; [reflexivity|].
  destruct (k =? slot) eqn:E; simpl.
  - apply Z.eqb_eq in E. subst. destruct (s' =? slot) eqn:E2; [apply Z.eqb_eq in E2; contradiction | apply IH; assumption].
  - destruct (s' =? k); [reflexivity | apply IH; assumption].
Qed.
Lemma slot_get_filter_eq : forall (l : list (Z * key)) slot, slot_get slot (filter (fun p => negb (fst p =? slot)) l) = None.
Proof.
  induction l as [|[k v] t IH]; simpl; intros slot; [reflexivity|].
  destruct (k =? slot) eqn:E; simpl; [apply IH|]. rewrite Z.eqb_sym, E. apply IH.
Qed.
Lemma slot_get_set : forall l slot k s', slot_get s' (slot_set slot k l) = if s' =? slot then Some k else slot_get s' l.
Proof.
  intros. unfold slot_set. simpl. destruct (s' =? slot) eqn:E; [reflexivity|]. apply Z.eqb_neq in E. apply slot_get_filter_ne. assumption.
Qed.
Lemma slot_get_clear : forall l slot s', slot_get s' (slot_clear slot l) = if s' =? slot then None else slot_get s' l.
Proof.
  intros. unfold slot_clear. destruct (s' =? slot) eqn:E.
  - apply Z.eqb_eq in E. subst. apply slot_get_filter_eq.
  - apply Z.eqb_neq in E. apply slot_get_filter_ne. assumption.
Qed.

(** a library call that keeps the tag/ref of every valid identifier keeps the slot relation; one slot may be rebound *)
Lemma srel_keep : forall l l' hs ss, srel l hs ss ->
  (forall id tr, ANid2tagref l id = Some tr -> ANid2tagref l' id = Some tr) -> srel l' hs ss.
Proof.
  intros l l' hs ss H Hk slot. specialize (H slot). destruct (slot_get slot ss); [|assumption]. destruct H as [A B]. auto.
Qed.
Lemma srel_bind : forall l hs ss slot id k, srel l hs ss -> tyok (fst k) -> ANid2tagref l id = Some (tag_of_type (fst k), snd k) ->
  srel l ((slot, id) :: filter (fun p => negb (fst p =? slot)) hs) (slot_set slot k ss).
Proof.
  intros l hs ss slot id k H T B s'. rewrite slot_get_set, sget_set. destruct (s' =? slot); [auto | apply H].
Qed.
Lemma srel_unbind : forall l hs ss slot, srel l hs ss ->
  srel l ((slot, FAILV) :: filter (fun p => negb (fst p =? slot)) hs) (slot_clear slot ss).
Proof.
  intros l hs ss slot H s'. rewrite slot_get_clear, sget_set. destruct (s' =? slot); [reflexivity | apply H].
Qed.

(** results *)
Definition accepts (sr : res) (mr : mres) : Prop :=
  match sr, mr with
  | RFail, MFail => True
  | ROk v bs, MOk v' bs' =>
      (v = v' \/ exists n l l', v = n :: l /\ v' = n :: l' /\ Permutation l l') /\ Forall2 (fun alts b => In b alts) bs bs'
  | _, _ => False
  end.

Definition ref_of (mr : mres) : Z := match mr with MOk [_; r] _ => r | _ => 0 end.
Definition fill (o : op) (mr : mres) : op :=
  match o with
  | OCreate slot ty g r _ => OCreate slot ty g r (ref_of mr)
  | OCreatef slot ty _ => OCreatef slot ty (ref_of mr)
  | OSelect slot ty i _ => OSelect slot ty i (ref_of mr)
  | _ => o
  end.

(** the AN-interface operations and the ranges of their arguments (C passes uint16 tags and refs) *)
Definition u16 (z : Z) : Prop := 0 <= z < 65536.
Definition an_op (o : op) : Prop :=
  match o with
  | OStart | OEnd | OFileInfo | OEndaccess _ | OWrite _ _ | ORead _ _ | OLen _ | OId2tagref _ | OCreatef _ _ _ => True
  | OCreate _ _ g r _ => u16 g /\ u16 r
  | OSelect _ ty _ _ => tyok ty
  | ONumann ty g r | OAnnlist ty g r => tyok ty
  | OTagref2id _ g r => u16 r
  | _ => False
  end.

(** a valid identifier denotes an existing annotation *)
Lemma valid_id_repr : forall s id ty ref, Good s -> tyok ty -> ANid2tagref s id = Some (tag_of_type ty, ref) ->
  exists x, Repr s x /\ a_key x = (ty, ref).
Proof.
  intros s id ty ref HG Hty Hid. pose proof HG as [HI HT].
  destruct (proj1 (ANid2tagref_spec s id ty ref HI) (conj Hid Hty)) as [nd [Ez [K1 [K2 _]]]].
  destruct (inv_owner _ HI id nd Ez) as [ty2 [t [e [Ht [Hin _]]]]].
  destruct (inv_tree _ HI ty2 t Ht) as [Hty2 [_ Hent]]. destruct (Hent _ _ Hin) as [Hr [Hk _]]. rewrite MAX_REF_val in Hr.
  assert (ty2 = ty) by (rewrite <- K1, Hk; symmetry; apply key_type; unfold tyok in Hty2; lia). subst ty2.
  assert (Href : e_annref e = ref) by (rewrite <- K2, Hk; symmetry; apply key_ref; unfold tyok in Hty; lia).
  destruct (tree_repr s ty t HG Ht) as [P _]. destruct (P _ _ Hin) as [_ [x [X1 [X2 _]]]]. exists x. rewrite <- Href. auto.
Qed.

(* ================= F. reading ================================================================================ *)
Lemma read_image_gen : forall s id maxlen nd tag d,
  1 <= maxlen ->
  zassoc id (l_atoms s) = Some nd -> atype2tag (AN_KEY2TYPE (n_key nd)) = Some tag ->
  hfind tag (AN_KEY2REF (n_key nd)) (l_dds s) = Some d -> (is_data_tag tag = true -> 4 <= zlen (d_data d)) ->
  ANIreadann s id maxlen = Some (buffer_image (is_label_tag tag) (payload_text tag (d_data d)) maxlen) /\
  ANIannlen s id = zlen (payload_text tag (d_data d)).
Proof.
  intros s id maxlen nd tag d Hm Hz Ht Hf H4.
  unfold ANIreadann, ANIannlen. rewrite Hz, Ht, Hf.
  set (txt := payload_text tag (d_data d)).
  assert (Hlen : zlen (d_data d) - (if is_data_tag tag then 4 else 0) = zlen txt).
  { unfold txt, payload_text, zlen in *. destruct (is_data_tag tag); [rewrite skipn_length; specialize (H4 eq_refl); lia | lia]. }
  rewrite Hlen. fold txt. split; [|reflexivity].
  unfold ANIreadann_label_trunc, ANIreadann_desc_trunc, ANIreadann_reads. rewrite !truth_gt.
  unfold buffer_image, zlen in *.
  set (L := length txt) in *. set (m := Z.to_nat maxlen).
  assert (Em : maxlen = Z.of_nat m) by (unfold m; rewrite Z2Nat.id; lia).
  destruct (is_label_tag tag).
  - (* label *)
    destruct (maxlen - 1 <? Z.of_nat L) eqn:E.
    + apply Z.ltb_lt in E. rewrite Z.min_r by lia.
      replace (maxlen - 1 <? 0) with false by (symmetry; apply Z.ltb_ge; lia).
      assert (En : maxlen - 1 = Z.of_nat (m - 1)) by lia. rewrite En.
      rewrite Nat2Z.id.
      rewrite image_desc by lia. rewrite image_label by lia.
      rewrite app_length, firstn_length_le by lia. simpl. repeat f_equal; lia.
    + apply Z.ltb_ge in E. rewrite Z.min_l by lia.
      replace (Z.of_nat L <? 0) with false by (symmetry; apply Z.ltb_ge; lia).
      rewrite Nat2Z.id.
      rewrite image_desc by lia. rewrite image_label by lia.
      rewrite app_length, firstn_length_le by lia. simpl. repeat f_equal; lia.
  - (* description *)
    destruct (maxlen <? Z.of_nat L) eqn:E.
    + apply Z.ltb_lt in E. rewrite Z.min_r by lia.
      replace (maxlen <? 0) with false by (symmetry; apply Z.ltb_ge; lia).
      rewrite Em. rewrite Nat2Z.id.
      rewrite image_desc by lia. rewrite app_nil_r. rewrite firstn_length_le by lia. reflexivity.
    + apply Z.ltb_ge in E. rewrite Z.min_l by lia.
      replace (Z.of_nat L <? 0) with false by (symmetry; apply Z.ltb_ge; lia).
      rewrite Nat2Z.id.
      rewrite image_desc by lia. rewrite app_nil_r. rewrite firstn_length_le by lia. reflexivity.
Qed.

(* ================= G. one step of the harness against one step of the specification ======================== *)
Lemma failv_invalid : forall l, Inv l -> zassoc FAILV (l_atoms l) = None.
Proof.
  intros l HI. destruct (zassoc FAILV (l_atoms l)) as [nd|] eqn:E; [|reflexivity].
  pose proof (inv_ids _ HI _ _ (zassoc_In _ _ _ _ E)). unfold FAILV in *. lia.
Qed.

Lemma slot_cases : forall h a slot, Sim h a ->
  (slot_get slot (slots a) = None /\ zassoc (hslot h slot) (l_atoms (h_lib h)) = None /\ ANid2tagref (h_lib h) (hslot h slot) = None) \/
  (exists ty ref x, slot_get slot (slots a) = Some (ty, ref) /\ tyok ty /\
     ANid2tagref (h_lib h) (hslot h slot) = Some (tag_of_type ty, ref) /\
     lookup (ty, ref) (anns a) = Some x /\ Repr (h_lib h) x /\ a_key x = (ty, ref)).
Proof.
  intros h a slot HS. pose proof (sim_slots _ _ HS slot) as H. rewrite <- hslot_sget in H.
  destruct (slot_get slot (slots a)) as [[ty ref]|] eqn:E.
  - right. destruct H as [T B]. simpl in T, B. destruct (valid_id_repr _ _ _ _ (sim_good _ _ HS) T B) as [x [X1 X2]].
    exists ty, ref, x. split; [reflexivity|]. split; [assumption|]. split; [assumption|]. split; [|split; assumption].
    rewrite <- X2. apply In_lookup; [apply (sim_nodup _ _ HS) | apply (sim_repr _ _ HS); assumption].
  - left. split; [reflexivity|]. rewrite H. pose proof (failv_invalid _ (proj1 (sim_good _ _ HS))) as F.
    split; [assumption|]. unfold ANid2tagref. rewrite F. reflexivity.
Qed.

Lemma id_node : forall l id ty ref, Inv l -> tyok ty -> ANid2tagref l id = Some (tag_of_type ty, ref) ->
  exists nd, zassoc id (l_atoms l) = Some nd /\ atype2tag (AN_KEY2TYPE (n_key nd)) = Some (tag_of_type ty) /\ AN_KEY2REF (n_key nd) = ref.
Proof.
  intros l id ty ref HI Hty H. destruct (proj1 (ANid2tagref_spec l id ty ref HI) (conj H Hty)) as [nd [A [B [C _]]]].
  exists nd. split; [assumption|]. split; [rewrite B; apply atype2tag_iff; auto | assumption].
Qed.

Lemma sim_read : forall h a slot maxlen h' mr a' sr, Sim h a ->
  mstep h (ORead slot maxlen) = (h', mr) -> step a (ORead slot maxlen) = (a', sr) ->
  sr = RUnspec \/ (Sim h' a' /\ accepts sr mr).
Proof.
  intros h a slot maxlen h' mr a' sr HS HM HSp. unfold mstep in HM. cbv beta iota zeta in HM. simpl in HSp. unfold with_slot in HSp.
  pose proof (sim_good _ _ HS) as [HI HT].
  destruct (slot_cases h a slot HS) as [[E1 [E2 _]]|[ty [ref [x [E1 [T [B [L [Rx Kx]]]]]]]]]; rewrite E1 in HSp.
  - unfold ANIreadann in HM. rewrite E2 in HM. inversion HM; inversion HSp; subst. right. split; [assumption | exact I].
  - rewrite L in HSp. destruct (id_node _ _ _ _ HI T B) as [nd [Z1 [Z2 Z3]]].
    destruct x as [[xt xr] xg xf xtx]. cbn in Kx. inversion Kx; subst xt xr. cbn [a_text a_key fst] in HSp.
    destruct Rx as [_ [[d [D1 [D2 [D3 [D4 D5]]]]]|[X1 [X2 _]]]]; cbn [a_key a_text fst snd] in *.
    + rewrite D4 in HSp. destruct (maxlen <? 1) eqn:Em; [inversion HSp; left; reflexivity|]. apply Z.ltb_ge in Em.
      pose proof (hfind_In _ _ _ d (tf_nodup _ HT) D1 D2 D3) as Hf. rewrite <- Z3 in Hf.
      destruct (read_image_gen _ _ maxlen nd _ d Em Z1 Z2 Hf) as [R1 _].
      { intros X. apply (tf_len _ HT d D1). rewrite D2. exact X. }
      rewrite R1 in HM. inversion HM; inversion HSp; subst. right. split; [assumption|]. simpl. split; [left; reflexivity|].
      constructor; [|constructor]. rewrite D2, (is_label_tag_type ty T). left. reflexivity.
    + rewrite X1 in HSp. unfold ANIreadann in HM. rewrite Z1, Z2, Z3, X2 in HM. inversion HM; inversion HSp; subst. right. split; [assumption | exact I].
Qed.

Lemma sim_len : forall h a slot h' mr a' sr, Sim h a ->
  mstep h (OLen slot) = (h', mr) -> step a (OLen slot) = (a', sr) -> sr = RUnspec \/ (Sim h' a' /\ accepts sr mr).
Proof.
  intros h a slot h' mr a' sr HS HM HSp. unfold mstep in HM. cbv beta iota zeta in HM. simpl in HSp. unfold with_slot in HSp.
  pose proof (sim_good _ _ HS) as [HI HT].
  destruct (slot_cases h a slot HS) as [[E1 [E2 _]]|[ty [ref [x [E1 [T [B [L [Rx Kx]]]]]]]]]; rewrite E1 in HSp.
  - unfold ANIannlen in HM. rewrite E2 in HM. simpl in HM. inversion HM; inversion HSp; subst. right. split; [assumption | exact I].
  - rewrite L in HSp. destruct (id_node _ _ _ _ HI T B) as [nd [Z1 [Z2 Z3]]].
    destruct x as [[xt xr] xg xf xtx]. cbn in Kx. inversion Kx; subst xt xr. cbn [a_text a_key fst] in HSp.
    destruct Rx as [_ [[d [D1 [D2 [D3 [D4 D5]]]]]|[X1 [X2 _]]]]; cbn [a_key a_text fst snd] in *.
    + rewrite D4 in HSp.
      pose proof (hfind_In _ _ _ d (tf_nodup _ HT) D1 D2 D3) as Hf. rewrite <- Z3 in Hf.
      destruct (read_image_gen _ _ 1 nd _ d ltac:(lia) Z1 Z2 Hf) as [_ R2].
      { intros X. apply (tf_len _ HT d D1). rewrite D2. exact X. }
      rewrite R2 in HM.
      assert (Hn : (zlen (payload_text (tag_of_type ty) (d_data d)) =? FAILV) = false) by (apply Z.eqb_neq; unfold zlen, FAILV; lia).
      rewrite Hn in HM. inversion HM; inversion HSp; subst. right. split; [assumption|]. simpl. rewrite D2. split; [left; reflexivity | constructor].
    + rewrite X1 in HSp. unfold ANIannlen in HM. rewrite Z1, Z2, Z3, X2 in HM. simpl in HM. inversion HM; inversion HSp; subst. right. split; [assumption | exact I].
Qed.

Lemma sim_id2tagref : forall h a slot h' mr a' sr, Sim h a ->
  mstep h (OId2tagref slot) = (h', mr) -> step a (OId2tagref slot) = (a', sr) -> sr = RUnspec \/ (Sim h' a' /\ accepts sr mr).
Proof.
  intros h a slot h' mr a' sr HS HM HSp. unfold mstep in HM. cbv beta iota zeta in HM. simpl in HSp. unfold with_slot in HSp.
  destruct (slot_cases h a slot HS) as [[E1 [_ E2]]|[ty [ref [x [E1 [T [B [L [Rx Kx]]]]]]]]]; rewrite E1 in HSp.
  - rewrite E2 in HM. inversion HM; inversion HSp; subst. right. split; [assumption | exact I].
  - rewrite L in HSp. rewrite B in HM. inversion HM; inversion HSp; subst. right. split; [assumption|]. rewrite Kx. simpl.
    split; [left; reflexivity | constructor].
Qed.

Lemma sim_endaccess : forall h a slot h' mr a' sr, Sim h a ->
  mstep h (OEndaccess slot) = (h', mr) -> step a (OEndaccess slot) = (a', sr) -> sr = RUnspec \/ (Sim h' a' /\ accepts sr mr).
Proof.
  intros. simpl in *. inversion H0; inversion H1; subst. right. split; [assumption|]. simpl. split; [left; reflexivity | constructor].
Qed.

Lemma TF_ext : forall l l', TF l -> l_dds l' = l_dds l -> l_tree l' = l_tree l -> l_atoms l' = l_atoms l -> l_num l' = l_num l -> TF l'.
Proof.
  intros l l' [A B C D E F G H] Hd Ht Ha Hn. constructor; rewrite ?Hd, ?Ht, ?Ha, ?Hn; assumption.
Qed.
Lemma Good_ext : forall l l', Good l -> l_dds l' = l_dds l -> l_tree l' = l_tree l -> l_atoms l' = l_atoms l ->
  l_num l' = l_num l -> l_next l' = l_next l -> Good l'.
Proof.
  intros l l' [HI HT] Hd Ht Ha Hn Hx. split; [|eapply TF_ext; eassumption].
  apply (Inv_same_tables l); [assumption | repeat split; assumption | rewrite Hd; apply (inv_refs _ HI)].
Qed.

Lemma written_In : forall l x, In x (written l) <-> In x l /\ a_text x <> None.
Proof.
  intros. unfold written. rewrite filter_In. destruct (a_text x); split; intros [A B]; split; auto; try discriminate; try contradiction.
Qed.

Lemma sim_start : forall h a h' mr a' sr, Sim h a ->
  mstep h OStart = (h', mr) -> step a OStart = (a', sr) -> sr = RUnspec \/ (Sim h' a' /\ accepts sr mr).
Proof.
  intros h a h' mr a' sr HS HM HSp. simpl in HM, HSp. rewrite (sim_sess _ _ HS) in HSp.
  destruct (h_sess h) eqn:Es; inversion HM; inversion HSp; subst; [left; reflexivity|]. right.
  split; [|simpl; split; [left; reflexivity | constructor]].
  destruct (sim_closed _ _ HS Es) as [Cl1 Cl2].
  constructor; simpl; [apply (sim_good _ _ HS) | apply (sim_nodup _ _ HS) | apply (sim_repr _ _ HS) | reflexivity | discriminate |].
  intros slot. simpl. pose proof (sim_slots _ _ HS slot) as X. destruct (slot_get slot (slots a)) as [k|]; [|assumption].
  destruct X as [_ X]. unfold ANid2tagref in X. rewrite Cl2 in X. simpl in X. discriminate.
Qed.

Lemma sim_end : forall h a h' mr a' sr, Sim h a ->
  mstep h OEnd = (h', mr) -> step a OEnd = (a', sr) -> sr = RUnspec \/ (Sim h' a' /\ accepts sr mr).
Proof.
  intros h a h' mr a' sr HS HM HSp. simpl in HM, HSp. rewrite (sim_sess _ _ HS) in HSp.
  destruct (h_sess h) eqn:Es; inversion HM; inversion HSp; subst; right; [|split; [assumption | exact I]].
  split; [|simpl; split; [left; reflexivity | constructor]].
  destruct (ANend_Good _ (sim_good _ _ HS)) as [G [Hd [Htr [Hat HR]]]].
  constructor; simpl.
  - apply (Good_ext (ANend (h_lib h))); auto.
  - apply NoDup_filter_keys. apply (sim_nodup _ _ HS).
  - intros x. rewrite written_In. rewrite (sim_repr _ _ HS). rewrite <- HR. split; intros Rx; (eapply Repr_ext; [| |exact Rx]; reflexivity).
  - reflexivity.
  - intros _. split; [intros ty; reflexivity | exact Hat].
  - intros slot. reflexivity.
Qed.

Definition exhausted (sr : res) (mr : mres) : Prop := sr = RBad /\ mr = MFail.

Lemma hset_lib : forall h l slot id, h_lib (hset h l slot id) = l. Proof. reflexivity. Qed.

Lemma sim_unbind : forall h a slot, Sim h a ->
  Sim (hset h (h_lib h) slot FAILV) (mkstate (anns a) (slot_clear slot (slots a)) (sess a)).
Proof.
  intros h a slot HS. constructor; simpl; try apply HS. apply srel_unbind. apply (sim_slots _ _ HS).
Qed.

Lemma sim_create_core : forall h a slot ty g r g' r' l1 id a' sr, Sim h a -> h_sess h = true -> u16 g -> u16 r ->
  (is_data ty = true -> g' = g /\ r' = r) ->
  ANIcreate (h_lib h) g r ty = (l1, id) ->
  create a slot ty g' r' (ref_of (ptagref l1 id)) = (a', sr) ->
  exhausted sr (ptagref l1 id) \/ (Sim (hset h l1 slot id) a' /\ accepts sr (ptagref l1 id)).
Proof.
  intros h a slot ty g r g' r' l1 id a' sr HS Hsess Hg Hr Hgr HM HSp.
  destruct (ANIcreate_sim _ _ _ _ _ _ (sim_good _ _ HS) Hg Hr HM) as [HG1 [Hd [Hids [Htrees Hcase]]]].
  unfold create in HSp. rewrite (sim_sess _ _ HS), Hsess in HSp. simpl in HSp.
  assert (Hbase : forall id0, Sim (hset h l1 slot id0) (mkstate (anns a) (slot_clear slot (slots a)) (sess a)) \/ True) by (intros; right; exact I).
  destruct Hcase as [[Hid [HR Hwhy]]|[Hid [Hty [Hnz [ref [Rr [Hidr [Hfresh HR]]]]]]]].
  - (* M failed *)
    subst id. unfold ptagref in *. simpl in *.
    assert (HSim : Sim (hset h l1 slot FAILV) (mkstate (anns a) (slot_clear slot (slots a)) true)).
    { constructor; simpl; [assumption | apply (sim_nodup _ _ HS) | intros x; rewrite HR; apply (sim_repr _ _ HS) | symmetry; exact Hsess | rewrite Hsess; discriminate |].
      apply srel_unbind. apply (srel_keep (h_lib h)); [apply (sim_slots _ _ HS) | assumption]. }
    destruct (valid_type ty) eqn:Ev; simpl in HSp; [|inversion HSp; subst; right; split; [assumption | exact I]].
    destruct (is_data ty && ((g' =? 0) || (r' =? 0))) eqn:Ez; [inversion HSp; subst; right; split; [assumption | exact I]|].
    apply valid_type_iff in Ev. destruct Hwhy as [N|[[Hd0 Hz]|[_ _]]]; [contradiction | |].
    + exfalso. destruct (Hgr Hd0) as [-> ->]. rewrite Hd0 in Ez. simpl in Ez. apply orb_false_iff in Ez. destruct Ez as [E1 E2].
      apply Z.eqb_neq in E1. apply Z.eqb_neq in E2. destruct Hz; contradiction.
    + unfold fresh in HSp. simpl in HSp. inversion HSp; subst. left. split; reflexivity.
  - (* M created annotation (ty, ref) *)
    unfold ptagref in *. destruct (id =? FAILV) eqn:Ef; [apply Z.eqb_eq in Ef; contradiction|]. rewrite Hidr in *. simpl in HSp.
    rewrite (proj2 (valid_type_iff ty) Hty) in HSp. simpl in HSp.
    assert (Ez : is_data ty && ((g' =? 0) || (r' =? 0)) = false).
    { destruct (is_data ty) eqn:Ed; [|reflexivity]. destruct (Hgr eq_refl) as [-> ->]. destruct (Hnz eq_refl) as [N1 N2]. simpl.
      apply orb_false_iff. split; apply Z.eqb_neq; assumption. }
    rewrite Ez in HSp.
    assert (Hfr : fresh ty ref (anns a) = true).
    { unfold fresh. destruct Rr as [R1 R2]. rewrite (proj2 (Z.leb_le _ _) R1), (proj2 (Z.leb_le _ _) R2). simpl.
      destruct (lookup (ty, ref) (anns a)) as [x|] eqn:El; [|reflexivity]. exfalso. apply lookup_In in El. destruct El as [X1 X2].
      apply (Hfresh x X2). apply (sim_repr _ _ HS). assumption. }
    rewrite Hfr in HSp. simpl in HSp.
    assert (Hnew : (if is_data ty then mkann (ty, ref) g' r' None else mkann (ty, ref) (tag_of_type ty) ref None) = new_ann ty ref g r).
    { unfold new_ann. destruct (is_data ty) eqn:Ed; [destruct (Hgr eq_refl) as [-> ->]|]; reflexivity. }
    rewrite Hnew in HSp. inversion HSp; subst a' sr; clear HSp. right. split; [|simpl; split; [left; reflexivity | constructor]].
    unfold add_ann. constructor; simpl.
    + assumption.
    + unfold keys. rewrite map_app. simpl. apply NoDup_app_one; [apply (sim_nodup _ _ HS)|]. unfold new_ann. simpl.
      apply lookup_None. unfold fresh in Hfr. destruct (lookup (ty, ref) (anns a)); [|reflexivity].
      rewrite andb_false_r in Hfr. discriminate.
    + intros x. rewrite in_app_iff. simpl. rewrite HR. rewrite (sim_repr _ _ HS). split; [intros [X|[X|[]]]; auto | intros [X|X]; auto].
    + apply (sim_sess _ _ HS).
    + rewrite Hsess. discriminate.
    + apply srel_bind; [apply (srel_keep (h_lib h)); [apply (sim_slots _ _ HS) | assumption] | assumption | assumption].
Qed.

Lemma sim_create : forall h a slot ty g r x0 h' mr a' sr, Sim h a -> u16 g -> u16 r ->
  mstep h (OCreate slot ty g r x0) = (h', mr) -> step a (OCreate slot ty g r (ref_of mr)) = (a', sr) ->
  sr = RUnspec \/ exhausted sr mr \/ (Sim h' a' /\ accepts sr mr).
Proof.
  intros h a slot ty g r x0 h' mr a' sr HS Hg Hr HM HSp. unfold mstep in HM. cbv beta iota zeta in HM. simpl in HSp.
  destruct (h_sess h) eqn:Eh; simpl in HM.
  - destruct (ANIcreate (h_lib h) g r ty) as [l1 id] eqn:Ec. inversion HM; subst h' mr. right.
    apply (sim_create_core h a slot ty g r g r l1 id a' sr HS Eh Hg Hr (fun _ => conj eq_refl eq_refl) Ec HSp).
  - inversion HM; subst h' mr. unfold create in HSp. rewrite (sim_sess _ _ HS), Eh in HSp. simpl in HSp. inversion HSp; subst a' sr.
    right. right. split; [|exact I]. pose proof (sim_unbind h a slot HS) as X. rewrite (sim_sess _ _ HS), Eh in X. exact X.
Qed.

Lemma sim_createf : forall h a slot ty x0 h' mr a' sr, Sim h a ->
  mstep h (OCreatef slot ty x0) = (h', mr) -> step a (OCreatef slot ty (ref_of mr)) = (a', sr) ->
  sr = RUnspec \/ exhausted sr mr \/ (Sim h' a' /\ accepts sr mr).
Proof.
  intros h a slot ty x0 h' mr a' sr HS HM HSp. unfold mstep in HM. cbv beta iota zeta in HM. simpl in HSp.
  destruct (h_sess h) eqn:Eh; simpl in HM.
  - destruct (ANcreatef (h_lib h) ty) as [l1 id] eqn:Ec. inversion HM; subst h' mr. right. unfold ANcreatef in Ec.
    assert (Hcases : (ty = 2 \/ ty = 3) \/ (ty <> 2 /\ ty <> 3)) by lia. destruct Hcases as [Hc|[N2 N3]].
    + assert (Ed : is_data ty = false) by (destruct Hc; subst; reflexivity). rewrite Ed in HSp.
      assert (Esw : zassoc ty ANcreatef_ann_tag_switch = Some (tag_of_type ty)) by (destruct Hc; subst; reflexivity). rewrite Esw in Ec.
      assert (Hty : tyok ty) by (unfold tyok; destruct Hc; subst; lia).
      apply (sim_create_core h a slot ty (tag_of_type ty) 0 0 0 l1 id a' sr HS Eh (tag_of_type_range ty Hty) ltac:(unfold u16; lia)); auto.
      intros X. rewrite X in Ed. discriminate.
    + assert (Esw : zassoc ty ANcreatef_ann_tag_switch = None).
      { unfold ANcreatef_ann_tag_switch. simpl. rewrite (proj2 (Z.eqb_neq _ _) N2), (proj2 (Z.eqb_neq _ _) N3). reflexivity. }
      rewrite Esw in Ec. inversion Ec; subst l1 id. unfold ptagref in *. simpl in *. right.
      assert (HSim : Sim (hset h (h_lib h) slot FAILV) (mkstate (anns a) (slot_clear slot (slots a)) (sess a))) by (apply sim_unbind; assumption).
      destruct (is_data ty) eqn:Ed; [inversion HSp; subst; split; [assumption | exact I]|].
      unfold create in HSp. rewrite (sim_sess _ _ HS), Eh in HSp. simpl in HSp.
      assert (Ev : valid_type ty = false).
      { destruct (valid_type ty) eqn:Ev; [|reflexivity]. apply valid_type_iff in Ev. unfold tyok in Ev.
        assert (ty = 0 \/ ty = 1) as [-> | ->] by lia; discriminate. }
      rewrite Ev in HSp. simpl in HSp. inversion HSp; subst. split; [|exact I]. rewrite (sim_sess _ _ HS), Eh in HSim. exact HSim.
  - inversion HM; subst h' mr. right. right. split; [|destruct (is_data ty); [inversion HSp; subst; exact I|]].
    + pose proof (sim_unbind h a slot HS) as X. destruct (is_data ty); [inversion HSp; subst; exact X|].
      unfold create in HSp. rewrite (sim_sess _ _ HS), Eh in HSp. simpl in HSp. inversion HSp; subst. rewrite (sim_sess _ _ HS), Eh in X. exact X.
    + unfold create in HSp. rewrite (sim_sess _ _ HS), Eh in HSp. simpl in HSp. inversion HSp; subst. exact I.
Qed.

Lemma sim_write : forall h a slot txt h' mr a' sr, Sim h a ->
  mstep h (OWrite slot txt) = (h', mr) -> step a (OWrite slot txt) = (a', sr) -> sr = RUnspec \/ (Sim h' a' /\ accepts sr mr).
Proof.
  intros h a slot txt h' mr a' sr HS HM HSp. unfold mstep in HM. cbv beta iota zeta in HM. simpl in HSp. unfold with_slot in HSp.
  pose proof (sim_good _ _ HS) as HG. pose proof HG as [HI HT].
  destruct (ANIwriteann (h_lib h) (hslot h slot) txt) as [l1 ok] eqn:Ew. inversion HM; subst h' mr; clear HM.
  destruct (slot_cases h a slot HS) as [[E1 [E2 _]]|[ty [ref [x [E1 [T [B [L [Rx Kx]]]]]]]]]; rewrite E1 in HSp.
  - unfold ANIwriteann in Ew. rewrite E2 in Ew. inversion Ew; inversion HSp; subst. right. split; [|exact I].
    destruct h; exact HS.
  - rewrite L in HSp. rewrite Kx in HSp. cbn [fst] in HSp.
    destruct ((zlen txt =? 0) || (is_label ty && has_nul txt)) eqn:Ed; [inversion HSp; left; reflexivity|].
    apply orb_false_iff in Ed. destruct Ed as [Ed _]. apply Z.eqb_neq in Ed.
    destruct (ANIwriteann_sim _ _ _ _ _ _ _ HG T B Ed Ew) as [Hok [HG1 [Hids [Htr [_ HR]]]]]. subst ok.
    inversion HSp; subst a' sr. right. split; [|simpl; split; [left; reflexivity | constructor]].
    constructor; simpl.
    + assumption.
    + unfold keys. rewrite set_text_keys. apply (sim_nodup _ _ HS).
    + intros y. rewrite (set_text_In _ _ _ _ (sim_nodup _ _ HS)). rewrite HR. split.
      * intros [[z [Z1 [Z2 Z3]]]|[Z1 Z2]]; [left; exists z; split; [apply (sim_repr _ _ HS); assumption | auto] | right; split; [apply (sim_repr _ _ HS); assumption | assumption]].
      * intros [[z [Z1 [Z2 Z3]]]|[Z1 Z2]]; [left; exists z; split; [apply (sim_repr _ _ HS); assumption | auto] | right; split; [apply (sim_repr _ _ HS); assumption | assumption]].
    + apply (sim_sess _ _ HS).
    + intros Hc. destruct (sim_closed _ _ HS Hc) as [C1 C2]. unfold ANid2tagref in B. rewrite C2 in B. discriminate.
    + apply (srel_keep (h_lib h)); [apply (sim_slots _ _ HS)|]. intros id tr X. rewrite Hids. assumption.
Qed.

(* ================= H. listing ================================================================================= *)
Lemma sim_keep : forall h a l1, Sim h a -> h_sess h = true -> Good l1 -> (forall x, Repr l1 x <-> Repr (h_lib h) x) ->
  (forall id tr, ANid2tagref (h_lib h) id = Some tr -> ANid2tagref l1 id = Some tr) -> Sim (hlib h l1) a.
Proof.
  intros h a l1 HS Hs HG HR Hids. constructor; simpl.
  - assumption. - apply (sim_nodup _ _ HS). - intros x. rewrite HR. apply (sim_repr _ _ HS). - apply (sim_sess _ _ HS).
  - rewrite Hs. discriminate. - apply (srel_keep (h_lib h)); [apply (sim_slots _ _ HS) | assumption].
Qed.

Lemma of_type_keys : forall ty l, keys (of_type ty l) = map (fun r => (ty, r)) (refs (of_type ty l)).
Proof.
  intros ty l. unfold of_type, keys, refs. induction l as [|a t IH]; simpl; [reflexivity|].
  destruct (fst (a_key a) =? ty) eqn:E; simpl; [|assumption]. apply Z.eqb_eq in E. rewrite IH. f_equal. destruct (a_key a); simpl in *; congruence.
Qed.
Lemma refs_of_type_NoDup : forall ty l, NoDup (keys l) -> NoDup (refs (of_type ty l)).
Proof.
  intros ty l ND. apply (NoDup_map_inv (fun r => (ty, r))). rewrite <- of_type_keys. apply NoDup_filter_keys. assumption.
Qed.

Lemma tree_annrefs_NoDup : forall s ty t, Inv s -> l_tree s ty = Some t -> NoDup (tree_refs t).
Proof.
  intros s ty t HI Ht. destruct (inv_tree _ HI ty t Ht) as [_ [Hs Hent]]. pose proof (tsorted_NoDup _ Hs) as ND.
  apply (NoDup_map_inv (AN_CREATE_KEY ty)). unfold tree_refs. rewrite map_map.
  replace (map (fun x => AN_CREATE_KEY ty (e_annref (snd x))) t) with (tkeys t); [assumption|].
  unfold tkeys. apply map_ext_in. intros [k e] Hin. destruct (Hent _ _ Hin) as [_ [K _]]. exact K.
Qed.

(** refs listed by a loaded tree under a predicate on the target = refs of the specification's annotations *)
Lemma tree_filter_perm : forall h a ty t (p : Z -> Z -> bool), Sim h a -> l_tree (h_lib h) ty = Some t ->
  Permutation (map (fun q => e_annref (snd q)) (filter (fun q => p (e_elmtag (snd q)) (e_elmref (snd q))) t))
              (refs (filter (fun x => p (a_ttag x) (a_tref x)) (of_type ty (anns a)))).
Proof.
  intros h a ty t p HS Ht. pose proof (sim_good _ _ HS) as HG. destruct (tree_repr _ _ _ HG Ht) as [P1 P2].
  apply NoDup_Permutation.
  - pose proof (tree_annrefs_NoDup _ _ _ (proj1 HG) Ht) as ND. unfold tree_refs in ND. clear - ND.
    induction t as [|q t IH]; simpl; [constructor|]. simpl in ND. inversion ND; subst. destruct (p _ _); simpl; [constructor|]; auto.
    intros X. apply H1. apply in_map_iff in X. destruct X as [y [E Hy]]. apply filter_In in Hy. rewrite <- E. apply (in_map (fun x => e_annref (snd x))). tauto.
  - pose proof (refs_of_type_NoDup ty _ (sim_nodup _ _ HS)) as ND. unfold refs in *. clear - ND.
    induction (of_type ty (anns a)) as [|x l IH]; simpl; [constructor|]. simpl in ND. inversion ND; subst. destruct (p _ _); simpl; [constructor|]; auto.
    intros X. apply H1. apply in_map_iff in X. destruct X as [y [E Hy]]. apply filter_In in Hy. rewrite <- E. apply (in_map (fun a => snd (a_key a))). tauto.
  - intros r. unfold refs. rewrite !in_map_iff. split.
    + intros [[k e] [E Hin]]. apply filter_In in Hin. destruct Hin as [Hin Hp]. simpl in *. subst r.
      destruct (P1 _ _ Hin) as [_ [x [X1 [X2 X3]]]]. exists x. rewrite X2. split; [reflexivity|]. apply filter_In. inversion X3.
      split; [|congruence]. unfold of_type. apply filter_In. split; [apply (sim_repr _ _ HS); assumption | rewrite X2; simpl; apply Z.eqb_refl].
    + intros [x [E Hin]]. apply filter_In in Hin. destruct Hin as [Hin Hp]. unfold of_type in Hin. apply filter_In in Hin. destruct Hin as [Hin Hty].
      apply Z.eqb_eq in Hty. apply (sim_repr _ _ HS) in Hin. destruct (P2 x Hin Hty) as [e [E1 [E2 E3]]].
      exists (AN_CREATE_KEY ty (snd (a_key x)), e). simpl. split; [congruence|]. apply filter_In. split; [assumption|]. simpl. inversion E3. congruence.
Qed.

Lemma filter_true : forall A (l : list A), filter (fun _ => true) l = l.
Proof. induction l; simpl; congruence. Qed.

Lemma tree_count : forall h a ty t, Sim h a -> l_tree (h_lib h) ty = Some t -> zlen t = zlen (of_type ty (anns a)).
Proof.
  intros h a ty t HS Ht. pose proof (tree_filter_perm h a ty t (fun _ _ => true) HS Ht) as P. rewrite !filter_true in P.
  apply Permutation_length in P. unfold refs in P. rewrite !map_length in P. unfold zlen. lia.
Qed.

Lemma entry_id : forall l ty t k e, Inv l -> l_tree l ty = Some t -> In (k, e) t ->
  ANid2tagref l (e_id e) = Some (tag_of_type ty, e_annref e) /\ tyok ty /\ 0 <= e_id e.
Proof.
  intros l ty t k e HI Ht Hin. destruct (inv_tree _ HI ty t Ht) as [Hty [_ Hent]]. destruct (Hent _ _ Hin) as [Hr [Hk [nd [Z1 Z2]]]].
  rewrite MAX_REF_val in Hr. split; [|split; [assumption | apply (inv_ids _ HI _ _ (zassoc_In _ _ _ _ Z1))]].
  apply (ANid2tagref_spec l (e_id e) ty (e_annref e) HI). exists nd. split; [assumption|]. rewrite Z2, Hk.
  split; [apply key_type | split; [apply key_ref | assumption]]; unfold tyok in Hty; lia.
Qed.

Lemma file_type_check : forall ty, tyok ty -> ((ty =? AN_FILE_LABEL) || (ty =? AN_FILE_DESC)) = negb (is_data ty).
Proof. intros ty H. unfold tyok in H. assert (ty = 0 \/ ty = 1 \/ ty = 2 \/ ty = 3) as [-> | [-> | [-> | ->]]] by lia; reflexivity. Qed.

Lemma sim_annlist : forall h a ty g r h' mr a' sr, Sim h a -> tyok ty ->
  mstep h (OAnnlist ty g r) = (h', mr) -> step a (OAnnlist ty g r) = (a', sr) -> sr = RUnspec \/ (Sim h' a' /\ accepts sr mr).
Proof.
  intros h a ty g r h' mr a' sr HS Hty HM HSp. unfold mstep in HM. cbv beta iota zeta in HM. simpl in HSp.
  rewrite (proj2 (valid_type_iff ty) Hty) in HSp. simpl in HSp. rewrite (sim_sess _ _ HS) in HSp.
  destruct (h_sess h) eqn:Eh; simpl in HM, HSp; [|inversion HM; inversion HSp; subst; right; split; [assumption | exact I]].
  unfold ANannlist in HM. rewrite (file_type_check ty Hty) in HM.
  destruct (is_data ty) eqn:Ed; simpl in HM, HSp; [|inversion HM; inversion HSp; subst; right; split; [destruct h; assumption | exact I]].
  unfold ANIannlist in HM. destruct (need_tree (h_lib h) ty) as [l1 rt] eqn:En.
  destruct (need_tree_Good _ _ _ _ (sim_good _ _ HS) Hty En) as [HG1 [[t [-> Ht]] [_ [HR [Hids _]]]]].
  pose proof (sim_keep h a l1 HS Eh HG1 HR Hids) as HS1.
  inversion HM; inversion HSp; subst h' mr a' sr. right. split; [assumption|]. simpl. split; [|constructor]. right.
  set (p := fun tg rf => (tg =? g) && (rf =? r)).
  pose proof (tree_filter_perm (hlib h l1) a ty t p HS1 Ht) as P.
  assert (Hf : filter (fun q => truth (ANIannlist_match (e_elmtag (snd q)) (e_elmref (snd q)) g r)) t =
               filter (fun q => p (e_elmtag (snd q)) (e_elmref (snd q))) t).
  { apply filter_ext. intros q. destruct (match_truth (e_elmtag (snd q)) (e_elmref (snd q)) g r) as [A _]. rewrite A. unfold p. apply andb_comm. }
  rewrite Hf. rewrite !map_map.
  assert (Hm : map (fun x => refof l1 (e_id (snd x))) (filter (fun q => p (e_elmtag (snd q)) (e_elmref (snd q))) t) =
               map (fun q => e_annref (snd q)) (filter (fun q => p (e_elmtag (snd q)) (e_elmref (snd q))) t)).
  { apply map_ext_in. intros [k e] Hin. apply filter_In in Hin. destruct Hin as [Hin _]. simpl.
    destruct (entry_id l1 ty t k e (proj1 HG1) Ht Hin) as [X _]. unfold refof. rewrite X. reflexivity. }
  rewrite Hm. unfold on_target. fold (p). 
  change (filter (fun a0 => (a_ttag a0 =? g) && (a_tref a0 =? r)) (of_type ty (anns a))) with (filter (fun x => p (a_ttag x) (a_tref x)) (of_type ty (anns a))).
  eexists _, _, _. split; [reflexivity|]. split; [|apply Permutation_sym; exact P].
  f_equal. unfold zlen. rewrite map_length. apply Permutation_length in P. unfold refs in P. rewrite !map_length in P. lia.
Qed.

Lemma sim_numann : forall h a ty g r h' mr a' sr, Sim h a -> tyok ty ->
  mstep h (ONumann ty g r) = (h', mr) -> step a (ONumann ty g r) = (a', sr) -> sr = RUnspec \/ (Sim h' a' /\ accepts sr mr).
Proof.
  intros h a ty g r h' mr a' sr HS Hty HM HSp. unfold mstep in HM. cbv beta iota zeta in HM. simpl in HSp.
  rewrite (proj2 (valid_type_iff ty) Hty) in HSp. simpl in HSp. rewrite (sim_sess _ _ HS) in HSp.
  destruct (h_sess h) eqn:Eh; simpl in HM, HSp; [|inversion HM; inversion HSp; subst; right; split; [assumption | exact I]].
  unfold ANnumann in HM. rewrite (file_type_check ty Hty) in HM.
  destruct (is_data ty) eqn:Ed; simpl in HM, HSp; [|inversion HM; inversion HSp; subst; right; split; [destruct h; assumption | exact I]].
  unfold ANInumann in HM. destruct (need_tree (h_lib h) ty) as [l1 rt] eqn:En.
  destruct (need_tree_Good _ _ _ _ (sim_good _ _ HS) Hty En) as [HG1 [[t [-> Ht]] [_ [HR [Hids _]]]]].
  pose proof (sim_keep h a l1 HS Eh HG1 HR Hids) as HS1.
  set (p := fun tg rf => (tg =? g) && (rf =? r)).
  pose proof (tree_filter_perm (hlib h l1) a ty t p HS1 Ht) as P.
  assert (Hf : filter (fun q => truth (ANInumann_match (e_elmtag (snd q)) (e_elmref (snd q)) g r)) t =
               filter (fun q => p (e_elmtag (snd q)) (e_elmref (snd q))) t).
  { apply filter_ext. intros q. destruct (match_truth (e_elmtag (snd q)) (e_elmref (snd q)) g r) as [_ A]. rewrite A. unfold p. apply andb_comm. }
  rewrite Hf in HM.
  assert (Hc : zlen (filter (fun q => p (e_elmtag (snd q)) (e_elmref (snd q))) t) = zlen (on_target ty g r (anns a))).
  { apply Permutation_length in P. unfold refs in P. rewrite !map_length in P. unfold zlen, on_target. fold p. 
    change (filter (fun a0 => (a_ttag a0 =? g) && (a_tref a0 =? r)) (of_type ty (anns a))) with (filter (fun x => p (a_ttag x) (a_tref x)) (of_type ty (anns a))). lia. }
  rewrite Hc in HM.
  assert (Hn : (zlen (on_target ty g r (anns a)) =? FAILV) = false) by (apply Z.eqb_neq; unfold zlen, FAILV; lia).
  rewrite Hn in HM. inversion HM; inversion HSp; subst. right. split; [assumption|]. simpl. split; [left; reflexivity | constructor].
Qed.

Lemma create_tree_ret : forall s ty s' n, ANIcreate_ann_tree s ty = (s', n) -> n <> FAILV -> n = l_num s' ty.
Proof.
  intros s ty s' n H Hn. unfold ANIcreate_ann_tree in H. destruct (l_num s ty =? -1); simpl in H; [|inversion H; subst; reflexivity].
  destruct (atype2tag ty); [|inversion H; subst; contradiction].
  destruct (load_tree _ _ _ _); inversion H; subst; [simpl; rewrite upd_same; reflexivity | contradiction].
Qed.

Lemma sim_load : forall h a ty l1 n, Sim h a -> h_sess h = true -> tyok ty -> ANIcreate_ann_tree (h_lib h) ty = (l1, n) ->
  Sim (hlib h l1) a /\ n = zlen (of_type ty (anns a)) /\ n <> FAILV.
Proof.
  intros h a ty l1 n HS Eh Hty Hc.
  destruct (create_tree_Good _ _ _ _ (sim_good _ _ HS) Hty Hc) as [HG1 [Hn [_ [HR [[t Ht] [_ [Hat _]]]]]]].
  pose proof (sim_keep h a l1 HS Eh HG1 HR (ids_preserved _ _ (proj1 (sim_good _ _ HS)) Hat)) as HS1.
  split; [assumption|]. split; [|assumption].
  rewrite (create_tree_ret _ _ _ _ Hc Hn). rewrite (tf_num _ (proj2 HG1) _ _ Ht). apply (tree_count (hlib h l1) a ty t HS1 Ht).
Qed.

Lemma sim_fileinfo : forall h a h' mr a' sr, Sim h a ->
  mstep h OFileInfo = (h', mr) -> step a OFileInfo = (a', sr) -> sr = RUnspec \/ (Sim h' a' /\ accepts sr mr).
Proof.
  intros h a h' mr a' sr HS HM HSp. unfold mstep in HM. cbv beta iota zeta in HM. simpl in HSp. rewrite (sim_sess _ _ HS) in HSp.
  destruct (h_sess h) eqn:Eh; simpl in HM, HSp; [|inversion HM; inversion HSp; subst; right; split; [assumption | exact I]].
  unfold ANfileinfo in HM.
  destruct (ANIcreate_ann_tree (h_lib h) AN_FILE_LABEL) as [l1 n1] eqn:E1.
  destruct (sim_load h a _ _ _ HS Eh tyok_fl E1) as [S1 [C1 N1]].
  destruct (n1 =? FAILV) eqn:F1; [apply Z.eqb_eq in F1; contradiction|].
  destruct (ANIcreate_ann_tree l1 AN_FILE_DESC) as [l2 n2] eqn:E2.
  destruct (sim_load (hlib h l1) a _ _ _ S1 Eh tyok_fd E2) as [S2 [C2 N2]].
  destruct (n2 =? FAILV) eqn:F2; [apply Z.eqb_eq in F2; contradiction|].
  destruct (ANIcreate_ann_tree l2 AN_DATA_LABEL) as [l3 n3] eqn:E3.
  destruct (sim_load (hlib (hlib h l1) l2) a _ _ _ S2 Eh tyok_dl E3) as [S3 [C3 N3]].
  destruct (n3 =? FAILV) eqn:F3; [apply Z.eqb_eq in F3; contradiction|].
  destruct (ANIcreate_ann_tree l3 AN_DATA_DESC) as [l4 n4] eqn:E4.
  destruct (sim_load (hlib (hlib (hlib h l1) l2) l3) a _ _ _ S3 Eh tyok_dd E4) as [S4 [C4 N4]].
  destruct (n4 =? FAILV) eqn:F4; [apply Z.eqb_eq in F4; contradiction|].
  inversion HM; inversion HSp; subst h' mr a' sr. right. split; [exact S4|]. simpl. split; [left; congruence | constructor].
Qed.

Lemma type_switch_agree : forall g, zassoc g ANtagref2id_type_switch = type_of_tag g.
Proof.
  intros g. unfold type_of_tag, ANtagref2id_type_switch. simpl.
  destruct (g =? 104) eqn:E1; [apply Z.eqb_eq in E1; subst; reflexivity|].
  destruct (g =? 105) eqn:E2; [apply Z.eqb_eq in E2; subst; reflexivity|].
  destruct (g =? 100) eqn:E3; [apply Z.eqb_eq in E3; subst; reflexivity|].
  destruct (g =? 101) eqn:E4; [apply Z.eqb_eq in E4; subst; reflexivity|].
  unfold DFTAG_DIL, DFTAG_DIA, DFTAG_FID, DFTAG_FD. rewrite E1, E2, E3, E4. reflexivity.
Qed.
Lemma type_of_tag_ok : forall g ty, type_of_tag g = Some ty -> tyok ty /\ g = tag_of_type ty.
Proof.
  intros g ty H. rewrite <- type_switch_agree in H. pose proof (tagref2id_type_ok _ _ H) as T. split; [assumption|].
  unfold ANtagref2id_type_switch in H. simpl in H.
  repeat match type of H with context [?x =? ?y] => destruct (Z.eqb_spec x y); [subst; inversion H; subst; reflexivity|] end. discriminate.
Qed.

Lemma sim_bind : forall h a l1 slot id ty ref, Sim (hlib h l1) a -> tyok ty -> ANid2tagref l1 id = Some (tag_of_type ty, ref) ->
  Sim (hset h l1 slot id) (mkstate (anns a) (slot_set slot (ty, ref) (slots a)) (sess a)).
Proof.
  intros h a l1 slot id ty ref HS T B. constructor; simpl; try apply HS.
  apply srel_bind; [apply (sim_slots _ _ HS) | assumption | assumption].
Qed.
Lemma sim_unbind' : forall h a l1 slot, Sim (hlib h l1) a ->
  Sim (hset h l1 slot FAILV) (mkstate (anns a) (slot_clear slot (slots a)) (sess a)).
Proof.
  intros h a l1 slot HS. constructor; simpl; try apply HS. apply srel_unbind. apply (sim_slots _ _ HS).
Qed.

Lemma sim_tagref2id : forall h a slot g r h' mr a' sr, Sim h a -> u16 r ->
  mstep h (OTagref2id slot g r) = (h', mr) -> step a (OTagref2id slot g r) = (a', sr) -> sr = RUnspec \/ (Sim h' a' /\ accepts sr mr).
Proof.
  intros h a slot g r h' mr a' sr HS Hr HM HSp. unfold mstep in HM. cbv beta iota zeta in HM. simpl in HSp. rewrite (sim_sess _ _ HS) in HSp.
  destruct (h_sess h) eqn:Eh; simpl in HM, HSp.
  2:{ inversion HM; inversion HSp; subst. right. split; [|exact I]. pose proof (sim_unbind h a slot HS) as X. rewrite (sim_sess _ _ HS), Eh in X. exact X. }
  unfold ANtagref2id in HM. rewrite type_switch_agree in HM.
  destruct (type_of_tag g) as [ty|] eqn:Eg.
  2:{ inversion HM; inversion HSp; subst. right. simpl. split; [|exact I]. pose proof (sim_unbind h a slot HS) as X. rewrite (sim_sess _ _ HS), Eh in X. exact X. }
  destruct (type_of_tag_ok _ _ Eg) as [Hty ->].
  destruct (need_tree (h_lib h) ty) as [l1 rt] eqn:En.
  destruct (need_tree_Good _ _ _ _ (sim_good _ _ HS) Hty En) as [HG1 [[t [-> Ht]] [_ [HR [Hids _]]]]].
  pose proof (sim_keep h a l1 HS Eh HG1 HR Hids) as HS1.
  destruct (tree_repr _ _ _ HG1 Ht) as [P1 P2]. destruct (inv_tree _ (proj1 HG1) ty t Ht) as [_ [Hs _]].
  destruct (tfind (AN_CREATE_KEY ty r) t) as [e|] eqn:Ef.
  - apply tfind_In in Ef. destruct (P1 _ _ Ef) as [K [x [X1 [X2 _]]]].
    destruct (inv_tree _ (proj1 HG1) ty t Ht) as [_ [_ Hent]]. destruct (Hent _ _ Ef) as [Rr _]. rewrite MAX_REF_val in Rr.
    apply key_inj in K; try (unfold tyok in Hty; unfold u16 in Hr; lia). destruct K as [_ K]. rewrite <- K in X2.
    assert (L : lookup (ty, r) (anns a) = Some x).
    { rewrite <- X2. apply In_lookup; [apply (sim_nodup _ _ HS) | apply (sim_repr _ _ HS1); assumption]. }
    rewrite L in HSp. destruct (entry_id l1 ty t _ e (proj1 HG1) Ht Ef) as [B [_ Hpos]]. rewrite <- K in B.
    assert (Hnf : (e_id e =? FAILV) = false) by (apply Z.eqb_neq; unfold FAILV; lia).
    inversion HM; inversion HSp; subst h' mr a' sr. rewrite Hnf. right. split; [|simpl; split; [left; reflexivity | constructor]].
    pose proof (sim_bind h a l1 slot (e_id e) ty r HS1 Hty B) as X. rewrite (sim_sess _ _ HS), Eh in X. exact X.
  - assert (L : lookup (ty, r) (anns a) = None).
    { destruct (lookup (ty, r) (anns a)) as [x|] eqn:L; [|reflexivity]. exfalso. apply lookup_In in L. destruct L as [L1 L2].
      apply (sim_repr _ _ HS1) in L1. destruct (P2 x L1 ltac:(rewrite L2; reflexivity)) as [e [E1 _]]. rewrite L2 in E1. simpl in E1.
      apply (In_tfind _ _ _ (tsorted_NoDup _ Hs)) in E1. congruence. }
    rewrite L in HSp. inversion HM; inversion HSp; subst h' mr a' sr. right. simpl. split; [|exact I].
    pose proof (sim_unbind' h a l1 slot HS1) as X. rewrite (sim_sess _ _ HS), Eh in X. exact X.
Qed.

Lemma sim_select : forall h a slot ty idx x0 h' mr a' sr, Sim h a -> tyok ty ->
  mstep h (OSelect slot ty idx x0) = (h', mr) -> step a (OSelect slot ty idx (ref_of mr)) = (a', sr) ->
  sr = RUnspec \/ (Sim h' a' /\ accepts sr mr).
Proof.
  intros h a slot ty idx x0 h' mr a' sr HS Hty HM HSp. unfold mstep in HM. cbv beta iota zeta in HM. simpl in HSp. rewrite (sim_sess _ _ HS) in HSp.
  destruct (h_sess h) eqn:Eh; simpl in HM, HSp.
  2:{ inversion HM; inversion HSp; subst. right. split; [|exact I]. pose proof (sim_unbind h a slot HS) as X. rewrite (sim_sess _ _ HS), Eh in X. exact X. }
  rewrite (proj2 (valid_type_iff ty) Hty) in HSp. simpl in HSp.
  destruct (ANselect (h_lib h) idx ty) as [l1 id] eqn:Es. inversion HM; subst h' mr; clear HM. unfold ANselect in Es.
  destruct (need_tree (h_lib h) ty) as [l0 rt] eqn:En.
  destruct (need_tree_Good _ _ _ _ (sim_good _ _ HS) Hty En) as [HG1 [[t [-> Ht]] [_ [HR [Hids _]]]]].
  pose proof (sim_keep h a l0 HS Eh HG1 HR Hids) as HS1.
  pose proof (tf_num _ (proj2 HG1) _ _ Ht) as Hnum. pose proof (tree_count (hlib h l0) a ty t HS1 Ht) as Hcnt.
  unfold ANselect_index_ok, truth in Es. rewrite Hnum in Es.
  destruct (0 <=? idx) eqn:E0; destruct (idx <? zlen t) eqn:E1; simpl in Es.
  - apply Z.leb_le in E0. apply Z.ltb_lt in E1.
    unfold tindex in Es. replace (idx + 1 <? 1) with false in Es by (symmetry; apply Z.ltb_ge; lia).
    replace (idx + 1 - 1) with idx in Es by lia.
    destruct (nth_error t (Z.to_nat idx)) as [[k e]|] eqn:En2.
    2:{ apply nth_error_None in En2. unfold zlen in E1. lia. }
    simpl in Es. inversion Es; subst l1 id; clear Es. apply nth_error_In in En2.
    destruct (entry_id l0 ty t k e (proj1 HG1) Ht En2) as [B [_ Hpos]].
    unfold ptagref in *. replace (e_id e =? FAILV) with false in * by (symmetry; apply Z.eqb_neq; unfold FAILV; lia).
    rewrite B in *. simpl in HSp.
    replace ((idx <? 0) || (zlen (of_type ty (anns a)) <=? idx)) with false in HSp
      by (symmetry; apply orb_false_iff; split; [apply Z.ltb_ge | apply Z.leb_gt]; lia).
    destruct (tree_repr _ _ _ HG1 Ht) as [P1 _]. destruct (P1 _ _ En2) as [_ [x [X1 [X2 _]]]].
    assert (L : lookup (ty, e_annref e) (anns a) = Some x).
    { rewrite <- X2. apply In_lookup; [apply (sim_nodup _ _ HS) | apply (sim_repr _ _ HS1); assumption]. }
    rewrite L in HSp. inversion HSp; subst a' sr. right. split; [|simpl; split; [left; reflexivity | constructor]].
    pose proof (sim_bind h a l0 slot (e_id e) ty (e_annref e) HS1 Hty B) as X. rewrite (sim_sess _ _ HS), Eh in X. exact X.
  - inversion Es; subst l1 id. unfold ptagref in *. simpl in *. apply Z.ltb_ge in E1.
    replace ((idx <? 0) || (zlen (of_type ty (anns a)) <=? idx)) with true in HSp
      by (symmetry; apply orb_true_iff; right; apply Z.leb_le; lia).
    inversion HSp; subst. right. split; [|exact I]. pose proof (sim_unbind' h a l0 slot HS1) as X. rewrite (sim_sess _ _ HS), Eh in X. exact X.
  - inversion Es; subst l1 id. unfold ptagref in *. simpl in *. apply Z.leb_gt in E0.
    replace ((idx <? 0) || (zlen (of_type ty (anns a)) <=? idx)) with true in HSp
      by (symmetry; apply orb_true_iff; left; apply Z.ltb_lt; lia).
    inversion HSp; subst. right. split; [|exact I]. pose proof (sim_unbind' h a l0 slot HS1) as X. rewrite (sim_sess _ _ HS), Eh in X. exact X.
  - inversion Es; subst l1 id. unfold ptagref in *. simpl in *. apply Z.leb_gt in E0.
    replace ((idx <? 0) || (zlen (of_type ty (anns a)) <=? idx)) with true in HSp
      by (symmetry; apply orb_true_iff; left; apply Z.ltb_lt; lia).
    inversion HSp; subst. right. split; [|exact I]. pose proof (sim_unbind' h a l0 slot HS1) as X. rewrite (sim_sess _ _ HS), Eh in X. exact X.
Qed.

(* ================= I. the assembled step and run theorems (AN interface) ===================================== *)
Theorem an_step_sim : forall h a o h' mr a' sr, Sim h a -> an_op o ->
  mstep h o = (h', mr) -> step a (fill o mr) = (a', sr) ->
  sr = RUnspec \/ exhausted sr mr \/ (Sim h' a' /\ accepts sr mr).
Proof.
  intros h a o h' mr a' sr HS Hop HM HSp. destruct o; simpl in Hop; try contradiction; unfold fill in HSp.
  - destruct (sim_start _ _ _ _ _ _ HS HM HSp); auto.
  - destruct (sim_end _ _ _ _ _ _ HS HM HSp); auto.
  - destruct Hop as [Hg Hr]. exact (sim_create _ _ _ _ _ _ _ _ _ _ _ HS Hg Hr HM HSp).
  - exact (sim_createf _ _ _ _ _ _ _ _ _ HS HM HSp).
  - destruct (sim_write _ _ _ _ _ _ _ _ HS HM HSp); auto.
  - destruct (sim_read _ _ _ _ _ _ _ _ HS HM HSp); auto.
  - destruct (sim_len _ _ _ _ _ _ _ HS HM HSp); auto.
  - destruct (sim_select _ _ _ _ _ _ _ _ _ _ HS Hop HM HSp); auto.
  - destruct (sim_fileinfo _ _ _ _ _ _ HS HM HSp); auto.
  - destruct (sim_numann _ _ _ _ _ _ _ _ _ HS Hop HM HSp); auto.
  - destruct (sim_annlist _ _ _ _ _ _ _ _ _ HS Hop HM HSp); auto.
  - destruct (sim_tagref2id _ _ _ _ _ _ _ _ _ HS Hop HM HSp); auto.
  - destruct (sim_id2tagref _ _ _ _ _ _ _ HS HM HSp); auto.
  - destruct (sim_endaccess _ _ _ _ _ _ _ HS HM HSp); auto.
Qed.

(** running M and S side by side; S is fed the refs M chose.  The run is accepted up to the first operation S puts
    outside the domain (RUnspec) or the exhaustion of the 16-bit ref space (C20). *)
Fixpoint run_ok (h : hstate) (a : state) (ops : list op) : Prop :=
  match ops with
  | [] => True
  | o :: t => let '(h', mr) := mstep h o in let '(a', sr) := step a (fill o mr) in
              sr = RUnspec \/ exhausted sr mr \/ (accepts sr mr /\ run_ok h' a' t)
  end.

Theorem an_run_sim : forall ops h a, Sim h a -> Forall an_op ops -> run_ok h a ops.
Proof.
  induction ops as [|o t IH]; simpl; intros h a HS Hops; [exact I|]. inversion Hops; subst.
  destruct (mstep h o) as [h' mr] eqn:EM. destruct (step a (fill o mr)) as [a' sr] eqn:ES.
  destruct (an_step_sim _ _ _ _ _ _ _ HS H1 EM ES) as [X|[X|[X Y]]]; auto.
Qed.

Lemma TF_init : TF linit.
Proof. constructor; simpl; try discriminate; try contradiction. constructor. Qed.
Lemma Sim_init : Sim hinit init.
Proof.
  constructor; simpl.
  - split; [exact Inv_init | exact TF_init].
  - constructor.
  - intros x. split; [contradiction|]. intros [_ [[d [[] _]]|[_ [_ [t [e [C _]]]]]]]. discriminate.
  - reflexivity.
  - intros _. split; reflexivity.
  - intros slot. reflexivity.
Qed.

(* ================= J. DFAN calls between sessions keep the state representable ================================= *)
Definition is_dfan (o : op) : Prop :=
  match o with ODfPut _ _ _ _ _ | ODfGet _ _ _ _ | ODfGetLen _ _ _ | ODfAddF _ _ _ | ODfGetFs _ | ODfLablist _ _ => True | _ => False end.

Definition dds_shape (l l' : lstate) : Prop :=
  l_dds l' = l_dds l \/
  exists tag ref data, l_dds l' = hput tag ref data (l_dds l) /\ (exists ty, tyok ty /\ tag = tag_of_type ty) /\
                       (is_data_tag tag = true -> 4 <= zlen data).

Lemma dfan_tag_type : forall k, exists ty, tyok ty /\ dfan_tag k = tag_of_type ty.
Proof. intros k. unfold dfan_tag. destruct (k =? DFAN_LABEL); [exists 0 | exists 1]; split; try reflexivity; unfold tyok; lia. Qed.

Lemma DFANIputann_shape : forall s k g r txt s' ok, DFANIputann s k g r txt = (s', ok) -> dds_shape s s'.
Proof.
  intros s k g r txt s' ok H. unfold DFANIputann in H.
  destruct (_ || _); [inversion H; subst; left; reflexivity|].
  destruct (DFANIlocate s k g r) as [s1 found] eqn:El. destruct (DFANIlocate_frame _ _ _ _ _ _ El) as [_ D1].
  destruct (found =? 0) eqn:Ef;
  repeat dmatch H; inversion H; subst; try (left; simpl; assumption);
  right; exists (dfan_tag k); eexists; eexists; (split; [simpl; rewrite D1; reflexivity|]); (split; [apply dfan_tag_type|]);
  intros _; unfold zlen, encode_target; rewrite ?app_length; cbn [length app]; lia.
Qed.

Lemma DFANIaddfann_shape : forall s k txt s' ok, DFANIaddfann s k txt = (s', ok) -> dds_shape s s'.
Proof.
  intros s k txt s' ok H. unfold DFANIaddfann in H.
  repeat dmatch H; inversion H; subst; try (left; reflexivity);
  right; eexists; eexists; eexists; (split; [simpl; reflexivity|]);
  (split; [destruct (k =? DFAN_LABEL); [exists 2 | exists 3]; split; try reflexivity; unfold tyok; lia|]);
  intros X; destruct (k =? DFAN_LABEL); discriminate.
Qed.

Lemma dfan_step_shape : forall h o h' mr, is_dfan o -> mstep h o = (h', mr) ->
  same_tables (h_lib h) (h_lib h') /\ h_slots h' = h_slots h /\ h_sess h' = h_sess h /\ dds_shape (h_lib h) (h_lib h').
Proof.
  intros h o h' mr Hd H. destruct o; simpl in Hd; try contradiction; unfold mstep in H; cbv beta iota zeta in H;
  (destruct (h_sess h) eqn:Es; [inversion H; subst; split; [apply same_tables_refl|]; split; [reflexivity|]; split; [assumption|]; left; reflexivity|]).
  - destruct (DFANIputann _ _ _ _ _) as [l1 ok] eqn:E. inversion H; subst. simpl.
    destruct (DFANIputann_Inv _ _ _ _ _ _ _ Inv_init E) as [_ _] || idtac.
    assert (F : same_tables (h_lib h) l1).
    { unfold DFANIputann in E. destruct (_ || _); [inversion E; subst; apply same_tables_refl|].
      destruct (DFANIlocate (h_lib h) kind ttag tref) as [s1 found] eqn:El. destruct (DFANIlocate_frame _ _ _ _ _ _ El) as [F1 _].
      destruct (found =? 0) eqn:Ef;
      repeat dmatch E; inversion E; subst; try assumption; (eapply same_tables_trans; [exact F1 | repeat split]). }
    split; [assumption|]. split; [reflexivity|]. split; [assumption|]. apply (DFANIputann_shape _ _ _ _ _ _ _ E).
  - destruct (DFANIgetann _ _ _ _ _) as [l1 [b|]] eqn:E; destruct (DFANIgetann_frame _ _ _ _ _ _ _ E) as [F D];
    inversion H; subst; simpl; (split; [assumption|]; split; [reflexivity|]; split; [assumption|]; left; assumption).
  - destruct (DFANIgetannlen _ _ _ _) as [l1 n] eqn:E; destruct (DFANIgetannlen_frame _ _ _ _ _ _ E) as [F D].
    inversion H; subst; simpl. split; [assumption|]. split; [reflexivity|]. split; [assumption|]. left; assumption.
  - destruct (DFANIaddfann _ _ _) as [l1 ok] eqn:E. inversion H; subst. simpl.
    assert (F : same_tables (h_lib h) l1) by (unfold DFANIaddfann in E; repeat dmatch E; inversion E; subst; repeat split).
    split; [assumption|]. split; [reflexivity|]. split; [assumption|]. apply (DFANIaddfann_shape _ _ _ _ _ E).
  - destruct (enum_fann _ _ _ _) as [l1 [ts|]] eqn:E; destruct (enum_fann_frame _ _ _ _ _ _ E) as [F D];
    inversion H; subst; simpl; (split; [assumption|]; split; [reflexivity|]; split; [assumption|]; left; assumption).
  - destruct (DFANIlablist _ _ _ _) as [l1 [[orefs labs]|]] eqn:E; destruct (DFANIlablist_frame _ _ _ _ _ _ E) as [F D];
    inversion H; subst; simpl; (split; [assumption|]; split; [reflexivity|]; split; [assumption|]; left; assumption).
Qed.

Definition ty_of (g : Z) : Z := match type_of_tag g with Some t => t | None => 0 end.
Definition ann_of (d : dd) : ann :=
  mkann (ty_of (d_tag d), d_ref d) (fst (target_of (ty_of (d_tag d)) d)) (snd (target_of (ty_of (d_tag d)) d))
        (Some (payload_text (d_tag d) (d_data d))).
Definition abs_closed (l : lstate) : state := mkstate (map ann_of (l_dds l)) [] false.

Lemma ty_of_tag_of_type : forall ty, tyok ty -> ty_of (tag_of_type ty) = ty.
Proof. intros ty H. unfold tyok in H. assert (ty = 0 \/ ty = 1 \/ ty = 2 \/ ty = 3) as [-> | [-> | [-> | ->]]] by lia; reflexivity. Qed.

Lemma NoDup_map_inj : forall A B (f : A -> B) l x y, NoDup (map f l) -> In x l -> In y l -> f x = f y -> x = y.
Proof.
  induction l as [|a t IH]; simpl; intros x y ND Hx Hy E; [contradiction|]. inversion ND as [|? ? Hn ND']; subst.
  destruct Hx as [->|Hx]; destruct Hy as [->|Hy]; auto.
  - exfalso. apply Hn. rewrite E. apply in_map. assumption.
  - exfalso. apply Hn. rewrite <- E. apply in_map. assumption.
Qed.

Lemma closed_sim : forall l hs, Good l -> (forall ty, l_tree l ty = None) -> l_atoms l = [] ->
  (forall slot, sget hs slot = FAILV) -> Sim (mkh l hs false) (abs_closed l).
Proof.
  intros l hs [HI HT] Htr Hat Hs. constructor; simpl.
  - split; assumption.
  - unfold keys. rewrite map_map. apply NoDup_map_in.
    + apply (NoDup_map_inv ddkey). apply (tf_nodup _ HT).
    + intros x y Hx Hy E. simpl in E. inversion E as [[E1 E2]].
      destruct (tf_tags _ HT x Hx) as [tx [Tx Gx]]. destruct (tf_tags _ HT y Hy) as [ty [Ty Gy]].
      rewrite Gx, Gy, !ty_of_tag_of_type in E1 by assumption. subst ty.
      apply (NoDup_map_inj _ _ ddkey (l_dds l)); [apply (tf_nodup _ HT) | assumption | assumption|]. unfold ddkey. congruence.
  - intros [[xt xr] xg xf xtx]. rewrite in_map_iff. unfold Repr. cbn [a_key a_text a_ttag a_tref fst snd]. split.
    + intros [d [E Hd]]. unfold ann_of in E. inversion E; subst xt xr xg xf xtx; clear E.
      destruct (tf_tags _ HT d Hd) as [ty [Ty Gy]]. rewrite Gy, ty_of_tag_of_type by assumption.
      split; [split; [assumption | apply (inv_refs _ HI d Hd)]|]. left. exists d. rewrite <- Gy.
      repeat split; auto. destruct (target_of ty d); reflexivity.
    + intros [[T R] [[d [D1 [D2 [D3 [D4 D5]]]]]|[_ [_ [t [e [C _]]]]]]]; [|rewrite Htr in C; discriminate].
      exists d. split; [|assumption]. unfold ann_of. rewrite D2, ty_of_tag_of_type by assumption. rewrite <- D5. simpl. rewrite D3, D4, D2. reflexivity.
  - reflexivity.
  - intros _. split; assumption.
  - intros slot. simpl. apply Hs.
Qed.

Lemma TF_hput_closed : forall l l' tag ref data, TF l -> (forall ty, l_tree l' ty = None) ->
  l_dds l' = hput tag ref data (l_dds l) -> (exists ty, tyok ty /\ tag = tag_of_type ty) ->
  (is_data_tag tag = true -> 4 <= zlen data) -> TF l'.
Proof.
  intros l l' tag ref data HT Htr Hd Htag Hlen. constructor; rewrite ?Hd; try (intros ty t; intros; rewrite Htr in *; discriminate).
  - apply hput_keys_NoDup. apply (tf_nodup _ HT).
  - intros d Hin Hdat. apply (hput_In _ _ _ _ _ (tf_nodup _ HT)) in Hin. destruct Hin as [->|[Hin _]]; [apply Hlen; assumption | apply (tf_len _ HT); assumption].
  - intros d Hin. apply (hput_In _ _ _ _ _ (tf_nodup _ HT)) in Hin. destruct Hin as [->|[Hin _]]; [exact Htag | apply (tf_tags _ HT); assumption].
Qed.

Lemma closed_slots : forall h a, Sim h a -> h_sess h = false -> forall slot, sget (h_slots h) slot = FAILV.
Proof.
  intros h a HS Hc slot. destruct (sim_closed _ _ HS Hc) as [_ C2]. pose proof (sim_slots _ _ HS slot) as X.
  destruct (slot_get slot (slots a)); [|assumption]. destruct X as [_ X]. unfold ANid2tagref in X. rewrite C2 in X. discriminate.
Qed.

(** any DFAN call leaves a state that some specification state represents (which annotation a DFAN call picks or
    replaces is not decided here: that is the R-vs-S / R-vs-M correspondence) *)
Lemma dfan_representable : forall h a o h' mr, Sim h a -> is_dfan o -> mstep h o = (h', mr) -> exists a', Sim h' a'.
Proof.
  intros h a o h' mr HS Hd HM. destruct (dfan_step_shape _ _ _ _ Hd HM) as [F [Hsl [Hse Hsh]]].
  pose proof (sim_good _ _ HS) as [HI HT]. destruct F as [F1 [F2 [F3 F4]]].
  destruct (h_sess h) eqn:Es.
  - (* inside a session the harness does not issue the call *)
    assert (h' = h).
    { destruct o; simpl in Hd; try contradiction; unfold mstep in HM; cbv beta iota zeta in HM; rewrite Es in HM; inversion HM; reflexivity. }
    subst h'. eauto.
  - destruct (sim_closed _ _ HS Es) as [C1 C2].
    assert (HI' : Inv (h_lib h')).
    { destruct o; simpl in Hd; try contradiction; eapply mstep_Inv; try eassumption; exact I. }
    assert (Htr' : forall ty, l_tree (h_lib h') ty = None) by (intros ty; rewrite F1; apply C1).
    assert (HT' : TF (h_lib h')).
    { destruct Hsh as [Hsame|[tag [ref [data [Hd' [Htag Hlen]]]]]].
      - apply (TF_ext (h_lib h)); assumption.
      - apply (TF_hput_closed (h_lib h) (h_lib h') tag ref data); assumption. }
    exists (abs_closed (h_lib h')). destruct h' as [l' hs' se']. simpl in *. subst se' hs'.
    apply closed_sim; [split; assumption | assumption | rewrite F3; assumption | apply (closed_slots _ _ HS Es)].
Qed.

(** states reachable by AN and DFAN calls within the property's domain, each with a specification state representing it *)
Inductive reach : hstate -> state -> Prop :=
| reach_init : reach hinit init
| reach_an : forall h a o h' mr a' sr, reach h a -> an_op o -> mstep h o = (h', mr) -> step a (fill o mr) = (a', sr) ->
             sr <> RUnspec -> ~ exhausted sr mr -> reach h' a'
| reach_df : forall h a o h' mr a', reach h a -> is_dfan o -> mstep h o = (h', mr) -> Sim h' a' -> reach h' a'.

Lemma reach_Sim : forall h a, reach h a -> Sim h a.
Proof.
  induction 1; [exact Sim_init | | assumption].
  destruct (an_step_sim _ _ _ _ _ _ _ IHreach H0 H1 H2) as [X|[X|[X _]]]; [contradiction | contradiction | assumption].
Qed.

(* ================= K. listing is exact in every reachable state ============================================== *)
Lemma list_exact_lemma : forall h a, reach h a ->
  (forall ty g r h' mr a' sr, tyok ty -> mstep h (OAnnlist ty g r) = (h', mr) -> step a (OAnnlist ty g r) = (a', sr) ->
     Sim h' a' /\ accepts sr mr /\ sr <> RUnspec) /\
  (forall ty g r h' mr a' sr, tyok ty -> mstep h (ONumann ty g r) = (h', mr) -> step a (ONumann ty g r) = (a', sr) ->
     Sim h' a' /\ accepts sr mr /\ sr <> RUnspec) /\
  (forall h' mr a' sr, mstep h OFileInfo = (h', mr) -> step a OFileInfo = (a', sr) ->
     Sim h' a' /\ accepts sr mr /\ sr <> RUnspec) /\
  (forall slot ty idx x0 h' mr a' sr, tyok ty -> mstep h (OSelect slot ty idx x0) = (h', mr) ->
     step a (OSelect slot ty idx (ref_of mr)) = (a', sr) -> Sim h' a' /\ accepts sr mr /\ sr <> RUnspec).
Proof.
  intros h a Hr. pose proof (reach_Sim _ _ Hr) as HS. split; [|split; [|split]].
  - intros ty g r h' mr a' sr Hty HM HSp.
    assert (N : sr <> RUnspec).
    { simpl in HSp. rewrite (proj2 (valid_type_iff ty) Hty) in HSp. simpl in HSp. destruct (_ || _); inversion HSp; discriminate. }
    destruct (sim_annlist _ _ _ _ _ _ _ _ _ HS Hty HM HSp) as [X|[X Y]]; [contradiction | auto].
  - intros ty g r h' mr a' sr Hty HM HSp.
    assert (N : sr <> RUnspec).
    { simpl in HSp. rewrite (proj2 (valid_type_iff ty) Hty) in HSp. simpl in HSp. destruct (_ || _); inversion HSp; discriminate. }
    destruct (sim_numann _ _ _ _ _ _ _ _ _ HS Hty HM HSp) as [X|[X Y]]; [contradiction | auto].
  - intros h' mr a' sr HM HSp.
    assert (N : sr <> RUnspec) by (simpl in HSp; destruct (negb (sess a)); inversion HSp; discriminate).
    destruct (sim_fileinfo _ _ _ _ _ _ HS HM HSp) as [X|[X Y]]; [contradiction | auto].
  - intros slot ty idx x0 h' mr a' sr Hty HM HSp.
    assert (N : sr <> RUnspec).
    { simpl in HSp. destruct (negb (sess a)); [inversion HSp; discriminate|]. rewrite (proj2 (valid_type_iff ty) Hty) in HSp. simpl in HSp.
      destruct (_ || _); [inversion HSp; discriminate|]. destruct (lookup _ _); inversion HSp; discriminate. }
    destruct (sim_select _ _ _ _ _ _ _ _ _ _ HS Hty HM HSp) as [X|[X Y]]; [contradiction | auto].
Qed.
