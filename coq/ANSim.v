(** C11 -- the simulation between the implementation model M (ANModel.mstep) and the specification S
    (ANSpec.step): the relation [Sim], and the per-operation lemmas.  Used by Properties_C11.v. *)
From Coq Require Import ZArith List Bool Lia Permutation Sorted.
Require Import H4.ANLang H4.gen.Gen_AN H4.ANSpec H4.ANModel H4.ANProofs H4.ANProofs2.
Import ListNotations.
Local Open Scope Z_scope.

(* ================= A. the finite map of the specification ==================================================== *)
Definition keys (l : list ann) : list key := map a_key l.

Lemma key_eqb_eq : forall a b, key_eqb a b = true <-> a = b.
Proof.
  intros [a1 a2] [b1 b2]. unfold key_eqb. simpl. rewrite andb_true_iff, !Z.eqb_eq. split; [intros [-> ->]; reflexivity | intros E; inversion E; auto].
Qed.
Lemma key_eqb_refl : forall a, key_eqb a a = true. Proof. intros. apply key_eqb_eq. reflexivity. Qed.
Lemma key_eqb_neq : forall a b, key_eqb a b = false <-> a <> b.
Proof. intros. rewrite <- key_eqb_eq. destruct (key_eqb a b); split; congruence. Qed.

Lemma lookup_In : forall l k x, lookup k l = Some x -> In x l /\ a_key x = k.
Proof.
  induction l as [|a t IH]; simpl; intros k x H; [discriminate|].
  destruct (key_eqb k (a_key a)) eqn:E.
  - apply key_eqb_eq in E. inversion H; subst. auto.
  - destruct (IH _ _ H). auto.
Qed.
Lemma In_lookup : forall l x, NoDup (keys l) -> In x l -> lookup (a_key x) l = Some x.
Proof.
  induction l as [|a t IH]; simpl; intros x ND H; [contradiction|]. inversion ND as [|? ? Hn ND']; subst.
  destruct H as [->|H]; [rewrite key_eqb_refl; reflexivity|].
  destruct (key_eqb (a_key x) (a_key a)) eqn:E; [|auto].
  apply key_eqb_eq in E. exfalso. apply Hn. rewrite <- E. apply in_map. assumption.
Qed.
Lemma lookup_None : forall l k, lookup k l = None <-> ~ In k (keys l).
Proof.
  induction l as [|a t IH]; simpl; intros k; [split; auto|].
  destruct (key_eqb k (a_key a)) eqn:E.
  - apply key_eqb_eq in E. split; [discriminate | intros H; exfalso; apply H; left; congruence].
  - apply key_eqb_neq in E. rewrite IH. split; intros H; [intros [X|X]; [congruence|auto] | intros X; apply H; right; assumption].
Qed.

Lemma set_text_keys : forall k txt l, keys (set_text k txt l) = keys l.
Proof.
  induction l as [|a t IH]; simpl; [reflexivity|]. destruct (key_eqb k (a_key a)) eqn:E; simpl.
  - apply key_eqb_eq in E. rewrite E. reflexivity.
  - f_equal. exact IH.
Qed.
Lemma set_text_In : forall k txt l x, NoDup (keys l) ->
  (In x (set_text k txt l) <->
   (exists y, In y l /\ a_key y = k /\ x = mkann k (a_ttag y) (a_tref y) (Some txt)) \/ (In x l /\ a_key x <> k)).
Proof.
  induction l as [|a t IH]; simpl; intros x ND.
  - split; [contradiction | intros [[y [[] _]]|[[] _]]].
  - inversion ND as [|? ? Hn ND']; subst. destruct (key_eqb k (a_key a)) eqn:E; simpl.
    + apply key_eqb_eq in E. split.
      * intros [H|H]; [left; exists a; auto|]. right. split; [auto|]. intros X. apply Hn. rewrite <- E, <- X. apply in_map. assumption.
      * intros [[y [[Hy|Hy] [Ky X]]]|[[H|H] N]].
        -- subst. left. reflexivity.
        -- exfalso. apply Hn. rewrite <- E, <- Ky. apply in_map. assumption.
        -- subst. congruence.
        -- right. assumption.
    + apply key_eqb_neq in E. rewrite (IH x ND'). split.
      * intros [H|[[y [Hy R]]|[H N]]]; [right; subst; split; [left; reflexivity | congruence] | left; exists y; split; [right|]; tauto | right; tauto].
      * intros [[y [[Hy|Hy] [Ky X]]]|[[H|H] N]]; [subst; congruence | right; left; exists y; auto | left; assumption | right; right; auto].
Qed.

Lemma NoDup_app_one : forall A (l : list A) x, NoDup l -> ~ In x l -> NoDup (l ++ [x]).
Proof.
  induction l as [|a t IH]; simpl; intros x ND H; [constructor; [auto|constructor]|].
  inversion ND; subst. constructor; [|apply IH; auto]. rewrite in_app_iff. simpl. intuition.
Qed.

Lemma NoDup_filter_keys : forall f l, NoDup (keys l) -> NoDup (keys (filter f l)).
Proof.
  induction l as [|a t IH]; simpl; intros ND; [constructor|]. inversion ND; subst.
  destruct (f a); simpl; [constructor|]; auto. intros X. apply H1. unfold keys in *. apply in_map_iff in X.
  destruct X as [y [E Hy]]. apply filter_In in Hy. rewrite <- E. apply in_map. tauto.
Qed.

(** two duplicate-free lists with the same elements have the same length / are permutations *)
Lemma same_elems_perm : forall A (l l' : list A), NoDup l -> NoDup l' -> (forall x, In x l <-> In x l') -> Permutation l l'.
Proof. intros. apply NoDup_Permutation; assumption. Qed.

(* type <-> tag *)
Lemma atype2tag_iff : forall ty g, atype2tag ty = Some g <-> tyok ty /\ g = tag_of_type ty.
Proof.
  intros ty g. split.
  - intros H. pose proof (atype2tag_ok _ _ H) as T. split; [assumption|]. unfold tyok in T.
    assert (ty = 0 \/ ty = 1 \/ ty = 2 \/ ty = 3) as [-> | [-> | [-> | ->]]] by lia; vm_compute in H; inversion H; reflexivity.
  - intros [T ->]. unfold tyok in T. assert (ty = 0 \/ ty = 1 \/ ty = 2 \/ ty = 3) as [-> | [-> | [-> | ->]]] by lia; reflexivity.
Qed.
Lemma valid_type_iff : forall ty, valid_type ty = true <-> tyok ty.
Proof. intros. unfold valid_type, tyok. rewrite andb_true_iff, !Z.leb_le. tauto. Qed.
Lemma tag_of_type_inj : forall t1 t2, tyok t1 -> tyok t2 -> tag_of_type t1 = tag_of_type t2 -> t1 = t2.
Proof.
  intros t1 t2 H1 H2. unfold tyok in *.
  assert (t1 = 0 \/ t1 = 1 \/ t1 = 2 \/ t1 = 3) as [-> | [-> | [-> | ->]]] by lia;
  assert (t2 = 0 \/ t2 = 1 \/ t2 = 2 \/ t2 = 3) as [-> | [-> | [-> | ->]]] by lia; vm_compute; congruence.
Qed.
Lemma is_data_same : forall ty, is_data_type ty = is_data ty. Proof. reflexivity. Qed.
Lemma is_data_tag_type : forall ty, tyok ty -> is_data_tag (tag_of_type ty) = is_data ty.
Proof. intros ty H. unfold tyok in H. assert (ty = 0 \/ ty = 1 \/ ty = 2 \/ ty = 3) as [-> | [-> | [-> | ->]]] by lia; reflexivity. Qed.
Lemma is_label_tag_type : forall ty, tyok ty -> is_label_tag (tag_of_type ty) = is_label ty.
Proof. intros ty H. unfold tyok in H. assert (ty = 0 \/ ty = 1 \/ ty = 2 \/ ty = 3) as [-> | [-> | [-> | ->]]] by lia; reflexivity. Qed.

(* ================= B. what the tables of M represent ============================================================ *)
Definition ddkey (d : dd) : Z * Z := (d_tag d, d_ref d).
Definition target_of (ty : Z) (d : dd) : Z * Z := if is_data_type ty then decode_target (d_data d) else (d_tag d, d_ref d).

(** the annotation [x] exists in library state [l]: written (a descriptor in the file) or created in this session
    and not written yet (an entry of the loaded tree without a descriptor) *)
Definition Repr (l : lstate) (x : ann) : Prop :=
  (tyok (fst (a_key x)) /\ 1 <= snd (a_key x) <= MAX_REF) /\
  ((exists d, In d (l_dds l) /\ d_tag d = tag_of_type (fst (a_key x)) /\ d_ref d = snd (a_key x) /\
              a_text x = Some (payload_text (d_tag d) (d_data d)) /\ (a_ttag x, a_tref x) = target_of (fst (a_key x)) d)
   \/ (a_text x = None /\ hfind (tag_of_type (fst (a_key x))) (snd (a_key x)) (l_dds l) = None /\
       exists t e, l_tree l (fst (a_key x)) = Some t /\ In (AN_CREATE_KEY (fst (a_key x)) (snd (a_key x)), e) t /\
                   (a_ttag x, a_tref x) = (e_elmtag e, e_elmref e))).

Record TF (l : lstate) : Prop := mkTF {
  tf_nodup : NoDup (map ddkey (l_dds l));
  tf_len : forall d, In d (l_dds l) -> is_data_tag (d_tag d) = true -> 4 <= zlen (d_data d);
  tf_tags : forall d, In d (l_dds l) -> exists ty, tyok ty /\ d_tag d = tag_of_type ty;
  tf_file : forall ty t d, l_tree l ty = Some t -> In d (l_dds l) -> d_tag d = tag_of_type ty ->
            exists e, In (AN_CREATE_KEY ty (d_ref d), e) t /\ (e_elmtag e, e_elmref e) = target_of ty d;
  tf_old : forall ty t k e nd, l_tree l ty = Some t -> In (k, e) t -> zassoc (e_id e) (l_atoms l) = Some nd ->
           n_new nd = false -> exists d, In d (l_dds l) /\ d_tag d = tag_of_type ty /\ d_ref d = e_annref e;
  tf_num : forall ty t, l_tree l ty = Some t -> l_num l ty = zlen t;
  tf_range : forall ty t k e, l_tree l ty = Some t -> In (k, e) t -> 0 <= e_elmtag e < 65536 /\ 0 <= e_elmref e < 65536
}.

Lemma hfind_In : forall tag ref dds d, NoDup (map ddkey dds) -> In d dds -> d_tag d = tag -> d_ref d = ref -> hfind tag ref dds = Some d.
Proof.
  induction dds as [|x t IH]; simpl; intros d ND H Ht Hr; [contradiction|]. inversion ND as [|? ? Hn ND']; subst.
  unfold hfind. simpl. destruct H as [->|H].
  - unfold dd_is. rewrite !Z.eqb_refl. reflexivity.
  - destruct (dd_is (d_tag d) (d_ref d) x) eqn:E.
    + unfold dd_is in E. apply andb_true_iff in E. destruct E as [E1 E2]. apply Z.eqb_eq in E1. apply Z.eqb_eq in E2.
      exfalso. apply Hn. replace (ddkey x) with (ddkey d) by (unfold ddkey; congruence). apply in_map. assumption.
    + apply (IH d ND' H eq_refl eq_refl).
Qed.
Lemma hfind_none : forall tag ref dds, hfind tag ref dds = None -> forall d, In d dds -> d_tag d = tag -> d_ref d = ref -> False.
Proof.
  intros tag ref dds H d Hin Ht Hr. unfold hfind in H. pose proof (find_none _ _ H d Hin) as X. unfold dd_is in X.
  rewrite Ht, Hr, !Z.eqb_refl in X. discriminate.
Qed.

Lemma uint16_decode_range : forall b0 b1, 0 <= UINT16DECODE b0 b1 < 65536.
Proof.
  intros. unfold UINT16DECODE.
  set (x := Z.shiftl (Z.land b0 255) 8 mod 65536). set (y := Z.land b1 255 mod 65536).
  assert (Hx : 0 <= x < 2 ^ 16) by (apply Z.mod_pos_bound; lia). assert (Hy : 0 <= y < 2 ^ 16) by (apply Z.mod_pos_bound; lia).
  split; [apply Z.lor_nonneg; lia|].
  destruct (Z.eq_dec (Z.lor x y) 0) as [->|N]; [lia|].
  assert (P : 0 < Z.lor x y) by (assert (0 <= Z.lor x y) by (apply Z.lor_nonneg; lia); lia).
  change 65536 with (2 ^ 16). apply (proj2 (Z.log2_lt_pow2 (Z.lor x y) 16 P)).
  rewrite Z.log2_lor by lia. apply Z.max_lub_lt.
  - destruct (Z.eq_dec x 0) as [->|]; [simpl; lia|]. apply (proj1 (Z.log2_lt_pow2 x 16 ltac:(lia))). lia.
  - destruct (Z.eq_dec y 0) as [->|]; [simpl; lia|]. apply (proj1 (Z.log2_lt_pow2 y 16 ltac:(lia))). lia.
Qed.

(** Repr only looks at the descriptors and the trees *)
Lemma Repr_ext : forall l l' x, l_dds l' = l_dds l -> l_tree l' = l_tree l -> Repr l x -> Repr l' x.
Proof. intros l l' x Hd Ht [A B]. split; [assumption|]. rewrite Hd, Ht. exact B. Qed.

(* ================= C. effect of the mfan.c routines on trees and atoms ========================================= *)
Definition tgt (ty tag : Z) (d : dd) : Z * Z := if is_data_type ty then decode_target (d_data d) else (tag, d_ref d).

Lemma load_tree_spec : forall ty tag els s s' t,
  Inv s -> (forall d, In d els -> 1 <= d_ref d <= MAX_REF) -> load_tree ty tag els s = Some s' -> l_tree s ty = Some t ->
  exists t', l_tree s' ty = Some t' /\
    (forall k e, In (k, e) t' -> In (k, e) t \/
        exists d, In d els /\ k = AN_CREATE_KEY ty (d_ref d) /\ e_annref e = d_ref d /\
                  (e_elmtag e, e_elmref e) = tgt ty tag d /\ l_next s <= e_id e) /\
    (forall k e, In (k, e) t -> In (k, e) t') /\
    (forall d, In d els -> exists e, In (AN_CREATE_KEY ty (d_ref d), e) t' /\ (e_elmtag e, e_elmref e) = tgt ty tag d) /\
    (forall id nd, zassoc id (l_atoms s') = Some nd -> zassoc id (l_atoms s) = Some nd \/ (l_next s <= id /\ n_new nd = false)) /\
    (forall id, id < l_next s -> zassoc id (l_atoms s') = zassoc id (l_atoms s)) /\ l_next s <= l_next s'.
Proof.
  induction els as [|d rest IH]; simpl; intros s s' t HI Hr H Ht.
  - inversion H; subst. exists t. split; [assumption|]. repeat split; auto; try lia; try (intros d []).
  - destruct (add_core s ty (d_ref d) _ _ false) as [[s1 id]|] eqn:E; [|discriminate].
    destruct (add_core_Inv _ _ _ _ _ _ _ _ HI (Hr d (or_introl eq_refl)) E) as [HI1 [Hid [Hd [Hn [Hto [[t0 [t1 [A [B C]]]] Hat]]]]]].
    rewrite Ht in A. inversion A; subst t0.
    destruct (IH s1 s' t1 HI1 (fun x Hx => Hr x (or_intror Hx)) H B) as [t' [Ht' [P1 [P2 [P3 [P4 [P5 P6]]]]]]].
    assert (Hnx : l_next s1 = l_next s + 1) by (unfold add_core in E; rewrite Ht in E; destruct (tins _ _ t); inversion E; subst; reflexivity).
    exists t'. split; [assumption|]. split; [|split; [|split; [|split; [|split]]]].
    + intros k e Hin. destruct (P1 k e Hin) as [X|[d0 [X1 X2]]].
      * apply (tins_In _ _ _ _ C) in X. destruct X as [X|X]; [|left; assumption].
        inversion X; subst. right. exists d. split; [left; reflexivity|]. simpl.
        repeat split; try reflexivity; try lia. unfold tgt. destruct (is_data_type ty); simpl; try reflexivity; symmetry; apply surjective_pairing.
      * right. exists d0. split; [right; assumption|]. destruct X2 as [Y1 [Y2 [Y3 Y4]]]. repeat split; auto. lia.
    + intros k e Hin. apply P2. apply (tins_In _ _ _ _ C). right. assumption.
    + intros d0 [->|Hd0]; [|apply P3; assumption].
      eexists. split; [apply P2; apply (tins_In _ _ _ _ C); left; reflexivity|]. simpl. unfold tgt. destruct (is_data_type ty); simpl; try reflexivity; symmetry; apply surjective_pairing.
    + intros i nd Hz. destruct (P4 i nd Hz) as [X|[X1 X2]].
      * rewrite Hat in X. simpl in X. destruct (i =? id) eqn:Ei; [|left; assumption].
        apply Z.eqb_eq in Ei. inversion X; subst. right. simpl. split; [lia | reflexivity].
      * right. split; [lia | assumption].
    + intros i Hi. rewrite P5 by lia. rewrite Hat. simpl. destruct (i =? id) eqn:Ei; [apply Z.eqb_eq in Ei; lia | reflexivity].
    + lia.
Qed.

Lemma tins_length : forall t k e t', tins k e t = Some t' -> length t' = S (length t).
Proof.
  induction t as [|[k' e'] r IH]; simpl; intros k e t' H.
  - inversion H; reflexivity.
  - destruct (_ =? 0); [discriminate|]. destruct (_ <? 0); [inversion H; reflexivity|].
    destruct (tins k e r) eqn:E; [|discriminate]. inversion H; subst. simpl. rewrite (IH _ _ _ E). reflexivity.
Qed.

Lemma load_tree_length : forall ty tag els s s' t, load_tree ty tag els s = Some s' -> l_tree s ty = Some t ->
  exists t', l_tree s' ty = Some t' /\ length t' = (length t + length els)%nat.
Proof.
  induction els as [|d rest IH]; simpl; intros s s' t H Ht.
  - inversion H; subst. exists t. split; [assumption | lia].
  - destruct (add_core s ty (d_ref d) _ _ false) as [[s1 id]|] eqn:E; [|discriminate].
    destruct (add_core_tree _ _ _ _ _ _ _ _ E) as [t0 [t1 [A [B [C _]]]]]. rewrite Ht in A. inversion A; subst t0.
    destruct (IH _ _ _ H B) as [t' [X Y]]. exists t'. split; [assumption|]. rewrite Y, (tins_length _ _ _ _ C). lia.
Qed.

Lemma load_tree_some : forall ty tag els s t, tyok ty -> l_tree s ty = Some t ->
  NoDup (map d_ref els) -> (forall d, In d els -> 1 <= d_ref d <= MAX_REF) ->
  (forall d k, In d els -> In k (tkeys t) -> exists r, k = AN_CREATE_KEY ty r /\ 0 <= r < 65536 /\ r <> d_ref d) ->
  exists s', load_tree ty tag els s = Some s'.
Proof.
  induction els as [|d rest IH]; simpl; intros s t Hty Ht ND Hr Hk; [eauto|].
  inversion ND as [|? ? Hn ND']; subst.
  assert (Hfresh : ~ In (AN_CREATE_KEY ty (d_ref d)) (tkeys t)).
  { intros X. destruct (Hk d _ (or_introl eq_refl) X) as [r [E [R N]]].
    pose proof (Hr d (or_introl eq_refl)) as Rd. rewrite MAX_REF_val in Rd.
    apply key_inj in E; try (unfold tyok in Hty; lia). }
  unfold add_core. rewrite Ht.
  match goal with |- context [tins ?k ?e t] => destruct (tins_some t k e Hfresh) as [t1 E1]; rewrite E1 end.
  eapply IH; [exact Hty | simpl; apply upd_same | exact ND' | intros; apply Hr; right; assumption |].
  intros d0 k Hd0 Hkin. apply (tins_keys _ _ _ _ E1) in Hkin. destruct Hkin as [->|Hkin].
  - exists (d_ref d). pose proof (Hr d (or_introl eq_refl)) as Rd. rewrite MAX_REF_val in Rd. split; [reflexivity|]. split; [lia|].
    intros X. apply Hn. rewrite X. apply in_map. assumption.
  - apply (Hk d0 k (or_intror Hd0) Hkin).
Qed.

Lemma of_tag_refs_NoDup : forall tag dds, NoDup (map ddkey dds) -> NoDup (map d_ref (of_tag tag dds)).
Proof.
  induction dds as [|x t IH]; simpl; intros ND; [constructor|]. inversion ND as [|? ? Hn ND']; subst.
  destruct (d_tag x =? tag) eqn:E; simpl; [|auto]. apply Z.eqb_eq in E. constructor; [|auto].
  intros X. apply in_map_iff in X. destruct X as [y [Ey Hy]]. apply of_tag_In in Hy. destruct Hy as [Hy Ty].
  apply Hn. replace (ddkey x) with (ddkey y) by (unfold ddkey; congruence). apply in_map. assumption.
Qed.

Definition Good (l : lstate) : Prop := Inv l /\ TF l.

Lemma tgt_target : forall ty d, d_tag d = tag_of_type ty -> tgt ty (tag_of_type ty) d = target_of ty d.
Proof. intros ty d H. unfold tgt, target_of. rewrite H. reflexivity. Qed.

Lemma target_range : forall ty d, tyok ty -> d_tag d = tag_of_type ty -> 1 <= d_ref d <= MAX_REF ->
  0 <= fst (target_of ty d) < 65536 /\ 0 <= snd (target_of ty d) < 65536.
Proof.
  intros ty d Hty Ht Hr. unfold target_of. destruct (is_data_type ty).
  - unfold decode_target. simpl. split; apply uint16_decode_range.
  - simpl. rewrite Ht. rewrite MAX_REF_val in Hr. split; [|lia]. unfold tyok in Hty.
    assert (ty = 0 \/ ty = 1 \/ ty = 2 \/ ty = 3) as [-> | [-> | [-> | ->]]] by lia; vm_compute; split; congruence.
Qed.

(** loading the tree of a type: always succeeds, changes nothing that exists *)
Lemma create_tree_Good : forall s ty s' n, Good s -> tyok ty -> ANIcreate_ann_tree s ty = (s', n) ->
  Good s' /\ n <> FAILV /\ l_dds s' = l_dds s /\ (forall x, Repr s' x <-> Repr s x) /\
  (exists t, l_tree s' ty = Some t) /\ (forall ty', ty' <> ty -> l_tree s' ty' = l_tree s ty') /\
  (forall id, id < l_next s -> zassoc id (l_atoms s') = zassoc id (l_atoms s)) /\ l_next s <= l_next s'.
Proof.
  intros s ty s' n [HI HT] Hty H.
  destruct (create_tree_Inv _ _ _ _ HI Hty H) as [HI' [Hd [_ Hoth]]].
  unfold ANIcreate_ann_tree in H. destruct (l_num s ty =? -1) eqn:En; simpl in H.
  2:{ inversion H; subst s' n. apply Z.eqb_neq in En. split; [split; assumption|].
      assert (exists t, l_tree s ty = Some t) as [t Ht].
      { destruct (l_tree s ty) eqn:E; [eauto|]. apply (inv_num _ HI) in E. contradiction. }
      split; [rewrite (tf_num _ HT _ _ Ht); unfold zlen, FAILV; lia|]. split; [reflexivity|]. split; [intros; tauto|].
      split; [eauto|]. split; [auto|]. split; [auto | lia]. }
  apply Z.eqb_eq in En. assert (Hnone : l_tree s ty = None) by (apply (inv_num _ HI); assumption).
  destruct (proj2 (atype2tag_iff ty (tag_of_type ty)) (conj Hty eq_refl)) as []. 
  assert (Et : atype2tag ty = Some (tag_of_type ty)) by (apply atype2tag_iff; auto). rewrite Et in H.
  set (tag := tag_of_type ty) in *. set (els := of_tag tag (l_dds s)) in *.
  set (s0 := set_tree s ty (Some []) 0) in *.
  pose proof (Inv_open_tree s ty HI Hty Hnone) as HI0.
  assert (Hels : forall d, In d els -> 1 <= d_ref d <= MAX_REF) by (intros d Hd0; apply (inv_refs _ HI); apply (of_tag_In _ _ _ Hd0)).
  destruct (load_tree_some ty tag els s0 [] Hty) as [s1 El]; [simpl; apply upd_same | apply of_tag_refs_NoDup; apply (tf_nodup _ HT) | exact Hels | intros d k _ []|].
  rewrite El in H. inversion H; subst s' n; clear H.
  destruct (load_tree_spec ty tag els s0 s1 [] HI0 Hels El) as [t' [Ht' [P1 [P2 [P3 [P4 [P5 P6]]]]]]]; [simpl; apply upd_same|].
  destruct (load_tree_length _ _ _ _ _ [] El) as [t'' [Ht'' Hlen]]; [simpl; apply upd_same|]. rewrite Ht' in Ht''. inversion Ht''; subst t''.
  destruct (load_tree_Inv _ _ _ _ _ HI0 Hels El) as [HI1 [Hd1 [Hn1 Ht1]]].
  assert (Htree : forall ty', l_tree (set_tree s1 ty (l_tree s1 ty) (zlen els)) ty' = l_tree s1 ty').
  { intros ty'. simpl. unfold upd. destruct (ty' =? ty) eqn:E; [apply Z.eqb_eq in E; subst|]; reflexivity. }
  assert (Hothers : forall ty', ty' <> ty -> l_tree s1 ty' = l_tree s ty').
  { intros ty' N. rewrite Ht1 by assumption. simpl. apply upd_other. assumption. }
  assert (Hentry_dd : forall k e, In (k, e) t' -> exists d, In d (l_dds s) /\ d_tag d = tag /\ d_ref d = e_annref e /\
                        k = AN_CREATE_KEY ty (d_ref d) /\ (e_elmtag e, e_elmref e) = target_of ty d).
  { intros k e Hin. destruct (P1 k e Hin) as [[]|[d [Hd0 [K [R [T _]]]]]]. apply of_tag_In in Hd0. destruct Hd0 as [A B].
    exists d. repeat split; auto. rewrite <- (tgt_target ty d B). exact T. }
  assert (TF' : TF (set_tree s1 ty (l_tree s1 ty) (zlen els))).
  { constructor; simpl; rewrite ?Hd1; simpl.
    - apply (tf_nodup _ HT).
    - apply (tf_len _ HT).
    - apply (tf_tags _ HT).
    - intros ty' t0 d Htr Hd0 Hg. change (upd (l_tree s1) ty (l_tree s1 ty) ty') with (l_tree (set_tree s1 ty (l_tree s1 ty) (zlen els)) ty') in Htr.
      rewrite Htree in Htr. destruct (Z.eq_dec ty' ty) as [->|N].
      + rewrite Ht' in Htr. inversion Htr; subst t0. destruct (P3 d) as [e [A B]].
        { unfold els, of_tag. apply filter_In. split; [assumption | apply Z.eqb_eq; assumption]. }
        exists e. split; [assumption|]. rewrite <- (tgt_target ty d Hg). exact B.
      + rewrite Hothers in Htr by assumption. apply (tf_file _ HT ty' t0 d Htr Hd0 Hg).
    - intros ty' t0 k e nd Htr Hin Hz Hnew.
      change (upd (l_tree s1) ty (l_tree s1 ty) ty') with (l_tree (set_tree s1 ty (l_tree s1 ty) (zlen els)) ty') in Htr.
      rewrite Htree in Htr. destruct (Z.eq_dec ty' ty) as [->|N].
      + rewrite Ht' in Htr. inversion Htr; subst t0. destruct (Hentry_dd k e Hin) as [d [A [B [C _]]]]. exists d. auto.
      + rewrite Hothers in Htr by assumption.
        destruct (inv_tree _ HI ty' t0 Htr) as [_ [_ Hent]]. destruct (Hent k e Hin) as [_ [_ [nd0 [Z0 _]]]].
        pose proof (inv_ids _ HI _ _ (zassoc_In _ _ _ _ Z0)) as Hlt.
        rewrite P5 in Hz by (simpl; lia). simpl in Hz. apply (tf_old _ HT ty' t0 k e nd Htr Hin Hz Hnew).
    - intros ty' t0 Htr. change (upd (l_tree s1) ty (l_tree s1 ty) ty') with (l_tree (set_tree s1 ty (l_tree s1 ty) (zlen els)) ty') in Htr.
      rewrite Htree in Htr. unfold upd. destruct (ty' =? ty) eqn:E.
      + apply Z.eqb_eq in E. subst ty'. rewrite Ht' in Htr. inversion Htr; subst t0. unfold zlen. rewrite Hlen. simpl. reflexivity.
      + apply Z.eqb_neq in E. rewrite Hn1. simpl. rewrite upd_other by assumption. rewrite Hothers in Htr by assumption.
        apply (tf_num _ HT _ _ Htr).
    - intros ty' t0 k e Htr Hin. change (upd (l_tree s1) ty (l_tree s1 ty) ty') with (l_tree (set_tree s1 ty (l_tree s1 ty) (zlen els)) ty') in Htr.
      rewrite Htree in Htr. destruct (Z.eq_dec ty' ty) as [->|N].
      + rewrite Ht' in Htr. inversion Htr; subst t0. destruct (Hentry_dd k e Hin) as [d [A [B [C [_ T]]]]].
        pose proof (target_range ty d Hty B (inv_refs _ HI d A)) as R. rewrite <- T in R. exact R.
      + rewrite Hothers in Htr by assumption. apply (tf_range _ HT ty' t0 k e Htr Hin). }
  split; [split; assumption|]. split; [unfold zlen, FAILV; lia|]. split; [assumption|].
  split.
  { intros [[xt xr] xg xf xtx]. unfold Repr. cbn [a_key a_text a_ttag a_tref fst snd]. rewrite Hd. destruct (Z.eq_dec xt ty) as [E|N].
    - subst xt. split; intros [[A R] [B|[B1 [B2 [t0 [e [C1 [C2 C3]]]]]]]]; (split; [split; assumption|]); try (left; exact B); exfalso.
      + rewrite Htree, Ht' in C1. inversion C1; subst t0. destruct (Hentry_dd _ _ C2) as [d [D1 [D2 [D3 [D4 _]]]]].
        pose proof (inv_refs _ HI d D1) as Rd. rewrite MAX_REF_val in *.
        apply key_inj in D4; try (unfold tyok in Hty; lia). destruct D4 as [_ D4].
        apply (hfind_none _ _ _ B2 d D1 D2). symmetry. exact D4.
      + rewrite Hnone in C1. discriminate.
    - rewrite Htree, Hothers by assumption. tauto. }
  split; [exists t'; rewrite Htree; assumption|]. split; [intros ty' N; rewrite Htree; apply Hothers; assumption|].
  split; [intros id Hid; simpl; apply P5; simpl; assumption | simpl; simpl in P6; assumption].
Qed.
