(** Extraction of the C07 specification (ExtrOcamlBasic only). *)
Require Import H4.VTableSpec.
Require Extraction.
Require ExtrOcamlBasic.
Extraction "../extract/gen/vtable_spec.ml" VTableSpec.step VTableSpec.init.
