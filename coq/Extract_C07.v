(** Extraction of the C07 specification and implementation model (ExtrOcamlBasic only). *)
Require Import H4.VTableSpec H4.VSModel.
Require Extraction.
Require ExtrOcamlBasic.
Extraction "../extract/gen/vtable_spec.ml" VTableSpec.step VTableSpec.init.
Extraction "../extract/gen/vs_model.ml" m_fdefine m_setfields_w m_setfields_r m_vsseek m_vswrite m_vswrite_lens m_vswrite_lens_checked
  m_vsread m_vsread_lens m_vsread_lens_checked m_vpackvs m_vunpackvs m_setname m_setclass m_vssizeof m_vsfexist m_fpack_layout m_pack m_unpack.
