(** Extraction of the C02 format specification = the independent reader h4read (ExtrOcamlBasic only;
    Z / positive / nat stay inductive). *)
Require Import H4.FmtSpec H4.FmtModel.
Require Extraction.
Require ExtrOcamlBasic.
Extraction "../extract/gen/fmt_spec.ml"
  parse_file all_dds live find_dd is_special base_tag p_special raw_of
  chk_blocks chk_nodup chk_extents chk_overlap chk_special chk_vrecords wf_check
  element data_extents datainfo_answer parse_vh parse_vg special_ok vrecord_ok extent_ok sub p_linktable
  orphan_blocks p_sdd luf_nth palettes pal_answer attr_find gr_getpalinfo sd_attr_lookup vsattr_nth vs_getattdatainfo_entry
  special_encode vh_encode vg_encode linktable_encode block_encode dd_encode hl_getdatainfo link_tables.
