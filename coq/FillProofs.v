(** C04 -- the fill pieces add up to the run; the row fill runs and the selection's span tile the row; pins of the
    statement texts (and their order) the models transcribe. *)
From Coq Require Import ZArith List Bool Lia String.
Require Import H4.gen.Gen_Chunk H4.FillModel.
Import ListNotations.
Local Open Scope Z_scope.

Lemma fill_statements :
  hdf_xdr_NCvdata_q_stmts =
   ["if elem_length <= 0 && isspecial == 0 && !((vp)->shape != ((void *)0) ? (*(vp)->shape == 0L) : 0) && (handle->flags & 0x100) != 0"%string;
    "if elem_length <= 0 && (handle->flags & 0x100) == 0"%string;
    "if (handle->flags & 0x100) == 0 || isspecial == 3"%string;
    "buf_size = where"%string;
    "chunk_size = (((buf_size) < (1000000)) ? (buf_size) : (1000000))"%string;
    "buf_size -= chunk_size"%string;
    "chunk_size = (((chunk_size) < (buf_size)) ? (chunk_size) : (buf_size))"%string;
    "buf_size > 0"%string;
    "if (handle->flags & 0x100) == 0 || isspecial == 3"%string;
    "buf_size = bytes_left"%string;
    "chunk_size = (((buf_size) < (1000000)) ? (buf_size) : (1000000))"%string;
    "buf_size -= chunk_size"%string;
    "chunk_size = (((chunk_size) < (buf_size)) ? (chunk_size) : (buf_size))"%string;
    "buf_size > 0"%string] /\
  nth 1 GRwriteimage_q_stmts ""%string = "fill_lo_size = (int32)pixel_disk_size * start[0]"%string /\
  nth 2 GRwriteimage_q_stmts ""%string =
    "fill_hi_size = (int32)pixel_disk_size * (ri_ptr->img_dim.xdim - (start[0] + ((count[0] - 1) * stride[0]) + 1))"%string.
Proof. repeat split; reflexivity. Qed.

(** the leading and the trailing fill of a new element are decided by the same test (fill mode on, or a compressed
    element, which can only be laid down whole) and use the same piece loop *)
Lemma fill_sites_agree :
  nth 2 hdf_xdr_NCvdata_q_stmts ""%string = nth 8 hdf_xdr_NCvdata_q_stmts ""%string /\
  firstn 4 (skipn 4 hdf_xdr_NCvdata_q_stmts) = firstn 4 (skipn 10 hdf_xdr_NCvdata_q_stmts).
Proof. destruct fill_statements as (E & _). rewrite E. split; reflexivity. Qed.

Definition zsum (l : list Z) : Z := fold_right Z.add 0 l.

Lemma fill_pieces_sum : forall fuel b c, 1 <= c <= b -> b <= Z.of_nat fuel * c ->
  zsum (fill_pieces fuel b c) = b /\ Forall (fun p => 1 <= p <= c) (fill_pieces fuel b c).
Proof.
  induction fuel as [|f IH]; intros b c Hc Hf.
  - simpl in Hf. lia.
  - cbn [fill_pieces]. rewrite Nat2Z.inj_succ in Hf.
    destruct (Z.ltb_spec 0 (b - c)) as [Hpos|Hnp].
    + destruct (Z.min_spec c (b - c)) as [(Hlt & Hm)|(Hge & Hm)]; rewrite Hm.
      * destruct (IH (b - c) c ltac:(lia) ltac:(nia)) as (S1 & F1). cbn [zsum fold_right] in *. split; [unfold zsum in S1; lia|].
        constructor; [lia|exact F1].
      * assert (Hf1 : (1 <= f)%nat).
        { destruct f; [|lia]. exfalso. change (Z.of_nat 0) with 0 in Hf. lia. }
        destruct (IH (b - c) (b - c) ltac:(lia) ltac:(nia)) as (S1 & F1). cbn [zsum fold_right] in *. split; [unfold zsum in S1; lia|].
        constructor; [lia|]. eapply Forall_impl; [|exact F1]. simpl. intros; lia.
    + cbn [zsum fold_right]. split; [lia|]. constructor; [lia|constructor].
Qed.

(** every fill run of n >= 1 bytes is written completely, in pieces of 1..MAX_SIZE bytes *)
Lemma fill_run_complete : forall fuel n, 1 <= n -> n <= Z.of_nat fuel * Z.min n MAX_SIZE ->
  zsum (fill_run fuel n) = n /\ Forall (fun p => 1 <= p <= MAX_SIZE) (fill_run fuel n).
Proof.
  intros fuel n Hn Hf. unfold fill_run.
  assert (Hc : 1 <= Z.min n MAX_SIZE <= n) by (unfold MAX_SIZE; lia).
  destruct (fill_pieces_sum fuel n (Z.min n MAX_SIZE) Hc Hf) as (S1 & F1). split; [exact S1|].
  eapply Forall_impl; [|exact F1]. simpl. intros a Ha. unfold MAX_SIZE in *. lia.
Qed.

(** a row of a new image: fill in front + span of the strided selection + fill behind = the row, and both fills are
    non-negative exactly when the selection lies inside the row *)
Lemma gr_row_tiles : forall psize xdim sx cx tx, 0 <= psize -> 0 <= sx -> 1 <= cx -> 1 <= tx ->
  sx + (cx - 1) * tx < xdim ->
  gr_fill_lo psize sx + gr_span psize cx tx + gr_fill_hi psize xdim sx cx tx = psize * xdim /\
  0 <= gr_fill_lo psize sx /\ 0 <= gr_fill_hi psize xdim sx cx tx.
Proof. intros. unfold gr_fill_lo, gr_span, gr_fill_hi. repeat split; nia. Qed.
